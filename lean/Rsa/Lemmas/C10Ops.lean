/- C10 helper lemmas: every operation of the model preserves the provenance invariant -/
import Mathlib.Data.List.Perm.Subperm
import Mathlib.Data.List.Forall2
import Rsa.Lemmas.C10Inv

set_option linter.unusedSectionVars false
set_option linter.unusedVariables false
set_option linter.unusedSimpArgs false

namespace Rsa.Rdm

open Rsa

variable {α : Type} [Zero α]

/-! ### generic facts -/

theorem mem_pick_of_lt {β : Type} {d : β} {l : List β} {sel : List Nat} (hsel : ∀ a ∈ sel, a < l.length)
    {x : β} (hx : x ∈ pick d l sel) : x ∈ l := by
  simp only [pick, List.mem_map] at hx
  obtain ⟨a, ha, rfl⟩ := hx
  have := hsel a ha
  rw [List.getD_eq_getElem?_getD, List.getElem?_eq_getElem this]
  exact List.getElem_mem this

theorem pick_map {β γ : Type} (f : β → γ) (d : β) (d' : γ) (l : List β) (sel : List Nat)
    (hsel : ∀ a ∈ sel, a < l.length) : pick d' (l.map f) sel = (pick d l sel).map f := by
  simp only [pick, List.map_map]
  apply List.map_congr_left
  intro a ha
  have := hsel a ha
  simp [List.getD_eq_getElem?_getD, List.getElem?_eq_getElem this]

theorem render_length_of_inv {s0 : Store α} {o : Obj α} {g : GObj} (h : ObjInv s0 o g) :
    ∀ v ∈ o.vecs, v.length = triLen o.nCond := by
  intro v hv
  rw [h.vecs] at hv
  simp only [List.mem_map] at hv
  obtain ⟨r, hr, rfl⟩ := hv
  rw [renderVec_length, h.cpLen r hr]

theorem nRdm_eq {s0 : Store α} {o : Obj α} {g : GObj} (h : ObjInv s0 o g) : o.nRdm = g.rows.length := by
  simp [Obj.nRdm, h.vecs]

/-- rebuild the invariant from the facts the operations establish -/
theorem objInv_of {s0 : Store α} {o : Obj α} {g : GObj}
    (hvec : o.vecs = g.rows.map (fun r => renderVec (initEntry s0 r.src) r.cp))
    (hne : o.vecs ≠ []) (hn : 1 ≤ o.nCond)
    (hcp : ∀ r ∈ g.rows, r.cp.length = o.nCond) (hpp : g.pp.length = o.nCond)
    (hps : ∀ kv ∈ o.pdesc, kv.2.length = o.nCond) (hpv : PVals s0 o.pdesc g.pp)
    (hal : Aligned g.rows g.pp) (hrv : RVals s0 o.rdesc g.rows g.rk) : ObjInv s0 o g :=
  { ncond := hn
    rowsNe := by intro he; rw [he] at hvec; exact hne (by simpa using hvec)
    cpLen := hcp, ppLen := hpp, vecs := hvec, pshape := hps, pvals := hpv, aligned := hal
    rvals := hrv }

/-- size recovery for an object built by `mk2d` from rendered rows of `m ≥ 1` conditions -/
theorem mk2d_ncond {vecs : List (List (Option α))} {od : ODesc} {rd pd : Desc} {o : Obj α}
    (h : mk2d vecs od rd pd = some o) (m : Nat) (hm : 1 ≤ m) (hlen : ∀ v ∈ vecs, v.length = triLen m) :
    o.nCond = m ∧ o.vecs = vecs ∧ vecs ≠ [] ∧ o.pdesc = pd.addIndex m ∧ (∀ kv ∈ pd, kv.2.length = m) ∧
    o.rdesc = rd.addIndex vecs.length := by
  obtain ⟨v, rest, hv, hn, hvecs, _, hrd, hpd, _, hps, _⟩ := mk2d_some h
  have : o.nCond = m := by
    rw [hn, hlen v (by rw [hv]; exact List.mem_cons_self)]
    exact nFromReduced_triLen m hm
  refine ⟨this, hvecs, by rw [hv]; simp, by rw [hpd, this], by rw [← this]; exact hps, hrd⟩

/-! ### selections of RDMs: `getitem`, `subset`, `subsample`, `copy` -/

theorem inv_getitem {s0 : Store α} {o o' : Obj α} {go : GObj} (h : ObjInv s0 o go) {sel : List Nat}
    (ho : o.getitem sel = some o') : ObjInv s0 o' (go.pickRows sel) := by
  unfold Obj.getitem at ho
  split at ho
  swap
  · simp at ho
  rename_i hr
  rw [inRange_iff, nRdm_eq h] at hr
  have hvl : ∀ v ∈ pick [] o.vecs sel, v.length = triLen o.nCond := by
    intro v hv
    have hr' : ∀ a ∈ sel, a < o.vecs.length := by
      intro a ha; rw [h.vecs]; simpa using hr a ha
    exact render_length_of_inv h v (mem_pick_of_lt hr' hv)
  obtain ⟨hn, hvecs, hne, hpd, _, hrd⟩ := mk2d_ncond ho o.nCond h.ncond hvl
  have hrows : ∀ r ∈ (go.pickRows sel).rows, r ∈ go.rows := fun r hr' => mem_pick_of_lt hr hr'
  apply objInv_of
  · rw [hvecs, h.vecs]
    exact pick_map _ default [] go.rows sel hr
  · rw [hvecs]; exact hne
  · rw [hn]; exact h.ncond
  · intro r hr'; rw [hn]; exact h.cpLen r (hrows r hr')
  · rw [hn]; exact h.ppLen
  · rw [hpd, hn]; exact pshape_addIndex h.pshape
  · rw [hpd]; exact pvals_addIndex s0 h.pvals
  · intro r hr'; exact h.aligned r (hrows r hr')
  · rw [hrd]; exact rvals_addIndex s0 _ (by simp [GObj.pickRows, pick_length]) (rvals_pickRows s0 h.rvals hr)

theorem inv_copy {s0 : Store α} {o o' : Obj α} {go : GObj} (h : ObjInv s0 o go)
    (ho : o.copy = some o') : ObjInv s0 o' go := by
  unfold Obj.copy at ho
  obtain ⟨hn, hvecs, hne, hpd, _, hrd⟩ := mk2d_ncond ho o.nCond h.ncond (render_length_of_inv h)
  apply objInv_of
  · rw [hvecs]; exact h.vecs
  · rw [hvecs]; exact hne
  · rw [hn]; exact h.ncond
  · intro r hr; rw [hn]; exact h.cpLen r hr
  · rw [hn]; exact h.ppLen
  · rw [hpd, hn]; exact pshape_addIndex h.pshape
  · rw [hpd]; exact pvals_addIndex s0 h.pvals
  · exact h.aligned
  · rw [hrd]; exact rvals_addIndex s0 _ (by rw [h.vecs]; simp) h.rvals

/-! ### selections of conditions -/

theorem initEntry_symm (s0 : Store α) (src : Nat × Nat) (x y : Nat) :
    initEntry s0 src x y = initEntry s0 src y x := by
  unfold initEntry
  cases s0[src.1]? with
  | none => rfl
  | some o => exact vecToMat_symm _ _ _ _ x y

/-- common core of `subset_pattern`, `subsample_pattern`, `reorder`, `sort_by`, `permute_rdms` -/
theorem inv_pickConds {s0 : Store α} {o o' : Obj α} {go : GObj} (h : ObjInv s0 o go) (sel : List Nat)
    (hne : sel ≠ []) (hn : o'.nCond = sel.length)
    (F : List (Option α) → List (Option α)) (hvecs : o'.vecs = o.vecs.map F)
    (hF : ∀ r ∈ go.rows, F (renderVec (initEntry s0 r.src) r.cp)
        = renderVec (initEntry s0 r.src) (pick none r.cp sel))
    (hpd : ∀ kv ∈ o'.pdesc, kv.1 ≠ "index" → kv ∈ o.pdesc.pick sel)
    (hps : ∀ kv ∈ o'.pdesc, kv.2.length = sel.length)
    (hrv : RVals s0 o'.rdesc go.rows go.rk) : ObjInv s0 o' (go.pickConds sel) := by
  have hlen : 1 ≤ sel.length := by
    cases sel with
    | nil => exact absurd rfl hne
    | cons a t => simp
  apply objInv_of
  · rw [hvecs, h.vecs]
    simp only [GObj.pickConds, List.map_map]
    apply List.map_congr_left
    intro r hr
    simpa [GRow.pickC] using hF r hr
  · rw [hvecs]; intro he
    have := h.rowsNe
    rw [h.vecs] at he
    simp at he
    exact this he
  · omega
  · intro r hr
    simp only [GObj.pickConds, List.mem_map] at hr
    obtain ⟨r0, _, rfl⟩ := hr
    simp [GRow.pickC, pick_length, hn]
  · simp [GObj.pickConds, pick_length, hn]
  · rw [hn]; exact hps
  · exact pvals_mono s0 (pvals_pick s0 o.pdesc go.pp sel h.pvals) hpd
  · exact aligned_pick go.rows go.pp sel h.aligned
  · exact rvals_mapRows s0 hrv _ (fun r => rfl) (fun r => rfl)

theorem mem_addIndex_ne {pd : Desc} {n : Nat} {kv : String × List Lbl} (hkv : kv ∈ pd.addIndex n)
    (hne : kv.1 ≠ "index") : kv ∈ pd := by
  rcases Desc.mem_addIndex hkv with h1 | rfl
  · exact h1
  · exact absurd rfl hne

theorem selSubset_lt (col vals : List Lbl) : ∀ a ∈ selSubset col vals, a < col.length :=
  idxWhere_lt _ col

theorem selSubsample_lt (col vals : List Lbl) : ∀ a ∈ selSubsample col vals, a < col.length := by
  intro a ha
  simp only [selSubsample, List.mem_flatMap] at ha
  obtain ⟨v, _, hv⟩ := ha
  exact idxWhere_lt _ col a hv

theorem col_length {s0 : Store α} {o : Obj α} {go : GObj} (h : ObjInv s0 o go) {b : String}
    {col : List Lbl} (hc : o.pdesc.get b = some col) : col.length = o.nCond :=
  h.pshape _ (Desc.get_mem hc)

theorem inv_subsetPattern {s0 : Store α} {o o' : Obj α} {go : GObj} (h : ObjInv s0 o go)
    {b : String} {vals col : List Lbl} (hc : o.pdesc.get b = some col)
    (ho : o.subsetPattern b vals = some o') : ObjInv s0 o' (go.pickConds (selSubset col vals)) := by
  unfold Obj.subsetPattern at ho
  simp only [hc, Option.bind_eq_bind, Option.bind_some] at ho
  split at ho
  · simp at ho
  rename_i hemp
  have hne : selSubset col vals ≠ [] := by
    intro he; rw [he] at hemp; simp at hemp
  have hcl := col_length h hc
  have hF : ∀ r ∈ go.rows, maskVec (col.map (fun x => vals.contains x))
      (renderVec (initEntry s0 r.src) r.cp)
      = renderVec (initEntry s0 r.src) (pick none r.cp (selSubset col vals)) := by
    intro r hr
    have hl : col.length = r.cp.length := by rw [hcl, h.cpLen r hr]
    rw [maskVec_render _ _ _ (by simpa using hl), selSubset, pick_idxWhere _ _ _ _ hl]
  have hlen1 : 1 ≤ (selSubset col vals).length := by
    cases hs : selSubset col vals with
    | nil => exact absurd hs hne
    | cons a t => simp
  have hvl : ∀ v ∈ o.vecs.map (maskVec (col.map (fun x => vals.contains x))),
      v.length = triLen (selSubset col vals).length := by
    intro v hv
    rw [h.vecs] at hv
    simp only [List.map_map, List.mem_map, Function.comp] at hv
    obtain ⟨r, hr, rfl⟩ := hv
    rw [hF r hr, renderVec_length, pick_length]
  obtain ⟨hn, hvecs, _, hpd, hps, hrd⟩ := mk2d_ncond ho _ hlen1 hvl
  refine inv_pickConds h _ hne hn _ hvecs hF ?_ ?_ ?_
  · intro kv hkv hk; rw [hpd] at hkv; exact mem_addIndex_ne hkv hk
  · rw [hpd]; exact pshape_addIndex hps
  · rw [hrd]; exact rvals_addIndex s0 _ (by rw [h.vecs]; simp) h.rvals

theorem sortNat_mem {l : List Nat} {a : Nat} (h : a ∈ sortNat l) : a ∈ l :=
  (List.mergeSort_perm l _).mem_iff.mp h

theorem inv_subsamplePattern {s0 : Store α} {o o' : Obj α} {go : GObj} (h : ObjInv s0 o go)
    {b : String} {vals col : List Lbl} (hc : o.pdesc.get b = some col)
    (ho : o.subsamplePattern b vals = some o') :
    ObjInv s0 o' (go.pickConds (sortNat (selSubsample col vals))) := by
  unfold Obj.subsamplePattern at ho
  simp only [hc, Option.bind_eq_bind, Option.bind_some] at ho
  obtain ⟨hn, h1, _, hvecs, _, hrd, hpd, _, hps, _⟩ := mk3d_some ho
  have hcl := col_length h hc
  have hsel : ∀ a ∈ sortNat (selSubsample col vals), a < o.nCond := by
    intro a ha; rw [← hcl]; exact selSubsample_lt col vals a (sortNat_mem ha)
  have hne : sortNat (selSubsample col vals) ≠ [] := by
    intro he; rw [he] at h1; simp at h1
  refine inv_pickConds h _ hne hn _ hvecs ?_ ?_ ?_ ?_
  · intro r hr
    have hl := h.cpLen r hr
    rw [← hl]
    exact reindexVec_render _ (initEntry_symm s0 r.src)
      r.cp none _ (by rw [hl]; exact hsel) (Or.inl rfl)
  · intro kv hkv hk; rw [hpd] at hkv; exact mem_addIndex_ne hkv hk
  · rw [hpd]; exact pshape_addIndex hps
  · rw [hrd]; exact rvals_addIndex s0 _ (by rw [h.vecs]; simp) h.rvals

/-! ### permutations: `reorder`, `sort_by`, `permute_rdms` -/

theorem isPermOfRange_perm {p : List Nat} {n : Nat} (h : isPermOfRange p n = true) :
    (List.range n).Perm p := by
  simp only [isPermOfRange, Bool.and_eq_true, beq_iff_eq, List.all_eq_true, List.mem_range,
    List.contains_iff_mem] at h
  have hsub : List.range n ⊆ p := fun a ha => h.2 a (List.mem_range.mp ha)
  exact (List.subperm_of_subset List.nodup_range hsub).perm_of_length_le (by simp [h.1])

theorem isPermOfRange_facts {p : List Nat} {n : Nat} (h : isPermOfRange p n = true) :
    p.length = n ∧ p.Nodup ∧ ∀ a ∈ p, a < n := by
  have hp := isPermOfRange_perm h
  refine ⟨by simpa using hp.length_eq.symm, hp.nodup_iff.mp List.nodup_range, ?_⟩
  intro a ha
  exact List.mem_range.mp (hp.mem_iff.mpr ha)

theorem inv_reorder {s0 : Store α} {o o' : Obj α} {go : GObj} (h : ObjInv s0 o go) {ord : List Nat}
    (ho : o.reorder ord = some o') : ObjInv s0 o' (go.pickConds ord) := by
  unfold Obj.reorder at ho
  split at ho
  swap
  · simp at ho
  rename_i hp
  obtain ⟨hlen, hnd, hlt⟩ := isPermOfRange_facts hp
  simp only [Option.some.injEq] at ho
  subst ho
  have hne : ord ≠ [] := by
    intro he; rw [he] at hlen; have := h.ncond; simp at hlen; omega
  refine inv_pickConds h ord hne (by simp [hlen]) _ rfl ?_ ?_ ?_ ?_
  · intro r hr
    have hl := h.cpLen r hr
    rw [← hl]
    exact reindexVec_render _ (initEntry_symm s0 r.src) r.cp (some 0) ord
      (by rw [hl]; exact hlt) (Or.inr hnd)
  · intro kv hkv _; exact hkv
  · exact pshape_pick
  · exact h.rvals

/-- two objects with the same number of conditions, the same RDMs in the same order and the same
    rdm / object-level descriptors (what re-alignment leaves untouched) -/
def SameRows (a r : Obj α) : Prop :=
  a.nCond = r.nCond ∧ a.rdesc = r.rdesc ∧ a.odesc = r.odesc ∧ a.nRdm = r.nRdm

theorem reorder_nCond {o o' : Obj α} {ord : List Nat} (ho : o.reorder ord = some o') :
    SameRows o' o := by
  unfold Obj.reorder at ho
  split at ho
  · simp only [Option.some.injEq] at ho; subst ho
    exact ⟨rfl, rfl, rfl, by simp [Obj.nRdm]⟩
  · simp at ho

theorem inv_reindex {s0 : Store α} {o : Obj α} {go : GObj} (h : ObjInv s0 o go) (re : Bool) :
    ObjInv s0 (o.reindex re) go := by
  unfold Obj.reindex
  cases re
  · simpa using h
  · simp only [if_true]
    exact { ncond := h.ncond, rowsNe := h.rowsNe, cpLen := h.cpLen, ppLen := h.ppLen, vecs := h.vecs
            pshape := by
              intro kv hkv
              rcases Desc.mem_set hkv with h1 | rfl
              · exact h.pshape kv h1
              · exact rangeLbl_length _
            pvals := pvals_mono s0 h.pvals (fun kv hkv hne => by
              rcases Desc.mem_set hkv with h1 | rfl
              · exact h1
              · exact absurd rfl hne)
            aligned := h.aligned, rvals := h.rvals }

theorem inv_sortAlpha {s0 : Store α} {o o' : Obj α} {go : GObj} (h : ObjInv s0 o go)
    {b : String} {re : Bool} {col : List Lbl} (hc : o.pdesc.get b = some col)
    (ho : o.sortAlpha b re = some o') : ObjInv s0 o' (go.pickConds (argsortStable col)) := by
  unfold Obj.sortAlpha at ho
  simp only [hc, Option.bind_eq_bind, Option.bind_some] at ho
  cases hr : o.reorder (argsortStable col) with
  | none => rw [hr] at ho; simp at ho
  | some o1 =>
    rw [hr] at ho
    simp only [Option.bind_some, Option.pure_def, Option.some.injEq] at ho
    subst ho
    exact inv_reindex (inv_reorder h hr) re

theorem inv_sortList {s0 : Store α} {o o' : Obj α} {go : GObj} (h : ObjInv s0 o go)
    {b : String} {re : Bool} {m col : List Lbl} (hc : o.pdesc.get b = some col)
    (ho : o.sortList b m re = some o') : ObjInv s0 o' (go.pickConds (selSortList col m)) := by
  unfold Obj.sortList at ho
  simp only [hc, Option.bind_eq_bind, Option.bind_some] at ho
  split at ho
  swap
  · simp at ho
  cases hr : o.reorder (selSortList col m) with
  | none => rw [hr] at ho; simp at ho
  | some o1 =>
    rw [hr] at ho
    simp only [Option.bind_some, Option.pure_def, Option.some.injEq] at ho
    subst ho
    exact inv_reindex (inv_reorder h hr) re

theorem inv_permute {s0 : Store α} {o o' : Obj α} {go : GObj} (h : ObjInv s0 o go) {p : List Nat}
    (ho : o.permute p = some o') : ObjInv s0 o' (go.pickConds p) := by
  unfold Obj.permute at ho
  split at ho
  swap
  · simp at ho
  rename_i hp
  obtain ⟨hlen, hnd, hlt⟩ := isPermOfRange_facts hp
  obtain ⟨hn, h1, _, hvecs, _, hrd, hpd, _, hps, _⟩ := mk3d_some ho
  have hne : p ≠ [] := by
    intro he; rw [he] at hlen; have := h.ncond; simp at hlen; omega
  refine inv_pickConds h p hne (by rw [hn, hlen]) _ hvecs ?_ ?_ ?_ (by rw [hrd]; exact rvals_addIndex s0 _ (by rw [h.vecs]; simp) h.rvals)
  · intro r hr
    have hl := h.cpLen r hr
    rw [← hl]
    exact reindexVec_render _ (initEntry_symm s0 r.src) r.cp (some 0) p
      (by rw [hl]; exact hlt) (Or.inr hnd)
  · intro kv hkv hk
    rw [hpd] at hkv
    have hkv' := mem_addIndex_ne hkv hk
    simp only [List.mem_map] at hkv'
    obtain ⟨kv0, h0, rfl⟩ := hkv'
    by_cases hx : kv0.1 = "index"
    · simp only [hx, if_true] at hk; exact absurd rfl hk
    · simp only [hx, if_false]; exact h0
  · rw [hpd, hlen]
    apply pshape_addIndex
    intro kv hkv
    exact hps kv hkv

theorem inv_inversePermute {s0 : Store α} {o o' : Obj α} {go : GObj} (h : ObjInv s0 o go)
    {l : List Int} (hl : o.odesc.lookup "p_inv" = some (Lbl.arr l))
    (ho : o.inversePermute = some o') : ObjInv s0 o' (go.pickConds (l.map Int.toNat)) := by
  unfold Obj.inversePermute at ho
  rw [hl] at ho
  exact inv_permute h ho

/-! ### `append` -/

theorem inv_append {s0 : Store α} {o r o' : Obj α} {go gr : GObj} (h : ObjInv s0 o go)
    (hr : ObjInv s0 r gr) (ho : o.append r = some o') :
    ObjInv s0 o' (gappend o.rdesc.keys go gr) := by
  unfold Obj.append at ho
  split at ho
  swap
  · simp at ho
  rename_i hc
  simp only [Bool.and_eq_true, beq_iff_eq] at hc
  simp only [Option.some.injEq] at ho
  subst ho
  apply objInv_of
  · simp only [gappend, List.map_append, List.map_map]
    rw [h.vecs, hr.vecs]
    rfl
  · simp only; intro he
    have := h.rowsNe
    rw [h.vecs] at he
    simp at he
    exact this he.1
  · exact h.ncond
  · intro x hx
    simp only [gappend, List.mem_append, List.mem_map] at hx
    rcases hx with hx | ⟨x0, hx0, rfl⟩
    · exact h.cpLen x hx
    · simp only [GRow.appended]; rw [hr.cpLen x0 hx0, hc.1]
  · exact h.ppLen
  · exact h.pshape
  · exact h.pvals
  · intro x hx hal
    simp only [gappend, List.mem_append, List.mem_map] at hx
    rcases hx with hx | ⟨x0, hx0, rfl⟩
    · exact h.aligned x hx hal
    · simp [GRow.appended] at hal
  · have hk : ∀ k ∈ o.rdesc.keys, r.rdesc.has k = true := by
      simpa [List.all_eq_true] using hc.2
    have := rvals_append s0 h.rvals hr.rvals hk
    rw [← nRdm_eq h, ← nRdm_eq hr] at this
    exact this

/-! ### several objects: `concat`, `from_partials` -/

theorem forall₂_of_mapM {s0 s : Store α} {g : List GObj} (h : StoreInv s0 s g) :
    ∀ {is : List Nat} {objs : List (Obj α)}, is.mapM (fun i => s[i]?) = some objs →
      ∃ gs, is.mapM (fun i => g[i]?) = some gs ∧ List.Forall₂ (ObjInv s0) objs gs := by
  intro is
  induction is with
  | nil =>
    intro objs ho
    simp only [List.mapM_nil, Option.pure_def, Option.some.injEq] at ho
    subst ho
    exact ⟨[], by simp, List.Forall₂.nil⟩
  | cons i is ih =>
    intro objs ho
    simp only [List.mapM_cons, Option.bind_eq_bind, Option.pure_def, Option.bind_eq_some_iff] at ho
    obtain ⟨o, ho1, os, ho2, ho3⟩ := ho
    simp only [Option.some.injEq] at ho3
    subst ho3
    obtain ⟨go, hg1, hinv⟩ := storeInv_get h ho1
    obtain ⟨gs, hg2, hall⟩ := ih ho2
    refine ⟨go :: gs, ?_, List.Forall₂.cons hinv hall⟩
    simp [List.mapM_cons, hg1, hg2]

theorem inv_alignTo {s0 : Store α} {o o' : Obj α} {go : GObj} (h : ObjInv s0 o go) {t : String}
    {auth : List Lbl} (ho : o.alignTo t auth = some o') :
    ObjInv s0 o' (go.alignTo (alignOrder o t auth)) ∧ SameRows o' o := by
  unfold Obj.alignTo at ho
  cases hc : o.pdesc.get t with
  | none => rw [hc] at ho; simp at ho
  | some other =>
    rw [hc] at ho
    simp only [Option.bind_eq_bind, Option.bind_some, Option.pure_def] at ho
    by_cases he : (other == auth) = true
    · rw [if_pos he] at ho
      simp only [Option.some.injEq] at ho
      subst ho
      have : alignOrder o t auth = none := by simp only [alignOrder, hc, if_pos he]
      rw [this]
      exact ⟨h, rfl, rfl, rfl, rfl⟩
    · rw [if_neg he] at ho
      have : alignOrder o t auth = some (auth.map (fun x => other.idxOf x)) := by
        simp only [alignOrder, hc, if_neg he]
      rw [this]
      split at ho
      · exact ⟨inv_reorder h ho, reorder_nCond ho⟩
      · simp at ho

theorem inv_alignMapM {s0 : Store α} {t : String} {auth : List Lbl} :
    ∀ {rest : List (Obj α)} {grest : List GObj} {aligned : List (Obj α)},
      List.Forall₂ (ObjInv s0) rest grest →
      rest.mapM (fun r => r.alignTo t auth) = some aligned →
      List.Forall₂ (ObjInv s0) aligned
        ((grest.zip (rest.map (fun r => alignOrder r t auth))).map (fun go => go.1.alignTo go.2)) ∧
      List.Forall₂ SameRows aligned rest := by
  intro rest grest aligned hall
  induction hall generalizing aligned with
  | nil =>
    intro ho
    simp only [List.mapM_nil, Option.pure_def, Option.some.injEq] at ho
    subst ho
    exact ⟨List.Forall₂.nil, List.Forall₂.nil⟩
  | cons hx hxs ih =>
    intro ho
    simp only [List.mapM_cons, Option.bind_eq_bind, Option.pure_def, Option.bind_eq_some_iff] at ho
    obtain ⟨a, ha1, as, ha2, ha3⟩ := ho
    simp only [Option.some.injEq] at ha3
    subst ha3
    obtain ⟨h1, h2⟩ := inv_alignTo hx ha1
    obtain ⟨h3, h4⟩ := ih ha2
    exact ⟨List.Forall₂.cons h1 h3, List.Forall₂.cons h2 h4⟩

theorem zip_map_none_alignTo (grest : List GObj) {β : Type} (rest : List β)
    (hlen : rest.length = grest.length) :
    (grest.zip (rest.map (fun _ => (none : Option (List Nat))))).map (fun go => go.1.alignTo go.2) = grest := by
  induction grest generalizing rest with
  | nil => simp
  | cons x xs ih =>
    cases rest with
    | nil => simp at hlen
    | cons r rs =>
      simp only [List.map_cons, List.zip_cons_cons, List.cons.injEq]
      exact ⟨rfl, ih rs (by simpa using hlen)⟩

theorem inv_alignAll {s0 : Store α} {first : Obj α} {rest aligned : List (Obj α)} {grest : List GObj}
    (ot : Option String)
    (hall : List.Forall₂ (ObjInv s0) rest grest) (ho : alignAll first rest ot = some aligned) :
    List.Forall₂ (ObjInv s0) aligned (galignAll first rest grest ot) ∧
    List.Forall₂ SameRows aligned rest := by
  unfold alignAll at ho
  unfold galignAll alignOrders
  cases ot with
  | none =>
    simp only [Option.some.injEq] at ho
    subst ho
    simp only
    rw [zip_map_none_alignTo grest rest hall.length_eq]
    exact ⟨hall, List.forall₂_same.mpr (fun _ _ => ⟨rfl, rfl, rfl, rfl⟩)⟩
  | some t =>
    simp only [Option.bind_eq_bind] at ho
    cases hc : first.pdesc.get t with
    | none => rw [hc] at ho; simp at ho
    | some auth =>
      rw [hc] at ho
      simp only [Option.bind_some] at ho
      have hg : (first.pdesc.get t).getD [] = auth := by rw [hc]; rfl
      simp only [hg]
      exact inv_alignMapM hall ho

theorem forall₂_mem_left {β γ : Type} {R : β → γ → Prop} {l1 : List β} {l2 : List γ}
    (h : List.Forall₂ R l1 l2) {a : β} (ha : a ∈ l1) : ∃ b ∈ l2, R a b := by
  induction h with
  | nil => simp at ha
  | cons hx _ ih =>
    rcases List.mem_cons.mp ha with rfl | ha
    · exact ⟨_, List.mem_cons_self, hx⟩
    · obtain ⟨b, hb, hr⟩ := ih ha
      exact ⟨b, List.mem_cons_of_mem _ hb, hr⟩

theorem forall₂_mem_right {β γ : Type} {R : β → γ → Prop} {l1 : List β} {l2 : List γ}
    (h : List.Forall₂ R l1 l2) {b : γ} (hb : b ∈ l2) : ∃ a ∈ l1, R a b := by
  induction h with
  | nil => simp at hb
  | cons hx _ ih =>
    rcases List.mem_cons.mp hb with rfl | hb
    · exact ⟨_, List.mem_cons_self, hx⟩
    · obtain ⟨a, ha, hr⟩ := ih hb
      exact ⟨a, List.mem_cons_of_mem _ ha, hr⟩


/-! ### merged rdm descriptors follow their rows -/

theorem mergedCol_rcol {s0 : Store α} {key : String} (hne : key ≠ "index") :
    ∀ {objs : List (Obj α)} {gs : List GObj}, List.Forall₂ (ObjInv s0) objs gs →
      (∀ g ∈ gs, key ∈ g.rk) →
      RCol s0 key (mergedCol objs key) (gs.flatMap (fun a => a.rows)) := by
  intro objs gs hall
  induction hall with
  | nil => intro _; exact rcol_nil s0 key
  | @cons o g os gs' hx _ ih =>
    intro hk
    obtain ⟨col, hc, hlen, hv⟩ := hx.rvals.1 key (hk g List.mem_cons_self) hne
    have hn : o.nRdm = col.length := by rw [nRdm_eq hx, hlen]
    have hcol : (List.range o.nRdm).map (mergedVal o key) = col := by
      rw [hn]
      conv_rhs => rw [← map_getD_range col Lbl.none]
      apply List.map_congr_left
      intro r _
      simp [mergedVal, hc]
    simp only [mergedCol, List.flatMap_cons, hcol]
    exact rcol_append s0 ⟨hlen, hv⟩ (ih (fun g' hg' => hk g' (List.mem_cons_of_mem _ hg')))

theorem mergedCol_congr {key : String} :
    ∀ {as rs : List (Obj α)}, List.Forall₂ SameRows as rs → mergedCol as key = mergedCol rs key := by
  intro as rs h
  induction h with
  | nil => rfl
  | @cons a r _ _ hx _ ih =>
    simp only [mergedCol, List.flatMap_cons] at ih ⊢
    rw [ih, hx.2.2.2]
    congr 1
    apply List.map_congr_left
    intro q _
    simp [mergedVal, hx.2.1, hx.2.2.1]

theorem mergedRDesc_get {objs : List (Obj α)} {rd : Desc} (h : mergedRDesc objs = some rd)
    {key : String} (hne : key ≠ "index") (hk : key ∈ mergedNames objs) :
    Desc.get rd key = some (mergedCol objs key) := by
  simp only [mergedRDesc, Option.some.injEq] at h
  subst h
  have := Desc.get_mapKeys
    (fun name => if name = "index" then rangeLbl ((objs.map (·.nRdm)).sum) else mergedCol objs name)
    (mergedNames objs) key hk
  simpa [hne] using this

theorem mem_mergedNames {o : Obj α} {rest : List (Obj α)} {key : String} (hk : key ∈ o.rdesc.keys) :
    key ∈ mergedNames (o :: rest) := by
  simp only [mergedNames, dedupStr]
  rw [mem_uniq]
  simp only [List.flatMap_cons, List.mem_append]
  exact Or.inl (Or.inl hk)

/-- the tracked keys of a merge: present in the merged table, whole column follows the rows -/
theorem rvalsObj_merged {s0 : Store α} {objs0 objs : List (Obj α)} {gs : List GObj} {rd0 rdf : Desc}
    {rows : List GRow}
    (hall : List.Forall₂ (ObjInv s0) objs gs) (hsame : List.Forall₂ SameRows objs objs0)
    (hrd : mergedRDesc objs0 = some rd0)
    (hget : ∀ key c, key ≠ "index" → Desc.get rd0 key = some c → Desc.get rdf key = some c)
    (hsrc : rows.map (·.src) = (gs.flatMap (fun a => a.rows)).map (·.src)) :
    RValsObj s0 rdf rows (commonKeys gs) := by
  intro key hk hne
  have hkall := mem_commonKeys_all hk
  cases hall with
  | nil => simp [commonKeys] at hk
  | @cons o g os gs' hx hxs =>
    cases hsame with
    | @cons _ o0 _ os0 hs1 hs2 =>
      obtain ⟨c, hc, _, _⟩ := hx.rvals.1 key (hkall g List.mem_cons_self) hne
      have hmem : key ∈ mergedNames (o0 :: os0) := by
        apply mem_mergedNames
        rw [← hs1.2.1]
        exact Desc.mem_keys_of_get hc
      have hg0 := mergedRDesc_get hrd hne hmem
      rw [← mergedCol_congr (List.Forall₂.cons hs1 hs2)] at hg0
      have hrc := mergedCol_rcol hne (List.Forall₂.cons hx hxs) hkall
      have hrc' := rcol_of_src_eq s0 hsrc hrc
      exact ⟨_, hget key _ hne hg0, hrc'.1, hrc'.2⟩


/-! ### merged rdm descriptors, row level: every row keeps every key it tracks -/

/-- one column against a list of rows: for every row that tracks `key`, the initial value -/
def RColRow (s0 : Store α) (key : String) (col : List Lbl) (rows : List GRow) : Prop :=
  col.length = rows.length ∧
    ∀ (q : Nat) (r : GRow), rows[q]? = some r → key ∈ r.rk → ∃ v, col[q]? = some v ∧ RVal s0 r.src key v

theorem rcolRow_append (s0 : Store α) {key : String} {c1 c2 : List Lbl} {r1 r2 : List GRow}
    (h1 : RColRow s0 key c1 r1) (h2 : RColRow s0 key c2 r2) : RColRow s0 key (c1 ++ c2) (r1 ++ r2) := by
  refine ⟨by simp [h1.1, h2.1], ?_⟩
  intro q r hr hk
  by_cases hq : q < r1.length
  · rw [List.getElem?_append_left hq] at hr
    obtain ⟨v, hv1, hv2⟩ := h1.2 q r hr hk
    exact ⟨v, by rw [List.getElem?_append_left (by rw [h1.1]; exact hq)]; exact hv1, hv2⟩
  · rw [List.getElem?_append_right (by omega)] at hr
    obtain ⟨v, hv1, hv2⟩ := h2.2 _ r hr hk
    exact ⟨v, by rw [List.getElem?_append_right (by rw [h1.1]; omega), h1.1]; exact hv1, hv2⟩

theorem mergedCol_rcolRow {s0 : Store α} {key : String} (hne : key ≠ "index") :
    ∀ {objs : List (Obj α)} {gs : List GObj}, List.Forall₂ (ObjInv s0) objs gs →
      RColRow s0 key (mergedCol objs key) (gs.flatMap (fun a => a.rows)) := by
  intro objs gs hall
  induction hall with
  | nil => exact ⟨rfl, by intro q r hr; simp at hr⟩
  | @cons o g os gs' hx _ ih =>
    simp only [mergedCol, List.flatMap_cons]
    refine rcolRow_append s0 ⟨by simp [nRdm_eq hx], ?_⟩ ih
    intro q r hr hk
    obtain ⟨col, v, hc, hv1, hv2⟩ := hx.rvals.2.2 q r hr key hk hne
    have hq : q < o.nRdm := by
      rw [nRdm_eq hx]
      by_contra hcon
      rw [List.getElem?_eq_none (by omega)] at hr
      simp at hr
    refine ⟨v, ?_, hv2⟩
    rw [List.getElem?_map, List.getElem?_range hq]
    simp only [Option.map_some, Option.some.injEq, mergedVal, hc]
    exact getD_eq_of_getElem? hv1

theorem mem_mergedNames_of_mem {objs : List (Obj α)} {o : Obj α} (ho : o ∈ objs) {key : String}
    (hk : key ∈ o.rdesc.keys) : key ∈ mergedNames objs := by
  simp only [mergedNames, dedupStr]
  rw [mem_uniq]
  simp only [List.mem_append, List.mem_flatMap]
  exact Or.inl ⟨o, ho, hk⟩

theorem mergedCol_length (objs : List (Obj α)) (key : String) :
    (mergedCol objs key).length = (objs.map (·.nRdm)).sum := by
  induction objs with
  | nil => rfl
  | cons o os ih =>
    simp only [mergedCol, List.flatMap_cons, List.length_append, List.length_map, List.length_range,
      List.map_cons, List.sum_cons] at ih ⊢
    rw [ih]

theorem mergedRDesc_shape {objs : List (Obj α)} {rd : Desc} (h : mergedRDesc objs = some rd) :
    ∀ kv ∈ rd, kv.2.length = (objs.map (·.nRdm)).sum := by
  simp only [mergedRDesc, Option.some.injEq] at h
  subst h
  intro kv hkv
  simp only [List.mem_map] at hkv
  obtain ⟨name, _, rfl⟩ := hkv
  by_cases hn : name = "index"
  · simp [hn, rangeLbl_length]
  · simp [hn, mergedCol_length]

theorem rows_length_sum {s0 : Store α} :
    ∀ {objs : List (Obj α)} {gs : List GObj}, List.Forall₂ (ObjInv s0) objs gs →
      (gs.flatMap (fun a => a.rows)).length = (objs.map (·.nRdm)).sum := by
  intro objs gs hall
  induction hall with
  | nil => rfl
  | cons hx _ ih => simp [List.flatMap_cons, ih, nRdm_eq hx]

theorem nRdm_sum_congr :
    ∀ {as rs : List (Obj α)}, List.Forall₂ SameRows as rs →
      (as.map (·.nRdm)).sum = (rs.map (·.nRdm)).sum := by
  intro as rs h
  induction h with
  | nil => rfl
  | cons hx _ ih => simp [ih, hx.2.2.2]

/-- after a merge every row still tracks, and holds the initial value of, every key it tracked -/
theorem rowVals_merged {s0 : Store α} {objs0 objs : List (Obj α)} {gs : List GObj} {rd0 rdf : Desc}
    {rows : List GRow}
    (hall : List.Forall₂ (ObjInv s0) objs gs) (hsame : List.Forall₂ SameRows objs objs0)
    (hrd : mergedRDesc objs0 = some rd0)
    (hget : ∀ key c, key ≠ "index" → Desc.get rd0 key = some c → Desc.get rdf key = some c)
    (hmem : ∀ kv ∈ rdf, kv ∈ rd0 ∨ kv.2.length = rows.length)
    (hsrc : rows.map (fun r => (r.src, r.rk)) = (gs.flatMap (fun a => a.rows)).map (fun r => (r.src, r.rk))) :
    RowVals s0 rdf rows := by
  have hlen : rows.length = (gs.flatMap (fun a => a.rows)).length := by
    simpa using congrArg List.length hsrc
  refine ⟨?_, ?_⟩
  · intro kv hkv
    rcases hmem kv hkv with h0 | h0
    · rw [mergedRDesc_shape hrd kv h0, hlen, rows_length_sum hall, nRdm_sum_congr hsame]
    · exact h0
  · intro q r hr key hk hne
    have hq : q < (gs.flatMap (fun a => a.rows)).length := by
      rw [← hlen]
      by_contra hcon
      rw [List.getElem?_eq_none (by omega)] at hr
      simp at hr
    have hs : (rows.map (fun r => (r.src, r.rk)))[q]?
        = ((gs.flatMap (fun a => a.rows)).map (fun r => (r.src, r.rk)))[q]? := by rw [hsrc]
    rw [List.getElem?_map, List.getElem?_map, hr, List.getElem?_eq_getElem hq] at hs
    simp only [Option.map_some, Option.some.injEq, Prod.mk.injEq] at hs
    obtain ⟨hs1, hs2⟩ := hs
    set r' := (gs.flatMap (fun a => a.rows))[q] with hr'
    have hk' : key ∈ r'.rk := by rw [← hs2]; exact hk
    -- the object that row belongs to has the key
    have hmemr : r' ∈ gs.flatMap (fun a => a.rows) := List.getElem_mem hq
    simp only [List.mem_flatMap] at hmemr
    obtain ⟨g, hg, hrg⟩ := hmemr
    obtain ⟨o, ho, hinv⟩ := forall₂_mem_right hall hg
    obtain ⟨q', hq', hq''⟩ := List.getElem_of_mem hrg
    obtain ⟨col, _, hc, _, _⟩ := hinv.rvals.2.2 q' r' (by rw [List.getElem?_eq_getElem hq', hq'']) key hk' hne
    obtain ⟨o0, ho0, hso⟩ := forall₂_mem_left hsame ho
    have hnames : key ∈ mergedNames objs0 := by
      apply mem_mergedNames_of_mem ho0
      rw [← hso.2.1]
      exact Desc.mem_keys_of_get hc
    have hg0 := mergedRDesc_get hrd hne hnames
    rw [← mergedCol_congr hsame] at hg0
    obtain ⟨v, hv1, hv2⟩ := (mergedCol_rcolRow hne hall).2 q r' (List.getElem?_eq_getElem hq) hk'
    exact ⟨_, v, hget key _ hne hg0, hv1, by rw [hs1]; exact hv2⟩

/-- both levels -/
theorem rvals_merged {s0 : Store α} {objs0 objs : List (Obj α)} {gs : List GObj} {rd0 rdf : Desc}
    {rows : List GRow}
    (hall : List.Forall₂ (ObjInv s0) objs gs) (hsame : List.Forall₂ SameRows objs objs0)
    (hrd : mergedRDesc objs0 = some rd0)
    (hget : ∀ key c, key ≠ "index" → Desc.get rd0 key = some c → Desc.get rdf key = some c)
    (hmem : ∀ kv ∈ rdf, kv ∈ rd0 ∨ kv.2.length = rows.length)
    (hsrc : rows.map (fun r => (r.src, r.rk)) = (gs.flatMap (fun a => a.rows)).map (fun r => (r.src, r.rk))) :
    RVals s0 rdf rows (commonKeys gs) := by
  refine ⟨rvalsObj_merged hall hsame hrd hget ?_, rowVals_merged hall hsame hrd hget hmem hsrc⟩
  have := congrArg (List.map Prod.fst) hsrc
  simpa [List.map_map, Function.comp_def] using this

theorem flatMap_vecs_render {s0 : Store α} :
    ∀ {objs : List (Obj α)} {gs : List GObj}, List.Forall₂ (ObjInv s0) objs gs →
      objs.flatMap (fun x => x.vecs)
        = (gs.flatMap (fun a => a.rows.map GRow.unaligned)).map
            (fun r => renderVec (initEntry s0 r.src) r.cp) := by
  intro objs gs hall
  induction hall with
  | nil => rfl
  | cons hx _ ih =>
    simp only [List.flatMap_cons, List.map_append, ih, hx.vecs, List.map_map]
    rfl

theorem inv_concatResult {s0 : Store α} {first res : Obj α} {gfirst : GObj} (hf : ObjInv s0 first gfirst)
    {aligned : List (Obj α)} {galigned : List GObj}
    (ha : List.Forall₂ (ObjInv s0) aligned galigned) (hn : ∀ a ∈ aligned, a.nCond = first.nCond)
    {od : ODesc} {rd rd0 : Desc} {rest : List (Obj α)}
    (hsame : List.Forall₂ SameRows aligned rest) (hrd0 : mergedRDesc (first :: rest) = some rd0)
    (hrdeq : rd = rd0.filter (fun kv => kv.1 != "index") ++ rd0.filter (fun kv => kv.1 == "index"))
    (hres : mk2d (first.vecs ++ aligned.flatMap (fun x => x.vecs)) od rd first.pdesc = some res) :
    ObjInv s0 res (gconcat gfirst galigned) := by
  have hvl : ∀ v ∈ first.vecs ++ aligned.flatMap (fun x => x.vecs), v.length = triLen first.nCond := by
    intro v hv
    simp only [List.mem_append, List.mem_flatMap] at hv
    rcases hv with hv | ⟨a, ha1, hv⟩
    · exact render_length_of_inv hf v hv
    · obtain ⟨ga, _, hinv⟩ := forall₂_mem_left ha ha1
      rw [← hn a ha1]
      exact render_length_of_inv hinv v hv
  obtain ⟨hnc, hvecs, hne, hpd, _, hrdres⟩ := mk2d_ncond hres first.nCond hf.ncond hvl
  apply objInv_of
  · rw [hvecs, gconcat]
    simp only [List.map_append]
    rw [← flatMap_vecs_render ha, hf.vecs]
  · rw [hvecs]; exact hne
  · rw [hnc]; exact hf.ncond
  · intro r hr
    simp only [gconcat, List.mem_append, List.mem_flatMap, List.mem_map] at hr
    rw [hnc]
    rcases hr with hr | ⟨ga, hga, r0, hr0, rfl⟩
    · exact hf.cpLen r hr
    · obtain ⟨a, ha1, hinv⟩ := forall₂_mem_right ha hga
      simp only [GRow.unaligned]
      rw [hinv.cpLen r0 hr0]
      exact hn a ha1
  · rw [hnc]; exact hf.ppLen
  · rw [hpd, hnc]; exact pshape_addIndex hf.pshape
  · rw [hpd]; exact pvals_addIndex s0 hf.pvals
  · intro r hr hal
    simp only [gconcat, List.mem_append, List.mem_flatMap, List.mem_map] at hr
    rcases hr with hr | ⟨ga, hga, r0, hr0, rfl⟩
    · exact hf.aligned r hr hal
    · simp [GRow.unaligned] at hal
  · have hvr : (first.vecs ++ aligned.flatMap (fun x => x.vecs)).length
        = (gconcat gfirst galigned).rows.length := by
      rw [gconcat]
      simp only [List.length_append]
      rw [flatMap_vecs_render ha, hf.vecs]
      simp
    rw [hrdres, hrdeq]
    refine rvals_merged (List.Forall₂.cons hf ha)
      (List.Forall₂.cons ⟨rfl, rfl, rfl, rfl⟩ hsame) hrd0 ?_ ?_ ?_
    · intro key c hne hc
      apply Desc.get_addIndex_of_some
      apply Desc.get_append_of_some
      rw [Desc.get_filter_key (fun k => k != "index") rd0 key (by simpa using hne)]
      exact hc
    · intro kv hkv
      rcases Desc.mem_addIndex hkv with h1 | rfl
      · left
        simp only [List.mem_append, List.mem_filter] at h1
        rcases h1 with h1 | h1 <;> exact h1.1
      · right; rw [rangeLbl_length, hvr]
    · simp [gconcat, List.map_flatMap, GRow.unaligned, Function.comp_def]

theorem forall₂_of_mapM_opt {β γ : Type} (f : β → Option γ) :
    ∀ {l : List β} {r : List γ}, l.mapM f = some r → List.Forall₂ (fun a b => f a = some b) l r := by
  intro l
  induction l with
  | nil =>
    intro r h
    simp only [List.mapM_nil, Option.pure_def, Option.some.injEq] at h
    subst h; exact List.Forall₂.nil
  | cons a as ih =>
    intro r h
    simp only [List.mapM_cons, Option.bind_eq_bind, Option.pure_def, Option.bind_eq_some_iff] at h
    obtain ⟨b, hb, bs, hbs, hr⟩ := h
    simp only [Option.some.injEq] at hr
    subst hr
    exact List.Forall₂.cons hb (ih hbs)

theorem map_getD_of_forall₂ {β γ : Type} (f : β → Option γ) (d : γ) {l : List β} {r : List γ}
    (h : List.Forall₂ (fun a b => f a = some b) l r) : l.map (fun a => (f a).getD d) = r := by
  induction h with
  | nil => rfl
  | cons hx _ ih => simp [hx, ih]

theorem flatMap_scatter_render {s0 : Store α} {bigN : Nat} {all : List Lbl} {d : String} :
    ∀ {objs : List (Obj α)} {gs : List GObj} {labs : List (List Lbl)},
      List.Forall₂ (ObjInv s0) objs gs →
      List.Forall₂ (fun (o : Obj α) l => o.pdesc.get d = some l) objs labs →
      (objs.zip labs).flatMap (fun ol =>
          ol.1.vecs.map (scatterVec ol.1.nCond bigN (ol.2.map (fun x => all.idxOf x))))
      = ((gs.zip labs).flatMap (fun gl => gl.1.rows.map (fun r =>
            ({ r with cp := scatterCp bigN (gl.2.map (fun x => all.idxOf x)) r.cp, al := false } : GRow)))).map
          (fun r => renderVec (initEntry s0 r.src) r.cp) := by
  intro objs gs labs hall
  induction hall generalizing labs with
  | nil => intro _; simp
  | @cons o go os gos hx _ ih =>
    intro hl
    cases hl with
    | cons hlab hrest =>
      rename_i lab labs'
      simp only [List.zip_cons_cons, List.flatMap_cons, List.map_append, ih hrest]
      congr 1
      rw [hx.vecs]
      simp only [List.map_map]
      apply List.map_congr_left
      intro r hr
      have hcp := hx.cpLen r hr
      have hll : lab.length = o.nCond := hx.pshape _ (Desc.get_mem hlab)
      simp only [Function.comp]
      rw [← hcp]
      exact scatterVec_render _ (initEntry_symm s0 r.src) r.cp bigN _ (by simp [hll, hcp])

theorem gfromPartials_src (gs : List GObj) (labs : List (List Lbl)) (all : List Lbl)
    (hlen : gs.length = labs.length) :
    (gfromPartials gs labs all).rows.map (fun r => (r.src, r.rk))
      = (gs.flatMap (fun a => a.rows)).map (fun r => (r.src, r.rk)) := by
  simp only [gfromPartials]
  induction gs generalizing labs with
  | nil => simp
  | cons g rest ih =>
    cases labs with
    | nil => simp at hlen
    | cons l ls =>
      simp only [List.zip_cons_cons, List.flatMap_cons, List.map_append, List.map_map]
      rw [ih ls (by simpa using hlen)]
      rfl

theorem inv_fromPartials {s0 : Store α} {objs : List (Obj α)} {gs : List GObj}
    (hall : List.Forall₂ (ObjInv s0) objs gs) {allP : Option (List Lbl)} {d : String} {res : Obj α}
    (ho : fromPartials objs allP d = some res) :
    ObjInv s0 res (gfromPartials gs (objs.map (fun o => (o.pdesc.get d).getD []))
      (fpAll allP (objs.map (fun o => (o.pdesc.get d).getD [])))) := by
  unfold fromPartials at ho
  split at ho
  · simp at ho
  cases hm : objs.mapM (fun o => o.pdesc.get d) with
  | none => rw [hm] at ho; simp at ho
  | some labs =>
    rw [hm] at ho
    simp only at ho
    have hf2 := forall₂_of_mapM_opt _ hm
    have hlabs : objs.map (fun o => (o.pdesc.get d).getD []) = labs := map_getD_of_forall₂ _ [] hf2
    rw [hlabs]
    split at ho
    · simp at ho
    generalize fpAll allP labs = all at ho ⊢
    unfold fromPartialsWith at ho
    split at ho
    · simp at ho
    rename_i hchk
    split at ho
    · simp at ho
    cases hrd : mergedRDesc objs with
    | none => rw [hrd] at ho; simp at ho
    | some rd =>
      rw [hrd] at ho
      simp only at ho
      split at ho
      swap
      · simp at ho
      have hne : all ≠ [] := by
        intro he; rw [he] at hchk; simp at hchk
      have hlen1 : 1 ≤ all.length := by
        cases all with
        | nil => exact absurd rfl hne
        | cons a t => simp
      have hvecs0 := flatMap_scatter_render (bigN := all.length) (all := all) hall hf2
      have hvl : ∀ v ∈ (objs.zip labs).flatMap (fun ol =>
          ol.1.vecs.map (scatterVec ol.1.nCond all.length (ol.2.map (fun x => all.idxOf x)))),
          v.length = triLen all.length := by
        intro v hv
        rw [hvecs0] at hv
        simp only [List.mem_map, List.mem_flatMap] at hv
        obtain ⟨r, ⟨gl, _, r0, _, rfl⟩, rfl⟩ := hv
        simp [renderVec_length, scatterCp]
      obtain ⟨hn, hvecs, hne', hpd, hps, hrdres⟩ := mk2d_ncond ho all.length hlen1 hvl
      apply objInv_of
      · rw [hvecs, hvecs0]; rfl
      · rw [hvecs]; exact hne'
      · omega
      · intro r hr
        simp only [gfromPartials, List.mem_flatMap, List.mem_map] at hr
        obtain ⟨gl, _, r0, _, rfl⟩ := hr
        simp [scatterCp, hn]
      · simp [gfromPartials, hn]
      · rw [hpd, hn]; exact pshape_addIndex hps
      · intro kv _ _ i sp hi
        simp only [gfromPartials] at hi
        rw [List.getElem?_replicate] at hi
        split at hi <;> simp at hi
      · intro r hr hal
        simp only [gfromPartials, List.mem_flatMap, List.mem_map] at hr
        obtain ⟨gl, _, r0, _, rfl⟩ := hr
        simp at hal
      · have hvr : ((objs.zip labs).flatMap (fun ol =>
            ol.1.vecs.map (scatterVec ol.1.nCond all.length (ol.2.map (fun x => all.idxOf x))))).length
            = (gfromPartials gs labs all).rows.length := by
          rw [hvecs0]; simp [gfromPartials]
        rw [hrdres]
        refine rvals_merged hall (List.forall₂_same.mpr (fun _ _ => ⟨rfl, rfl, rfl, rfl⟩)) hrd ?_ ?_ ?_
        · intro key c _ hc
          exact Desc.get_addIndex_of_some _ _ _ _ hc
        · intro kv hkv
          rcases Desc.mem_addIndex hkv with h1 | rfl
          · exact Or.inl h1
          · right; rw [rangeLbl_length, hvr]
        · exact gfromPartials_src gs labs all (by rw [← hall.length_eq, hf2.length_eq])

end Rsa.Rdm
