/- one observation per condition: the pair average is the kernel of the two observations -/
import Rsa.Lemmas.C15Rect
import Rsa.Lemmas.C15Bal

set_option linter.unusedSectionVars false
set_option linter.unusedVariables false

namespace Rsa.Unb

open Finset Rsa.Gen.C15

variable {K : Type} [Field K] [LinearOrder K] [IsStrictOrderedRing K]

/-- with one observation per condition a rectangle sum has a single term -/
theorem rect_single (c : Cfg K) (f : K × K → K) (i0 j0 : Nat) (hi0 : i0 < c.nObs)
    (hj0 : j0 < c.nObs)
    (hinj : ∀ i j, i < c.nObs → j < c.nObs → c.desc i = c.desc j → i = j) :
    (∑ i ∈ range c.nObs, ∑ j ∈ range c.nObs, gO c f (c.desc i0) (c.desc j0) i j)
      = if adm c i0 j0 = true ∧ 0 < (c.kern i0 j0).2 then f (c.kern i0 j0) else 0 := by
  rw [Finset.sum_eq_single i0]
  · rw [Finset.sum_eq_single j0]
    · unfold gO; simp
    · intro j hj hne
      unfold gO
      rw [if_neg]
      rintro ⟨_, h2, _⟩
      exact hne (hinj j j0 (Finset.mem_range.mp hj) hj0 h2)
    · intro h; exact absurd (Finset.mem_range.mpr hj0) h
  · intro i hi hne
    apply Finset.sum_eq_zero; intro j _
    unfold gO
    rw [if_neg]
    rintro ⟨h1, _⟩
    exact hne (hinj i i0 (Finset.mem_range.mp hi) hi0 h1)
  · intro h; exact absurd (Finset.mem_range.mpr hi0) h

/-- one observation per condition, no cross-validation, either weighting: the pair average
    of conditions `desc i0`, `desc j0` is `sim / weight` of the two observations -/
theorem specSim_single (c : Cfg K) (hk : ∀ i j, c.kern i j = c.kern j i) (hcv : c.crossval = false)
    (i0 j0 : Nat) (hi0 : i0 < c.nObs) (hj0 : j0 < c.nObs)
    (hinj : ∀ i j, i < c.nObs → j < c.nObs → c.desc i = c.desc j → i = j)
    (hw : 0 < (c.kern i0 j0).2) :
    specSim c (c.desc i0) (c.desc j0) = some ((c.kern i0 j0).1 / (c.kern i0 j0).2) := by
  obtain ⟨hN, hD⟩ := spec_eq_rect c hk (c.desc i0) (c.desc j0)
  have hadm : adm c i0 j0 = true := by unfold adm; simp [hcv]
  have hcond : adm c i0 j0 = true ∧ 0 < (c.kern i0 j0).2 := ⟨hadm, hw⟩
  rw [rectNum_eq_sum, rect_single c _ i0 j0 hi0 hj0 hinj, if_pos hcond] at hN
  rw [rectDen_eq_sum, rect_single c _ i0 j0 hi0 hj0 hinj, if_pos hcond] at hD
  have hf : (0 : K) < (if c.desc i0 = c.desc j0 then (1 : K) / 2 else 1) := by
    by_cases e : c.desc i0 = c.desc j0 <;> simp [e]
  have hfn := ne_of_gt hf
  have hwn := ne_of_gt hw
  unfold specSim
  rw [hN, hD]
  cases hnum : c.number
  · have hpos : 0 < (if c.desc i0 = c.desc j0 then (1 : K) / 2 else 1) *
        cW false (c.kern i0 j0) := by
      unfold cW; simp only [Bool.false_eq_true, if_false, mul_one]; exact hf
    rw [if_pos hpos]
    congr 1
    unfold cVal cW
    simp only [Bool.false_eq_true, if_false]
    field_simp
  · have hpos : 0 < (if c.desc i0 = c.desc j0 then (1 : K) / 2 else 1) *
        cW true (c.kern i0 j0) := by unfold cW; simp only [if_true]; positivity
    rw [if_pos hpos]
    congr 1
    unfold cVal cW
    simp only [if_true]
    field_simp

/-! ### kernels on complete vectors -/

theorem fstAt_compl (x y : Nat → K) : fstAt (compl x) (compl y) = x := by
  funext c; simp [fstAt, compl]
theorem sndAt_compl (x y : Nat → K) : sndAt (compl x) (compl y) = y := by
  funext c; simp [sndAt, compl]
theorem prodAt_compl (x y : Nat → K) : prodAt (compl x) (compl y) = fun c => x c * y c := by
  funext c; simp [prodAt, compl]
theorem oneAt_compl (x y : Nat → K) : (oneAt (compl x) (compl y) : Nat → K) = fun _ => 1 := by
  funext c; simp [oneAt, compl]

theorem cntValid_compl (P : Nat) (x y : Nat → K) : cntValid P (compl x) (compl y) = P := by
  induction P with
  | zero => rfl
  | succ P ih => rw [cntValid, ih]; simp [validNat, compl]

/-- Poisson kernel on complete preprocessed vectors `(d, l)` -/
theorem poissonK_compl (P : Nat) (dx lx dy ly : Nat → K) :
    poissonK P (fun c => some (dx c, lx c)) (fun c => some (dy c, ly c))
      = (sumTo P (fun c => (dy c - dx c) * (lx c - ly c)) / 2, (P : K)) := by
  unfold poissonK poissonAt oneAt poissonHalf
  simp only [sumTo_one]
  norm_num

/-- centred cross moment = raw moment minus product of sums over `P` -/
theorem centred_moment (P : Nat) (hP : 0 < P) (x y : Nat → K) :
    sumTo P (fun c => (x c - sumTo P x / (P : K)) * (y c - sumTo P y / (P : K)))
      = sumTo P (fun c => x c * y c) - sumTo P x * sumTo P y / (P : K) := by
  have hPK : ((P : Nat) : K) ≠ 0 := by exact_mod_cast (Nat.pos_iff_ne_zero.mp hP)
  simp only [sumTo_eq_sum]
  set sx := ∑ i ∈ range P, x i
  set sy := ∑ i ∈ range P, y i
  have e : ∀ c, (x c - sx / (P : K)) * (y c - sy / (P : K))
      = x c * y c - (sy / (P : K)) * x c - (sx / (P : K)) * y c + sx / (P : K) * (sy / (P : K)) := by
    intro c; ring
  simp only [e, Finset.sum_add_distrib, Finset.sum_sub_distrib, ← Finset.mul_sum,
    Finset.sum_const, Finset.card_range, nsmul_eq_mul]
  field_simp
  ring

/-- one observation per condition, Poisson: `self_x + self_y − 2 cross_xy` of the kernel is
    the symmetrised KL formula of `calc_rdm_poisson` -/
theorem single_poisson_aux (P : Nat) (hP : 0 < P) (dx lx dy ly : Nat → K) :
    (poissonK P (fun c => some (dx c, lx c)) (fun c => some (dx c, lx c))).1 /
      (poissonK P (fun c => some (dx c, lx c)) (fun c => some (dx c, lx c))).2 +
    (poissonK P (fun c => some (dy c, ly c)) (fun c => some (dy c, ly c))).1 /
      (poissonK P (fun c => some (dy c, ly c)) (fun c => some (dy c, ly c))).2 -
    two * ((poissonK P (fun c => some (dx c, lx c)) (fun c => some (dy c, ly c))).1 /
      (poissonK P (fun c => some (dx c, lx c)) (fun c => some (dy c, ly c))).2)
    = balPoisson P dx lx dy ly := by
  have hPK : ((P : Nat) : K) ≠ 0 := by exact_mod_cast (Nat.pos_iff_ne_zero.mp hP)
  rw [poissonK_compl, poissonK_compl, poissonK_compl]
  unfold balPoisson two
  have e : sumTo P (fun c => (dx c - dy c) * (lx c - ly c))
      = - sumTo P (fun c => (dy c - dx c) * (lx c - ly c)) := by
    simp only [sumTo_eq_sum, ← Finset.sum_neg_distrib]
    apply Finset.sum_congr rfl; intro c _; ring
  have z1 : sumTo P (fun c => (dx c - dx c) * (lx c - lx c)) = 0 := by
    simp only [sub_self, mul_zero]; exact sumTo_zero P
  have z2 : sumTo P (fun c => (dy c - dy c) * (ly c - ly c)) = 0 := by
    simp only [sub_self, mul_zero]; exact sumTo_zero P
  simp only [z1, z2, e]
  push_cast
  field_simp
  ring

/-- one observation per condition, correlation: the kernel gives `1 − r` with Pearson's `r`
    in the centred form of `calc_rdm_correlation` (non-constant patterns; `sqrt` any function
    with `sqrt v · sqrt v = v` for positive `v`) -/
theorem single_corr_aux [HasSqrt K]
    (hsqrt : ∀ v : K, 0 < v → HasSqrt.sqrt v * HasSqrt.sqrt v = v)
    (P : Nat) (hP : 0 < P) (x y : Nat → K)
    (hvx : 0 < sumTo P (fun c => x c * x c) - sumTo P x * sumTo P x / (P : K))
    (hvy : 0 < sumTo P (fun c => y c * y c) - sumTo P y * sumTo P y / (P : K)) :
    (corrK false P (compl x) (compl x)).1 / (corrK false P (compl x) (compl x)).2 +
    (corrK false P (compl y) (compl y)).1 / (corrK false P (compl y) (compl y)).2 -
    two * ((corrK false P (compl x) (compl y)).1 / (corrK false P (compl x) (compl y)).2)
    = balCorr P x y := by
  have hPK : (0 : K) < ((P : Nat) : K) := by exact_mod_cast hP
  have hPn := ne_of_gt hPK
  have hx2 : 0 < sumTo P (fun c => x c * x c) := by
    have : 0 ≤ sumTo P x * sumTo P x / (P : K) :=
      div_nonneg (mul_self_nonneg _) (le_of_lt hPK)
    linarith
  have hy2 : 0 < sumTo P (fun c => y c * y c) := by
    have : 0 ≤ sumTo P y * sumTo P y / (P : K) :=
      div_nonneg (mul_self_nonneg _) (le_of_lt hPK)
    linarith
  have hsx := hsqrt _ hvx
  have hsy := hsqrt _ hvy
  have hsx0 : HasSqrt.sqrt (sumTo P (fun c => x c * x c) - sumTo P x * sumTo P x / (P : K)) ≠ 0 := by
    intro h0; rw [h0, mul_zero] at hsx; exact absurd hsx.symm (ne_of_gt hvx)
  have hsy0 : HasSqrt.sqrt (sumTo P (fun c => y c * y c) - sumTo P y * sumTo P y / (P : K)) ≠ 0 := by
    intro h0; rw [h0, mul_zero] at hsy; exact absurd hsy.symm (ne_of_gt hvy)
  unfold corrK balCorr
  simp only [fstAt_compl, sndAt_compl, prodAt_compl, oneAt_compl, cntValid_compl, sumTo_one,
    Bool.false_eq_true, if_false]
  rw [if_pos ⟨hx2, hx2⟩, if_pos ⟨hy2, hy2⟩, if_pos ⟨hx2, hy2⟩]
  rw [centred_moment P hP x y, centred_moment P hP x x, centred_moment P hP y y]
  unfold corrCov corrScale two
  set vx := sumTo P (fun c => x c * x c) - sumTo P x * sumTo P x / (P : K)
  set vy := sumTo P (fun c => y c * y c) - sumTo P y * sumTo P y / (P : K)
  set cxy := sumTo P (fun c => x c * y c) - sumTo P x * sumTo P y / (P : K)
  have e1 : vx / HasSqrt.sqrt vx / HasSqrt.sqrt vx = 1 := by
    rw [div_div, hsx]; exact div_self (ne_of_gt hvx)
  have e2 : vy / HasSqrt.sqrt vy / HasSqrt.sqrt vy = 1 := by
    rw [div_div, hsy]; exact div_self (ne_of_gt hvy)
  rw [e1, e2]
  push_cast
  field_simp
  ring

end Rsa.Unb
