/- helper lemmas for property C16 (model: `Rsa.Core.Store`) -/
import Rsa.Core.Store

set_option linter.unusedSectionVars false
set_option linter.unusedVariables false
set_option linter.unusedSimpArgs false

namespace Rsa.Store

/-! ### strings and the codec -/

theorem decStr_toByteArray (s : String) : decStr s.toByteArray = .ok s := by
  have h : s.toByteArray.IsValidUTF8 := s.isValidUTF8
  simp [decStr, String.fromUTF8?, h, String.fromUTF8]

theorem decStr_toUTF8 (s : String) : decStr s.toUTF8 = .ok s := decStr_toByteArray s

theorem encStr_utf8 (s : String) : encStr .utf8 s = .ok s.toUTF8 := rfl

theorem encStr_ascii_ok (s : String) (h : isAscii s = true) : encStr .ascii s = .ok s.toUTF8 := by
  simp [encStr, h]

theorem encStr_ascii_err (s : String) (h : isAscii s = false) : encStr .ascii s = .error .unicode := by
  simp [encStr, h]

/-- strings a codec accepts -/
def codecOk (c : Codec) (l : List String) : Bool := c = .utf8 || l.all isAscii

theorem encStrs_ok (c : Codec) (l : List String) (h : codecOk c l = true) :
    ∃ bs, encStrs c l = .ok bs ∧ decStrs bs = .ok l := by
  induction l with
  | nil => exact ⟨[], rfl, rfl⟩
  | cons s r ih =>
    have hr : codecOk c r = true := by
      cases c <;> simp_all [codecOk]
    obtain ⟨bs, h1, h2⟩ := ih hr
    have hs : encStr c s = .ok s.toUTF8 := by
      cases c
      · have : isAscii s = true := by simp_all [codecOk]
        exact encStr_ascii_ok s this
      · rfl
    refine ⟨s.toUTF8 :: bs, ?_, ?_⟩
    · simp [encStrs, hs, h1, bind, Except.bind, pure, Except.pure]
    · simp [decStrs, decStr_toByteArray, h2, bind, Except.bind, pure, Except.pure]

theorem encStrs_err (c : Codec) (l : List String) (h : codecOk c l = false) :
    ∃ e, encStrs c l = .error e := by
  induction l with
  | nil => cases c <;> simp [codecOk] at h
  | cons s r ih =>
    cases c with
    | utf8 => simp [codecOk] at h
    | ascii =>
      by_cases hs : isAscii s = true
      · have hr : codecOk .ascii r = false := by
          simp [codecOk, hs] at h ⊢
          exact h
        obtain ⟨e, he⟩ := ih hr
        exact ⟨e, by simp [encStrs, encStr_ascii_ok s hs, he, bind, Except.bind]⟩
      · have hs' : isAscii s = false := by simpa using hs
        exact ⟨.unicode, by simp [encStrs, encStr_ascii_err s hs', bind, Except.bind]⟩

theorem strsOf_map_str (el : List Atom) (h : el.all Atom.isStr = true) :
    (strsOf el).map Atom.str = el := by
  induction el with
  | nil => rfl
  | cons a r ih =>
    cases a with
    | num t x => simp [Atom.isStr] at h
    | str s =>
      simp only [List.all_cons, Bool.and_eq_true] at h
      simp [strsOf, ih h.2]

/-! ### normal forms -/

theorem canon_norm (v : Val) : canon (norm v) = canon v := by
  induction v with
  | none => rfl
  | str s => rfl
  | tens c sh el =>
    simp [norm, canon]
    intro a _
    cases a <;> rfl
  | dnil => rfl
  | dcons k v r ihv ihr => simp [norm, canon, ihv, ihr]

theorem canon_of_norm_eq {a b : Val} (h : norm a = norm b) : canon a = canon b := by
  rw [← canon_norm a, ← canon_norm b, h]

theorem norm_isDict (v : Val) : (norm v).isDict = v.isDict := by
  cases v <;> rfl

/-! ### HDF5 group mapping -/

theorem encode_isGroup (c : Codec) (v : Val) (t : H5) (h : encode c v = .ok t) :
    t.isGroup = true := by
  cases v with
  | dnil => simp [encode] at h; subst h; rfl
  | dcons k v r =>
    simp only [encode, bind, Except.bind] at h
    split at h
    · cases h
    · split at h
      · cases h
      · simp [pure, Except.pure] at h; subst h; rfl
  | none => simp [encode] at h
  | str s => simp [encode] at h
  | tens c' sh el => simp [encode] at h

/-- one non-dictionary value through `_write_to_group` and `_read_group` -/
theorem leaf_roundtrip (c : Codec) (v : Val) (hd : v.isDict = false)
    (hs : storableLeaf c v = true) :
    ∃ item v', encodeLeaf c v = .ok item ∧ item.isGroup = false ∧
      decodeLeaf item = .ok v' ∧ norm v' = norm v := by
  cases v with
  | none => exact ⟨.empty, .none, rfl, rfl, rfl, rfl⟩
  | str s => exact ⟨.attrStr s, .str s, rfl, rfl, rfl, rfl⟩
  | dnil => simp [Val.isDict] at hd
  | dcons k v r => simp [Val.isDict] at hd
  | tens cont sh el =>
    by_cases hn : el.all Atom.isNum = true
    · exact ⟨.dset sh el, .tens .nd sh el, by simp [encodeLeaf, hn], rfl, rfl, rfl⟩
    · have hstr : el.all Atom.isStr = true := by
        simp only [storableLeaf, Bool.or_eq_true, Bool.and_eq_true] at hs
        rcases hs with h | h
        · exact absurd h hn
        · exact h.1
      by_cases ht : cont = .tuple
      · refine ⟨.attrArr sh (strsOf el), .tens .nd sh ((strsOf el).map Atom.str), ?_, rfl, rfl, ?_⟩
        · simp [encodeLeaf, hn, hstr, ht]
        · simp [norm, strsOf_map_str el hstr]
      · have hc : codecOk c (strsOf el) = true := by
          simp only [storableLeaf, Bool.or_eq_true, Bool.and_eq_true] at hs
          rcases hs with h | h
          · exact absurd h hn
          · simp only [codecOk, Bool.or_eq_true]
            rcases h.2 with h2 | h2
            · rcases h2 with h3 | h3
              · simp at h3; exact absurd h3 ht
              · left; exact h3
            · right; exact h2
        obtain ⟨bs, h1, h2⟩ := encStrs_ok c (strsOf el) hc
        refine ⟨.dsetS sh bs, .tens .nd sh ((strsOf el).map Atom.str), ?_, rfl, ?_, ?_⟩
        · simp [encodeLeaf, hn, hstr, ht, h1, bind, Except.bind, pure, Except.pure]
        · simp [decodeLeaf, h2, bind, Except.bind, pure, Except.pure]
        · simp [norm, strsOf_map_str el hstr]

theorem leaf_encode_ok_storable (c : Codec) (v : Val) (item : H5)
    (h : encodeLeaf c v = .ok item) : storableLeaf c v = true ∧ v.isDict = false := by
  cases v with
  | none => exact ⟨rfl, rfl⟩
  | str s => exact ⟨rfl, rfl⟩
  | dnil => simp [encodeLeaf] at h
  | dcons k v r => simp [encodeLeaf] at h
  | tens cont sh el =>
    refine ⟨?_, rfl⟩
    by_cases hn : el.all Atom.isNum = true
    · simp [storableLeaf, hn]
    · by_cases hstr : el.all Atom.isStr = true
      · by_cases ht : cont = .tuple
        · simp [storableLeaf, hstr, ht]
        · by_cases hc : codecOk c (strsOf el) = true
          · simp only [codecOk, Bool.or_eq_true] at hc
            simp only [storableLeaf, Bool.or_eq_true, Bool.and_eq_true]
            right
            refine ⟨hstr, ?_⟩
            rcases hc with h3 | h3
            · left; right; exact h3
            · right; exact h3
          · have hc' : codecOk c (strsOf el) = false := by simpa using hc
            obtain ⟨e, he⟩ := encStrs_err c (strsOf el) hc'
            simp [encodeLeaf, hn, hstr, ht, he, bind, Except.bind] at h
      · simp [encodeLeaf, hn, hstr] at h

/-- the recursive dict ↔ group mapping: every storable dictionary is written and read back to
    a dictionary with the same normal form -/
theorem dict_roundtrip (c : Codec) (d : Val) (hs : storable c d = true) :
    ∃ t d', encode c d = .ok t ∧ decode t = .ok d' ∧ norm d' = norm d := by
  induction d with
  | none => simp [storable] at hs
  | str s => simp [storable] at hs
  | tens cont sh el => simp [storable] at hs
  | dnil => exact ⟨.gnil, .dnil, rfl, rfl, rfl⟩
  | dcons k v r ihv ihr =>
    simp only [storable, Bool.and_eq_true] at hs
    obtain ⟨hv, hr⟩ := hs
    obtain ⟨tr, dr, er, dcr, nr⟩ := ihr hr
    by_cases hd : v.isDict = true
    · simp only [hd, if_true] at hv
      obtain ⟨tv, dv, ev, dcv, nv⟩ := ihv hv
      have hg := encode_isGroup c v tv ev
      refine ⟨.gcons k tv tr, .dcons k dv dr, ?_, ?_, ?_⟩
      · simp [encode, hd, ev, er, bind, Except.bind, pure, Except.pure]
      · simp [decode, hg, dcv, dcr, bind, Except.bind, pure, Except.pure]
      · simp [norm, nv, nr]
    · have hd' : v.isDict = false := by simpa using hd
      simp only [hd', Bool.false_eq_true, if_false] at hv
      obtain ⟨item, v', e1, g1, d1, n1⟩ := leaf_roundtrip c v hd' hv
      refine ⟨.gcons k item tr, .dcons k v' dr, ?_, ?_, ?_⟩
      · simp [encode, hd', e1, er, bind, Except.bind, pure, Except.pure]
      · simp [decode, g1, d1, dcr, bind, Except.bind, pure, Except.pure]
      · simp [norm, n1, nr]

/-- `encode` succeeds only on storable dictionaries (the predicate is exact) -/
theorem encode_ok_storable (c : Codec) (d : Val) (t : H5) (h : encode c d = .ok t) :
    storable c d = true := by
  induction d generalizing t with
  | none => simp [encode] at h
  | str s => simp [encode] at h
  | tens cont sh el => simp [encode] at h
  | dnil => rfl
  | dcons k v r ihv ihr =>
    simp only [encode, bind, Except.bind] at h
    split at h
    · cases h
    · rename_i item hitem
      split at h
      · cases h
      · rename_i rest hrest
        simp only [storable, Bool.and_eq_true]
        refine ⟨?_, ihr rest hrest⟩
        by_cases hd : v.isDict = true
        · simp only [hd, if_true] at hitem ⊢
          exact ihv item hitem
        · have hd' : v.isDict = false := by simpa using hd
          simp only [hd', Bool.false_eq_true, if_false] at hitem ⊢
          exact (leaf_encode_ok_storable c v item hitem).1

end Rsa.Store
