/- helper lemmas for C20: the string primitives of `Rsa.Core.Importers` -/
import Mathlib.Data.List.Basic
import Mathlib.Data.Char
import Rsa.Core.Importers

set_option linter.unusedSectionVars false
set_option linter.unusedVariables false
set_option linter.unusedSimpArgs false

namespace Rsa.Importers

/-! ### split / join -/

theorem splitOn_ne_nil (sep : Char) (s : Str) : splitOn sep s ≠ [] := by
  induction s with
  | nil => simp [splitOn]
  | cons c cs ih =>
    unfold splitOn
    split
    · simp
    · split <;> simp

theorem splitOn_of_not_mem {sep : Char} {s : Str} (h : sep ∉ s) : splitOn sep s = [s] := by
  induction s with
  | nil => rfl
  | cons c cs ih =>
    have hc : c ≠ sep := fun e => h (e ▸ List.mem_cons_self)
    have hcs : sep ∉ cs := fun m => h (List.mem_cons_of_mem _ m)
    simp [splitOn, hc, ih hcs]

theorem splitOn_append_sep {sep : Char} {x : Str} (r : Str) (h : sep ∉ x) :
    splitOn sep (x ++ sep :: r) = x :: splitOn sep r := by
  induction x with
  | nil => simp [splitOn]
  | cons c cs ih =>
    have hc : c ≠ sep := fun e => h (e ▸ List.mem_cons_self)
    have hcs : sep ∉ cs := fun m => h (List.mem_cons_of_mem _ m)
    simp [splitOn, hc, ih hcs]

/-- `sep.join(xs).split(sep) == xs` when no element contains `sep` -/
theorem split_join' {sep : Char} : ∀ {xs : List Str}, xs ≠ [] → (∀ x ∈ xs, sep ∉ x) →
    splitOn sep (joinWith sep xs) = xs
  | [], h, _ => absurd rfl h
  | [x], _, hx => by
    simpa [joinWith] using splitOn_of_not_mem (hx x List.mem_cons_self)
  | x :: y :: r, _, hx => by
    have h1 : sep ∉ x := hx x List.mem_cons_self
    have h2 : ∀ z ∈ y :: r, sep ∉ z := fun z hz => hx z (List.mem_cons_of_mem _ hz)
    rw [joinWith, splitOn_append_sep _ h1, split_join' (by simp) h2]

/-- `sep.join(s.split(sep)) == s` for every string -/
theorem join_split' (sep : Char) (s : Str) : joinWith sep (splitOn sep s) = s := by
  induction s with
  | nil => rfl
  | cons c cs ih =>
    unfold splitOn
    by_cases hc : c = sep
    · subst hc
      simp only [if_true]
      cases h : splitOn c cs with
      | nil => exact absurd h (splitOn_ne_nil _ _)
      | cons a t => rw [h] at ih; simp [joinWith, ih]
    · simp only [hc, if_false]
      cases h : splitOn sep cs with
      | nil => exact absurd h (splitOn_ne_nil _ _)
      | cons a t =>
        rw [h] at ih
        cases t with
        | nil => simp [joinWith] at ih ⊢; exact ih
        | cons b t' => simp [joinWith] at ih ⊢; exact ih

theorem joinWith_cons_append (sep : Char) (x y : Str) (r : List Str) :
    joinWith sep ((x ++ y) :: r) = x ++ joinWith sep (y :: r) := by
  cases r with
  | nil => simp [joinWith]
  | cons z r' => simp [joinWith]

theorem not_mem_joinWith {c sep : Char} (hc : c ≠ sep) :
    ∀ {xs : List Str}, (∀ x ∈ xs, c ∉ x) → c ∉ joinWith sep xs
  | [], _ => by simp [joinWith]
  | [x], h => by simpa [joinWith] using h x List.mem_cons_self
  | x :: y :: r, h => by
    have h1 := h x List.mem_cons_self
    have h2 : ∀ z ∈ y :: r, c ∉ z := fun z hz => h z (List.mem_cons_of_mem _ hz)
    have ih := not_mem_joinWith hc h2
    simp only [joinWith, List.mem_append, List.mem_cons, not_or]
    exact ⟨h1, hc, ih⟩

theorem lastOf_append_singleton (xs : List Str) (f : Str) : lastOf (xs ++ [f]) = f := by
  induction xs with
  | nil => rfl
  | cons x xs ih =>
    cases h : xs ++ [f] with
    | nil => simp at h
    | cons y r => rw [List.cons_append, h, lastOf, ← h, ih]

/-- `basename` of a `/`-joined path whose components contain no `/` -/
theorem basename_join {dirs : List Str} {f : Str} (h : ∀ x ∈ dirs ++ [f], '/' ∉ x) :
    basename (joinWith '/' (dirs ++ [f])) = f := by
  unfold basename
  rw [split_join' (by simp) h, lastOf_append_singleton]

theorem basename_of_not_mem {f : Str} (h : '/' ∉ f) : basename f = f := by
  simp [basename, splitOn_of_not_mem h, lastOf]

theorem lastOf_splitOn_dir (sep : Char) (f : Str) : ∀ d : Str,
    lastOf (splitOn sep (d ++ sep :: f)) = lastOf (splitOn sep f) ∧
      2 ≤ (splitOn sep (d ++ sep :: f)).length
  | [] => by
    cases h : splitOn sep f with
    | nil => exact absurd h (splitOn_ne_nil _ _)
    | cons a t => simp [splitOn, h, lastOf]
  | c :: cs => by
    obtain ⟨ih1, ih2⟩ := lastOf_splitOn_dir sep f cs
    simp only [List.cons_append, splitOn]
    cases hs : splitOn sep (cs ++ sep :: f) with
    | nil => exact absurd hs (splitOn_ne_nil _ _)
    | cons a t =>
      rw [hs] at ih1 ih2
      cases t with
      | nil => simp at ih2
      | cons b t' =>
        by_cases hc : c = sep
        · simp [hc, lastOf, ← ih1]
        · simp [hc, lastOf, ← ih1]

theorem basename_dir (dir : Str) {f : Str} (h : '/' ∉ f) : basename (dir ++ '/' :: f) = f := by
  unfold basename
  rw [(lastOf_splitOn_dir '/' f dir).1, splitOn_of_not_mem h]; rfl

/-! ### os.path.join -/

theorem endsWithSlash_append (x : Str) {b : Str} (hb : b ≠ []) :
    endsWithSlash (x ++ b) = endsWithSlash b := by
  induction x with
  | nil => rfl
  | cons c cs ih =>
    cases h : cs ++ b with
    | nil => simp at h; exact absurd h.2 hb
    | cons y r => rw [List.cons_append, h, endsWithSlash, ← h, ih]

theorem endsWithSlash_of_not_mem {b : Str} (h : '/' ∉ b) : endsWithSlash b = false := by
  induction b with
  | nil => rfl
  | cons c cs ih =>
    have hc : c ≠ '/' := fun e => h (e ▸ List.mem_cons_self)
    have hcs : '/' ∉ cs := fun m => h (List.mem_cons_of_mem _ m)
    cases cs with
    | nil => simp [endsWithSlash, hc]
    | cons y r => simpa [endsWithSlash] using ih hcs

theorem foldl_osJoinStep {rest : List Str} :
    ∀ {acc : Str}, acc ≠ [] → endsWithSlash acc = false →
      (∀ b ∈ rest, b ≠ [] ∧ '/' ∉ b) →
      rest.foldl osJoinStep acc = joinWith '/' (acc :: rest) := by
  induction rest with
  | nil => intro acc _ _ _; rfl
  | cons b r ih =>
    intro acc hne hs hb
    obtain ⟨hb1, hb2⟩ := hb b List.mem_cons_self
    have hstep : osJoinStep acc b = acc ++ '/' :: b := by
      unfold osJoinStep
      have h1 : (['/'] : Str).isPrefixOf b = false := by
        cases b with
        | nil => exact absurd rfl hb1
        | cons c cs =>
          have hc : c ≠ '/' := fun e => hb2 (e ▸ List.mem_cons_self)
          simp [List.isPrefixOf_cons_cons, Ne.symm hc]
      have h2 : (acc == []) = false := by
        cases acc with
        | nil => exact absurd rfl hne
        | cons _ _ => rfl
      simp [h1, h2, hs]
    rw [List.foldl_cons, hstep, ih (by simp) ?_ (fun z hz => hb z (List.mem_cons_of_mem _ hz))]
    · have : acc ++ '/' :: b = (acc ++ ['/']) ++ b := by simp
      rw [this, joinWith_cons_append]; simp [joinWith]
    · have : acc ++ '/' :: b = (acc ++ ['/']) ++ b := by simp
      rw [this, endsWithSlash_append _ hb1, endsWithSlash_of_not_mem hb2]

/-- `os.path.join` of non-empty, `/`-free components is the `/`-join -/
theorem osJoin_eq_joinWith {segs : List Str} (h : ∀ b ∈ segs, b ≠ [] ∧ '/' ∉ b) :
    osJoin segs = joinWith '/' segs := by
  cases segs with
  | nil => rfl
  | cons a rest =>
    obtain ⟨ha1, ha2⟩ := h a List.mem_cons_self
    exact foldl_osJoinStep ha1 (endsWithSlash_of_not_mem ha2)
      (fun z hz => h z (List.mem_cons_of_mem _ hz))

/-! ### replace / startswith -/

theorem isPrefixOf_false_of_mem {pat t : Str} {c : Char} (hc : c ∈ pat) (ht : c ∉ t) :
    pat.isPrefixOf t = false := by
  cases h : pat.isPrefixOf t with
  | false => rfl
  | true => exact absurd (List.IsPrefix.subset (List.isPrefixOf_iff_prefix.mp h) hc) ht

theorem replaceAux_skip (pat rep : Str) (xs l : Str) :
    replaceAux pat rep xs.length (xs ++ l) = replaceAux pat rep 0 l := by
  induction xs with
  | nil => rfl
  | cons x xs ih => simpa [replaceAux] using ih

/-- nothing to replace when a character of the pattern does not occur -/
theorem replaceAux_no_occ {pat rep : Str} {c : Char} (hc : c ∈ pat) :
    ∀ {l : Str}, c ∉ l → replaceAux pat rep 0 l = l
  | [], _ => rfl
  | x :: xs, h => by
    have hxs : c ∉ xs := fun m => h (List.mem_cons_of_mem _ m)
    simp [replaceAux, isPrefixOf_false_of_mem hc h, replaceAux_no_occ hc hxs]

/-- `(pat + l).replace(pat, '') == l` when a character of `pat` does not occur in `l` -/
theorem pyReplace_prefix {pat : Str} {c : Char} (hc : c ∈ pat) {l : Str} (hl : c ∉ l) :
    pyReplace pat [] (pat ++ l) = l := by
  cases pat with
  | nil => simp at hc
  | cons a as =>
    unfold pyReplace
    have hp : (a :: as).isPrefixOf (a :: (as ++ l)) = true := by
      rw [List.isPrefixOf_iff_prefix]; exact ⟨l, by simp⟩
    simp only [List.cons_append, replaceAux, hp, if_true, List.nil_append, List.length_cons,
      Nat.add_sub_cancel]
    rw [replaceAux_skip, replaceAux_no_occ hc hl]

/-- replacing a single character is a `map` -/
theorem pyReplace_char (a b : Char) (s : Str) :
    pyReplace [a] [b] s = s.map (fun x => if x = a then b else x) := by
  unfold pyReplace
  induction s with
  | nil => rfl
  | cons c cs ih =>
    by_cases hc : c = a
    · subst hc
      simp [replaceAux, List.isPrefixOf_cons_cons, List.isPrefixOf, ih]
    · have : (a == c) = false := by simpa using Ne.symm hc
      simp [replaceAux, List.isPrefixOf_cons_cons, this, hc, ih]

/-- deleting a single character is a `filter` -/
theorem pyReplace_delete (a : Char) (s : Str) :
    pyReplace [a] [] s = s.filter (fun x => x != a) := by
  unfold pyReplace
  induction s with
  | nil => rfl
  | cons c cs ih =>
    by_cases hc : c = a
    · subst hc
      simp [replaceAux, List.isPrefixOf_cons_cons, List.isPrefixOf, ih]
    · have : (a == c) = false := by simpa using Ne.symm hc
      simp [replaceAux, List.isPrefixOf_cons_cons, this, hc, ih]

/-- two names that differ within their first two characters are no prefixes of each other -/
theorem prefix_mismatch {X Y : Str} (r : Str) (hx : 2 ≤ X.length) (hy : 2 ≤ Y.length)
    (h : (X.take 2 == Y.take 2) = false) : (X ++ ['-']).isPrefixOf (Y ++ r) = false := by
  match X, Y, hx, hy with
  | a :: b :: X', c :: d :: Y', _, _ =>
    simp only [List.take, List.cons_append, List.isPrefixOf_cons_cons]
    by_cases h1 : a = c
    · by_cases h2 : b = d
      · subst h1; subst h2; simp at h
      · have : (b == d) = false := by simpa using h2
        simp [this]
    · have : (a == c) = false := by simpa using h1
      simp [this]

/-- `<name>-` is no prefix of `<suffix>.<ext>` when the name has no `.` and the suffix no `-` -/
theorem prefix_last_false : ∀ (n s e : Str), '.' ∉ n → '-' ∉ s →
    (n ++ ['-']).isPrefixOf (s ++ '.' :: e) = false
  | [], [], e, _, _ => by simp [List.isPrefixOf_cons_cons]
  | [], c :: s, e, _, hs => by
    have : c ≠ '-' := fun h => hs (h ▸ List.mem_cons_self)
    simp [List.isPrefixOf_cons_cons, Ne.symm this]
  | a :: n, [], e, hn, _ => by
    have : a ≠ '.' := fun h => hn (h ▸ List.mem_cons_self)
    simp [List.isPrefixOf_cons_cons, this]
  | a :: n, c :: s, e, hn, hs => by
    have ih := prefix_last_false n s e (fun m => hn (List.mem_cons_of_mem _ m))
      (fun m => hs (List.mem_cons_of_mem _ m))
    simp only [List.cons_append, List.isPrefixOf_cons_cons] at ih ⊢
    simp [ih]

/-! ### string order -/

theorem strLe_total : ∀ a b : Str, (strLe a b || strLe b a) = true
  | [], _ => by simp [strLe]
  | _ :: _, [] => by simp [strLe]
  | a :: as, b :: bs => by
    have ih := strLe_total as bs
    unfold strLe
    rcases lt_trichotomy a b with h | h | h
    · simp [h]
    · subst h; simpa using ih
    · simp [h, not_lt_of_gt h]

theorem strLe_trans : ∀ a b c : Str, strLe a b = true → strLe b c = true → strLe a c = true
  | [], _, _, _, _ => by simp [strLe]
  | _ :: _, [], _, h, _ => by simp [strLe] at h
  | _ :: _, _ :: _, [], _, h => by simp [strLe] at h
  | a :: as, b :: bs, c :: cs, h1, h2 => by
    have ih := strLe_trans as bs cs
    unfold strLe at h1 h2 ⊢
    rcases lt_trichotomy a b with hab | hab | hab
    · rcases lt_trichotomy b c with hbc | hbc | hbc
      · simp [lt_trans hab hbc]
      · subst hbc; simp [hab]
      · simp [hbc, not_lt_of_gt hbc] at h2
    · subst hab
      rcases lt_trichotomy a c with hbc | hbc | hbc
      · simp [hbc]
      · subst hbc; simp at h1 h2 ⊢; exact ih h1 h2
      · simp [hbc, not_lt_of_gt hbc] at h2
    · simp [hab, not_lt_of_gt hab] at h1

end Rsa.Importers
