/-
  Helper lemmas for C03, whitening part (reusable by C07 / C08):
    * list sums over `List.range` as `Finset.range` sums; inner products and matrix–vector
      products of lists as such sums (`dot_eq_sum_range`, `dot_matVec`);
    * the quadratic form `Q V m f g = Σ_i Σ_j f i · V_ij · g j`, symmetry, and the
      Cauchy–Schwarz inequality for a symmetric positive (semi)definite `V`
      (`Q_sq_le`) — the Cauchy–Schwarz bridge for whitened similarities;
    * `Σ_k contrast p k · f k = f p.1 − f p.2` and with it `_get_v` = the definition of `V`;
    * tie-averaged ranks are strictly increasing in the value (`rankOf_lt`) and unchanged
      by strictly increasing maps (`rankOf_strictMono`).
-/
import Mathlib.Algebra.QuadraticDiscriminant
import Mathlib.Algebra.BigOperators.Ring.Finset
import Mathlib.Algebra.BigOperators.Intervals
import Mathlib.Algebra.Order.BigOperators.Ring.Finset
import Mathlib.Data.List.GetD
import Rsa.Lemmas.C03
import Rsa.Lemmas.Tri

set_option linter.unusedSectionVars false
set_option linter.unusedVariables false
set_option linter.unusedSimpArgs false

open Finset

namespace Rsa
namespace Compare

/-! ### list sums as `Finset` sums -/

section sums
variable {K : Type} [Field K]

theorem sum_range_map (f : ℕ → K) (n : ℕ) :
    ((List.range n).map f).sum = ∑ i ∈ range n, f i := by
  induction n with
  | zero => simp
  | succ n ih => simp [List.range_succ, Finset.sum_range_succ, ih]

theorem dot_eq_sum_range' (a b : List K) :
    ∀ m, a.length = m → b.length = m → dot a b = ∑ i ∈ range m, a.getD i 0 * b.getD i 0 := by
  induction a generalizing b with
  | nil => intro m ha hb; simp at ha; subst ha; simp [dot]
  | cons x a ih =>
    intro m ha hb
    cases b with
    | nil => simp at hb; subst hb; simp at ha
    | cons y b =>
      cases m with
      | zero => simp at ha
      | succ m =>
        simp only [List.length_cons, Nat.add_right_cancel_iff] at ha hb
        have hd : dot (x :: a) (y :: b) = x * y + dot a b := by simp [dot]
        rw [hd, Finset.sum_range_succ', ih b m ha hb]
        simp [add_comm]

end sums

/-! ### the quadratic form of a square matrix given as a list of rows -/

/-- entry `(i, j)` of a list-of-rows matrix -/
def ent (V : List (List ℝ)) (i j : ℕ) : ℝ := (V.getD i []).getD j 0

/-- `fᵀ V g` over the first `m` indices -/
def Q (V : List (List ℝ)) (m : ℕ) (f g : ℕ → ℝ) : ℝ :=
  ∑ i ∈ range m, ∑ j ∈ range m, f i * ent V i j * g j

/-- `V` (list of rows) is an `m × m` symmetric positive definite matrix -/
structure SymPosDef (V : List (List ℝ)) (m : ℕ) : Prop where
  rows : V.length = m
  cols : ∀ r ∈ V, r.length = m
  symm : ∀ i j, i < m → j < m → ent V i j = ent V j i
  pos : ∀ f : ℕ → ℝ, (∃ i, i < m ∧ f i ≠ 0) → 0 < Q V m f f

theorem matVec_length (V : List (List ℝ)) (b : List ℝ) : (matVec V b).length = V.length := by
  simp [matVec]

theorem matVec_getD (V : List (List ℝ)) (b : List ℝ) (i : ℕ) :
    (matVec V b).getD i 0 = dot (V.getD i []) b := by
  have := List.getD_map (l := V) (d := []) (n := i) (fun r => dot r b)
  simpa [matVec, dot] using this

theorem dot_matVec {V : List (List ℝ)} {m : ℕ} (hr : V.length = m) (hc : ∀ r ∈ V, r.length = m)
    (a b : List ℝ) (ha : a.length = m) (hb : b.length = m) :
    dot a (matVec V b) = Q V m (fun i => a.getD i 0) (fun j => b.getD j 0) := by
  rw [dot_eq_sum_range' a (matVec V b) m ha (by rw [matVec_length, hr])]
  unfold Q
  apply Finset.sum_congr rfl
  intro i hi
  have hi' : i < V.length := by rw [hr]; exact Finset.mem_range.mp hi
  rw [matVec_getD, dot_eq_sum_range' (V.getD i []) b m
    (by rw [List.getD_eq_getElem _ _ hi']; exact hc _ (List.getElem_mem hi')) hb, Finset.mul_sum]
  apply Finset.sum_congr rfl
  intro j _
  simp [ent, mul_assoc]

theorem Q_symm {V : List (List ℝ)} {m : ℕ}
    (hs : ∀ i j, i < m → j < m → ent V i j = ent V j i) (f g : ℕ → ℝ) :
    Q V m f g = Q V m g f := by
  unfold Q
  rw [Finset.sum_comm]
  apply Finset.sum_congr rfl
  intro i hi
  apply Finset.sum_congr rfl
  intro j hj
  rw [hs j i (Finset.mem_range.mp hj) (Finset.mem_range.mp hi)]
  ring

theorem Q_add_smul (V : List (List ℝ)) (m : ℕ) (f g : ℕ → ℝ) (t : ℝ) :
    Q V m (fun i => f i + t * g i) (fun i => f i + t * g i)
      = Q V m f f + t * (Q V m f g + Q V m g f) + t * t * Q V m g g := by
  unfold Q
  simp only [Finset.mul_sum, ← Finset.sum_add_distrib]
  apply Finset.sum_congr rfl
  intro i _
  apply Finset.sum_congr rfl
  intro j _
  ring

theorem Q_nonneg {V : List (List ℝ)} {m : ℕ} (h : SymPosDef V m) (f : ℕ → ℝ) : 0 ≤ Q V m f f := by
  by_cases hz : ∃ i, i < m ∧ f i ≠ 0
  · exact (h.pos f hz).le
  · push Not at hz
    have : Q V m f f = 0 := by
      unfold Q
      apply Finset.sum_eq_zero
      intro i hi
      apply Finset.sum_eq_zero
      intro j _
      rw [hz i (Finset.mem_range.mp hi)]
      ring
    rw [this]

/-- Cauchy–Schwarz for a symmetric positive definite matrix -/
theorem Q_sq_le {V : List (List ℝ)} {m : ℕ} (h : SymPosDef V m) (f g : ℕ → ℝ) :
    Q V m f g * Q V m f g ≤ Q V m f f * Q V m g g := by
  have hd := discrim_le_zero (a := Q V m g g) (b := 2 * Q V m f g) (c := Q V m f f) (fun t => by
    have := Q_nonneg h (fun i => f i + t * g i)
    rw [Q_add_smul, ← Q_symm h.symm f g] at this
    linarith)
  unfold discrim at hd
  nlinarith

/-! ### the contrast matrix and `_get_v` -/

section getv
variable {K : Type} [Field K]

theorem contrast_sum_left (n : ℕ) (p : ℕ × ℕ) (h1 : p.1 < n) (h2 : p.2 < n) (f : ℕ → K) :
    ((List.range n).map (fun k => contrast p k * f k)).sum = f p.1 - f p.2 := by
  rw [sum_range_map]
  have : ∀ k, contrast p k * f k = (if k = p.1 then f k else 0) - (if k = p.2 then f k else 0) := by
    intro k
    unfold contrast
    split_ifs <;> ring
  simp only [this, Finset.sum_sub_distrib, Finset.sum_ite_eq', Finset.mem_range, h1, h2, if_true]

theorem contrast_sum_right (n : ℕ) (q : ℕ × ℕ) (h1 : q.1 < n) (h2 : q.2 < n) (g : ℕ → K) :
    ((List.range n).map (fun l => g l * contrast q l)).sum = g q.1 - g q.2 := by
  rw [← contrast_sum_left n q h1 h2 g]
  congr 1
  apply List.map_congr_left
  intro k _
  ring

theorem mem_pairs_lt {n : ℕ} {p : ℕ × ℕ} (h : p ∈ pairs n) : p.1 < n ∧ p.2 < n := by
  have := mem_pairsOf h
  simpa using this

/-- `Ξ` as coded (products with the sparse contrast matrix) is `Ξ` as defined -/
theorem xi_eq_spec (n : ℕ) (s : SigmaK K) (p q : ℕ × ℕ)
    (hp : p.1 < n ∧ p.2 < n) (hq : q.1 < n ∧ q.2 < n) :
    xi n s p q = xiSpec s.entry p q := by
  cases s with
  | none =>
    show ((List.range n).map (fun k => contrast p k * contrast q k)).sum = _
    rw [contrast_sum_left n p hp.1 hp.2]
    simp only [xiSpec, SigmaK.entry, contrast]
    ring
  | vec v =>
    have : ∀ k, contrast p k * v.getD k 0 * contrast q k
        = contrast p k * (v.getD k 0 * contrast q k) := fun k => by ring
    show ((List.range n).map (fun k => contrast p k * v.getD k 0 * contrast q k)).sum = _
    simp only [this]
    rw [contrast_sum_left n p hp.1 hp.2]
    simp only [xiSpec, SigmaK.entry, contrast]
    split_ifs <;> ring
  | mat m =>
    have h1 : ∀ k, ((List.range n).map
        (fun l => contrast p k * (m.getD k []).getD l 0 * contrast q l)).sum
        = contrast p k * ((m.getD k []).getD q.1 0 - (m.getD k []).getD q.2 0) := by
      intro k
      rw [← contrast_sum_right n q hq.1 hq.2 (fun l => (m.getD k []).getD l 0), ← List.sum_map_mul_left]
      congr 1
      apply List.map_congr_left
      intro l _
      ring
    show ((List.range n).map (fun k => ((List.range n).map
        (fun l => contrast p k * (m.getD k []).getD l 0 * contrast q l)).sum)).sum = _
    simp only [h1]
    rw [contrast_sum_left n p hp.1 hp.2]
    simp only [xiSpec, SigmaK.entry]
    ring

theorem getV_eq_vSpec (n : ℕ) (s : SigmaK K) : getV n s = vSpec n s.entry := by
  unfold getV vSpec
  apply List.map_congr_left
  intro p hp
  apply List.map_congr_left
  intro q hq
  rw [xi_eq_spec n s p q (mem_pairs_lt hp) (mem_pairs_lt hq)]

end getv

/-! ### ranks: monotone in the value, invariant under increasing maps -/

theorem cnt_step (x : List ℝ) {a b : ℝ} (hab : a < b) : cntLt x a + cntEq x a ≤ cntLt x b := by
  unfold cntLt cntEq
  induction x with
  | nil => simp
  | cons c x ih =>
    simp only [List.countP_cons]
    by_cases h1 : c < a
    · have h3 : c < b := lt_trans h1 hab
      have h2 : ¬ a < c := lt_asymm h1
      simp [h1, h2, h3]; omega
    · by_cases h2 : a < c
      · simp [h1, h2]; omega
      · have : c = a := le_antisymm (not_lt.mp h2) (not_lt.mp h1)
        have h3 : c < b := this ▸ hab
        simp [h1, h2, h3]; omega

theorem cntEq_pos {x : List ℝ} {a : ℝ} (ha : a ∈ x) : 0 < cntEq x a := by
  unfold cntEq
  apply List.countP_pos_iff.mpr
  exact ⟨a, ha, by simp⟩

/-- a larger value has a strictly larger tie-averaged rank -/
theorem rankOf_lt {x : List ℝ} {a b : ℝ} (ha : a ∈ x) (hab : a < b) : rankOf x a < rankOf x b := by
  unfold rankOf
  have h1 : ((cntLt x a + cntEq x a : ℕ) : ℝ) ≤ (cntLt x b : ℝ) := by exact_mod_cast cnt_step x hab
  have h2 : (1 : ℝ) ≤ (cntEq x a : ℝ) := by exact_mod_cast cntEq_pos ha
  have h3 : (0 : ℝ) ≤ (cntEq x b : ℝ) := by positivity
  push_cast at h1 ⊢
  linarith

theorem avgRank_nonconstant {x : List ℝ} (hx : ∃ a ∈ x, ∃ b ∈ x, a < b) :
    ∃ r ∈ avgRank x, r ≠ mean (avgRank x) := by
  obtain ⟨a, ha, b, hb, hab⟩ := hx
  have hlt := rankOf_lt ha hab
  by_cases h : rankOf x a = mean (avgRank x)
  · exact ⟨rankOf x b, List.mem_map.mpr ⟨b, hb, rfl⟩, fun h' => by rw [h, ← h'] at hlt; exact lt_irrefl _ hlt⟩
  · exact ⟨rankOf x a, List.mem_map.mpr ⟨a, ha, rfl⟩, h⟩

/-- ranks are unchanged by a strictly increasing map of the values -/
theorem rankOf_strictMono {f : ℝ → ℝ} (hf : StrictMono f) (x : List ℝ) (a : ℝ) :
    rankOf (x.map f) (f a) = rankOf x a := by
  unfold rankOf cntLt cntEq
  simp only [List.countP_map, Function.comp_def, hf.lt_iff_lt]

theorem avgRank_strictMono {f : ℝ → ℝ} (hf : StrictMono f) (x : List ℝ) :
    avgRank (x.map f) = avgRank x := by
  simp [avgRank, List.map_map, Function.comp_def, rankOf_strictMono hf]

end Compare
end Rsa
