/- the pair loop of `calc` accumulates, per buffer index, the sums the specification names -/
import Rsa.Lemmas.C15Sum
import Rsa.Lemmas.C15Idx

set_option linter.unusedSectionVars false
set_option linter.unusedVariables false

namespace Rsa.Unb

open Rsa.Gen.C15

variable {K : Type} [Field K] [LinearOrder K] [IsStrictOrderedRing K]

/-- contribution of the self term of observation `i` to the value at index `k` -/
def selfC1 (c : Cfg K) (k i : Nat) : K :=
  if c.crossval = false ∧ 0 < (c.kern i i).2 ∧ c.desc i = k then
    (if c.number then selfValNumber (c.kern i i).1 else selfValEqual (c.kern i i).1 (c.kern i i).2)
  else 0

def selfC2 (c : Cfg K) (k i : Nat) : K :=
  if c.crossval = false ∧ 0 < (c.kern i i).2 ∧ c.desc i = k then
    (if c.number then selfWNumber (c.kern i i).2 else c.half)
  else 0

def pairC1 (c : Cfg K) (k i j : Nat) : K :=
  if adm c i j = true ∧ 0 < (c.kern i j).2 ∧ pairKey c.n (c.desc i) (c.desc j) = k then
    (if c.number then pairValNumber (c.kern i j).1 else pairValEqual (c.kern i j).1 (c.kern i j).2)
  else 0

def pairC2 (c : Cfg K) (k i j : Nat) : K :=
  if adm c i j = true ∧ 0 < (c.kern i j).2 ∧ pairKey c.n (c.desc i) (c.desc j) = k then
    (if c.number then pairWNumber (c.kern i j).2 else ofInt pairWEqual)
  else 0

theorem addAt_apply (b : Buf K) (k m : Nat) (v w : K) :
    addAt b k v w m = if m = k then ((b m).1 + v, (b m).2 + w) else b m := rfl

theorem selfStep_fst (c : Cfg K) (k i : Nat) (b : Buf K) :
    (selfStep c i b k).1 = (b k).1 + selfC1 c k i := by
  unfold selfStep selfC1
  cases hcv : c.crossval <;> simp only [if_true, if_false, Bool.false_eq_true, true_and,
    false_and, reduceCtorEq, add_zero]
  by_cases hw : 0 < (c.kern i i).2
  · simp only [hw, if_true, true_and]
    by_cases hk : c.desc i = k
    · cases hn : c.number <;> simp [addAt_apply, hk]
    · have hk' : ¬ k = c.desc i := fun e => hk e.symm
      cases hn : c.number <;> simp [addAt_apply, hk, hk']
  · simp [hw]

theorem selfStep_snd (c : Cfg K) (k i : Nat) (b : Buf K) :
    (selfStep c i b k).2 = (b k).2 + selfC2 c k i := by
  unfold selfStep selfC2
  cases hcv : c.crossval <;> simp only [if_true, if_false, Bool.false_eq_true, true_and,
    false_and, reduceCtorEq, add_zero]
  by_cases hw : 0 < (c.kern i i).2
  · simp only [hw, if_true, true_and]
    by_cases hk : c.desc i = k
    · cases hn : c.number <;> simp [addAt_apply, hk]
    · have hk' : ¬ k = c.desc i := fun e => hk e.symm
      cases hn : c.number <;> simp [addAt_apply, hk, hk']
  · simp [hw]

theorem pairStep_fst (c : Cfg K) (k i j : Nat) (b : Buf K) :
    (pairStep c i j b k).1 = (b k).1 + pairC1 c k i j := by
  unfold pairStep pairC1 adm
  by_cases ha : (!c.crossval || c.cv i != c.cv j) = true
  · simp only [ha, if_true, true_and]
    by_cases hw : 0 < (c.kern i j).2
    · simp only [hw, if_true, true_and]
      by_cases hk : pairKey c.n (c.desc i) (c.desc j) = k
      · cases hn : c.number <;> simp [addAt_apply, hk]
      · have hk' : ¬ k = pairKey c.n (c.desc i) (c.desc j) := fun e => hk e.symm
        cases hn : c.number <;> simp [addAt_apply, hk, hk']
    · simp [hw]
  · simp [ha]

theorem pairStep_snd (c : Cfg K) (k i j : Nat) (b : Buf K) :
    (pairStep c i j b k).2 = (b k).2 + pairC2 c k i j := by
  unfold pairStep pairC2 adm
  by_cases ha : (!c.crossval || c.cv i != c.cv j) = true
  · simp only [ha, if_true, true_and]
    by_cases hw : 0 < (c.kern i j).2
    · simp only [hw, if_true, true_and]
      by_cases hk : pairKey c.n (c.desc i) (c.desc j) = k
      · cases hn : c.number <;> simp [addAt_apply, hk]
      · have hk' : ¬ k = pairKey c.n (c.desc i) (c.desc j) := fun e => hk e.symm
        cases hn : c.number <;> simp [addAt_apply, hk, hk']
    · simp [hw]
  · simp [ha]

/-- value accumulated at index `k` by the two nested loops -/
theorem calcLoop_fst (c : Cfg K) (k : Nat) :
    (calcLoop c k).1 = sumTo c.nObs (fun i => selfC1 c k i +
      sumTo (c.nObs - (i + 1)) (fun t => pairC1 c k i (i + 1 + t))) := by
  unfold calcLoop
  have h := forRange_obs (K := K) (obs := fun (b : Buf K) => (b k).1)
    (body := fun i b => forRange (c.nObs - (i + 1)) (i + 1) (pairStep c i) (selfStep c i b))
    (c := fun i => selfC1 c k i + sumTo (c.nObs - (i + 1)) (fun t => pairC1 c k i (i + 1 + t)))
    (by
      intro i s
      have hin := forRange_obs (K := K) (obs := fun (b : Buf K) => (b k).1)
        (body := pairStep c i) (c := fun j => pairC1 c k i j)
        (fun j s => pairStep_fst c k i j s) (c.nObs - (i + 1)) (i + 1) (selfStep c i s)
      try dsimp only at hin ⊢
      rw [hin, selfStep_fst, add_assoc])
    c.nObs 0 (fun _ => (0, 0))
  simpa using h

theorem calcLoop_snd (c : Cfg K) (k : Nat) :
    (calcLoop c k).2 = sumTo c.nObs (fun i => selfC2 c k i +
      sumTo (c.nObs - (i + 1)) (fun t => pairC2 c k i (i + 1 + t))) := by
  unfold calcLoop
  have h := forRange_obs (K := K) (obs := fun (b : Buf K) => (b k).2)
    (body := fun i b => forRange (c.nObs - (i + 1)) (i + 1) (pairStep c i) (selfStep c i b))
    (c := fun i => selfC2 c k i + sumTo (c.nObs - (i + 1)) (fun t => pairC2 c k i (i + 1 + t)))
    (by
      intro i s
      have hin := forRange_obs (K := K) (obs := fun (b : Buf K) => (b k).2)
        (body := pairStep c i) (c := fun j => pairC2 c k i j)
        (fun j s => pairStep_snd c k i j s) (c.nObs - (i + 1)) (i + 1) (selfStep c i s)
      try dsimp only at hin ⊢
      rw [hin, selfStep_snd, add_assoc])
    c.nObs 0 (fun _ => (0, 0))
  simpa using h

theorem self_key_iff (n a b d : Nat) (hab : a ≤ b) (hb : b < n) (hd : d < n) :
    d = pairKey n a b ↔ a = b ∧ d = a := by
  rcases Nat.lt_or_eq_of_le hab with hlt | heq
  · have := pairKey_ge n a b hlt hb
    constructor
    · intro h; omega
    · rintro ⟨h, _⟩; omega
  · subst heq; rw [pairKey_self]; simp

/-- the loop computes exactly the sums of the specification at the index of a condition pair -/
theorem calcLoop_spec (c : Cfg K) (hhalf : c.half = 1 / two)
    (hdesc : ∀ i, i < c.nObs → c.desc i < c.n) (a b : Nat) (hab : a ≤ b) (hb : b < c.n) :
    (calcLoop c (pairKey c.n a b)).1 = specNum c a b ∧
    (calcLoop c (pairKey c.n a b)).2 = specDen c a b := by
  constructor
  · rw [calcLoop_fst]; unfold specNum
    apply sumTo_congr; intro i hi
    congr 1
    · unfold selfC1 cVal selfValNumber selfValEqual two
      have hk := self_key_iff c.n a b (c.desc i) hab hb (hdesc i hi)
      by_cases h1 : c.crossval = false ∧ 0 < (c.kern i i).2 ∧ c.desc i = pairKey c.n a b
      · have h2 : c.crossval = false ∧ a = b ∧ c.desc i = a ∧ 0 < (c.kern i i).2 :=
          ⟨h1.1, (hk.mp h1.2.2).1, (hk.mp h1.2.2).2, h1.2.1⟩
        rw [if_pos h1, if_pos h2]
        cases c.number <;> simp
      · have h2 : ¬ (c.crossval = false ∧ a = b ∧ c.desc i = a ∧ 0 < (c.kern i i).2) := by
          intro h; exact h1 ⟨h.1, h.2.2.2, hk.mpr ⟨h.2.1, h.2.2.1⟩⟩
        rw [if_neg h1, if_neg h2]
    · apply sumTo_congr; intro t ht
      have hj : i + 1 + t < c.nObs := by omega
      unfold pairC1 cVal pairValNumber pairValEqual
      have hk := pairKey_eq_iff c.n a b (c.desc i) (c.desc (i + 1 + t)) hab hb (hdesc i hi)
        (hdesc _ hj)
      by_cases h1 : adm c i (i + 1 + t) = true ∧ 0 < (c.kern i (i + 1 + t)).2 ∧
          pairKey c.n (c.desc i) (c.desc (i + 1 + t)) = pairKey c.n a b
      · have h2 : adm c i (i + 1 + t) = true ∧ 0 < (c.kern i (i + 1 + t)).2 ∧
            ((c.desc i = a ∧ c.desc (i + 1 + t) = b) ∨ (c.desc i = b ∧ c.desc (i + 1 + t) = a)) :=
          ⟨h1.1, h1.2.1, hk.mp h1.2.2⟩
        rw [if_pos h1, if_pos h2]
      · have h2 : ¬ (adm c i (i + 1 + t) = true ∧ 0 < (c.kern i (i + 1 + t)).2 ∧
            ((c.desc i = a ∧ c.desc (i + 1 + t) = b) ∨ (c.desc i = b ∧ c.desc (i + 1 + t) = a))) :=
          fun h => h1 ⟨h.1, h.2.1, hk.mpr h.2.2⟩
        rw [if_neg h1, if_neg h2]
  · rw [calcLoop_snd]; unfold specDen
    apply sumTo_congr; intro i hi
    congr 1
    · unfold selfC2 cW selfWNumber two
      have hk := self_key_iff c.n a b (c.desc i) hab hb (hdesc i hi)
      by_cases h1 : c.crossval = false ∧ 0 < (c.kern i i).2 ∧ c.desc i = pairKey c.n a b
      · have h2 : c.crossval = false ∧ a = b ∧ c.desc i = a ∧ 0 < (c.kern i i).2 :=
          ⟨h1.1, (hk.mp h1.2.2).1, (hk.mp h1.2.2).2, h1.2.1⟩
        rw [if_pos h1, if_pos h2, hhalf]
        cases c.number <;> simp [two]
      · have h2 : ¬ (c.crossval = false ∧ a = b ∧ c.desc i = a ∧ 0 < (c.kern i i).2) := by
          intro h; exact h1 ⟨h.1, h.2.2.2, hk.mpr ⟨h.2.1, h.2.2.1⟩⟩
        rw [if_neg h1, if_neg h2]
    · apply sumTo_congr; intro t ht
      have hj : i + 1 + t < c.nObs := by omega
      unfold pairC2 cW pairWNumber pairWEqual
      have hk := pairKey_eq_iff c.n a b (c.desc i) (c.desc (i + 1 + t)) hab hb (hdesc i hi)
        (hdesc _ hj)
      by_cases h1 : adm c i (i + 1 + t) = true ∧ 0 < (c.kern i (i + 1 + t)).2 ∧
          pairKey c.n (c.desc i) (c.desc (i + 1 + t)) = pairKey c.n a b
      · have h2 : adm c i (i + 1 + t) = true ∧ 0 < (c.kern i (i + 1 + t)).2 ∧
            ((c.desc i = a ∧ c.desc (i + 1 + t) = b) ∨ (c.desc i = b ∧ c.desc (i + 1 + t) = a)) :=
          ⟨h1.1, h1.2.1, hk.mp h1.2.2⟩
        rw [if_pos h1, if_pos h2]
        cases c.number <;> simp [ofInt]
      · have h2 : ¬ (adm c i (i + 1 + t) = true ∧ 0 < (c.kern i (i + 1 + t)).2 ∧
            ((c.desc i = a ∧ c.desc (i + 1 + t) = b) ∨ (c.desc i = b ∧ c.desc (i + 1 + t) = a))) :=
          fun h => h1 ⟨h.1, h.2.1, hk.mpr h.2.2⟩
        rw [if_neg h1, if_neg h2]

end Rsa.Unb
