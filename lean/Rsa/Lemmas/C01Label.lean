/- helper lemmas for C01: `uniqueFirst`, `inverse`, `argsortBy`, `reorderList` -/
import Mathlib.Data.List.Basic
import Mathlib.Data.List.Nodup
import Mathlib.Data.List.Perm.Basic
import Mathlib.Data.List.Sort
import Rsa.Core.Label

set_option linter.unusedSectionVars false
set_option linter.unusedVariables false

namespace Rsa

variable {L : Type} [DecidableEq L]

theorem mem_uniqueFirst {l : List L} {x : L} : x ∈ uniqueFirst l ↔ x ∈ l := by
  induction l with
  | nil => simp [uniqueFirst]
  | cons y ys ih =>
    simp only [uniqueFirst, List.mem_cons, List.mem_filter, ih, decide_eq_true_eq]
    by_cases h : x = y <;> simp [h]

theorem nodup_uniqueFirst (l : List L) : (uniqueFirst l).Nodup := by
  induction l with
  | nil => simp [uniqueFirst]
  | cons y ys ih =>
    simp only [uniqueFirst, List.nodup_cons, List.mem_filter, decide_eq_true_eq]
    exact ⟨fun h => h.2 rfl, ih.filter _⟩

theorem uniqueFirst_sublist (l : List L) : (uniqueFirst l).Sublist l := by
  induction l with
  | nil => simp [uniqueFirst]
  | cons y ys ih =>
    simp only [uniqueFirst]
    exact (List.Sublist.cons₂ y ((List.filter_sublist).trans ih))

/-- order of first occurrence: earlier in `uniqueFirst l` ⇒ first occurs earlier in `l` -/
theorem uniqueFirst_firstOrder (l : List L) :
    (uniqueFirst l).Pairwise (fun a b => l.idxOf a < l.idxOf b) := by
  induction l with
  | nil => simp [uniqueFirst]
  | cons y ys ih =>
    simp only [uniqueFirst, List.pairwise_cons, List.mem_filter, decide_eq_true_eq]
    constructor
    · intro b hb
      rw [List.idxOf_cons_self, List.idxOf_cons_ne _ (Ne.symm hb.2)]
      exact Nat.succ_pos _
    · refine (ih.sublist List.filter_sublist).imp_of_mem ?_
      intro a b ha hb hab
      simp only [List.mem_filter, decide_eq_true_eq] at ha hb
      rw [List.idxOf_cons_ne _ (Ne.symm ha.2), List.idxOf_cons_ne _ (Ne.symm hb.2)]
      exact Nat.succ_lt_succ hab

theorem inverse_length (l : List L) : (inverse l).length = l.length := by
  simp [inverse]

/-- `(uniqueFirst l)[inverse l k] = l[k]` -/
theorem inverse_spec (l : List L) (k : Nat) (h : k < l.length) :
    ∃ h' : (inverse l)[k]'(by simpa [inverse_length] using h) < (uniqueFirst l).length,
      (uniqueFirst l)[(inverse l)[k]'(by simpa [inverse_length] using h)] = l[k] := by
  have hm : l[k] ∈ uniqueFirst l := mem_uniqueFirst.mpr (List.getElem_mem h)
  have hlt : (uniqueFirst l).idxOf l[k] < (uniqueFirst l).length := List.idxOf_lt_length_of_mem hm
  refine ⟨by simpa [inverse] using hlt, ?_⟩
  simp [inverse]

theorem uniqueFirst_perm {l₁ l₂ : List L} (h : l₁.Perm l₂) :
    (uniqueFirst l₁).Perm (uniqueFirst l₂) := by
  refine (List.perm_ext_iff_of_nodup (nodup_uniqueFirst _) (nodup_uniqueFirst _)).mpr ?_
  intro a
  rw [mem_uniqueFirst, mem_uniqueFirst]
  exact h.mem_iff

theorem uniqueFirst_of_nodup {l : List L} (h : l.Nodup) : uniqueFirst l = l := by
  induction l with
  | nil => rfl
  | cons y ys ih =>
    rw [List.nodup_cons] at h
    simp only [uniqueFirst, ih h.2]
    congr 1
    rw [List.filter_eq_self]
    intro a ha
    simp only [decide_eq_true_eq]
    rintro rfl
    exact h.1 ha

end Rsa
