/-
  Helper lemmas for C03, rho-a part: the tie-averaged ranks of a strictly increasing list
  are 1, 2, …, n; their centred sum of squares is (n³ − n)/12; hence rho-a of a
  duplicate-free vector with itself is 1.
-/
import Rsa.Lemmas.C03Whiten
import Mathlib.Data.List.Sort
import Mathlib.Algebra.BigOperators.Field

set_option linter.unusedVariables false
set_option linter.unusedSectionVars false
set_option linter.unusedSimpArgs false
open Rsa Rsa.Compare

namespace Rsa.Compare

/-- ranks of a strictly increasing list are 1, 2, …, n -/
theorem avgRank_sorted (s : List ℝ) (hs : s.Pairwise (· < ·)) :
    avgRank s = (List.range s.length).map (fun (i : ℕ) => (i : ℝ) + 1) := by
  induction s with
  | nil => simp [avgRank]
  | cons a t ih =>
    rw [List.pairwise_cons] at hs
    obtain ⟨hat, ht⟩ := hs
    have hl : cntLt (a :: t) a = 0 := by
      unfold cntLt
      apply List.countP_eq_zero.mpr
      intro b hb
      rcases List.mem_cons.mp hb with rfl | hb
      · simp
      · simp [(hat b hb).le]
    have he : cntEq (a :: t) a = 1 := by
      unfold cntEq
      rw [List.countP_cons]
      have : List.countP (fun b => !decide (b < a) && !decide (a < b)) t = 0 := by
        apply List.countP_eq_zero.mpr
        intro b hb
        simp [hat b hb]
      rw [this]; simp
    have htail : ∀ b ∈ t, rankOf (a :: t) b = rankOf t b + 1 := by
      intro b hb
      have h1 : cntLt (a :: t) b = cntLt t b + 1 := by
        unfold cntLt; rw [List.countP_cons]; simp [hat b hb]
      have h2 : cntEq (a :: t) b = cntEq t b := by
        unfold cntEq; rw [List.countP_cons]; simp [hat b hb]
      unfold rankOf
      rw [h1, h2]; push_cast; ring
    have hhead : rankOf (a :: t) a = 1 := by
      unfold rankOf; rw [hl, he]; norm_num
    unfold avgRank at ih ⊢
    rw [List.map_cons, hhead, List.length_cons, List.range_succ_eq_map, List.map_cons, List.map_map]
    congr 1
    · simp
    · rw [List.map_congr_left htail]
      have := ih ht
      have e : List.map (fun a => rankOf t a + 1) t = (List.map (rankOf t) t).map (fun r => r + 1) := by
        rw [List.map_map]; rfl
      rw [e, this, List.map_map]
      apply List.map_congr_left
      intro i _
      simp

theorem sum_sq_dev (n : ℕ) (c : ℝ) :
    ((List.range n).map (fun (i : ℕ) => ((i : ℝ) + 1 - c) * ((i : ℝ) + 1 - c))).sum
      = n * c * c - c * n * (n + 1) + n * (n + 1) * (2 * n + 1) / 6 := by
  induction n with
  | zero => simp
  | succ n ih => rw [List.range_succ, List.map_append, List.sum_append, ih]; simp; ring

theorem sum_ranks (n : ℕ) :
    ((List.range n).map (fun (i : ℕ) => (i : ℝ) + 1)).sum = n * (n + 1) / 2 := by
  induction n with
  | zero => simp
  | succ n ih => rw [List.range_succ, List.map_append, List.sum_append, ih]; simp; ring

theorem dot_center_ranks (n : ℕ) (hn : 0 < n) :
    let r := (List.range n).map (fun (i : ℕ) => (i : ℝ) + 1)
    dot (center r) (center r) = ((n : ℝ) ^ 3 - n) / 12 := by
  intro r
  have hn' : (n : ℝ) ≠ 0 := by exact_mod_cast hn.ne'
  have hm : mean r = ((n : ℝ) + 1) / 2 := by
    unfold mean
    simp only [r, sum_ranks, List.length_map, List.length_range]
    field_simp
  rw [center_map, dot_map_map]
  simp only [r] at hm
  rw [hm, sum_sq_dev]
  field_simp
  ring

theorem rhoA_self_sorted (s : List ℝ) (hs : s.Pairwise (· < ·)) (hn : 2 ≤ s.length) :
    rhoA s s = 1 := by
  unfold rhoA
  rw [avgRank_sorted s hs, dot_center_ranks s.length (by omega)]
  have hn' : (2 : ℝ) ≤ (s.length : ℝ) := by exact_mod_cast hn
  have hpos : 0 < (s.length : ℝ) ^ 3 - s.length := by nlinarith [sq_nonneg ((s.length : ℝ) - 1)]
  push_cast
  have : (s.length : ℝ) * s.length * s.length - s.length = (s.length : ℝ) ^ 3 - s.length := by ring
  rw [this]
  generalize ((s.length : ℝ) ^ 3 - s.length) = X at hpos ⊢
  have hX : X ≠ 0 := hpos.ne'
  field_simp


theorem rhoA_self_nodup (x : List ℝ) (hx : x.Nodup) (hn : 2 ≤ x.length) : rhoA x x = 1 := by
  let s := x.mergeSort (fun a b => decide (a ≤ b))
  have hperm : s.Perm x := List.mergeSort_perm x _
  have hsorted : s.Pairwise (· < ·) := by
    have h1 : s.SortedLE := List.sortedLE_mergeSort
    exact (h1.sortedLT_of_nodup (hperm.nodup_iff.mpr hx)).pairwise
  have hlen : s.length = x.length := hperm.length_eq
  have h := rhoA_perm' (hperm.map (fun a => (a, a)))
  simp only [List.map_map, Function.comp_def, List.map_id'] at h
  rw [← h]
  exact rhoA_self_sorted s hsorted (by omega)

end Rsa.Compare
