/- helper lemmas for property C09 (bootstrap resampling), about `Rsa.Core.Boot` -/
import Mathlib.Data.List.Basic
import Mathlib.Data.List.Count
import Mathlib.Data.List.Nodup
import Mathlib.Data.List.Range
import Mathlib.Data.List.Perm.Basic
import Mathlib.Data.List.OfFn
import Mathlib.Data.List.FinRange
import Mathlib.Data.Fintype.Pi
import Mathlib.Data.Fintype.BigOperators
import Mathlib.Algebra.BigOperators.Group.Finset.Basic
import Mathlib.Logic.Equiv.Basic
import Mathlib.Algebra.Group.Action.Defs
import Mathlib.Tactic.Ring
import Mathlib.Tactic.Linarith
import Rsa.Core.Boot
import Rsa.Lemmas.Tri

set_option linter.unusedSectionVars false
set_option linter.unusedVariables false
set_option linter.unusedSimpArgs false

namespace Rsa.Boot

variable {L β α : Type} [DecidableEq L]

/-! ### `np.unique` -/

theorem mem_dedup {x : L} {l : List L} : x ∈ dedup l ↔ x ∈ l := by
  induction l with
  | nil => simp [dedup]
  | cons y ys ih =>
    unfold dedup
    by_cases h : y ∈ dedup ys
    · rw [if_pos h, ih, List.mem_cons]
      constructor
      · exact Or.inr
      · rintro (rfl | h')
        · exact ih.mp h
        · exact h'
    · rw [if_neg h, List.mem_cons, List.mem_cons, ih]

theorem nodup_dedup (l : List L) : (dedup l).Nodup := by
  induction l with
  | nil => simp [dedup]
  | cons y ys ih =>
    unfold dedup
    by_cases h : y ∈ dedup ys
    · rw [if_pos h]; exact ih
    · rw [if_neg h]; exact List.nodup_cons.mpr ⟨h, ih⟩

theorem mem_uniq {le : L → L → Bool} {x : L} {l : List L} : x ∈ uniq le l ↔ x ∈ l := by
  unfold uniq
  rw [List.mem_mergeSort, mem_dedup]

theorem nodup_uniq (le : L → L → Bool) (l : List L) : (uniq le l).Nodup :=
  (List.mergeSort_perm (dedup l) le).nodup_iff.mpr (nodup_dedup l)

/-! ### positions of a descriptor value -/

theorem mem_positions {desc : List L} {v : L} {j : Nat} :
    j ∈ positions desc v ↔ desc[j]? = some v := by
  unfold positions
  simp only [List.mem_filter, List.mem_range, decide_eq_true_eq]
  constructor
  · exact fun h => h.2
  · intro h
    refine ⟨?_, h⟩
    by_contra hlt
    rw [List.getElem?_eq_none (by omega)] at h
    cases h

theorem lt_of_mem_positions {desc : List L} {v : L} {j : Nat} (h : j ∈ positions desc v) :
    j < desc.length := by
  unfold positions at h
  simp only [List.mem_filter, List.mem_range] at h
  exact h.1

theorem nodup_positions (desc : List L) (v : L) : (positions desc v).Nodup :=
  List.Nodup.filter _ List.nodup_range

theorem count_positions (desc : List L) (v : L) (j : Nat) :
    (positions desc v).count j = if desc[j]? = some v then 1 else 0 := by
  rw [List.Nodup.count (nodup_positions desc v)]
  simp only [mem_positions]

theorem count_flatMap_positions (desc value : List L) (j : Nat) (hj : j < desc.length) :
    (value.flatMap (positions desc)).count j = value.count desc[j] := by
  induction value with
  | nil => simp
  | cons v vs ih =>
    rw [List.flatMap_cons, List.count_append, ih, count_positions, List.count_cons]
    rw [List.getElem?_eq_getElem hj]
    by_cases h : desc[j] = v
    · simp [h]; omega
    · have h' : ¬ (v = desc[j]) := fun e => h e.symm
      simp [h, h']

theorem lt_of_mem_flatMap_positions {desc value : List L} {j : Nat}
    (h : j ∈ value.flatMap (positions desc)) : j < desc.length := by
  rw [List.mem_flatMap] at h
  obtain ⟨v, _, hv⟩ := h
  exact lt_of_mem_positions hv

/-- the drawn value of every selected position is its own descriptor value -/
theorem mem_flatMap_positions {desc value : List L} {j : Nat} :
    j ∈ value.flatMap (positions desc) ↔ ∃ h : j < desc.length, desc[j] ∈ value := by
  rw [List.mem_flatMap]
  constructor
  · rintro ⟨v, hv, hj⟩
    have hlt := lt_of_mem_positions hj
    rw [mem_positions, List.getElem?_eq_getElem hlt] at hj
    refine ⟨hlt, ?_⟩
    have : desc[j] = v := Option.some.inj hj
    rw [this]; exact hv
  · rintro ⟨hlt, hv⟩
    exact ⟨desc[j], hv, mem_positions.mpr (List.getElem?_eq_getElem hlt)⟩

/-! ### selections -/

theorem count_rdmSelection (desc value : List L) (j : Nat) (hj : j < desc.length) :
    (rdmSelection desc value).count j = value.count desc[j] :=
  count_flatMap_positions desc value j hj

theorem lt_of_mem_rdmSelection {desc value : List L} {j : Nat}
    (h : j ∈ rdmSelection desc value) : j < desc.length :=
  lt_of_mem_flatMap_positions h

theorem patSelection_perm (desc value : List L) :
    (patSelection desc value).Perm (value.flatMap (positions desc)) :=
  List.mergeSort_perm _ _

theorem count_patSelection (desc value : List L) (j : Nat) (hj : j < desc.length) :
    (patSelection desc value).count j = value.count desc[j] := by
  rw [(patSelection_perm desc value).count_eq, count_flatMap_positions desc value j hj]

theorem lt_of_mem_patSelection {desc value : List L} {j : Nat}
    (h : j ∈ patSelection desc value) : j < desc.length :=
  lt_of_mem_flatMap_positions ((patSelection_perm desc value).mem_iff.mp h)

theorem patSelection_sorted (desc value : List L) :
    (patSelection desc value).Pairwise (· ≤ ·) := by
  have h := List.pairwise_mergeSort (le := fun a b : Nat => decide (a ≤ b))
    (fun a b c hab hbc => by
      simp only [decide_eq_true_eq] at hab hbc ⊢; omega)
    (fun a b => by
      simp only [Bool.or_eq_true, decide_eq_true_eq]; omega)
    (value.flatMap (positions desc))
  unfold patSelection
  exact h.imp (fun hab => by simpa using hab)

/-! ### `pick` (list re-indexing, `extract_dict`) -/

theorem pick_getElem? (l : List β) (sel : List Nat) (h : ∀ i ∈ sel, i < l.length) (p : Nat) :
    (pick l sel)[p]? = sel[p]?.bind (fun i => l[i]?) := by
  induction sel generalizing p with
  | nil => simp [pick]
  | cons i is ih =>
    have hi : i < l.length := h i List.mem_cons_self
    have his : ∀ i' ∈ is, i' < l.length := fun i' hi' => h i' (List.mem_cons_of_mem _ hi')
    have : pick l (i :: is) = l[i] :: pick l is := by
      simp [pick, List.filterMap_cons, List.getElem?_eq_getElem hi]
    rw [this]
    cases p with
    | zero => simp [List.getElem?_eq_getElem hi]
    | succ p => simpa using ih his p

theorem pick_length (l : List β) (sel : List Nat) (h : ∀ i ∈ sel, i < l.length) :
    (pick l sel).length = sel.length := by
  induction sel with
  | nil => simp [pick]
  | cons i is ih =>
    have hi : i < l.length := h i List.mem_cons_self
    have his : ∀ i' ∈ is, i' < l.length := fun i' hi' => h i' (List.mem_cons_of_mem _ hi')
    have : pick l (i :: is) = l[i] :: pick l is := by
      simp [pick, List.filterMap_cons, List.getElem?_eq_getElem hi]
    rw [this, List.length_cons, ih his, List.length_cons]

/-- entry `p` of a re-indexed list is entry `sel[p]` of the original -/
theorem pick_getElem (l : List β) (sel : List Nat) (h : ∀ i ∈ sel, i < l.length) (p : Nat)
    (hp : p < sel.length) :
    (pick l sel)[p]? = some (l[sel[p]]'(h _ (List.getElem_mem hp))) := by
  rw [pick_getElem? l sel h p, List.getElem?_eq_getElem hp]
  simp [List.getElem?_eq_getElem (h _ (List.getElem_mem hp))]

/-! ### drawn indices -/

theorem bootIdx_eq_pick (select : List L) (draws : List Nat) :
    bootIdx select draws = pick select draws := rfl

theorem mem_of_mem_bootIdx {select : List L} {draws : List Nat} {g : L}
    (h : g ∈ bootIdx select draws) : g ∈ select := by
  unfold bootIdx at h
  rw [List.mem_filterMap] at h
  obtain ⟨d, _, hd⟩ := h
  exact List.mem_of_getElem? hd

/-! ### the condensed layout: position of a pair -/

theorem tri_arith (m i : Nat) (hi : i < m) :
    (i + 1) * (m + 1) - (i + 1) * (i + 1 + 1) / 2 = m + (i * m - i * (i + 1) / 2) := by
  have h2 : (i + 1) * (i + 1 + 1) / 2 = i * (i + 1) / 2 + (i + 1) := by
    have : (i + 1) * (i + 1 + 1) = i * (i + 1) + 2 * (i + 1) := by ring
    rw [this, Nat.add_mul_div_left _ _ (by norm_num : 0 < 2)]
  have h3 : i * (i + 1) / 2 ≤ i * m := by
    calc i * (i + 1) / 2 ≤ i * (i + 1) := Nat.div_le_self _ _
      _ ≤ i * m := Nat.mul_le_mul_left i hi
  have h4 : (i + 1) * (m + 1) = i * m + i + m + 1 := by ring
  rw [h2, h4]
  omega

/-- `pairsOf l` holds the pair of positions `i < j` at the condensed index `triIdx` -/
theorem pairsOf_getElem?_triIdx (l : List β) (i j : Nat) (hij : i < j) (hj : j < l.length) :
    (pairsOf l)[triIdx l.length i j]? =
      some (l[i]'(by omega), l[j]) := by
  induction l generalizing i j with
  | nil => simp at hj
  | cons x xs ih =>
    simp only [List.length_cons] at hj
    cases j with
    | zero => omega
    | succ j' =>
      cases i with
      | zero =>
        have ht : triIdx (xs.length + 1) 0 (j' + 1) = j' := by simp [triIdx]
        have hj' : j' < xs.length := by omega
        simp only [List.length_cons]
        rw [ht, pairsOf, List.getElem?_append_left (by simpa using hj')]
        simp [List.getElem?_eq_getElem hj']
      | succ i' =>
        have hi' : i' < j' := by omega
        have hj' : j' < xs.length := by omega
        have ht : triIdx (xs.length + 1) (i' + 1) (j' + 1)
            = xs.length + triIdx xs.length i' j' := by
          unfold triIdx
          have := tri_arith xs.length i' (by omega)
          have e : j' + 1 - (i' + 1) - 1 = j' - i' - 1 := by omega
          rw [e, this]; omega
        simp only [List.length_cons]
        rw [ht, pairsOf, List.getElem?_append_right (by simp)]
        simp only [List.length_map, Nat.add_sub_cancel_left]
        rw [ih i' j' hi' hj']
        simp

theorem triIdx_lt (n i j : Nat) (hij : i < j) (hj : j < n) : triIdx n i j < triLen n := by
  have h := pairsOf_getElem?_triIdx (List.range n) i j hij (by simpa using hj)
  simp only [List.length_range] at h
  have : triIdx n i j < (pairsOf (List.range n)).length := by
    by_contra hc
    rw [List.getElem?_eq_none (by omega)] at h
    cases h
  have hl := pairs_length n
  unfold pairs at hl
  omega

/-! ### `subsample_pattern` on one RDM -/

theorem map_getD_range (sel : List Nat) :
    (List.range sel.length).map (fun i => sel.getD i 0) = sel := by
  apply List.ext_getElem
  · simp
  · intro i h1 h2
    simp [List.getD_eq_getElem?_getD, List.getElem?_eq_getElem h2]

/-- fancy-indexing the square form and condensing again = mapping the pair enumeration of the
    selection through the square form -/
theorem subVec_eq (n : Nat) (sel : List Nat) (v : List (Option α)) :
    subVec n sel v = (pairsOf sel).map (fun p => vecToMat n none none v p.1 p.2) := by
  unfold subVec matToVec pairs
  conv_rhs => rw [← map_getD_range sel]
  rw [pairsOf_map, List.map_map]
  rfl

theorem subVec_length (n : Nat) (sel : List Nat) (v : List (Option α)) :
    (subVec n sel v).length = triLen sel.length := by
  rw [subVec_eq, List.length_map, pairsOf_length]
  rfl

/-- entry `(i, j)` of the resampled RDM: NaN when both are copies of one original condition,
    else the source entry of the two original conditions (which are in ascending order) -/
theorem subVec_getElem? (n : Nat) (sel : List Nat) (v : List (Option α))
    (hs : sel.Pairwise (· ≤ ·)) (i j : Nat) (hij : i < j) (hj : j < sel.length) :
    (subVec n sel v)[triIdx sel.length i j]? =
      some (if sel[i]'(by omega) = sel[j] then none
            else v.getD (triIdx n (sel[i]'(by omega)) sel[j]) none) := by
  rw [subVec_eq, List.getElem?_map, pairsOf_getElem?_triIdx sel i j hij hj]
  simp only [Option.map_some]
  have hle : sel[i]'(by omega) ≤ sel[j] := List.pairwise_iff_getElem.mp hs i j (by omega) hj hij
  unfold vecToMat
  by_cases he : sel[i]'(by omega) = sel[j]
  · simp [he]
  · have hlt : sel[i]'(by omega) < sel[j] := by omega
    simp [he, hlt]

/-! ### descriptor dictionaries -/

theorem mem_of_lookup {d : Desc L} {k : String} {v : List L} (h : d.lookup k = some v) :
    (k, v) ∈ d := by
  induction d with
  | nil => simp [List.lookup] at h
  | cons kv rest ih =>
    obtain ⟨k', v'⟩ := kv
    by_cases hk : k = k'
    · subst hk
      simp [List.lookup] at h
      simp [h]
    · have : (k == k') = false := by simpa using hk
      simp only [List.lookup, this] at h
      exact List.mem_cons_of_mem _ (ih h)

theorem lookup_extract (d : Desc L) (sel : List Nat) (k : String) :
    (extract d sel).lookup k = (d.lookup k).map (fun v => pick v sel) := by
  induction d with
  | nil => simp [extract, List.lookup]
  | cons kv rest ih =>
    obtain ⟨k', v'⟩ := kv
    by_cases hk : k = k'
    · subst hk
      simp [extract, List.lookup]
    · have : (k == k') = false := by simpa using hk
      simp only [extract, List.map_cons, List.lookup, this]
      exact ih

theorem mem_extract {d : Desc L} {sel : List Nat} {k : String} {v' : List L} :
    (k, v') ∈ extract d sel ↔ ∃ v, (k, v) ∈ d ∧ v' = pick v sel := by
  unfold extract
  simp only [List.mem_map, Prod.mk.injEq]
  constructor
  · rintro ⟨⟨k0, v0⟩, hmem, hk, hv⟩
    subst hk
    exact ⟨v0, hmem, hv.symm⟩
  · rintro ⟨v, hmem, rfl⟩
    exact ⟨(k, v), hmem, rfl, rfl⟩

theorem extract_keys (d : Desc L) (sel : List Nat) :
    (extract d sel).map (·.1) = d.map (·.1) := by
  simp [extract, List.map_map, Function.comp_def]

/-! ### evaluating the sorts on concrete inputs (for the non-vacuity examples) -/

/-- the sorted selection is *the* ascending rearrangement of the concatenated positions -/
theorem patSelection_eq_of (desc value : List L) (t : List Nat)
    (hperm : (value.flatMap (positions desc)).Perm t) (hsorted : t.Pairwise (· ≤ ·)) :
    patSelection desc value = t :=
  List.Perm.eq_of_pairwise (le := (· ≤ ·)) (fun a b _ _ h1 h2 => Nat.le_antisymm h1 h2)
    (patSelection_sorted desc value) hsorted ((patSelection_perm desc value).trans hperm)

/-- `np.unique` over naturals is the ascending list of the distinct values -/
theorem uniq_nat_eq_of (l t : List Nat) (hperm : (dedup l).Perm t)
    (hsorted : t.Pairwise (· ≤ ·)) : uniq (fun a b => decide (a ≤ b)) l = t := by
  have h := List.pairwise_mergeSort (le := fun a b : Nat => decide (a ≤ b))
    (fun a b c hab hbc => by
      simp only [decide_eq_true_eq] at hab hbc ⊢; omega)
    (fun a b => by
      simp only [Bool.or_eq_true, decide_eq_true_eq]; omega)
    (dedup l)
  have h' : (uniq (fun a b => decide (a ≤ b)) l).Pairwise (· ≤ ·) :=
    h.imp (fun hab => by simpa using hab)
  exact List.Perm.eq_of_pairwise (le := (· ≤ ·)) (fun a b _ _ h1 h2 => Nat.le_antisymm h1 h2)
    h' hsorted ((List.mergeSort_perm _ _).trans hperm)

/-! ### counting selections over all outcomes of a draw -/

/-- the number of times `sel[c]` is selected by the draw `f` is the number of draws equal to `c` -/
theorem count_bootIdx_ofFn (sel : List L) (hnd : sel.Nodup) (c : Fin sel.length)
    (f : Fin sel.length → Fin sel.length) :
    (bootIdx sel (List.ofFn fun t => (f t).val)).count sel[c]
      = (List.finRange sel.length).countP (fun t => decide (f t = c)) := by
  have h1 : bootIdx sel (List.ofFn fun t => (f t).val)
      = (List.finRange sel.length).map (fun t => sel[f t]) := by
    unfold bootIdx
    rw [List.ofFn_eq_map, List.filterMap_map]
    rw [← List.filterMap_eq_map]
    congr 1
    funext t
    simp
  rw [h1, List.count, List.countP_map]
  apply List.countP_congr
  intro t _
  simp only [Function.comp, beq_iff_eq, decide_eq_true_eq]
  constructor
  · intro h; exact Fin.ext ((List.Nodup.getElem_inj_iff hnd).mp h)
  · intro h; subst h; rfl

/-- every draw hits exactly one group -/
theorem sum_countP_fiber {m : Nat} (f : Fin m → Fin m) (l : List (Fin m)) :
    ∑ c : Fin m, l.countP (fun t => decide (f t = c)) = l.length := by
  induction l with
  | nil => simp
  | cons x xs ih =>
    simp only [List.countP_cons, List.length_cons, Finset.sum_add_distrib, ih]
    congr 1
    simp

/-- swapping two draw numbers relabels the outcomes: both are hit equally often in total -/
theorem sum_countP_swap {m : Nat} (a b : Fin m) :
    ∑ f : Fin m → Fin m, (List.finRange m).countP (fun t => decide (f t = a)) =
    ∑ f : Fin m → Fin m, (List.finRange m).countP (fun t => decide (f t = b)) := by
  refine Fintype.sum_equiv ((Equiv.refl _).arrowCongr (Equiv.swap a b)) _ _ ?_
  intro f
  apply List.countP_congr
  intro t _
  simp only [Equiv.arrowCongr_apply, Equiv.refl_symm, Equiv.refl_apply, Function.comp,
    decide_eq_true_eq]
  constructor
  · intro h; rw [h]; simp
  · intro h
    have := congrArg (Equiv.swap a b) h
    simpa using this

/-- summed over all `m^m` outcomes, each draw number is hit `m^m` times (once per outcome on
    average) -/
theorem sum_countP_total {m : Nat} (a : Fin m) :
    ∑ f : Fin m → Fin m, (List.finRange m).countP (fun t => decide (f t = a)) = m ^ m := by
  have hall : ∀ c : Fin m,
      ∑ f : Fin m → Fin m, (List.finRange m).countP (fun t => decide (f t = c)) =
      ∑ f : Fin m → Fin m, (List.finRange m).countP (fun t => decide (f t = a)) :=
    fun c => sum_countP_swap c a
  have hdouble : ∑ c : Fin m, ∑ f : Fin m → Fin m,
      (List.finRange m).countP (fun t => decide (f t = c)) = m * m ^ m := by
    rw [Finset.sum_comm]
    simp only [sum_countP_fiber, List.length_finRange, Finset.sum_const, Finset.card_univ,
      Fintype.card_fun, Fintype.card_fin, smul_eq_mul]
    ring
  simp only [hall, Finset.sum_const, Finset.card_univ, Fintype.card_fin, smul_eq_mul] at hdouble
  have hm : 0 < m := Fin.pos a
  exact Nat.eq_of_mul_eq_mul_left hm hdouble

end Rsa.Boot
