/-
  Helper lemmas for C03 (round 3): one `_sort_and_rank` pass keeps the five pair counts and sorts
  by the ranked coordinate (`sortAndRank_spec`); the two passes of `_tau_a` deliver rank vectors of
  equal length, lexicographically sorted (the precondition of `_kendall_dis`), with the pair counts
  of the input (`tauAPasses_spec`).
-/
import Rsa.Lemmas.C03Ties
import Mathlib.Data.List.Zip

set_option linter.unusedVariables false
set_option linter.unusedSectionVars false
set_option linter.unusedSimpArgs false
set_option linter.unnecessarySeqFocus false

open Rsa Rsa.Compare

namespace Rsa.Compare

section onepass
variable {A B : Type} [LinearOrder A] [LinearOrder B]

/-- the five counts with the roles of the coordinates exchanged -/
def swap5 (c : ℕ × ℕ × ℕ × ℕ × ℕ) : ℕ × ℕ × ℕ × ℕ × ℕ := (c.1, c.2.1, c.2.2.2.1, c.2.2.1, c.2.2.2.2)

theorem swap5_swap5 (c : ℕ × ℕ × ℕ × ℕ × ℕ) : swap5 (swap5 c) = c := rfl

theorem counts5_swap (l : List (A × B)) : counts5 (l.map Prod.swap) = swap5 (counts5 l) := by
  unfold counts5 swap5
  simp only [countPairs_map]
  refine Prod.ext ?_ (Prod.ext ?_ (Prod.ext ?_ (Prod.ext ?_ ?_))) <;> simp only <;>
    apply countPairs_congr <;> intro pq _ <;>
    simp [concordantH, discordantH, tieXH, tieYH, tieXYH, Bool.and_comm, Bool.or_comm]

theorem sortAndRank_spec (v1 : List A) (v2 : List B) (h : v1.length = v2.length) :
    (sortAndRank v1 v2).1.length = (sortAndRank v1 v2).2.length ∧
    (sortAndRank v1 v2).1.length = v1.length ∧
    counts5 ((sortAndRank v1 v2).1.zip (sortAndRank v1 v2).2) = counts5 (v1.zip v2) ∧
    ((sortAndRank v1 v2).1.zip (sortAndRank v1 v2).2).Pairwise (fun p q => p.2 ≤ q.2) ∧
    ((v1.zip v2).Pairwise (fun p q => p.1 ≤ q.1) →
      ((sortAndRank v1 v2).1.zip (sortAndRank v1 v2).2).Pairwise
        (fun p q => p.2 < q.2 ∨ (p.2 = q.2 ∧ p.1 ≤ q.1))) := by
  set z := sortBySnd v1 v2 with hz
  set d := denseRanks (z.map Prod.snd) with hd
  have hsorted : (z.map Prod.snd).Pairwise (· ≤ ·) := by
    rw [List.pairwise_map]
    exact sortBySnd_sorted v1 v2
  obtain ⟨hdl, hdr⟩ := denseRanks_spec (z.map Prod.snd) hsorted
  have hdl' : d.length = z.length := by rw [hdl, List.length_map]
  have hzl : z.length = v1.length := by
    rw [(sortBySnd_perm v1 v2).length_eq, List.length_zip, h, Nat.min_self]
  have e1 : (sortAndRank v1 v2).1 = z.map Prod.fst := rfl
  have e2 : (sortAndRank v1 v2).2 = d := rfl
  rw [e1, e2]
  set T := z.zip d with hT
  have hout : (z.map Prod.fst).zip d = T.map (fun t => (t.1.1, t.2)) := by
    rw [List.zip_map_left]
    apply List.map_congr_left
    intro t _
    rfl
  have hin : z = T.map (fun t => (t.1.1, t.1.2)) := by
    have : T.map Prod.fst = z := List.map_fst_zip (le_of_eq hdl'.symm)
    rw [← this]
  have hrank : T.Pairwise (fun t u => RankRel (t.1.2, t.2) (u.1.2, u.2)) := by
    have : (z.map Prod.snd).zip d = T.map (fun t => (t.1.2, t.2)) := by
      rw [List.zip_map_left]
      apply List.map_congr_left
      intro t _
      rfl
    rw [this, List.pairwise_map] at hdr
    exact hdr
  refine ⟨by rw [List.length_map, hdl'], by rw [List.length_map, hzl], ?_, ?_, ?_⟩
  · rw [hout, ← counts5_perm (sortBySnd_perm v1 v2), ← hz, hin]
    symm
    apply counts5_relabel T (fun t => t.1.1) (fun t => t.1.1) (fun t => t.1.2) (fun t => t.2)
    refine hrank.imp ?_
    intro t u hr
    obtain ⟨r1, r2, r3⟩ := hr
    simp only at r1 r2 r3
    exact ⟨⟨Iff.rfl, Iff.rfl⟩, ⟨r1, ⟨fun e => absurd e r2, fun e => absurd e r3⟩⟩⟩
  · rw [hout, List.pairwise_map]
    refine hrank.imp ?_
    intro t u hr
    exact not_lt.mp hr.2.2
  · intro hasc
    have hlex := sortBySnd_lex v1 v2 hasc
    rw [← hz, hin, List.pairwise_map] at hlex
    rw [hout, List.pairwise_map]
    refine (hrank.and hlex).imp ?_
    intro t u hr
    obtain ⟨⟨r1, r2, r3⟩, hl⟩ := hr
    simp only at r1 r2 r3 hl
    rcases hl with hl | ⟨hl1, hl2⟩
    · exact Or.inl (r1.mp hl)
    · right
      refine ⟨?_, hl2⟩
      have n1 : ¬ t.2 < u.2 := fun e => by
        have := r1.mpr e
        rw [hl1] at this
        exact lt_irrefl _ this
      omega

end onepass

/-- **the two passes of `_tau_a`**: rank vectors of equal length, sorted by x and among equal x
    by y, carrying exactly the pair counts of the input vectors -/
theorem tauAPasses_spec {K : Type} [LinearOrder K] (x y : List K) (h : x.length = y.length) :
    (tauAPasses x y).1.length = (tauAPasses x y).2.length ∧
    ((tauAPasses x y).1.zip (tauAPasses x y).2).Pairwise lexLE ∧
    counts5 ((tauAPasses x y).1.zip (tauAPasses x y).2) = counts5 (x.zip y) := by
  obtain ⟨a1, a2, a3, a4, _⟩ := sortAndRank_spec x y h
  set p1 := sortAndRank x y with hp1
  have hasc : (p1.2.zip p1.1).Pairwise (fun p q => p.1 ≤ q.1) := by
    rw [← List.zip_swap p1.1 p1.2, List.pairwise_map]
    exact a4
  obtain ⟨b1, b2, b3, _, b5⟩ := sortAndRank_spec p1.2 p1.1 a1.symm
  have b5' := b5 hasc
  set p2 := sortAndRank p1.2 p1.1 with hp2
  have e1 : (tauAPasses x y).1 = p2.2 := rfl
  have e2 : (tauAPasses x y).2 = p2.1 := rfl
  rw [e1, e2]
  refine ⟨b1.symm, ?_, ?_⟩
  · rw [← List.zip_swap p2.1 p2.2, List.pairwise_map]
    refine b5'.imp ?_
    intro p q hpq
    exact hpq
  · rw [← List.zip_swap p2.1 p2.2, counts5_swap, b3, ← List.zip_swap p1.1 p1.2, counts5_swap,
      swap5_swap5, a3]

end Rsa.Compare
