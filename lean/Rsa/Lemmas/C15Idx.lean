/- index arithmetic of the compiled kernel's buffer (`Gen.C15.idxGt / idxLe / nRdm`) -/
import Mathlib.Tactic.Ring
import Mathlib.Tactic.Linarith
import Mathlib.Algebra.Group.Nat.Even
import Rsa.Core.Unbalanced
import Rsa.Lemmas.Tri

set_option linter.unusedSectionVars false
set_option linter.unusedVariables false

namespace Rsa.Unb

open Rsa.Gen.C15

/-- number of pairs `(r, ·)` with `r < a` in the `triu` enumeration of `n` conditions -/
def rowStart (n : Nat) : Nat → Nat
  | 0 => 0
  | a + 1 => rowStart n a + (n - 1 - a)

theorem two_rowStart (n a : Nat) (h : a ≤ n) : 2 * rowStart n a + a * a + a = 2 * a * n := by
  induction a with
  | zero => simp [rowStart]
  | succ a ih =>
    have ih' := ih (by omega)
    obtain ⟨k, rfl⟩ : ∃ k, n = a + 1 + k := ⟨n - (a + 1), by omega⟩
    simp only [rowStart]
    have e : a + 1 + k - 1 - a = k := by omega
    rw [e]
    nlinarith [ih']

theorem rowStart_mono (n : Nat) {a b : Nat} (h : a ≤ b) : rowStart n a ≤ rowStart n b := by
  induction h with
  | refl => exact Nat.le_refl _
  | step _ ih => exact Nat.le_trans ih (by simp [rowStart])

theorem rowStart_ge (n a : Nat) (h : a + 1 < n) : a ≤ rowStart n a := by
  induction a with
  | zero => simp
  | succ a ih =>
    have := ih (by omega)
    simp only [rowStart]
    omega

theorem rowStart_last (n : Nat) (h : 1 ≤ n) : rowStart n (n - 1) = n * (n - 1) / 2 := by
  have h2 := two_rowStart n (n - 1) (by omega)
  obtain ⟨k, rfl⟩ : ∃ k, n = k + 1 := ⟨n - 1, by omega⟩
  simp only [Nat.add_sub_cancel] at h2 ⊢
  have : (k + 1) * k = 2 * rowStart (k + 1) k := by nlinarith [h2]
  rw [this]; simp

theorem rowStart_succ_succ (m k : Nat) : rowStart (m + 1) (k + 1) = m + rowStart m k := by
  induction k with
  | zero => simp [rowStart]
  | succ k ih =>
    have : rowStart (m + 1) (k + 1 + 1) = rowStart (m + 1) (k + 1) + (m + 1 - 1 - (k + 1)) := rfl
    rw [this, ih]
    simp only [rowStart]
    omega

/-- closed form of the kernel's index: `n` self entries, then the pairs in `triu` order -/
theorem idxGt_eq (n a b : Nat) (hab : a < b) (hb : b < n) :
    idxGt n a b = n + rowStart n a + (b - a - 1) := by
  have h2 := two_rowStart n a (by omega)
  have hge := rowStart_ge n a (by omega)
  have hev : 2 * ((a + 1) * a / 2) = (a + 1) * a := by
    have : Even ((a + 1) * a) := by
      rw [Nat.mul_comm]; exact Nat.even_mul_succ_self a
    exact Nat.two_mul_div_two_of_even this
  obtain ⟨m, rfl⟩ : ∃ m, n = m + 1 := ⟨n - 1, by omega⟩
  unfold idxGt
  simp only [Nat.add_sub_cancel]
  have e1 : (a + 1) * a = a * a + a := by ring
  have e2 : 2 * a * (m + 1) = 2 * (m * a) + 2 * a := by ring
  rw [e1] at hev
  rw [e2] at h2
  generalize (a * a + a) / 2 = T at hev ⊢
  generalize m * a = x at h2 ⊢
  generalize rowStart (m + 1) a = R at h2 hge ⊢
  omega

/-- the kernel's index is `n +` the position formula of the condensed RDM layout -/
theorem triIdx_eq (n a b : Nat) (hab : a < b) (hb : b < n) :
    triIdx n a b = rowStart n a + (b - a - 1) := by
  have h2 := two_rowStart n a (by omega)
  have hev : 2 * (a * (a + 1) / 2) = a * (a + 1) :=
    Nat.two_mul_div_two_of_even (Nat.even_mul_succ_self a)
  unfold triIdx
  have e1 : a * (a + 1) = a * a + a := by ring
  have e2 : 2 * a * n = 2 * (a * n) := by ring
  rw [e1] at hev
  rw [e2] at h2
  rw [e1]
  generalize (a * a + a) / 2 = T at hev ⊢
  generalize a * n = x at h2 ⊢
  generalize rowStart n a = R at h2 ⊢
  omega

theorem idxLe_eq_idxGt (n a b : Nat) : idxLe n a b = idxGt n b a := rfl

theorem pairKey_comm (n a b : Nat) : pairKey n a b = pairKey n b a := by
  unfold pairKey
  by_cases h : a = b
  · subst h; rfl
  · have h' : ¬ b = a := fun e => h e.symm
    simp only [h, h', if_false]
    by_cases hlt : a < b
    · have : ¬ b < a := by omega
      simp [hlt, this, idxLe_eq_idxGt]
    · have : b < a := by omega
      simp [hlt, this, idxLe_eq_idxGt]

theorem pairKey_lt (n a b : Nat) (hab : a < b) (hb : b < n) :
    pairKey n a b = n + rowStart n a + (b - a - 1) := by
  unfold pairKey
  have : ¬ a = b := by omega
  simp [this, hab, idxGt_eq n a b hab hb]

theorem pairKey_self (n a : Nat) : pairKey n a a = a := by simp [pairKey]

theorem pairKey_ge (n a b : Nat) (hab : a < b) (hb : b < n) : n ≤ pairKey n a b := by
  rw [pairKey_lt n a b hab hb]; omega

theorem pairKey_lt_inj (n a b a' b' : Nat) (hab : a < b) (hb : b < n) (hab' : a' < b')
    (hb' : b' < n) (h : pairKey n a b = pairKey n a' b') : a = a' ∧ b = b' := by
  rw [pairKey_lt n a b hab hb, pairKey_lt n a' b' hab' hb'] at h
  have key : ∀ a b a' b', a < b → b < n → a' < b' → b' < n → a < a' →
      n + rowStart n a + (b - a - 1) < n + rowStart n a' + (b' - a' - 1) := by
    intro a b a' b' hab hb hab' hb' hlt
    have h1 : rowStart n (a + 1) ≤ rowStart n a' := rowStart_mono n (by omega)
    have h2 : rowStart n (a + 1) = rowStart n a + (n - 1 - a) := rfl
    omega
  rcases Nat.lt_trichotomy a a' with hlt | heq | hgt
  · have := key a b a' b' hab hb hab' hb' hlt; omega
  · subst heq; constructor
    · rfl
    · omega
  · have := key a' b' a b hab' hb' hab hb hgt; omega

/-- two codes address the same buffer entry iff they are the same unordered pair -/
theorem pairKey_eq_iff (n a b x y : Nat) (hab : a ≤ b) (hb : b < n) (hx : x < n) (hy : y < n) :
    pairKey n x y = pairKey n a b ↔ (x = a ∧ y = b) ∨ (x = b ∧ y = a) := by
  constructor
  · intro h
    rcases Nat.lt_trichotomy x y with hxy | hxy | hxy
    · rcases Nat.lt_or_eq_of_le hab with hlt | heq
      · have := pairKey_lt_inj n x y a b hxy hy hlt hb h; left; exact this
      · subst heq
        have h1 := pairKey_ge n x y hxy hy
        rw [h, pairKey_self] at h1; omega
    · subst hxy
      rw [pairKey_self] at h
      rcases Nat.lt_or_eq_of_le hab with hlt | heq
      · have h1 := pairKey_ge n a b hlt hb; omega
      · subst heq; rw [pairKey_self] at h; left; exact ⟨h, h⟩
    · rw [pairKey_comm] at h
      rcases Nat.lt_or_eq_of_le hab with hlt | heq
      · have := pairKey_lt_inj n y x a b hxy hx hlt hb h; right; exact ⟨this.2, this.1⟩
      · subst heq
        have h1 := pairKey_ge n y x hxy hx
        rw [h, pairKey_self] at h1; omega
  · rintro (⟨rfl, rfl⟩ | ⟨rfl, rfl⟩)
    · rfl
    · exact pairKey_comm n _ _

theorem pairKey_lt_buffer (n a b : Nat) (hab : a ≤ b) (hb : b < n) :
    pairKey n a b < nRdm n + n := by
  have hn : nRdm n = rowStart n (n - 1) := by
    unfold nRdm; rw [rowStart_last n (by omega)]
  rcases Nat.lt_or_eq_of_le hab with hlt | heq
  · rw [pairKey_lt n a b hlt hb, hn]
    have h1 : rowStart n (a + 1) ≤ rowStart n (n - 1) := rowStart_mono n (by omega)
    have h2 : rowStart n (a + 1) = rowStart n a + (n - 1 - a) := rfl
    omega
  · subst heq; rw [pairKey_self]; omega

end Rsa.Unb
