/-
  Helper lemmas for property C12 (heap / frame reasoning about `Rsa.Core.Heap`).
  Core Lean only (no Mathlib needed).
-/
import Rsa.Core.Heap

set_option linter.unusedSectionVars false
set_option linter.unusedVariables false

namespace Rsa.Heap

/-! ### reading -/

theorem fieldWr_subset (d : Disc) (p : String × Field) : ∀ l ∈ fieldWr d p, l ∈ fieldLocs p.2 := by
  intro l hl
  obtain ⟨n, f⟩ := p
  cases f with
  | arr sh els =>
    simp only [fieldWr] at hl
    split at hl
    · simp at hl
    · simpa [fieldLocs] using hl
  | dict l0 =>
    simp only [fieldWr] at hl
    split at hl
    · simpa [fieldLocs] using hl
    · simp at hl

theorem cellWr_subset (d : Disc) (c : Cell) : ∀ l ∈ cellWr d c, l ∈ cellReach c := by
  intro l hl
  simp only [cellWr, List.mem_flatMap] at hl
  obtain ⟨p, hp, hl⟩ := hl
  simp only [cellReach, List.mem_flatMap]
  exact ⟨p, hp, fieldWr_subset d p l hl⟩

theorem wr_subset_reach (d : Disc) (h : Heap) (r : Loc) : ∀ l ∈ wr d h r, l ∈ reach h r := by
  intro l hl
  simp only [wr, List.mem_cons] at hl
  simp only [reach, List.mem_cons]
  rcases hl with hl | hl
  · exact Or.inl hl
  · exact Or.inr (cellWr_subset d _ l hl)

theorem root_mem_reach (h : Heap) (r : Loc) : r ∈ reach h r := by simp [reach]
theorem root_mem_wr (d : Disc) (h : Heap) (r : Loc) : r ∈ wr d h r := by simp [wr]

theorem lookupField_some {fs : List (String × Field)} {name : String} {f : Field}
    (hl : lookupField fs name = some f) : (name, f) ∈ fs := by
  simp only [lookupField, Option.map_eq_some_iff] at hl
  obtain ⟨p, hp, rfl⟩ := hl
  have hm := List.mem_of_find?_eq_some hp
  have hq := List.find?_some hp
  simp only [beq_iff_eq] at hq
  obtain ⟨n, f⟩ := p
  simp only at hq
  subst hq
  exact hm

/-! ### writing -/

theorem upd_other {f : Loc → Cell} {l x : Loc} {c : Cell} (hx : x ≠ l) : upd f l c x = f x := by
  simp [upd, hx]

theorem upd_same {f : Loc → Cell} {l : Loc} {c : Cell} : upd f l c l = c := by
  simp [upd]

theorem writeVals_other (f : Loc → Cell) (ls : List Loc) (vs : List Val) (x : Loc)
    (hx : x ∉ ls) : writeVals f ls vs x = f x := by
  induction ls generalizing f vs with
  | nil => cases vs <;> simp [writeVals]
  | cons l ls ih =>
    cases vs with
    | nil => simp [writeVals]
    | cons v vs =>
      simp only [List.mem_cons, not_or] at hx
      simp only [writeVals]
      rw [ih _ _ hx.2, upd_other hx.1]

theorem writeVals_cases (f : Loc → Cell) (ls : List Loc) (vs : List Val) (x : Loc) :
    writeVals f ls vs x = f x ∨ ∃ v, writeVals f ls vs x = .val v := by
  induction ls generalizing f vs with
  | nil => cases vs <;> simp [writeVals]
  | cons l ls ih =>
    cases vs with
    | nil => simp [writeVals]
    | cons v vs =>
      simp only [writeVals]
      rcases ih (upd f l (.val v)) vs with h | h
      · by_cases hx : x = l
        · right; exact ⟨v, by rw [h, hx, upd_same]⟩
        · left; rw [h, upd_other hx]
      · exact Or.inr h

theorem mem_setField {fs : List (String × Field)} {name : String} {f : Field} {p : String × Field}
    (hp : p ∈ setField fs name f) : p ∈ fs ∨ p = (name, f) := by
  simp only [setField] at hp
  split at hp
  · simp only [List.mem_map] at hp
    obtain ⟨q, hq, rfl⟩ := hp
    split
    · exact Or.inr rfl
    · exact Or.inl hq
  · simp only [List.mem_append, List.mem_singleton] at hp
    exact hp

/-! ### what one instruction can do to one cell -/

/-- the possible fates of the cell at `l` when an instruction runs on the object at `a` -/
def CellFate (h h' : Heap) (a l : Loc) : Prop :=
  h'.cells l = h.cells l ∨ (∃ v, h'.cells l = .val v) ∨ (∃ d, h'.cells l = .dict d) ∨
  (l = a ∧ ∃ name f, h'.cells l = .obj (setField (fieldsOf (h.cells a)) name f) ∧
    ∀ x ∈ fieldLocs f, h.next ≤ x ∧ x < h'.next)

theorem exec_next_le (h : Heap) (a : Loc) (i : Instr) : h.next ≤ (exec h a i).next := by
  cases i with
  | newArr field shape vals => simp [exec]
  | newDict field d => simp [exec]
  | setDict field d =>
    simp only [exec]
    split <;> simp
  | setEls field vals =>
    simp only [exec]
    split
    · split <;> simp
    · simp

theorem exec_cell (h : Heap) (a : Loc) (i : Instr) (l : Loc) : CellFate h (exec h a i) a l := by
  cases i with
  | newArr field shape vals =>
    by_cases hla : l = a
    · right; right; right
      refine ⟨hla, field, .arr shape (List.range' h.next vals.length), ?_, ?_⟩
      · subst hla; simp [exec, upd_same]
      · intro x hx
        simp only [fieldLocs, List.mem_range'_1] at hx
        simp only [exec]
        omega
    · simp only [exec, CellFate, upd_other hla]
      rcases writeVals_cases h.cells (List.range' h.next vals.length) vals l with hw | hw
      · exact Or.inl hw
      · exact Or.inr (Or.inl hw)
  | newDict field d =>
    by_cases hla : l = a
    · right; right; right
      refine ⟨hla, field, .dict h.next, ?_, ?_⟩
      · subst hla; simp [exec, upd_same]
      · intro x hx
        simp only [fieldLocs, List.mem_singleton] at hx
        simp only [exec]
        omega
    · simp only [exec, CellFate, upd_other hla]
      by_cases hln : l = h.next
      · right; right; left; exact ⟨d, by rw [hln, upd_same]⟩
      · left; rw [upd_other hln]
  | setDict field d =>
    simp only [exec, CellFate]
    split
    · rename_i l0 _
      by_cases hl : l = l0
      · right; right; left; exact ⟨d, by simp [hl, upd_same]⟩
      · left; simp [upd_other hl]
    · left; rfl
  | setEls field vals =>
    simp only [exec, CellFate]
    split
    · rename_i sh els _
      split
      · left; rfl
      · rcases writeVals_cases h.cells els vals l with hw | hw
        · exact Or.inl hw
        · exact Or.inr (Or.inl hw)
    · left; rfl

/-- an instruction writes only into the footprint of its receiver or into fresh locations -/
theorem exec_frame (d : Disc) (h : Heap) (a : Loc) (i : Instr) (hok : i.ok d = true) (l : Loc)
    (hl : l < h.next) (hw : l ∉ wr d h a) : (exec h a i).cells l = h.cells l := by
  have hla : l ≠ a := fun e => hw (e ▸ root_mem_wr d h a)
  have hcw : l ∉ cellWr d (h.cells a) := fun e => hw (by simp [wr, e])
  cases i with
  | newArr field shape vals =>
    simp only [exec, upd_other hla]
    apply writeVals_other
    simp only [List.mem_range'_1]
    omega
  | newDict field dd =>
    simp only [exec, upd_other hla]
    have : l ≠ h.next := by omega
    rw [upd_other this]
  | setDict field dd =>
    simp only [exec]
    split
    · rename_i l0 hlk
      have hm := lookupField_some hlk
      have : l ≠ l0 := by
        intro e
        apply hcw
        simp only [cellWr, List.mem_flatMap]
        refine ⟨_, hm, ?_⟩
        have hwd : writableDict field.name = true := by
          cases field <;> simp [writableDict, DictField.name]
        have hd : (d == Disc.assignInto) = true := by simpa [Instr.ok] using hok
        simp [fieldWr, hwd, hd, e]
      simp [upd_other this]
    · rfl
  | setEls field vals =>
    simp only [exec]
    split
    · rename_i sh els hlk
      split
      · rfl
      · rename_i hheld
        have hm := lookupField_some hlk
        apply writeVals_other
        intro e
        apply hcw
        simp only [cellWr, List.mem_flatMap]
        refine ⟨_, hm, ?_⟩
        simp [fieldWr, hheld, e]
    · rfl

/-! ### reach / footprint only grow by fresh locations -/

/-- `reach` and `wr` of `r` in `h'` consist of old members and locations allocated in between -/
def Grows (d : Disc) (h h' : Heap) (r : Loc) : Prop :=
  (∀ l ∈ reach h' r, l ∈ reach h r ∨ (h.next ≤ l ∧ l < h'.next)) ∧
  (∀ l ∈ wr d h' r, l ∈ wr d h r ∨ (h.next ≤ l ∧ l < h'.next))

theorem Grows.refl (d : Disc) (h : Heap) (r : Loc) : Grows d h h r :=
  ⟨fun l hl => Or.inl hl, fun l hl => Or.inl hl⟩

theorem Grows.trans {d : Disc} {h1 h2 h3 : Heap} {r : Loc} (h12 : Grows d h1 h2 r)
    (h23 : Grows d h2 h3 r) (n12 : h1.next ≤ h2.next) (n23 : h2.next ≤ h3.next) : Grows d h1 h3 r := by
  constructor
  · intro l hl
    rcases h23.1 l hl with h | h
    · rcases h12.1 l h with h' | h'
      · exact Or.inl h'
      · exact Or.inr ⟨h'.1, by omega⟩
    · exact Or.inr ⟨by omega, h.2⟩
  · intro l hl
    rcases h23.2 l hl with h | h
    · rcases h12.2 l h with h' | h'
      · exact Or.inl h'
      · exact Or.inr ⟨h'.1, by omega⟩
    · exact Or.inr ⟨by omega, h.2⟩

theorem grows_of_fate (d : Disc) (h h' : Heap) (a r : Loc) (hf : CellFate h h' a r) : Grows d h h' r := by
  rcases hf with he | ⟨v, he⟩ | ⟨d, he⟩ | ⟨hra, name, f, he, hfresh⟩
  · constructor <;> intro l hl
    · left; simpa [reach, he] using hl
    · left; simpa [wr, he] using hl
  · constructor <;> intro l hl
    · left; simp [reach, he, cellReach, fieldsOf] at hl; simp [reach, hl]
    · left; simp [wr, he, cellWr, fieldsOf] at hl; simp [wr, hl]
  · constructor <;> intro l hl
    · left; simp [reach, he, cellReach, fieldsOf] at hl; simp [reach, hl]
    · left; simp [wr, he, cellWr, fieldsOf] at hl; simp [wr, hl]
  · subst hra
    constructor <;> intro l hl
    · simp only [reach, he, List.mem_cons, cellReach, fieldsOf, List.mem_flatMap] at hl
      rcases hl with hl | ⟨p, hp, hl⟩
      · left; simp [reach, hl]
      · rcases mem_setField hp with hp | hp
        · left
          simp only [reach, List.mem_cons, cellReach, List.mem_flatMap]
          exact Or.inr ⟨p, hp, hl⟩
        · subst hp
          exact Or.inr (hfresh l hl)
    · simp only [wr, he, List.mem_cons, cellWr, fieldsOf, List.mem_flatMap] at hl
      rcases hl with hl | ⟨p, hp, hl⟩
      · left; simp [wr, hl]
      · rcases mem_setField hp with hp | hp
        · left
          simp only [wr, List.mem_cons, cellWr, List.mem_flatMap]
          exact Or.inr ⟨p, hp, hl⟩
        · subst hp
          exact Or.inr (hfresh l (fieldWr_subset d _ l hl))

theorem exec_grows (d : Disc) (h : Heap) (a : Loc) (i : Instr) (r : Loc) : Grows d h (exec h a i) r :=
  grows_of_fate d h _ a r (exec_cell h a i r)

/-! ### instruction lists (hence every operation) -/

theorem execAll_next_le (h : Heap) (a : Loc) (is : List Instr) : h.next ≤ (execAll h a is).next := by
  induction is generalizing h with
  | nil => simp [execAll]
  | cons i is ih =>
    simp only [execAll, List.foldl_cons]
    exact Nat.le_trans (exec_next_le h a i) (ih (exec h a i))

theorem execAll_grows (d : Disc) (h : Heap) (a : Loc) (is : List Instr) (r : Loc) :
    Grows d h (execAll h a is) r := by
  induction is generalizing h with
  | nil => exact Grows.refl d h r
  | cons i is ih =>
    simp only [execAll, List.foldl_cons]
    exact Grows.trans (exec_grows d h a i r) (ih (exec h a i)) (exec_next_le h a i)
      (execAll_next_le (exec h a i) a is)

theorem execAll_frame (d : Disc) (h : Heap) (a : Loc) (is : List Instr)
    (hok : ∀ i ∈ is, i.ok d = true) (l : Loc) (hl : l < h.next)
    (hw : l ∉ wr d h a) : (execAll h a is).cells l = h.cells l := by
  induction is generalizing h with
  | nil => simp [execAll]
  | cons i is ih =>
    simp only [execAll, List.foldl_cons]
    have h1 := exec_frame d h a i (hok i (by simp)) l hl hw
    have hn := exec_next_le h a i
    have hw' : l ∉ wr d (exec h a i) a := by
      intro e
      rcases (exec_grows d h a i a).2 l e with e' | e'
      · exact hw e'
      · omega
    have := ih (exec h a i) (fun j hj => hok j (by simp [hj])) (by omega) hw'
    simp only [execAll] at this
    rw [this, h1]

/-! ### content depends only on the cells in reach -/

theorem content_congr (d : Disc) (h h' : Heap) (r : Loc) (hc : ∀ l ∈ reach h r, h'.cells l = h.cells l) :
    content h' r = content h r ∧ reach h' r = reach h r ∧ wr d h' r = wr d h r := by
  have hr : h'.cells r = h.cells r := hc r (root_mem_reach h r)
  refine ⟨?_, by simp [reach, hr], by simp [wr, hr]⟩
  simp only [content, hr]
  apply List.map_congr_left
  intro p hp
  have hsub : ∀ l ∈ fieldLocs p.2, h'.cells l = h.cells l := by
    intro l hl
    apply hc
    simp only [reach, List.mem_cons, cellReach, List.mem_flatMap]
    exact Or.inr ⟨p, hp, hl⟩
  obtain ⟨n, f⟩ := p
  cases f with
  | arr sh els =>
    simp only [readField, Prod.mk.injEq, Content.arr.injEq, true_and]
    apply List.map_congr_left
    intro l hl
    rw [hsub l (by simpa [fieldLocs] using hl)]
  | dict l0 =>
    simp only [readField, Prod.mk.injEq, Content.dict.injEq, true_and]
    rw [hsub l0 (by simp [fieldLocs])]

/-- every operation compiles to instructions its discipline allows -/
theorem compile_ok (d : Disc) (h : Heap) (a : Loc) (op : Op) : ∀ i ∈ compile d h a op, i.ok d = true := by
  intro i hi
  cases op <;> cases d <;>
    simp only [compile, reorderInstrs, List.mem_cons, List.mem_nil_iff, or_false] at hi <;>
    (first
      | (subst hi; rfl)
      | (rcases hi with hi | hi <;> subst hi <;> rfl))

/-! ### sides (lists of root objects), separation, closedness -/

/-- no location an operation on one side may write is readable from the other side -/
def Sep (d : Disc) (h : Heap) (as bs : List Loc) : Prop :=
  (∀ l ∈ wrSide d h as, l ∉ reachSide h bs) ∧ (∀ l ∈ wrSide d h bs, l ∉ reachSide h as)

/-- everything reachable is allocated -/
def Closed (h : Heap) (rs : List Loc) : Prop := ∀ l ∈ reachSide h rs, l < h.next

/-- the invariant of the frame argument -/
def Inv (d : Disc) (h : Heap) (as bs : List Loc) : Prop := Sep d h as bs ∧ Closed h as ∧ Closed h bs

theorem Inv.symm {d : Disc} {h : Heap} {as bs : List Loc} (hi : Inv d h as bs) : Inv d h bs as :=
  ⟨⟨hi.1.2, hi.1.1⟩, hi.2.2, hi.2.1⟩

theorem flatMap_congr_mem {α β : Type} (l : List α) (f g : α → List β)
    (h : ∀ x ∈ l, f x = g x) : l.flatMap f = l.flatMap g := by
  induction l with
  | nil => rfl
  | cons x xs ih =>
    simp only [List.flatMap_cons]
    rw [h x (by simp), ih (fun y hy => h y (by simp [hy]))]

theorem mem_reachSide {h : Heap} {rs : List Loc} {l : Loc} :
    l ∈ reachSide h rs ↔ ∃ r ∈ rs, l ∈ reach h r := by
  simp [reachSide, List.mem_flatMap]

theorem mem_wrSide {d : Disc} {h : Heap} {rs : List Loc} {l : Loc} :
    l ∈ wrSide d h rs ↔ ∃ r ∈ rs, l ∈ wr d h r := by
  simp [wrSide, List.mem_flatMap]

theorem sepB_iff (d : Disc) (h : Heap) (as bs : List Loc) : sepB d h as bs = true ↔ Sep d h as bs := by
  simp [sepB, Sep, disjointL, List.all_eq_true]

/-- one operation on an object of side `as`: nothing readable from side `bs` changes,
    and the invariant is re-established -/
theorem step_side (d : Disc) (h : Heap) (as bs : List Loc) (hi : Inv d h as bs) (a : Loc)
    (ha : a ∈ as) (op : Op) :
    contentSide (step d h a op) bs = contentSide h bs ∧ Inv d (step d h a op) as bs := by
  obtain ⟨⟨hs1, hs2⟩, hca, hcb⟩ := hi
  let h' := step d h a op
  have hn : h.next ≤ h'.next := execAll_next_le h a _
  have hgrow : ∀ r, Grows d h h' r := fun r => execAll_grows d h a _ r
  -- cells readable from `bs` are untouched
  have hcell : ∀ l ∈ reachSide h bs, h'.cells l = h.cells l := by
    intro l hl
    apply execAll_frame d h a _ (compile_ok d h a op) l (hcb l hl)
    intro hw
    exact hs1 l (mem_wrSide.mpr ⟨a, ha, hw⟩) hl
  have hb : ∀ b ∈ bs, content h' b = content h b ∧ reach h' b = reach h b ∧ wr d h' b = wr d h b := by
    intro b hb
    apply content_congr
    intro l hl
    exact hcell l (mem_reachSide.mpr ⟨b, hb, hl⟩)
  have hreachB : reachSide h' bs = reachSide h bs := by
    simp only [reachSide]
    apply flatMap_congr_mem
    intro b hbm
    exact (hb b hbm).2.1
  have hwrB : wrSide d h' bs = wrSide d h bs := by
    simp only [wrSide]
    apply flatMap_congr_mem
    intro b hbm
    exact (hb b hbm).2.2
  refine ⟨?_, ⟨?_, ?_⟩, ?_, ?_⟩
  · simp only [contentSide]
    apply List.map_congr_left
    intro b hbm
    exact (hb b hbm).1
  · intro l hl
    rw [hreachB]
    obtain ⟨r, hr, hl⟩ := mem_wrSide.mp hl
    rcases (hgrow r).2 l hl with hold | hfresh
    · exact hs1 l (mem_wrSide.mpr ⟨r, hr, hold⟩)
    · intro hc
      have := hcb l hc
      omega
  · intro l hl
    rw [hwrB] at hl
    intro hc
    obtain ⟨r, hr, hc⟩ := mem_reachSide.mp hc
    rcases (hgrow r).1 l hc with hold | hfresh
    · exact hs2 l hl (mem_reachSide.mpr ⟨r, hr, hold⟩)
    · obtain ⟨b, hbm, hlb⟩ := mem_wrSide.mp hl
      have := hcb l (mem_reachSide.mpr ⟨b, hbm, wr_subset_reach d h b l hlb⟩)
      omega
  · intro l hl
    obtain ⟨r, hr, hl⟩ := mem_reachSide.mp hl
    rcases (hgrow r).1 l hl with hold | hfresh
    · have := hca l (mem_reachSide.mpr ⟨r, hr, hold⟩)
      show l < h'.next
      omega
    · exact hfresh.2
  · intro l hl
    rw [hreachB] at hl
    have := hcb l hl
    show l < h'.next
    omega

end Rsa.Heap
