/-
  Helper lemmas for C07, part 6: the loops.  Row selection, the leave-one-out folds when every
  RDM is its own group, a parametricity lemma for `bootNoiseCeilingG`, and the bridge between
  vectors with missing entries (`Option`) and their compressed versions.
-/
import Rsa.Lemmas.C07Vec
import Rsa.Lemmas.C05
import Mathlib.Data.List.Forall2
import Mathlib.Data.List.Perm.Lattice
import Mathlib.Algebra.Order.BigOperators.Group.List

set_option linter.unusedSectionVars false
set_option linter.unusedVariables false
set_option linter.unusedSimpArgs false

namespace Rsa.Ceiling
open Rsa Rsa.Compare Rsa.Folds

/-! ### `selectRows` -/

section select
variable {β : Type}

theorem selectRows_single (rows : List β) (i : ℕ) (hi : i < rows.length) :
    selectRows rows [i] = [rows[i]] := by
  simp [selectRows, List.getElem?_eq_getElem hi]

theorem selectRows_single_length_le (rows : List β) (i : ℕ) : (selectRows rows [i]).length ≤ 1 := by
  unfold selectRows
  simp only [List.filterMap_cons, List.filterMap_nil]
  split <;> simp

theorem selectRows_cons_map_succ (a : β) (t : List β) (idx : List ℕ) :
    selectRows (a :: t) (idx.map Nat.succ) = selectRows t idx := by
  unfold selectRows
  rw [List.filterMap_map]
  apply List.filterMap_congr
  intro j _
  simp

theorem selectRows_range (rows : List β) : selectRows rows (List.range rows.length) = rows := by
  induction rows with
  | nil => rfl
  | cons a t ih =>
    rw [List.length_cons, List.range_succ_eq_map]
    have : selectRows (a :: t) (0 :: (List.range t.length).map Nat.succ)
        = a :: selectRows (a :: t) ((List.range t.length).map Nat.succ) := by
      simp [selectRows]
    rw [this, selectRows_cons_map_succ, ih]

theorem filter_ne_map_succ (l : List ℕ) (k : ℕ) :
    (l.map Nat.succ).filter (· != k + 1) = (l.filter (· != k)).map Nat.succ := by
  rw [List.filter_map]
  congr 1
  apply List.filter_congr
  intro x _
  simp

theorem filter_eq_map_succ (l : List ℕ) (k : ℕ) :
    (l.map Nat.succ).filter (· == k + 1) = (l.filter (· == k)).map Nat.succ := by
  rw [List.filter_map]
  congr 1
  apply List.filter_congr
  intro x _
  simp

theorem selectRows_filter_ne (rows : List β) (i : ℕ) :
    selectRows rows ((List.range rows.length).filter (· != i)) = rows.eraseIdx i := by
  induction rows generalizing i with
  | nil => rfl
  | cons a t ih =>
    rw [List.length_cons, List.range_succ_eq_map]
    cases i with
    | zero =>
      have h0 : (0 :: (List.range t.length).map Nat.succ).filter (· != 0)
          = (List.range t.length).map Nat.succ := by
        rw [List.filter_cons_of_neg (by simp)]
        apply List.filter_eq_self.mpr
        intro x hx
        obtain ⟨y, _, rfl⟩ := List.mem_map.mp hx
        simp
      rw [h0, selectRows_cons_map_succ, selectRows_range]
      rfl
    | succ k =>
      have h1 : (0 :: (List.range t.length).map Nat.succ).filter (· != k + 1)
          = 0 :: ((List.range t.length).filter (· != k)).map Nat.succ := by
        rw [List.filter_cons_of_pos (by simp), filter_ne_map_succ]
      rw [h1]
      have : selectRows (a :: t) (0 :: ((List.range t.length).filter (· != k)).map Nat.succ)
          = a :: selectRows (a :: t) (((List.range t.length).filter (· != k)).map Nat.succ) := by
        simp [selectRows]
      rw [this, selectRows_cons_map_succ, ih k]
      rfl

theorem range_filter_eq (n i : ℕ) (hi : i < n) : (List.range n).filter (· == i) = [i] := by
  induction n generalizing i with
  | zero => omega
  | succ n ih =>
    rw [List.range_succ_eq_map]
    cases i with
    | zero =>
      rw [List.filter_cons_of_pos (by simp)]
      congr 1
      apply List.filter_eq_nil_iff.mpr
      intro x hx
      obtain ⟨y, _, rfl⟩ := List.mem_map.mp hx
      simp
    | succ k =>
      rw [List.filter_cons_of_neg (by simp), filter_eq_map_succ, ih k (by omega)]
      rfl

theorem selectRows_congr (rows rows' : List β) (idx : List ℕ)
    (h : ∀ j ∈ idx, rows[j]? = rows'[j]?) : selectRows rows idx = selectRows rows' idx := by
  unfold selectRows
  exact List.filterMap_congr h

end select

/-! ### means -/

section means
variable {K : Type} [Field K] [LinearOrder K] [IsStrictOrderedRing K]

theorem mean_of_length_le_one (l : List K) (h : l.length ≤ 1) : mean l = l.sum := by
  unfold mean
  match l, h with
  | [], _ => simp
  | [a], _ => simp

theorem mean_le_mean (l l' : List K) (hl : l.length = l'.length) (hs : l.sum ≤ l'.sum) :
    mean l ≤ mean l' := by
  unfold mean
  rw [hl]
  exact div_le_div_of_nonneg_right hs (Nat.cast_nonneg _)

theorem bounds_perm {t t' : List (K × K)} (h : t.Perm t') : bounds t = bounds t' := by
  unfold bounds mean
  rw [(h.map Prod.fst).sum_eq, (h.map Prod.snd).sum_eq, List.length_map, List.length_map,
    List.length_map, List.length_map, h.length_eq]

/-- sum over positions of the sums over the single selected row = sum over the rows -/
theorem sum_range_select {β : Type} (f : β → K) (rows : List β) :
    ((List.range rows.length).map (fun i => ((selectRows rows [i]).map f).sum)).sum
      = (rows.map f).sum := by
  induction rows with
  | nil => simp
  | cons a t ih =>
    rw [List.length_cons, List.range_succ_eq_map, List.map_cons, List.sum_cons, List.map_map]
    have h0 : selectRows (a :: t) [0] = [a] := by simp [selectRows]
    have hs : ∀ j, selectRows (a :: t) [j + 1] = selectRows t [j] := by
      intro j
      have := selectRows_cons_map_succ a t [j]
      simpa using this
    rw [h0]
    simp only [Function.comp_def, Nat.succ_eq_add_one, hs, ih, List.map_cons, List.map_nil,
      List.sum_cons, List.sum_nil, add_zero]

end means

/-! ### the leave-one-out folds when every RDM is its own group -/

theorem descList_nodup (o : Obj)
    (hinj : ∀ i j, i < o.nR → j < o.nR → o.rdesc i = o.rdesc j → i = j) :
    (descList o.nR o.rdesc).Nodup := by
  unfold descList
  apply List.Nodup.map_on _ List.nodup_range
  intro x hx y hy h
  exact hinj x y (List.mem_range.mp hx) (List.mem_range.mp hy) h

theorem uniq_perm_of_nodup (l : List ℕ) (h : l.Nodup) : (uniq l).Perm l :=
  (List.perm_ext_iff_of_nodup (uniq_nodup l) h).mpr (fun _ => mem_uniq)

/-- the fold of `sets_leave_one_out_rdm` that leaves the group with descriptor value `v` out -/
def looFoldOf (o : Obj) (v : ℕ) : Fold :=
  realize o { rTrain := some ((uniq (descList o.nR o.rdesc)).filter (· != v)), rTest := some [v],
              pTrain := none, pTest := none, hasCeil := true, bySubset := true }

theorem looFolds_eq (o : Obj) (h2 : 1 < (uniq (descList o.nR o.rdesc)).length) :
    looFolds o = (uniq (descList o.nR o.rdesc)).map (looFoldOf o) := by
  unfold looFolds setsLooRdm looRdmV
  rw [if_pos h2, List.map_map]
  rfl

theorem looFoldOf_test_rows (o : Obj) (v : ℕ) :
    (looFoldOf o v).test.rows = (List.range o.nR).filter (fun j => o.rdesc j == v) := by
  unfold looFoldOf realize mkPart selRows subsetSel
  simp only [if_true]
  apply List.filter_congr
  intro j _
  rw [Bool.eq_iff_iff]
  simp

theorem looFoldOf_train_rows (o : Obj) (v : ℕ) :
    (looFoldOf o v).train.rows = (List.range o.nR).filter (fun j => o.rdesc j != v) := by
  unfold looFoldOf realize mkPart selRows subsetSel
  simp only [if_true]
  apply List.filter_congr
  intro j hj
  have hmem : o.rdesc j ∈ uniq (descList o.nR o.rdesc) :=
    mem_uniq.mpr (mem_descList.mpr ⟨j, List.mem_range.mp hj, rfl⟩)
  by_cases h : o.rdesc j = v
  · simp [h]
  · simp [h, hmem]

theorem looFoldOf_singleton (o : Obj)
    (hinj : ∀ i j, i < o.nR → j < o.nR → o.rdesc i = o.rdesc j → i = j) (i : ℕ) (hi : i < o.nR) :
    (looFoldOf o (o.rdesc i)).test.rows = [i] ∧
    (looFoldOf o (o.rdesc i)).train.rows = (List.range o.nR).filter (· != i) := by
  rw [looFoldOf_test_rows, looFoldOf_train_rows]
  have key : ∀ j, j < o.nR → (o.rdesc j = o.rdesc i ↔ j = i) := by
    intro j hj
    exact ⟨fun hh => hinj j i hj hi hh, fun hh => by rw [hh]⟩
  constructor
  · rw [← range_filter_eq o.nR i hi]
    apply List.filter_congr
    intro j hj
    have := key j (List.mem_range.mp hj)
    rw [Bool.eq_iff_iff]
    simpa using this
  · apply List.filter_congr
    intro j hj
    have := key j (List.mem_range.mp hj)
    rw [Bool.eq_iff_iff]
    simpa using not_congr this

section spec
variable {β π : Type} {K : Type} [Field K] [LinearOrder K] [IsStrictOrderedRing K]

/-- **every RDM its own group**: the bounds of `boot_noise_ceiling` are the means over the RDMs `i`
    of the similarity of RDM `i` to the pool of the *other* RDMs (lower) and to the pool of all
    RDMs (upper) -/
theorem boot_singleton_spec (pool : List β → π) (sim : π → β → K) (rows : List β) (o : Obj)
    (hn : o.nR = rows.length)
    (hinj : ∀ i j, i < o.nR → j < o.nR → o.rdesc i = o.rdesc j → i = j) (h2 : 2 ≤ o.nR) :
    bootNoiseCeilingG pool sim rows o =
      bounds ((List.range rows.length).map fun i =>
        (meanSim sim (pool (rows.eraseIdx i)) (selectRows rows [i]),
         meanSim sim (pool rows) (selectRows rows [i]))) := by
  have hnd := descList_nodup o hinj
  have hperm := uniq_perm_of_nodup _ hnd
  have hlen : (uniq (descList o.nR o.rdesc)).length = o.nR := by
    rw [hperm.length_eq]; simp [descList]
  unfold bootNoiseCeilingG
  rw [looFolds_eq o (by omega)]
  unfold bootTerms
  rw [List.map_map]
  apply bounds_perm
  have h1 := hperm.map ((fun f : Fold =>
      (meanSim sim (pool (selectRows rows f.train.rows)) (selectRows rows f.test.rows),
       meanSim sim (pool rows) (selectRows rows f.test.rows))) ∘ looFoldOf o)
  refine h1.trans ?_
  unfold descList
  rw [List.map_map, ← hn]
  apply List.Perm.of_eq
  apply List.map_congr_left
  intro i hi
  have hi' := List.mem_range.mp hi
  obtain ⟨e1, e2⟩ := looFoldOf_singleton o hinj i hi'
  simp only [Function.comp_def]
  rw [e1, e2, hn, selectRows_filter_ne]

theorem candidateScore_eq_boot (sim : π → β → K) (rows : List β) (o : Obj) (c : π) :
    candidateScore sim rows o c = (bootNoiseCeilingG (fun _ => c) sim rows o).2 := by
  unfold candidateScore bootNoiseCeilingG bounds bootTerms
  simp [List.map_map, Function.comp_def]

/-- with singleton groups the score of a candidate is its mean similarity to the data RDMs -/
theorem candidateScore_singleton (sim : π → β → K) (rows : List β) (o : Obj) (c : π)
    (hn : o.nR = rows.length)
    (hinj : ∀ i j, i < o.nR → j < o.nR → o.rdesc i = o.rdesc j → i = j) (h2 : 2 ≤ o.nR) :
    candidateScore sim rows o c = (rows.map (sim c)).sum / (rows.length : K) := by
  rw [candidateScore_eq_boot, boot_singleton_spec (fun _ => c) sim rows o hn hinj h2]
  unfold bounds mean
  simp only [List.map_map, Function.comp_def, List.length_map, List.length_range]
  congr 1
  rw [← sum_range_select (sim c) rows]
  congr 1
  apply List.map_congr_left
  intro i _
  unfold meanSim
  exact mean_of_length_le_one _ (by simpa using selectRows_single_length_le rows i)

/-- with singleton groups the upper bound is the mean similarity of the pooled RDM to the data -/
theorem upper_singleton (pool : List β → π) (sim : π → β → K) (rows : List β) (o : Obj)
    (hn : o.nR = rows.length)
    (hinj : ∀ i j, i < o.nR → j < o.nR → o.rdesc i = o.rdesc j → i = j) (h2 : 2 ≤ o.nR) :
    (bootNoiseCeilingG pool sim rows o).2 = (rows.map (sim (pool rows))).sum / (rows.length : K) := by
  have h := candidateScore_singleton sim rows o (pool rows) hn hinj h2
  rw [candidateScore_eq_boot] at h
  rw [← h]
  unfold bootNoiseCeilingG bounds bootTerms
  simp [List.map_map, Function.comp_def]

/-- with singleton groups: if leaving RDM `i` out never raises its similarity to the pool, the lower
    bound is at most the upper bound -/
theorem lower_le_upper_of_terms (pool : List β → π) (sim : π → β → K) (rows : List β) (o : Obj)
    (hn : o.nR = rows.length)
    (hinj : ∀ i j, i < o.nR → j < o.nR → o.rdesc i = o.rdesc j → i = j) (h2 : 2 ≤ o.nR)
    (hterm : ∀ i (hi : i < rows.length), sim (pool (rows.eraseIdx i)) rows[i] ≤ sim (pool rows) rows[i]) :
    (bootNoiseCeilingG pool sim rows o).1 ≤ (bootNoiseCeilingG pool sim rows o).2 := by
  rw [boot_singleton_spec pool sim rows o hn hinj h2]
  unfold bounds
  simp only [List.map_map, Function.comp_def]
  apply mean_le_mean
  · simp
  · apply List.sum_le_sum
    intro i hi
    have hi' := List.mem_range.mp hi
    rw [selectRows_single rows i hi']
    unfold meanSim mean
    simp only [List.map_cons, List.map_nil, List.sum_cons, List.sum_nil, add_zero,
      List.length_cons, List.length_nil]
    exact div_le_div_of_nonneg_right (hterm i hi') (Nat.cast_nonneg _)

end spec

/-! ### parametricity of the loop -/

section congr
variable {β β' π π' : Type} {K : Type} [Field K]

theorem forall₂_selectRows {ρ : β → β' → Prop} {l : List β} {l' : List β'} (h : List.Forall₂ ρ l l')
    (idx : List ℕ) : List.Forall₂ ρ (selectRows l idx) (selectRows l' idx) := by
  have hlen := h.length_eq
  induction idx with
  | nil => exact List.Forall₂.nil
  | cons i idx ih =>
    unfold selectRows at ih ⊢
    rw [List.filterMap_cons, List.filterMap_cons]
    by_cases hi : i < l.length
    · have hi' : i < l'.length := hlen ▸ hi
      rw [List.getElem?_eq_getElem hi, List.getElem?_eq_getElem hi']
      exact List.Forall₂.cons (h.get hi hi') ih
    · have hi' : ¬ i < l'.length := hlen ▸ hi
      rw [List.getElem?_eq_none (not_lt.mp hi), List.getElem?_eq_none (not_lt.mp hi')]
      exact ih

theorem map_eq_of_forall₂ {γ : Type} {ρ : β → β' → Prop} {f : β → γ} {g : β' → γ} {l : List β}
    {l' : List β'} (h : List.Forall₂ ρ l l') (hfg : ∀ b b', ρ b b' → f b = g b') :
    l.map f = l'.map g := by
  induction h with
  | nil => rfl
  | cons hab _ ih => simp [hfg _ _ hab, ih]

/-- if two stacks are related row by row, related stacks pool to related predictions and related
    prediction/row pairs have the same similarity, then the noise ceilings coincide -/
theorem bootG_congr (ρ : β → β' → Prop) (ρp : π → π' → Prop) (pool : List β → π)
    (pool' : List β' → π') (sim : π → β → K) (sim' : π' → β' → K)
    (hpool : ∀ l l', List.Forall₂ ρ l l' → ρp (pool l) (pool' l'))
    (hsim : ∀ a a' b b', ρp a a' → ρ b b' → sim a b = sim' a' b')
    (rows : List β) (rows' : List β') (h : List.Forall₂ ρ rows rows') (o : Obj) :
    bootNoiseCeilingG pool sim rows o = bootNoiseCeilingG pool' sim' rows' o := by
  unfold bootNoiseCeilingG bootTerms
  congr 1
  apply List.map_congr_left
  intro f _
  have ht := forall₂_selectRows h f.test.rows
  have htr := forall₂_selectRows h f.train.rows
  unfold meanSim
  dsimp only
  rw [map_eq_of_forall₂ ht (fun b b' hb => hsim _ _ b b' (hpool _ _ htr) hb),
    map_eq_of_forall₂ ht (fun b b' hb => hsim _ _ b b' (hpool _ _ h) hb)]

end congr

/-! ### vectors with missing entries vs. their compressed versions -/

section nan

theorem expand_false (bs : List Bool) (x : List ℝ) :
    expand (false :: bs) x = none :: expand bs x := by simp only [expand]

theorem expand_true_cons (bs : List Bool) (a : ℝ) (xs : List ℝ) :
    expand (true :: bs) (a :: xs) = some a :: expand bs xs := by simp only [expand]

theorem expand_true_nil (bs : List Bool) :
    expand (true :: bs) ([] : List ℝ) = none :: expand bs [] := by simp only [expand]

@[simp] theorem optAdd_some (a b : ℝ) : optAdd (some a) (some b) = some (a + b) := rfl
@[simp] theorem optAdd_none_left (y : Option ℝ) : optAdd none y = none := rfl
@[simp] theorem optAdd_none_right (x : Option ℝ) : optAdd x none = none := by cases x <;> rfl

theorem expand_length (mask : List Bool) (x : List ℝ) : (expand mask x).length = mask.length := by
  induction mask generalizing x with
  | nil => rfl
  | cons b bs ih =>
    cases b with
    | false => rw [expand_false, List.length_cons, ih, List.length_cons]
    | true => cases x with
      | nil => rw [expand_true_nil, List.length_cons, ih, List.length_cons]
      | cons a xs => rw [expand_true_cons, List.length_cons, ih, List.length_cons]

theorem maskOf_expand (mask : List Bool) (x : List ℝ) (h : x.length = mask.count true) :
    maskOf (expand mask x) = mask := by
  induction mask generalizing x with
  | nil => rfl
  | cons b bs ih =>
    cases b with
    | false =>
      have hx : x.length = bs.count true := by simpa using h
      rw [expand_false]
      show false :: maskOf (expand bs x) = false :: bs
      rw [ih x hx]
    | true => cases x with
      | nil => simp at h
      | cons a xs =>
        have hx : xs.length = bs.count true := by simpa using h
        rw [expand_true_cons]
        show true :: maskOf (expand bs xs) = true :: bs
        rw [ih xs hx]

theorem present_expand (mask : List Bool) (x : List ℝ) (h : x.length = mask.count true) :
    present (expand mask x) = x := by
  induction mask generalizing x with
  | nil =>
    have : x = [] := List.eq_nil_of_length_eq_zero (by simpa using h)
    subst this; rfl
  | cons b bs ih =>
    cases b with
    | false =>
      have hx : x.length = bs.count true := by simpa using h
      rw [expand_false]
      show present (expand bs x) = x
      exact ih x hx
    | true => cases x with
      | nil => simp at h
      | cons a xs =>
        have hx : xs.length = bs.count true := by simpa using h
        rw [expand_true_cons]
        show a :: present (expand bs xs) = a :: xs
        rw [ih xs hx]

theorem map_expand (mask : List Bool) (x : List ℝ) (g : ℝ → ℝ) :
    (expand mask x).map (Option.map g) = expand mask (x.map g) := by
  induction mask generalizing x with
  | nil => rfl
  | cons b bs ih =>
    cases b with
    | false => rw [expand_false, expand_false, List.map_cons, ih]; rfl
    | true => cases x with
      | nil =>
        have := ih []
        rw [List.map_nil] at this
        rw [List.map_nil, expand_true_nil, List.map_cons, this]; rfl
      | cons a xs => rw [List.map_cons, expand_true_cons, expand_true_cons, List.map_cons, ih]; rfl

theorem zipWith_optAdd_expand (mask : List Bool) (x y : List ℝ) :
    List.zipWith optAdd (expand mask x) (expand mask y) = expand mask (vadd x y) := by
  induction mask generalizing x y with
  | nil => rfl
  | cons b bs ih =>
    cases b with
    | false =>
      rw [expand_false, expand_false, expand_false, List.zipWith_cons_cons, ih, optAdd_none_left]
    | true =>
      cases x with
      | nil =>
        cases y with
        | nil =>
          have := ih [] []
          rw [vadd_nil_left] at this
          rw [vadd_nil_left, expand_true_nil, List.zipWith_cons_cons, this, optAdd_none_left]
        | cons c ys =>
          have := ih [] ys
          rw [vadd_nil_left] at this
          rw [vadd_nil_left, expand_true_nil, expand_true_cons, List.zipWith_cons_cons, this,
            optAdd_none_left]
      | cons a xs =>
        cases y with
        | nil =>
          have := ih xs []
          rw [vadd_nil_right] at this
          rw [vadd_nil_right, expand_true_nil, expand_true_cons, List.zipWith_cons_cons, this,
            optAdd_none_right]
        | cons c ys =>
          rw [vadd_cons, expand_true_cons, expand_true_cons, expand_true_cons,
            List.zipWith_cons_cons, ih, optAdd_some]

theorem zipWith_optAdd_replicate (mask : List Bool) (x : List ℝ) :
    List.zipWith optAdd (expand mask x) (List.replicate mask.length (some 0))
      = expand mask (vadd x (List.replicate (mask.count true) 0)) := by
  induction mask generalizing x with
  | nil => rfl
  | cons b bs ih =>
    cases b with
    | false =>
      have hc : (false :: bs).count true = bs.count true := by simp
      rw [hc, expand_false, expand_false, List.length_cons, List.replicate_succ,
        List.zipWith_cons_cons, ih, optAdd_none_left]
    | true =>
      have hc : (true :: bs).count true = bs.count true + 1 := by simp
      cases x with
      | nil =>
        have := ih []
        rw [vadd_nil_left] at this
        rw [vadd_nil_left, expand_true_nil, List.length_cons, List.replicate_succ,
          List.zipWith_cons_cons, this, optAdd_none_left]
      | cons a xs =>
        rw [hc, List.replicate_succ, vadd_cons, expand_true_cons, expand_true_cons, List.length_cons,
          List.replicate_succ, List.zipWith_cons_cons, ih, optAdd_some]

theorem osumP_expand (mask : List Bool) (denses : List (List ℝ)) (hne : denses ≠ []) :
    osumP mask.length (denses.map (expand mask)) = expand mask (vsumP (mask.count true) denses) := by
  induction denses with
  | nil => exact absurd rfl hne
  | cons d ds ih =>
    cases ds with
    | nil =>
      simp only [osumP, vsumP, List.map_cons, List.map_nil, List.foldr_cons, List.foldr_nil]
      exact zipWith_optAdd_replicate mask d
    | cons d' ds' =>
      have := ih (by simp)
      simp only [osumP, vsumP, List.map_cons, List.foldr_cons] at this ⊢
      rw [this]
      exact zipWith_optAdd_expand mask d _

theorem nanMeanRows_expand (mask : List Bool) (denses : List (List ℝ)) (hne : denses ≠ [])
    (hlen : ∀ d ∈ denses, d.length = mask.count true) :
    nanMeanRows (denses.map (expand mask)) = expand mask (meanRows denses) := by
  unfold nanMeanRows meanRows
  cases denses with
  | nil => exact absurd rfl hne
  | cons d ds =>
    have h1 : (((d :: ds).map (expand mask)).headD []).length = mask.length := by
      simp [expand_length]
    have h2 : ((d :: ds).headD []).length = mask.count true := by
      simpa using hlen d (List.mem_cons_self ..)
    rw [h1, h2, osumP_expand mask (d :: ds) hne, map_expand, List.length_map]

theorem applyO_expand (f : List ℝ → ℝ → ℝ) (mask : List Bool) (x : List ℝ)
    (h : x.length = mask.count true) : applyO f (expand mask x) = expand mask (applyD f x) := by
  unfold applyO applyD
  rw [present_expand mask x h, map_expand]

theorem poolD_length (m : Method) (p : ℕ) (rows : List (List ℝ)) (hne : rows ≠ [])
    (hlen : ∀ r ∈ rows, r.length = p) : (poolD m rows).length = p := by
  have hW : ∀ w ∈ rows.map (applyD (normF m)), w.length = p := by
    intro w hw
    obtain ⟨r, hr, rfl⟩ := List.mem_map.mp hw
    rw [applyD_length]; exact hlen r hr
  have := meanRows_length p _ (by simpa using hne) hW
  cases m <;> simp [poolD, applyD, this, Rsa.Gen.C07.hasShift, Method.code]

theorem poolO_expand (m : Method) (mask : List Bool) (denses : List (List ℝ)) (hne : denses ≠ [])
    (hlen : ∀ d ∈ denses, d.length = mask.count true) :
    poolO m (denses.map (expand mask)) = expand mask (poolD m denses) := by
  have h1 : (denses.map (expand mask)).map (applyO (normF m))
      = (denses.map (applyD (normF m))).map (expand mask) := by
    rw [List.map_map, List.map_map]
    apply List.map_congr_left
    intro d hd
    exact applyO_expand _ mask d (hlen d hd)
  have hW : ∀ w ∈ denses.map (applyD (normF m)), w.length = mask.count true := by
    intro w hw
    obtain ⟨r, hr, rfl⟩ := List.mem_map.mp hw
    rw [applyD_length]; exact hlen r hr
  have h2 := nanMeanRows_expand mask (denses.map (applyD (normF m))) (by simpa using hne) hW
  have h3 := meanRows_length _ _ (by simpa using hne) hW
  unfold poolO poolD
  simp only [h1, h2]
  cases m <;> first | rfl | exact applyO_expand shiftF mask _ h3

theorem poolO_nil (m : Method) : present (poolO m ([] : List (List (Option ℝ)))) = poolD m [] := by
  cases m <;> rfl

end nan

end Rsa.Ceiling
