/- helper lemmas for property C09, round 4: in-place operations, multi-step sessions -/
import Rsa.Lemmas.C09
import Rsa.Lemmas.C09R3
import Rsa.Core.BootC09

set_option linter.unusedSectionVars false
set_option linter.unusedVariables false
set_option linter.unusedSimpArgs false

namespace Rsa.Boot

variable {L β α : Type} [DecidableEq L]

/-- the square form is symmetric -/
theorem vecToMat_symm (n : Nat) (d e : β) (v : List β) (x y : Nat) :
    vecToMat n d e v x y = vecToMat n d e v y x := by
  unfold vecToMat
  by_cases h : x = y
  · subst h; rfl
  · have h' : ¬ y = x := fun e => h e.symm
    by_cases hlt : x < y
    · have : ¬ y < x := by omega
      simp [h, h', hlt, this]
    · have : y < x := by omega
      simp [h, h', hlt, this]

/-- entry `(i, j)` of a gathered RDM for an *arbitrary* (unsorted) selection: the square-form entry
    of the two source positions -/
theorem gatherVec_getElem? (n : Nat) (sel : List Nat) (v : List (Option α))
    (i j : Nat) (hij : i < j) (hj : j < sel.length) :
    (subVec n sel v)[triIdx sel.length i j]? =
      some (vecToMat n none none v (sel[i]'(by omega)) sel[j]) := by
  rw [subVec_eq, List.getElem?_map, pairsOf_getElem?_triIdx sel i j hij hj]
  rfl

/-- square form of a gathered RDM = square form of the source at the gathered positions -/
theorem vecToMat_subVec (n : Nat) (p : List Nat) (v : List (Option α)) (a b : Nat)
    (ha : a < p.length) (hb : b < p.length) :
    vecToMat p.length none none (subVec n p v) a b
      = vecToMat n none none v (p.getD a 0) (p.getD b 0) := by
  have ga : p.getD a 0 = p[a] := by simp [List.getD_eq_getElem?_getD, List.getElem?_eq_getElem ha]
  have gb : p.getD b 0 = p[b] := by simp [List.getD_eq_getElem?_getD, List.getElem?_eq_getElem hb]
  rw [ga, gb]
  by_cases h : a = b
  · subst h
    simp [vecToMat]
  · by_cases hlt : a < b
    · have e := gatherVec_getElem? n p v a b hlt hb
      conv_lhs => unfold vecToMat
      simp only [h, if_false, hlt, if_true]
      rw [List.getD_eq_getElem?_getD, e]
      rfl
    · have hlt' : b < a := by omega
      have e := gatherVec_getElem? n p v b a hlt' ha
      conv_lhs => unfold vecToMat
      simp only [h, if_false, hlt]
      rw [List.getD_eq_getElem?_getD, e]
      exact vecToMat_symm n none none v p[b] p[a]

/-- fancy-indexing twice = fancy-indexing once with the composed positions -/
theorem subVec_comp (n : Nat) (p sel : List Nat) (v : List (Option α))
    (hsel : ∀ a ∈ sel, a < p.length) :
    subVec p.length sel (subVec n p v) = subVec n (sel.map (fun a => p.getD a 0)) v := by
  rw [subVec_eq p.length sel, subVec_eq n (sel.map _), pairsOf_map, List.map_map]
  apply List.map_congr_left
  intro q hq
  obtain ⟨h1, h2⟩ := mem_pairsOf hq
  exact vecToMat_subVec n p v q.1 q.2 (hsel _ h1) (hsel _ h2)

/-- re-indexing twice = re-indexing once with the composed positions -/
theorem pick_pick (l : List β) (p sel : List Nat) (hp : ∀ i ∈ p, i < l.length)
    (hsel : ∀ a ∈ sel, a < p.length) :
    pick (pick l p) sel = pick l (sel.map (fun a => p.getD a 0)) := by
  induction sel with
  | nil => simp [pick]
  | cons a as ih =>
    have ha : a < p.length := hsel a List.mem_cons_self
    have has : ∀ a' ∈ as, a' < p.length := fun a' h => hsel a' (List.mem_cons_of_mem _ h)
    have hpa : p[a] < l.length := hp _ (List.getElem_mem ha)
    have e1 : (pick l p)[a]? = some l[p[a]] := pick_getElem l p hp a ha
    have ga : p.getD a 0 = p[a] := by simp [List.getD_eq_getElem?_getD, List.getElem?_eq_getElem ha]
    have ih' := ih has
    unfold pick at ih' ⊢
    simp only [List.map_cons, List.filterMap_cons]
    unfold pick at e1
    rw [e1, ga, List.getElem?_eq_getElem hpa, ih']

theorem extract_extract (d : Desc L) (n : Nat) (hd : ∀ kv ∈ d, kv.2.length = n) (p sel : List Nat)
    (hp : ∀ i ∈ p, i < n) (hsel : ∀ a ∈ sel, a < p.length) :
    extract (extract d p) sel = extract d (sel.map (fun a => p.getD a 0)) := by
  unfold extract
  rw [List.map_map]
  apply List.map_congr_left
  intro kv hkv
  simp only [Function.comp]
  rw [pick_pick kv.2 p sel (fun i hi => by rw [hd kv hkv]; exact hp i hi) hsel]

/-- how often an original position occurs among the composed positions: as often as its unique
    index in the injective re-indexing `p` occurs in the selection -/
theorem count_map_getD (p : List Nat) (hnd : p.Nodup) (sel : List Nat)
    (hsel : ∀ a ∈ sel, a < p.length) (a0 : Nat) (ha0 : a0 < p.length) :
    (sel.map (fun a => p.getD a 0)).count p[a0] = sel.count a0 := by
  induction sel with
  | nil => simp
  | cons a as ih =>
    have ha : a < p.length := hsel a List.mem_cons_self
    have has : ∀ a' ∈ as, a' < p.length := fun a' h => hsel a' (List.mem_cons_of_mem _ h)
    have ga : p.getD a 0 = p[a] := by simp [List.getD_eq_getElem?_getD, List.getElem?_eq_getElem ha]
    rw [List.map_cons, List.count_cons, List.count_cons, ih has, ga]
    congr 1
    have : (p[a] = p[a0]) ↔ a = a0 := hnd.getElem_inj_iff
    by_cases h : a = a0
    · subst h; simp
    · have h' : ¬ p[a] = p[a0] := fun e => h (this.mp e)
      simp [h, h']

end Rsa.Boot
