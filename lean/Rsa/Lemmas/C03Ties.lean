/-
  Helper lemmas for C03 (round 3): the tie counts of `_tau_a` as coded are pair counts.
    * `runTies_eq`      — on a lexicographically sorted list of rank pairs, the sum of
                          `cnt(cnt−1)//2` over the runs of equal adjacent pairs (leaf `runTie`) is the
                          number of jointly tied pairs;
    * `bincountTies_eq` — the sum of `cnt(cnt−1)//2` over the `np.bincount` counts above 1
                          (leaves `rankTie`, `rankTieKeep`) is the number of tied pairs of a vector.
-/
import Rsa.Lemmas.C03Passes

set_option linter.unusedVariables false
set_option linter.unusedSectionVars false
set_option linter.unusedSimpArgs false
set_option linter.unnecessarySeqFocus false

open Rsa Rsa.Compare

namespace Rsa.Compare

theorem countPairs_cons {β : Type} (R : β → β → Bool) (a : β) (t : List β) :
    countPairs R (a :: t) = t.countP (fun b => R a b) + countPairs R t := by
  simp [countPairs, pairsOf, List.countP_append, List.countP_map, Function.comp_def]

theorem half_succ (c : ℕ) : ((c + 1) * (c + 1 - 1)) / 2 = (c * (c - 1)) / 2 + c := by
  cases c with
  | zero => simp
  | succ d =>
    simp only [Nat.add_sub_cancel]
    have : (d + 1 + 1) * (d + 1) = (d + 1) * d + 2 * (d + 1) := by ring
    rw [this, Nat.add_mul_div_left _ _ (by norm_num : 0 < 2)]

theorem runTie_succ (c : ℕ) : Rsa.Gen.C03.runTie (c + 1) = Rsa.Gen.C03.runTie c + c := half_succ c
theorem rankTie_succ (c : ℕ) : Rsa.Gen.C03.rankTie (c + 1) = Rsa.Gen.C03.rankTie c + c := half_succ c

/-! ### joint ties by run lengths -/

/-- lexicographic order of rank pairs: what the two passes establish and `_kendall_dis` expects -/
def lexLE (p q : ℕ × ℕ) : Prop := p.1 < q.1 ∨ (p.1 = q.1 ∧ p.2 ≤ q.2)

def eqPair (p q : ℕ × ℕ) : Bool := p.1 == q.1 && p.2 == q.2

theorem eqPair_iff (p q : ℕ × ℕ) : eqPair p q = true ↔ p = q := by
  simp [eqPair, Prod.ext_iff]

theorem lexLE_antisymm {p q : ℕ × ℕ} (h1 : lexLE p q) (h2 : lexLE q p) : p = q := by
  unfold lexLE at h1 h2
  apply Prod.ext <;> omega

theorem lexLE_trans {p q r : ℕ × ℕ} (h1 : lexLE p q) (h2 : lexLE q r) : lexLE p r := by
  unfold lexLE at *
  omega

theorem runTies_def (l : List (ℕ × ℕ)) :
    runTies l = ((runLengths eqPair l).map Rsa.Gen.C03.runTie).sum := rfl

theorem runLengths_head (t : List (ℕ × ℕ)) : ∀ a, (a :: t).Pairwise lexLE →
    ∃ rest, runLengths eqPair (a :: t) = (1 + t.countP (fun b => decide (b = a))) :: rest ∧
      ((runLengths eqPair (a :: t)).map Rsa.Gen.C03.runTie).sum
        = t.countP (fun b => decide (b = a)) + ((runLengths eqPair t).map Rsa.Gen.C03.runTie).sum := by
  induction t with
  | nil =>
    intro a _
    exact ⟨[], by simp [runLengths], by simp [runLengths, Rsa.Gen.C03.runTie]⟩
  | cons b t' ih =>
    intro a h
    rw [List.pairwise_cons] at h
    obtain ⟨hab, hbt⟩ := h
    obtain ⟨rest', e1, e2⟩ := ih b hbt
    by_cases hEq : a = b
    · subst hEq
      have he : eqPair a a = true := (eqPair_iff _ _).mpr rfl
      have hr : runLengths eqPair (a :: a :: t')
          = (1 + t'.countP (fun b => decide (b = a)) + 1) :: rest' := by
        simp only [runLengths, he, if_true, e1]
      refine ⟨rest', ?_, ?_⟩
      · rw [hr, List.countP_cons]
        simp
        omega
      · rw [hr, List.map_cons, List.sum_cons, runTie_succ, e1, List.map_cons, List.sum_cons,
          List.countP_cons]
        simp
        omega
    · have he : ¬ eqPair a b = true := fun e => hEq ((eqPair_iff _ _).mp e)
      have hr : runLengths eqPair (a :: b :: t') = 1 :: runLengths eqPair (b :: t') := by
        simp only [runLengths, he, if_false]
        simp
      have hz : (b :: t').countP (fun c => decide (c = a)) = 0 := by
        apply List.countP_eq_zero.mpr
        intro c hc hca
        have hca' : c = a := by simpa using hca
        subst hca'
        have hbc : lexLE b c := by
          rcases List.mem_cons.mp hc with rfl | hc'
          · exact Or.inr ⟨rfl, le_refl _⟩
          · exact (List.pairwise_cons.mp hbt).1 c hc'
        exact hEq (lexLE_antisymm (hab b List.mem_cons_self) hbc)
      refine ⟨runLengths eqPair (b :: t'), ?_, ?_⟩
      · rw [hr, hz]
      · rw [hr, hz, List.map_cons, List.sum_cons]
        simp [Rsa.Gen.C03.runTie]

/-- on a lexicographically sorted list of rank pairs the run-length formula of `_tau_a`
    counts the jointly tied pairs -/
theorem runTies_eq (l : List (ℕ × ℕ)) (hl : l.Pairwise lexLE) : runTies l = countPairs tieXYH l := by
  induction l with
  | nil => simp [runTies_def, runLengths, countPairs, pairsOf]
  | cons a t ih =>
    obtain ⟨rest, _, e2⟩ := runLengths_head t a hl
    rw [runTies_def, e2, ← runTies_def, ih (List.pairwise_cons.mp hl).2, countPairs_cons]
    congr 1
    apply List.countP_congr
    intro b _
    have : tieXYH a b = decide (b = a) := by
      rw [Bool.eq_iff_iff]
      simp only [tieXYH, Bool.and_eq_true, tiedB_iff', decide_eq_true_eq]
      constructor
      · rintro ⟨h1, h2⟩; exact (Prod.ext h1 h2).symm
      · rintro rfl; exact ⟨rfl, rfl⟩
    simp [this]

/-! ### ties of one vector by `np.bincount` -/

theorem foldl_max_ge (r : List ℕ) : ∀ init, init ≤ r.foldl max init ∧ ∀ a ∈ r, a ≤ r.foldl max init := by
  induction r with
  | nil => intro init; simp
  | cons b t ih =>
    intro init
    obtain ⟨h1, h2⟩ := ih (max init b)
    simp only [List.foldl_cons]
    refine ⟨le_trans (le_max_left _ _) h1, ?_⟩
    intro a ha
    rcases List.mem_cons.mp ha with rfl | ha
    · exact le_trans (le_max_right _ _) h1
    · exact h2 a ha

theorem sum_keep (cnt : List ℕ) :
    ((cnt.filter (fun c => Rsa.Gen.C03.rankTieKeep c == 1)).map Rsa.Gen.C03.rankTie).sum
      = (cnt.map Rsa.Gen.C03.rankTie).sum := by
  induction cnt with
  | nil => simp
  | cons c t ih =>
    rw [List.filter_cons]
    by_cases h : 1 < c
    · have : (Rsa.Gen.C03.rankTieKeep c == 1) = true := by simp [Rsa.Gen.C03.rankTieKeep, h]
      rw [if_pos this, List.map_cons, List.sum_cons, List.map_cons, List.sum_cons, ih]
    · have : ¬ (Rsa.Gen.C03.rankTieKeep c == 1) = true := by simp [Rsa.Gen.C03.rankTieKeep, h]
      rw [if_neg this, List.map_cons, List.sum_cons, ih]
      have hz : Rsa.Gen.C03.rankTie c = 0 := by
        have : c = 0 ∨ c = 1 := by omega
        rcases this with rfl | rfl <;> simp [Rsa.Gen.C03.rankTie]
      rw [hz, Nat.zero_add]

theorem sum_range_ite (M a : ℕ) (f : ℕ → ℕ) :
    ((List.range M).map (fun v => if v = a then f v else 0)).sum = if a < M then f a else 0 := by
  induction M with
  | zero => simp
  | succ M ih =>
    rw [List.range_succ, List.map_append, List.sum_append, ih]
    by_cases h1 : a < M
    · have : M ≠ a := by omega
      simp [h1, this, Nat.lt_succ_of_lt h1]
    · by_cases h2 : M = a
      · subst h2; simp
      · have : ¬ a < M + 1 := by omega
        simp [h1, h2, this]

theorem sum_range_count (M : ℕ) (r : List ℕ) (hr : ∀ a ∈ r, a < M) :
    ((List.range M).map (fun v => Rsa.Gen.C03.rankTie (r.count v))).sum
      = countPairs (fun a b => tiedB a b) r := by
  induction r with
  | nil => simp [Rsa.Gen.C03.rankTie, countPairs, pairsOf]
  | cons a t ih =>
    have hstep : ∀ v, Rsa.Gen.C03.rankTie ((a :: t).count v)
        = Rsa.Gen.C03.rankTie (t.count v) + (if v = a then t.count v else 0) := by
      intro v
      rw [List.count_cons]
      by_cases h : v = a
      · subst h; simp [rankTie_succ]
      · have : (a == v) = false := by
          rw [beq_eq_false_iff_ne]; exact fun e => h e.symm
        simp [h, this]
    simp only [hstep]
    rw [List.sum_map_add, ih (fun b hb => hr b (List.mem_cons_of_mem _ hb)), sum_range_ite,
      if_pos (hr a List.mem_cons_self), countPairs_cons, Nat.add_comm]
    congr 1
    rw [List.count_eq_countP]
    apply List.countP_congr
    intro b _
    have : tiedB a b = (b == a) := by
      rw [Bool.eq_iff_iff, tiedB_iff', beq_iff_eq]
      exact eq_comm
    simp [this]

/-- the `np.bincount` formula of `_count_rank_tie` counts the tied pairs of a rank vector -/
theorem bincountTies_eq (r : List ℕ) : bincountTies r = countPairs (fun a b => tiedB a b) r := by
  unfold bincountTies
  simp only
  rw [sum_keep, List.map_map]
  exact sum_range_count _ r (fun a ha => Nat.lt_succ_of_le ((foldl_max_ge r 0).2 a ha))

end Rsa.Compare
