/-
  Helper lemmas for C08:
    * entries / length / linearity of `predict` (weighted sums of lists);
    * an abstract symmetric positive semi-definite bilinear form on lists of length `m`
      (`IsIP`), its Cauchy–Schwarz inequality, `ip (predict B θ) c = Σ θ_i · ip B_i c`;
    * the guarded similarity `simIp` of such a form (`Compare.cosine` is `simIp dot`),
      the mean similarity with a stack of data vectors and its reduction to the pooled
      target (`IsPool`);
    * the optimality core `meanSim_le_of`;
    * instances: the plain inner product, the inner product of mean-removed vectors, the
      inner product weighted by a symmetric positive definite matrix.
-/
import Mathlib.Algebra.QuadraticDiscriminant
import Rsa.Lemmas.C03
import Rsa.Lemmas.C03Whiten
import Rsa.Core.Fit

set_option linter.unusedSectionVars false
set_option linter.unusedVariables false
set_option linter.unusedSimpArgs false

namespace Rsa
namespace Fit
open Rsa.Compare

/-! ### lists: `vadd`, `vscale`, `getD` -/

section lists
variable {K : Type} [Field K]

theorem vadd_length (a b : List K) : (vadd a b).length = min a.length b.length := by
  simp [vadd]

theorem vscale_length (t : K) (a : List K) : (vscale t a).length = a.length := by
  simp [vscale]

theorem vadd_getD (a b : List K) (k : ℕ) (ha : k < a.length) (hb : k < b.length) :
    (vadd a b).getD k 0 = a.getD k 0 + b.getD k 0 := by
  have hk : k < (vadd a b).length := by rw [vadd_length]; exact lt_min ha hb
  rw [List.getD_eq_getElem _ _ hk, List.getD_eq_getElem _ _ ha, List.getD_eq_getElem _ _ hb]
  simp [vadd]

theorem vscale_getD (t : K) (a : List K) (k : ℕ) : (vscale t a).getD k 0 = t * a.getD k 0 := by
  by_cases hk : k < a.length
  · have hk' : k < (vscale t a).length := by rw [vscale_length]; exact hk
    rw [List.getD_eq_getElem _ _ hk', List.getD_eq_getElem _ _ hk]
    simp [vscale]
  · have hk' : ¬ k < (vscale t a).length := by rw [vscale_length]; exact hk
    rw [List.getD_eq_default _ _ (not_lt.mp hk'), List.getD_eq_default _ _ (not_lt.mp hk)]
    simp

theorem replicate_getD_zero (m k : ℕ) : (List.replicate m (0 : K)).getD k 0 = 0 := by
  by_cases hk : k < m
  · rw [List.getD_eq_getElem _ _ (by simpa using hk)]; simp
  · rw [List.getD_eq_default _ _ (by simpa using not_lt.mp hk)]

theorem list_ext_getD {a b : List K} (hl : a.length = b.length)
    (h : ∀ k, k < a.length → a.getD k 0 = b.getD k 0) : a = b := by
  apply List.ext_getElem hl
  intro k h1 h2
  have := h k h1
  rwa [List.getD_eq_getElem _ _ h1, List.getD_eq_getElem _ _ h2] at this

@[simp] theorem dot_nil_l (y : List K) : dot ([] : List K) y = 0 := by simp [dot]
@[simp] theorem dot_nil_r (x : List K) : dot x ([] : List K) = 0 := by simp [dot]
@[simp] theorem dot_cons_cons (a b : K) (x y : List K) :
    dot (a :: x) (b :: y) = a * b + dot x y := by simp [dot]

theorem dot_comm' (x y : List K) : dot x y = dot y x := by
  induction x generalizing y with
  | nil => simp
  | cons a x ih => cases y with
    | nil => simp
    | cons b y => simp [ih y, mul_comm]

/-- `dot θ` is additive in a mapped right argument -/
theorem dot_map_add {β : Type} (θ : List K) (B : List β) (f g : β → K) :
    dot θ (B.map (fun b => f b + g b)) = dot θ (B.map f) + dot θ (B.map g) := by
  induction B generalizing θ with
  | nil => simp
  | cons b B ih => cases θ with
    | nil => simp
    | cons t θ => simp [ih θ]; ring

theorem dot_map_smul {β : Type} (θ : List K) (B : List β) (f : β → K) (c : K) :
    dot θ (B.map (fun b => c * f b)) = c * dot θ (B.map f) := by
  induction B generalizing θ with
  | nil => simp
  | cons b B ih => cases θ with
    | nil => simp
    | cons t θ => simp [ih θ]; ring

theorem dot_vadd_left (a b c : List K) (hab : a.length = b.length) (hbc : b.length = c.length) :
    dot (vadd a b) c = dot a c + dot b c := by
  induction a generalizing b c with
  | nil => cases b with
    | nil => simp [vadd]
    | cons _ _ => simp at hab
  | cons x a ih => cases b with
    | nil => simp at hab
    | cons y b => cases c with
      | nil => simp at hbc
      | cons z c =>
        simp only [List.length_cons, Nat.add_right_cancel_iff] at hab hbc
        have : vadd (x :: a) (y :: b) = (x + y) :: vadd a b := by simp [vadd]
        rw [this, dot_cons_cons, dot_cons_cons, dot_cons_cons, ih b c hab hbc]
        ring

theorem dot_vscale_left (t : K) (a c : List K) : dot (vscale t a) c = t * dot a c := by
  induction a generalizing c with
  | nil => simp [vscale]
  | cons x a ih => cases c with
    | nil => simp
    | cons z c =>
      have : vscale t (x :: a) = (t * x) :: vscale t a := by simp [vscale]
      rw [this, dot_cons_cons, dot_cons_cons, ih c]
      ring

theorem dot_replicate_zero (m : ℕ) (c : List K) : dot (List.replicate m (0 : K)) c = 0 := by
  induction m generalizing c with
  | zero => simp
  | succ m ih => cases c with
    | nil => simp
    | cons z c => simp [List.replicate_succ, ih c]

end lists

/-! ### `predict` -/

section predict
variable {K : Type} [Field K]

theorem predict_nil_left (m : ℕ) (θ : List K) : predict m ([] : List (List K)) θ = List.replicate m 0 := by
  cases θ <;> rfl

theorem predict_nil_right (m : ℕ) (B : List (List K)) : predict m B ([] : List K) = List.replicate m 0 := by
  cases B <;> rfl

theorem predict_cons (m : ℕ) (b : List K) (B : List (List K)) (t : K) (θ : List K) :
    predict m (b :: B) (t :: θ) = vadd (vscale t b) (predict m B θ) := rfl

theorem predict_length' (m : ℕ) (B : List (List K)) (θ : List K) (hB : ∀ b ∈ B, b.length = m) :
    (predict m B θ).length = m := by
  induction B generalizing θ with
  | nil => simp [predict_nil_left]
  | cons b B ih => cases θ with
    | nil => simp [predict_nil_right]
    | cons t θ =>
      rw [predict_cons, vadd_length, vscale_length, hB b (by simp),
        ih θ (fun b' hb' => hB b' (List.mem_cons_of_mem _ hb'))]
      simp

/-- entry `k` of the prediction is `Σ_i θ_i · B_i[k]` -/
theorem predict_getD (m : ℕ) (B : List (List K)) (θ : List K) (hB : ∀ b ∈ B, b.length = m)
    (k : ℕ) (hk : k < m) :
    (predict m B θ).getD k 0 = dot θ (B.map (fun b => b.getD k 0)) := by
  induction B generalizing θ with
  | nil => simp [predict_nil_left, replicate_getD_zero]
  | cons b B ih => cases θ with
    | nil => simp [predict_nil_right, replicate_getD_zero]
    | cons t θ =>
      have hB' : ∀ b' ∈ B, b'.length = m := fun b' hb' => hB b' (List.mem_cons_of_mem _ hb')
      rw [predict_cons, vadd_getD _ _ _ (by rw [vscale_length, hB b (by simp)]; exact hk)
        (by rw [predict_length' m B θ hB']; exact hk), vscale_getD, ih θ hB']
      simp

end predict

/-! ### an abstract inner product on lists of length `m` -/

/-- symmetric, positive semi-definite, bilinear on the lists of length `m` -/
structure IsIP (m : ℕ) (ip : List ℝ → List ℝ → ℝ) : Prop where
  add_left : ∀ a b c, a.length = m → b.length = m → c.length = m →
    ip (vadd a b) c = ip a c + ip b c
  smul_left : ∀ (t : ℝ) a c, a.length = m → c.length = m → ip (vscale t a) c = t * ip a c
  zero_left : ∀ c, c.length = m → ip (List.replicate m 0) c = 0
  symm : ∀ a b, a.length = m → b.length = m → ip a b = ip b a
  nonneg : ∀ a, a.length = m → 0 ≤ ip a a

section ip
variable {m : ℕ} {ip : List ℝ → List ℝ → ℝ}

theorem IsIP.add_right (h : IsIP m ip) (a b c : List ℝ) (ha : a.length = m) (hb : b.length = m)
    (hc : c.length = m) : ip c (vadd a b) = ip c a + ip c b := by
  have hl : (vadd a b).length = m := by rw [vadd_length, ha, hb]; simp
  rw [h.symm c _ hc hl, h.add_left a b c ha hb hc, h.symm a c ha hc, h.symm b c hb hc]

theorem IsIP.smul_right (h : IsIP m ip) (t : ℝ) (a c : List ℝ) (ha : a.length = m)
    (hc : c.length = m) : ip c (vscale t a) = t * ip c a := by
  have hl : (vscale t a).length = m := by rw [vscale_length, ha]
  rw [h.symm c _ hc hl, h.smul_left t a c ha hc, h.symm a c ha hc]

/-- Cauchy–Schwarz -/
theorem IsIP.cs (h : IsIP m ip) (a b : List ℝ) (ha : a.length = m) (hb : b.length = m) :
    ip a b * ip a b ≤ ip a a * ip b b := by
  have key : ∀ t : ℝ, 0 ≤ ip b b * (t * t) + 2 * ip a b * t + ip a a := by
    intro t
    have hsb : (vscale t b).length = m := by rw [vscale_length, hb]
    have hl : (vadd a (vscale t b)).length = m := by rw [vadd_length, ha, hsb]; simp
    have := h.nonneg (vadd a (vscale t b)) hl
    rw [h.add_left a _ _ ha hsb hl, h.add_right a _ a ha hsb ha,
      h.add_right a _ _ ha hsb hsb, h.smul_right t b a hb ha, h.smul_left t b a hb ha,
      h.smul_left t b _ hb hsb, h.smul_right t b b hb hb, h.symm b a hb ha] at this
    linarith
  have hd := discrim_le_zero (a := ip b b) (b := 2 * ip a b) (c := ip a a) key
  unfold discrim at hd
  nlinarith

/-- the form is linear along `predict` -/
theorem IsIP.predict_left (h : IsIP m ip) (B : List (List ℝ)) (θ : List ℝ) (c : List ℝ)
    (hB : ∀ b ∈ B, b.length = m) (hc : c.length = m) :
    ip (predict m B θ) c = dot θ (B.map (fun b => ip b c)) := by
  induction B generalizing θ with
  | nil => simp [predict_nil_left, h.zero_left c hc]
  | cons b B ih => cases θ with
    | nil => simp [predict_nil_right, h.zero_left c hc]
    | cons t θ =>
      have hB' : ∀ b' ∈ B, b'.length = m := fun b' hb' => hB b' (List.mem_cons_of_mem _ hb')
      have hb : b.length = m := hB b (by simp)
      rw [predict_cons, h.add_left _ _ c (by rw [vscale_length, hb]) (predict_length' m B θ hB') hc,
        h.smul_left t b c hb hc, ih θ hB']
      simp

end ip

/-! ### guarded similarity, mean similarity, pooled target -/

/-- `ip a b / (‖a‖ ‖b‖)` with the zero-norm guard of `_cosine` -/
noncomputable def simIp (ip : List ℝ → List ℝ → ℝ) (a b : List ℝ) : ℝ :=
  if 0 < Real.sqrt (ip a a) ∧ 0 < Real.sqrt (ip b b)
  then ip a b / Real.sqrt (ip a a) / Real.sqrt (ip b b) else 0

/-- mean similarity of `a` with every vector of `data` -/
noncomputable def meanSimIp (ip : List ℝ → List ℝ → ℝ) (a : List ℝ) (data : List (List ℝ)) : ℝ :=
  mean (data.map (simIp ip a))

/-- `y` represents (up to the positive factor `κ`) the sum of the unit-normalised data
    vectors: `ip a y = κ · Σ_r ip a d_r / ‖d_r‖` for every `a` -/
structure IsPool (m : ℕ) (ip : List ℝ → List ℝ → ℝ) (data : List (List ℝ)) (y : List ℝ) (κ : ℝ) :
    Prop where
  pos : 0 < κ
  len : y.length = m
  eq : ∀ a, a.length = m → ip a y = κ * (data.map (fun d => ip a d / Real.sqrt (ip d d))).sum

theorem cosine_eq_simIp (a b : List ℝ) : cosine a b = simIp dot a b := rfl

theorem corr_eq_simIp (a b : List ℝ) :
    corr a b = simIp (fun x y => dot (center x) (center y)) a b := rfl

section meansim
variable {m : ℕ} {ip : List ℝ → List ℝ → ℝ}

theorem sum_map_div_const {β : Type} (l : List β) (f : β → ℝ) (s : ℝ) :
    (l.map (fun d => f d / s)).sum = (l.map f).sum / s := by
  induction l with
  | nil => simp
  | cons d l ih => simp [ih, add_div]

theorem sum_map_zero {β : Type} (l : List β) : (l.map (fun _ => (0 : ℝ))).sum = 0 := by
  induction l with
  | nil => simp
  | cons d l ih => simp [ih]

/-- the mean similarity with the data is the (scaled) similarity with the pooled target -/
theorem meanSimIp_eq_pool (h : IsIP m ip) (data : List (List ℝ)) (y : List ℝ) (κ : ℝ)
    (hp : IsPool m ip data y κ) (hd : ∀ d ∈ data, 0 < ip d d) (a : List ℝ) (ha : a.length = m) :
    meanSimIp ip a data =
      if 0 < ip a a then ip a y / (κ * (data.length : ℝ) * Real.sqrt (ip a a)) else 0 := by
  unfold meanSimIp mean
  by_cases hpos : 0 < ip a a
  · rw [if_pos hpos]
    have hs : 0 < Real.sqrt (ip a a) := Real.sqrt_pos.mpr hpos
    have e : data.map (simIp ip a) =
        data.map (fun d => (ip a d / Real.sqrt (ip d d)) / Real.sqrt (ip a a)) := by
      apply List.map_congr_left
      intro d hdm
      unfold simIp
      rw [if_pos ⟨hs, Real.sqrt_pos.mpr (hd d hdm)⟩]
      ring
    rw [e, sum_map_div_const, hp.eq a ha, List.length_map]
    have hk := hp.pos
    by_cases hn : (data.length : ℝ) = 0
    · rw [hn]; simp
    · field_simp
  · rw [if_neg hpos]
    have e : data.map (simIp ip a) = data.map (fun _ => (0 : ℝ)) := by
      apply List.map_congr_left
      intro d _
      unfold simIp
      rw [if_neg]
      intro hh
      exact hpos (Real.sqrt_pos.mp hh.1)
    rw [e, sum_map_zero]
    simp

/-- optimality core: if `ip p y ≤ ip p ps` and `ip ps y = ip ps ps` then `ps` scores at
    least as high as `p` -/
theorem meanSim_le_of (h : IsIP m ip) (data : List (List ℝ)) (y : List ℝ) (κ : ℝ)
    (hp : IsPool m ip data y κ) (hd : ∀ d ∈ data, 0 < ip d d)
    (p ps : List ℝ) (hpl : p.length = m) (hpsl : ps.length = m)
    (h1 : ip p y ≤ ip p ps) (h2 : ip ps y = ip ps ps) :
    meanSimIp ip p data ≤ meanSimIp ip ps data := by
  rw [meanSimIp_eq_pool h data y κ hp hd p hpl, meanSimIp_eq_pool h data y κ hp hd ps hpsl]
  have hk := hp.pos
  by_cases hn : data.length = 0
  · simp [hn]
  have hR : (0 : ℝ) < (data.length : ℝ) := by exact_mod_cast Nat.pos_of_ne_zero hn
  have hcs := h.cs p ps hpl hpsl
  have hnn := h.nonneg ps hpsl
  by_cases hps : 0 < ip ps ps
  · rw [if_pos hps, h2]
    have hsps : 0 < Real.sqrt (ip ps ps) := Real.sqrt_pos.mpr hps
    have e2 : ip ps ps / (κ * (data.length : ℝ) * Real.sqrt (ip ps ps)) =
        Real.sqrt (ip ps ps) / (κ * (data.length : ℝ)) := by
      have := Real.mul_self_sqrt hps.le
      field_simp
      nlinarith
    rw [e2]
    by_cases hpp : 0 < ip p p
    · rw [if_pos hpp]
      have hsp : 0 < Real.sqrt (ip p p) := Real.sqrt_pos.mpr hpp
      have hle : ip p ps ≤ Real.sqrt (ip p p) * Real.sqrt (ip ps ps) := by
        rw [← Real.sqrt_mul hpp.le]
        apply Real.le_sqrt_of_sq_le
        rw [sq]; exact hcs
      rw [div_le_div_iff₀ (by positivity) (by positivity)]
      have : ip p y ≤ Real.sqrt (ip p p) * Real.sqrt (ip ps ps) := le_trans h1 hle
      nlinarith [mul_pos hk hR]
    · rw [if_neg hpp]; positivity
  · rw [if_neg hps]
    have hz : ip ps ps = 0 := le_antisymm (not_lt.mp hps) hnn
    by_cases hpp : 0 < ip p p
    · rw [if_pos hpp]
      have h0 : ip p ps = 0 := by
        have : ip p ps * ip p ps ≤ 0 := by rw [hz] at hcs; simpa using hcs
        nlinarith [mul_self_nonneg (ip p ps)]
      have hsp : 0 < Real.sqrt (ip p p) := Real.sqrt_pos.mpr hpp
      apply div_nonpos_of_nonpos_of_nonneg
      · linarith
      · positivity
    · rw [if_neg hpp]

end meansim

end Fit
end Rsa
