/- C10 helper lemmas: the orders `sort_by` computes are permutations of the positions -/
import Rsa.Lemmas.C10Step

set_option linter.unusedSectionVars false
set_option linter.unusedVariables false
set_option linter.unusedSimpArgs false

namespace Rsa.Rdm

open Rsa

theorem isPermOfRange_of_perm {p : List Nat} {n : Nat} (h : p.Perm (List.range n)) :
    isPermOfRange p n = true := by
  simp only [isPermOfRange, Bool.and_eq_true, beq_iff_eq, List.all_eq_true, List.mem_range,
    List.contains_iff_mem]
  refine ⟨by simpa using h.length_eq, ?_⟩
  intro i hi
  exact h.mem_iff.mpr (List.mem_range.mpr hi)

theorem argsortStable_perm' (col : List Lbl) : (argsortStable col).Perm (List.range col.length) := by
  unfold argsortStable
  have h := (List.mergeSort_perm col.zipIdx (fun a b => Lbl.le a.1 b.1)).map Prod.snd
  rw [List.zipIdx_map_snd, ← List.range_eq_range'] at h
  exact h

/-! ### `idxWhere` -/

theorem mem_idxWhereFrom {β : Type} (q : β → Bool) (k : Nat) (col : List β) (i : Nat) :
    i ∈ idxWhereFrom q k col ↔ k ≤ i ∧ ∃ x, col[i - k]? = some x ∧ q x = true := by
  induction col generalizing k with
  | nil => simp [idxWhereFrom]
  | cons c cs ih =>
    simp only [idxWhereFrom]
    by_cases hq : q c = true
    · simp only [hq, if_true, List.mem_cons, ih]
      constructor
      · rintro (rfl | ⟨hk, x, hx, hqx⟩)
        · exact ⟨Nat.le_refl _, c, by simp, hq⟩
        · refine ⟨by omega, x, ?_, hqx⟩
          have : i - k = (i - (k + 1)) + 1 := by omega
          rw [this, List.getElem?_cons_succ]; exact hx
      · rintro ⟨hk, x, hx, hqx⟩
        by_cases hik : i = k
        · exact Or.inl hik
        · refine Or.inr ⟨by omega, x, ?_, hqx⟩
          have : i - k = (i - (k + 1)) + 1 := by omega
          rw [this, List.getElem?_cons_succ] at hx; exact hx
    · simp only [hq, Bool.false_eq_true, if_false, ih]
      constructor
      · rintro ⟨hk, x, hx, hqx⟩
        refine ⟨by omega, x, ?_, hqx⟩
        have : i - k = (i - (k + 1)) + 1 := by omega
        rw [this, List.getElem?_cons_succ]; exact hx
      · rintro ⟨hk, x, hx, hqx⟩
        by_cases hik : i = k
        · subst hik
          simp only [Nat.sub_self, List.getElem?_cons_zero, Option.some.injEq] at hx
          subst hx; exact absurd hqx hq
        · refine ⟨by omega, x, ?_, hqx⟩
          have : i - k = (i - (k + 1)) + 1 := by omega
          rw [this, List.getElem?_cons_succ] at hx; exact hx

theorem mem_idxWhere {β : Type} (q : β → Bool) (col : List β) (i : Nat) :
    i ∈ idxWhere q col ↔ ∃ x, col[i]? = some x ∧ q x = true := by
  simp [idxWhere, mem_idxWhereFrom]

theorem nodup_idxWhereFrom {β : Type} (q : β → Bool) (k : Nat) (col : List β) :
    (idxWhereFrom q k col).Nodup := by
  induction col generalizing k with
  | nil => simp [idxWhereFrom]
  | cons c cs ih =>
    simp only [idxWhereFrom]
    split
    · rw [List.nodup_cons]
      refine ⟨?_, ih (k + 1)⟩
      intro hk
      have := (idxWhereFrom_range q (k + 1) cs k hk).1
      omega
    · exact ih (k + 1)

/-- the order computed by (repaired) `sort_by(desc=[...])` is a permutation of the positions as
    soon as every descriptor value is listed -/
theorem selSortList_perm' (col method : List Lbl) (hall : ∀ x ∈ col, x ∈ method) :
    (selSortList col method).Perm (List.range col.length) := by
  unfold selSortList selSubsample
  apply (List.perm_ext_iff_of_nodup ?_ List.nodup_range).mpr
  · intro i
    simp only [List.mem_flatMap, List.mem_range, mem_idxWhere]
    constructor
    · rintro ⟨v, _, x, hx, _⟩
      by_contra hc
      rw [List.getElem?_eq_none (by omega)] at hx
      simp at hx
    · intro hi
      refine ⟨col[i], mem_uniq.mpr (hall _ (List.getElem_mem hi)), col[i],
        List.getElem?_eq_getElem hi, by simp⟩
  · rw [List.nodup_flatMap]
    refine ⟨fun v _ => nodup_idxWhereFrom _ 0 col, ?_⟩
    have hnd := nodup_uniq method
    refine List.Pairwise.imp ?_ hnd
    intro a b hab
    simp only [Function.onFun, List.disjoint_left]
    intro i hia hib
    rw [mem_idxWhere] at hia hib
    obtain ⟨x, hx, hxa⟩ := hia
    obtain ⟨y, hy, hyb⟩ := hib
    rw [hx] at hy
    simp only [Option.some.injEq] at hy
    subst hy
    simp only [beq_iff_eq] at hxa hyb
    exact hab (hxa.symm.trans hyb)

end Rsa.Rdm
