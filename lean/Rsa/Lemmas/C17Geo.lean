/-
  Helper lemmas for C17, geodesic part: `k` rounds of edge relaxation towards a target give
  the minimum weight over all walks with at most `k` edges; with non-negative weights every
  walk can be replaced by a duplicate-free one that is not longer, and a duplicate-free walk
  on `n` vertices has at most `n - 1` edges.
-/
import Mathlib.Algebra.Order.Field.Basic
import Mathlib.Data.List.Basic
import Mathlib.Data.List.Perm.Subperm
import Mathlib.Data.List.Nodup
import Mathlib.Tactic.Linarith
import Rsa.Core.Transform

set_option linter.unusedSectionVars false
set_option linter.unusedVariables false
set_option linter.unusedSimpArgs false
set_option linter.unnecessarySimpa false

namespace Rsa.Transform

open Rsa

section
variable {K : Type} [Field K] [LinearOrder K] [IsStrictOrderedRing K]

/-! ### `omin`, and folds of it -/

theorem omin_le_left {a b : Option K} {x : K} (h : a = some x) :
    ∃ y, omin a b = some y ∧ y ≤ x := by
  subst h
  cases b with
  | none => exact ⟨x, rfl, le_refl _⟩
  | some b =>
    by_cases hb : b < x
    · exact ⟨b, by simp [omin, hb], hb.le⟩
    · exact ⟨x, by simp [omin, hb], le_refl _⟩

theorem omin_le_right {a b : Option K} {x : K} (h : b = some x) :
    ∃ y, omin a b = some y ∧ y ≤ x := by
  subst h
  cases a with
  | none => exact ⟨x, rfl, le_refl _⟩
  | some a =>
    by_cases hb : x < a
    · exact ⟨x, by simp [omin, hb], le_refl _⟩
    · exact ⟨a, by simp [omin, hb], not_lt.mp hb⟩

theorem omin_attained {a b : Option K} {y : K} (h : omin a b = some y) : a = some y ∨ b = some y := by
  cases a with
  | none => right; simpa [omin] using h
  | some a =>
    cases b with
    | none => left; simpa [omin] using h
    | some b =>
      by_cases hb : b < a
      · right; simpa [omin, hb] using h
      · left; simpa [omin, hb] using h

/-- fold of `omin` over candidates `g m`, `m ∈ l`, starting from `acc` -/
def ofold (g : Nat → Option K) (l : List Nat) (acc : Option K) : Option K :=
  l.foldl (fun acc m => omin acc (g m)) acc

theorem ofold_le_acc (g : Nat → Option K) (l : List Nat) {acc : Option K} {x : K} (h : acc = some x) :
    ∃ y, ofold g l acc = some y ∧ y ≤ x := by
  induction l generalizing acc x with
  | nil => exact ⟨x, by simpa [ofold] using h, le_refl _⟩
  | cons m l ih =>
    obtain ⟨y1, h1, h2⟩ := omin_le_left (b := g m) h
    obtain ⟨y, h3, h4⟩ := ih h1
    exact ⟨y, by simpa [ofold] using h3, le_trans h4 h2⟩

theorem ofold_le_cand (g : Nat → Option K) (l : List Nat) (acc : Option K) {m : Nat} (hm : m ∈ l)
    {x : K} (h : g m = some x) : ∃ y, ofold g l acc = some y ∧ y ≤ x := by
  induction l generalizing acc with
  | nil => simp at hm
  | cons m' l ih =>
    rcases List.mem_cons.mp hm with rfl | hm'
    · obtain ⟨y1, h1, h2⟩ := omin_le_right (a := acc) h
      obtain ⟨y, h3, h4⟩ := ofold_le_acc g l h1
      exact ⟨y, by simpa [ofold] using h3, le_trans h4 h2⟩
    · obtain ⟨y, h3, h4⟩ := ih (omin acc (g m')) hm'
      exact ⟨y, by simpa [ofold] using h3, h4⟩

theorem ofold_attained (g : Nat → Option K) (l : List Nat) (acc : Option K) {y : K}
    (h : ofold g l acc = some y) : acc = some y ∨ ∃ m ∈ l, g m = some y := by
  induction l generalizing acc with
  | nil => left; simpa [ofold] using h
  | cons m l ih =>
    have h' : ofold g l (omin acc (g m)) = some y := by simpa [ofold] using h
    rcases ih _ h' with h1 | ⟨m', hm', h2⟩
    · rcases omin_attained h1 with h3 | h3
      · exact Or.inl h3
      · exact Or.inr ⟨m, List.mem_cons_self, h3⟩
    · exact Or.inr ⟨m', List.mem_cons_of_mem _ hm', h2⟩

/-! ### the relaxation rounds -/

/-- distance estimate of vertex `a` after `k` rounds -/
def dk (n : Nat) (w : Nat → Nat → Option K) (j k a : Nat) : Option K :=
  (distRounds n w j k).getD a none

theorem relaxAt_eq (n : Nat) (w : Nat → Nat → Option K) (d : List (Option K)) (a : Nat) :
    relaxAt n w d a = ofold (fun m => oadd (w a m) (d.getD m none)) (List.range n) (d.getD a none) := rfl

theorem dk_zero {n : Nat} (w : Nat → Nat → Option K) (j : Nat) {a : Nat} (ha : a < n) :
    dk n w j 0 a = if a = j then some 0 else none := by
  simp [dk, distRounds, initDist, List.getD_eq_getElem?_getD, ha]

theorem dk_succ {n : Nat} (w : Nat → Nat → Option K) (j k : Nat) {a : Nat} (ha : a < n) :
    dk n w j (k + 1) a =
      ofold (fun m => oadd (w a m) (dk n w j k m)) (List.range n) (dk n w j k a) := by
  simp [dk, distRounds, relaxStep, List.getD_eq_getElem?_getD, ha, relaxAt_eq]

/-! ### walks -/

theorem IsWalk.tail {n : Nat} {w : Nat → Nat → Option K} {a b : Nat} {rest : List Nat}
    (h : IsWalk n w (a :: b :: rest)) : IsWalk n w (b :: rest) := h.2.2

theorem IsWalk.head_lt {n : Nat} {w : Nat → Nat → Option K} {a : Nat} {rest : List Nat}
    (h : IsWalk n w (a :: rest)) : a < n := by
  cases rest with
  | nil => exact h
  | cons b r => exact h.1

theorem IsWalk.mem_lt {n : Nat} {w : Nat → Nat → Option K} {p : List Nat} (h : IsWalk n w p) :
    ∀ a ∈ p, a < n := by
  induction p with
  | nil => exact fun a ha => absurd ha (by simp)
  | cons b t ih =>
    intro a ha
    rcases List.mem_cons.mp ha with rfl | ha'
    · exact h.head_lt
    · cases t with
      | nil => simp at ha'
      | cons c r => exact ih h.tail a ha'

theorem IsWalk.suffix {n : Nat} {w : Nat → Nat → Option K} (l1 : List Nat) {l2 : List Nat}
    (h2 : l2 ≠ []) (h : IsWalk n w (l1 ++ l2)) : IsWalk n w l2 := by
  induction l1 with
  | nil => simpa using h
  | cons x l1 ih =>
    apply ih
    cases hl : l1 ++ l2 with
    | nil => simp [h2] at hl
    | cons y r =>
      have : IsWalk n w (x :: y :: r) := by simpa [hl] using h
      exact this.tail

/-- all edge weights are non-negative -/
def NonNeg (w : Nat → Nat → Option K) : Prop := ∀ a b c, w a b = some c → 0 ≤ c

theorem getD_nonneg {w : Nat → Nat → Option K} (hw : NonNeg w) (a b : Nat) : 0 ≤ (w a b).getD 0 := by
  cases h : w a b with
  | none => simp
  | some c => simpa using hw a b c h

theorem walkLen_nonneg {w : Nat → Nat → Option K} (hw : NonNeg w) (p : List Nat) : 0 ≤ walkLen w p := by
  induction p with
  | nil => simp [walkLen]
  | cons a t ih =>
    cases t with
    | nil => simp [walkLen]
    | cons b r =>
      simp only [walkLen]
      exact add_nonneg (getD_nonneg hw a b) ih

theorem walkLen_suffix_le {w : Nat → Nat → Option K} (hw : NonNeg w) (l1 l2 : List Nat) :
    walkLen w l2 ≤ walkLen w (l1 ++ l2) := by
  induction l1 with
  | nil => simp
  | cons x l1 ih =>
    cases hl : l1 ++ l2 with
    | nil =>
      have : l2 = [] := by
        cases l1 <;> simp_all
      rw [this]
      simpa [walkLen] using walkLen_nonneg hw (x :: l1)
    | cons y r =>
      rw [List.cons_append, hl]
      simp only [walkLen]
      rw [hl] at ih
      linarith [getD_nonneg hw x y]

/-- with non-negative weights every walk can be replaced by a duplicate-free walk with the
    same end points that is not longer -/
theorem walk_shorten {n : Nat} {w : Nat → Nat → Option K} (hw : NonNeg w) (p : List Nat)
    (hp : IsWalk n w p) :
    ∃ q, IsWalk n w q ∧ q.head? = p.head? ∧ q.getLast? = p.getLast? ∧ q.Nodup ∧
      walkLen w q ≤ walkLen w p := by
  induction p with
  | nil => exact absurd hp (by simp [IsWalk])
  | cons a t ih =>
    cases t with
    | nil => exact ⟨[a], hp, rfl, rfl, by simp, le_refl _⟩
    | cons b rest =>
      obtain ⟨q', hq1, hq2, hq3, hq4, hq5⟩ := ih hp.tail
      have hc := getD_nonneg hw a b
      by_cases ha : a ∈ q'
      · obtain ⟨l1, l2, rfl⟩ := List.append_of_mem ha
        refine ⟨a :: l2, IsWalk.suffix l1 (by simp) hq1, rfl, ?_, ?_, ?_⟩
        · rw [List.getLast?_cons_cons, ← hq3]
          simp [List.getLast?_append, List.getLast?_cons]
        · exact (List.nodup_append.mp hq4).2.1
        · have h1 := walkLen_suffix_le hw l1 (a :: l2)
          simp only [walkLen]
          linarith
      · cases q' with
        | nil => exact absurd hq1 (by simp [IsWalk])
        | cons b' r' =>
          have hb : b' = b := by simpa using hq2
          subst hb
          refine ⟨a :: b' :: r', ⟨hp.1, hp.2.1, hq1⟩, rfl, ?_, ?_, ?_⟩
          · rw [List.getLast?_cons_cons, hq3, List.getLast?_cons_cons]
          · exact List.nodup_cons.mpr ⟨ha, hq4⟩
          · simp only [walkLen] at hq5 ⊢
            linarith

theorem nodup_walk_length_le {n : Nat} {w : Nat → Nat → Option K} {p : List Nat}
    (hp : IsWalk n w p) (hn : p.Nodup) : p.length ≤ n := by
  have hsub : p ⊆ List.range n := fun a ha => List.mem_range.mpr (hp.mem_lt a ha)
  have := (List.subperm_of_subset hn hsub).length_le
  simpa using this

/-! ### the rounds compute the minimum over walks -/

/-- every finite estimate is the weight of an actual walk to the target -/
theorem dk_realised {n : Nat} (w : Nat → Nat → Option K) {j : Nat} (hj : j < n) (k : Nat) :
    ∀ a, a < n → ∀ y, dk n w j k a = some y →
      ∃ p, IsWalk n w p ∧ p.head? = some a ∧ p.getLast? = some j ∧ walkLen w p = y := by
  induction k with
  | zero =>
    intro a ha y hy
    rw [dk_zero w j ha] at hy
    by_cases h : a = j
    · subst h
      simp only [↓reduceIte, Option.some.injEq] at hy
      exact ⟨[a], ha, rfl, rfl, by simp [walkLen, hy]⟩
    · simp [h] at hy
  | succ k ih =>
    intro a ha y hy
    rw [dk_succ w j k ha] at hy
    rcases ofold_attained _ _ _ hy with h | ⟨m, hm, h⟩
    · exact ih a ha y h
    · have hm' : m < n := List.mem_range.mp hm
      cases hw : w a m with
      | none => simp [hw, oadd] at h
      | some c =>
        cases hd : dk n w j k m with
        | none => simp [hw, hd, oadd] at h
        | some y' =>
          have hy' : c + y' = y := by simpa [hw, hd, oadd] using h
          obtain ⟨p, hp1, hp2, hp3, hp4⟩ := ih m hm' y' hd
          cases p with
          | nil => exact absurd hp1 (by simp [IsWalk])
          | cons b r =>
            have hb : b = m := by simpa using hp2
            subst hb
            refine ⟨a :: b :: r, ⟨ha, by simp [hw], hp1⟩, rfl, ?_, ?_⟩
            · rw [List.getLast?_cons_cons]; exact hp3
            · simp only [walkLen, hw, Option.getD_some, hp4]
              exact hy'

/-- after `k` rounds the estimate is at most the weight of every walk with at most `k` edges -/
theorem dk_le_walk {n : Nat} (w : Nat → Nat → Option K) {j : Nat} (hj : j < n) (k : Nat) :
    ∀ p a, IsWalk n w p → p.head? = some a → p.getLast? = some j → p.length ≤ k + 1 →
      ∃ y, dk n w j k a = some y ∧ y ≤ walkLen w p := by
  induction k with
  | zero =>
    intro p a hp h1 h2 hl
    cases p with
    | nil => exact absurd hp (by simp [IsWalk])
    | cons b r =>
      cases r with
      | nil =>
        have hb : b = a := by simpa using h1
        have hbj : b = j := by simpa using h2
        subst hb; subst hbj
        exact ⟨0, by rw [dk_zero w b hj]; simp, by simp [walkLen]⟩
      | cons c r => simp at hl
  | succ k ih =>
    intro p a hp h1 h2 hl
    cases p with
    | nil => exact absurd hp (by simp [IsWalk])
    | cons b r =>
      have hb : b = a := by simpa using h1
      subst hb
      have hbn : b < n := hp.head_lt
      cases r with
      | nil =>
        obtain ⟨y, hy1, hy2⟩ := ih [b] b hp h1 h2 (by simp)
        rw [dk_succ w j k hbn]
        obtain ⟨y', h3, h4⟩ := ofold_le_acc (fun m => oadd (w b m) (dk n w j k m)) (List.range n) hy1
        exact ⟨y', h3, le_trans h4 hy2⟩
      | cons c r =>
        have hcn : c < n := hp.tail.head_lt
        have hl' : (c :: r).length ≤ k + 1 := by simp at hl ⊢; omega
        have h2' : (c :: r).getLast? = some j := by rw [← h2, List.getLast?_cons_cons]
        obtain ⟨y, hy1, hy2⟩ := ih (c :: r) c hp.tail rfl h2' hl'
        obtain ⟨e, he⟩ := Option.isSome_iff_exists.mp hp.2.1
        rw [dk_succ w j k hbn]
        have hg : (fun m => oadd (w b m) (dk n w j k m)) c = some (e + y) := by
          simp [he, hy1, oadd]
        obtain ⟨y', h3, h4⟩ := ofold_le_cand (fun m => oadd (w b m) (dk n w j k m)) (List.range n)
          (dk n w j k b) (List.mem_range.mpr hcn) hg
        refine ⟨y', h3, ?_⟩
        simp only [walkLen, he, Option.getD_some]
        linarith

end

end Rsa.Transform
