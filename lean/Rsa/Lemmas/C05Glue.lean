/- helper lemmas for property C05, round 3: the as-coded generators / crossval glue of
   `Rsa.Core.FoldsGlue` against the model of `Rsa.Core.Folds` -/
import Mathlib.Data.List.Basic
import Mathlib.Data.List.Nodup
import Mathlib.Data.List.Perm.Basic
import Mathlib.Data.List.Range
import Mathlib.Tactic.Ring
import Mathlib.Tactic.Linarith
import Rsa.Core.FoldsGlue
import Rsa.Lemmas.C05

set_option linter.unusedSectionVars false
set_option linter.unusedVariables false
set_option linter.unusedSimpArgs false
set_option linter.unusedTactic false
set_option linter.unreachableTactic false

namespace Rsa.Folds

open Rsa.Gen.C05

/-! ### the loop body built from the derived leaves is the modelled index arithmetic -/

theorem arange_block (g s : Nat) : arange (g * s) ((g + 1) * s) = List.range' (g * s) s := by
  unfold arange
  congr 1
  rw [Nat.add_mul, Nat.one_mul, Nat.add_sub_cancel_left]

theorem guard_eq_one {p : Prop} [Decidable p] : ((if p then (1 : Nat) else 0) = 1) ↔ p := by
  by_cases h : p <;> simp [h]

theorem testIdxC_kFold (n k g : Nat) :
    testIdxC leavesKFold n k g = foldTestIdx n (n / k) (n % k) g := by
  simp only [testIdxC, leavesKFold, blockLoKFold, blockHiKFold, groupSizeKFold, additionalKFold,
    extraGuardKFold, extraPosKFold, arange_block, guard_eq_one, foldTestIdx]

theorem testIdxC_kFoldRdm (n k g : Nat) :
    testIdxC leavesKFoldRdm n k g = foldTestIdx n (n / k) (n % k) g := by
  simp only [testIdxC, leavesKFoldRdm, blockLoKFoldRdm, blockHiKFoldRdm, groupSizeKFoldRdm,
    additionalKFoldRdm, extraGuardKFoldRdm, extraPosKFoldRdm, arange_block, guard_eq_one,
    foldTestIdx]

theorem testIdxC_kFoldPattern (n k g : Nat) :
    testIdxC leavesKFoldPattern n k g = foldTestIdx n (n / k) (n % k) g := by
  simp only [testIdxC, leavesKFoldPattern, blockLoKFoldPattern, blockHiKFoldPattern,
    groupSizeKFoldPattern, additionalKFoldPattern, extraGuardKFoldPattern, extraPosKFoldPattern,
    arange_block, guard_eq_one, foldTestIdx]

theorem trainIdxC_kFold (n k : Nat) (t : List Nat) :
    trainIdxC leavesKFold n k t = foldTrainIdx n k t := by
  simp only [trainIdxC, leavesKFold, noSplitKFold, guard_eq_one, foldTrainIdx]

theorem trainIdxC_kFoldPattern (n k : Nat) (t : List Nat) :
    trainIdxC leavesKFoldPattern n k t = foldTrainIdx n k t := by
  simp only [trainIdxC, leavesKFoldPattern, noSplitKFoldPattern, guard_eq_one, foldTrainIdx]

theorem trainIdxC_kFoldRdm (n k : Nat) (t : List Nat) :
    trainIdxC leavesKFoldRdm n k t = (List.range n).filter (fun i => !t.contains i) := by
  simp [trainIdxC, leavesKFoldRdm, noSplitKFoldRdm]

theorem splitC_kFold (sel : List Nat) (k g : Nat) :
    splitC leavesKFold sel k g = splitFold sel k (sel.length / k) (sel.length % k) g := by
  simp only [splitC, splitFold, testIdxC_kFold, trainIdxC_kFold]

theorem splitC_kFoldPattern (sel : List Nat) (k g : Nat) :
    splitC leavesKFoldPattern sel k g = splitFold sel k (sel.length / k) (sel.length % k) g := by
  simp only [splitC, splitFold, testIdxC_kFoldPattern, trainIdxC_kFoldPattern]

theorem splitC_kFoldRdm (sel : List Nat) (k g : Nat) :
    splitC leavesKFoldRdm sel k g =
      (valsAt sel ((List.range sel.length).filter
          (fun i => !(foldTestIdx sel.length (sel.length / k) (sel.length % k) g).contains i)),
       valsAt sel (foldTestIdx sel.length (sel.length / k) (sel.length % k) g)) := by
  simp only [splitC, testIdxC_kFoldRdm, trainIdxC_kFoldRdm]

/-! ### the three lists -/

theorem mapIdx_if_lt {β : Type} (l : List β) (n : Nat) (G : β → β) (h : l.length ≤ n) :
    l.mapIdx (fun i p => if i < n then G p else p) = l.map G := by
  apply List.ext_getElem
  · simp
  · intro i h1 h2
    have hi : i < l.length := by simpa using h1
    simp only [List.getElem_mapIdx, List.getElem_map]
    rw [if_pos (by omega)]

theorem kFoldPatternSets_eq (o : Obj) (rv : Option (List Nat)) (sel : List Nat) (k : Nat) :
    kFoldPatternSets o rv sel k =
      { trains := (List.range k).map fun g =>
          mkPart o false rv (some (splitFold sel k (sel.length / k) (sel.length % k) g).1)
        tests := (List.range k).map fun g =>
          mkPart o false rv (some (splitFold sel k (sel.length / k) (sel.length % k) g).2)
        ceils := none } := by
  simp only [kFoldPatternSets, List.map_map, Function.comp_def, splitC_kFoldPattern]
  rfl

theorem kFoldOuterC_eq (o : Obj) (rsel : List Nat) (kr kp g : Nat) (ps : List Nat) :
    kFoldOuterC o rsel kr kp g ps =
      ((List.range kp).map (fun h => (realize o (kFoldCell rsel kr ps kp g h)).train),
       (List.range kp).map (fun h => (realize o (kFoldCell rsel kr ps kp g h)).test),
       (List.range kp).map (fun h => mkPart o false (kFoldCell rsel kr ps kp g h).rTrain
          (kFoldCell rsel kr ps kp g h).pTest)) := by
  unfold kFoldOuterC
  simp only [kFoldPatternSets_eq, splitC_kFold]
  rw [mapIdx_if_lt _ kp _ (by simp)]
  simp only [List.map_map, Function.comp_def]
  rfl

theorem kFoldV_eq_cells (rsel : List Nat) (kr : Nat) (psels : List (List Nat)) (kp : Nat) :
    kFoldV rsel kr psels kp = ((List.range kr).zip psels).flatMap (fun gp =>
      (List.range kp).map (fun h => kFoldCell rsel kr gp.2 kp gp.1 h)) := by
  simp [kFoldV, kFoldPatternV, kFoldCell, List.map_map, Function.comp_def,
    Rsa.Gen.C05.groupSizeKFold, Rsa.Gen.C05.additionalKFold,
    Rsa.Gen.C05.groupSizeKFoldPattern, Rsa.Gen.C05.additionalKFoldPattern]

theorem kFoldSets_eq (o : Obj) (rsel : List Nat) (kr : Nat) (psels : List (List Nat)) (kp : Nat) :
    (kFoldSets o rsel kr psels kp).trains
        = ((kFoldV rsel kr psels kp).map (realize o)).map (·.train) ∧
    (kFoldSets o rsel kr psels kp).tests
        = ((kFoldV rsel kr psels kp).map (realize o)).map (·.test) ∧
    (kFoldSets o rsel kr psels kp).ceils
        = some ((kFoldV rsel kr psels kp).map (fun vf => mkPart o false vf.rTrain vf.pTest)) := by
  have hn : leavesKFold.nFolds kr = kr := rfl
  simp only [kFoldSets, hn, kFoldOuterC_eq, kFoldV_eq_cells, List.flatMap_map, List.map_flatMap,
    List.map_map, Function.comp_def]
  and_intros <;> first | trivial | rfl

theorem kFoldRdmSets_eq (o : Obj) (sel : List Nat) (k : Nat) :
    (kFoldRdmSets o sel k).trains = ((kFoldRdmV sel k).map (realize o)).map (·.train) ∧
    (kFoldRdmSets o sel k).tests = ((kFoldRdmV sel k).map (realize o)).map (·.test) ∧
    (kFoldRdmSets o sel k).ceils = some ((kFoldRdmSets o sel k).trains) := by
  have hn : leavesKFoldRdm.nFolds k = k := rfl
  simp only [kFoldRdmSets, hn, kFoldRdmV, List.map_map, Function.comp_def, splitC_kFoldRdm,
    Rsa.Gen.C05.groupSizeKFoldRdm, Rsa.Gen.C05.additionalKFoldRdm]
  and_intros <;> first | trivial | rfl

theorem kFoldPatternSets_folds (o : Obj) (sel : List Nat) (k : Nat) :
    (kFoldPatternSets o none sel k).trains = ((kFoldPatternV sel k).map (realize o)).map (·.train) ∧
    (kFoldPatternSets o none sel k).tests = ((kFoldPatternV sel k).map (realize o)).map (·.test) ∧
    (kFoldPatternSets o none sel k).ceils = none := by
  rw [kFoldPatternSets_eq]
  simp only [kFoldPatternV, List.map_map, Function.comp_def,
    Rsa.Gen.C05.groupSizeKFoldPattern, Rsa.Gen.C05.additionalKFoldPattern]
  and_intros <;> first | trivial | rfl

/-! ### position of cell (g, h) in the concatenated lists -/

theorem flatMap_range_map {β : Type} (a b : Nat) (f : Nat → Nat → β) :
    (List.range a).flatMap (fun g => (List.range b).map (f g))
      = (List.range (a * b)).map (fun q => f (q / b) (q % b)) := by
  induction a with
  | zero => simp
  | succ a ih =>
    rw [List.range_succ, List.flatMap_append, ih, Nat.succ_mul, List.range_add, List.map_append,
      List.map_map]
    congr 1
    simp only [List.flatMap_cons, List.flatMap_nil, List.append_nil]
    apply List.map_congr_left
    intro i hi
    have hi' : i < b := List.mem_range.1 hi
    have hb : 0 < b := by omega
    simp only [Function.comp_def]
    have h1 : (a * b + i) / b = a := by
      rw [Nat.mul_comm, Nat.mul_add_div hb, Nat.div_eq_of_lt hi', Nat.add_zero]
    have h2 : (a * b + i) % b = i := by
      rw [Nat.mul_comm, Nat.mul_add_mod, Nat.mod_eq_of_lt hi']
    rw [h1, h2]

theorem zip_range_eq_map {β : Type} (l : List β) (d : β) :
    (List.range l.length).zip l = (List.range l.length).map (fun g => (g, l.getD g d)) := by
  apply List.ext_getElem
  · simp
  · intro i h1 h2
    have hi : i < l.length := by simpa using h1
    simp [List.getD_eq_getElem?_getD, hi]

theorem kFoldV_indexed (rsel : List Nat) (kr : Nat) (psels : List (List Nat)) (kp : Nat)
    (hlen : psels.length = kr) :
    kFoldV rsel kr psels kp = (List.range (kr * kp)).map (fun q =>
      kFoldCell rsel kr (psels.getD (q / kp) []) kp (q / kp) (q % kp)) := by
  rw [kFoldV_eq_cells, ← hlen, zip_range_eq_map psels [], List.flatMap_map]
  exact flatMap_range_map psels.length kp (fun g h => kFoldCell rsel psels.length (psels.getD g []) kp g h)

/-! ### `crossval` -/

section cv
variable {Θ S : Type}

theorem cvRowC_getD (nan : S) (nModels : Nat) (fit : Nat → Part → Θ) (score : Nat → Θ → Part → S)
    (tr te : Part) (j : Nat) (hj : j < nModels) :
    (cvRowC nan nModels fit score tr te).getD j nan =
      if cvSkip tr.rows.length te.rows.length tr.conds.length te.conds.length = 1 then nan
      else score j (fit j tr) te := by
  unfold cvRowC
  split
  · simp [List.getD_eq_getElem?_getD, hj]
  · simp [List.getD_eq_getElem?_getD, hj]

theorem mapIdx_pair_eq_zip {β γ : Type} (l1 l2 : List β) (f : β → β → γ) (d : γ)
    (h : l1.length = l2.length) :
    l1.mapIdx (fun i a => ((l2[i]?).map fun b => f a b).getD d)
      = (l1.zip l2).map (fun ab => f ab.1 ab.2) := by
  apply List.ext_getElem
  · simp [h]
  · intro i h1 h2
    have hi1 : i < l1.length := by simpa using h1
    have hi2 : i < l2.length := by omega
    simp [hi2]

theorem crossvalC_ok (nan : S) (nModels : Nat) (fit : Nat → Part → Θ) (score : Nat → Θ → Part → S)
    (trains tests : List Part) (ceilLen : Option Nat) (h : trains.length = tests.length)
    (hc : ∀ c, ceilLen = some c → c = tests.length) :
    crossvalC nan nModels fit score trains tests ceilLen =
      .ok ((List.range nModels).map fun j => (trains.zip tests).map fun tt =>
        if cvSkip tt.1.rows.length tt.2.rows.length tt.1.conds.length tt.2.conds.length = 1 then nan
        else score j (fit j tt.1) tt.2) := by
  unfold crossvalC
  have h1 : ¬ cvLenOk trains.length tests.length ≠ 1 := by simp [cvLenOk, h]
  have h2 : ¬ (ceilLen.map fun c => cvCeilLenOk c tests.length) = some 0 := by
    cases ceilLen with
    | none => simp
    | some c => simp [cvCeilLenOk, hc c rfl]
  rw [if_neg h1, if_neg h2]
  dsimp only
  congr 1
  apply List.map_congr_left
  intro j hj
  rw [mapIdx_pair_eq_zip trains tests (cvRowC nan nModels fit score) [] h, List.map_map]
  apply List.map_congr_left
  intro tt _
  exact cvRowC_getD nan nModels fit score tt.1 tt.2 j (List.mem_range.1 hj)

theorem crossvalC_rejects (nan : S) (nModels : Nat) (fit : Nat → Part → Θ)
    (score : Nat → Θ → Part → S) (trains tests : List Part) (ceilLen : Option Nat)
    (h : trains.length ≠ tests.length ∨ ∃ c, ceilLen = some c ∧ c ≠ tests.length) :
    crossvalC nan nModels fit score trains tests ceilLen = .error .assertion := by
  unfold crossvalC
  by_cases h1 : trains.length = tests.length
  · rcases h with h | ⟨c, hc, hne⟩
    · exact absurd h1 h
    · have : ¬ cvLenOk trains.length tests.length ≠ 1 := by simp [cvLenOk, h1]
      rw [if_neg this]
      subst hc
      simp [cvCeilLenOk, hne]
  · have : cvLenOk trains.length tests.length ≠ 1 := by simp [cvLenOk, h1]
    rw [if_pos this]

end cv

theorem cvNoisePairsC_eq (ceils tests : List Part) (h : ceils.length = tests.length) :
    cvNoisePairsC ceils tests = .ok (ceils.zip tests) := by
  unfold cvNoisePairsC
  rw [if_neg (by simpa using h)]
  congr 1
  have : ∀ i ∈ List.range ceils.length,
      ((ceils[ncCeilIndex i]?).bind fun c => (tests[ncTestIndex i]?).map fun t => (c, t))
        = some (ceils.getD i default, tests.getD i default) := by
    intro i hi
    have hi1 : i < ceils.length := List.mem_range.1 hi
    have hi2 : i < tests.length := by omega
    simp [ncCeilIndex, ncTestIndex, hi1, hi2, List.getD_eq_getElem?_getD]
  rw [List.filterMap_congr this]
  rw [show (fun i => some (ceils.getD i default, tests.getD i default))
      = some ∘ (fun i => (ceils.getD i default, tests.getD i default)) from rfl, List.filterMap_eq_map]
  apply List.ext_getElem
  · simp [h]
  · intro i h1 h2
    have hi1 : i < ceils.length := by simpa using h1
    have hi2 : i < tests.length := by omega
    simp [List.getD_eq_getElem?_getD, hi1, hi2]

/-! ### values at a range of positions; `sets_random` -/

theorem valsAt_range' (sel : List Nat) (a m : Nat) :
    valsAt sel (List.range' a m) = (sel.drop a).take m := by
  induction m generalizing a with
  | zero => simp [valsAt]
  | succ m ih =>
    have hih := ih (a + 1)
    unfold valsAt at hih ⊢
    rw [List.range'_succ, List.filterMap_cons]
    by_cases ha : a < sel.length
    · rw [List.getElem?_eq_getElem ha]
      simp only
      rw [hih, List.drop_eq_getElem_cons ha, List.take_succ_cons]
    · have hn : sel[a]? = none := by simp; omega
      rw [hn]
      simp only
      rw [hih, List.drop_of_length_le (by omega), List.drop_of_length_le (by omega)]
      simp

theorem valsAt_nodup {sel idx : List Nat} (hs : sel.Nodup) (hi : idx.Nodup) :
    (valsAt sel idx).Nodup := by
  unfold valsAt
  apply List.Nodup.filterMap _ hi
  intro a a' b hb hb'
  exact getElem?_inj_of_nodup hs (by simpa using hb) (by simpa using hb')

theorem randomAxisC_eq (sel : List Nat) (n : Nat) :
    randomAxisC (if n = 0 then 1 else 0) n n sel.length sel.length sel =
      if sel.length < n then .error .index
      else .ok (if n = 0 then sel else sel.drop n, if n = 0 then sel else sel.take n) := by
  unfold randomAxisC arange
  by_cases h0 : n = 0
  · subst h0
    have hany : ((List.range' 0 (sel.length - 0) ++ List.range' 0 (sel.length - 0)).any
        (fun i => decide (sel.length ≤ i))) = false := by
      rw [List.any_eq_false]
      intro i hi
      simp only [List.mem_append, List.mem_range'_1] at hi
      simp only [decide_eq_true_eq]
      omega
    simp only [if_true, hany, Nat.not_lt_zero, if_false, Bool.false_eq_true]
    rw [valsAt_range']
    simp
  · have e01 : ¬ ((0 : Nat) = 1) := by decide
    simp only [h0, if_false, e01]
    by_cases hlt : sel.length < n
    · have hany : ((List.range' 0 (n - 0) ++ List.range' n (sel.length - n)).any
          (fun i => decide (sel.length ≤ i))) = true := by
        rw [List.any_eq_true]
        refine ⟨sel.length, ?_, by simp⟩
        simp only [List.mem_append, List.mem_range'_1]
        left; omega
      rw [if_pos hany, if_pos hlt]
    · have hany : ((List.range' 0 (n - 0) ++ List.range' n (sel.length - n)).any
          (fun i => decide (sel.length ≤ i))) = false := by
        rw [List.any_eq_false]
        intro i hi
        simp only [List.mem_append, List.mem_range'_1] at hi
        simp only [decide_eq_true_eq]
        omega
      simp only [hany, hlt, if_false, Bool.false_eq_true]
      rw [valsAt_range', valsAt_range']
      simp only [Nat.sub_zero, List.drop_zero]
      congr 2
      rw [List.take_of_length_le]
      simp

end Rsa.Folds
