/-
  Helper lemmas for property C13: the NaN-aware weighted mean (`_mean`) and the rescaling step.
-/
import Rsa.Lemmas.C13
import Rsa.Lemmas.C03
import Mathlib.Algebra.Order.Field.Basic
import Mathlib.Tactic.FieldSimp
import Mathlib.Tactic.Positivity

set_option linter.unusedSectionVars false
set_option linter.unusedVariables false
set_option linter.unusedSimpArgs false

namespace Rsa.Nan

open Rsa Rsa.Compare

section nansum
variable {K : Type} [Field K]

@[simp] theorem nansum_nil : nansum ([] : List (Option K)) = 0 := rfl
@[simp] theorem nansum_cons_some (a : K) (l : List (Option K)) : nansum (some a :: l) = a + nansum l := by
  simp [nansum]
@[simp] theorem nansum_cons_none (l : List (Option K)) : nansum (none :: l) = nansum l := by
  simp [nansum]

theorem nansum_eq_sum_delete (l : List (Option K)) : nansum l = (delete l).sum := rfl

theorem nansum_map_map (g : K → K) (v : List (Option K)) :
    nansum (v.map (fun o => o.map g)) = ((delete v).map g).sum := by
  rw [nansum_eq_sum_delete, delete_map_map]

end nansum

section mean
variable {K : Type} [Field K] [LinearOrder K]

/-- (value, weight) of the RDMs that contribute to an entry -/
def present (col : List (Option K × Option K)) : List (K × K) :=
  col.filterMap (fun vw =>
    match vw.1, vw.2 with
    | some v, some w => some (v, w)
    | _, _ => none)

theorem spec_unfold (col : List (Option K × Option K)) :
    nanMeanEntrySpec col =
      if present col = [] then none
      else some (((present col).map (fun vw => vw.1 * vw.2)).sum / ((present col).map (·.2)).sum) := rfl

@[simp] theorem present_nil : present ([] : List (Option K × Option K)) = [] := rfl
@[simp] theorem present_cons_some (v w : K) (col : List (Option K × Option K)) :
    present ((some v, some w) :: col) = (v, w) :: present col := rfl
@[simp] theorem present_cons_none_left (w : Option K) (col : List (Option K × Option K)) :
    present ((none, w) :: col) = present col := rfl
@[simp] theorem present_cons_none_right (v : Option K) (col : List (Option K × Option K)) :
    present ((v, none) :: col) = present col := by
  cases v <;> rfl

/-- the masked weights `weights[isnan(vectors)] = nan` -/
def wm (col : List (Option K × Option K)) : List (Option K) :=
  col.map (fun vw => if vw.1.isSome then vw.2 else none)

theorem coded_unfold (col : List (Option K × Option K)) :
    nanMeanEntry col =
      if (wm col).all (fun w => !w.isSome) then none
      else some (nansum (List.zipWith mulO (col.map (·.1)) (wm col)) / nansum (wm col)) := rfl

theorem wm_all_none_iff (col : List (Option K × Option K)) :
    (wm col).all (fun w => !w.isSome) = true ↔ present col = [] := by
  induction col with
  | nil => simp [wm]
  | cons a col ih =>
    obtain ⟨v, w⟩ := a
    cases v <;> cases w <;> simp_all [wm]

theorem nansum_wm (col : List (Option K × Option K)) :
    nansum (wm col) = ((present col).map (·.2)).sum := by
  induction col with
  | nil => simp [wm]
  | cons a col ih =>
    obtain ⟨v, w⟩ := a
    cases v <;> cases w <;> simp_all [wm]

theorem nansum_prod (col : List (Option K × Option K)) :
    nansum (List.zipWith mulO (col.map (·.1)) (wm col)) = ((present col).map (fun vw => vw.1 * vw.2)).sum := by
  induction col with
  | nil => simp [wm]
  | cons a col ih =>
    obtain ⟨v, w⟩ := a
    cases v <;> cases w <;> simp_all [wm, mulO]

theorem coded_eq_spec (col : List (Option K × Option K)) : nanMeanEntry col = nanMeanEntrySpec col := by
  rw [coded_unfold, spec_unfold, nansum_wm, nansum_prod]
  by_cases h : present col = []
  · rw [if_pos ((wm_all_none_iff col).mpr h), if_pos h]
  · have : ¬ ((wm col).all (fun w => !w.isSome) = true) := fun hh => h ((wm_all_none_iff col).mp hh)
    rw [if_neg this, if_neg h]

theorem present_eq_nil_iff (col : List (Option K × Option K)) :
    present col = [] ↔ ∀ vw ∈ col, vw.1 = none ∨ vw.2 = none := by
  induction col with
  | nil => simp
  | cons a col ih =>
    obtain ⟨v, w⟩ := a
    cases v <;> cases w <;> simp_all

theorem present_congr {col col' : List (Option K × Option K)}
    (h : List.Forall₂ (fun a b => a.1 = b.1 ∧ (a.1.isSome → a.2 = b.2)) col col') :
    present col = present col' := by
  induction h with
  | nil => rfl
  | @cons a b l l' hab _ ih =>
    obtain ⟨v, w⟩ := a
    obtain ⟨v', w'⟩ := b
    obtain ⟨h1, h2⟩ := hab
    simp only at h1 h2
    subst h1
    cases v with
    | none => simp [ih]
    | some x =>
      have : w = w' := h2 (by simp)
      subst this
      cases w <;> simp [ih]

end mean

section order
variable {K : Type} [Field K] [LinearOrder K] [IsStrictOrderedRing K]

theorem sum_weights_pos (l : List (K × K)) (hne : l ≠ []) (hpos : ∀ p ∈ l, 0 < p.2) :
    0 < (l.map (·.2)).sum := by
  induction l with
  | nil => exact absurd rfl hne
  | cons a l ih =>
    simp only [List.map_cons, List.sum_cons]
    have ha : 0 < a.2 := hpos a (by simp)
    by_cases hl : l = []
    · subst hl; simpa using ha
    · have := ih hl (fun p hp => hpos p (by simp [hp]))
      linarith

theorem sum_mul_lower (l : List (K × K)) (lo : K) (hpos : ∀ p ∈ l, 0 < p.2) (hlo : ∀ p ∈ l, lo ≤ p.1) :
    lo * (l.map (·.2)).sum ≤ (l.map (fun p => p.1 * p.2)).sum := by
  induction l with
  | nil => simp
  | cons a l ih =>
    simp only [List.map_cons, List.sum_cons]
    have ha : 0 < a.2 := hpos a (by simp)
    have h1 : lo ≤ a.1 := hlo a (by simp)
    have := ih (fun p hp => hpos p (by simp [hp])) (fun p hp => hlo p (by simp [hp]))
    nlinarith [mul_le_mul_of_nonneg_right h1 ha.le]

theorem sum_mul_upper (l : List (K × K)) (hi : K) (hpos : ∀ p ∈ l, 0 < p.2) (hhi : ∀ p ∈ l, p.1 ≤ hi) :
    (l.map (fun p => p.1 * p.2)).sum ≤ hi * (l.map (·.2)).sum := by
  induction l with
  | nil => simp
  | cons a l ih =>
    simp only [List.map_cons, List.sum_cons]
    have ha : 0 < a.2 := hpos a (by simp)
    have h1 : a.1 ≤ hi := hhi a (by simp)
    have := ih (fun p hp => hpos p (by simp [hp])) (fun p hp => hhi p (by simp [hp]))
    nlinarith [mul_le_mul_of_nonneg_right h1 ha.le]

theorem mem_present {col : List (Option K × Option K)} {p : K × K} (h : p ∈ present col) :
    (some p.1, some p.2) ∈ col := by
  induction col with
  | nil => simp at h
  | cons a col ih =>
    obtain ⟨v, w⟩ := a
    cases v <;> cases w <;> simp_all
    rcases h with h | h
    · left; subst h; exact ⟨rfl, rfl⟩
    · right; exact ih h

end order

end Rsa.Nan
