/- missing channels: kernels only see channels present in both vectors -/
import Rsa.Lemmas.C15Sum

set_option linter.unusedSectionVars false
set_option linter.unusedVariables false

namespace Rsa.Unb

open Finset

/-- channel `c0` made missing -/
def dropCh {β : Type} (c0 : Nat) (x : Nat → Option β) : Nat → Option β :=
  fun c => if c = c0 then none else x c

/-- channel `c0` deleted (later channels move down) -/
def delCh {β : Type} (c0 : Nat) (x : Nat → β) : Nat → β :=
  fun c => if c < c0 then x c else x (c + 1)

/-- row and column `c0` of a matrix deleted -/
def delRC {β : Type} (c0 : Nat) (N : Nat → Nat → β) : Nat → Nat → β :=
  fun k l => N (if k < c0 then k else k + 1) (if l < c0 then l else l + 1)

section monoid
variable {M : Type} [AddCommMonoid M]

/-- a sum over `P + 1` channels = the sum over the other `P` channels + the term of `c0` -/
theorem sumTo_skip (P c0 : Nat) (h : c0 ≤ P) (f : Nat → M) :
    sumTo (P + 1) f = sumTo P (fun c => f (if c < c0 then c else c + 1)) + f c0 := by
  induction P with
  | zero =>
    have : c0 = 0 := by omega
    subst this; simp [sumTo]
  | succ P ih =>
    rcases Nat.lt_or_eq_of_le h with hlt | heq
    · have hle : c0 ≤ P := by omega
      rw [sumTo, ih hle, sumTo]
      have : ¬ P < c0 := by omega
      simp only [this, if_false]
      rw [add_right_comm]
    · subst heq
      rw [sumTo]
      have : sumTo (P + 1) (fun c => f (if c < P + 1 then c else c + 1)) = sumTo (P + 1) f := by
        apply sumTo_congr; intro i hi; simp [hi]
      rw [this]

end monoid

theorem cntValid_eq_sumTo {β : Type} (P : Nat) (x y : Nat → Option β) :
    cntValid P x y = sumTo P (validNat x y) := by
  induction P with
  | zero => rfl
  | succ P ih => rw [cntValid, sumTo, ih]

section field
variable {K : Type} [Field K] [LinearOrder K] [IsStrictOrderedRing K]

theorem prodAt_drop (c0 : Nat) (x y : Nat → Option K) (c : Nat) :
    prodAt (dropCh c0 x) y c = if c = c0 then 0 else prodAt x y c := by
  unfold prodAt dropCh; by_cases h : c = c0 <;> simp [h]

theorem oneAt_drop {β : Type} (c0 : Nat) (x y : Nat → Option β) (c : Nat) :
    (oneAt (dropCh c0 x) y c : K) = if c = c0 then 0 else oneAt x y c := by
  unfold oneAt dropCh; by_cases h : c = c0 <;> simp [h]

theorem prodAt_drop_both (c0 : Nat) (x y : Nat → Option K) (c : Nat) :
    prodAt (dropCh c0 x) (dropCh c0 y) c = prodAt (dropCh c0 x) y c := by
  unfold prodAt dropCh; by_cases h : c = c0 <;> simp [h]

theorem oneAt_drop_both {β : Type} (c0 : Nat) (x y : Nat → Option β) (c : Nat) :
    (oneAt (dropCh c0 x) (dropCh c0 y) c : K) = oneAt (dropCh c0 x) y c := by
  unfold oneAt dropCh; by_cases h : c = c0 <;> simp [h]

theorem fstAt_drop_both (c0 : Nat) (x y : Nat → Option K) (c : Nat) :
    fstAt (dropCh c0 x) (dropCh c0 y) c = fstAt (dropCh c0 x) y c := by
  unfold fstAt dropCh; by_cases h : c = c0 <;> simp [h]

theorem sndAt_drop_both (c0 : Nat) (x y : Nat → Option K) (c : Nat) :
    sndAt (dropCh c0 x) (dropCh c0 y) c = sndAt (dropCh c0 x) y c := by
  unfold sndAt dropCh; by_cases h : c = c0 <;> simp [h]

theorem poissonAt_drop_both (c0 : Nat) (x y : Nat → Option (K × K)) (c : Nat) :
    poissonAt (dropCh c0 x) (dropCh c0 y) c = poissonAt (dropCh c0 x) y c := by
  unfold poissonAt dropCh; by_cases h : c = c0 <;> simp [h]

theorem prodAt_drop_fn (c0 : Nat) (x y : Nat → Option K) :
    prodAt (dropCh c0 x) y = fun c => if c = c0 then 0 else prodAt x y c :=
  funext (prodAt_drop c0 x y)
theorem oneAt_drop_fn {β : Type} (c0 : Nat) (x y : Nat → Option β) :
    (oneAt (dropCh c0 x) y : Nat → K) = fun c => if c = c0 then 0 else oneAt x y c :=
  funext (oneAt_drop c0 x y)
theorem prodAt_drop_both_fn (c0 : Nat) (x y : Nat → Option K) :
    prodAt (dropCh c0 x) (dropCh c0 y) = prodAt (dropCh c0 x) y :=
  funext (prodAt_drop_both c0 x y)
theorem oneAt_drop_both_fn {β : Type} (c0 : Nat) (x y : Nat → Option β) :
    (oneAt (dropCh c0 x) (dropCh c0 y) : Nat → K) = oneAt (dropCh c0 x) y :=
  funext (oneAt_drop_both c0 x y)
theorem fstAt_drop_both_fn (c0 : Nat) (x y : Nat → Option K) :
    fstAt (dropCh c0 x) (dropCh c0 y) = fstAt (dropCh c0 x) y :=
  funext (fstAt_drop_both c0 x y)
theorem sndAt_drop_both_fn (c0 : Nat) (x y : Nat → Option K) :
    sndAt (dropCh c0 x) (dropCh c0 y) = sndAt (dropCh c0 x) y :=
  funext (sndAt_drop_both c0 x y)
theorem poissonAt_drop_both_fn (c0 : Nat) (x y : Nat → Option (K × K)) :
    poissonAt (dropCh c0 x) (dropCh c0 y) = poissonAt (dropCh c0 x) y :=
  funext (poissonAt_drop_both c0 x y)

theorem cntValid_drop_both {β : Type} (P c0 : Nat) (x y : Nat → Option β) :
    cntValid P (dropCh c0 x) (dropCh c0 y) = cntValid P (dropCh c0 x) y := by
  rw [cntValid_eq_sumTo, cntValid_eq_sumTo]
  apply sumTo_congr; intro c _
  unfold validNat dropCh; by_cases h : c = c0 <;> simp [h]

/-- a vector with channel `c0` missing, on `P + 1` channels, against the vector with the
    channel deleted, on `P` channels: the same terms -/
theorem drop_del_at {β : Type} (c0 c : Nat) (x : Nat → Option β) :
    dropCh c0 x (if c < c0 then c else c + 1) = delCh c0 x c := by
  unfold dropCh delCh
  by_cases h : c < c0
  · have : ¬ c = c0 := by omega
    simp [h, this]
  · have : ¬ c + 1 = c0 := by omega
    simp [h, this]

theorem drop_self {β : Type} (c0 : Nat) (x : Nat → Option β) : dropCh c0 x c0 = none := by
  simp [dropCh]

end field

end Rsa.Unb
