/- lemmas about the condensed layout (`Rsa.Core.Tri`) -/
import Mathlib.Tactic.Ring
import Mathlib.Tactic.Linarith
import Mathlib.Data.List.Basic
import Mathlib.Data.Nat.Choose.Basic
import Rsa.Core.Tri

namespace Rsa

theorem pairsOf_length {β : Type} (l : List β) :
    (pairsOf l).length = l.length * (l.length - 1) / 2 := by
  induction l with
  | nil => simp [pairsOf]
  | cons x xs ih =>
    simp only [pairsOf, List.length_append, List.length_map, ih, List.length_cons,
      Nat.add_sub_cancel]
    cases hn : xs.length with
    | zero => simp
    | succ k =>
      simp only [Nat.add_sub_cancel]
      have h1 : (k + 1 + 1) * (k + 1) = 2 * (k + 1) + (k + 1) * k := by ring
      rw [h1, Nat.mul_add_div (by norm_num : 0 < 2)]

theorem pairs_length (n : Nat) : (pairs n).length = triLen n := by
  simp [pairs, triLen, pairsOf_length]

/-- re-indexing commutes with the pair enumeration (heart of `reorder` / `subsample_pattern`) -/
theorem pairsOf_map {β γ : Type} (f : β → γ) (l : List β) :
    pairsOf (l.map f) = (pairsOf l).map (fun p => (f p.1, f p.2)) := by
  induction l with
  | nil => rfl
  | cons x xs ih => simp [pairsOf, ih, List.map_map, Function.comp_def]

/-- members of `pairsOf l` are pairs of members of `l` -/
theorem mem_pairsOf {β : Type} {l : List β} {p : β × β} (h : p ∈ pairsOf l) :
    p.1 ∈ l ∧ p.2 ∈ l := by
  induction l with
  | nil => simp [pairsOf] at h
  | cons x xs ih =>
    simp only [pairsOf, List.mem_append, List.mem_map] at h
    rcases h with ⟨y, hy, rfl⟩ | h
    · exact ⟨List.mem_cons_self, List.mem_cons_of_mem _ hy⟩
    · exact ⟨List.mem_cons_of_mem _ (ih h).1, List.mem_cons_of_mem _ (ih h).2⟩

/-- filtering the conditions filters the pairs (heart of `subset_pattern`) -/
theorem pairsOf_filter {β : Type} (q : β → Bool) (l : List β) :
    pairsOf (l.filter q) = (pairsOf l).filter (fun p => q p.1 && q p.2) := by
  induction l with
  | nil => rfl
  | cons x xs ih =>
    by_cases hx : q x = true
    · simp [hx, pairsOf, ih, List.filter_map, Function.comp_def]
    · have hx' : q x = false := by simpa using hx
      simp [hx', pairsOf, ih, List.filter_map, Function.comp_def]

end Rsa
