/- helper lemmas for property C09, round 6: large stacks — blocks of RDMs, restriction to some RDMs -/
import Mathlib.Tactic.Ring
import Rsa.Lemmas.C09
import Rsa.Lemmas.C09R3
import Rsa.Core.BootC09

set_option linter.unusedSectionVars false
set_option linter.unusedVariables false
set_option linter.unusedSimpArgs false

namespace Rsa.Boot

variable {L β α : Type} [DecidableEq L]

theorem chunksAux_flatten (b : Nat) (hb : 0 < b) (fuel : Nat) (l : List β) (h : l.length ≤ fuel) :
    (chunksAux b fuel l).flatten = l := by
  induction fuel generalizing l with
  | zero =>
    have : l = [] := List.length_eq_zero_iff.mp (by omega)
    subst this; rfl
  | succ f ih =>
    unfold chunksAux
    by_cases he : l.isEmpty
    · simp [he, List.isEmpty_iff.mp he]
    · have hne : l ≠ [] := fun e => he (by simp [e])
      have hpos : 0 < l.length := List.length_pos_iff.mpr hne
      simp only [he, Bool.false_eq_true, if_false, List.flatten_cons]
      rw [ih (l.drop b) (by simp [List.length_drop]; omega), List.take_append_drop]

/-- cutting into blocks and concatenating is the identity, whatever the block size -/
theorem chunks_flatten (b : Nat) (hb : 0 < b) (l : List β) : (chunks b l).flatten = l :=
  chunksAux_flatten b hb l.length l (le_refl _)

theorem chunksAux_length (b : Nat) (hb : 0 < b) (fuel : Nat) (l : List β) (h : l.length ≤ fuel) :
    (chunksAux b fuel l).length = (l.length + b - 1) / b := by
  induction fuel generalizing l with
  | zero =>
    have : l = [] := List.length_eq_zero_iff.mp (by omega)
    subst this
    simp [chunksAux]
    exact (Nat.div_eq_of_lt (by omega)).symm
  | succ f ih =>
    unfold chunksAux
    by_cases he : l.isEmpty
    · have : l = [] := List.isEmpty_iff.mp he
      subst this
      simp
      exact (Nat.div_eq_of_lt (by omega)).symm
    · have hne : l ≠ [] := fun e => he (by simp [e])
      have hpos : 0 < l.length := List.length_pos_iff.mpr hne
      simp only [he, Bool.false_eq_true, if_false, List.length_cons]
      rw [ih (l.drop b) (by simp [List.length_drop]; omega), List.length_drop]
      by_cases hlt : l.length ≤ b
      · have h0 : l.length - b = 0 := by omega
        rw [h0]
        have e1 : (0 + b - 1) / b = 0 := Nat.div_eq_of_lt (by omega)
        have e2 : (l.length + b - 1) / b = 1 := by
          apply Nat.div_eq_of_lt_le <;> omega
        omega
      · have e : l.length + b - 1 = (l.length - b + b - 1) + b := by omega
        rw [e, Nat.add_div_right _ hb]

/-- the number of blocks is the *ceiling* of `n / b` (a loop over `n / b` blocks — the floor —
    leaves the last `n % b` items unprocessed) -/
theorem chunks_length (b : Nat) (hb : 0 < b) (l : List β) :
    (chunks b l).length = (l.length + b - 1) / b :=
  chunksAux_length b hb l.length l (le_refl _)

theorem flatMap_map_chunks {γ : Type} (f : β → γ) (b : Nat) (hb : 0 < b) (l : List β) :
    (chunks b l).flatMap (fun blk => blk.map f) = l.map f := by
  have : (chunks b l).flatMap (fun blk => blk.map f) = ((chunks b l).flatten).map f := by
    rw [List.flatMap_def, List.map_flatten]
  rw [this, chunks_flatten b hb]

end Rsa.Boot
