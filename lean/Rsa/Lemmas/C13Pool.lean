/-
  Helper lemmas for property C13: pooling (`_nan_mean`, per-RDM normalisations) commutes with
  deleting a common set of missing entries.
-/
import Rsa.Lemmas.C13Mean

set_option linter.unusedSectionVars false
set_option linter.unusedVariables false
set_option linter.unusedSimpArgs false

namespace Rsa.Nan

open Rsa Rsa.Compare

section recursion
variable {K : Type} [Field K]

theorem nanMeanFirst_cons_rows (a : Option K) (r0 : List (Option K)) (rest : List (List (Option K))) :
    nanMeanFirst ((a :: r0) :: rest) =
      nanMeanFirstEntry (((a :: r0) :: rest).filterMap List.head?) ::
        nanMeanFirst (((a :: r0) :: rest).map List.tail) := by
  simp only [nanMeanFirst, List.length_cons, List.map_cons, List.tail_cons]
  rw [range_succ_map]
  congr 1
  · rw [colAt_zero]
  · apply List.map_congr_left
    intro k _
    rw [colAt_succ]
    rfl

theorem colMeans_cons_rows (a : K) (r0 : List K) (rest : List (List K)) :
    colMeans ((a :: r0) :: rest) =
      mean (((a :: r0) :: rest).filterMap List.head?) :: colMeans (((a :: r0) :: rest).map List.tail) := by
  simp only [colMeans, List.length_cons, List.map_cons, List.tail_cons]
  rw [range_succ_map]
  congr 1
  · rw [colAt_zero]
  · apply List.map_congr_left
    intro k _
    rw [colAt_succ]
    rfl

theorem colMeans_length (r0 : List K) (rest : List (List K)) : (colMeans (r0 :: rest)).length = r0.length := by
  simp [colMeans]

end recursion

section common
variable {K : Type} [Field K]

theorem row_of_mask_cons {b : Bool} {m : List Bool} {r : List (Option K)} (h : maskOf r = b :: m) :
    ∃ o t, r = o :: t ∧ o.isSome = b ∧ maskOf t = m := by
  cases r with
  | nil => simp at h
  | cons o t =>
    simp only [maskOf_cons, List.cons.injEq] at h
    exact ⟨o, t, rfl, h.1, h.2⟩

/-- `_nan_mean` on a stack with one common mask: the column means of the reduced rows, put
    back at the mask -/
theorem nanMeanFirst_common (m : List Bool) (stack : List (List (Option K))) (hne : stack ≠ [])
    (hm : ∀ r ∈ stack, maskOf r = m) :
    nanMeanFirst stack = scatter m (colMeans (stack.map delete)) := by
  induction m generalizing stack with
  | nil =>
    obtain ⟨r1, rest, rfl⟩ := List.exists_cons_of_ne_nil hne
    have : r1 = [] := by
      have := hm r1 (by simp)
      cases r1 with
      | nil => rfl
      | cons a t => simp at this
    subst this
    simp [nanMeanFirst]
  | cons b m ih =>
    obtain ⟨r1, rest, rfl⟩ := List.exists_cons_of_ne_nil hne
    obtain ⟨o1, t1, rfl, ho1, ht1⟩ := row_of_mask_cons (hm r1 (by simp))
    have htails : ∀ r ∈ ((o1 :: t1) :: rest).map List.tail, maskOf r = m := by
      intro r hr
      obtain ⟨r', hr', rfl⟩ := List.mem_map.mp hr
      obtain ⟨o, t, rfl, _, ht⟩ := row_of_mask_cons (hm r' hr')
      simpa using ht
    have IH := ih (((o1 :: t1) :: rest).map List.tail) (by simp) htails
    rw [nanMeanFirst_cons_rows, IH]
    cases b with
    | false =>
      have ho : o1 = none := by cases o1 <;> simp_all
      subst ho
      have hdel : ((none :: t1) :: rest).map delete = (((none :: t1) :: rest).map List.tail).map delete := by
        rw [List.map_map]
        apply List.map_congr_left
        intro r hr
        obtain ⟨o, t, rfl, ho, _⟩ := row_of_mask_cons (hm r hr)
        have : o = none := by cases o <;> simp_all
        subst this
        rfl
      rw [hdel]
      simp [nanMeanFirstEntry]
    | true =>
      obtain ⟨a1, rfl⟩ : ∃ a1, o1 = some a1 := by cases o1 <;> simp_all
      -- heads of the rows are all present
      have hheads : ∀ o ∈ (rest.filterMap List.head?), o.isSome = true := by
        intro o ho
        obtain ⟨r, hr, hro⟩ := List.mem_filterMap.mp ho
        obtain ⟨o', t, rfl, ho', _⟩ := row_of_mask_cons (hm r (by simp [hr]))
        simp only [List.head?_cons, Option.some.injEq] at hro
        subst hro
        exact ho'
      have hrows : ((some a1 :: t1) :: rest).map delete =
          (a1 :: delete t1) :: rest.map delete := by simp
      -- reduced rows: head = the present head, tail = reduced tail
      have hhead : (((some a1 :: t1) :: rest).map delete).filterMap List.head? =
          delete (((some a1 :: t1) :: rest).filterMap List.head?) := by
        unfold delete
        rw [List.filterMap_map, List.filterMap_filterMap]
        apply List.filterMap_congr
        intro r hr
        obtain ⟨o, t, rfl, ho, _⟩ := row_of_mask_cons (hm r hr)
        obtain ⟨a, rfl⟩ : ∃ a, o = some a := by cases o <;> simp_all
        simp
      have htail : (((some a1 :: t1) :: rest).map delete).map List.tail =
          (((some a1 :: t1) :: rest).map List.tail).map delete := by
        rw [List.map_map, List.map_map]
        apply List.map_congr_left
        intro r hr
        obtain ⟨o, t, rfl, ho, _⟩ := row_of_mask_cons (hm r hr)
        obtain ⟨a, rfl⟩ : ∃ a, o = some a := by cases o <;> simp_all
        simp
      have hcm : colMeans (((some a1 :: t1) :: rest).map delete) =
          mean (delete (((some a1 :: t1) :: rest).filterMap List.head?)) ::
            colMeans ((((some a1 :: t1) :: rest).map List.tail).map delete) := by
        rw [← hhead, ← htail, hrows]
        exact colMeans_cons_rows a1 (delete t1) (rest.map delete)
      rw [hcm, scatter_true_cons]
      congr 1
      simp only [List.filterMap_cons, List.head?_cons, nanMeanFirstEntry]
      have : (some a1 :: rest.filterMap List.head?).all Option.isSome = true := by
        simp only [List.all_cons, Option.isSome_some, Bool.true_and, List.all_eq_true]
        exact hheads
      simp [this]

end common

section norms

theorem nanmeanO_eq (v : List (Option ℝ)) : nanmeanO v = mean (delete v) := rfl

theorem nanmeanO_map (g : ℝ → ℝ) (v : List (Option ℝ)) :
    nanmeanO (v.map (fun o => o.map g)) = mean ((delete v).map g) := by
  rw [nanmeanO_eq, delete_map_map]

theorem normCosO_liftDel (v : List (Option ℝ)) : normCosO v = liftDel normCos v := by
  unfold normCosO liftDel normCos
  rw [nanmeanO_map, map_map_eq_scatter]

theorem normCorrO_liftDel (v : List (Option ℝ)) : normCorrO v = liftDel normCorr v := by
  have key : ∀ (c : List (Option ℝ)) (sd : ℝ), c.map (fun o => o.map (fun a => a / sd)) =
      scatter (maskOf c) ((delete c).map (fun a => a / sd)) := fun c sd => map_map_eq_scatter _ c
  unfold normCorrO liftDel normCorr
  simp only [nanmeanO_map, nanmeanO_eq, delete_map_map]
  rw [key]
  simp only [maskOf_map_map, delete_map_map]

theorem liftDel_mask (g : List ℝ → List ℝ) (hg : ∀ x, (g x).length = x.length) (v : List (Option ℝ)) :
    maskOf (liftDel g v) = maskOf v := by
  unfold liftDel
  rw [maskOf_scatter' _ _ (by rw [hg, delete_length])]

theorem liftDel_delete (g : List ℝ → List ℝ) (hg : ∀ x, (g x).length = x.length) (v : List (Option ℝ)) :
    delete (liftDel g v) = g (delete v) := by
  unfold liftDel
  rw [delete_scatter' _ _ (by rw [hg, delete_length])]

/-- pooling after a per-RDM normalisation that acts on the present entries only -/
theorem nanMeanFirst_liftDel (g : List ℝ → List ℝ) (hg : ∀ x, (g x).length = x.length)
    (m : List Bool) (stack : List (List (Option ℝ))) (hne : stack ≠ [])
    (hm : ∀ r ∈ stack, maskOf r = m) :
    nanMeanFirst (stack.map (liftDel g)) = scatter m (colMeans ((stack.map delete).map g)) := by
  rw [nanMeanFirst_common m (stack.map (liftDel g)) (by simpa using hne)]
  · congr 1
    rw [List.map_map, List.map_map]
    congr 1
    apply List.map_congr_left
    intro r _
    exact liftDel_delete g hg r
  · intro r hr
    obtain ⟨r', hr', rfl⟩ := List.mem_map.mp hr
    rw [liftDel_mask g hg, hm r' hr']

theorem normCos_length (x : List ℝ) : (normCos x).length = x.length := by simp [normCos]
theorem normCorr_length (x : List ℝ) : (normCorr x).length = x.length := by simp [normCorr]
theorem avgRank_length (x : List ℝ) : (avgRank x).length = x.length := by simp [avgRank]

/-! `- nanmin + c` commutes with re-insertion -/

theorem foldl_min_some (f : Option ℝ → ℝ → Option ℝ)
    (h1 : ∀ b x, f (some b) x = if x < b then some x else some b) (l : List ℝ) (a : ℝ) :
    l.foldl f (some a) = some (l.foldl (fun b y => if y < b then y else b) a) := by
  induction l generalizing a with
  | nil => rfl
  | cons x l ih =>
    simp only [List.foldl_cons, h1]
    by_cases h : x < a <;> simp [h, ih]

theorem nanminO_nil (v : List (Option ℝ)) (h : delete v = []) : nanminO v = none := by
  unfold nanminO
  rw [h]
  rfl

theorem nanminO_cons (v : List (Option ℝ)) (a : ℝ) (l : List ℝ) (h : delete v = a :: l) :
    nanminO v = some (l.foldl (fun b y => if y < b then y else b) a) := by
  unfold nanminO
  rw [h, List.foldl_cons]
  exact foldl_min_some _ (fun _ _ => rfl) l a

theorem shiftMinO_scatter (c : ℝ → ℝ → ℝ) (m : List Bool) (vals : List ℝ) (h : vals.length = m.count true) :
    shiftMinO c (scatter m vals) =
      scatter m (match vals with
        | [] => []
        | a :: l =>
          let mn := l.foldl (fun b y => if y < b then y else b) a
          vals.map (fun y => c y mn)) := by
  unfold shiftMinO
  cases vals with
  | nil => rw [nanminO_nil _ (delete_scatter' m [] h)]
  | cons a l =>
    rw [nanminO_cons _ a l (delete_scatter' m (a :: l) h)]
    simp only
    rw [map_map_eq_scatter, maskOf_scatter' m _ h, delete_scatter' m _ h]

end norms

/-! whitened pooling (`util/pooling.py`) -/

section whitenedPool

theorem okAll_cons_rows (a : Option ℝ) (r0 : List (Option ℝ)) (rest : List (List (Option ℝ))) :
    okAll ((a :: r0) :: rest) =
      (((a :: r0) :: rest).filterMap List.head?).all Option.isSome ::
        okAll (((a :: r0) :: rest).map List.tail) := by
  simp only [okAll, List.length_cons, List.map_cons, List.tail_cons]
  rw [range_succ_map]
  congr 1
  · rw [colAt_zero]
  · apply List.map_congr_left
    intro k _
    rw [colAt_succ]
    rfl

/-- `np.all(np.isfinite(rdm_vec), axis=0)` of a stack with one common mask is that mask -/
theorem okAll_common (m : List Bool) (stack : List (List (Option ℝ))) (hne : stack ≠ [])
    (hm : ∀ r ∈ stack, maskOf r = m) : okAll stack = m := by
  induction m generalizing stack with
  | nil =>
    obtain ⟨r1, rest, rfl⟩ := List.exists_cons_of_ne_nil hne
    have : r1 = [] := by
      have := hm r1 (by simp)
      cases r1 with
      | nil => rfl
      | cons a t => simp at this
    subst this
    simp [okAll]
  | cons b m ih =>
    obtain ⟨r1, rest, rfl⟩ := List.exists_cons_of_ne_nil hne
    obtain ⟨o1, t1, rfl, ho1, ht1⟩ := row_of_mask_cons (hm r1 (by simp))
    have htails : ∀ r ∈ ((o1 :: t1) :: rest).map List.tail, maskOf r = m := by
      intro r hr
      obtain ⟨r', hr', rfl⟩ := List.mem_map.mp hr
      obtain ⟨o, t, rfl, _, ht⟩ := row_of_mask_cons (hm r' hr')
      simpa using ht
    rw [okAll_cons_rows, ih _ (by simp) htails]
    congr 1
    cases b with
    | false =>
      have ho : o1 = none := by cases o1 <;> simp_all
      subst ho
      simp
    | true =>
      rw [List.all_eq_true]
      intro o ho
      obtain ⟨r, hr, hro⟩ := List.mem_filterMap.mp ho
      obtain ⟨o', t, rfl, ho', _⟩ := row_of_mask_cons (hm r hr)
      simp only [List.head?_cons, Option.some.injEq] at hro
      subst hro
      exact ho'

/-- `x / sqrt(xᵀ V⁻¹ x)` on a full vector -/
noncomputable def whitenRow (V : List (List ℝ)) (x : List ℝ) : List ℝ :=
  x.map (fun a => a / nonzero (HasSqrt.sqrt (dot x (solve V x))))

theorem whitenRow_length (V : List (List ℝ)) (x : List ℝ) : (whitenRow V x).length = x.length := by
  simp [whitenRow]

theorem normWhitenO_liftDel (Vok : List (List ℝ)) (v : List (Option ℝ)) :
    normWhitenO Vok (maskOf v) v = liftDel (whitenRow Vok) v := by
  unfold normWhitenO liftDel whitenRow
  rw [keep_maskOf', delete_map_some, map_map_eq_scatter]

end whitenedPool

end Rsa.Nan
