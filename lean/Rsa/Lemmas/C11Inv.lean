/-
  Helper lemmas for the reachable-state invariant of property C11:
  every operation yields aligned (well-formed) datasets whose labelled measurements are
  labelled measurements of the operation's inputs carrying no label they did not have.
-/
import Rsa.Lemmas.C11

set_option linter.unusedSectionVars false
set_option linter.unusedVariables false
set_option linter.unusedSimpArgs false

namespace Rsa.Lemmas.C11

open Rsa.Dataset

variable {α : Type}

/-- `d'` is aligned and each of its labelled measurements stems from a dataset in `src` -/
def Derives (src : List (DS α)) (d' : DS α) : Prop :=
  WFex d' ∧ ∀ c', IsCell d' c' → ∃ d ∈ src, ∃ c, IsCell d c ∧ Sub c' c

theorem derives_self {src : List (DS α)} {d : DS α} (hw : WFex d) (hd : d ∈ src) : Derives src d :=
  ⟨hw, fun c hc => ⟨d, hd, c, hc, Sub.refl c⟩⟩

theorem Derives.mono {src src' : List (DS α)} {d : DS α} (h : Derives src d)
    (hs : ∀ x ∈ src, x ∈ src') : Derives src' d :=
  ⟨h.1, fun c hc => let ⟨x, hx, c0, h0, hsub⟩ := h.2 c hc; ⟨x, hs x hx, c0, h0, hsub⟩⟩

/-- changing only the dataset-level labels to labels every measurement already carries -/
theorem relabel_derives {d g : DS α} {no nc nt : Nat} (hg : g.WF no nc nt) (desc' : Row)
    (hsub : ∀ c', IsCell g c' → ∃ c, IsCell d c ∧ Sub c' c)
    (hdesc : ∀ c', IsCell g c' → ∀ p ∈ desc', p ∈ c'.labels) :
    Derives [d] { g with desc := desc' } := by
  constructor
  · exact ⟨no, nc, nt, ⟨hg.obsLen, hg.chanLen, hg.timeLen, hg.obsT, hg.chanT, hg.timeT⟩⟩
  · rintro c' ⟨i, j, t, hc'⟩
    obtain ⟨r, cv, v, hr, hcv, hv, rfl⟩ := cellAt_eq_some.1 hc'
    have hgc : IsCell g ⟨v, g.obs.row i, g.chan.row j, g.time.row t, g.desc⟩ :=
      ⟨i, j, t, cellAt_eq_some.2 ⟨r, cv, v, hr, hcv, hv, rfl⟩⟩
    obtain ⟨c, hc, hs⟩ := hsub _ hgc
    refine ⟨d, by simp, c, hc, hs.1, ?_⟩
    intro p hp
    rw [mem_labels] at hp
    simp only at hp
    apply hs.2
    rcases hp with hp | hp | hp | hp
    · exact mem_labels.2 (Or.inl hp)
    · exact mem_labels.2 (Or.inr (Or.inl hp))
    · exact mem_labels.2 (Or.inr (Or.inr (Or.inl hp)))
    · exact hdesc _ hgc p hp

theorem gatherObs_cells {d : DS α} {no nc nt : Nat} (h : d.WF no nc nt) {idx : List Nat}
    (hidx : ∀ i ∈ idx, i < no) :
    ∀ c', IsCell (gatherObs idx d) c' → ∃ (k i : Nat), idx[k]? = some i ∧ ∃ j t, cellAt d i j t = some c' := by
  rintro c' ⟨k, j, t, hc⟩
  rw [gatherObs_cellAt h hidx] at hc
  cases hk : idx[k]? with
  | none => simp [hk] at hc
  | some i => exact ⟨k, i, hk, j, t, by simpa [hk] using hc⟩

theorem gatherChan_cells {d : DS α} {no nc nt : Nat} (h : d.WF no nc nt) {idx : List Nat}
    (hidx : ∀ i ∈ idx, i < nc) :
    ∀ c', IsCell (gatherChan idx d) c' → ∃ (k j : Nat), idx[k]? = some j ∧ ∃ i t, cellAt d i j t = some c' := by
  rintro c' ⟨i, k, t, hc⟩
  rw [gatherChan_cellAt h hidx] at hc
  cases hk : idx[k]? with
  | none => simp [hk] at hc
  | some j => exact ⟨k, j, hk, i, t, by simpa [hk] using hc⟩

theorem gatherTime_cells {d : DS α} {no nc nt : Nat} (h : d.WF no nc nt) {idx : List Nat}
    (hidx : ∀ i ∈ idx, i < nt) :
    ∀ c', IsCell (gatherTime idx d) c' → ∃ (k t : Nat), idx[k]? = some t ∧ ∃ i j, cellAt d i j t = some c' := by
  rintro c' ⟨i, j, k, hc⟩
  rw [gatherTime_cellAt h hidx] at hc
  cases hk : idx[k]? with
  | none => simp [hk] at hc
  | some t => exact ⟨k, t, hk, i, j, by simpa [hk] using hc⟩

theorem gatherObs_derives {d : DS α} {no nc nt : Nat} (h : d.WF no nc nt) {idx : List Nat}
    (hidx : ∀ i ∈ idx, i < no) : Derives [d] (gatherObs idx d) :=
  ⟨⟨_, _, _, gatherObs_wf h hidx⟩, fun c' hc' =>
    let ⟨_, i, _, j, t, hc⟩ := gatherObs_cells h hidx c' hc'
    ⟨d, by simp, c', ⟨i, j, t, hc⟩, Sub.refl _⟩⟩

theorem gatherChan_derives {d : DS α} {no nc nt : Nat} (h : d.WF no nc nt) {idx : List Nat}
    (hidx : ∀ i ∈ idx, i < nc) : Derives [d] (gatherChan idx d) :=
  ⟨⟨_, _, _, gatherChan_wf h hidx⟩, fun c' hc' =>
    let ⟨_, j, _, i, t, hc⟩ := gatherChan_cells h hidx c' hc'
    ⟨d, by simp, c', ⟨i, j, t, hc⟩, Sub.refl _⟩⟩

theorem gatherTime_derives {d : DS α} {no nc nt : Nat} (h : d.WF no nc nt) {idx : List Nat}
    (hidx : ∀ i ∈ idx, i < nt) : Derives [d] (gatherTime idx d) :=
  ⟨⟨_, _, _, gatherTime_wf h hidx⟩, fun c' hc' =>
    let ⟨_, t, _, i, j, hc⟩ := gatherTime_cells h hidx c' hc'
    ⟨d, by simp, c', ⟨i, j, t, hc⟩, Sub.refl _⟩⟩

theorem mem_setKey {δ : Type} {k : String} {v : δ} {d : List (String × δ)} {p : String × δ}
    (h : p ∈ setKey k v d) : p ∈ d ∨ p = (k, v) := by
  unfold setKey at h
  rcases List.mem_append.1 h with h | h
  · exact Or.inl (List.mem_filter.1 h).1
  · exact Or.inr (by simpa using h)

theorem selectionOf_spec (col : Col) (iv : Nat) (u : Lbl) (hu : (uniqueFirst col)[iv]? = some u) :
    ∀ i ∈ selectionOf col iv, col[i]? = some u := by
  intro i hi
  have hlt : iv < (uniqueFirst col).length := (List.getElem?_eq_some_iff.1 hu).1
  rw [selectionOf_eq col iv hlt] at hi
  obtain ⟨x, hx, hp⟩ := mem_indicesWhere.1 hi
  have : x = (uniqueFirst col)[iv] := by simpa using hp
  rw [hx, this, (List.getElem?_eq_some_iff.1 hu).2]

theorem selectionOf_lt (col : Col) (iv : Nat) : ∀ i ∈ selectionOf col iv, i < col.length := by
  intro i hi
  unfold selectionOf at hi
  have := indicesWhere_lt i hi
  simpa [inverse] using this

/-- one part of `split_obs` -/
theorem splitObs_part_derives {d : DS α} {no nc nt : Nat} (h : d.WF no nc nt) {by_ : String}
    {col : Col} (hcol : d.obs.col by_ = some col) (iv : Nat) (u : Lbl)
    (hu : (uniqueFirst col)[iv]? = some u) :
    Derives [d] (if d.temporal then gatherObs (selectionOf col iv) d
      else { gatherObs (selectionOf col iv) d with
             desc := setKey by_ u (gatherObs (selectionOf col iv) d).desc }) := by
  have hcl : col.length = no := h.obsT _ (col_mem hcol)
  have hidx : ∀ i ∈ selectionOf col iv, i < no := fun i hi => hcl ▸ selectionOf_lt col iv i hi
  split
  · exact gatherObs_derives h hidx
  · apply relabel_derives (gatherObs_wf h hidx)
    · intro c' hc'
      obtain ⟨_, i, _, j, t, hc⟩ := gatherObs_cells h hidx c' hc'
      exact ⟨c', ⟨i, j, t, hc⟩, Sub.refl _⟩
    · intro c' hc' p hp
      obtain ⟨k, i, hk, j, t, hc⟩ := gatherObs_cells h hidx c' hc'
      obtain ⟨r, cv, v, hr, hcv, hv, rfl⟩ := cellAt_eq_some.1 hc
      rcases mem_setKey hp with hp | rfl
      · exact mem_labels.2 (Or.inr (Or.inr (Or.inr hp)))
      · apply mem_labels.2
        left
        exact Tbl.mem_row.2 ⟨col, col_mem hcol,
          selectionOf_spec col iv u hu i (List.mem_of_getElem? hk)⟩

theorem splitChan_part_derives {d : DS α} {no nc nt : Nat} (h : d.WF no nc nt) {by_ : String}
    {col : Col} (hcol : d.chan.col by_ = some col) (iv : Nat) (u : Lbl)
    (hu : (uniqueFirst col)[iv]? = some u) :
    Derives [d] { gatherChan (selectionOf col iv) d with
             desc := setKey by_ u (gatherChan (selectionOf col iv) d).desc } := by
  have hcl : col.length = nc := h.chanT _ (col_mem hcol)
  have hidx : ∀ i ∈ selectionOf col iv, i < nc := fun i hi => hcl ▸ selectionOf_lt col iv i hi
  apply relabel_derives (gatherChan_wf h hidx)
  · intro c' hc'
    obtain ⟨_, j, _, i, t, hc⟩ := gatherChan_cells h hidx c' hc'
    exact ⟨c', ⟨i, j, t, hc⟩, Sub.refl _⟩
  · intro c' hc' p hp
    obtain ⟨k, j, hk, i, t, hc⟩ := gatherChan_cells h hidx c' hc'
    obtain ⟨r, cv, v, hr, hcv, hv, rfl⟩ := cellAt_eq_some.1 hc
    rcases mem_setKey hp with hp | rfl
    · exact mem_labels.2 (Or.inr (Or.inr (Or.inr hp)))
    · apply mem_labels.2
      right; left
      exact Tbl.mem_row.2 ⟨col, col_mem hcol,
        selectionOf_spec col iv u hu j (List.mem_of_getElem? hk)⟩

theorem mem_zipIdx_getElem? {β : Type} {l : List β} {x : β} {i : Nat} (h : (x, i) ∈ l.zipIdx) :
    l[i]? = some x := zipIdx_mem_getElem? h

theorem splitObs_derives {d : DS α} (hw : WFex d) {by_ : String} {parts : List (DS α)}
    (hp : splitObs by_ d = some parts) : ∀ p ∈ parts, Derives [d] p := by
  obtain ⟨no, nc, nt, h⟩ := hw
  unfold splitObs at hp
  cases hcol : d.obs.col by_ with
  | none => simp [hcol] at hp
  | some col =>
    simp only [hcol, Option.some.injEq] at hp
    subst hp
    intro p hp
    obtain ⟨⟨u, iv⟩, hmem, rfl⟩ := List.mem_map.1 hp
    exact splitObs_part_derives h hcol iv u (mem_zipIdx_getElem? hmem)

theorem splitChan_derives {d : DS α} (hw : WFex d) {by_ : String} {parts : List (DS α)}
    (hp : splitChan by_ d = some parts) : ∀ p ∈ parts, Derives [d] p := by
  obtain ⟨no, nc, nt, h⟩ := hw
  unfold splitChan at hp
  cases hcol : d.chan.col by_ with
  | none => simp [hcol] at hp
  | some col =>
    simp only [hcol, Option.some.injEq] at hp
    subst hp
    intro p hp
    obtain ⟨⟨u, iv⟩, hmem, rfl⟩ := List.mem_map.1 hp
    exact splitChan_part_derives h hcol iv u (mem_zipIdx_getElem? hmem)

theorem splitTime_derives {d : DS α} (hw : WFex d) {by_ : String} {parts : List (DS α)}
    (hp : splitTime by_ d = some parts) : ∀ p ∈ parts, Derives [d] p := by
  obtain ⟨no, nc, nt, h⟩ := hw
  unfold splitTime at hp
  cases hcol : d.time.col by_ with
  | none => simp [hcol] at hp
  | some col =>
    simp only [hcol, Option.some.injEq] at hp
    subst hp
    intro p hp
    obtain ⟨u, _, rfl⟩ := List.mem_map.1 hp
    have hcl : col.length = nt := h.timeT _ (col_mem hcol)
    exact gatherTime_derives h (fun i hi => hcl ▸ indicesWhere_lt i hi)

theorem subsetObs_derives {d d' : DS α} (hw : WFex d) {by_ : String} {vals : List Lbl}
    (hp : subsetObs by_ vals d = some d') : Derives [d] d' := by
  obtain ⟨no, nc, nt, h⟩ := hw
  unfold subsetObs at hp
  cases hcol : d.obs.col by_ with
  | none => simp [hcol] at hp
  | some col =>
    simp only [hcol, Option.map_some, Option.some.injEq] at hp
    subst hp
    have hcl : col.length = no := h.obsT _ (col_mem hcol)
    exact gatherObs_derives h (fun i hi => hcl ▸ indicesWhere_lt i hi)

theorem subsetChan_derives {d d' : DS α} (hw : WFex d) {by_ : String} {vals : List Lbl}
    (hp : subsetChan by_ vals d = some d') : Derives [d] d' := by
  obtain ⟨no, nc, nt, h⟩ := hw
  unfold subsetChan at hp
  cases hcol : d.chan.col by_ with
  | none => simp [hcol] at hp
  | some col =>
    simp only [hcol, Option.map_some, Option.some.injEq] at hp
    subst hp
    have hcl : col.length = nc := h.chanT _ (col_mem hcol)
    exact gatherChan_derives h (fun i hi => hcl ▸ indicesWhere_lt i hi)

theorem subsetTime_derives {d d' : DS α} (hw : WFex d) {by_ : String} {lo hi : Lbl}
    (hp : subsetTime by_ lo hi d = some d') : Derives [d] d' := by
  obtain ⟨no, nc, nt, h⟩ := hw
  unfold subsetTime at hp
  cases hcol : d.time.col by_ with
  | none => simp [hcol] at hp
  | some col =>
    simp only [hcol, Option.map_some, Option.some.injEq] at hp
    subst hp
    have hcl : col.length = nt := h.timeT _ (col_mem hcol)
    exact gatherTime_derives h (fun i hi => hcl ▸ indicesWhere_lt i hi)

theorem sortBy_derives {d d' : DS α} (hw : WFex d) {by_ : String}
    (hp : sortBy by_ d = some d') : Derives [d] d' := by
  obtain ⟨no, nc, nt, h⟩ := hw
  unfold sortBy at hp
  cases hcol : d.obs.col by_ with
  | none => simp [hcol] at hp
  | some col =>
    simp only [hcol, Option.map_some, Option.some.injEq] at hp
    subst hp
    have hcl : col.length = no := h.obsT _ (col_mem hcol)
    exact gatherObs_derives h (fun i hi => hcl ▸ argsort_lt Lbl.le col i hi)


/-! ### merge-type operations -/

/-- merging datasets that literally share channel and time descriptors -/
theorem merge_same_derives {sets : List (DS α)} {m : DS α} {nc nt : Nat} {ch tm : Tbl}
    (hm : merge sets = some m)
    (hsame : ∀ s ∈ sets, s.chan = ch ∧ s.time = tm ∧ ∃ no, s.WF no nc nt) :
    m.chan = ch ∧ m.time = tm ∧ (∃ no, m.WF no nc nt) ∧
      ∀ c', IsCell m c' → ∃ s ∈ sets, ∃ c, IsCell s c ∧ Sub c' c := by
  have hch : m.chan = ch ∧ m.time = tm := by
    cases hsets : sets with
    | nil => simp [hsets, merge] at hm
    | cons d0 rest =>
      rw [hsets] at hm
      simp only [merge, Option.some.injEq] at hm
      have h0 := hsame d0 (by rw [hsets]; simp)
      rw [← hm]
      exact ⟨h0.1, h0.2.1⟩
  have := merge_sound hm (fun s hs => (hsame s hs).2.2)
    (fun s hs j p hp => by rw [(hsame s hs).1, ← hch.1]; exact hp)
    (fun s hs t p hp => by rw [(hsame s hs).2.1, ← hch.2]; exact hp)
  exact ⟨hch.1, hch.2, this.1, this.2⟩

theorem evens_sub {β : Type} : ∀ (l : List β), ∀ x ∈ evens l, x ∈ l
  | [], x, h => by simp [evens] at h
  | [y], x, h => by simpa [evens] using h
  | y :: z :: r, x, h => by
    simp only [evens, List.mem_cons] at h
    rcases h with rfl | h
    · simp
    · exact List.mem_cons_of_mem _ (List.mem_cons_of_mem _ (evens_sub r x h))

theorem odds_sub {β : Type} : ∀ (l : List β), ∀ x ∈ odds l, x ∈ l
  | [], x, h => by simp [odds] at h
  | [y], x, h => by simp [odds] at h
  | y :: z :: r, x, h => by
    simp only [odds, List.mem_cons] at h
    rcases h with rfl | h
    · simp
    · exact List.mem_cons_of_mem _ (List.mem_cons_of_mem _ (odds_sub r x h))

/-- what the parts of `split_obs` have in common -/
theorem splitObs_parts_same {d : DS α} {no nc nt : Nat} (h : d.WF no nc nt) {by_ : String}
    {parts : List (DS α)} (hp : splitObs by_ d = some parts) :
    ∀ p ∈ parts, p.chan = d.chan ∧ p.time = d.time ∧ ∃ no', p.WF no' nc nt := by
  unfold splitObs at hp
  cases hcol : d.obs.col by_ with
  | none => simp [hcol] at hp
  | some col =>
    simp only [hcol, Option.some.injEq] at hp
    subst hp
    intro p hp
    obtain ⟨⟨u, iv⟩, hmem, rfl⟩ := List.mem_map.1 hp
    have hcl : col.length = no := h.obsT _ (col_mem hcol)
    have hidx : ∀ i ∈ selectionOf col iv, i < no := fun i hi => hcl ▸ selectionOf_lt col iv i hi
    have hw := gatherObs_wf h hidx
    simp only
    split
    · exact ⟨rfl, rfl, _, hw⟩
    · exact ⟨rfl, rfl, _, ⟨hw.obsLen, hw.chanLen, hw.timeLen, hw.obsT, hw.chanT, hw.timeT⟩⟩

structure Same (d : DS α) (nc nt : Nat) (x : DS α) : Prop where
  chan : x.chan = d.chan
  time : x.time = d.time
  wf : ∃ no, x.WF no nc nt
  cells : ∀ c', IsCell x c' → ∃ c, IsCell d c ∧ Sub c' c

theorem Same.derives {d x : DS α} {nc nt : Nat} (h : Same d nc nt x) : Derives [d] x :=
  ⟨let ⟨no, hw⟩ := h.wf; ⟨no, nc, nt, hw⟩, fun c' hc' =>
    let ⟨c, hc, hs⟩ := h.cells c' hc'; ⟨d, by simp, c, hc, hs⟩⟩

theorem merge_of_same {d : DS α} {nc nt : Nat} {sets : List (DS α)} {m : DS α}
    (hm : merge sets = some m) (hs : ∀ s ∈ sets, Same d nc nt s) : Same d nc nt m := by
  obtain ⟨h1, h2, h3, h4⟩ := merge_same_derives (ch := d.chan) (tm := d.time) hm
    (fun s hs' => ⟨(hs s hs').chan, (hs s hs').time, (hs s hs').wf⟩)
  refine ⟨h1, h2, h3, ?_⟩
  intro c' hc'
  obtain ⟨s, hs', c, hc, hsub⟩ := h4 c' hc'
  obtain ⟨c0, hc0, hsub0⟩ := (hs s hs').cells c hc
  exact ⟨c0, hc0, hsub.trans hsub0⟩

theorem splitObs_same {d : DS α} {no nc nt : Nat} (h : d.WF no nc nt) {by_ : String}
    {parts : List (DS α)} (hp : splitObs by_ d = some parts) : ∀ p ∈ parts, Same d nc nt p := by
  intro p hpm
  obtain ⟨h1, h2, h3⟩ := splitObs_parts_same h hp p hpm
  have hd := splitObs_derives ⟨no, nc, nt, h⟩ hp p hpm
  refine ⟨h1, h2, h3, ?_⟩
  intro c' hc'
  obtain ⟨x, hx, c, hc, hs⟩ := hd.2 c' hc'
  have : x = d := by simpa using hx
  subst this
  exact ⟨c, hc, hs⟩

theorem oddEven_same {d : DS α} {no nc nt : Nat} (h : d.WF no nc nt) {by_ : String}
    {a b : DS α} (hp : oddEven by_ d = some (a, b)) : Same d nc nt a ∧ Same d nc nt b := by
  rw [oddEven_eq_ref] at hp
  unfold oddEvenRef at hp
  cases hparts : splitObs by_ d with
  | none => simp [hparts] at hp
  | some parts =>
    simp only [hparts] at hp
    have hsame := splitObs_same h hparts
    cases ha : merge (evens parts) with
    | none => simp [ha] at hp
    | some a' =>
      cases hb : merge (odds parts) with
      | none => simp [ha, hb] at hp
      | some b' =>
        simp only [ha, hb, Option.some.injEq, Prod.mk.injEq] at hp
        obtain ⟨rfl, rfl⟩ := hp
        exact ⟨merge_of_same ha (fun s hs => hsame s (evens_sub parts s hs)),
               merge_of_same hb (fun s hs => hsame s (odds_sub parts s hs))⟩

theorem Same.trans {d x y : DS α} {nc nt : Nat} (hx : Same d nc nt x) (hy : Same x nc nt y) :
    Same d nc nt y :=
  ⟨hy.chan.trans hx.chan, hy.time.trans hx.time, hy.wf, fun c' hc' =>
    let ⟨c, hc, hs⟩ := hy.cells c' hc'
    let ⟨c0, hc0, hs0⟩ := hx.cells c hc
    ⟨c0, hc0, hs.trans hs0⟩⟩

theorem nestedOddEven_same {d : DS α} {no nc nt : Nat} (h : d.WF no nc nt) {l1 l2 : String}
    {a b : DS α} (hp : nestedOddEven l1 l2 d = some (a, b)) : Same d nc nt a ∧ Same d nc nt b := by
  unfold nestedOddEven at hp
  cases hparts : splitObs l1 d with
  | none => simp [hparts] at hp
  | some parts =>
    simp only [hparts] at hp
    have hsame := splitObs_same h hparts
    split at hp
    · have hpairs : ∀ pr ∈ parts.filterMap (oddEven l2), Same d nc nt pr.1 ∧ Same d nc nt pr.2 := by
        intro pr hpr
        obtain ⟨part, hpart, hoe⟩ := List.mem_filterMap.1 hpr
        obtain ⟨no', hw'⟩ := (hsame part hpart).wf
        have := oddEven_same (a := pr.1) (b := pr.2) hw' (by simpa using hoe)
        exact ⟨(hsame part hpart).trans this.1, (hsame part hpart).trans this.2⟩
      cases ha : merge ((parts.filterMap (oddEven l2)).map (·.1)) with
      | none => simp [ha] at hp
      | some a' =>
        cases hb : merge ((parts.filterMap (oddEven l2)).map (·.2)) with
        | none => simp [ha, hb] at hp
        | some b' =>
          simp only [ha, hb, Option.some.injEq, Prod.mk.injEq] at hp
          obtain ⟨rfl, rfl⟩ := hp
          constructor
          · apply merge_of_same ha
            intro s hs
            obtain ⟨pr, hpr, rfl⟩ := List.mem_map.1 hs
            exact (hpairs pr hpr).1
          · apply merge_of_same hb
            intro s hs
            obtain ⟨pr, hpr, rfl⟩ := List.mem_map.1 hs
            exact (hpairs pr hpr).2
    · simp at hp


/-! ### the `merge` operation of a session (admissibility check included) -/

theorem tblEq_mem {a b : Tbl} (h : tblEq a b = true) : ∀ kc, kc ∈ b → kc ∈ a := by
  unfold tblEq sortKeys at h
  have heq : a.mergeSort (fun x y => decide (x.1 ≤ y.1)) = b.mergeSort (fun x y => decide (x.1 ≤ y.1)) := by
    simpa using h
  intro kc hkc
  have h1 : kc ∈ b.mergeSort (fun x y => decide (x.1 ≤ y.1)) := List.mem_mergeSort.2 hkc
  rw [← heq] at h1
  exact List.mem_mergeSort.1 h1

theorem tblEq_row {a b : Tbl} (h : tblEq a b = true) (i : Nat) : ∀ p ∈ b.row i, p ∈ a.row i := by
  intro p hp
  obtain ⟨k, x⟩ := p
  obtain ⟨c, hc, hx⟩ := Tbl.mem_row.1 hp
  exact Tbl.mem_row.2 ⟨c, tblEq_mem h _ hc, hx⟩

theorem nonEmpty_dims {d : DS α} {no nc nt : Nat} (h : d.WF no nc nt) (hne : nonEmpty d = true) :
    nc = d.nChan ∧ nt = d.nTime := by
  unfold nonEmpty at hne
  simp only [Bool.and_eq_true, decide_eq_true_eq] at hne
  obtain ⟨⟨⟨h1, h2⟩, h3⟩, _⟩ := hne
  have hno : 0 < no := by rw [← h.obsLen]; exact h1
  have hc := nChan_eq h hno
  have hnc : 0 < nc := by omega
  exact ⟨hc.symm, (nTime_eq h hno hnc).symm⟩

theorem mergeOp_derives {ws : List (DS α)} {m : DS α} (hw : ∀ d ∈ ws, WFex d)
    (hadm : mergeAdmissible ws = true) (hm : merge ws = some m) : Derives ws m := by
  cases hws : ws with
  | nil => simp [hws, merge] at hm
  | cons d0 rest =>
    have hadm' := hadm
    rw [hws] at hadm'
    simp only [mergeAdmissible, List.all_eq_true, Bool.and_eq_true, beq_iff_eq] at hadm'
    rw [← hws] at hadm'
    have hmc : m.chan = d0.chan ∧ m.time = d0.time := by
      rw [hws] at hm
      simp only [merge, Option.some.injEq] at hm
      rw [← hm]; exact ⟨rfl, rfl⟩
    have hwf : ∀ s ∈ ws, ∃ no, s.WF no d0.nChan d0.nTime := by
      intro s hs
      obtain ⟨no, nc, nt, h⟩ := hw s hs
      obtain ⟨⟨⟨⟨⟨hne, _⟩, _⟩, _⟩, hc⟩, ht⟩ := hadm' s hs
      obtain ⟨e1, e2⟩ := nonEmpty_dims h hne
      rw [← hc, ← ht, ← e1, ← e2]
      exact ⟨no, h⟩
    have := merge_sound hm hwf
      (fun s hs j p hp => by
        obtain ⟨⟨⟨⟨_, hch⟩, _⟩, _⟩, _⟩ := hadm' s hs
        rw [hmc.1] at hp
        exact tblEq_row hch j p hp)
      (fun s hs t p hp => by
        obtain ⟨⟨⟨_, htm⟩, _⟩, _⟩ := hadm' s hs
        rw [hmc.2] at hp
        exact tblEq_row htm t p hp)
    rw [← hws]
    exact ⟨let ⟨no, h⟩ := this.1; ⟨no, _, _, h⟩, this.2⟩


/-! ### conversions -/

theorem sum_map_length_const {β : Type} (n : Nat) : ∀ (l : List (List β)), (∀ x ∈ l, x.length = n) →
    (l.map List.length).sum = l.length * n
  | [], _ => by simp
  | x :: l, h => by
    simp only [List.map_cons, List.sum_cons, List.length_cons]
    rw [sum_map_length_const n l (fun y hy => h y (by simp [hy])), h x (by simp), Nat.succ_mul]
    omega

theorem length_flatten_const {β : Type} (n : Nat) (l : List (List β)) (h : ∀ x ∈ l, x.length = n) :
    l.flatten.length = l.length * n := by
  rw [List.length_flatten, sum_map_length_const n l h]

theorem sum_take_const {β : Type} (n : Nat) (l : List (List β)) (h : ∀ x ∈ l, x.length = n) (p : Nat)
    (hp : p ≤ l.length) : ((l.take p).map List.length).sum = p * n := by
  rw [sum_map_length_const n (l.take p) (fun x hx => h x (List.mem_of_mem_take hx))]
  simp [Nat.min_eq_left hp]

theorem dims_cases {d : DS α} {no nc nt : Nat} (h : d.WF no nc nt) :
    (no = 0 ∧ d.nChan = 0 ∧ d.nTime = 0) ∨
    (0 < no ∧ d.nChan = nc ∧ ((nc = 0 ∧ d.nTime = 0) ∨ (0 < nc ∧ d.nTime = nt))) := by
  by_cases hno : no = 0
  · left
    have : d.meas = [] := List.length_eq_zero_iff.1 (by rw [h.obsLen]; exact hno)
    simp [hno, DS.nChan, DS.nTime, this]
  · right
    have hno' : 0 < no := by omega
    refine ⟨hno', nChan_eq h hno', ?_⟩
    by_cases hnc : nc = 0
    · left
      refine ⟨hnc, ?_⟩
      unfold DS.nTime
      cases hm : d.meas with
      | nil => rfl
      | cons r rs =>
        have : r.length = 0 := by rw [h.chanLen r (by rw [hm]; simp)]; exact hnc
        have : r = [] := List.length_eq_zero_iff.1 this
        simp [this]
    · right
      exact ⟨by omega, nTime_eq h hno' (by omega)⟩

theorem timeAsChan_wf {d : DS α} {no nc nt : Nat} (h : d.WF no nc nt) :
    (timeAsChan d).WF no (d.nChan * d.nTime) 1 := by
  have hd := dims_cases h
  refine ⟨by simp [timeAsChan, h.obsLen], ?_, ?_, h.obsT, ?_, by intro kc hkc; simp [timeAsChan] at hkc⟩
  · intro r' hr'
    simp only [timeAsChan, List.mem_map] at hr'
    obtain ⟨r, hr, rfl⟩ := hr'
    rw [List.length_map, length_flatten_const nt r (h.timeLen r hr), h.chanLen r hr]
    have hno : 0 < no := by rw [← h.obsLen]; exact List.length_pos_of_mem hr
    rcases hd with ⟨h0, _⟩ | ⟨_, hc, ⟨hz, ht⟩ | ⟨_, ht⟩⟩
    · omega
    · rw [hc, hz]; simp
    · rw [hc, ht]
  · intro r' hr' c hc
    simp only [timeAsChan, List.mem_map] at hr'
    obtain ⟨r, hr, rfl⟩ := hr'
    obtain ⟨v, _, rfl⟩ := List.mem_map.1 hc
    rfl
  · intro kc hkc
    simp only [timeAsChan] at hkc
    rw [Tbl.update_map d.chan d.time (fun c => c.flatMap (fun x => List.replicate d.nTime x))
      (fun c => (List.replicate d.nChan c).flatten)] at hkc
    rcases List.mem_append.1 hkc with hkc | hkc
    · obtain ⟨kc0, h0, rfl⟩ := List.mem_map.1 hkc
      simp only
      have hl : kc0.2.length = nc := h.chanT kc0 (Tbl.minus_sub _ h0)
      have : (kc0.2.flatMap (fun x => List.replicate d.nTime x)).length = kc0.2.length * d.nTime := by
        rw [List.flatMap_def, length_flatten_const d.nTime _ (by simp)]
        simp
      rw [this, hl]
      rcases hd with ⟨_, hc, ht⟩ | ⟨_, hc, _⟩
      · rw [hc, ht]; simp
      · rw [hc]
    · obtain ⟨kc0, h0, rfl⟩ := List.mem_map.1 hkc
      simp only
      have hl : kc0.2.length = nt := h.timeT kc0 h0
      rw [length_flatten_const nt _ (by simp [List.mem_replicate]; intros; exact hl)]
      simp only [List.length_replicate]
      rcases hd with ⟨_, hc, ht⟩ | ⟨_, hc, ⟨hz, ht⟩ | ⟨_, ht⟩⟩
      · rw [hc]; simp
      · rw [hc, hz]; simp
      · rw [ht]

theorem timeAsChan_derives {d : DS α} (hw : WFex d) : Derives [d] (timeAsChan d) := by
  obtain ⟨no, nc, nt, h⟩ := hw
  refine ⟨⟨_, _, _, timeAsChan_wf h⟩, ?_⟩
  rintro c' ⟨i, q, tt, hc'⟩
  obtain ⟨r', cv', v, hr', hcv', hv, rfl⟩ := cellAt_eq_some.1 hc'
  simp only [timeAsChan, List.getElem?_map] at hr'
  cases hr : d.meas[i]? with
  | none => simp [hr] at hr'
  | some r =>
    simp only [hr, Option.map_some, Option.some.injEq] at hr'
    subst hr'
    rw [List.getElem?_map] at hcv'
    cases hfl : r.flatten[q]? with
    | none => simp [hfl] at hcv'
    | some v0 =>
      simp only [hfl, Option.map_some, Option.some.injEq] at hcv'
      subst hcv'
      have htt : tt = 0 := by
        have := (List.getElem?_eq_some_iff.1 hv).1
        simpa using this
      subst htt
      have hv0 : v0 = v := by simpa using hv
      subst hv0
      have hrm : r ∈ d.meas := List.mem_of_getElem? hr
      obtain ⟨p, x, i', hp, hx, hq⟩ := flatten_getElem?_some r q v0 hfl
      have hplt : p < r.length := (List.getElem?_eq_some_iff.1 hp).1
      rw [sum_take_const nt r (h.timeLen r hrm) p (by omega)] at hq
      have hc : cellAt d i p i' = some ⟨v0, d.obs.row i, d.chan.row p, d.time.row i', d.desc⟩ :=
        cellAt_eq_some.2 ⟨r, x, v0, hr, hp, hx, rfl⟩
      have hfw := timeAsChan_cellAt h i p i' _ hc
      rw [← hq] at hfw
      have hc'' : cellAt (timeAsChan d) i q 0 = some ⟨v0, (timeAsChan d).obs.row i,
          (timeAsChan d).chan.row q, (timeAsChan d).time.row 0, (timeAsChan d).desc⟩ := hc'
      rw [hfw] at hc''
      refine ⟨d, by simp, _, ⟨i, p, i', hc⟩, ?_⟩
      rw [← Option.some.inj hc'']
      refine ⟨rfl, ?_⟩
      intro pr hpr
      rw [mem_labels] at hpr ⊢
      simp only [List.mem_append] at hpr ⊢
      rcases hpr with hpr | (hpr | hpr) | hpr | hpr
      · exact Or.inl hpr
      · exact Or.inr (Or.inl (Tbl.row_minus_sub pr hpr))
      · exact Or.inr (Or.inr (Or.inl hpr))
      · simp at hpr
      · exact Or.inr (Or.inr (Or.inr hpr))


theorem timeAsObs_wf {d d' : DS α} {no nc nt : Nat} (h : d.WF no nc nt) {by_ : String}
    {col : Col} (hcol : d.time.col by_ = some col) (hd' : timeAsObs by_ d = some d') :
    d'.WF ((taoOrder col).length * no) nc 1 := by
  have hcl : col.length = nt := h.timeT _ (col_mem hcol)
  have hord : ∀ s' ∈ taoOrder col, s' < nt := fun s' hs' => hcl ▸ taoOrder_lt col s' hs'
  unfold timeAsObs at hd'
  rw [hcol] at hd'
  simp only [Option.some.injEq] at hd'
  subst hd'
  refine ⟨?_, ?_, ?_, ?_, h.chanT, by intro kc hkc; simp at hkc⟩
  · simp only
    rw [List.flatMap_def, length_flatten_const no _ (by simp [h.obsLen])]
    simp
  · intro r' hr'
    simp only [List.mem_flatMap, List.mem_map] at hr'
    obtain ⟨s, _, r, hr, rfl⟩ := hr'
    simp [h.chanLen r hr]
  · intro r' hr' c hc
    simp only [List.mem_flatMap, List.mem_map] at hr'
    obtain ⟨s, hs, r, hr, rfl⟩ := hr'
    obtain ⟨cv, hcv, rfl⟩ := List.mem_map.1 hc
    exact gather_length (fun s' hs' => by
      have : s' = s := by simpa using hs'
      rw [this, h.timeLen r hr cv hcv]; exact hord s hs)
  · intro kc hkc
    simp only at hkc
    rw [Tbl.update_map d.obs d.time (fun c => ((taoOrder col).map (fun _ => c)).flatten)
      (fun c => (gather (taoOrder col) c).flatMap (fun x => List.replicate d.meas.length x))] at hkc
    rcases List.mem_append.1 hkc with hkc | hkc
    · obtain ⟨kc0, h0, rfl⟩ := List.mem_map.1 hkc
      simp only
      have hl : kc0.2.length = no := h.obsT kc0 (Tbl.minus_sub _ h0)
      rw [length_flatten_const no _ (by simp; intros; exact hl)]
      simp
    · obtain ⟨kc0, h0, rfl⟩ := List.mem_map.1 hkc
      simp only
      have hl : kc0.2.length = nt := h.timeT kc0 h0
      rw [List.flatMap_def, length_flatten_const no _ (by simp [h.obsLen])]
      simp [gather_length (l := kc0.2) (idx := taoOrder col) (fun s' hs' => by rw [hl]; exact hord s' hs')]

theorem timeAsObs_derives {d d' : DS α} (hw : WFex d) {by_ : String}
    (hd' : timeAsObs by_ d = some d') : Derives [d] d' := by
  obtain ⟨no, nc, nt, h⟩ := hw
  cases hcol : d.time.col by_ with
  | none => simp [timeAsObs, hcol] at hd'
  | some col =>
    have hcl : col.length = nt := h.timeT _ (col_mem hcol)
    have hord : ∀ s' ∈ taoOrder col, s' < nt := fun s' hs' => hcl ▸ taoOrder_lt col s' hs'
    refine ⟨⟨_, _, _, timeAsObs_wf h hcol hd'⟩, ?_⟩
    rintro c' ⟨k, j, tt, hc'⟩
    have hmeas : d'.meas = ((taoOrder col).map
        (fun s => d.meas.map (fun r => r.map (fun c => gather [s] c)))).flatten := by
      have := hd'
      unfold timeAsObs at this
      rw [hcol] at this
      simp only [Option.some.injEq] at this
      rw [← this, List.flatMap_def]
    obtain ⟨r', cv', v, hr', hcv', hv, hceq⟩ := cellAt_eq_some.1 hc'
    rw [hmeas] at hr'
    obtain ⟨p, x, i, hp, hx, hk⟩ := flatten_getElem?_some _ k r' hr'
    rw [List.getElem?_map] at hp
    cases hs : (taoOrder col)[p]? with
    | none => simp [hs] at hp
    | some s =>
      simp only [hs, Option.map_some, Option.some.injEq] at hp
      subst hp
      rw [List.getElem?_map] at hx
      cases hr : d.meas[i]? with
      | none => simp [hr] at hx
      | some r =>
        simp only [hr, Option.map_some, Option.some.injEq] at hx
        subst hx
        rw [List.getElem?_map] at hcv'
        cases hcv : r[j]? with
        | none => simp [hcv] at hcv'
        | some cv =>
          simp only [hcv, Option.map_some, Option.some.injEq] at hcv'
          subst hcv'
          have hrm : r ∈ d.meas := List.mem_of_getElem? hr
          have hslt : s < cv.length := by
            rw [h.timeLen r hrm cv (List.mem_of_getElem? hcv)]
            exact hord s (List.mem_of_getElem? hs)
          rw [gather_cons_of_lt hslt] at hv
          have htt : tt = 0 := by
            have := (List.getElem?_eq_some_iff.1 hv).1
            simpa [gather] using this
          subst htt
          have hv0 : cv[s] = v := by simpa [gather] using hv
          have hplt : p < (taoOrder col).length := (List.getElem?_eq_some_iff.1 hs).1
          rw [sum_take_const no _ (by simp [h.obsLen]) p (by simp; omega)] at hk
          have hc : cellAt d i j s = some ⟨v, d.obs.row i, d.chan.row j, d.time.row s, d.desc⟩ :=
            cellAt_eq_some.2 ⟨r, cv, v, hr, hcv, by rw [← hv0]; exact List.getElem?_eq_getElem hslt, rfl⟩
          have hfw := timeAsObs_cellAt h hcol hd' p s i j hs _ hc
          rw [← hk, hc'] at hfw
          refine ⟨d, by simp, _, ⟨i, j, s, hc⟩, ?_⟩
          rw [Option.some.inj hfw]
          refine ⟨rfl, ?_⟩
          intro pr hpr
          rw [mem_labels] at hpr ⊢
          simp only [List.mem_append] at hpr ⊢
          rcases hpr with (hpr | hpr) | hpr | hpr | hpr
          · exact Or.inl (Tbl.row_minus_sub pr hpr)
          · exact Or.inr (Or.inr (Or.inl hpr))
          · exact Or.inr (Or.inl hpr)
          · simp at hpr
          · exact Or.inr (Or.inr (Or.inr hpr))

/-! ### DataFrame round trip -/

theorem uniqueFirst_singleton {β : Type} [DecidableEq β] {l : List β} {x : β}
    (h : uniqueFirst l = [x]) : ∀ y ∈ l, y = x := by
  intro y hy
  have := mem_uniqueFirst.2 hy
  rw [h] at this
  simpa using this

/-- the constancy test of `from_df` (through the generated leaf) -/
theorem isConstCol_iff {c : Col} : isConstCol c = true ↔ (uniqueFirst c).length = 1 := by
  unfold isConstCol
  rw [fromDfIsConst_eq]
  simp

/-- a constant column holds its row-0 value everywhere -/
theorem isConstCol_all {c : Col} (hc : isConstCol c = true) {x : Lbl} (hx : c[0]? = some x) :
    ∀ y ∈ c, y = x := by
  have hlen := isConstCol_iff.1 hc
  cases c with
  | nil => simp at hx
  | cons x0 xs =>
    have : x0 = x := by simpa using hx
    subst this
    intro y hy
    rcases List.mem_cons.1 hy with rfl | hy
    · rfl
    · exact (uniqueFirst_cons_length_one.1 hlen) y hy

theorem dfFrame_cases {d : DS α} {no nc nt : Nat} (h : d.WF no nc nt) :
    ∀ kc ∈ dfFrame d, kc ∈ d.obs ∨ ∃ v, (kc.1, v) ∈ d.desc ∧ kc.2 = List.replicate no v := by
  intro kc hkc
  unfold dfFrame Tbl.update at hkc
  rcases List.mem_append.1 hkc with hkc | hkc
  · exact Or.inl (Tbl.minus_sub _ hkc)
  · obtain ⟨kv, hkv, rfl⟩ := List.mem_map.1 hkc
    exact Or.inr ⟨kv.2, hkv, by rw [h.obsLen]⟩

theorem dfFrame_len {d : DS α} {no nc nt : Nat} (h : d.WF no nc nt) :
    ∀ kc ∈ dfFrame d, kc.2.length = no := by
  intro kc hkc
  rcases dfFrame_cases h kc hkc with hk | ⟨v, _, hk⟩
  · exact h.obsT kc hk
  · rw [hk]; simp

theorem dfRoundTrip_derives {d d' : DS α} (hw : WFex d) {key : String}
    (hd' : dfRoundTrip key d = some d') : Derives [d] d' := by
  obtain ⟨no, nc, nt, h⟩ := hw
  unfold dfRoundTrip at hd'
  cases hn : d.chan.col key with
  | none => simp [hn] at hd'
  | some names =>
    simp only [hn, Option.some.injEq] at hd'
    have hall := dfFrame_cases h
    have halllen := dfFrame_len h
    subst hd'
    constructor
    · refine ⟨no, nc, nt, ⟨h.obsLen, h.chanLen, h.timeLen, ?_, ?_, h.timeT⟩⟩
      · intro kc hkc
        exact halllen kc (List.mem_filter.1 hkc).1
      · intro kc hkc
        have : kc = (key, names) := by simpa using hkc
        rw [this]
        exact h.chanT _ (col_mem hn)
    · rintro c' ⟨i, j, t, hc'⟩
      obtain ⟨r, cv, v, hr, hcv, hv, rfl⟩ := cellAt_eq_some.1 hc'
      simp only at hr
      have hi : i < no := by rw [← h.obsLen]; exact (List.getElem?_eq_some_iff.1 hr).1
      refine ⟨d, by simp, ⟨v, d.obs.row i, d.chan.row j, d.time.row t, d.desc⟩,
        ⟨i, j, t, cellAt_eq_some.2 ⟨r, cv, v, hr, hcv, hv, rfl⟩⟩, rfl, ?_⟩
      intro pr hpr
      rw [mem_labels] at hpr ⊢
      simp only at hpr ⊢
      rcases hpr with hpr | hpr | hpr | hpr
      · obtain ⟨k, x⟩ := pr
        obtain ⟨c, hc, hx⟩ := Tbl.mem_row.1 hpr
        rcases hall _ (List.mem_filter.1 hc).1 with hk | ⟨v', hv', hk⟩
        · exact Or.inl (Tbl.mem_row.2 ⟨c, hk, hx⟩)
        · simp only at hk hv'
          rw [hk] at hx
          have : x = v' := (List.mem_replicate.1 (List.mem_of_getElem? hx)).2
          subst this
          exact Or.inr (Or.inr (Or.inr hv'))
      · obtain ⟨k, x⟩ := pr
        obtain ⟨c, hc, hx⟩ := Tbl.mem_row.1 hpr
        have : (k, c) = (key, names) := by simpa using hc
        cases this
        exact Or.inr (Or.inl (Tbl.mem_row.2 ⟨names, col_mem hn, hx⟩))
      · exact Or.inr (Or.inr (Or.inl hpr))
      · obtain ⟨kc, hkc, hkx⟩ := List.mem_filterMap.1 hpr
        by_cases hconst : isConstCol kc.2 = true
        · simp only [hconst, if_true] at hkx
          cases h0 : kc.2[0]? with
          | none => simp [h0] at hkx
          | some x =>
            simp only [h0, Option.map_some, Option.some.injEq] at hkx
            subst hkx
            have hlen := halllen kc hkc
            have hxi : kc.2[i]? = some x := by
              have hlt : i < kc.2.length := by omega
              rw [List.getElem?_eq_getElem hlt]
              exact congrArg some (isConstCol_all hconst h0 _ (List.getElem_mem hlt))
            rcases hall kc hkc with hk | ⟨v', hv', hk⟩
            · exact Or.inl (Tbl.mem_row.2 ⟨kc.2, hk, hxi⟩)
            · rw [hk] at hxi
              have : x = v' := (List.mem_replicate.1 (List.mem_of_getElem? hxi)).2
              subst this
              exact Or.inr (Or.inr (Or.inr hv'))
        · simp [hconst] at hkx


/-! ### one step of a session -/

theorem mem_replaceAt {ws new : List (DS α)} {i : Nat} {x : DS α} (h : x ∈ replaceAt ws i new) :
    x ∈ ws ∨ x ∈ new := by
  unfold replaceAt at h
  simp only [List.mem_append] at h
  rcases h with (h | h) | h
  · exact Or.inl (List.mem_of_mem_take h)
  · exact Or.inr h
  · exact Or.inl (List.mem_of_mem_drop h)

/-- operations that keep every measurement value (all but time binning) -/
def keepsValues : Op → Prop
  | .binTime _ _ _ => False
  | _ => True

theorem replace_derives {ws new : List (DS α)} {i : Nat} {d : DS α} (hw : ∀ x ∈ ws, WFex x)
    (hd : ws[i]? = some d) (hnew : ∀ x ∈ new, Derives [d] x) :
    ∀ x ∈ replaceAt ws i new, Derives ws x := by
  intro x hx
  have hdm : d ∈ ws := List.mem_of_getElem? hd
  rcases mem_replaceAt hx with h | h
  · exact derives_self (hw x h) h
  · exact (hnew x h).mono (fun y hy => by
      have : y = d := by simpa using hy
      rw [this]; exact hdm)

theorem applyOp_derives [Add α] [Zero α] [Div α] [NatCast α] {ws ws' : List (DS α)} {o : Op}
    (hw : ∀ x ∈ ws, WFex x) (hk : keepsValues o) (h : applyOp ws o = some ws') :
    ∀ x ∈ ws', Derives ws x := by
  cases o with
  | copy i =>
    simp only [applyOp, Option.some.injEq] at h
    subst h
    exact fun x hx => derives_self (hw x hx) hx
  | pick i =>
    simp only [applyOp] at h
    cases hd : ws[i]? with
    | none => simp [hd] at h
    | some d =>
      simp only [hd, Option.map_some, Option.some.injEq] at h
      subst h
      intro x hx
      have : x = d := by simpa using hx
      rw [this]
      exact derives_self (hw d (List.mem_of_getElem? hd)) (List.mem_of_getElem? hd)
  | dup i =>
    simp only [applyOp] at h
    cases hd : ws[i]? with
    | none => simp [hd] at h
    | some d =>
      simp only [hd, Option.map_some, Option.some.injEq] at h
      subst h
      exact replace_derives hw hd (fun x hx => by
        have : x = d := by simpa using hx
        rw [this]; exact derives_self (hw d (List.mem_of_getElem? hd)) (by simp))
  | merge =>
    simp only [applyOp] at h
    split at h
    · rename_i hadm
      cases hm : merge ws with
      | none => simp [hm] at h
      | some m =>
        simp only [hm, Option.map_some, Option.some.injEq] at h
        subst h
        intro x hx
        have : x = m := by simpa using hx
        rw [this]
        exact mergeOp_derives hw hadm hm
    · simp at h
  | binTime i by_ bins => exact absurd hk (by simp [keepsValues])
  | splitObs i by_ =>
    simp only [applyOp] at h
    cases hd : ws[i]? with
    | none => simp [hd] at h
    | some d =>
      simp only [hd, Option.bind_some] at h
      cases hp : splitObs by_ d with
      | none => simp [hp] at h
      | some parts =>
        simp only [hp, Option.map_some, Option.some.injEq] at h
        subst h
        exact replace_derives hw hd (splitObs_derives (hw d (List.mem_of_getElem? hd)) hp)
  | splitChan i by_ =>
    simp only [applyOp] at h
    cases hd : ws[i]? with
    | none => simp [hd] at h
    | some d =>
      simp only [hd, Option.bind_some] at h
      cases hp : splitChan by_ d with
      | none => simp [hp] at h
      | some parts =>
        simp only [hp, Option.map_some, Option.some.injEq] at h
        subst h
        exact replace_derives hw hd (splitChan_derives (hw d (List.mem_of_getElem? hd)) hp)
  | splitTime i by_ =>
    simp only [applyOp] at h
    cases hd : ws[i]? with
    | none => simp [hd] at h
    | some d =>
      simp only [hd, Option.bind_some] at h
      cases hp : splitTime by_ d with
      | none => simp [hp] at h
      | some parts =>
        simp only [hp, Option.map_some, Option.some.injEq] at h
        subst h
        exact replace_derives hw hd (splitTime_derives (hw d (List.mem_of_getElem? hd)) hp)
  | subsetObs i by_ vals =>
    simp only [applyOp] at h
    cases hd : ws[i]? with
    | none => simp [hd] at h
    | some d =>
      simp only [hd, Option.bind_some] at h
      cases hp : subsetObs by_ vals d with
      | none => simp [hp] at h
      | some d' =>
        simp only [hp, Option.map_some, Option.some.injEq] at h
        subst h
        exact replace_derives hw hd (fun x hx => by
          have : x = d' := by simpa using hx
          rw [this]; exact subsetObs_derives (hw d (List.mem_of_getElem? hd)) hp)
  | subsetChan i by_ vals =>
    simp only [applyOp] at h
    cases hd : ws[i]? with
    | none => simp [hd] at h
    | some d =>
      simp only [hd, Option.bind_some] at h
      cases hp : subsetChan by_ vals d with
      | none => simp [hp] at h
      | some d' =>
        simp only [hp, Option.map_some, Option.some.injEq] at h
        subst h
        exact replace_derives hw hd (fun x hx => by
          have : x = d' := by simpa using hx
          rw [this]; exact subsetChan_derives (hw d (List.mem_of_getElem? hd)) hp)
  | subsetTime i by_ lo hi =>
    simp only [applyOp] at h
    cases hd : ws[i]? with
    | none => simp [hd] at h
    | some d =>
      simp only [hd, Option.bind_some] at h
      cases hp : subsetTime by_ lo hi d with
      | none => simp [hp] at h
      | some d' =>
        simp only [hp, Option.map_some, Option.some.injEq] at h
        subst h
        exact replace_derives hw hd (fun x hx => by
          have : x = d' := by simpa using hx
          rw [this]; exact subsetTime_derives (hw d (List.mem_of_getElem? hd)) hp)
  | sortBy i by_ =>
    simp only [applyOp] at h
    cases hd : ws[i]? with
    | none => simp [hd] at h
    | some d =>
      simp only [hd, Option.bind_some] at h
      cases hp : sortBy by_ d with
      | none => simp [hp] at h
      | some d' =>
        simp only [hp, Option.map_some, Option.some.injEq] at h
        subst h
        exact replace_derives hw hd (fun x hx => by
          have : x = d' := by simpa using hx
          rw [this]; exact sortBy_derives (hw d (List.mem_of_getElem? hd)) hp)
  | oddEven i by_ =>
    simp only [applyOp] at h
    cases hd : ws[i]? with
    | none => simp [hd] at h
    | some d =>
      simp only [hd, Option.bind_some] at h
      cases hp : oddEven by_ d with
      | none => simp [hp] at h
      | some pr =>
        simp only [hp, Option.map_some, Option.some.injEq] at h
        subst h
        obtain ⟨no, nc, nt, hwf⟩ := hw d (List.mem_of_getElem? hd)
        have := oddEven_same (a := pr.1) (b := pr.2) hwf (by simpa using hp)
        exact replace_derives hw hd (fun x hx => by
          simp only [List.mem_cons, List.not_mem_nil, or_false] at hx
          rcases hx with rfl | rfl
          · exact this.1.derives
          · exact this.2.derives)
  | nestedOddEven i l1 l2 =>
    simp only [applyOp] at h
    cases hd : ws[i]? with
    | none => simp [hd] at h
    | some d =>
      simp only [hd, Option.bind_some] at h
      cases hp : nestedOddEven l1 l2 d with
      | none => simp [hp] at h
      | some pr =>
        simp only [hp, Option.map_some, Option.some.injEq] at h
        subst h
        obtain ⟨no, nc, nt, hwf⟩ := hw d (List.mem_of_getElem? hd)
        have := nestedOddEven_same (a := pr.1) (b := pr.2) hwf (by simpa using hp)
        exact replace_derives hw hd (fun x hx => by
          simp only [List.mem_cons, List.not_mem_nil, or_false] at hx
          rcases hx with rfl | rfl
          · exact this.1.derives
          · exact this.2.derives)
  | timeAsObs i by_ =>
    simp only [applyOp] at h
    cases hd : ws[i]? with
    | none => simp [hd] at h
    | some d =>
      simp only [hd, Option.bind_some] at h
      cases hp : timeAsObs by_ d with
      | none => simp [hp] at h
      | some d' =>
        simp only [hp, Option.map_some, Option.some.injEq] at h
        subst h
        exact replace_derives hw hd (fun x hx => by
          have : x = d' := by simpa using hx
          rw [this]; exact timeAsObs_derives (hw d (List.mem_of_getElem? hd)) hp)
  | timeAsChan i =>
    simp only [applyOp] at h
    cases hd : ws[i]? with
    | none => simp [hd] at h
    | some d =>
      simp only [hd, Option.map_some, Option.some.injEq] at h
      subst h
      exact replace_derives hw hd (fun x hx => by
        have : x = timeAsChan d := by simpa using hx
        rw [this]; exact timeAsChan_derives (hw d (List.mem_of_getElem? hd)))
  | df i key =>
    simp only [applyOp] at h
    cases hd : ws[i]? with
    | none => simp [hd] at h
    | some d =>
      simp only [hd, Option.bind_some] at h
      split at h
      · cases hp : dfRoundTrip key d with
        | none => simp [hp] at h
        | some d' =>
          simp only [hp, Option.map_some, Option.some.injEq] at h
          subst h
          exact replace_derives hw hd (fun x hx => by
            have : x = d' := by simpa using hx
            rw [this]; exact dfRoundTrip_derives (hw d (List.mem_of_getElem? hd)) hp)
      · simp at h
  | dfDefault i key =>
    simp only [applyOp] at h
    cases hd : ws[i]? with
    | none => simp [hd] at h
    | some d =>
      simp only [hd, Option.bind_some] at h
      split at h
      · cases hp : dfRoundTrip key d with
        | none => simp [hp] at h
        | some d' =>
          simp only [hp, Option.map_some, Option.some.injEq] at h
          subst h
          exact replace_derives hw hd (fun x hx => by
            have : x = d' := by simpa using hx
            rw [this]; exact dfRoundTrip_derives (hw d (List.mem_of_getElem? hd)) hp)
      · simp at h

end Rsa.Lemmas.C11
