/-
  Helper lemmas for C03 (round 2): why the linear-CKA fast path of `_cosine_cov_weighted`
  (`sigma_k = None`) is the whitened cosine `r₁ᵀV⁻¹r₂ / √(r₁ᵀV⁻¹r₁ · r₂ᵀV⁻¹r₂)`.

  For `V = getV n none` (`V[p,q] = (c_p·c_q)²`, `c_p = e_i − e_j`) and any `s`:
    (A) `V s = dist (Lap s)`     — `Lap s = Σ_p s_p c_p c_pᵀ` (a weighted graph Laplacian),
                                    `dist M (k,l) = M_kk + M_ll − 2 M_kl`;
    (B) `Σ_p s_p · dist M p = ⟨M, Lap s⟩_F` for symmetric `M`;
    (C) `dist (centreKernel g) = dist g`  (double centring keeps the distances);
    (E) `⟨G, M⟩_F = −½ Σ_kl G_kl · dist M (k,l)` when the rows and columns of `G` sum to 0,
        so `⟨G, M⟩_F` depends on `M` only through its distances.
  Hence for `V s₂ = r₂`:  `r₁ᵀ s₂ = ⟨G₁, Lap s₂⟩_F = ⟨G₁, G₂⟩_F`, with `G_i` the centred
  kernels of the RDMs — the inner product the fast path computes (`dot_covWeighting`).
-/
import Rsa.Lemmas.C03Whiten
import Rsa.Lemmas.C10Tri
import Mathlib.Algebra.BigOperators.Field

set_option linter.unusedSectionVars false
set_option linter.unusedVariables false
set_option linter.unusedSimpArgs false

open Finset

namespace Rsa
namespace Compare

/-- squared distance of the pair `p` under the Gram matrix `M` -/
def distOf (M : ℕ → ℕ → ℝ) (p : ℕ × ℕ) : ℝ := M p.1 p.1 + M p.2 p.2 - 2 * M p.1 p.2

/-- `Σ_p s_p c_p c_pᵀ` for a list of (pair, weight) -/
def Lap (zs : List ((ℕ × ℕ) × ℝ)) (k l : ℕ) : ℝ :=
  (zs.map (fun z => z.2 * (contrast z.1 k * contrast z.1 l))).sum

/-- Frobenius inner product of the leading `n × n` blocks -/
def frob (n : ℕ) (M N : ℕ → ℕ → ℝ) : ℝ := ∑ k ∈ range n, ∑ l ∈ range n, M k l * N k l

theorem dot_map_left {β : Type} (f : β → ℝ) (l : List β) (s : List ℝ) :
    dot (l.map f) s = ((l.zip s).map (fun z => f z.1 * z.2)).sum := by
  induction l generalizing s with
  | nil => simp
  | cons a l ih => cases s with
    | nil => simp
    | cons b s => simp [ih]

theorem dot_append (a1 a2 b1 b2 : List ℝ) (h : a1.length = a2.length) :
    dot (a1 ++ b1) (a2 ++ b2) = dot a1 a2 + dot b1 b2 := by
  induction a1 generalizing a2 with
  | nil => cases a2 with
    | nil => simp
    | cons _ _ => simp at h
  | cons x a1 ih => cases a2 with
    | nil => simp at h
    | cons y a2 =>
      simp only [List.length_cons, Nat.add_right_cancel_iff] at h
      simp [ih a2 h, add_assoc]

theorem xi_none (q p : ℕ × ℕ) :
    xiSpec (SigmaK.none : SigmaK ℝ).entry q p = contrast p q.1 - contrast p q.2 := by
  simp only [xiSpec, SigmaK.entry, contrast]
  have e : ∀ a b : ℕ, (if a = b then (1 : ℝ) else 0) = if b = a then 1 else 0 := by
    intro a b; by_cases h : a = b <;> simp [h, eq_comm]
  rw [e q.1 p.1, e q.1 p.2, e q.2 p.1, e q.2 p.2]
  ring

theorem Lap_symm (zs : List ((ℕ × ℕ) × ℝ)) (k l : ℕ) : Lap zs k l = Lap zs l k := by
  unfold Lap
  congr 1
  apply List.map_congr_left
  intro z _
  ring

/-- (A) the distances of the Laplacian are the rows of `V` applied to the weights -/
theorem distOf_Lap (zs : List ((ℕ × ℕ) × ℝ)) (q : ℕ × ℕ) :
    distOf (Lap zs) q
      = (zs.map (fun z => (contrast z.1 q.1 - contrast z.1 q.2) *
          (contrast z.1 q.1 - contrast z.1 q.2) * z.2)).sum := by
  induction zs with
  | nil => simp [distOf, Lap]
  | cons z zs ih =>
    have h : distOf (Lap (z :: zs)) q = (contrast z.1 q.1 - contrast z.1 q.2) *
        (contrast z.1 q.1 - contrast z.1 q.2) * z.2 + distOf (Lap zs) q := by
      simp only [distOf, Lap, List.map_cons, List.sum_cons]
      ring
    rw [h, ih, List.map_cons, List.sum_cons]

/-- `V s` for `sigma_k = None` is the distance vector of the Laplacian of `s` -/
theorem matVec_getV_none (n : ℕ) (s : List ℝ) :
    matVec (getV n (SigmaK.none : SigmaK ℝ)) s
      = (pairs n).map (fun q => distOf (Lap ((pairs n).zip s)) q) := by
  rw [getV_eq_vSpec]
  unfold vSpec matVec
  rw [List.map_map]
  apply List.map_congr_left
  intro q _
  simp only [Function.comp_def]
  rw [dot_map_left, distOf_Lap]
  congr 1
  apply List.map_congr_left
  intro z _
  rw [xi_none]

theorem contrast_fsum (n : ℕ) (p : ℕ × ℕ) (h1 : p.1 < n) (h2 : p.2 < n) (f : ℕ → ℝ) :
    ∑ k ∈ range n, contrast p k * f k = f p.1 - f p.2 := by
  rw [← sum_range_map]
  exact contrast_sum_left n p h1 h2 f

theorem quad_contrast (n : ℕ) (p : ℕ × ℕ) (h1 : p.1 < n) (h2 : p.2 < n) (M : ℕ → ℕ → ℝ)
    (hM : ∀ i j, M i j = M j i) :
    ∑ k ∈ range n, ∑ l ∈ range n, M k l * (contrast p k * contrast p l) = distOf M p := by
  have inner : ∀ k, ∑ l ∈ range n, M k l * (contrast p k * contrast p l)
      = contrast p k * (M k p.1 - M k p.2) := by
    intro k
    rw [← contrast_fsum n p h1 h2 (fun l => M k l), Finset.mul_sum]
    apply Finset.sum_congr rfl
    intro l _
    ring
  simp only [inner]
  rw [contrast_fsum n p h1 h2 (fun k => M k p.1 - M k p.2)]
  unfold distOf
  rw [hM p.2 p.1]
  ring

/-- (B) -/
theorem sum_dist_eq_frob (n : ℕ) (M : ℕ → ℕ → ℝ) (hM : ∀ i j, M i j = M j i)
    (zs : List ((ℕ × ℕ) × ℝ)) (hz : ∀ z ∈ zs, z.1.1 < n ∧ z.1.2 < n) :
    (zs.map (fun z => z.2 * distOf M z.1)).sum = frob n M (Lap zs) := by
  induction zs with
  | nil => simp [frob, Lap]
  | cons z zs ih =>
    have hz' := hz z List.mem_cons_self
    have step : frob n M (Lap (z :: zs))
        = z.2 * (∑ k ∈ range n, ∑ l ∈ range n, M k l * (contrast z.1 k * contrast z.1 l))
          + frob n M (Lap zs) := by
      unfold frob
      simp only [Lap, List.map_cons, List.sum_cons, Finset.mul_sum, ← Finset.sum_add_distrib]
      apply Finset.sum_congr rfl
      intro k _
      apply Finset.sum_congr rfl
      intro l _
      ring
    rw [step, quad_contrast n z.1 hz'.1 hz'.2 M hM, List.map_cons, List.sum_cons,
      ih (fun w hw => hz w (List.mem_cons_of_mem _ hw))]

/-- (C) double centring does not change the distances -/
theorem distOf_centreKernel (n : ℕ) (g : ℕ → ℕ → ℝ) (p : ℕ × ℕ) :
    distOf (centreKernel n g) p = distOf g p := by
  unfold distOf centreKernel
  ring

theorem centreKernel_symm' (n : ℕ) (g : ℕ → ℕ → ℝ) (hg : ∀ i j, g i j = g j i) (i j : ℕ) :
    centreKernel n g i j = centreKernel n g j i := by
  unfold centreKernel
  rw [hg i j]
  ring

theorem centreKernel_col_sum' (n : ℕ) (hn : 0 < n) (g : ℕ → ℕ → ℝ) (j : ℕ) :
    ∑ i ∈ range n, centreKernel n g i j = 0 := by
  have hn' : (n : ℝ) ≠ 0 := by exact_mod_cast hn.ne'
  have e : ∀ i, centreKernel n g i j = g i j - colMean n g j - colMean n g i
      + ((List.range n).map (colMean n g)).sum / (n : ℝ) := fun i => rfl
  simp only [e, sum_range_map]
  rw [Finset.sum_add_distrib, Finset.sum_sub_distrib, Finset.sum_sub_distrib]
  simp only [Finset.sum_const, Finset.card_range, nsmul_eq_mul]
  have h1 : (n : ℝ) * colMean n g j = ∑ i ∈ Finset.range n, g i j := by
    unfold colMean; rw [sum_range_map]; field_simp
  rw [h1]
  field_simp
  ring

/-- (E) for a matrix `G` whose rows and columns sum to zero -/
theorem frob_centred (n : ℕ) (G M : ℕ → ℕ → ℝ)
    (hrow : ∀ k, ∑ l ∈ range n, G k l = 0) (hcol : ∀ l, ∑ k ∈ range n, G k l = 0) :
    frob n G M = -(1 / 2) * ∑ k ∈ range n, ∑ l ∈ range n, G k l * distOf M (k, l) := by
  have h1 : ∑ k ∈ range n, ∑ l ∈ range n, G k l * M k k = 0 := by
    apply Finset.sum_eq_zero
    intro k _
    rw [← Finset.sum_mul, hrow k, zero_mul]
  have h2 : ∑ k ∈ range n, ∑ l ∈ range n, G k l * M l l = 0 := by
    rw [Finset.sum_comm]
    apply Finset.sum_eq_zero
    intro l _
    rw [← Finset.sum_mul, hcol l, zero_mul]
  have h3 : ∑ k ∈ range n, ∑ l ∈ range n, G k l * distOf M (k, l)
      = ∑ k ∈ range n, ∑ l ∈ range n, G k l * M k k
        + ∑ k ∈ range n, ∑ l ∈ range n, G k l * M l l - 2 * frob n G M := by
    unfold frob distOf
    simp only [Finset.mul_sum, ← Finset.sum_add_distrib, ← Finset.sum_sub_distrib]
    apply Finset.sum_congr rfl
    intro k _
    apply Finset.sum_congr rfl
    intro l _
    ring
  rw [h3, h1, h2]
  ring

theorem mem_pairs_of_lt {n k l : ℕ} (hkl : k < l) (hl : l < n) : (k, l) ∈ pairs n :=
  List.mem_of_getElem? (pairs_getElem? n k l hkl hl)

/-- `⟨G, ·⟩` sees a symmetric matrix only through its distances on `pairs n` -/
theorem frob_congr_dist (n : ℕ) (G M M' : ℕ → ℕ → ℝ)
    (hrow : ∀ k, ∑ l ∈ range n, G k l = 0) (hcol : ∀ l, ∑ k ∈ range n, G k l = 0)
    (hM : ∀ i j, M i j = M j i) (hM' : ∀ i j, M' i j = M' j i)
    (hd : ∀ q ∈ pairs n, distOf M q = distOf M' q) : frob n G M = frob n G M' := by
  rw [frob_centred n G M hrow hcol, frob_centred n G M' hrow hcol]
  congr 1
  apply Finset.sum_congr rfl
  intro k hk
  apply Finset.sum_congr rfl
  intro l hl
  congr 1
  rcases lt_trichotomy k l with h | h | h
  · exact hd _ (mem_pairs_of_lt h (Finset.mem_range.mp hl))
  · subst h; unfold distOf; ring
  · have := hd _ (mem_pairs_of_lt h (Finset.mem_range.mp hk))
    unfold distOf at this ⊢
    simp only at this ⊢
    rw [hM k l, hM' k l]
    linarith

/-! ### sums over `pairs n` as double sums -/

theorem sum_pairsOf_append_singleton {β : Type} (g : β × β → ℝ) (l : List β) (a : β) :
    ((pairsOf (l ++ [a])).map g).sum
      = ((pairsOf l).map g).sum + (l.map (fun x => g (x, a))).sum := by
  induction l with
  | nil => simp [pairsOf]
  | cons x l ih =>
    simp only [List.cons_append, pairsOf, List.map_append, List.sum_append, List.map_map,
      Function.comp_def, List.map_cons, List.map_nil, List.sum_cons, List.sum_nil, ih]
    ring

theorem sum_pairs (n : ℕ) (F : ℕ × ℕ → ℝ) :
    ((pairs n).map F).sum = ∑ k ∈ range n, ∑ l ∈ range n, if k < l then F (k, l) else 0 := by
  induction n with
  | zero => simp [pairs, pairsOf]
  | succ n ih =>
    unfold pairs at ih ⊢
    rw [List.range_succ, sum_pairsOf_append_singleton, ih, sum_range_map]
    rw [Finset.sum_range_succ]
    have hlast : ∑ l ∈ range (n + 1), (if n < l then F (n, l) else 0) = 0 := by
      apply Finset.sum_eq_zero
      intro l hl
      have : ¬ n < l := by have := Finset.mem_range.mp hl; omega
      simp [this]
    rw [hlast, add_zero, ← Finset.sum_add_distrib]
    apply Finset.sum_congr rfl
    intro k hk
    rw [Finset.sum_range_succ]
    simp [Finset.mem_range.mp hk]

theorem sum_symm_split (n : ℕ) (F : ℕ → ℕ → ℝ) (hF : ∀ k l, F k l = F l k) :
    ∑ k ∈ range n, ∑ l ∈ range n, F k l
      = ∑ k ∈ range n, F k k + 2 * ∑ k ∈ range n, ∑ l ∈ range n, if k < l then F k l else 0 := by
  have hsplit : ∀ k l, F k l = (if k < l then F k l else 0) + (if k = l then F k l else 0)
      + (if l < k then F k l else 0) := by
    intro k l
    rcases lt_trichotomy k l with h | h | h
    · simp [h, h.ne, lt_asymm h]
    · subst h; simp
    · simp [h, h.ne', lt_asymm h]
  have hswap : ∑ k ∈ range n, ∑ l ∈ range n, (if l < k then F k l else 0)
      = ∑ k ∈ range n, ∑ l ∈ range n, if k < l then F k l else 0 := by
    rw [Finset.sum_comm]
    apply Finset.sum_congr rfl
    intro k _
    apply Finset.sum_congr rfl
    intro l _
    rw [hF l k]
  have hdiag : ∑ k ∈ range n, ∑ l ∈ range n, (if k = l then F k l else 0)
      = ∑ k ∈ range n, F k k := by
    apply Finset.sum_congr rfl
    intro k hk
    simp [Finset.sum_ite_eq, hk]
  calc ∑ k ∈ range n, ∑ l ∈ range n, F k l
      = ∑ k ∈ range n, ∑ l ∈ range n, ((if k < l then F k l else 0)
          + (if k = l then F k l else 0) + (if l < k then F k l else 0)) := by
        apply Finset.sum_congr rfl; intro k _; apply Finset.sum_congr rfl; intro l _
        exact hsplit k l
    _ = _ := by
        simp only [Finset.sum_add_distrib]
        rw [hswap, hdiag]
        ring

/-! ### the fast path computes the Frobenius inner product of the centred kernels -/

theorem dot_covWeighting (n : ℕ) (r1 r2 : List ℝ) :
    dot (covWeighting n r1) (covWeighting n r2)
      = frob n (centreKernel n (halfNeg n r1)) (centreKernel n (halfNeg n r2)) := by
  set G1 := centreKernel n (halfNeg n r1) with hG1
  set G2 := centreKernel n (halfNeg n r2) with hG2
  have hs1 : ∀ i j, G1 i j = G1 j i :=
    centreKernel_symm' n _ (fun i j => vecToMat_symm n _ _ _ i j)
  have hs2 : ∀ i j, G2 i j = G2 j i :=
    centreKernel_symm' n _ (fun i j => vecToMat_symm n _ _ _ i j)
  have h2 : Real.sqrt ((2 : ℕ) : ℝ) * Real.sqrt ((2 : ℕ) : ℝ) = 2 := by
    rw [Real.mul_self_sqrt (by positivity)]; norm_num
  unfold covWeighting
  simp only [hasSqrt_real]
  rw [dot_append _ _ _ _ (by simp), dot_map_map, dot_map_map, sum_pairs, sum_range_map]
  unfold frob
  rw [sum_symm_split n (fun k l => G1 k l * G2 k l) (fun k l => by rw [hs1 k l, hs2 k l]),
    add_comm, Finset.mul_sum]
  congr 1
  apply Finset.sum_congr rfl
  intro k _
  rw [Finset.mul_sum]
  apply Finset.sum_congr rfl
  intro l _
  by_cases h : k < l
  · simp only [h, if_true, ← hG1, ← hG2]
    calc G1 k l * Real.sqrt ((2 : ℕ) : ℝ) * (G2 k l * Real.sqrt ((2 : ℕ) : ℝ))
        = G1 k l * G2 k l * (Real.sqrt ((2 : ℕ) : ℝ) * Real.sqrt ((2 : ℕ) : ℝ)) := by ring
      _ = 2 * (G1 k l * G2 k l) := by rw [h2]; ring
  · simp [h]

/-- the RDM vector is `−2 ·` its half-negated square form read along `pairs n` -/
theorem vec_of_halfNeg (n : ℕ) (r : List ℝ) (hr : r.length = triLen n) :
    r = (pairs n).map (fun p => -2 * halfNeg n r p.1 p.2) := by
  have h := matToVec_vecToMat n (0 : ℝ) 0 (r.map (fun d => -d / ((2 : ℕ) : ℝ))) (by simpa using hr)
  unfold matToVec at h
  have h' : (pairs n).map (fun p => -2 * halfNeg n r p.1 p.2)
      = ((pairs n).map (fun p => vecToMat n (0 : ℝ) 0 (r.map (fun d => -d / ((2 : ℕ) : ℝ))) p.1 p.2)).map
          (fun x => -2 * x) := by
    rw [List.map_map]; rfl
  rw [h', h, List.map_map]
  conv_lhs => rw [← List.map_id r]
  apply List.map_congr_left
  intro d _
  simp only [Function.comp_def, id]
  push_cast
  ring

/-- **the key identity**: with `V = getV n none` and any `s₂` solving `V s₂ = r₂`,
    `r₁ᵀ s₂` is the inner product of the fast path's weighted kernel vectors -/
theorem dot_solution_eq_fast (n : ℕ) (hn : 0 < n) (r1 r2 s2 : List ℝ)
    (h1 : r1.length = triLen n) (h2 : r2.length = triLen n)
    (e2 : matVec (getV n (SigmaK.none : SigmaK ℝ)) s2 = r2) :
    dot r1 s2 = dot (covWeighting n r1) (covWeighting n r2) := by
  set g1 := halfNeg n r1 with hg1
  set g2 := halfNeg n r2 with hg2
  have sg1 : ∀ i j, g1 i j = g1 j i := fun i j => vecToMat_symm n _ _ _ i j
  have sg2 : ∀ i j, g2 i j = g2 j i := fun i j => vecToMat_symm n _ _ _ i j
  have dg1 : ∀ i, g1 i i = 0 := fun i => vecToMat_diag n _ _ _ i
  have dg2 : ∀ i, g2 i i = 0 := fun i => vecToMat_diag n _ _ _ i
  set G1 := centreKernel n g1 with hG1
  set G2 := centreKernel n g2 with hG2
  have sG1 := centreKernel_symm' n g1 sg1
  have sG2 := centreKernel_symm' n g2 sg2
  set zs := (pairs n).zip s2 with hzs
  -- r₁ p = dist G₁ p
  have hr1 : r1 = (pairs n).map (fun p => distOf G1 p) := by
    conv_lhs => rw [vec_of_halfNeg n r1 h1]
    apply List.map_congr_left
    intro p _
    rw [hG1, distOf_centreKernel]
    unfold distOf
    rw [← hg1, dg1, dg1]; ring
  -- dist (Lap s₂) = r₂ = dist G₂ on pairs n
  have hd : ∀ q ∈ pairs n, distOf (Lap zs) q = distOf G2 q := by
    have e := e2
    rw [matVec_getV_none] at e
    conv_rhs at e => rw [vec_of_halfNeg n r2 h2]
    intro q hq
    have := (List.map_inj_left.mp e) q hq
    rw [this, hG2, distOf_centreKernel]
    unfold distOf
    rw [← hg2, dg2, dg2]; ring
  have hzmem : ∀ z ∈ zs, z.1.1 < n ∧ z.1.2 < n := by
    intro z hz
    have := (List.of_mem_zip hz).1
    exact mem_pairs_lt this
  have hrow : ∀ k, ∑ l ∈ range n, G1 k l = 0 := by
    intro k
    rw [← centreKernel_col_sum' n hn g1 k]
    apply Finset.sum_congr rfl
    intro l _
    exact sG1 k l
  have hcol : ∀ l, ∑ k ∈ range n, G1 k l = 0 := fun l => centreKernel_col_sum' n hn g1 l
  calc dot r1 s2
      = (zs.map (fun z => z.2 * distOf G1 z.1)).sum := by
        conv_lhs => rw [hr1]
        rw [dot_map_left]
        congr 1
        apply List.map_congr_left
        intro z _
        ring
    _ = frob n G1 (Lap zs) := sum_dist_eq_frob n G1 sG1 zs hzmem
    _ = frob n G1 G2 := frob_congr_dist n G1 (Lap zs) G2 hrow hcol (Lap_symm zs) sG2 hd
    _ = dot (covWeighting n r1) (covWeighting n r2) := (dot_covWeighting n r1 r2).symm

/-! ### the leaf-dependent (as coded) centring equals the textbook double centring -/

theorem centreKernelCoded_eq (n : ℕ) (g : ℕ → ℕ → ℝ) (hs : ∀ i j, g i j = g j i)
    (hd : ∀ i, g i i = 0) : centreKernelCoded n g = centreKernel n g := by
  have hmm : Rsa.Gen.C03.ckaGrandMean
      (((pairs n).map (fun p => g p.1 p.2 * ((2 : ℕ) : ℝ))).sum) (n : ℝ)
      = ((List.range n).map (colMean n g)).sum / (n : ℝ) := by
    unfold Rsa.Gen.C03.ckaGrandMean colMean
    rw [sum_pairs, sum_range_map]
    simp only [sum_range_map]
    rw [← Finset.sum_div, div_div]
    congr 1
    have key : ∑ i ∈ range n, ∑ j ∈ range n, g j i
        = ∑ k ∈ range n, ∑ l ∈ range n, if k < l then g k l * ((2 : ℕ) : ℝ) else 0 := by
      have e : ∑ i ∈ range n, ∑ j ∈ range n, g j i = ∑ k ∈ range n, ∑ l ∈ range n, g k l := by
        apply Finset.sum_congr rfl; intro i _; apply Finset.sum_congr rfl; intro j _; exact hs j i
      rw [e, sum_symm_split n g hs]
      simp only [hd, Finset.sum_const_zero, zero_add, Finset.mul_sum]
      apply Finset.sum_congr rfl
      intro k _
      apply Finset.sum_congr rfl
      intro l _
      by_cases h : k < l
      · simp only [h, if_true]; push_cast; ring
      · simp [h]
    exact key.symm
  funext i j
  unfold centreKernelCoded centreKernel
  simp only [hmm]

theorem covWeightingCoded_eq (n : ℕ) (r : List ℝ) : covWeightingCoded n r = covWeighting n r := by
  unfold covWeightingCoded covWeighting
  rw [centreKernelCoded_eq n (halfNeg n r) (fun i j => vecToMat_symm n _ _ _ i j)
    (fun i => vecToMat_diag n _ _ _ i)]

theorem whitenedCosFastCoded_eq (n : ℕ) (r1 r2 : List ℝ) :
    whitenedCosFastCoded n r1 r2 = whitenedCosFast n r1 r2 := by
  unfold whitenedCosFastCoded whitenedCosFast
  rw [covWeightingCoded_eq, covWeightingCoded_eq]

theorem rhoACoded_eq (x y : List ℝ) : rhoACoded x y = rhoA x y := rfl

end Compare
end Rsa
