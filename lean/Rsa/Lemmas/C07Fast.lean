/-
  Helper lemmas for C07, part 9 (round 3): the code path `compare` really takes for
  `cosine_cov` / `corr_cov` with `sigma_k=None` — the linear-CKA shortcut (`_cov_weighting` +
  `_cosine`, C03's `whitenedCosFastCoded`) — is the cosine of the whitened form `xᵀV⁻¹y`
  (C03's `dot_solution_eq_fast`), for every number of conditions and through any solver.
-/
import Rsa.Lemmas.C07White
import Rsa.Lemmas.C03Cka
import Rsa.Lemmas.C03PosDef

set_option linter.unusedSectionVars false
set_option linter.unusedVariables false
set_option linter.unusedSimpArgs false

namespace Rsa.Ceiling
open Rsa Rsa.Compare

/-- the coded shortcut = cosine of the whitened form, for complete RDM vectors of `n ≥ 1` conditions -/
theorem fastCoded_eq_cosB (n : ℕ) (hn : 0 < n) {sol : List ℝ → List ℝ}
    (hs : IsSolver (getV n (SigmaK.none : SigmaK ℝ)) (triLen n) sol) (x y : List ℝ)
    (hx : x.length = triLen n) (hy : y.length = triLen n) :
    whitenedCosFastCoded n x y = cosB (wform sol) x y := by
  rw [whitenedCosFastCoded_eq]
  unfold whitenedCosFast cosB wform
  rw [cosine_eq_cosS, ← dot_solution_eq_fast n hn x y (sol y) hx hy (hs y hy).2,
    ← dot_solution_eq_fast n hn x x (sol x) hx hx (hs x hx).2,
    ← dot_solution_eq_fast n hn y y (sol y) hy hy (hs y hy).2]

theorem centreKernel_zero (n : ℕ) : centreKernel n (fun _ _ => (0 : ℝ)) = fun _ _ => 0 := by
  funext i j
  have hc : colMean n (fun _ _ => (0 : ℝ)) = fun _ => 0 := by
    funext k; simp [colMean]
  simp [centreKernel, hc]

theorem halfNeg_nil (n : ℕ) : halfNeg n ([] : List ℝ) = fun _ _ => 0 := by
  funext i j
  simp [halfNeg, vecToMat]

/-- an empty prediction (pool of no RDM) has similarity 0 under the shortcut, as under the V form -/
theorem fastCoded_nil_left (n : ℕ) (y : List ℝ) : whitenedCosFastCoded n [] y = 0 := by
  rw [whitenedCosFastCoded_eq]
  unfold whitenedCosFast
  have hz : dot (covWeighting n ([] : List ℝ)) (covWeighting n []) = 0 := by
    rw [dot_self_eq_sum_sq]
    apply List.sum_eq_zero
    intro x hx
    obtain ⟨a, ha, rfl⟩ := List.mem_map.mp hx
    have : a = 0 := by
      unfold covWeighting at ha
      rw [halfNeg_nil, centreKernel_zero] at ha
      simp only [zero_mul, List.mem_append, List.mem_map] at ha
      rcases ha with ⟨_, _, rfl⟩ | ⟨_, _, rfl⟩ <;> rfl
    rw [this, mul_zero]
  rw [cosine_eq_cosS, hz]
  unfold cosS
  simp

end Rsa.Ceiling
