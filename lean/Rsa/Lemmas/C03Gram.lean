/-
  Helper lemmas for C03 (round 3): for a pattern covariance given as a Gram matrix
  `Σ = A Aᵀ` (every positive semidefinite matrix is one) the covariance `V = Ξ ∘ Ξ` of the RDM
  entries is positive semidefinite, for every number of conditions (`vSpec_gram_psd`):
      `Ξ_pq = Σ_m u_p(m) u_q(m)` with `u_p = Aᵀ c_p`, hence
      `fᵀ V f = Σ_{m,m'} (Σ_p f_p u_p(m) u_p(m'))² ≥ 0`      (Schur product of a Gram matrix).
  Cauchy–Schwarz for a symmetric positive *semi*definite matrix (`Q_sq_le_psd`).
-/
import Rsa.Lemmas.C03PosDefVec

set_option linter.unusedVariables false
set_option linter.unusedSectionVars false
set_option linter.unusedSimpArgs false
open Finset Rsa Rsa.Compare

namespace Rsa.Compare

/-- `Σ = A Aᵀ` with `A` an `n × M` matrix -/
def gramOf (M : ℕ) (a : ℕ → ℕ → ℝ) (i j : ℕ) : ℝ := ∑ m ∈ range M, a i m * a j m

theorem gramOf_symm (M : ℕ) (a : ℕ → ℕ → ℝ) (i j : ℕ) : gramOf M a i j = gramOf M a j i := by
  unfold gramOf
  apply Finset.sum_congr rfl
  intro m _
  ring

theorem xiSpec_gram (M : ℕ) (a : ℕ → ℕ → ℝ) (p q : ℕ × ℕ) :
    xiSpec (gramOf M a) p q = ∑ m ∈ range M, (a p.1 m - a p.2 m) * (a q.1 m - a q.2 m) := by
  unfold xiSpec gramOf
  simp only [← Finset.sum_sub_distrib, ← Finset.sum_add_distrib]
  apply Finset.sum_congr rfl
  intro m _
  ring

theorem sum4_reorder (s t : Finset ℕ) (F : ℕ → ℕ → ℕ → ℕ → ℝ) :
    ∑ i ∈ s, ∑ j ∈ s, ∑ m ∈ t, ∑ m' ∈ t, F i j m m'
      = ∑ m ∈ t, ∑ m' ∈ t, ∑ i ∈ s, ∑ j ∈ s, F i j m m' := by
  calc ∑ i ∈ s, ∑ j ∈ s, ∑ m ∈ t, ∑ m' ∈ t, F i j m m'
      = ∑ i ∈ s, ∑ m ∈ t, ∑ j ∈ s, ∑ m' ∈ t, F i j m m' :=
        Finset.sum_congr rfl (fun i _ => Finset.sum_comm)
    _ = ∑ m ∈ t, ∑ i ∈ s, ∑ j ∈ s, ∑ m' ∈ t, F i j m m' := Finset.sum_comm
    _ = ∑ m ∈ t, ∑ i ∈ s, ∑ m' ∈ t, ∑ j ∈ s, F i j m m' :=
        Finset.sum_congr rfl (fun m _ => Finset.sum_congr rfl (fun i _ => Finset.sum_comm))
    _ = ∑ m ∈ t, ∑ m' ∈ t, ∑ i ∈ s, ∑ j ∈ s, F i j m m' :=
        Finset.sum_congr rfl (fun m _ => Finset.sum_comm)

/-- the Hadamard square of a Gram matrix is positive semidefinite -/
theorem quad_gram_nonneg (T M : ℕ) (w : ℕ → ℕ → ℝ) (f : ℕ → ℝ) :
    0 ≤ ∑ i ∈ range T, ∑ j ∈ range T,
      f i * ((∑ m ∈ range M, w i m * w j m) * (∑ m ∈ range M, w i m * w j m)) * f j := by
  have key : ∑ i ∈ range T, ∑ j ∈ range T,
      f i * ((∑ m ∈ range M, w i m * w j m) * (∑ m ∈ range M, w i m * w j m)) * f j
      = ∑ m ∈ range M, ∑ m' ∈ range M,
        (∑ i ∈ range T, f i * w i m * w i m') * (∑ i ∈ range T, f i * w i m * w i m') := by
    have l : ∀ i j, f i * ((∑ m ∈ range M, w i m * w j m) * (∑ m ∈ range M, w i m * w j m)) * f j
        = ∑ m ∈ range M, ∑ m' ∈ range M,
          (f i * w i m * w i m') * (f j * w j m * w j m') := by
      intro i j
      rw [Finset.sum_mul_sum, Finset.mul_sum, Finset.sum_mul]
      apply Finset.sum_congr rfl
      intro m _
      rw [Finset.mul_sum, Finset.sum_mul]
      apply Finset.sum_congr rfl
      intro m' _
      ring
    simp only [l]
    rw [sum4_reorder]
    apply Finset.sum_congr rfl
    intro m _
    apply Finset.sum_congr rfl
    intro m' _
    rw [Finset.sum_mul_sum]
  rw [key]
  exact Finset.sum_nonneg (fun m _ => Finset.sum_nonneg (fun m' _ => mul_self_nonneg _))

/-- `V` as defined from a Gram pattern covariance is positive semidefinite, for every `n` -/
theorem vSpec_gram_psd (n M : ℕ) (a : ℕ → ℕ → ℝ) (f : ℕ → ℝ) :
    0 ≤ Q (vSpec n (gramOf M a)) (triLen n) f f := by
  have hlen : (pairs n).length = triLen n := pairs_length n
  let w : ℕ → ℕ → ℝ := fun i m =>
    a ((pairs n).getD i (0, 0)).1 m - a ((pairs n).getD i (0, 0)).2 m
  have e : Q (vSpec n (gramOf M a)) (triLen n) f f
      = ∑ i ∈ range (triLen n), ∑ j ∈ range (triLen n),
        f i * ((∑ m ∈ range M, w i m * w j m) * (∑ m ∈ range M, w i m * w j m)) * f j := by
    unfold Q
    apply Finset.sum_congr rfl
    intro i hi
    apply Finset.sum_congr rfl
    intro j hj
    have hi' : i < (pairs n).length := hlen ▸ Finset.mem_range.mp hi
    have hj' : j < (pairs n).length := hlen ▸ Finset.mem_range.mp hj
    rw [ent_vSpec n _ i j hi' hj', xiSpec_gram]
    simp only [w, List.getD_eq_getElem _ _ hi', List.getD_eq_getElem _ _ hj']
  rw [e]
  exact quad_gram_nonneg _ _ _ _

/-- `V` (list of rows) is an `m × m` symmetric positive semidefinite matrix -/
structure SymPosSemidef (V : List (List ℝ)) (m : ℕ) : Prop where
  rows : V.length = m
  cols : ∀ r ∈ V, r.length = m
  symm : ∀ i j, i < m → j < m → ent V i j = ent V j i
  nonneg : ∀ f : ℕ → ℝ, 0 ≤ Q V m f f

theorem SymPosDef.toSemidef {V : List (List ℝ)} {m : ℕ} (h : SymPosDef V m) : SymPosSemidef V m :=
  ⟨h.rows, h.cols, h.symm, Q_nonneg h⟩

/-- Cauchy–Schwarz for a symmetric positive semidefinite matrix -/
theorem Q_sq_le_psd {V : List (List ℝ)} {m : ℕ} (h : SymPosSemidef V m) (f g : ℕ → ℝ) :
    Q V m f g * Q V m f g ≤ Q V m f f * Q V m g g := by
  have hd := discrim_le_zero (a := Q V m g g) (b := 2 * Q V m f g) (c := Q V m f f) (fun t => by
    have := h.nonneg (fun i => f i + t * g i)
    rw [Q_add_smul, ← Q_symm h.symm f g] at this
    linarith)
  unfold discrim at hd
  nlinarith

/-- the covariance `V` of the RDM entries for a Gram pattern covariance `Σ = A Aᵀ` -/
theorem symPosSemidef_vSpec_gram (n M : ℕ) (a : ℕ → ℕ → ℝ) :
    SymPosSemidef (vSpec n (gramOf M a)) (triLen n) := by
  have hlen : (pairs n).length = triLen n := pairs_length n
  refine ⟨by simp [vSpec, hlen], ?_, ?_, vSpec_gram_psd n M a⟩
  · intro r hr
    simp only [vSpec, List.mem_map] at hr
    obtain ⟨p, _, rfl⟩ := hr
    simp [hlen]
  · intro i j hi hj
    rw [ent_vSpec n _ i j (hlen ▸ hi) (hlen ▸ hj), ent_vSpec n _ j i (hlen ▸ hj) (hlen ▸ hi),
      xiSpec_symm _ (gramOf_symm M a)]

end Rsa.Compare
