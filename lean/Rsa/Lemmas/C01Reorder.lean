/- helper lemmas for C01: pair enumeration, `squareform` contract, `reorder`, sorting -/
import Mathlib.Data.List.Basic
import Mathlib.Data.List.Nodup
import Mathlib.Data.List.Perm.Basic
import Mathlib.Data.List.Sort
import Rsa.Core.Calc
import Rsa.Lemmas.Tri
import Rsa.Lemmas.C01Label

set_option linter.unusedSectionVars false
set_option linter.unusedVariables false

namespace Rsa

open Rsa.Calc

/-- members of `pairsOf l` are exactly the pairs (earlier element, later element) -/
theorem mem_pairsOf_iff {β : Type} {l : List β} {p : β × β} :
    p ∈ pairsOf l ↔ ∃ i j : Nat, i < j ∧ l[i]? = some p.1 ∧ l[j]? = some p.2 := by
  induction l with
  | nil => simp [pairsOf]
  | cons x xs ih =>
    simp only [pairsOf, List.mem_append, List.mem_map, ih]
    constructor
    · rintro (⟨y, hy, rfl⟩ | ⟨i, j, hij, hi, hj⟩)
      · obtain ⟨k, hk⟩ := List.getElem?_of_mem hy
        exact ⟨0, k + 1, Nat.succ_pos _, by simp, by simpa using hk⟩
      · exact ⟨i + 1, j + 1, Nat.succ_lt_succ hij, by simpa using hi, by simpa using hj⟩
    · rintro ⟨i, j, hij, hi, hj⟩
      cases i with
      | zero =>
        cases j with
        | zero => omega
        | succ j' =>
          left
          simp only [List.getElem?_cons_zero, Option.some.injEq, List.getElem?_cons_succ] at hi hj
          exact ⟨p.2, List.mem_of_getElem? hj, by rw [hi]⟩
      | succ i' =>
        cases j with
        | zero => omega
        | succ j' =>
          right
          simp only [List.getElem?_cons_succ] at hi hj
          exact ⟨i', j', by omega, hi, hj⟩

theorem pairsOf_ne_of_nodup {β : Type} {l : List β} (h : l.Nodup) {p : β × β}
    (hp : p ∈ pairsOf l) : p.1 ≠ p.2 := by
  obtain ⟨i, j, hij, hi, hj⟩ := mem_pairsOf_iff.mp hp
  obtain ⟨hi', hi⟩ := List.getElem?_eq_some_iff.mp hi
  obtain ⟨hj', hj⟩ := List.getElem?_eq_some_iff.mp hj
  intro he
  have : i = j := (h.getElem_inj_iff).mp (by rw [hi, hj, he])
  omega

theorem lookup_map_of_inj {β κ ν : Type} [BEq κ] [LawfulBEq κ] (l : List β) (key : β → κ)
    (val : β → ν) (x : β) (hx : x ∈ l) (hinj : ∀ y ∈ l, key y = key x → val y = val x) :
    (l.map (fun y => (key y, val y))).lookup (key x) = some (val x) := by
  induction l with
  | nil => simp at hx
  | cons y ys ih =>
    simp only [List.map_cons, List.lookup_cons]
    by_cases hk : key x = key y
    · simp [hk, hinj y List.mem_cons_self hk.symm]
    · have hne : (key x == key y) = false := by simpa using hk
      rw [hne]
      have hxy : x ∈ ys := by
        rcases List.mem_cons.mp hx with rfl | h
        · exact absurd rfl hk
        · exact h
      exact ih hxy (fun z hz => hinj z (List.mem_cons_of_mem _ hz))

theorem zipIdx_nodup {β : Type} (l : List β) : l.zipIdx.Nodup := by
  apply List.Nodup.of_map Prod.snd
  rw [List.zipIdx_map_snd]
  exact List.nodup_range'

section sq
variable {α : Type} [Zero α] {L : Type}

/-- the vector of `us` with entries `g`, zipped with the index pairs -/
theorem pairs_zip_vec (us : List L) (g : L → L → α) :
    (pairs us.length).zip ((pairsOf us).map (fun p => g p.1 p.2)) =
      (pairsOf us.zipIdx).map (fun pq => ((pq.1.2, pq.2.2), g pq.1.1 pq.2.1)) := by
  have h1 : pairs us.length = (pairsOf us.zipIdx).map (fun pq => (pq.1.2, pq.2.2)) := by
    rw [pairs, ← pairsOf_map]
    congr 1
    rw [List.zipIdx_map_snd, List.range_eq_range']
  have h2 : (pairsOf us).map (fun p => g p.1 p.2) =
      (pairsOf us.zipIdx).map (fun pq => g pq.1.1 pq.2.1) := by
    conv_lhs => rw [← List.zipIdx_map_fst 0 us, pairsOf_map]
    rw [List.map_map]
    rfl
  rw [h1, h2, List.zip_map']

theorem lookup_pairs_vec (us : List L) (g : L → L → α) {i j : Nat} {a b : L} (hij : i < j)
    (hi : us[i]? = some a) (hj : us[j]? = some b) :
    ((pairs us.length).zip ((pairsOf us).map (fun p => g p.1 p.2))).lookup (i, j) =
      some (g a b) := by
  rw [pairs_zip_vec]
  have hmem : ((a, i), (b, j)) ∈ pairsOf us.zipIdx := by
    refine mem_pairsOf_iff.mpr ⟨i, j, hij, ?_, ?_⟩
    · simp [List.getElem?_zipIdx, hi]
    · simp [List.getElem?_zipIdx, hj]
  refine lookup_map_of_inj (pairsOf us.zipIdx) (fun pq => (pq.1.2, pq.2.2))
    (fun pq => g pq.1.1 pq.2.1) ((a, i), (b, j)) hmem ?_
  intro pq hpq hkey
  simp only [Prod.mk.injEq] at hkey
  obtain ⟨h1, h2⟩ := mem_pairsOf hpq
  have e1 := List.mem_zipIdx_iff_getElem?.mp h1
  have e2 := List.mem_zipIdx_iff_getElem?.mp h2
  rw [hkey.1, hi] at e1
  rw [hkey.2, hj] at e2
  simp only [Option.some.injEq] at e1 e2
  simp [← e1, ← e2]

/-- contract of `squareform` applied to a labelled vector with symmetric entries -/
theorem sqLookup_spec (us : List L) (g : L → L → α) (hsym : ∀ a b, g a b = g b a)
    {i j : Nat} {a b : L} (hij : i ≠ j) (hi : us[i]? = some a) (hj : us[j]? = some b) :
    sqLookup us.length ((pairsOf us).map (fun p => g p.1 p.2)) i j = g a b := by
  unfold sqLookup
  rw [if_neg hij]
  rcases Nat.lt_or_gt_of_ne hij with h | h
  · rw [Nat.min_eq_left (Nat.le_of_lt h), Nat.max_eq_right (Nat.le_of_lt h),
      lookup_pairs_vec us g h hi hj]
    rfl
  · rw [Nat.min_eq_right (Nat.le_of_lt h), Nat.max_eq_left (Nat.le_of_lt h),
      lookup_pairs_vec us g h hj hi, hsym a b]
    rfl

/-- `reorder` with an index list given as the second components of `S`, all of whose
    members are (label, its position) -/
theorem reorderList_spec (us : List L) (S : List (L × Nat))
    (hS : ∀ p ∈ S, us[p.2]? = some p.1) :
    reorderList (S.map (fun p => p.2)) us = S.map (fun p => p.1) := by
  unfold reorderList
  rw [List.filterMap_map]
  rw [List.filterMap_congr (g := fun p => some p.1) (fun p hp => by simpa using hS p hp)]
  show List.filterMap (some ∘ fun p : L × Nat => p.1) S = _
  rw [List.filterMap_eq_map]

theorem reorderVec_spec (us : List L) (g : L → L → α) (hsym : ∀ a b, g a b = g b a)
    (S : List (L × Nat)) (hS : ∀ p ∈ S, us[p.2]? = some p.1) (hnd : (S.map (fun p => p.2)).Nodup) :
    reorderVec us.length (S.map (fun p => p.2)) ((pairsOf us).map (fun p => g p.1 p.2)) =
      (pairsOf (S.map (fun p => p.1))).map (fun p => g p.1 p.2) := by
  unfold reorderVec
  rw [pairsOf_map, pairsOf_map, List.map_map, List.map_map]
  apply List.map_congr_left
  intro pq hpq
  simp only [Function.comp_apply]
  obtain ⟨h1, h2⟩ := mem_pairsOf hpq
  have hne : pq.1.2 ≠ pq.2.2 := by
    have := pairsOf_ne_of_nodup hnd (p := (pq.1.2, pq.2.2)) (by
      rw [pairsOf_map]; exact List.mem_map.mpr ⟨pq, hpq, rfl⟩)
    exact this
  exact sqLookup_spec us g hsym hne (hS _ h1) (hS _ h2)

end sq

section sort
variable {L : Type} [DecidableEq L]

/-- the (label, index) pairs sorted by label -/
def sortedPairs (le : L → L → Bool) (us : List L) : List (L × Nat) :=
  us.zipIdx.mergeSort (fun a b => le a.1 b.1)

theorem argsortBy_eq (le : L → L → Bool) (us : List L) :
    argsortBy le us = (sortedPairs le us).map (fun p => p.2) := rfl

theorem sortedPairs_mem (le : L → L → Bool) (us : List L) :
    ∀ p ∈ sortedPairs le us, us[p.2]? = some p.1 := by
  intro p hp
  have : p ∈ us.zipIdx := (List.mergeSort_perm _ _).mem_iff.mp hp
  exact List.mem_zipIdx_iff_getElem?.mp this

theorem sortedPairs_snd_nodup (le : L → L → Bool) (us : List L) :
    ((sortedPairs le us).map (fun p => p.2)).Nodup := by
  have hp : ((sortedPairs le us).map (fun p => p.2)).Perm (us.zipIdx.map (fun p => p.2)) :=
    (List.mergeSort_perm _ _).map _
  refine hp.nodup_iff.mpr ?_
  have := List.zipIdx_map_snd 0 us
  rw [show (us.zipIdx.map fun p => p.2) = List.range' 0 us.length from this]
  exact List.nodup_range'

theorem sortedPairs_fst (le : L → L → Bool) (us : List L) :
    (sortedPairs le us).map (fun p => p.1) = us.mergeSort le := by
  unfold sortedPairs
  rw [List.map_mergeSort (s := le) (f := fun p : L × Nat => p.1) (fun a _ b _ => rfl)]
  congr 1
  exact List.zipIdx_map_fst 0 us

end sort

end Rsa
