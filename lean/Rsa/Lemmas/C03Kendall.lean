/-
  Helper lemmas for C03, Kendall part (reusable by C07 / C17):
    * a permutation of the conditions / entries permutes the unordered pairs
      (`pairsOf_perm_map_symm`), hence every count of a symmetric relation over pairs is
      permutation invariant;
    * each pair of entries falls in exactly one of the classes concordant, discordant,
      tied in x only, tied in y only, tied in both (`pair_classes_count`).
-/
import Mathlib.Algebra.Order.Field.Basic
import Mathlib.Data.List.Perm.Basic
import Mathlib.Tactic.Linarith
import Mathlib.Tactic.Ring
import Rsa.Core.Compare
import Rsa.Lemmas.Tri

set_option linter.unusedSectionVars false
set_option linter.unusedVariables false
set_option linter.unusedSimpArgs false

namespace Rsa

/-- permuting a list permutes its unordered pairs: for a symmetric `f` the values over all
    pairs are the same up to order -/
theorem pairsOf_perm_map_symm {β γ : Type} (f : β → β → γ) (hf : ∀ a b, f a b = f b a)
    {l l' : List β} (h : l.Perm l') :
    ((pairsOf l).map (fun p => f p.1 p.2)).Perm ((pairsOf l').map (fun p => f p.1 p.2)) := by
  induction h with
  | nil => exact List.Perm.refl _
  | cons x h ih =>
    simp only [pairsOf, List.map_append, List.map_map, Function.comp_def]
    exact List.Perm.append (h.map _) ih
  | swap x y l =>
    simp only [pairsOf, List.map_append, List.map_map, Function.comp_def, List.map_cons,
      List.cons_append]
    rw [hf y x]
    apply List.Perm.cons
    rw [← List.append_assoc, ← List.append_assoc]
    exact List.Perm.append_right _ List.perm_append_comm
  | trans _ _ ih1 ih2 => exact ih1.trans ih2

namespace Compare

theorem countPairs_eq_countP_map {β : Type} (r : β → β → Bool) (l : List β) :
    countPairs r l = ((pairsOf l).map (fun p => r p.1 p.2)).countP id := by
  simp [countPairs, List.countP_map, Function.comp_def]

/-- counts of a symmetric relation over all pairs are permutation invariant -/
theorem countPairs_perm {β : Type} (r : β → β → Bool) (hr : ∀ a b, r a b = r b a)
    {l l' : List β} (h : l.Perm l') : countPairs r l = countPairs r l' := by
  rw [countPairs_eq_countP_map, countPairs_eq_countP_map]
  exact (pairsOf_perm_map_symm r hr h).countP_eq _

theorem countPairs_map {β γ : Type} (r : γ → γ → Bool) (g : β → γ) (l : List β) :
    countPairs r (l.map g) = countPairs (fun a b => r (g a) (g b)) l := by
  simp [countPairs, pairsOf_map, List.countP_map, Function.comp_def]

theorem countPairs_le_length {β : Type} (r : β → β → Bool) (l : List β) :
    countPairs r l ≤ triLen l.length := by
  unfold countPairs
  calc _ ≤ (pairsOf l).length := List.countP_le_length
    _ = _ := by rw [pairsOf_length]; rfl

section classes
variable {K : Type} [LinearOrder K]

theorem concordant_symm (p q : K × K) : concordant p q = concordant q p := by
  simp [concordant, Bool.or_comm]
theorem discordant_symm (p q : K × K) : discordant p q = discordant q p := by
  simp [discordant, Bool.or_comm]
theorem tieX_symm (p q : K × K) : tieX p q = tieX q p := by
  simp [tieX, tiedB, Bool.and_comm]
theorem tieY_symm (p q : K × K) : tieY p q = tieY q p := by
  simp [tieY, tiedB, Bool.and_comm]
theorem tieXY_symm (p q : K × K) : tieXY p q = tieXY q p := by
  simp [tieXY, tiedB, Bool.and_comm]

theorem tiedB_iff (a b : K) : tiedB a b = true ↔ a = b := by
  simp only [tiedB, Bool.and_eq_true, Bool.not_eq_true', decide_eq_false_iff_not, not_lt]
  exact ⟨fun h => le_antisymm h.2 h.1, fun h => ⟨h.ge, h.le⟩⟩

/-- one pair of entries: exactly one of the five classes -/
theorem pair_class (p q : K × K) :
    (if concordant p q then 1 else 0) + (if discordant p q then 1 else 0)
      + (if tieX p q then 1 else 0) + (if tieY p q then 1 else 0)
    = 1 + (if tieXY p q then 1 else 0) := by
  obtain ⟨a, b⟩ := p
  obtain ⟨c, d⟩ := q
  by_cases h1 : a < c <;> by_cases h1' : c < a <;> by_cases h2 : b < d <;> by_cases h2' : d < b <;>
    first
    | exact absurd h1' (lt_asymm h1)
    | exact absurd h2' (lt_asymm h2)
    | simp [concordant, discordant, tieX, tieY, tieXY, tiedB, h1, h1', h2, h2']

/-- one pair: concordant or discordant pairs are not tied in x (resp. y) -/
theorem pair_class_x (p q : K × K) :
    (if concordant p q then 1 else 0) + (if discordant p q then 1 else 0)
      + (if tieX p q then 1 else 0) ≤ 1 := by
  obtain ⟨a, b⟩ := p
  obtain ⟨c, d⟩ := q
  by_cases h1 : a < c <;> by_cases h1' : c < a <;> by_cases h2 : b < d <;> by_cases h2' : d < b <;>
    first
    | exact absurd h1' (lt_asymm h1)
    | exact absurd h2' (lt_asymm h2)
    | simp [concordant, discordant, tieX, tiedB, h1, h1', h2, h2']

theorem pair_class_y (p q : K × K) :
    (if concordant p q then 1 else 0) + (if discordant p q then 1 else 0)
      + (if tieY p q then 1 else 0) ≤ 1 := by
  obtain ⟨a, b⟩ := p
  obtain ⟨c, d⟩ := q
  by_cases h1 : a < c <;> by_cases h1' : c < a <;> by_cases h2 : b < d <;> by_cases h2' : d < b <;>
    first
    | exact absurd h1' (lt_asymm h1)
    | exact absurd h2' (lt_asymm h2)
    | simp [concordant, discordant, tieY, tiedB, h1, h1', h2, h2']

/-- all pairs: `con + dis + xtie + ytie = tot + ntie` -/
theorem pair_classes_count (l : List (K × K)) :
    countPairs concordant l + countPairs discordant l + countPairs tieX l + countPairs tieY l
      = triLen l.length + countPairs tieXY l := by
  have hlen : triLen l.length = (pairsOf l).length := by rw [pairsOf_length]; rfl
  rw [hlen]
  unfold countPairs
  generalize pairsOf l = L
  induction L with
  | nil => simp
  | cons pq L ih =>
    simp only [List.countP_cons, List.length_cons]
    have := pair_class pq.1 pq.2
    omega

theorem pair_classes_x (l : List (K × K)) :
    countPairs concordant l + countPairs discordant l + countPairs tieX l ≤ triLen l.length := by
  have hlen : triLen l.length = (pairsOf l).length := by rw [pairsOf_length]; rfl
  rw [hlen]
  unfold countPairs
  generalize pairsOf l = L
  induction L with
  | nil => simp
  | cons pq L ih =>
    simp only [List.countP_cons, List.length_cons]
    have := pair_class_x pq.1 pq.2
    omega

theorem pair_classes_y (l : List (K × K)) :
    countPairs concordant l + countPairs discordant l + countPairs tieY l ≤ triLen l.length := by
  have hlen : triLen l.length = (pairsOf l).length := by rw [pairsOf_length]; rfl
  rw [hlen]
  unfold countPairs
  generalize pairsOf l = L
  induction L with
  | nil => simp
  | cons pq L ih =>
    simp only [List.countP_cons, List.length_cons]
    have := pair_class_y pq.1 pq.2
    omega

end classes

theorem tauTot_eq (n : Nat) : Rsa.Gen.C03.tauTot n = triLen n := rfl

theorem castInt_eq {K : Type} [Ring K] (z : Int) : (castInt z : K) = (z : K) := by
  cases z with
  | ofNat n => simp [castInt]
  | negSucc n => simp [castInt, Int.negSucc_eq]

end Compare
end Rsa
