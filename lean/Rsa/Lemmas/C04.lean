/- helper lemmas for property C04 (evaluation routines), about `Rsa.Core.Eval` -/
import Mathlib.Data.List.Basic
import Mathlib.Data.List.Count
import Mathlib.Data.List.Nodup
import Mathlib.Data.List.Range
import Mathlib.Data.List.Perm.Basic
import Mathlib.Data.List.Sort
import Mathlib.Data.Finset.Card
import Rsa.Core.Eval
import Rsa.Lemmas.Tri
import Rsa.Lemmas.C09
import Rsa.Lemmas.C05

set_option linter.unusedSectionVars false
set_option linter.unusedVariables false
set_option linter.unusedSimpArgs false

namespace Rsa.Eval

open Rsa Rsa.Boot

variable {α β : Type}

/-! ### small list facts -/

theorem dropNone_map_some (l : List α) : dropNone (l.map some) = l := by
  induction l with
  | nil => rfl
  | cons x xs ih => simpa [dropNone] using ih

theorem pick_map (f : α → β) (l : List α) (sel : List Nat) :
    pick (l.map f) sel = (pick l sel).map f := by
  unfold pick
  rw [List.map_filterMap]
  apply List.filterMap_congr
  intro i _
  simp [List.getElem?_map]

theorem mem_pick {l : List α} {sel : List Nat} {a : α} :
    a ∈ pick l sel ↔ ∃ i ∈ sel, l[i]? = some a := by
  simp [pick, List.mem_filterMap]

/-- re-indexing by the positions that satisfy a predicate is filtering -/
theorem pick_filter_range (l : List Nat) (q : Nat → Bool) :
    pick l ((List.range l.length).filter (fun i => q (l.getD i 0))) = l.filter q := by
  induction l using List.reverseRecOn with
  | nil => simp [pick]
  | append_singleton xs x ih =>
    rw [List.length_append, List.length_singleton, List.range_succ, List.filter_append,
      List.filter_append]
    have h1 : (List.range xs.length).filter (fun i => q ((xs ++ [x]).getD i 0)) =
        (List.range xs.length).filter (fun i => q (xs.getD i 0)) := by
      apply List.filter_congr
      intro i hi
      rw [List.mem_range] at hi
      simp [List.getD_eq_getElem?_getD, List.getElem?_append_left hi]
    have h2 : pick (xs ++ [x]) ((List.range xs.length).filter (fun i => q (xs.getD i 0))) =
        pick xs ((List.range xs.length).filter (fun i => q (xs.getD i 0))) := by
      unfold pick
      apply List.filterMap_congr
      intro i hi
      rw [List.mem_filter, List.mem_range] at hi
      simp [List.getElem?_append_left hi.1]
    have hx : (xs ++ [x]).getD xs.length 0 = x := by
      simp [List.getD_eq_getElem?_getD]
    unfold pick at *
    rw [List.filterMap_append, h1]
    have := h2
    unfold pick at this
    rw [this, ih]
    by_cases hq : q x = true
    · simp [List.filter_cons, hx, hq]
    · have hq' : q x = false := by simpa using hq
      simp [List.filter_cons, hx, hq']

/-- two ascending lists with the same multiplicities are equal -/
theorem eq_of_sorted_of_count {l1 l2 : List Nat} (h1 : l1.Pairwise (· ≤ ·))
    (h2 : l2.Pairwise (· ≤ ·)) (hc : ∀ a, l1.count a = l2.count a) : l1 = l2 :=
  List.Perm.eq_of_pairwise (le := fun a b : Nat => a ≤ b)
    (fun a b _ _ hab hba => Nat.le_antisymm hab hba) h1 h2 (List.perm_iff_count.mpr hc)

/-! ### `restrict` -/

theorem restrict_eq (n : Nat) (sel : List Nat) (w : List α) :
    restrict n sel w =
      (pairsOf sel).map (fun p => vecToMat n none none (w.map some) p.1 p.2) :=
  subVec_eq n sel _

theorem restrict_length (n : Nat) (sel : List Nat) (w : List α) :
    (restrict n sel w).length = triLen sel.length :=
  subVec_length n sel _

/-- square form of a complete vector: `none` exactly on the diagonal -/
theorem vecToMat_some (n a b : Nat) (w : List α) (hw : w.length = triLen n) (ha : a < n)
    (hb : b < n) (hab : a ≠ b) :
    vecToMat n none none (w.map some) a b = w[triIdx n (min a b) (max a b)]? := by
  unfold vecToMat
  rcases Nat.lt_or_gt_of_ne hab with h | h
  · have hi : triIdx n a b < w.length := hw ▸ triIdx_lt n a b h hb
    simp [hab, h, Nat.min_eq_left (Nat.le_of_lt h), Nat.max_eq_right (Nat.le_of_lt h),
      List.getD_eq_getElem?_getD, List.getElem?_map, List.getElem?_eq_getElem hi]
  · have hi : triIdx n b a < w.length := hw ▸ triIdx_lt n b a h ha
    have h' : ¬ a < b := by omega
    simp [hab, h', Nat.min_eq_right (Nat.le_of_lt h), Nat.max_eq_left (Nat.le_of_lt h),
      List.getD_eq_getElem?_getD, List.getElem?_map, List.getElem?_eq_getElem hi]

theorem vecToMat_diag (n a : Nat) (w : List (Option α)) : vecToMat n none none w a a = none := by
  simp [vecToMat]

theorem vecToMat_isSome (n a b : Nat) (w : List α) (hw : w.length = triLen n) (ha : a < n)
    (hb : b < n) : (vecToMat n none none (w.map some) a b).isSome = decide (a ≠ b) := by
  by_cases hab : a = b
  · subst hab; simp [vecToMat_diag]
  · rw [vecToMat_some n a b w hw ha hb hab]
    have hlt : triIdx n (min a b) (max a b) < w.length := by
      rw [hw]
      apply triIdx_lt
      · rcases Nat.lt_or_gt_of_ne hab with h | h
        · rw [Nat.min_eq_left (Nat.le_of_lt h), Nat.max_eq_right (Nat.le_of_lt h)]; exact h
        · rw [Nat.min_eq_right (Nat.le_of_lt h), Nat.max_eq_left (Nat.le_of_lt h)]; exact h
      · exact Nat.max_lt.mpr ⟨ha, hb⟩
    simp [List.getElem?_eq_getElem hlt, hab]

/-- the NaN pattern of a restricted vector depends on the selection only -/
theorem restrict_mask (n : Nat) (sel : List Nat) (w : List α) (hw : w.length = triLen n)
    (hs : ∀ c ∈ sel, c < n) :
    (restrict n sel w).map Option.isSome = (pairsOf sel).map (fun p => decide (p.1 ≠ p.2)) := by
  rw [restrict_eq, List.map_map]
  apply List.map_congr_left
  intro p hp
  have := mem_pairsOf hp
  exact vecToMat_isSome n p.1 p.2 w hw (hs _ this.1) (hs _ this.2)

theorem restrict_congr (n : Nat) (sel : List Nat) (w w' : List α)
    (h : ∀ a ∈ sel, ∀ b ∈ sel, vecToMat n none none (w.map some) a b =
      vecToMat n none none (w'.map some) a b) :
    restrict n sel w = restrict n sel w' := by
  rw [restrict_eq, restrict_eq]
  apply List.map_congr_left
  intro p hp
  have := mem_pairsOf hp
  exact h _ this.1 _ this.2

/-! ### every position of the pair enumeration is the condensed index of its pair -/

theorem pairsOf_getElem?_inv (l : List β) (k : Nat) (p : β × β) (h : (pairsOf l)[k]? = some p) :
    ∃ i j, ∃ (hij : i < j) (hj : j < l.length),
      p = (l[i]'(by omega), l[j]) ∧ triIdx l.length i j = k := by
  induction l generalizing k with
  | nil => simp [pairsOf] at h
  | cons x xs ih =>
    rw [pairsOf] at h
    by_cases hk : k < xs.length
    · rw [List.getElem?_append_left (by simpa using hk)] at h
      simp only [List.getElem?_map, List.getElem?_eq_getElem hk, Option.map_some,
        Option.some.injEq] at h
      refine ⟨0, k + 1, by omega, by simp; omega, ?_, ?_⟩
      · simp [← h]
      · simp [triIdx]
    · rw [List.getElem?_append_right (by simpa using Nat.le_of_not_lt hk)] at h
      simp only [List.length_map] at h
      obtain ⟨i, j, hij, hj, hp, ht⟩ := ih (k - xs.length) h
      refine ⟨i + 1, j + 1, by omega, by simp; omega, ?_, ?_⟩
      · simp [hp]
      · have hta : triIdx (xs.length + 1) (i + 1) (j + 1) = xs.length + triIdx xs.length i j := by
          unfold triIdx
          have := tri_arith xs.length i (by omega)
          have e : j + 1 - (i + 1) - 1 = j - i - 1 := by omega
          rw [e, this]; omega
        simp only [List.length_cons]
        rw [hta, ht]; omega

/-- restricting a complete vector to all conditions in their order changes nothing -/
theorem restrict_range (n : Nat) (w : List α) (hw : w.length = triLen n) :
    restrict n (List.range n) w = w.map some := by
  apply List.ext_getElem?
  intro k
  rw [restrict_eq, List.getElem?_map, List.getElem?_map]
  by_cases hk : k < triLen n
  · have hlen : k < (pairsOf (List.range n)).length := by
      have := pairs_length n; unfold pairs at this; omega
    obtain ⟨i, j, hij, hj, hp, ht⟩ :=
      pairsOf_getElem?_inv (List.range n) k _ (List.getElem?_eq_getElem hlen)
    simp only [List.length_range] at hj ht
    rw [List.getElem?_eq_getElem hlen, hp]
    simp only [List.getElem_range, Option.map_some]
    rw [vecToMat_some n i j w hw (by omega) hj (by omega),
      Nat.min_eq_left (Nat.le_of_lt hij), Nat.max_eq_right (Nat.le_of_lt hij), ht]
    have : k < w.length := by omega
    simp [List.getElem?_eq_getElem this]
  · have h1 : (pairsOf (List.range n)).length ≤ k := by
      have := pairs_length n; unfold pairs at this; omega
    have h2 : w.length ≤ k := by omega
    simp [List.getElem?_eq_none h1, List.getElem?_eq_none h2]

/-! ### parts of a derived object, in terms of the data -/

theorem compose_conds_some (d : Data α) (sv : View) (sub : Bool) (rv : Option (List Nat))
    (vals : List Nat) :
    (compose sv (Rsa.Folds.mkPart (objOf d sv) sub rv (some vals))).conds =
      sv.conds.filter (fun c => vals.contains (d.pdesc.getD c 0)) :=
  pick_filter_range sv.conds (fun c => vals.contains (d.pdesc.getD c 0))

theorem compose_rows_desc (d : Data α) (sv : View) (p : Rsa.Folds.Part) {a : Nat}
    (ha : a ∈ (compose sv p).rows) :
    ∃ x ∈ p.rows, (objOf d sv).rdesc x = d.rdesc.getD a 0 := by
  obtain ⟨x, hx, hxa⟩ := mem_pick.mp ha
  refine ⟨x, hx, ?_⟩
  simp [objOf, List.getD_eq_getElem?_getD, hxa]

theorem compose_conds_desc (d : Data α) (sv : View) (p : Rsa.Folds.Part) {a : Nat}
    (ha : a ∈ (compose sv p).conds) :
    ∃ x ∈ p.conds, (objOf d sv).pdesc x = d.pdesc.getD a 0 := by
  obtain ⟨x, hx, hxa⟩ := mem_pick.mp ha
  refine ⟨x, hx, ?_⟩
  simp [objOf, List.getD_eq_getElem?_getD, hxa]

/-- expanding the test values with the bootstrap multiplicities and selecting on the data is
    the same as keeping, of the bootstrap selection, the conditions whose group is a test value -/
theorem patSelection_concat (desc pi vals : List Nat) (hv : vals.Nodup) :
    patSelection desc (Rsa.Folds.concatSampling pi vals) =
      (patSelection desc pi).filter (fun c => vals.contains (desc.getD c 0)) := by
  apply eq_of_sorted_of_count (patSelection_sorted _ _)
    ((patSelection_sorted desc pi).filter _)
  intro a
  by_cases ha : a < desc.length
  · rw [count_patSelection _ _ a ha, Rsa.Folds.count_concatSampling pi hv]
    have hg : desc.getD a 0 = desc[a] := by
      simp [List.getD_eq_getElem?_getD, List.getElem?_eq_getElem ha]
    by_cases hm : desc[a] ∈ vals
    · rw [if_pos hm, List.count_filter (by rw [hg]; simpa using hm), count_patSelection _ _ a ha]
    · rw [if_neg hm]
      symm
      rw [List.count_eq_zero, List.mem_filter]
      rintro ⟨_, h⟩
      rw [hg] at h
      exact hm (by simpa using h)
  · have h1 : a ∉ patSelection desc (Rsa.Folds.concatSampling pi vals) :=
      fun h => ha (lt_of_mem_patSelection h)
    have h2 : a ∉ (patSelection desc pi).filter (fun c => vals.contains (desc.getD c 0)) :=
      fun h => ha (lt_of_mem_patSelection (List.mem_filter.mp h).1)
    rw [List.count_eq_zero.mpr h1, List.count_eq_zero.mpr h2]

/-- all positions, ascending, is what `subsample_pattern` selects for `np.unique(descriptor)` -/
theorem patSelection_uniq (desc : List Nat) :
    patSelection desc (uniq natLe desc) = List.range desc.length := by
  apply eq_of_sorted_of_count (patSelection_sorted _ _)
  · exact (List.pairwise_lt_range (n := desc.length)).imp (fun h => Nat.le_of_lt h)
  intro a
  by_cases ha : a < desc.length
  · rw [count_patSelection _ _ a ha, List.count_eq_one_of_mem (nodup_uniq _ _)
      (mem_uniq.mpr (List.getElem_mem ha))]
    exact (List.count_eq_one_of_mem List.nodup_range (List.mem_range.mpr ha)).symm
  · have h1 : a ∉ patSelection desc (uniq natLe desc) := fun h => ha (lt_of_mem_patSelection h)
    have h2 : a ∉ List.range desc.length := fun h => ha (List.mem_range.mp h)
    rw [List.count_eq_zero.mpr h1, List.count_eq_zero.mpr h2]

/-! ### columns of observations -/

section num
variable {α : Type} [Add α] [Sub α] [Mul α] [Div α] [Neg α] [Zero α] [One α] [NatCast α]
  [LT α] [DecidableLT α] [LE α] [DecidableLE α] [Max α] [Min α]

theorem column_eq_some_iff (obs : List (List (Option α))) (a : Nat) (x : List α) :
    column obs a = some x ↔
      (∀ r ∈ obs, (r.getD a none).isSome) ∧ x = dropNone (obs.map (fun r => r.getD a none)) := by
  unfold column
  simp only []
  constructor
  · intro h
    split at h
    · rename_i hall
      refine ⟨?_, by simpa using h.symm⟩
      intro r hr
      simpa using List.all_eq_true.mp hall _ (List.mem_map_of_mem hr)
    · cases h
  · rintro ⟨hall, rfl⟩
    rw [if_pos]
    apply List.all_eq_true.mpr
    intro e he
    obtain ⟨r, hr, rfl⟩ := List.mem_map.mp he
    exact hall r hr

theorem range_map_getElem? {β : Type} (l : List β) :
    (List.range l.length).map (fun r => l[r]?) = l.map some := by
  apply List.ext_getElem?
  intro k
  by_cases hk : k < l.length
  · simp [List.getElem?_map, List.getElem?_range hk, List.getElem?_eq_getElem hk]
  · have h1 : l.length ≤ k := Nat.le_of_not_lt hk
    simp [List.getElem?_map, List.getElem?_eq_none, h1]

theorem fixed_column (m : List α → List α → α) (d : Data α) (preds : List (List α)) (a : Nat)
    (pa : List α) (ha : preds[a]? = some pa) :
    column ((List.range d.vecs.length).map (fun r =>
      (preds.map (fun p => d.vecs.map (fun v => m p v))).map (fun row => row[r]?))) a =
      some (d.vecs.map (fun v => m pa v)) := by
  have hcol : ((List.range d.vecs.length).map (fun r =>
      (preds.map (fun p => d.vecs.map (fun v => m p v))).map (fun row => row[r]?))).map
        (fun r => r.getD a none) = (d.vecs.map (fun v => m pa v)).map some := by
    rw [List.map_map, ← range_map_getElem? (d.vecs.map (fun v => m pa v)), List.length_map]
    apply List.map_congr_left
    intro r _
    simp [List.getD_eq_getElem?_getD, List.getElem?_map, ha]
  rw [column_eq_some_iff]
  rw [hcol]
  refine ⟨?_, (dropNone_map_some _).symm⟩
  intro r hr
  have : r.getD a none ∈ (d.vecs.map (fun v => m pa v)).map some := by
    rw [← hcol]; exact List.mem_map_of_mem hr
  obtain ⟨x, _, hx⟩ := List.mem_map.mp this
  rw [← hx]; rfl

end num


/-! ### what the regenerated decision leaves say today (round 3)

Each lemma unfolds a definition of `Rsa.Gen.C04` that `harness/leaves/C04.py` cuts out of the
current text of `inference/evaluate.py`; an edit of the test there (`>=` into `>`, another
constant, a dropped conjunct) makes the lemma — and every property theorem using it — fail. -/

theorem usableBoot_iff (bt : BootType) (n : Nat) :
    usableBoot bt n = true ↔ (bt = .rdm ∨ 3 ≤ n) := by
  cases bt <;>
    simp only [usableBoot, Rsa.Gen.C04.usableBootstrap, Rsa.Gen.C04.usableBootstrapPattern,
      beq_iff_eq, reduceCtorEq, false_or, true_or] <;>
    (try split) <;> simp_all

theorem foldNaN_iff (f : FoldV) :
    foldNaN f = true ↔ (f.train.rows.length = 0 ∨ f.test.rows.length = 0 ∨
      f.train.conds.length ≤ 2 ∨ f.test.conds.length ≤ 2) := by
  simp only [foldNaN, Rsa.Gen.C04.foldNan, beq_iff_eq]
  split <;> simp_all

theorem ncByFolds_iff (kr kp : Nat) : ncByFolds kr kp = true ↔ (1 < kr ∨ 1 < kp) := by
  simp only [ncByFolds, Rsa.Gen.C04.ncDispatchCv, beq_iff_eq]
  split <;> simp_all

theorem ncByFoldsRandom_iff (nr np : Nat) : ncByFoldsRandom nr np = true ↔ (0 < nr ∨ 0 < np) := by
  simp only [ncByFoldsRandom, Rsa.Gen.C04.ncDispatchRandom, beq_iff_eq]
  split <;> simp_all

theorem cvUsable_iff (kr kp : Nat) (ri pi : List Nat) :
    cvUsable kr kp ri pi = true ↔ (kr ≤ nUnique ri ∧ 3 * kp ≤ nUnique pi) := by
  simp only [cvUsable, Rsa.Gen.C04.usableCv, beq_iff_eq]
  split <;> simp_all

theorem dualUsable_eq_cvUsable (kr kp : Nat) (ri pi : List Nat) :
    dualUsable kr kp ri pi = cvUsable kr kp ri pi := by
  simp only [dualUsable, cvUsable, Rsa.Gen.C04.usableDual, Rsa.Gen.C04.usableCv]

theorem randomUsable_iff (nr np : Nat) (ri pi : List Nat) :
    randomUsable nr np ri pi = true ↔ (nr < nUnique ri ∧ 3 + np ≤ nUnique pi) := by
  simp only [randomUsable, Rsa.Gen.C04.usableRandom, beq_iff_eq]
  split <;> simp_all

theorem corrOn_iff (uc : Bool) (nCv : Nat) :
    (corrOnCv uc nCv = true ↔ (uc = true ∧ 1 < nCv)) ∧
    (corrOnDual uc nCv = true ↔ (uc = true ∧ 1 < nCv)) ∧
    (corrOnRandom uc nCv = true ↔ (uc = true ∧ 1 < nCv)) := by
  refine ⟨?_, ?_, ?_⟩ <;> cases uc <;>
    simp only [corrOnCv, corrOnDual, corrOnRandom, Rsa.Gen.C04.correctionOnCv,
      Rsa.Gen.C04.correctionOnDual, Rsa.Gen.C04.correctionOnRandom, beq_iff_eq] <;>
    (try split) <;> simp_all

theorem fixedCovDefined_iff (n : Nat) : fixedCovDefined n = true ↔ 1 < n := by
  simp only [fixedCovDefined, Rsa.Gen.C04.fixedHasCov, beq_iff_eq]
  split <;> simp_all

theorem dualOptions_eq (kr kp nCv : Nat) (uc : Bool) :
    dualOptions kr kp nCv uc = if kr = 1 ∧ kp = 1 then (1, false) else (nCv, uc) := by
  simp only [dualOptions, Rsa.Gen.C04.dualNoCv]
  by_cases h : kr = 1 ∧ kp = 1 <;> simp [h]

end Rsa.Eval
