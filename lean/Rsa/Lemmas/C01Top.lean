/- helper lemmas for C01 (round 3): call layer — dispatch, option forwarding, descriptor merge -/
import Mathlib.Data.List.Basic
import Mathlib.Data.List.Nodup
import Mathlib.Algebra.Order.Field.Basic
import Mathlib.Tactic.Ring
import Mathlib.Tactic.FieldSimp
import Rsa.Core.C01Top
import Rsa.Lemmas.C01Label
import Rsa.Lemmas.C01Build
import Rsa.Lemmas.C01Calc

set_option linter.unusedSectionVars false
set_option linter.unusedVariables false

namespace Rsa.Calc

open Rsa

theorem b2n_beq_one (b : Bool) : (b2n b == 1) = b := by cases b <;> rfl

section disp
variable {K : Type} [Field K] [LinearOrder K] [IsStrictOrderedRing K]

/-- the correlation estimator on rows centred by `_parse_input` = the model's `corrMat` -/
theorem corrMatRaw_centre (P : Nat) (sqrt : K → K) (M : List (Row K)) :
    corrMatRaw P sqrt (M.map (centreC P)) = corrMat P sqrt M := by
  unfold corrMatRaw corrMat
  simp only [List.map_map]
  rfl

end disp

/-! ### `flatMap` indexing with offsets -/

theorem flatMap_getElem?_offset {β γ : Type} (f : β → List γ) (xs : List β) (k : Nat) (x : β)
    (hk : xs[k]? = some x) (j : Nat) (hj : j < (f x).length) :
    (xs.flatMap f)[((xs.take k).map (fun y => (f y).length)).sum + j]? = (f x)[j]? := by
  induction xs generalizing k with
  | nil => simp at hk
  | cons y ys ih =>
    cases k with
    | zero =>
      simp only [List.getElem?_cons_zero, Option.some.injEq] at hk
      subst hk
      simp only [List.take_zero, List.map_nil, List.sum_nil, Nat.zero_add, List.flatMap_cons]
      rw [List.getElem?_append_left hj]
    | succ k =>
      simp only [List.getElem?_cons_succ] at hk
      simp only [List.take_succ_cons, List.map_cons, List.sum_cons, List.flatMap_cons]
      rw [Nat.add_assoc, List.getElem?_append_right (Nat.le_add_right _ _), Nat.add_sub_cancel_left]
      exact ih k hk

section pat
variable {L : Type} [DecidableEq L] {D : Type} [DecidableEq D]

theorem propagate_of_nodup {lab : List L} {dv : List D} (hnd : lab.Nodup)
    (hlen : dv.length = lab.length) : propagate lab dv = some dv := by
  rw [propagate_eq_some, uniqueFirst_of_nodup hnd]
  apply List.ext_getElem (by simp [hlen])
  intro i h1 h2
  simp only [List.getElem_map]
  have hi : i < lab.length := by simpa using h1
  have hi' : i < dv.length := by simpa using h2
  apply sharedValue_complete
  · exact ⟨(lab[i], dv[i]), List.mem_iff_getElem.mpr ⟨i, by simp [hi, hi'], by simp⟩, rfl⟩
  · intro q hq hqu
    obtain ⟨j, hj, rfl⟩ := List.mem_iff_getElem.mp hq
    simp only [List.getElem_zip] at hqu ⊢
    have hj1 : j < lab.length := by simp at hj; exact hj.1
    have : j = i := (List.Nodup.getElem_inj_iff hnd).mp hqu
    subst this
    rfl

theorem buildPat_eq_propagate (lab : List L) (dv : List D) (hlen : dv.length = lab.length) :
    buildPat lab dv = propagate lab dv := by
  unfold buildPat Rsa.Gen.C01.averagingOccurred
  by_cases h : (uniqueFirst lab).length = lab.length
  · have hu : uniqueFirst lab = lab := (uniqueFirst_sublist lab).eq_of_length h
    have hnd : lab.Nodup := hu ▸ nodup_uniqueFirst lab
    simp [h, propagate_of_nodup hnd hlen]
  · simp [h]

end pat

/-! ### association lists, `mergeStacks` -/

theorem lookup_keys_map {V : Type} (us : List String) (f : String → V) (n : String) :
    (us.map (fun m => (m, f m))).lookup n = if n ∈ us then some (f n) else none := by
  induction us with
  | nil => simp
  | cons u us ih =>
    simp only [List.map_cons, List.lookup_cons, List.mem_cons]
    by_cases h : n = u
    · subst h; simp
    · have : (n == u) = false := by simpa using h
      rw [this, ih]
      simp [h]

theorem mem_of_lookup {V : Type} {d : List (String × V)} {n : String} {v : V}
    (h : d.lookup n = some v) : (n, v) ∈ d := by
  induction d with
  | nil => simp at h
  | cons p ps ih =>
    rw [List.lookup_cons] at h
    by_cases e : n = p.1
    · have : (n == p.1) = true := by simpa using e
      rw [this] at h
      simp only [Option.some.injEq] at h
      subst h
      subst e
      exact List.mem_cons_self
    · have : (n == p.1) = false := by simpa using e
      rw [this] at h
      exact List.mem_cons_of_mem _ (ih h)

/-- all columns of a stack have one entry per RDM -/
def StacksWF {V : Type} (st : List (Nat × List (String × List (Option V)))) : Prop :=
  ∀ s ∈ st, ∀ p ∈ s.2, p.2.length = s.1

theorem mergeStacks_col {V : Type} (st : List (Nat × List (String × List (Option V))))
    (hwf : StacksWF st) (k : Nat) (s : Nat × List (String × List (Option V)))
    (hk : st[k]? = some s) (j : Nat) (hj : j < s.1) (n : String) :
    (∀ col, (mergeStacks st).lookup n = some col →
      col.length = (st.map (fun s => s.1)).sum ∧
      col[((st.take k).map (fun s => s.1)).sum + j]? =
        some (match s.2.lookup n with
          | none => none
          | some c => (c[j]?).getD none)) ∧
    (∀ c, s.2.lookup n = some c → ∃ col, (mergeStacks st).lookup n = some col) := by
  set f : (Nat × List (String × List (Option V))) → List (Option V) :=
    fun s => (s.2.lookup n).getD (List.replicate s.1 none) with hf
  have hlen : ∀ s ∈ st, (f s).length = s.1 := by
    intro s hs
    simp only [hf]
    cases hl : s.2.lookup n with
    | none => simp
    | some c => simpa using hwf s hs _ (mem_of_lookup hl)
  unfold mergeStacks
  rw [lookup_keys_map]
  constructor
  · intro col hcol
    split at hcol
    · simp only [Option.some.injEq] at hcol
      subst hcol
      constructor
      · rw [List.length_flatMap]
        congr 1
        exact List.map_congr_left hlen
      · have hs : s ∈ st := List.mem_of_getElem? hk
        have e : (st.take k).map (fun s => s.1) = (st.take k).map (fun y => (f y).length) :=
          List.map_congr_left (fun y hy => (hlen y (List.mem_of_mem_take hy)).symm)
        rw [e, flatMap_getElem?_offset f st k s hk j (by rw [hlen s hs]; exact hj)]
        simp only [hf]
        cases hl : s.2.lookup n with
        | none => simp [hj]
        | some c =>
          have hc : c.length = s.1 := hwf s hs _ (mem_of_lookup hl)
          have hj' : j < c.length := by rw [hc]; exact hj
          simp [hj']
    · simp at hcol
  · intro c hc
    have hs : s ∈ st := List.mem_of_getElem? hk
    have hmem : n ∈ uniqueFirst (st.flatMap (fun s => s.2.map (fun p => p.1))) := by
      rw [mem_uniqueFirst, List.mem_flatMap]
      exact ⟨s, hs, List.mem_map.mpr ⟨(n, c), mem_of_lookup hc, rfl⟩⟩
    rw [if_pos hmem]
    exact ⟨_, rfl⟩


theorem lookup_map_snd {V W : Type} (d : List (String × V)) (g : V → W) (n : String) :
    (d.map (fun p => (p.1, g p.2))).lookup n = (d.lookup n).map g := by
  induction d with
  | nil => simp
  | cons p ps ih =>
    obtain ⟨k, v⟩ := p
    simp only [List.map_cons, List.lookup_cons]
    cases (n == k) <;> simp [ih]

theorem lookup_filter_ne {V : Type} (d : List (String × V)) (t n : String) (h : n ≠ t) :
    (d.filter (fun p => p.1 != t)).lookup n = d.lookup n := by
  induction d with
  | nil => simp
  | cons p ps ih =>
    obtain ⟨k, v⟩ := p
    by_cases e : k = t
    · subst e
      have hne : (n == k) = false := by simpa using h
      simp [List.filter_cons, List.lookup_cons, hne, ih]
    · have : (k != t) = true := by simpa using e
      simp only [List.filter_cons, this, if_true, List.lookup_cons, ih]

theorem setCol_lookup_self {V : Type} (d : List (String × V)) (t : String) (c : V) :
    (setCol d t c).lookup t = some c := by
  simp [setCol, List.lookup_cons]

theorem setCol_lookup_ne {V : Type} (d : List (String × V)) (t n : String) (c : V) (h : n ≠ t) :
    (setCol d t c).lookup n = d.lookup n := by
  have : (n == t) = false := by simpa using h
  simp only [setCol, List.lookup_cons, this]
  exact lookup_filter_ne d t n h

/-- `from_partials` looks only at the labels and the vector of each RDM -/
theorem fromPartials_congr {α : Type} [Zero α] {L : Type} [DecidableEq L] {D D' : Type}
    (rs : List (Rdm α L D)) (rs' : List (Rdm α L D'))
    (h : rs.map (fun r => (r.labels, r.vec)) = rs'.map (fun r => (r.labels, r.vec))) :
    fromPartials rs = fromPartials rs' := by
  have key : ∀ {E : Type} (qs : List (Rdm α L E)), fromPartials qs =
      (uniqueFirst ((qs.map (fun r => (r.labels, r.vec))).flatMap (fun q => q.1)),
       (qs.map (fun r => (r.labels, r.vec))).map (fun q =>
         (pairsOf (uniqueFirst ((qs.map (fun r => (r.labels, r.vec))).flatMap (fun q => q.1)))).map
           (fun p => if p.1 ∈ q.1 ∧ p.2 ∈ q.1 then
             some (sqLookup q.1.length q.2 (q.1.idxOf p.1) (q.1.idxOf p.2)) else none))) := by
    intro E qs
    simp only [fromPartials, List.flatMap_map, List.map_map, Function.comp_def]
  rw [key rs, key rs', h]

/-! ### further list plumbing -/

section more
variable {K : Type} [Field K] [LinearOrder K] [IsStrictOrderedRing K]

theorem map_zipIdx_fst {β γ : Type} (h : β → γ) (l : List β) :
    l.zipIdx.map (fun dk => h dk.1) = l.map h := by
  rw [show (fun dk : β × Nat => h dk.1) = h ∘ Prod.fst from rfl, ← List.map_map,
    List.zipIdx_map_fst]


theorem mem_of_mem_zipIdx {β : Type} {l : List β} {dk : β × Nat} (h : dk ∈ l.zipIdx) :
    dk.1 ∈ l := by
  have := List.mem_map_of_mem (f := Prod.fst) h
  rwa [List.zipIdx_map_fst] at this


theorem lookup_some_of_mem_keys {V : Type} {d : List (String × V)} {n : String}
    (h : n ∈ d.map (fun p => p.1)) : ∃ v, d.lookup n = some v := by
  induction d with
  | nil => simp at h
  | cons p ps ih =>
    obtain ⟨k, v⟩ := p
    rw [List.lookup_cons]
    by_cases e : n = k
    · subst e; exact ⟨v, by simp⟩
    · have hne : (n == k) = false := by simpa using e
      rw [hne]
      simp only [List.map_cons, List.mem_cons] at h
      rcases h with h | h
      · exact absurd h e
      · exact ih h


theorem mergeStacks_single {V : Type} (X : List (String × List (Option V))) (n : String) :
    (mergeStacks [((1 : Nat), X)]).lookup n = X.lookup n := by
  unfold mergeStacks
  rw [lookup_keys_map]
  simp only [List.flatMap_cons, List.flatMap_nil, List.append_nil, mem_uniqueFirst]
  by_cases h : n ∈ X.map (fun p => p.1)
  · obtain ⟨v, hv⟩ := lookup_some_of_mem_keys h
    simp [h, hv]
  · rw [if_neg h]
    cases hl : X.lookup n with
    | none => rfl
    | some c => exact absurd (List.mem_map.mpr ⟨(n, c), mem_of_lookup hl, rfl⟩) h


theorem sum_map_const_one {β : Type} (l : List β) : (l.map (fun _ => (1 : Nat))).sum = l.length := by
  induction l with
  | nil => rfl
  | cons x xs ih => simp [ih, Nat.add_comm]


theorem rowOfList_cast (r : List Int) :
    rowOfList (r.map (fun i => (Int.cast i : K))) = fun c => (Int.cast (intRow r c) : K) := by
  funext c
  simp only [rowOfList, intRow, Array.getD_eq_getD_getElem?, List.getElem?_toArray,
    List.getElem?_map]
  cases r[c]? <;> simp


theorem zip_filterMap_map {β γ : Type} (h : β → γ) (X : List β) (inv : List Nat) (i : Nat) :
    ((X.map h).zip inv).filterMap (fun p => if p.2 = i then some p.1 else none) =
      ((X.zip inv).filterMap (fun p => if p.2 = i then some p.1 else none)).map h := by
  induction X generalizing inv with
  | nil => simp
  | cons x xs ih =>
    cases inv with
    | nil => simp
    | cons j js =>
      simp only [List.map_cons, List.zip_cons_cons, List.filterMap_cons]
      by_cases e : j = i <;> simp [e, ih]


end more

end Rsa.Calc
