/- C10 helper lemmas: the invariant holds initially and is preserved by every step -/
import Rsa.Lemmas.C10Ops

set_option linter.unusedSectionVars false
set_option linter.unusedVariables false
set_option linter.unusedSimpArgs false

namespace Rsa.Rdm

open Rsa

variable {α : Type} [Zero α]

theorem storeInv_writeBack {s0 : Store α} :
    ∀ (is : List Nat) {s : Store α} {g : List GObj} {args : List (Obj α)} {gargs : List GObj},
      StoreInv s0 s g → List.Forall₂ (ObjInv s0) args gargs →
      StoreInv s0 (writeBack s is args) (gwriteBack g is gargs) := by
  intro is
  induction is with
  | nil => intro s g args gargs h _; simpa [writeBack, gwriteBack] using h
  | cons i is ih =>
    intro s g args gargs h hall
    cases hall with
    | nil => simpa [writeBack, gwriteBack] using h
    | cons hx hxs =>
      simp only [writeBack, gwriteBack]
      exact ih (storeInv_set h hx) hxs

/-- a successful concrete step is followed by the ghost step, and the invariant is kept -/
theorem stepE_inv {s0 s s' : Store α} {g : List GObj} (cm : Bool) (h : StoreInv s0 s g) (op : Op)
    (hs : stepE cm s op = some s') :
    ∃ g', gstepOk cm s g op = some g' ∧ StoreInv s0 s' g' := by
  cases op with
  | getitem i sel =>
    simp only [stepE, Option.bind_eq_bind, Option.bind_eq_some_iff, bindNew, Option.map_eq_some_iff] at hs
    obtain ⟨o, ho, o', ho', rfl⟩ := hs
    obtain ⟨go, hg, hinv⟩ := storeInv_get h ho
    exact ⟨g ++ [go.pickRows sel], by simp [gstepOk, hg], storeInv_append h (inv_getitem hinv ho')⟩
  | subset i b v =>
    simp only [stepE, Option.bind_eq_bind, Option.bind_eq_some_iff, bindNew, Option.map_eq_some_iff] at hs
    obtain ⟨o, ho, o', ho', rfl⟩ := hs
    obtain ⟨go, hg, hinv⟩ := storeInv_get h ho
    simp only [Obj.subset, Option.bind_eq_bind, Option.bind_eq_some_iff] at ho'
    obtain ⟨col, hc, ho'⟩ := ho'
    exact ⟨_, by simp [gstepOk, hg, ho, hc], storeInv_append h (inv_getitem hinv ho')⟩
  | subsample i b v =>
    simp only [stepE, Option.bind_eq_bind, Option.bind_eq_some_iff, bindNew, Option.map_eq_some_iff] at hs
    obtain ⟨o, ho, o', ho', rfl⟩ := hs
    obtain ⟨go, hg, hinv⟩ := storeInv_get h ho
    simp only [Obj.subsample, Option.bind_eq_bind, Option.bind_eq_some_iff] at ho'
    obtain ⟨col, hc, ho'⟩ := ho'
    exact ⟨_, by simp [gstepOk, hg, ho, hc], storeInv_append h (inv_getitem hinv ho')⟩
  | subsetPattern i b v =>
    simp only [stepE, Option.bind_eq_bind, Option.bind_eq_some_iff, bindNew, Option.map_eq_some_iff] at hs
    obtain ⟨o, ho, o', ho', rfl⟩ := hs
    obtain ⟨go, hg, hinv⟩ := storeInv_get h ho
    cases hc : o.pdesc.get b with
    | none => simp [Obj.subsetPattern, hc] at ho'
    | some col =>
      exact ⟨_, by simp [gstepOk, hg, ho, hc], storeInv_append h (inv_subsetPattern hinv hc ho')⟩
  | subsamplePattern i b v =>
    simp only [stepE, Option.bind_eq_bind, Option.bind_eq_some_iff, bindNew, Option.map_eq_some_iff] at hs
    obtain ⟨o, ho, o', ho', rfl⟩ := hs
    obtain ⟨go, hg, hinv⟩ := storeInv_get h ho
    cases hc : o.pdesc.get b with
    | none => simp [Obj.subsamplePattern, hc] at ho'
    | some col =>
      exact ⟨_, by simp [gstepOk, hg, ho, hc], storeInv_append h (inv_subsamplePattern hinv hc ho')⟩
  | reorder i ord =>
    simp only [stepE, Option.bind_eq_bind, Option.bind_eq_some_iff, replaceAt, Option.map_eq_some_iff] at hs
    obtain ⟨o, ho, o', ho', rfl⟩ := hs
    obtain ⟨go, hg, hinv⟩ := storeInv_get h ho
    exact ⟨_, by simp [gstepOk, hg], storeInv_set h (inv_reorder hinv ho')⟩
  | sortAlpha i b re =>
    simp only [stepE, Option.bind_eq_bind, Option.bind_eq_some_iff, replaceAt, Option.map_eq_some_iff] at hs
    obtain ⟨o, ho, o', ho', rfl⟩ := hs
    obtain ⟨go, hg, hinv⟩ := storeInv_get h ho
    cases hc : o.pdesc.get b with
    | none => simp [Obj.sortAlpha, hc] at ho'
    | some col =>
      exact ⟨_, by simp [gstepOk, hg, ho, hc], storeInv_set h (inv_sortAlpha hinv hc ho')⟩
  | sortList i b m re =>
    simp only [stepE, Option.bind_eq_bind, Option.bind_eq_some_iff, replaceAt, Option.map_eq_some_iff] at hs
    obtain ⟨o, ho, o', ho', rfl⟩ := hs
    obtain ⟨go, hg, hinv⟩ := storeInv_get h ho
    cases hc : o.pdesc.get b with
    | none => simp [Obj.sortList, hc] at ho'
    | some col =>
      exact ⟨_, by simp [gstepOk, hg, ho, hc], storeInv_set h (inv_sortList hinv hc ho')⟩
  | append i j =>
    simp only [stepE, Option.bind_eq_bind, Option.bind_eq_some_iff, replaceAt, Option.map_eq_some_iff] at hs
    obtain ⟨o, ho, r, hr, o', ho', rfl⟩ := hs
    obtain ⟨go, hg, hinv⟩ := storeInv_get h ho
    obtain ⟨gr, hgr, hinvr⟩ := storeInv_get h hr
    exact ⟨_, by simp [gstepOk, ho, hg, hgr], storeInv_set h (inv_append hinv hinvr ho')⟩
  | concat is tgt =>
    simp only [stepE, Option.bind_eq_bind, Option.bind_eq_some_iff, Option.pure_def] at hs
    obtain ⟨objs, hobjs, ⟨res, args⟩, hc, hs'⟩ := hs
    simp only [Option.some.injEq] at hs'
    subst hs'
    obtain ⟨gs, hgs, hall⟩ := forall₂_of_mapM h hobjs
    unfold concatObjs at hc
    cases hall with
    | nil => simp at hc
    | @cons first gfirst rest grest hf hrest =>
      simp only [Option.bind_eq_bind, Option.bind_eq_some_iff, Option.pure_def] at hc
      obtain ⟨rd, hrd0, ot, hot, hc⟩ := hc
      split at hc
      · simp at hc
      rename_i hnc
      simp only [Option.bind_eq_some_iff] at hc
      obtain ⟨aligned, hal, res', hres, hc⟩ := hc
      simp only [Option.some.injEq, Prod.mk.injEq] at hc
      obtain ⟨rfl, rfl⟩ := hc
      obtain ⟨ha1, ha2⟩ := inv_alignAll ot hrest hal
      have hn : ∀ a ∈ aligned, a.nCond = first.nCond := by
        intro a ha
        obtain ⟨r, hr, hnr, _⟩ := forall₂_mem_left ha2 ha
        simp only [Bool.not_eq_true', Bool.not_eq_false, List.all_eq_true, beq_iff_eq] at hnc
        have hnc' : ∀ r ∈ rest, r.nCond = first.nCond := by
          simpa using hnc
        rw [hnr]; exact hnc' r hr
      have hres_inv := inv_concatResult hf ha1 hn ha2 hrd0 rfl hres
      refine ⟨_, by simp only [gstepOk, hobjs, hgs, hot, Option.bind_eq_bind, Option.bind_some,
        Option.pure_def, Option.getD_some]; rfl, ?_⟩
      cases cm
      · simpa using storeInv_append h hres_inv
      · simp only [if_true]
        exact storeInv_append (storeInv_writeBack is h (List.Forall₂.cons hf ha1)) hres_inv
  | copy i =>
    simp only [stepE, Option.bind_eq_bind, Option.bind_eq_some_iff, bindNew, Option.map_eq_some_iff] at hs
    obtain ⟨o, ho, o', ho', rfl⟩ := hs
    obtain ⟨go, hg, hinv⟩ := storeInv_get h ho
    exact ⟨_, by simp [gstepOk, hg], storeInv_append h (inv_copy hinv ho')⟩
  | fromPartials is allP d =>
    simp only [stepE, Option.bind_eq_bind, Option.bind_eq_some_iff, bindNew, Option.map_eq_some_iff] at hs
    obtain ⟨objs, hobjs, res, hres, rfl⟩ := hs
    obtain ⟨gs, hgs, hall⟩ := forall₂_of_mapM h hobjs
    exact ⟨_, by simp [gstepOk, hobjs, hgs], storeInv_append h (inv_fromPartials hall hres)⟩
  | permute i p =>
    simp only [stepE, Option.bind_eq_bind, Option.bind_eq_some_iff, bindNew, Option.map_eq_some_iff] at hs
    obtain ⟨o, ho, o', ho', rfl⟩ := hs
    obtain ⟨go, hg, hinv⟩ := storeInv_get h ho
    exact ⟨_, by simp [gstepOk, hg], storeInv_append h (inv_permute hinv ho')⟩
  | inversePermute i =>
    simp only [stepE, Option.bind_eq_bind, Option.bind_eq_some_iff, bindNew, Option.map_eq_some_iff] at hs
    obtain ⟨o, ho, o', ho', rfl⟩ := hs
    obtain ⟨go, hg, hinv⟩ := storeInv_get h ho
    cases hl : o.odesc.lookup "p_inv" with
    | none => simp [Obj.inversePermute, hl] at ho'
    | some v =>
      cases v with
      | arr l =>
        exact ⟨_, by simp [gstepOk, hg, ho, hl], storeInv_append h (inv_inversePermute hinv hl ho')⟩
      | int _ => simp [Obj.inversePermute, hl] at ho'
      | str _ => simp [Obj.inversePermute, hl] at ho'
      | none => simp [Obj.inversePermute, hl] at ho'

theorem step_inv' {s0 s : Store α} {g : List GObj} (cm : Bool) (h : StoreInv s0 s g) (op : Op) :
    StoreInv s0 (step cm s op) (gstep cm s g op) := by
  unfold step gstep
  cases hs : stepE cm s op with
  | none => simpa using h
  | some s' =>
    obtain ⟨g', hg', hinv⟩ := stepE_inv cm h op hs
    simpa [hg'] using hinv

theorem run_inv' {s0 : Store α} (cm : Bool) (ops : List Op) :
    ∀ {s : Store α} {g : List GObj}, StoreInv s0 s g →
      StoreInv s0 (run cm s ops) (grun cm s g ops) := by
  induction ops with
  | nil => intro s g h; simpa [run, grun] using h
  | cons op ops ih =>
    intro s g h
    simp only [run, List.foldl_cons, grun]
    exact ih (step_inv' cm h op)

/-! ### the invariant holds for the initial store -/

theorem renderVec_init (e : Nat → Nat → Option α) (n : Nat) :
    renderVec e ((List.range n).map some) = matToVec n (fun i j => if i = j then none else e i j) := by
  unfold renderVec matToVec pairs
  rw [pairsOf_map, List.map_map]
  rfl

theorem Desc.get_of_mem_keys {d : Desc} {k : String} (h : k ∈ d.keys) : ∃ c, Desc.get d k = some c := by
  induction d with
  | nil => simp [Desc.keys] at h
  | cons kv rest ih =>
    rw [Desc.get_cons]
    by_cases hk : k = kv.1
    · exact ⟨kv.2, by simp [hk]⟩
    · simp only [hk, if_false]
      apply ih
      simp only [Desc.keys, List.map_cons, List.mem_cons] at h
      rcases h with h | h
      · exact absurd h hk
      · exact h

theorem objInv_init {s0 : Store α} {o : Obj α} {j : Nat} (hj : s0[j]? = some o) (hwf : o.WF) :
    ObjInv s0 o (GObj.init j o.nRdm o.nCond o.rdesc.keys) := by
  have hnr : 1 ≤ o.nRdm := by
    unfold Obj.nRdm
    cases hv : o.vecs with
    | nil => exact absurd hv hwf.nrdm
    | cons a t => simp
  apply objInv_of
  · simp only [GObj.init, List.map_map]
    have hrow : ∀ q ∈ List.range o.nRdm,
        ((fun r : GRow => renderVec (initEntry s0 r.src) r.cp) ∘
          (fun q => (⟨(j, q), (List.range o.nCond).map some, true, o.rdesc.keys⟩ : GRow))) q = o.vecs.getD q [] := by
      intro q hq
      have hq' : q < o.vecs.length := by simpa [Obj.nRdm] using hq
      simp only [Function.comp, renderVec_init]
      have hie : initEntry s0 (j, q) = o.matrix q := by simp [initEntry, hj]
      rw [hie]
      have hlen : (o.vecs.getD q []).length = triLen o.nCond := by
        rw [List.getD_eq_getElem?_getD, List.getElem?_eq_getElem hq']
        exact hwf.vlen _ (List.getElem_mem hq')
      conv_rhs => rw [← matToVec_vecToMat o.nCond (some 0) none (o.vecs.getD q []) hlen]
      unfold matToVec
      apply List.map_congr_left
      intro p hp
      have hlt := mem_pairs hp
      have hne : ¬ p.1 = p.2 := by omega
      simp [hne, Obj.matrix, matOf]
    rw [List.map_congr_left hrow]
    exact (map_getD_range o.vecs []).symm
  · exact hwf.nrdm
  · exact hwf.ncond
  · intro r hr
    simp only [GObj.init, List.mem_map] at hr
    obtain ⟨q, _, rfl⟩ := hr
    simp
  · simp [GObj.init]
  · exact hwf.pshape
  · intro kv hkv hne i sp hi
    simp only [GObj.init, List.getElem?_map, List.getElem?_range'] at hi
    have hi' : i < o.nCond := by
      by_contra hc
      rw [List.getElem?_eq_none (by simpa using hc)] at hi
      simp at hi
    rw [List.getElem?_eq_getElem (by simpa using hi')] at hi
    simp only [List.getElem_range, Option.map_some, Option.some.injEq] at hi
    subst hi
    have hl := hwf.pshape kv hkv
    refine ⟨kv.2[i]'(by omega), List.getElem?_eq_getElem (by omega), o, kv.2, hj, hkv, ?_⟩
    exact List.getElem?_eq_getElem (by omega)
  · intro r hr _ i p hi
    simp only [GObj.init, List.mem_map] at hr
    obtain ⟨q, _, rfl⟩ := hr
    simp only [List.getElem?_map] at hi
    have hi' : i < o.nCond := by
      by_contra hc
      rw [List.getElem?_eq_none (by simpa using hc)] at hi
      simp at hi
    rw [List.getElem?_eq_getElem (by simpa using hi')] at hi
    simp only [List.getElem_range, Option.map_some, Option.some.injEq] at hi
    subst hi
    simp [GObj.init, hi']
  · have hrow : ∀ (q : Nat) (r : GRow), (GObj.init j o.nRdm o.nCond o.rdesc.keys).rows[q]? = some r →
        q < o.nRdm ∧ r.src = (j, q) ∧ r.rk = o.rdesc.keys := by
      intro q r hr
      simp only [GObj.init, List.getElem?_map] at hr
      have hq : q < o.nRdm := by
        by_contra hc'
        rw [List.getElem?_eq_none (by simpa using hc')] at hr
        simp at hr
      rw [List.getElem?_eq_getElem (by simpa using hq)] at hr
      simp only [List.getElem_range, Option.map_some, Option.some.injEq] at hr
      subst hr
      exact ⟨hq, rfl, rfl⟩
    have hval : ∀ key ∈ o.rdesc.keys, ∃ col, o.rdesc.get key = some col ∧ col.length = o.nRdm ∧
        ∀ q, q < o.nRdm → ∃ v, col[q]? = some v ∧ RVal s0 (j, q) key v := by
      intro key hk
      obtain ⟨col, hc⟩ := Desc.get_of_mem_keys hk
      have hcl : col.length = o.vecs.length := hwf.rshape _ (Desc.get_mem hc)
      refine ⟨col, hc, by simp [hcl, Obj.nRdm], ?_⟩
      intro q hq
      have hq' : q < col.length := by rw [hcl]; simpa [Obj.nRdm] using hq
      exact ⟨col[q], List.getElem?_eq_getElem hq', o, col, hj, Desc.get_mem hc,
        List.getElem?_eq_getElem hq'⟩
    refine ⟨?_, ?_, ?_⟩
    · intro key hk _
      simp only [GObj.init] at hk
      obtain ⟨col, hc, hcl, hv⟩ := hval key hk
      refine ⟨col, hc, by simp [GObj.init, hcl], ?_⟩
      intro q r hr
      obtain ⟨hq, hsrc, _⟩ := hrow q r hr
      rw [hsrc]; exact hv q hq
    · intro kv hkv
      rw [hwf.rshape kv hkv]
      simp [GObj.init, Obj.nRdm]
    · intro q r hr key hk _
      obtain ⟨hq, hsrc, hrk⟩ := hrow q r hr
      rw [hrk] at hk
      obtain ⟨col, hc, _, hv⟩ := hval key hk
      obtain ⟨v, hv1, hv2⟩ := hv q hq
      exact ⟨col, v, hc, hv1, by rw [hsrc]; exact hv2⟩

theorem ginitFrom_getElem? (k : Nat) (os : Store α) (i : Nat) :
    (ginitFrom k os)[i]? = (os[i]?).map (fun o => GObj.init (k + i) o.nRdm o.nCond o.rdesc.keys) := by
  induction os generalizing k i with
  | nil => simp [ginitFrom]
  | cons o os ih =>
    cases i with
    | zero => simp [ginitFrom]
    | succ i =>
      simp only [ginitFrom, List.getElem?_cons_succ, ih]
      have : k + 1 + i = k + (i + 1) := by omega
      rw [this]

theorem ginitFrom_length (k : Nat) (os : Store α) : (ginitFrom k os).length = os.length := by
  induction os generalizing k with
  | nil => rfl
  | cons o os ih => simp [ginitFrom, ih]

theorem init_inv' {s0 : Store α} (hwf : ∀ o ∈ s0, o.WF) : StoreInv s0 s0 (ginit s0) := by
  refine ⟨(ginitFrom_length 0 s0).symm, ?_⟩
  intro i o go ho hg
  unfold ginit at hg
  rw [ginitFrom_getElem?, ho] at hg
  simp only [Option.map_some, Nat.zero_add, Option.some.injEq] at hg
  subst hg
  have hmem : o ∈ s0 := List.mem_of_getElem? ho
  exact objInv_init ho (hwf o hmem)

theorem mk2d_wf {vecs : List (List (Option α))} {od : ODesc} {rd pd : Desc} {o : Obj α}
    (h : mk2d vecs od rd pd = some o) (hlen : ∃ n, 1 ≤ n ∧ ∀ v ∈ vecs, v.length = triLen n) : o.WF := by
  obtain ⟨n, hn, hl⟩ := hlen
  obtain ⟨hnc, hvecs, hne, hpd, hps, hrd⟩ := mk2d_ncond h n hn hl
  obtain ⟨_, _, _, _, _, _, _, _, _, _, hrs⟩ := mk2d_some h
  exact { ncond := by omega, nrdm := by rw [hvecs]; exact hne
          vlen := by intro v hv; rw [hvecs] at hv; rw [hnc]; exact hl v hv
          pshape := by rw [hpd, hnc]; exact pshape_addIndex hps
          rshape := by rw [hrd, hvecs]; exact pshape_addIndex hrs }

end Rsa.Rdm
