/- helper lemmas for C20 (round 5): which file task every loaded row of a Meadows `.json` comes
   from, and the label-level reading of the assembled RDM vectors -/
import Mathlib.Tactic.Ring
import Mathlib.Tactic.Linarith
import Rsa.Lemmas.Tri
import Rsa.Lemmas.C20Meadows

set_option linter.unusedSectionVars false
set_option linter.unusedVariables false
set_option linter.unusedSimpArgs false

namespace Rsa.Importers

variable {α : Type}

/-! ### every accumulated row is the `rdm` of a file task with the kept stimulus list -/

/-- invariant of the json loop: accumulators of equal length, and row `k` is the `rdm` of the
    multi-arrangement task at file position `TI[k]`, whose name is `TN[k]` and whose stimulus
    **list** is the kept one -/
def RowsOk (ts0 : List (JTask α)) (U : List (List α)) (S TN : List Str) (TI : List Nat) : Prop :=
  TN.length = U.length ∧ TI.length = U.length ∧
  ∀ (k : Nat) (u : List α), U[k]? = some u → ∃ (t : Nat) (task : JTask α), TI[k]? = some t ∧ ts0[t]? = some task ∧
    task.taskType = some sMultiarrange ∧ task.stimuli = S ∧ task.rdm = u ∧
    TN[k]? = some task.name

theorem rowsOk_nil (ts0 : List (JTask α)) (S : List Str) : RowsOk ts0 [] S [] [] :=
  ⟨rfl, rfl, by intro k u h; simp at h⟩

theorem rowsOk_snoc {ts0 : List (JTask α)} {U : List (List α)} {S TN : List Str} {TI : List Nat}
    (h : RowsOk ts0 U S TN TI) {t : Nat} {task : JTask α} (ht : ts0[t]? = some task)
    (hma : task.taskType = some sMultiarrange) (hs : task.stimuli = S) :
    RowsOk ts0 (U ++ [task.rdm]) S (TN ++ [task.name]) (TI ++ [t]) := by
  obtain ⟨h1, h2, h3⟩ := h
  refine ⟨by simp [h1], by simp [h2], ?_⟩
  intro k u hk
  by_cases hlt : k < U.length
  · rw [List.getElem?_append_left hlt] at hk
    obtain ⟨t', task', a, b, c, d, e, f⟩ := h3 k u hk
    refine ⟨t', task', ?_, b, c, d, e, ?_⟩
    · rw [List.getElem?_append_left (by omega)]; exact a
    · rw [List.getElem?_append_left (by omega)]; exact f
  · have hlen : k < (U ++ [task.rdm]).length := (List.getElem?_eq_some_iff.mp hk).1
    have hk' : k = U.length := by simp at hlen; omega
    subst hk'
    have hu : task.rdm = u := by simpa using hk
    refine ⟨t, task, ?_, ht, hma, hs, hu, ?_⟩
    · rw [← h2]; simp
    · rw [← h1]; simp

theorem jsonLoop_rowsOk (ts0 : List (JTask α)) : ∀ (rem done : List (JTask α))
    (U : List (List α)) (S TN : List Str) (TI : List Nat),
    ts0 = done ++ rem → RowsOk ts0 U S TN TI →
    RowsOk ts0 (jsonLoop rem done.length U S TN TI).1 (jsonLoop rem done.length U S TN TI).2.1
      (jsonLoop rem done.length U S TN TI).2.2.1 (jsonLoop rem done.length U S TN TI).2.2.2
  | [], done, U, S, TN, TI, _, h => by simpa [jsonLoop] using h
  | task :: rest, done, U, S, TN, TI, hts, h => by
    have hts' : ts0 = (done ++ [task]) ++ rest := by simp [hts]
    have hlen : (done ++ [task]).length = done.length + 1 := by simp
    have hat : ts0[done.length]? = some task := by simp [hts]
    unfold jsonLoop
    by_cases h1 : task.taskType = some sMultiarrange
    · by_cases he : U.isEmpty = true
      · have hU : U = [] := by simpa using he
        subst hU
        have hTN : TN = [] := by
          have := h.1; simpa using this
        have hTI : TI = [] := by
          have := h.2.1; simpa using this
        subst hTN hTI
        have h' := rowsOk_snoc (rowsOk_nil ts0 task.stimuli) hat h1 rfl
        have ih := jsonLoop_rowsOk ts0 rest (done ++ [task]) _ _ _ _ hts' h'
        rw [hlen] at ih
        simpa [h1] using ih
      · have he' : U.isEmpty = false := by simpa using he
        by_cases h2 : S = task.stimuli
        · have h' := rowsOk_snoc h hat h1 h2.symm
          have ih := jsonLoop_rowsOk ts0 rest (done ++ [task]) _ _ _ _ hts' h'
          rw [hlen] at ih
          simpa [h1, he', h2] using ih
        · have ih := jsonLoop_rowsOk ts0 rest (done ++ [task]) _ _ _ _ hts' h
          rw [hlen] at ih
          simpa [h1, he', h2] using ih
    · have ih := jsonLoop_rowsOk ts0 rest (done ++ [task]) _ _ _ _ hts' h
      rw [hlen] at ih
      simpa [h1] using ih

/-- **rows of `load_rdms_comps_json`**: every returned row `k` is the `rdm` of the
    multi-arrangement task at file position `tidx[k]`, named `tnames[k]`, and that task lists
    the returned stimuli *in the same order* -/
theorem compsJson_rows (info : MInfo) (ts : List (JTask α)) (c : Comps α)
    (h : compsJson info (some ts) = .ok c) :
    ∃ tn ti, c.tnames = some tn ∧ c.tidx = some ti ∧ c.pnames.length = c.utvs.length ∧
      RowsOk ts c.utvs c.stimuli tn ti := by
  have key := jsonLoop_rowsOk ts ts [] [] [] [] [] (by simp) (rowsOk_nil ts [])
  simp only [List.length_nil] at key
  unfold compsJson at h
  by_cases a : info.participantScopeSingle = true
  · by_cases b : info.taskScopeSingle = true
    · simp [a, b] at h
    · cases hp : info.participant with
      | none => simp [a, b, hp] at h
      | some p =>
        simp only [a, b, hp] at h
        simp at h
        subst h
        exact ⟨_, _, rfl, rfl, by simpa using key.1, key⟩
  · simp [a] at h

/-! ### the pair enumeration is indexed by `triIdx` (as `Rsa.pairsOf_getElem?` of C10) -/

theorem triangle_succ' (i : Nat) : (i + 1) * (i + 1 + 1) / 2 = i * (i + 1) / 2 + (i + 1) := by
  have h : (i + 1) * (i + 1 + 1) = i * (i + 1) + (i + 1) * 2 := by ring
  rw [h, Nat.add_mul_div_right _ _ (by norm_num : 0 < 2)]

theorem pairsOf_getElem?_tri {β : Type} (l : List β) (i j : Nat) (hij : i < j) (hj : j < l.length) :
    (pairsOf l)[triIdx l.length i j]? = some (l[i]'(by omega), l[j]'hj) := by
  induction l generalizing i j with
  | nil => simp at hj
  | cons x xs ih =>
    simp only [pairsOf, List.length_cons]
    cases i with
    | zero =>
      obtain ⟨j', rfl⟩ : ∃ j', j = j' + 1 := ⟨j - 1, by omega⟩
      have hj' : j' < xs.length := by simpa using hj
      have : triIdx (xs.length + 1) 0 (j' + 1) = j' := by simp [triIdx]
      rw [this, List.getElem?_append_left (by simpa using hj')]
      simp [hj']
    | succ i' =>
      obtain ⟨j', rfl⟩ : ∃ j', j = j' + 1 := ⟨j - 1, by omega⟩
      have hj' : j' < xs.length := by simpa using hj
      have hij' : i' < j' := by omega
      have key : triIdx (xs.length + 1) (i' + 1) (j' + 1)
          = xs.length + triIdx xs.length i' j' := by
        unfold triIdx
        have h1 := triangle_succ' i'
        have h2 : (i' + 1) * (xs.length + 1) = i' * xs.length + i' + xs.length + 1 := by ring
        have h3 : i' * (i' + 1) / 2 ≤ i' * xs.length := by
          calc i' * (i' + 1) / 2 ≤ i' * (i' + 1) := Nat.div_le_self _ _
            _ ≤ i' * xs.length := Nat.mul_le_mul_left _ (by omega)
        rw [h1, h2]
        generalize i' * xs.length = A at *
        generalize i' * (i' + 1) / 2 = T at *
        omega
      rw [key, List.getElem?_append_right (by simp)]
      simp only [List.length_map, Nat.add_sub_cancel_left]
      rw [ih i' j' hij' hj']
      simp

/-! ### the assembled vector, read by label -/

/-- `sortedIdx` keeps every label with its own file position -/
theorem sortedIdx_spec (conds : List Str) :
    (sortedIdx conds).length = conds.length ∧
    ∀ (i : Nat) (hi : i < (sortedIdx conds).length),
      ∃ h : ((sortedIdx conds)[i]).2 < conds.length,
        conds[((sortedIdx conds)[i]).2] = ((sortedIdx conds)[i]).1 := by
  have hperm : (sortedIdx conds).Perm conds.zipIdx := List.mergeSort_perm _ _
  refine ⟨by simpa using hperm.length_eq, ?_⟩
  intro i hi
  have hm : (((sortedIdx conds)[i]).1, ((sortedIdx conds)[i]).2) ∈ conds.zipIdx :=
    hperm.mem_iff.mp (List.getElem_mem hi)
  obtain ⟨h1, h2⟩ := List.mem_zipIdx' hm
  exact ⟨h1, h2.symm⟩

/-- **label-level reading of a loaded row.**  If row `k` of the components is the `rdm` of a
    file task that lists the kept stimuli in the same order, then — sorted or not — the stored
    entry of the assembled RDM for the label pair at positions `i < j` is the file's value of
    that task for those two labels (`fileVal`: looked up in the task's own order). -/
theorem assemble_entry [Zero α] (info : MInfo) (c : Comps α) (sort : Bool)
    (hnd : (c.stimuli.map stem).Nodup) (task : JTask α) (hs : task.stimuli = c.stimuli)
    (k : Nat) (hu : c.utvs[k]? = some task.rdm) :
    ∃ row, (assemble info c sort).dissim[k]? = some row ∧
      ∀ (i j : Nat) (hij : i < j) (hj : j < (assemble info c sort).conds.length),
        row.getD (triIdx (assemble info c sort).conds.length i j) 0 =
          fileVal task ((assemble info c sort).conds[i]) ((assemble info c sort).conds[j]) := by
  cases sort with
  | false =>
    refine ⟨task.rdm, by simpa [assemble] using hu, ?_⟩
    intro i j hij hj
    have hj' : j < (c.stimuli.map stem).length := by simpa [assemble] using hj
    have hi' : i < (c.stimuli.map stem).length := by omega
    have e1 := hnd.idxOf_getElem i hi'
    have e2 := hnd.idxOf_getElem j hj'
    simp only [assemble, fileVal, hs, Bool.false_eq_true, if_false] at *
    rw [e1, e2]
    have hne : i ≠ j := by omega
    simp [vecToMat, hne, hij]
  | true =>
    obtain ⟨hlen, hpos⟩ := sortedIdx_spec (c.stimuli.map stem)
    refine ⟨reorderUtv (c.stimuli.map stem).length ((sortedIdx (c.stimuli.map stem)).map (·.2))
      task.rdm, by simp [assemble, hu], ?_⟩
    intro i j hij hj
    have hj' : j < (sortedIdx (c.stimuli.map stem)).length := by simpa [assemble] using hj
    have hi' : i < (sortedIdx (c.stimuli.map stem)).length := by omega
    obtain ⟨bi, ei⟩ := hpos i hi'
    obtain ⟨bj, ej⟩ := hpos j hj'
    have e1 := hnd.idxOf_getElem _ bi
    have e2 := hnd.idxOf_getElem _ bj
    rw [ei] at e1
    rw [ej] at e2
    have hp := pairsOf_getElem?_tri ((sortedIdx (c.stimuli.map stem)).map (·.2)) i j hij
      (by simpa using hj')
    simp only [List.length_map] at hp
    change (reorderUtv (c.stimuli.map stem).length ((sortedIdx (c.stimuli.map stem)).map (·.2))
        task.rdm).getD (triIdx ((sortedIdx (c.stimuli.map stem)).map (·.1)).length i j) 0 =
      fileVal task (((sortedIdx (c.stimuli.map stem)).map (·.1))[i]'(by simpa using hi'))
        (((sortedIdx (c.stimuli.map stem)).map (·.1))[j]'(by simpa using hj'))
    simp only [fileVal, hs, reorderUtv, List.getD_eq_getElem?_getD, List.length_map,
      List.getElem?_map, hp, List.getElem_map, Option.map_some, Option.getD_some]
    rw [e1, e2]

/-! ### multi-participant `.mat`: which variables every kept row comes from -/

theorem strsSame_eq {stim : List Str} {o : Option (MatVal α)}
    (h : strsSame (fun a b => a == b) stim o = true) : o = some (.strs stim) := by
  cases o with
  | none => simp [strsSame] at h
  | some mv =>
    cases mv with
    | nums r => simp [strsSame] at h
    | strs l =>
      have : stim = l := by simpa [strsSame] using h
      rw [this]

/-- with one row per `rdmutv_<p>` variable (a 1 × m matrix), row `k` of the stack is the row of
    the variable named after participant `k` -/
theorem stackUtvs_rows (vars : List (Str × MatVal α)) : ∀ (ps : List Str) (U : List (List α)),
    stackUtvs vars ps = .ok U →
    (∀ p ∈ ps, ∀ rows, lookupVar vars (utvVarOf p) = some (.nums rows) → rows.length = 1) →
    U.length = ps.length ∧ ∀ (k : Nat) (p : Str), ps[k]? = some p →
      ∃ utv, lookupVar vars (utvVarOf p) = some (.nums [utv]) ∧ U[k]? = some utv
  | [], U, h, _ => by
    have : U = [] := by simpa [stackUtvs] using h.symm
    subst this
    simp
  | p :: ps, U, h, hone => by
    unfold stackUtvs at h
    cases hl : lookupVar vars (utvVarOf p) with
    | none => simp [hl] at h
    | some mv =>
      cases mv with
      | strs l => simp [hl] at h
      | nums rows =>
        cases hr : stackUtvs vars ps with
        | error e => simp [hl, hr] at h
        | ok r =>
          have hU : rows ++ r = U := by simpa [hl, hr] using h
          subst hU
          have h1 := hone p List.mem_cons_self rows hl
          obtain ⟨utv, rfl⟩ : ∃ utv, rows = [utv] := by
            match rows, h1 with
            | [x], _ => exact ⟨x, rfl⟩
          obtain ⟨ihl, ihk⟩ := stackUtvs_rows vars ps r hr
            (fun q hq => hone q (List.mem_cons_of_mem _ hq))
          refine ⟨by simp [ihl], ?_⟩
          intro k q hk
          cases k with
          | zero =>
            have : p = q := by simpa using hk
            subst this
            exact ⟨utv, hl, by simp⟩
          | succ k =>
            have hk' : ps[k]? = some q := by simpa using hk
            obtain ⟨u', a, b⟩ := ihk k q hk'
            exact ⟨u', a, by simpa using b⟩

/-- the components of a multi-participant `.mat`: the kept participants are exactly the
    `stimuli*` variables (in file order) whose list equals the returned one -/
theorem compsMat_multi (info : MInfo) (vars : List (Str × MatVal α)) (c : Comps α)
    (hm : info.participantScopeSingle = false) (h : compsMat info vars = .ok c) :
    c.pnames = (((vars.map (·.1)).filter (fun v => v.take 7 == sStimuli)).filter
        (fun v => strsSame (fun a b => a == b) c.stimuli (lookupVar vars v))).map pnameOfVar ∧
    stackUtvs vars c.pnames = .ok c.utvs ∧ c.tidx = none ∧
    ∃ tn, info.taskName = some tn ∧ c.tnames = some (c.pnames.map (fun _ => tn)) := by
  unfold compsMat compsMatBy at h
  simp only [hm, Bool.false_eq_true, if_false] at h
  cases hs : (vars.map (·.1)).filter (fun v => v.take 7 == sStimuli) with
  | nil => simp [hs] at h
  | cons v0 rest =>
    simp only [hs] at h
    cases hl : lookupVar vars v0 with
    | none => simp [hl] at h
    | some mv =>
      cases mv with
      | nums r => simp [hl] at h
      | strs stim =>
        cases ht : info.taskName with
        | none => simp [hl, ht] at h
        | some tn =>
          simp only [hl, ht] at h
          cases hst : stackUtvs vars (((v0 :: rest).filter
              (fun v => strsSame (fun a b => a == b) stim (lookupVar vars v))).map pnameOfVar) with
          | error e => simp [hst] at h
          | ok U =>
            simp only [hst] at h
            have hc : c = { utvs := U, stimuli := stim, pnames := _, tnames := _, tidx := none } :=
              (Except.ok.inj h).symm
            subst hc
            exact ⟨rfl, hst, rfl, tn, rfl, rfl⟩

end Rsa.Importers
