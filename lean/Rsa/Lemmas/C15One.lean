/- `calc_one`: the single-pair helper is the rectangle average of the full computation -/
import Rsa.Lemmas.C15Rect

set_option linter.unusedSectionVars false
set_option linter.unusedVariables false

namespace Rsa.Unb

open Finset

variable {K : Type} [Field K] [LinearOrder K] [IsStrictOrderedRing K]

def oneBody (cvi cvj : Nat → Nat) (number : Bool) (kern : Nat → Nat → K × K) (i j : Nat)
    (acc : K × K) : K × K :=
  if cvi i != cvj j then
    let sw := kern i j
    if 0 < sw.2 then
      if number then (acc.1 + sw.1, acc.2 + sw.2) else (acc.1 + sw.1 / sw.2, acc.2 + 1)
    else acc
  else acc

theorem oneBody_fst (cvi cvj : Nat → Nat) (number : Bool) (kern : Nat → Nat → K × K)
    (i j : Nat) (acc : K × K) :
    (oneBody cvi cvj number kern i j acc).1 = acc.1 +
      (if (cvi i != cvj j) = true ∧ 0 < (kern i j).2 then cVal number (kern i j) else 0) := by
  unfold oneBody cVal
  by_cases h1 : (cvi i != cvj j) = true
  · by_cases h2 : 0 < (kern i j).2
    · cases number <;> simp [h1, h2]
    · simp [h1, h2]
  · simp [h1]

theorem oneBody_snd (cvi cvj : Nat → Nat) (number : Bool) (kern : Nat → Nat → K × K)
    (i j : Nat) (acc : K × K) :
    (oneBody cvi cvj number kern i j acc).2 = acc.2 +
      (if (cvi i != cvj j) = true ∧ 0 < (kern i j).2 then cW number (kern i j) else 0) := by
  unfold oneBody cW
  by_cases h1 : (cvi i != cvj j) = true
  · by_cases h2 : 0 < (kern i j).2
    · cases number <;> simp [h1, h2]
    · simp [h1, h2]
  · simp [h1]

/-- numerator / denominator accumulated by the two loops of `calc_one` -/
def oneNum (ni nj : Nat) (cvi cvj : Nat → Nat) (number : Bool) (kern : Nat → Nat → K × K) : K :=
  sumTo ni (fun i => sumTo nj (fun j =>
    if (cvi i != cvj j) = true ∧ 0 < (kern i j).2 then cVal number (kern i j) else 0))

def oneDen (ni nj : Nat) (cvi cvj : Nat → Nat) (number : Bool) (kern : Nat → Nat → K × K) : K :=
  sumTo ni (fun i => sumTo nj (fun j =>
    if (cvi i != cvj j) = true ∧ 0 < (kern i j).2 then cW number (kern i j) else 0))

theorem calcOne_eq_sums (ni nj : Nat) (cvi cvj : Nat → Nat) (number : Bool)
    (kern : Nat → Nat → K × K) :
    calcOne ni nj cvi cvj number kern =
      (if 0 < oneDen ni nj cvi cvj number kern
        then some (oneNum ni nj cvi cvj number kern / oneDen ni nj cvi cvj number kern) else none,
       oneDen ni nj cvi cvj number kern) := by
  have hloop : ∀ (proj : K × K → K) (term : Nat → Nat → K)
      (hstep : ∀ i j acc, proj (oneBody cvi cvj number kern i j acc) = proj acc + term i j)
      (h0 : proj (0, 0) = 0),
      proj (forRange ni 0 (fun i acc => forRange nj 0 (oneBody cvi cvj number kern i) acc) (0, 0))
        = sumTo ni (fun i => sumTo nj (fun j => term i j)) := by
    intro proj term hstep h0
    have h := forRange_obs (K := K) (obs := proj)
      (body := fun i acc => forRange nj 0 (oneBody cvi cvj number kern i) acc)
      (c := fun i => sumTo nj (fun j => term i j))
      (by
        intro i s
        have hin := forRange_obs (K := K) (obs := proj) (body := oneBody cvi cvj number kern i)
          (c := fun j => term i j) (fun j s => hstep i j s) nj 0 s
        simpa using hin)
      ni 0 (0, 0)
    simpa [h0] using h
  have h1 := hloop Prod.fst _ (oneBody_fst cvi cvj number kern) rfl
  have h2 := hloop Prod.snd _ (oneBody_snd cvi cvj number kern) rfl
  unfold calcOne
  change (fun b : K × K => (if 0 < b.2 then some (b.1 / b.2) else none, b.2))
    (forRange ni 0 (fun i acc => forRange nj 0 (oneBody cvi cvj number kern i) acc) (0, 0)) = _
  simp only [h1, h2]
  rfl

/-- the pair average in rectangle form (symmetric kernel) -/
theorem specSim_eq_rect (c : Cfg K) (hk : ∀ i j, c.kern i j = c.kern j i) (a b : Nat) :
    specSim c a b = if 0 < rectDen c a b then some (rectNum c a b / rectDen c a b) else none := by
  obtain ⟨hN, hD⟩ := spec_eq_rect c hk a b
  have hf : (0 : K) < (if a = b then (1 : K) / 2 else 1) := by
    by_cases e : a = b <;> simp [e]
  unfold specSim
  rw [hN, hD]
  by_cases hpos : 0 < rectDen c a b
  · rw [if_pos (mul_pos hf hpos), if_pos hpos]
    congr 1
    have h1 := ne_of_gt hf
    have h2 := ne_of_gt hpos
    field_simp
  · have : ¬ 0 < (if a = b then (1 : K) / 2 else 1) * rectDen c a b := by
      intro h; exact hpos ((mul_pos_iff_of_pos_left hf).mp h)
    rw [if_neg this, if_neg hpos]

/-- re-indexing: the sum over the observations of a condition, enumerated by `ia` -/
theorem sum_class (n na : Nat) (desc : Nat → Nat) (a : Nat) (ia : Nat → Nat)
    (hinj : ∀ i j, i < na → j < na → ia i = ia j → i = j)
    (himg : ∀ i', (i' < n ∧ desc i' = a) ↔ ∃ i, i < na ∧ ia i = i') (G : Nat → K) :
    (∑ i' ∈ range n, if desc i' = a then G i' else 0) = ∑ i ∈ range na, G (ia i) := by
  rw [← Finset.sum_filter]
  have : (range n).filter (fun i' => desc i' = a) = (range na).image ia := by
    ext i'
    simp only [Finset.mem_filter, Finset.mem_range, Finset.mem_image]
    exact himg i'
  rw [this, Finset.sum_image]
  intro i hi j hj h
  exact hinj i j (Finset.mem_range.mp hi) (Finset.mem_range.mp hj) h

/-- the two sums accumulated by `calc_one` on the observations of conditions `a` and `b`
    (enumerated by `ia`, `ib`, with their fold codes) are the rectangle sums of the full
    computation, when cross-validating -/
theorem calcOne_rect (c : Cfg K)
    (hcv : c.crossval = true) (a b na nb : Nat) (ia ib : Nat → Nat)
    (hinja : ∀ i j, i < na → j < na → ia i = ia j → i = j)
    (himga : ∀ i', (i' < c.nObs ∧ c.desc i' = a) ↔ ∃ i, i < na ∧ ia i = i')
    (hinjb : ∀ i j, i < nb → j < nb → ib i = ib j → i = j)
    (himgb : ∀ i', (i' < c.nObs ∧ c.desc i' = b) ↔ ∃ i, i < nb ∧ ib i = i') :
    oneNum na nb (fun i => c.cv (ia i)) (fun j => c.cv (ib j)) c.number
      (fun i j => c.kern (ia i) (ib j)) = rectNum c a b ∧
    oneDen na nb (fun i => c.cv (ia i)) (fun j => c.cv (ib j)) c.number
      (fun i j => c.kern (ia i) (ib j)) = rectDen c a b := by
  have key : ∀ (f : K × K → K),
      sumTo na (fun i => sumTo nb (fun j =>
        if (c.cv (ia i) != c.cv (ib j)) = true ∧ 0 < (c.kern (ia i) (ib j)).2
        then f (c.kern (ia i) (ib j)) else 0))
      = ∑ i' ∈ range c.nObs, ∑ j' ∈ range c.nObs, gO c f a b i' j' := by
    intro f
    simp only [sumTo_eq_sum]
    have e1 : ∀ i', (∑ j' ∈ range c.nObs, gO c f a b i' j')
        = if c.desc i' = a then (∑ j' ∈ range c.nObs, if c.desc j' = b then
            (if (c.cv i' != c.cv j') = true ∧ 0 < (c.kern i' j').2 then f (c.kern i' j') else 0)
            else 0) else 0 := by
      intro i'
      by_cases ha : c.desc i' = a
      · rw [if_pos ha]
        apply Finset.sum_congr rfl; intro j' _
        unfold gO adm
        by_cases hb : c.desc j' = b
        · simp [ha, hb, hcv]
        · simp [ha, hb]
      · rw [if_neg ha]
        apply Finset.sum_eq_zero; intro j' _
        unfold gO; rw [if_neg]; rintro ⟨h, _⟩; exact ha h
    simp only [e1]
    rw [sum_class c.nObs na c.desc a ia hinja himga]
    apply Finset.sum_congr rfl; intro i _
    rw [sum_class c.nObs nb c.desc b ib hinjb himgb]
  constructor
  · rw [rectNum_eq_sum]; exact key _
  · rw [rectDen_eq_sum]; exact key _

/-- `calc_one` on the observations of conditions `a` and `b` returns the pair average of the
    full computation, when cross-validating -/
theorem calcOne_eq_specSim (c : Cfg K) (hk : ∀ i j, c.kern i j = c.kern j i)
    (hcv : c.crossval = true) (a b na nb : Nat) (ia ib : Nat → Nat)
    (hinja : ∀ i j, i < na → j < na → ia i = ia j → i = j)
    (himga : ∀ i', (i' < c.nObs ∧ c.desc i' = a) ↔ ∃ i, i < na ∧ ia i = i')
    (hinjb : ∀ i j, i < nb → j < nb → ib i = ib j → i = j)
    (himgb : ∀ i', (i' < c.nObs ∧ c.desc i' = b) ↔ ∃ i, i < nb ∧ ib i = i') :
    (calcOne na nb (fun i => c.cv (ia i)) (fun j => c.cv (ib j)) c.number
      (fun i j => c.kern (ia i) (ib j))).1 = specSim c a b := by
  obtain ⟨hN, hD⟩ := calcOne_rect c hcv a b na nb ia ib hinja himga hinjb himgb
  rw [calcOne_eq_sums, specSim_eq_rect c hk]
  rw [hN, hD]

/-- … and its second result is the summed weight of the admissible ordered pairs -/
theorem calcOne_weight (c : Cfg K)
    (hcv : c.crossval = true) (a b na nb : Nat) (ia ib : Nat → Nat)
    (hinja : ∀ i j, i < na → j < na → ia i = ia j → i = j)
    (himga : ∀ i', (i' < c.nObs ∧ c.desc i' = a) ↔ ∃ i, i < na ∧ ia i = i')
    (hinjb : ∀ i j, i < nb → j < nb → ib i = ib j → i = j)
    (himgb : ∀ i', (i' < c.nObs ∧ c.desc i' = b) ↔ ∃ i, i < nb ∧ ib i = i') :
    (calcOne na nb (fun i => c.cv (ia i)) (fun j => c.cv (ib j)) c.number
      (fun i j => c.kern (ia i) (ib j))).2 = rectDen c a b := by
  obtain ⟨_, hD⟩ := calcOne_rect c hcv a b na nb ia ib hinja himga hinjb himgb
  rw [calcOne_eq_sums]
  exact hD

end Rsa.Unb
