/-
  Helper lemmas for C08, part 6:
    * what the generated leaves `Rsa.Gen.C08.*` say (each lemma unfolds a leaf: a change of the
      source text that changes the leaf breaks the lemma and every theorem built on it);
    * the coded correlation / whitened poolings are pooled targets (`IsPool`);
    * the objectives of the optimising fitters.
-/
import Rsa.Lemmas.C08Nnls

set_option linter.unusedSectionVars false
set_option linter.unusedVariables false
set_option linter.unusedSimpArgs false

namespace Rsa
namespace Fit
open Rsa.Compare

/-! ### leaves: normalisation -/

theorem normSq_eq_dot (θ : List ℝ) : normSq θ = dot θ θ := by
  unfold normSq
  simp only [Rsa.Gen.C08.normSqEntry]
  exact sum_sq_eq_dot θ

theorem normalise_spec (θ : List ℝ) :
    normalise θ = if 0 < dot θ θ then θ.map (fun t => t / Real.sqrt (dot θ θ)) else θ := by
  unfold normalise
  simp only [normSq_eq_dot, Rsa.Gen.C08.normEntryRegress, hasSqrt_real]

/-- the four weighted-sum fitters normalise with the same entry formula -/
theorem normEntries_agree (t s : ℝ) :
    Rsa.Gen.C08.normEntryRegressNN t s = Rsa.Gen.C08.normEntryRegress t s ∧
    Rsa.Gen.C08.normEntryOptimize t s = Rsa.Gen.C08.normEntryRegress t s ∧
    Rsa.Gen.C08.normEntryOptimizePositive t s = Rsa.Gen.C08.normEntryRegress t s ∧
    Rsa.Gen.C08.normEntryRegress t s = t / s := ⟨rfl, rfl, rfl, rfl⟩

/-! ### leaves: loop tests of `_nn_least_squares` -/

theorem nnlsEnter_iff (wmax tol : ℝ) : Rsa.Gen.C08.nnlsEnter wmax tol = 1 ↔ tol < wmax := by
  unfold Rsa.Gen.C08.nnlsEnter
  by_cases h : tol < wmax <;> simp [h]

theorem nnlsInnerTest_iff (s : ℝ) : Rsa.Gen.C08.nnlsInnerTest s = 1 ↔ s < 0 := by
  unfold Rsa.Gen.C08.nnlsInnerTest
  by_cases h : s < 0 <;> simp [h]

theorem nnlsStepFree_iff (s : ℝ) : Rsa.Gen.C08.nnlsStepFree s = 1 ↔ ¬ s < 0 := by
  unfold Rsa.Gen.C08.nnlsStepFree
  by_cases h : s < 0
  · simp [h, not_le.mpr h]
  · simp [h, not_lt.mp h]

theorem nnlsStepLen_spec (x s : ℝ) : Rsa.Gen.C08.nnlsStepLen x s = x / (x - s) := rfl

theorem nnlsStepUpdate_spec (x a s : ℝ) : Rsa.Gen.C08.nnlsStepUpdate x a s = x + a * (s - x) := rfl

/-- a step of length `α ≤ x/(x−s)` towards a negative `s` keeps a non-negative coefficient
    non-negative, and the blocking coefficient itself lands on zero -/
theorem step_keeps_nonneg (x s a : ℝ) (hx : 0 ≤ x) (hs : s < 0) (ha : a ≤ Rsa.Gen.C08.nnlsStepLen x s) :
    0 ≤ Rsa.Gen.C08.nnlsStepUpdate x a s := by
  rw [nnlsStepLen_spec] at ha
  rw [nnlsStepUpdate_spec]
  have hd : 0 < x - s := by linarith
  have h1 : a * (x - s) ≤ x := by
    have := mul_le_mul_of_nonneg_right ha hd.le
    rwa [div_mul_cancel₀ _ hd.ne'] at this
  nlinarith

theorem step_blocking_zero (x s : ℝ) (hx : 0 ≤ x) (hs : s < 0) :
    Rsa.Gen.C08.nnlsStepUpdate x (Rsa.Gen.C08.nnlsStepLen x s) s = 0 := by
  rw [nnlsStepLen_spec, nnlsStepUpdate_spec]
  have hd : x - s ≠ 0 := by linarith
  field_simp
  ring

theorem step_free_nonneg (x s a : ℝ) (hx : 0 ≤ x) (hs : 0 ≤ s) (ha0 : 0 ≤ a) (ha1 : a ≤ 1) :
    0 ≤ Rsa.Gen.C08.nnlsStepUpdate x a s := by
  rw [nnlsStepUpdate_spec]
  nlinarith [mul_nonneg ha0 hs, mul_nonneg (sub_nonneg.mpr ha1) hx]

/-! ### the optimising fitters -/

theorem lossOf_zero_ridge (score : List ℝ → ℝ) (θ : List ℝ) : lossOf score 0 θ = - score θ := by
  unfold lossOf Rsa.Gen.C08.lossValue
  ring

theorem squareParam_getD (φ : List ℝ) : squareParam φ = φ.map (fun t => t * t) := by
  unfold squareParam
  simp only [Rsa.Gen.C08.positiveParam]

theorem squareParam_nonneg (φ : List ℝ) : ∀ t ∈ squareParam φ, 0 ≤ t := by
  rw [squareParam_getD]
  intro t ht
  obtain ⟨u, _, rfl⟩ := List.mem_map.mp ht
  exact mul_self_nonneg u

theorem squareParam_sqrt (θ : List ℝ) (h : ∀ t ∈ θ, 0 ≤ t) : squareParam (θ.map Real.sqrt) = θ := by
  rw [squareParam_getD, List.map_map]
  conv_rhs => rw [← List.map_id θ]
  apply List.map_congr_left
  intro t ht
  simp only [Function.comp, id]
  exact Real.mul_self_sqrt (h t ht)

/-! ### centred / whitened inner products and poolings -/

theorem dot_map_sub_const_right (x b : List ℝ) (k : ℝ) (h : x.length = b.length) :
    dot x (b.map (fun a => a - k)) = dot x b - k * x.sum := by
  induction x generalizing b with
  | nil => simp
  | cons a x ih => cases b with
    | nil => simp at h
    | cons c b =>
      simp only [List.length_cons, Nat.add_right_cancel_iff] at h
      simp only [List.map_cons, dot_cons_cons, List.sum_cons, ih b h]
      ring

theorem sum_center_zero (x : List ℝ) : (center x).sum = 0 := by
  unfold center mean
  have : ∀ (l : List ℝ) (b : ℝ), (l.map (fun a => a - b)).sum = l.sum - l.length * b := by
    intro l b
    induction l with
    | nil => simp
    | cons a l ih => simp only [List.map_cons, List.sum_cons, ih, List.length_cons]; push_cast; ring
  rw [this]
  by_cases h : (x.length : ℝ) = 0
  · have h0 : x.length = 0 := by exact_mod_cast h
    have : x = [] := List.eq_nil_of_length_eq_zero h0
    subst this; simp
  · field_simp; ring

/-- `⟨ã, b̃⟩ = ⟨ã, b⟩`: removing the mean of one argument is enough -/
theorem dot_center_right (a b : List ℝ) (h : a.length = b.length) :
    dot (center a) (center b) = dot (center a) b := by
  conv_lhs => rw [show center b = b.map (fun v => v - mean b) from rfl]
  rw [dot_map_sub_const_right _ _ _ (by rw [center_length, h]), sum_center_zero]
  ring

theorem center_shift (y : List ℝ) (k : ℝ) : center (y.map (fun a => a - k)) = center y := by
  by_cases hy : y = []
  · subst hy; simp [center]
  · have hl : (y.length : ℝ) ≠ 0 := by
      have : y.length ≠ 0 := fun h => hy (List.eq_nil_of_length_eq_zero h)
      exact_mod_cast this
    have hm : mean (y.map (fun a => a - k)) = mean y - k := by
      unfold mean
      have : ∀ (l : List ℝ), (l.map (fun a => a - k)).sum = l.sum - l.length * k := by
        intro l
        induction l with
        | nil => simp
        | cons a l ih => simp only [List.map_cons, List.sum_cons, ih, List.length_cons]; push_cast; ring
      rw [this, List.length_map]
      field_simp
    unfold center
    rw [hm]
    simp [List.map_map, Function.comp_def]

theorem map_center_headD (data : List (List ℝ)) :
    ((data.map center).headD []).length = (data.headD []).length := by
  cases data with
  | nil => rfl
  | cons d _ => simp [center_length]

/-- the correlation pooling is the cosine pooling of the mean-removed RDMs, shifted -/
theorem pool_corr_eq (sol : List ℝ → List ℝ) (data : List (List ℝ)) :
    pool .corr sol data =
      (pool .cosine sol (data.map center)).map
        (fun a => a - (minL (pool .cosine sol (data.map center)) - ((1 : ℕ) : ℝ) / ((100 : ℕ) : ℝ))) := by
  unfold pool
  simp only [map_center_headD, List.map_map, Function.comp_def]
  apply List.map_congr_left
  intro a _
  ring

/-- the coded correlation pooling is a pooled target for the inner product of mean-removed
    vectors, with factor `√m / R` -/
theorem pool_corr_isPool (m : ℕ) (hm : 0 < m) (sol : List ℝ → List ℝ) (data : List (List ℝ))
    (hne : data ≠ []) (hlen : ∀ d ∈ data, d.length = m)
    (hpos : ∀ d ∈ data, 0 < dot (center d) (center d)) :
    IsPool m (fun a b => dot (center a) (center b)) data (pool .corr sol data)
      (Real.sqrt m / (data.length : ℝ)) := by
  have hne' : data.map center ≠ [] := by simpa using hne
  have hlen' : ∀ d ∈ data.map center, d.length = m := by
    intro d hd
    obtain ⟨d0, h0, rfl⟩ := List.mem_map.mp hd
    rw [center_length]; exact hlen d0 h0
  have hpos' : ∀ d ∈ data.map center, 0 < dot d d := by
    intro d hd
    obtain ⟨d0, h0, rfl⟩ := List.mem_map.mp hd
    exact hpos d0 h0
  have hc := pool_cosine_isPool m hm sol (data.map center) hne' hlen' hpos'
  rw [List.length_map] at hc
  refine ⟨hc.pos, ?_, ?_⟩
  · rw [pool_corr_eq, List.length_map]; exact hc.len
  · intro a ha
    show dot (center a) (center (pool .corr sol data)) = _
    rw [pool_corr_eq, center_shift, dot_center_right _ _ (by rw [ha, hc.len]),
      hc.eq (center a) (by rw [center_length, ha]), List.map_map]
    rfl

/-- the inner product of mean-removed vectors weighted by a symmetric positive definite `W` -/
noncomputable def ipCW (W : List (List ℝ)) (a b : List ℝ) : ℝ := ipW W (center a) (center b)

theorem isIP_centerW {W : List (List ℝ)} {m : ℕ} (hW : SymPosDef W m) : IsIP m (ipCW W) where
  add_left a b c ha hb hc := by
    unfold ipCW
    rw [center_vadd a b (ha.trans hb.symm)]
    exact (isIP_W hW).add_left _ _ _ (by rw [center_length, ha]) (by rw [center_length, hb])
      (by rw [center_length, hc])
  smul_left t a c ha hc := by
    unfold ipCW
    rw [center_vscale]
    exact (isIP_W hW).smul_left t _ _ (by rw [center_length, ha]) (by rw [center_length, hc])
  zero_left c hc := by
    unfold ipCW
    rw [center_replicate_zero]
    exact (isIP_W hW).zero_left _ (by rw [center_length, hc])
  symm a b ha hb := by
    unfold ipCW
    exact (isIP_W hW).symm _ _ (by rw [center_length, ha]) (by rw [center_length, hb])
  nonneg a ha := by
    unfold ipCW
    exact (isIP_W hW).nonneg _ (by rw [center_length, ha])

/-- the coded whitened-cosine pooling (`rdm / sqrt(rdmᵀ V⁻¹ rdm)`, then the mean) is a pooled
    target for `aᵀWb`, `W = V⁻¹`, given that the solve returns `W·` (contract of `cg`);
    factor `1 / R` -/
theorem pool_cosineCov_isPool (m : ℕ) {W : List (List ℝ)} (hW : SymPosDef W m)
    (sol : List ℝ → List ℝ) (hsol : ∀ v, v.length = m → sol v = matVec W v)
    (data : List (List ℝ)) (hne : data ≠ []) (hlen : ∀ d ∈ data, d.length = m) :
    IsPool m (ipW W) data (pool .cosineCov sol data) (1 / (data.length : ℝ)) := by
  have hR : (0 : ℝ) < (data.length : ℝ) := by exact_mod_cast List.length_pos_of_ne_nil hne
  have hhead : (data.headD []).length = m := by
    cases data with
    | nil => exact absurd rfl hne
    | cons d _ => exact hlen d (by simp)
  have hrows : ∀ r ∈ data.map (fun d => d.map (fun a => a / HasSqrt.sqrt (dot d (sol d)))),
      r.length = m := by
    intro r hr
    obtain ⟨d, hd, rfl⟩ := List.mem_map.mp hr
    rw [List.length_map]; exact hlen d hd
  have hylen : (pool .cosineCov sol data).length = m := by
    unfold pool
    simp only [hhead]
    exact rowMean_length m _ hrows
  refine ⟨by positivity, hylen, ?_⟩
  intro a ha
  have hWa : (matVec W a).length = m := by rw [matVec_length, hW.rows]
  rw [(isIP_W hW).symm a _ ha hylen]
  show dot (pool .cosineCov sol data) (matVec W a) = _
  rw [dot_comm']
  unfold pool
  simp only [hhead]
  rw [dot_rowMean m _ _ hrows, List.length_map, List.map_map]
  have e : (data.map ((dot (matVec W a)) ∘ fun d =>
      d.map (fun x => x / HasSqrt.sqrt (dot d (sol d))))) =
      data.map (fun d => ipW W a d / Real.sqrt (ipW W d d)) := by
    apply List.map_congr_left
    intro d hd
    simp only [Function.comp]
    rw [dot_map_div_right, hsol d (hlen d hd), hasSqrt_real, dot_comm' (matVec W a) d]
    show ipW W d a / Real.sqrt (ipW W d d) = _
    rw [(isIP_W hW).symm d a (hlen d hd) ha]
  rw [e]
  field_simp

theorem sum_map_div_right (l : List ℝ) (s : ℝ) : (l.map (fun a => a / s)).sum = l.sum / s := by
  induction l with
  | nil => simp
  | cons a l ih => simp only [List.map_cons, List.sum_cons, ih]; ring

theorem sum_foldr_vadd (m : ℕ) (rows : List (List ℝ)) (h : ∀ r ∈ rows, r.length = m) :
    (rows.foldr vadd (List.replicate m 0)).sum = (rows.map List.sum).sum := by
  induction rows with
  | nil => simp
  | cons r rows ih =>
    have h' : ∀ r' ∈ rows, r'.length = m := fun r' hr' => h r' (List.mem_cons_of_mem _ hr')
    simp only [List.foldr_cons, List.map_cons, List.sum_cons]
    rw [sum_vadd r _ (by rw [h r (by simp), foldr_vadd_length m rows h']), ih h']

/-- the mean of rows that each sum to zero sums to zero -/
theorem sum_rowMean_zero (m : ℕ) (rows : List (List ℝ)) (h : ∀ r ∈ rows, r.length = m)
    (hz : ∀ r ∈ rows, r.sum = 0) : (rowMean m rows).sum = 0 := by
  unfold rowMean
  rw [sum_map_div_right, sum_foldr_vadd m rows h]
  have : (rows.map List.sum).sum = 0 := by
    have e : rows.map List.sum = rows.map (fun _ => (0 : ℝ)) := by
      apply List.map_congr_left
      intro r hr
      exact hz r hr
    rw [e, sum_map_zero]
  rw [this]; simp

theorem center_of_sum_zero (y : List ℝ) (h : y.sum = 0) : center y = y := by
  unfold center mean
  rw [h]
  simp

/-- the whitened-correlation pooling is the whitened-cosine pooling of the mean-removed RDMs,
    shifted -/
theorem pool_corrCov_eq (sol : List ℝ → List ℝ) (data : List (List ℝ)) :
    pool .corrCov sol data =
      (pool .cosineCov sol (data.map center)).map
        (fun a => a - (minL (pool .cosineCov sol (data.map center)) - ((1 : ℕ) : ℝ) / ((100 : ℕ) : ℝ))) := by
  unfold pool
  simp only [map_center_headD, List.map_map, Function.comp_def]
  apply List.map_congr_left
  intro a _
  ring

/-- the coded whitened-correlation pooling is a pooled target for the whitened inner product of
    mean-removed vectors (factor `1 / R`) -/
theorem pool_corrCov_isPool (m : ℕ) {W : List (List ℝ)} (hW : SymPosDef W m)
    (sol : List ℝ → List ℝ) (hsol : ∀ v, v.length = m → sol v = matVec W v)
    (data : List (List ℝ)) (hne : data ≠ []) (hlen : ∀ d ∈ data, d.length = m) :
    IsPool m (ipCW W) data (pool .corrCov sol data) (1 / (data.length : ℝ)) := by
  have hne' : data.map center ≠ [] := by simpa using hne
  have hlen' : ∀ d ∈ data.map center, d.length = m := by
    intro d hd
    obtain ⟨d0, h0, rfl⟩ := List.mem_map.mp hd
    rw [center_length]; exact hlen d0 h0
  have hc := pool_cosineCov_isPool m hW sol hsol (data.map center) hne' hlen'
  rw [List.length_map] at hc
  -- the whitened-cosine pool of centred rows sums to zero, hence is its own centred version
  have hy0 : center (pool .cosineCov sol (data.map center)) = pool .cosineCov sol (data.map center) := by
    apply center_of_sum_zero
    have hhead : ((data.map center).headD []).length = m := by
      cases data with
      | nil => exact absurd rfl hne
      | cons d _ => simp [center_length, hlen d (by simp)]
    unfold pool
    simp only [hhead]
    apply sum_rowMean_zero m
    · intro r hr
      obtain ⟨d, hd, rfl⟩ := List.mem_map.mp hr
      rw [List.length_map]; exact hlen' d hd
    · intro r hr
      obtain ⟨d, hd, rfl⟩ := List.mem_map.mp hr
      obtain ⟨d0, _, rfl⟩ := List.mem_map.mp hd
      rw [sum_map_div_right, sum_center_zero]; simp
  refine ⟨hc.pos, ?_, ?_⟩
  · rw [pool_corrCov_eq, List.length_map]; exact hc.len
  · intro a ha
    show ipW W (center a) (center (pool .corrCov sol data)) = _
    rw [pool_corrCov_eq, center_shift, hy0, hc.eq (center a) (by rw [center_length, ha]), List.map_map]
    rfl

end Fit
end Rsa
