/- memory layout of the measurement array: reads through strides (helper lemmas for C15) -/
import Mathlib.Tactic.Ring
import Mathlib.Tactic.Push
import Rsa.Core.C15Layout

set_option linter.unusedSectionVars false
set_option linter.unusedVariables false

namespace Rsa.Unb

theorem rowMajor_read {β : Type} (P : Nat) (M : Nat → Nat → β) (i j : Nat) (hj : j < P) :
    (rowMajor P M).read i j = M i j := by
  have hP : 0 < P := by omega
  have h : ((0 : Int) + (i : Int) * (P : Int) + (j : Int) * 1).toNat = j + i * P := by
    have e : (0 : Int) + (i : Int) * (P : Int) + (j : Int) * 1 = ((j + i * P : Nat) : Int) := by
      push_cast; ring
    rw [e, Int.toNat_natCast]
  unfold View.read rowMajor
  simp only [h]
  rw [Nat.add_mul_div_right j i hP, Nat.add_mul_mod_self_right, Nat.div_eq_of_lt hj,
    Nat.mod_eq_of_lt hj, Nat.zero_add]

theorem colMajor_read {β : Type} (n : Nat) (M : Nat → Nat → β) (i j : Nat) (hi : i < n) :
    (colMajor n M).read i j = M i j := by
  have hn : 0 < n := by omega
  have h : ((0 : Int) + (i : Int) * 1 + (j : Int) * (n : Int)).toNat = i + j * n := by
    have e : (0 : Int) + (i : Int) * 1 + (j : Int) * (n : Int) = ((i + j * n : Nat) : Int) := by
      push_cast; ring
    rw [e, Int.toNat_natCast]
  unfold View.read colMajor
  simp only [h]
  rw [Nat.add_mul_div_right i j hn, Nat.add_mul_mod_self_right, Nat.div_eq_of_lt hi,
    Nat.mod_eq_of_lt hi, Nat.zero_add]

/-- `ensure_double` keeps the logical content, whatever the layout of the source -/
theorem ensureDouble_read {β γ : Type} (cast : β → γ) (n P : Nat) (v : View β) (i j : Nat)
    (hi : i < n) (hj : j < P) : (ensureDouble cast n P v).read i j = cast (v.read i j) := by
  unfold ensureDouble
  split
  · exact rowMajor_read P _ i j hj
  · exact colMajor_read n _ i j hi

theorem kernelInput_ensureDouble {β α : Type} (cast : β → Option α) (n P : Nat) (v : View β) :
    kernelInput n P (ensureDouble cast n P v)
      = fun i ch => if i < n ∧ ch < P then cast (v.read i ch) else none := by
  funext i ch
  unfold kernelInput
  by_cases h : i < n ∧ ch < P
  · rw [if_pos h, if_pos h, ensureDouble_read cast n P v i ch h.1 h.2]
  · rw [if_neg h, if_neg h]

end Rsa.Unb
