/-
  Helper lemmas for C07, part 3: leaving a data RDM out of the pool cannot raise its similarity
  to that RDM — for every symmetric positive semi-definite bilinear form on the RDM entries
  (`IPForm`: the plain inner product, or `xᵀV⁻¹y` for a symmetric positive definite `V`).
-/
import Rsa.Lemmas.C07Opt
import Rsa.Lemmas.C03Whiten

set_option linter.unusedSectionVars false
set_option linter.unusedVariables false
set_option linter.unusedSimpArgs false

namespace Rsa.Ceiling
open Rsa Rsa.Compare

/-! ### the scalar core -/

theorem sqrt_pos_iff_of_nonneg {x : ℝ} : 0 < Real.sqrt x ↔ 0 < x := Real.sqrt_pos

/-- `A = ⟨m,m⟩`, `R = ⟨r,r⟩`, `a = ⟨m,r⟩`, `c > 0`: the cosine of `m - c r` with `r` is at most the
    cosine of `m` with `r` (with the convention that a zero vector has cosine 0). -/
theorem loo_scalar (A R a c : ℝ) (hA : 0 ≤ A) (hR : 0 < R) (hc : 0 < c) (hcs : a * a ≤ A * R) :
    cosS (a - c * R) (A - 2 * c * a + c * c * R) R ≤ cosS a A R := by
  set A' := A - 2 * c * a + c * c * R with hA'
  have hcs' : (a - c * R) * (a - c * R) ≤ A' * R := by rw [hA']; nlinarith
  have hA'0 : 0 ≤ A' := by
    by_contra h
    push Not at h
    nlinarith [mul_self_nonneg (a - c * R)]
  have key : a * a * A' - (a - c * R) * (a - c * R) * A = c * (R * A - a * a) * (2 * a - c * R) := by
    rw [hA']; ring
  have hsR : 0 < Real.sqrt R := Real.sqrt_pos.mpr hR
  unfold cosS
  by_cases h1 : 0 < Real.sqrt A'
  · have hA'pos : 0 < A' := Real.sqrt_pos.mp h1
    by_cases h2 : 0 < Real.sqrt A
    · have hApos : 0 < A := Real.sqrt_pos.mp h2
      rw [if_pos ⟨h1, hsR⟩, if_pos ⟨h2, hsR⟩]
      rw [div_le_div_iff_of_pos_right hsR, div_le_div_iff₀ h1 h2]
      have s1 : Real.sqrt A * Real.sqrt A = A := Real.mul_self_sqrt hA
      have s2 : Real.sqrt A' * Real.sqrt A' = A' := Real.mul_self_sqrt hA'0
      have hRA : 0 ≤ R * A - a * a := by nlinarith
      by_cases ha : 0 ≤ a
      · by_cases hd : a - c * R ≤ 0
        · have : (a - c * R) * Real.sqrt A ≤ 0 := mul_nonpos_of_nonpos_of_nonneg hd h2.le
          have : 0 ≤ a * Real.sqrt A' := mul_nonneg ha h1.le
          linarith
        · push Not at hd
          by_contra hcon
          push Not at hcon
          have hlt := mul_self_lt_mul_self (mul_nonneg ha h1.le) hcon
          have e1 : a * Real.sqrt A' * (a * Real.sqrt A') = a * a * A' := by
            have : a * Real.sqrt A' * (a * Real.sqrt A') = a * a * (Real.sqrt A' * Real.sqrt A') := by ring
            rw [this, s2]
          have e2 : (a - c * R) * Real.sqrt A * ((a - c * R) * Real.sqrt A)
              = (a - c * R) * (a - c * R) * A := by
            have : (a - c * R) * Real.sqrt A * ((a - c * R) * Real.sqrt A)
                = (a - c * R) * (a - c * R) * (Real.sqrt A * Real.sqrt A) := by ring
            rw [this, s1]
          rw [e1, e2] at hlt
          have : 0 ≤ c * (R * A - a * a) * (2 * a - c * R) :=
            mul_nonneg (mul_nonneg hc.le hRA) (by linarith)
          linarith
      · push Not at ha
        have hd : a - c * R < 0 := by nlinarith
        by_contra hcon
        push Not at hcon
        -- 0 ≤ -(a-cR)·√A < -a·√A'
        have h0 : 0 ≤ -((a - c * R) * Real.sqrt A) := by
          have := mul_nonpos_of_nonpos_of_nonneg hd.le h2.le
          linarith
        have hlt := mul_self_lt_mul_self h0 (by linarith : -((a - c * R) * Real.sqrt A) < -(a * Real.sqrt A'))
        have e1 : -(a * Real.sqrt A') * -(a * Real.sqrt A') = a * a * A' := by
          have : -(a * Real.sqrt A') * -(a * Real.sqrt A') = a * a * (Real.sqrt A' * Real.sqrt A') := by ring
          rw [this, s2]
        have e2 : -((a - c * R) * Real.sqrt A) * -((a - c * R) * Real.sqrt A)
            = (a - c * R) * (a - c * R) * A := by
          have : -((a - c * R) * Real.sqrt A) * -((a - c * R) * Real.sqrt A)
              = (a - c * R) * (a - c * R) * (Real.sqrt A * Real.sqrt A) := by ring
          rw [this, s1]
        rw [e1, e2] at hlt
        have : c * (R * A - a * a) * (2 * a - c * R) ≤ 0 :=
          mul_nonpos_of_nonneg_of_nonpos (mul_nonneg hc.le hRA) (by nlinarith)
        linarith
    · -- A = 0, hence a = 0: left side is negative
      have hA0 : A = 0 := by
        have : Real.sqrt A = 0 := le_antisymm (not_lt.mp h2) (Real.sqrt_nonneg A)
        exact le_antisymm ((Real.sqrt_eq_zero'.mp this)) hA
      have ha0 : a = 0 := by
        rw [hA0, zero_mul] at hcs
        nlinarith [mul_self_nonneg a]
      rw [if_pos ⟨h1, hsR⟩, if_neg (fun h => h2 h.1), ha0]
      have : (0 - c * R) ≤ 0 := by nlinarith
      exact div_nonpos_of_nonpos_of_nonneg (div_nonpos_of_nonpos_of_nonneg this h1.le) hsR.le
  · -- A' = 0, hence a = cR > 0
    have hA'z : A' = 0 := by
      have : Real.sqrt A' = 0 := le_antisymm (not_lt.mp h1) (Real.sqrt_nonneg A')
      exact le_antisymm (Real.sqrt_eq_zero'.mp this) hA'0
    rw [if_neg (fun h => h1 h.1)]
    by_cases h2 : 0 < Real.sqrt A
    · rw [if_pos ⟨h2, hsR⟩]
      have : a = c * R := by
        rw [hA'z, zero_mul] at hcs'
        nlinarith [mul_self_nonneg (a - c * R)]
      have ha : 0 ≤ a := by rw [this]; positivity
      exact div_nonneg (div_nonneg ha h2.le) hsR.le
    · rw [if_neg (fun h => h2 h.1)]

/-- the same with positive rescalings `k`, `l` of the two predictions -/
theorem loo_scalar_scaled (A R a c k l : ℝ) (hA : 0 ≤ A) (hR : 0 < R) (hc : 0 < c) (hk : 0 < k)
    (hl : 0 < l) (hcs : a * a ≤ A * R) :
    cosS (k * (a - c * R)) (k * k * (A - 2 * c * a + c * c * R)) R ≤ cosS (l * a) (l * l * A) R := by
  rw [cosS_scale _ _ _ k hk, cosS_scale _ _ _ l hl]
  exact loo_scalar A R a c hA hR hc hcs

/-! ### symmetric positive semi-definite forms on vectors of length `p` -/

structure IPForm (p : ℕ) (B : List ℝ → List ℝ → ℝ) : Prop where
  symm : ∀ x y, x.length = p → y.length = p → B x y = B y x
  add_left : ∀ x y z, x.length = p → y.length = p → z.length = p → B (vadd x y) z = B x z + B y z
  smul_left : ∀ x z k, x.length = p → z.length = p → B (x.map (· * k)) z = k * B x z
  nonneg : ∀ x, x.length = p → 0 ≤ B x x
  cs : ∀ x y, x.length = p → y.length = p → B x y * B x y ≤ B x x * B y y

/-- cosine with respect to a form, zero-norm guard → 0 -/
noncomputable def cosB (B : List ℝ → List ℝ → ℝ) (x y : List ℝ) : ℝ := cosS (B x y) (B x x) (B y y)

theorem ipForm_dot (p : ℕ) : IPForm p dot where
  symm := fun x y _ _ => dot_comm x y
  add_left := fun x y z hx hy _ => dot_vadd_left x y z (by rw [hx, hy])
  smul_left := fun x z k _ _ => by rw [dot_map_mul_left, mul_comm]
  nonneg := fun x _ => dot_self_nonneg x
  cs := fun x y _ _ => dot_sq_le x y

theorem cosB_dot (x y : List ℝ) : cosB dot x y = cosine x y := rfl

namespace IPForm
variable {p : ℕ} {B : List ℝ → List ℝ → ℝ}

theorem add_right (h : IPForm p B) (x y z : List ℝ) (hx : x.length = p) (hy : y.length = p)
    (hz : z.length = p) : B z (vadd x y) = B z x + B z y := by
  have hl : (vadd x y).length = p := by rw [vadd_length, hx, hy]; simp
  rw [h.symm z _ hz hl, h.add_left x y z hx hy hz, h.symm x z hx hz, h.symm y z hy hz]

theorem smul_right (h : IPForm p B) (x z : List ℝ) (k : ℝ) (hx : x.length = p) (hz : z.length = p) :
    B z (x.map (· * k)) = k * B z x := by
  have hl : (x.map (· * k)).length = p := by simpa using hx
  rw [h.symm z _ hz hl, h.smul_left x z k hx hz, h.symm x z hx hz]

theorem cosB_smul_left (h : IPForm p B) (x y : List ℝ) (k : ℝ) (hk : 0 < k) (hx : x.length = p)
    (hy : y.length = p) : cosB B (x.map (· * k)) y = cosB B x y := by
  have hl : (x.map (· * k)).length = p := by simpa using hx
  unfold cosB
  rw [h.smul_left x y k hx hy, h.smul_left x _ k hx hl, h.smul_right x x k hx hx]
  have : k * (k * B x x) = k * k * B x x := by ring
  rw [this]
  exact cosS_scale _ _ _ k hk

theorem cosB_div_left (h : IPForm p B) (x y : List ℝ) (k : ℝ) (hk : 0 < k) (hx : x.length = p)
    (hy : y.length = p) : cosB B (x.map (· / k)) y = cosB B x y := by
  have : x.map (· / k) = x.map (· * k⁻¹) := by simp [div_eq_mul_inv]
  rw [this]
  exact h.cosB_smul_left x y _ (inv_pos.mpr hk) hx hy

/-- **leave-one-out ≤ full pool**, for a sum `W` of vectors whose `i`-th member is a positive
    multiple `c r` of the left-out RDM `r` -/
theorem loo_sum_le (h : IPForm p B) (W : List (List ℝ)) (i : ℕ) (hi : i < W.length)
    (hlen : ∀ w ∈ W, w.length = p) (r : List ℝ) (hrl : r.length = p) (c : ℝ) (hc : 0 < c)
    (hw : W[i] = r.map (· * c)) (hr : 0 < B r r) :
    cosB B (vsumP p (W.eraseIdx i)) r ≤ cosB B (vsumP p W) r := by
  set M := vsumP p W with hM
  set M' := vsumP p (W.eraseIdx i) with hM'
  have hwl : (r.map (· * c)).length = p := by simpa using hrl
  have hlen' : ∀ w ∈ W.eraseIdx i, w.length = p := fun w hw' => hlen w (List.mem_of_mem_eraseIdx hw')
  have hM'l : M'.length = p := vsumP_length p _ hlen'
  have hMl : M.length = p := vsumP_length p _ hlen
  have hsplit : M = vadd (r.map (· * c)) M' := by
    rw [hM, vsumP_eraseIdx p W i hi, hw]
  -- inner products of M in terms of those of M'
  have e1 : B M r = c * B r r + B M' r := by
    rw [hsplit, h.add_left _ _ r hwl hM'l hrl, h.smul_left r r c hrl hrl]
  have e2 : B M M = c * c * B r r + 2 * c * B M' r + B M' M' := by
    have hv : (vadd (r.map (· * c)) M').length = p := by rw [← hsplit]; exact hMl
    rw [hsplit, h.add_left _ _ _ hwl hM'l hv, h.add_right _ _ _ hwl hM'l hwl,
      h.add_right _ _ _ hwl hM'l hM'l, h.smul_left r _ c hrl hwl, h.smul_right r r c hrl hrl,
      h.smul_left r M' c hrl hM'l, h.smul_right r M' c hrl hM'l, h.symm r M' hrl hM'l]
    ring
  have hcs := h.cs M r hMl hrl
  have hA := h.nonneg M hMl
  have key := loo_scalar (B M M) (B r r) (B M r) c hA hr hc hcs
  unfold cosB
  have f1 : B M' r = B M r - c * B r r := by linarith
  have f2 : B M' M' = B M M - 2 * c * B M r + c * c * B r r := by rw [e2, e1]; ring
  rw [f1, f2]
  exact key

end IPForm

/-! ### the pools of `pool_rdm` as scaled sums; leave-one-out for the cosine and correlation pools -/

theorem eraseIdx_map {β γ : Type} (f : β → γ) (l : List β) (i : ℕ) :
    (l.map f).eraseIdx i = (l.eraseIdx i).map f := by
  induction l generalizing i with
  | nil => simp
  | cons a l ih => cases i with
    | zero => simp
    | succ i => simp [ih i]

theorem inv_rms_mul (x : List ℝ) : applyD cosF x = x.map (· * (rms x)⁻¹) := by
  rw [applyD_cosF]; simp [div_eq_mul_inv]

/-- for every form: the pool without RDM `i` is no more similar to RDM `i` than the full pool
    (cosine-type pooling: each RDM divided by its root mean square, then averaged) -/
theorem loo_cosine_pool_le {p : ℕ} {B : List ℝ → List ℝ → ℝ} (h : IPForm p B)
    (rows : List (List ℝ)) (i : ℕ) (hi : i < rows.length) (h2 : 2 ≤ rows.length)
    (hlen : ∀ r ∈ rows, r.length = p) (hpos : 0 < dot rows[i] rows[i]) (hB : 0 < B rows[i] rows[i]) :
    cosB B (poolD .cosine (rows.eraseIdx i)) rows[i] ≤ cosB B (poolD .cosine rows) rows[i] := by
  have hne : rows ≠ [] := by rintro rfl; simp at hi
  have hel : (rows.eraseIdx i).length = rows.length - 1 := List.length_eraseIdx_of_lt hi
  have hne' : rows.eraseIdx i ≠ [] := by
    intro hh; rw [hh] at hel; simp at hel; omega
  have hlen' : ∀ r ∈ rows.eraseIdx i, r.length = p := fun r hr => hlen r (List.mem_of_mem_eraseIdx hr)
  have hW := map_applyD_length cosF p rows hlen
  have hW' := map_applyD_length cosF p _ hlen'
  have hri : rows[i].length = p := hlen _ (List.getElem_mem hi)
  rw [poolD_cosine, poolD_cosine, meanRows_eq p _ (by simpa using hne') hW',
    meanRows_eq p _ (by simpa using hne) hW, List.length_map, List.length_map]
  have hn : 0 < (rows.length : ℝ) := by
    have : 0 < rows.length := by omega
    exact_mod_cast this
  have hn' : 0 < ((rows.eraseIdx i).length : ℝ) := by
    have : 0 < (rows.eraseIdx i).length := by rw [hel]; omega
    exact_mod_cast this
  rw [h.cosB_div_left _ _ _ hn' (vsumP_length p _ hW') hri,
    h.cosB_div_left _ _ _ hn (vsumP_length p _ hW) hri, ← eraseIdx_map]
  have hi' : i < (rows.map (applyD cosF)).length := by simpa using hi
  refine h.loo_sum_le (rows.map (applyD cosF)) i hi' hW rows[i] hri (rms rows[i])⁻¹
    (inv_pos.mpr (rms_pos hpos)) ?_ hB
  rw [List.getElem_map, inv_rms_mul]

end Rsa.Ceiling
