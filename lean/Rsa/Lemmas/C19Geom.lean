/- helper lemmas for property C19: the bounding-box pre-filter and the distance test -/
import Mathlib.Algebra.Order.Field.Basic
import Mathlib.Algebra.Order.Ring.Abs
import Mathlib.Algebra.Order.Ring.Cast
import Mathlib.Data.Int.Cast.Lemmas
import Mathlib.Tactic.Ring
import Mathlib.Tactic.Linarith
import Mathlib.Tactic.Positivity
import Rsa.Lemmas.C19

set_option linter.unusedSectionVars false
set_option linter.unusedVariables false
set_option linter.unusedSimpArgs false
set_option linter.style.longLine false

namespace Rsa.Searchlight

variable {K : Type} [Field K] [LinearOrder K] [IsStrictOrderedRing K]

/-- the three regenerated per-axis comparisons are `|x - c| < r` -/
theorem absLtX_iff (x c r : K) : Rsa.Gen.C19.absLtX x c r = true ↔ |x - c| < r := by
  simp only [Rsa.Gen.C19.absLtX, decide_eq_true_eq, abs_eq_max_neg]

theorem absLtY_iff (x c r : K) : Rsa.Gen.C19.absLtY x c r = true ↔ |x - c| < r := by
  simp only [Rsa.Gen.C19.absLtY, decide_eq_true_eq, abs_eq_max_neg]

theorem absLtZ_iff (x c r : K) : Rsa.Gen.C19.absLtZ x c r = true ↔ |x - c| < r := by
  simp only [Rsa.Gen.C19.absLtZ, decide_eq_true_eq, abs_eq_max_neg]

theorem distLt_iff (k : Int) (r : K) : distLt k r = true ↔ 0 < r ∧ (k : K) < r * r := by
  simp [distLt, Rsa.Gen.C19.radiusTest]

theorem mem_axisPre {test : K → K → K → Bool} (htest : ∀ x c r, test x c r = true ↔ |x - c| < r)
    {n : Nat} {c : Int} {r : K} {x : Nat} :
    x ∈ axisPre test n c r ↔ x < n ∧ |((x : Int) : K) - (c : K)| < r := by
  simp only [axisPre, List.mem_filter, List.mem_range, htest]

theorem axisPre_nodup (test : K → K → K → Bool) (n : Nat) (c : Int) (r : K) :
    (axisPre test n c r).Nodup :=
  List.Nodup.filter _ List.nodup_range

theorem mem_grid {xs ys zs : List Nat} {v : Vox} :
    v ∈ grid xs ys zs ↔ v.1 ∈ xs ∧ v.2.1 ∈ ys ∧ v.2.2 ∈ zs := by
  obtain ⟨x, y, z⟩ := v
  simp only [grid, List.mem_flatMap, List.mem_map, Prod.mk.injEq]
  constructor
  · rintro ⟨y', hy, x', hx, z', hz, rfl, rfl, rfl⟩
    exact ⟨hx, hy, hz⟩
  · rintro ⟨hx, hy, hz⟩
    exact ⟨y, hy, x, hx, z, hz, rfl, rfl, rfl⟩

theorem grid_nodup {xs ys zs : List Nat} (hx : xs.Nodup) (hy : ys.Nodup) (hz : zs.Nodup) :
    (grid xs ys zs).Nodup := by
  unfold grid
  rw [List.nodup_flatMap]
  refine ⟨fun y _ => ?_, ?_⟩
  · rw [List.nodup_flatMap]
    refine ⟨fun x _ => ?_, ?_⟩
    · exact List.Nodup.map (fun a b h => by simpa using h) hz
    · exact hx.imp (fun {a b} hab => by
        simp only [Function.onFun, List.disjoint_left, List.mem_map]
        rintro v ⟨z, _, rfl⟩ ⟨z', _, h⟩
        exact hab (by simpa using (congrArg (fun p : Vox => p.1) h).symm))
  · exact hy.imp (fun {a b} hab => by
      simp only [Function.onFun, List.disjoint_left, List.mem_flatMap, List.mem_map]
      rintro v ⟨x, _, z, _, rfl⟩ ⟨x', _, z', _, h⟩
      exact hab (by simpa using (congrArg (fun p : Vox => p.2.1) h).symm))

/-- the squared distance as a field element -/
theorem sqDist_cast (v : Vox) (c : Ctr) :
    ((sqDist v c : Int) : K)
      = (((v.1 : Int) : K) - (c.1 : K)) ^ 2 + (((v.2.1 : Int) : K) - (c.2.1 : K)) ^ 2
        + (((v.2.2 : Int) : K) - (c.2.2 : K)) ^ 2 := by
  simp only [sqDist, Int.cast_add, Int.cast_mul, Int.cast_sub]
  ring

theorem abs_lt_of_sq_le {a k r : K} (hr : 0 < r) (ha : a ^ 2 ≤ k) (hk : k < r * r) : |a| < r := by
  by_contra h
  have h' : r ≤ |a| := not_lt.mp h
  have h2 : r * r ≤ |a| * |a| := mul_le_mul h' h' hr.le (abs_nonneg a)
  have h3 : |a| * |a| = a ^ 2 := by rw [abs_mul_abs_self]; ring
  linarith

/-- **soundness of the bounding-box pre-filter**: a voxel passing the distance test passes
    the three per-axis tests -/
theorem prefilter_of_dist {v : Vox} {c : Ctr} {r : K} (hr : 0 < r)
    (hd : ((sqDist v c : Int) : K) < r * r) :
    |((v.1 : Int) : K) - (c.1 : K)| < r ∧ |((v.2.1 : Int) : K) - (c.2.1 : K)| < r
      ∧ |((v.2.2 : Int) : K) - (c.2.2 : K)| < r := by
  rw [sqDist_cast] at hd
  set a := ((v.1 : Int) : K) - (c.1 : K)
  set b := ((v.2.1 : Int) : K) - (c.2.1 : K)
  set d := ((v.2.2 : Int) : K) - (c.2.2 : K)
  have ha := sq_nonneg a
  have hb := sq_nonneg b
  have hd' := sq_nonneg d
  exact ⟨abs_lt_of_sq_le hr (by linarith) hd, abs_lt_of_sq_le hr (by linarith) hd,
    abs_lt_of_sq_le hr (by linarith) hd⟩

theorem mem_neighborsAlgo {s : Shape} {c : Ctr} {r : K} {v : Vox} :
    v ∈ neighborsAlgo s c r ↔ InVol s v ∧ 0 < r ∧ ((sqDist v c : Int) : K) < r * r := by
  simp only [neighborsAlgo, List.mem_filter, mem_grid, mem_axisPre absLtX_iff,
    mem_axisPre absLtY_iff, mem_axisPre absLtZ_iff, distLt_iff, InVol]
  constructor
  · rintro ⟨⟨⟨h1, _⟩, ⟨h2, _⟩, ⟨h3, _⟩⟩, hr, hd⟩
    exact ⟨⟨h1, h2, h3⟩, hr, hd⟩
  · rintro ⟨⟨h1, h2, h3⟩, hr, hd⟩
    obtain ⟨p1, p2, p3⟩ := prefilter_of_dist hr hd
    exact ⟨⟨⟨h1, p1⟩, ⟨h2, p2⟩, ⟨h3, p3⟩⟩, hr, hd⟩

theorem mem_neighborsSpec {s : Shape} {c : Ctr} {r : K} {v : Vox} :
    v ∈ neighborsSpec s c r ↔ InVol s v ∧ 0 < r ∧ ((sqDist v c : Int) : K) < r * r := by
  simp only [neighborsSpec, List.mem_filter, mem_allVoxels, distLt_iff]

theorem neighborsAlgo_nodup (s : Shape) (c : Ctr) (r : K) : (neighborsAlgo s c r).Nodup :=
  List.Nodup.filter _ (grid_nodup (axisPre_nodup _ _ _ _) (axisPre_nodup _ _ _ _)
    (axisPre_nodup _ _ _ _))

theorem neighborsSpec_nodup (s : Shape) (c : Ctr) (r : K) : (neighborsSpec s c r).Nodup :=
  List.Nodup.filter _ (allVoxels_nodup s)

theorem neighborsAlgo_perm_spec (s : Shape) (c : Ctr) (r : K) :
    (neighborsAlgo s c r).Perm (neighborsSpec s c r) :=
  (List.perm_ext_iff_of_nodup (neighborsAlgo_nodup s c r) (neighborsSpec_nodup s c r)).2
    (fun v => by rw [mem_neighborsAlgo, mem_neighborsSpec])

theorem sqDist_self (v : Vox) : sqDist v (ctrOf v) = 0 := by
  simp [sqDist, ctrOf]

end Rsa.Searchlight
