/-
  Helper lemmas for C03 (round 3): the list-of-rows Bures model (`Rsa.Compare.fidelity`,
  `buresSim`, `sqBuresMetric`) read as Mathlib matrices, so that the contract theorems of
  `Rsa.Lemmas.C03Bures` apply to the executable model.
-/
import Rsa.Lemmas.C03Bures
import Rsa.Lemmas.C03Whiten
import Mathlib.Algebra.BigOperators.Fin

set_option linter.unusedVariables false
set_option linter.unusedSectionVars false
set_option linter.unusedSimpArgs false

open Rsa Rsa.Compare Matrix

namespace Rsa.Compare

/-- `L` is an `n × n` list of rows -/
def IsSq (n : ℕ) (L : List (List ℝ)) : Prop := L.length = n ∧ ∀ r ∈ L, r.length = n

/-- a list of rows as a matrix -/
def toM (n : ℕ) (L : List (List ℝ)) : Matrix (Fin n) (Fin n) ℝ := fun i j => ent L i j

theorem isSq_matMul {n : ℕ} {X Y : List (List ℝ)} (hX : IsSq n X) (hY : IsSq n Y) :
    IsSq n (matMul X Y) := by
  have hw : (Y.headD []).length = n := by
    cases Y with
    | nil => simpa using hY.1
    | cons r t => exact hY.2 r List.mem_cons_self
  refine ⟨by simp [matMul, hX.1], ?_⟩
  intro r hr
  simp only [matMul, List.mem_map] at hr
  obtain ⟨x, _, rfl⟩ := hr
  have hw' : (Y.head?.getD []).length = n := by simpa using hw
  simp [hw']

theorem ent_matMul {n : ℕ} {X Y : List (List ℝ)} (hX : IsSq n X) (hY : IsSq n Y) (i j : ℕ)
    (hi : i < n) (hj : j < n) :
    ent (matMul X Y) i j = ∑ k ∈ Finset.range n, ent X i k * ent Y k j := by
  have hw : (Y.headD []).length = n := by
    cases Y with
    | nil => simpa using hY.1
    | cons r t => exact hY.2 r List.mem_cons_self
  have hiX : i < X.length := by rw [hX.1]; exact hi
  unfold ent
  have h1 : (matMul X Y).getD i [] = (List.range n).map (fun j =>
      dot X[i] (Y.map (fun br => br.getD j 0))) := by
    rw [List.getD_eq_getElem _ _ (by simpa [matMul] using hiX)]
    have hw' : (Y.head?.getD []).length = n := by simpa using hw
    simp [matMul, hw']
  rw [h1, List.getD_eq_getElem _ _ (by simpa using hj)]
  simp only [List.getElem_map, List.getElem_range]
  rw [dot_eq_sum_range' X[i] _ n (hX.2 _ (List.getElem_mem hiX)) (by simp [hY.1])]
  apply Finset.sum_congr rfl
  intro k hk
  congr 1
  · rw [List.getD_eq_getElem _ _ hiX]
  · have := List.getD_map (l := Y) (d := []) (n := k) (fun br : List ℝ => br.getD j 0)
    simpa using this

theorem toM_matMul {n : ℕ} {X Y : List (List ℝ)} (hX : IsSq n X) (hY : IsSq n Y) :
    toM n (matMul X Y) = toM n X * toM n Y := by
  funext i j
  rw [Matrix.mul_apply]
  unfold toM
  rw [ent_matMul hX hY i j i.2 j.2, ← Fin.sum_univ_eq_sum_range (fun k => ent X i k * ent Y k j) n]

theorem trace_toM {n : ℕ} {L : List (List ℝ)} (hL : IsSq n L) : Compare.trace L = (toM n L).trace := by
  unfold Compare.trace Matrix.trace toM ent
  rw [hL.1, sum_range_map, ← Fin.sum_univ_eq_sum_range (fun i => (L.getD i []).getD i 0) n]
  rfl

/-- the contract of the eigen-routine on `n × n` lists: the returned eigenvalues are the roots of
    the characteristic polynomial, with multiplicity (`np.linalg.eigvalsh`) -/
def EigContract (n : ℕ) (eigh : List (List ℝ) → List ℝ × List (List ℝ)) : Prop :=
  ∀ M, IsSq n M → (((eigh M).1 : List ℝ) : Multiset ℝ) = (toM n M).charpoly.roots

/-- the contract on `Asq = psdSqrt eigh A`: an `n × n` matrix that squares back to `A` -/
def SqrtContract (n : ℕ) (eigh : List (List ℝ) → List ℝ × List (List ℝ)) (A : List (List ℝ)) : Prop :=
  IsSq n A ∧ IsSq n (psdSqrt eigh A) ∧
    Rsa.Bures.IsSqrtOf (toM n (psdSqrt eigh A)) (toM n A)

theorem clamp0_eq_max (v : ℝ) : clamp0 v = max v 0 := by
  unfold clamp0
  by_cases h : (0 : ℝ) < v
  · simp [h, h.le]
  · simp [h, not_lt.mp h]

/-- the coded fidelity is the spectral `tr√` of `Asq B Asq` -/
theorem fidelity_bridge {n : ℕ} {eigh : List (List ℝ) → List ℝ × List (List ℝ)}
    (he : EigContract n eigh) {A B : List (List ℝ)} (hA : SqrtContract n eigh A) (hB : IsSq n B) :
    fidelity eigh A B
      = Rsa.Bures.trSqrtSpec (toM n (psdSqrt eigh A) * toM n B * toM n (psdSqrt eigh A)) := by
  obtain ⟨_, hS, _⟩ := hA
  have hm : IsSq n (matMul (matMul (psdSqrt eigh A) B) (psdSqrt eigh A)) :=
    isSq_matMul (isSq_matMul hS hB) hS
  unfold fidelity Rsa.Bures.trSqrtSpec
  simp only
  rw [← toM_matMul hS hB, ← toM_matMul (isSq_matMul hS hB) hS, ← he _ hm]
  rw [Multiset.map_coe, Multiset.sum_coe]
  congr 1
  apply List.map_congr_left
  intro v _
  rw [hasSqrt_real, clamp0_eq_max]

end Rsa.Compare
