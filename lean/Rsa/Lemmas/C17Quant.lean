/-
  Helper lemmas for C17: `quantileLin` (the model of `np.quantile`, default method 'linear').
  The index it computes (`qIdx`: a count) is the floor of the virtual index `q·(n-1)` capped at
  `n-1`; on an ascending list the value lies between the two neighbouring order statistics and
  is monotone in `q`.
-/
import Mathlib.Algebra.Order.Field.Basic
import Mathlib.Algebra.Order.Floor.Semiring
import Mathlib.Data.List.Basic
import Mathlib.Data.List.GetD
import Mathlib.Tactic.Linarith
import Mathlib.Tactic.Ring
import Rsa.Core.Transform

set_option linter.unusedSectionVars false
set_option linter.unusedVariables false
set_option linter.unusedSimpArgs false
set_option linter.unnecessarySimpa false

namespace Rsa.Transform

open Rsa

section
variable {K : Type} [Field K] [LinearOrder K] [IsStrictOrderedRing K]

/-- the index `quantileLin` computes: the number of `j < m` with `j + 1 ≤ pos` -/
def qIdx (m : ℕ) (pos : K) : ℕ :=
  (List.range m).countP (fun j => decide (((j + 1 : ℕ) : K) ≤ pos))

theorem quantileLin_eq (s : List K) (q : K) :
    quantileLin s q =
      s.getD (qIdx (s.length - 1) (q * ((s.length - 1 : ℕ) : K))) 0 +
        (q * ((s.length - 1 : ℕ) : K) - ((qIdx (s.length - 1) (q * ((s.length - 1 : ℕ) : K)) : ℕ) : K)) *
        (s.getD (qIdx (s.length - 1) (q * ((s.length - 1 : ℕ) : K)) + 1)
            (s.getD (qIdx (s.length - 1) (q * ((s.length - 1 : ℕ) : K))) 0) -
          s.getD (qIdx (s.length - 1) (q * ((s.length - 1 : ℕ) : K))) 0) := rfl

theorem qIdx_succ (m : ℕ) (pos : K) :
    qIdx (m + 1) pos = qIdx m pos + (if ((m + 1 : ℕ) : K) ≤ pos then 1 else 0) := by
  unfold qIdx
  rw [List.range_succ, List.countP_append]
  simp [List.countP_cons]

/-- the count is an initial segment: `j + 1 ≤ pos ↔ j < qIdx` for `j < m` -/
theorem qIdx_inv (m : ℕ) (pos : K) :
    qIdx m pos ≤ m ∧ ∀ j < m, (((j + 1 : ℕ) : K) ≤ pos ↔ j < qIdx m pos) := by
  induction m with
  | zero => exact ⟨by simp [qIdx], fun j hj => absurd hj (Nat.not_lt_zero j)⟩
  | succ m ih =>
    obtain ⟨h1, h2⟩ := ih
    rw [qIdx_succ]
    by_cases hm : ((m + 1 : ℕ) : K) ≤ pos
    · have hk : qIdx m pos = m := by
        by_contra hne
        have hlt : qIdx m pos < m := lt_of_le_of_ne h1 hne
        have hc : ((qIdx m pos + 1 : ℕ) : K) ≤ ((m + 1 : ℕ) : K) := by
          exact_mod_cast (by omega : qIdx m pos + 1 ≤ m + 1)
        exact lt_irrefl _ ((h2 _ hlt).mp (le_trans hc hm))
      rw [if_pos hm, hk]
      refine ⟨le_refl _, fun j hj => ⟨fun _ => hj, fun _ => ?_⟩⟩
      have hc : ((j + 1 : ℕ) : K) ≤ ((m + 1 : ℕ) : K) := by
        exact_mod_cast (by omega : j + 1 ≤ m + 1)
      exact le_trans hc hm
    · rw [if_neg hm, Nat.add_zero]
      refine ⟨by omega, fun j hj => ?_⟩
      rcases Nat.lt_succ_iff_lt_or_eq.mp hj with hj' | rfl
      · exact h2 j hj'
      · exact ⟨fun h => absurd h hm, fun h => absurd h (by omega)⟩

theorem qIdx_le (m : ℕ) (pos : K) : qIdx m pos ≤ m := (qIdx_inv m pos).1

theorem qIdx_cast_le {m : ℕ} {pos : K} (h0 : 0 ≤ pos) : ((qIdx m pos : ℕ) : K) ≤ pos := by
  obtain ⟨h1, h2⟩ := qIdx_inv m pos
  cases hk : qIdx m pos with
  | zero => simpa using h0
  | succ k =>
    have : k < qIdx m pos := by omega
    exact (h2 k (by omega)).mpr this

theorem lt_qIdx_succ {m : ℕ} {pos : K} (h : qIdx m pos < m) : pos < ((qIdx m pos + 1 : ℕ) : K) := by
  obtain ⟨_, h2⟩ := qIdx_inv m pos
  by_contra hn
  exact lt_irrefl _ ((h2 _ h).mp (not_lt.mp hn))

theorem qIdx_mono {m : ℕ} {p1 p2 : K} (h : p1 ≤ p2) : qIdx m p1 ≤ qIdx m p2 := by
  obtain ⟨a1, a2⟩ := qIdx_inv m p1
  obtain ⟨b1, b2⟩ := qIdx_inv m p2
  by_contra hn
  have hlt : qIdx m p2 < qIdx m p1 := not_le.mp hn
  have hm : qIdx m p2 < m := lt_of_lt_of_le hlt a1
  have := (a2 _ hm).mpr hlt
  exact lt_irrefl _ ((b2 _ hm).mp (le_trans this h))

/-- `qIdx` is the only index with `k ≤ pos < k + 1` (capped at `m`) -/
theorem qIdx_eq_of {m k : ℕ} {pos : K} (hk : k ≤ m) (h1 : ((k : ℕ) : K) ≤ pos)
    (h2 : k < m → pos < ((k + 1 : ℕ) : K)) : qIdx m pos = k := by
  obtain ⟨a1, a2⟩ := qIdx_inv m pos
  rcases Nat.lt_trichotomy (qIdx m pos) k with h | h | h
  · exfalso
    have hlt : qIdx m pos < m := lt_of_lt_of_le h hk
    have := lt_qIdx_succ hlt
    have hc : ((qIdx m pos + 1 : ℕ) : K) ≤ ((k : ℕ) : K) := by exact_mod_cast h
    linarith
  · exact h
  · exfalso
    have hkm : k < m := lt_of_lt_of_le h a1
    have := (a2 _ hkm).mpr h
    have := h2 hkm
    linarith

/-- with a floor function: the index is `⌊pos⌋` capped at `m` (numpy: `floor(virtual_index)`,
    clipped to the last position) -/
theorem qIdx_eq_floor [FloorSemiring K] (m : ℕ) {pos : K} (h0 : 0 ≤ pos) :
    qIdx m pos = min m ⌊pos⌋₊ := by
  apply qIdx_eq_of (min_le_left _ _)
  · have h1 : ((min m ⌊pos⌋₊ : ℕ) : K) ≤ ((⌊pos⌋₊ : ℕ) : K) := by
      exact_mod_cast min_le_right m ⌊pos⌋₊
    exact le_trans h1 (Nat.floor_le h0)
  · intro hlt
    have he : min m ⌊pos⌋₊ = ⌊pos⌋₊ := by
      rcases le_total m ⌊pos⌋₊ with h | h
      · rw [min_eq_left h] at hlt; exact absurd hlt (lt_irrefl _)
      · exact min_eq_right h
    rw [he]
    push_cast
    exact Nat.lt_floor_add_one pos

/-! ### ascending lists -/

theorem sorted_getD_le {s : List K} (hs : s.Pairwise (· ≤ ·)) {i j : ℕ} (hij : i ≤ j)
    (hj : j < s.length) : s.getD i 0 ≤ s.getD j 0 := by
  have hi : i < s.length := lt_of_le_of_lt hij hj
  rw [List.getD_eq_getElem _ _ hi, List.getD_eq_getElem _ _ hj]
  rcases Nat.lt_or_eq_of_le hij with h | h
  · exact (List.pairwise_iff_getElem.mp hs) i j hi hj h
  · subst h; exact le_refl _

/-- the upper neighbour used by `quantileLin`: the next order statistic, or the same one at the
    end of the list -/
theorem next_getD (s : List K) (k : ℕ) (hk : k ≤ s.length - 1) (hs : s ≠ []) :
    s.getD (k + 1) (s.getD k 0) = s.getD (min (k + 1) (s.length - 1)) 0 := by
  have hpos := List.length_pos_iff.mpr hs
  rcases Nat.lt_or_eq_of_le hk with h | h
  · have h1 : k + 1 < s.length := by omega
    rw [min_eq_left (by omega), List.getD_eq_getElem _ _ h1, List.getD_eq_getElem _ _ h1]
  · have h1 : ¬ k + 1 < s.length := by omega
    rw [min_eq_right (by omega), ← h, List.getD_eq_default _ _ (by omega)]

/-- value between the two neighbouring order statistics -/
theorem quantileLin_between {s : List K} (hs : s.Pairwise (· ≤ ·)) (hne : s ≠ []) {q : K}
    (h0 : 0 ≤ q) (h1 : q ≤ 1) :
    s.getD (qIdx (s.length - 1) (q * ((s.length - 1 : ℕ) : K))) 0 ≤ quantileLin s q ∧
    quantileLin s q ≤
      s.getD (min (qIdx (s.length - 1) (q * ((s.length - 1 : ℕ) : K)) + 1) (s.length - 1)) 0 := by
  have hpos := List.length_pos_iff.mpr hne
  set pos := q * ((s.length - 1 : ℕ) : K) with hposdef
  have hp0 : 0 ≤ pos := mul_nonneg h0 (Nat.cast_nonneg _)
  set k := qIdx (s.length - 1) pos with hkdef
  have hk : k ≤ s.length - 1 := qIdx_le _ _
  have hkp : (k : K) ≤ pos := qIdx_cast_le hp0
  rw [quantileLin_eq, ← hposdef, ← hkdef, next_getD s k hk hne]
  set a := s.getD k 0
  set b := s.getD (min (k + 1) (s.length - 1)) 0
  have hab : a ≤ b := sorted_getD_le hs (le_min (by omega) hk) (by omega)
  have hg0 : 0 ≤ pos - (k : K) := sub_nonneg.mpr hkp
  have hg1 : pos - (k : K) ≤ 1 ∨ a = b := by
    rcases Nat.lt_or_eq_of_le hk with h | h
    · left
      have := lt_qIdx_succ (m := s.length - 1) (pos := pos) h
      push_cast at this
      linarith
    · right
      show s.getD k 0 = s.getD (min (k + 1) (s.length - 1)) 0
      rw [min_eq_right (by omega), h]
  constructor
  · nlinarith [mul_nonneg hg0 (sub_nonneg.mpr hab)]
  · rcases hg1 with hg1 | hg1
    · nlinarith [mul_nonneg (sub_nonneg.mpr hg1) (sub_nonneg.mpr hab)]
    · rw [hg1]; simp

/-- `np.quantile(·, q)` is monotone in `q` -/
theorem quantileLin_mono {s : List K} (hs : s.Pairwise (· ≤ ·)) (hne : s ≠ []) {q1 q2 : K}
    (h0 : 0 ≤ q1) (h12 : q1 ≤ q2) (h1 : q2 ≤ 1) : quantileLin s q1 ≤ quantileLin s q2 := by
  have hpos := List.length_pos_iff.mpr hne
  have hn0 : (0 : K) ≤ ((s.length - 1 : ℕ) : K) := Nat.cast_nonneg _
  have hp12 : q1 * ((s.length - 1 : ℕ) : K) ≤ q2 * ((s.length - 1 : ℕ) : K) :=
    mul_le_mul_of_nonneg_right h12 hn0
  obtain ⟨l1, u1⟩ := quantileLin_between hs hne h0 (le_trans h12 h1)
  obtain ⟨l2, u2⟩ := quantileLin_between hs hne (le_trans h0 h12) h1
  have hk12 := qIdx_mono (m := s.length - 1) hp12
  rcases Nat.lt_or_eq_of_le hk12 with hlt | heq
  · -- different segments: Q(q1) ≤ s[k1+1] ≤ s[k2] ≤ Q(q2)
    have hk2 : qIdx (s.length - 1) (q2 * ((s.length - 1 : ℕ) : K)) ≤ s.length - 1 := qIdx_le _ _
    have hmid := sorted_getD_le hs
      (i := min (qIdx (s.length - 1) (q1 * ((s.length - 1 : ℕ) : K)) + 1) (s.length - 1))
      (j := qIdx (s.length - 1) (q2 * ((s.length - 1 : ℕ) : K)))
      (le_trans (min_le_left _ _) hlt) (by omega)
    exact le_trans u1 (le_trans hmid l2)
  · -- same segment: the difference is (pos2 - pos1)·(b - a) ≥ 0
    rw [quantileLin_eq s q1, quantileLin_eq s q2, ← heq]
    set k := qIdx (s.length - 1) (q1 * ((s.length - 1 : ℕ) : K))
    have hk : k ≤ s.length - 1 := qIdx_le _ _
    rw [next_getD s k hk hne]
    have hab : s.getD k 0 ≤ s.getD (min (k + 1) (s.length - 1)) 0 :=
      sorted_getD_le hs (le_min (by omega) hk) (by omega)
    nlinarith [mul_nonneg (sub_nonneg.mpr hp12) (sub_nonneg.mpr hab)]

/-- on the grid `q·(n-1) = j` the quantile is the order statistic `s[j]` -/
theorem quantileLin_grid (s : List K) (q : K) (j : ℕ) (hj : j ≤ s.length - 1)
    (hq : q * ((s.length - 1 : ℕ) : K) = (j : K)) : quantileLin s q = s.getD j 0 := by
  have hk : qIdx (s.length - 1) (q * ((s.length - 1 : ℕ) : K)) = j := by
    apply qIdx_eq_of hj
    · rw [hq]
    · intro _; rw [hq]; push_cast; linarith
  rw [quantileLin_eq, hk, hq]
  simp

/-! ### the ascending rearrangement -/

theorem sortAsc_perm (l : List K) : (sortAsc l).Perm l := List.mergeSort_perm _ _

theorem sortAsc_pairwise (l : List K) : (sortAsc l).Pairwise (· ≤ ·) := by
  have := List.pairwise_mergeSort (le := fun a b : K => !decide (b < a))
    (fun a b c h1 h2 => by
      simp only [Bool.not_eq_true', decide_eq_false_iff_not, not_lt] at h1 h2 ⊢
      exact le_trans h1 h2)
    (fun a b => by
      simp only [Bool.or_eq_true, Bool.not_eq_true', decide_eq_false_iff_not, not_lt]
      exact le_total a b) l
  refine this.imp ?_
  intro a b h
  simpa using h

theorem sortAsc_ne_nil {l : List K} (hl : l ≠ []) : sortAsc l ≠ [] := by
  intro h
  have hp := sortAsc_perm l
  rw [h] at hp
  exact hl (List.perm_nil.mp hp.symm)

end

/-! ### `allSome` -/

theorem allSome_eq_none_iff {β : Type} (l : List (Option β)) : allSome l = none ↔ none ∈ l := by
  induction l with
  | nil => simp [allSome]
  | cons o t ih =>
    cases o with
    | none => simp [allSome]
    | some a =>
      simp only [allSome, Option.map_eq_none_iff, ih, List.mem_cons, reduceCtorEq, false_or]

theorem allSome_eq_some_iff {β : Type} (l : List (Option β)) (r : List β) :
    allSome l = some r ↔ l = r.map some := by
  induction l generalizing r with
  | nil => cases r <;> simp [allSome]
  | cons o t ih =>
    cases o with
    | none => cases r <;> simp [allSome]
    | some a =>
      cases r with
      | nil => simp [allSome]
      | cons b r' =>
        simp only [allSome, Option.map_eq_some_iff, List.map_cons, List.cons.injEq, Option.some.injEq]
        constructor
        · rintro ⟨x, hx, h1, h2⟩
          exact ⟨h1, by rw [← h2]; exact (ih x).mp hx⟩
        · rintro ⟨h1, h2⟩
          exact ⟨r', (ih r').mpr h2, h1, rfl⟩

theorem all_isSome_eq_false {β : Type} {l : List (Option β)} (h : none ∈ l) :
    l.all Option.isSome = false := by
  rw [List.all_eq_false]
  exact ⟨none, h, by simp⟩

theorem all_isSome_map_some {β : Type} (x : List β) : (x.map some).all Option.isSome = true := by
  simp

end Rsa.Transform
