/-
  C11 — time binning inside the reachable-state invariant.

  `Prov init E c`: the labelled measurement `c` has a provenance in the initial dataset — it is a
  retained measurement (same value, no foreign label) or the **mean of measurements that have a
  provenance** (the "mean of cells" cell type), carrying only labels that all averaged cells carry,
  time-axis labels of the binned time series (first-of-bin) or one of the synthetic descriptors
  of `bin_time` (keys in `E`: the binned coordinate and `bins`).
-/
import Rsa.Lemmas.C11Inv

set_option linter.unusedSectionVars false
set_option linter.unusedVariables false
set_option linter.unusedSimpArgs false

namespace Rsa.Lemmas.C11

open Rsa.Dataset

variable {α : Type}

theorem allSome_eq_some {β : Type} : ∀ {l : List (Option β)} {r : List β},
    allSome l = some r → l = r.map some
  | [], r, h => by
    simp only [allSome, Option.some.injEq] at h
    subst h
    rfl
  | none :: l, r, h => by simp [allSome] at h
  | some x :: l, r, h => by
    simp only [allSome, Option.map_eq_some_iff] at h
    obtain ⟨r', hr', rfl⟩ := h
    rw [allSome_eq_some hr']
    rfl

theorem allSome_length {β : Type} {l : List (Option β)} {r : List β} (h : allSome l = some r) :
    r.length = l.length := by
  rw [allSome_eq_some h]
  simp

theorem allSome_getElem? {β : Type} {l : List (Option β)} {r : List β} (h : allSome l = some r)
    {k : Nat} {x : β} (hx : r[k]? = some x) : l[k]? = some (some x) := by
  rw [allSome_eq_some h]
  simp [hx]

/-- provenance of a labelled measurement (see the file header) -/
inductive Prov [Add α] [Zero α] [Div α] [NatCast α] (init : DS α) (E : List String) : Cell α → Prop where
  | kept (c c0 : Cell α) : IsCell init c0 → Sub c c0 → Prov init E c
  | mean (c : Cell α) (cs ts : List (Cell α)) :
      (∀ x ∈ cs, Prov init E x) → (∀ x ∈ ts, Prov init E x) →
      c.v = Rsa.mean (cs.map (·.v)) →
      (∀ p ∈ c.labels, (∀ x ∈ cs, p ∈ x.labels) ∨ (∃ x ∈ ts, p ∈ x.t) ∨ p.1 ∈ E) →
      Prov init E c

/-- operations that keep values keep provenance: same value, no new label -/
theorem Prov.of_sub [Add α] [Zero α] [Div α] [NatCast α] {init : DS α} {E : List String}
    {c c' : Cell α} (hc : Prov init E c) (hs : Sub c' c) : Prov init E c' := by
  cases hc with
  | kept _ c0 h0 hs0 => exact Prov.kept c' c0 h0 (hs.trans hs0)
  | mean _ cs ts hcs hts hv hl =>
    exact Prov.mean c' cs ts hcs hts (hs.1.trans hv) (fun p hp => hl p (hs.2 p hp))

section bin
variable [Add α] [Zero α] [Div α] [NatCast α]

/-- the result of `bin_time`, unpacked -/
theorem binTime_unpack {d d' : DS α} {by_ : String} {bins : List (List Lbl)} {col : Col}
    (hcol : d.time.col by_ = some col) (hb : binTime by_ bins d = some d') :
    ∃ (tm : List Rat) (firsts : Tbl),
      (d.time.map (fun kc =>
        (allSome ((bins.map (fun b => indicesWhere (fun x => b.contains x) col)).map
          (fun ix => ix[Rsa.Gen.C11.binFirst]?.bind (fun t => kc.2[t]?)))).map
            (fun c => (kc.1, c)))) = firsts.map some ∧
      tm.length = bins.length ∧
      d' = { d with
        meas := d.meas.map (fun r => r.map (fun c =>
          (bins.map (fun b => indicesWhere (fun x => b.contains x) col)).map
            (fun ix => Rsa.mean (gather ix c))))
        time := setKey "bins" (bins.map (fun b => Lbl.str (showBin b)))
                  (firsts.map (fun kc => if kc.1 = by_ then (kc.1, tm.map Lbl.flt) else kc)) } := by
  unfold binTime at hb
  simp only [hcol] at hb
  split at hb
  · rename_i tm firsts htm hfirsts
    simp only [Option.some.injEq] at hb
    refine ⟨tm, firsts, allSome_eq_some hfirsts, ?_, hb.symm⟩
    have := allSome_length htm
    simpa using this
  · simp at hb

/-- `bin_time` on an aligned dataset: the result is aligned, and every labelled measurement of
    it is the mean of the measurements (i, j, t), t in the bin, of the source; its observation /
    channel / dataset labels are carried by all of them, its time labels are the binned
    coordinate `by`, the text `bins`, or a time label of a time point of the source. -/
theorem binTime_cells {d d' : DS α} {no nc nt : Nat} (h : d.WF no nc nt) {by_ : String}
    {bins : List (List Lbl)} (hb : binTime by_ bins d = some d') :
    d'.WF no nc bins.length ∧
    ∀ c', IsCell d' c' → ∃ cs ts : List (Cell α),
      (∀ x ∈ cs, IsCell d x) ∧ (∀ x ∈ ts, IsCell d x) ∧ c'.v = Rsa.mean (cs.map (·.v)) ∧
      ∀ p ∈ c'.labels, (∀ x ∈ cs, p ∈ x.labels) ∨ (∃ x ∈ ts, p ∈ x.t) ∨ p.1 = by_ ∨ p.1 = "bins" := by
  cases hcol : d.time.col by_ with
  | none => simp [binTime, hcol] at hb
  | some col =>
    obtain ⟨tm, firsts, hfirsts, htm, rfl⟩ := binTime_unpack hcol hb
    have hfirst : ∀ kc ∈ firsts, ∃ kc0 ∈ d.time, kc.1 = kc0.1 ∧
        allSome ((bins.map (fun b => indicesWhere (fun x => b.contains x) col)).map
          (fun ix => ix[Rsa.Gen.C11.binFirst]?.bind (fun t => kc0.2[t]?))) = some kc.2 := by
      intro kc hkc
      have : some kc ∈ firsts.map some := List.mem_map_of_mem hkc
      rw [← hfirsts] at this
      obtain ⟨kc0, hkc0, he⟩ := List.mem_map.1 this
      simp only [Option.map_eq_some_iff] at he
      obtain ⟨c, hc, rfl⟩ := he
      exact ⟨kc0, hkc0, rfl, hc⟩
    constructor
    · refine ⟨by simp [h.obsLen], ?_, ?_, h.obsT, h.chanT, ?_⟩
      · intro r hr
        obtain ⟨r0, hr0, rfl⟩ := List.mem_map.1 hr
        simp [h.chanLen r0 hr0]
      · intro r hr c hc
        obtain ⟨r0, hr0, rfl⟩ := List.mem_map.1 hr
        obtain ⟨c0, hc0, rfl⟩ := List.mem_map.1 hc
        simp
      · intro kc hkc
        rcases mem_setKey hkc with hkc | rfl
        · obtain ⟨kc1, hkc1, rfl⟩ := List.mem_map.1 hkc
          by_cases hby : kc1.1 = by_
          · simp [hby, htm]
          · simp only [hby, if_false]
            obtain ⟨kc0, _, _, hall⟩ := hfirst kc1 hkc1
            have := allSome_length hall
            simpa using this
        · simp
    · rintro c' ⟨i, j, b, hc'⟩
      obtain ⟨r', cv', v', hr', hcv', hv', rfl⟩ := cellAt_eq_some.1 hc'
      simp only [List.getElem?_map, Option.map_eq_some_iff] at hr'
      obtain ⟨r, hr, rfl⟩ := hr'
      simp only [List.getElem?_map, Option.map_eq_some_iff] at hcv'
      obtain ⟨cv, hcv, rfl⟩ := hcv'
      simp only [List.getElem?_map, Option.map_eq_some_iff] at hv'
      obtain ⟨ix, ⟨bin, hbin, hix⟩, rfl⟩ := hv'
      have hrm : r ∈ d.meas := List.mem_of_getElem? hr
      have hcvlen : cv.length = nt := h.timeLen r hrm cv (List.mem_of_getElem? hcv)
      -- the cells of the time series (i, j, ·)
      have cellOf : ∀ t v, cv[t]? = some v →
          IsCell d ⟨v, d.obs.row i, d.chan.row j, d.time.row t, d.desc⟩ :=
        fun t v hv => ⟨i, j, t, cellAt_eq_some.2 ⟨r, cv, v, hr, hcv, hv, rfl⟩⟩
      let mk : Nat → Option (Cell α) := fun t =>
        (cv[t]?).map (fun v => ⟨v, d.obs.row i, d.chan.row j, d.time.row t, d.desc⟩)
      refine ⟨ix.filterMap mk, (List.range nt).filterMap mk, ?_, ?_, ?_, ?_⟩
      · intro x hx
        obtain ⟨t, _, ht⟩ := List.mem_filterMap.1 hx
        simp only [mk, Option.map_eq_some_iff] at ht
        obtain ⟨v, hv, rfl⟩ := ht
        exact cellOf t v hv
      · intro x hx
        obtain ⟨t, _, ht⟩ := List.mem_filterMap.1 hx
        simp only [mk, Option.map_eq_some_iff] at ht
        obtain ⟨v, hv, rfl⟩ := ht
        exact cellOf t v hv
      · show Rsa.mean (gather ix cv) = _
        congr 1
        unfold gather
        rw [List.map_filterMap]
        apply List.filterMap_congr
        intro t _
        simp only [mk]
        cases cv[t]? <;> rfl
      · intro p hp
        rw [mem_labels] at hp
        simp only at hp
        have carried : ∀ q, (q ∈ d.obs.row i ∨ q ∈ d.chan.row j ∨ q ∈ d.desc) →
            ∀ x ∈ ix.filterMap mk, q ∈ x.labels := by
          intro q hq x hx
          obtain ⟨t, _, ht⟩ := List.mem_filterMap.1 hx
          simp only [mk, Option.map_eq_some_iff] at ht
          obtain ⟨v, hv, rfl⟩ := ht
          rw [mem_labels]
          rcases hq with hq | hq | hq
          · exact Or.inl hq
          · exact Or.inr (Or.inl hq)
          · exact Or.inr (Or.inr (Or.inr hq))
        rcases hp with hp | hp | hp | hp
        · exact Or.inl (carried p (Or.inl hp))
        · exact Or.inl (carried p (Or.inr (Or.inl hp)))
        · -- a time label of the binned dataset
          obtain ⟨k, x⟩ := p
          obtain ⟨c, hc, hx⟩ := Tbl.mem_row.1 hp
          rcases mem_setKey hc with hc | hc
          · obtain ⟨kc1, hkc1, he⟩ := List.mem_map.1 hc
            by_cases hby : kc1.1 = by_
            · simp only [hby, if_true, Prod.mk.injEq] at he
              exact Or.inr (Or.inr (Or.inl he.1.symm))
            · simp only [hby, if_false] at he
              subst he
              obtain ⟨kc0, hkc0, hk, hall⟩ := hfirst (k, c) hkc1
              have hb' := allSome_getElem? hall hx
              simp only [List.getElem?_map, hbin, Option.map_some, hix, Option.some.injEq] at hb'
              obtain ⟨t, _, ht⟩ := Option.bind_eq_some_iff.1 hb'
              have htlt : t < nt := by
                rw [← h.timeT kc0 hkc0]
                exact (List.getElem?_eq_some_iff.1 ht).1
              have hcvt : cv[t]? = some cv[t] := List.getElem?_eq_getElem (by omega)
              refine Or.inr (Or.inl ⟨⟨cv[t], d.obs.row i, d.chan.row j, d.time.row t, d.desc⟩, ?_, ?_⟩)
              · exact List.mem_filterMap.2 ⟨t, List.mem_range.2 htlt, by simp [mk, hcvt]⟩
              · simp only at hk
                exact Tbl.mem_row.2 ⟨kc0.2, by rw [hk]; exact hkc0, ht⟩
          · simp only [Prod.mk.injEq] at hc
            exact Or.inr (Or.inr (Or.inr hc.1))
        · exact Or.inl (carried p (Or.inr (Or.inr hp)))

end bin

/-- the keys `bin_time` writes synthetic values under: `bins` and the `by` of every binning step -/
def binKeys : List Op → List String
  | [] => ["bins"]
  | .binTime _ by_ _ :: r => by_ :: binKeys r
  | _ :: r => binKeys r

theorem bins_mem_binKeys : ∀ ops : List Op, "bins" ∈ binKeys ops
  | [] => by simp [binKeys]
  | o :: r => by
    cases o <;> simp [binKeys, bins_mem_binKeys r]

theorem by_mem_binKeys {i : Nat} {by_ : String} {bins : List (List Lbl)} :
    ∀ {ops : List Op}, Op.binTime i by_ bins ∈ ops → by_ ∈ binKeys ops
  | [], h => by simp at h
  | o :: r, h => by
    rcases List.mem_cons.1 h with rfl | h
    · simp [binKeys]
    · have := by_mem_binKeys h
      cases o <;> simp [binKeys, this]

/-- one step of a session keeps provenance (all operations, binning included) -/
theorem applyOp_prov [Add α] [Zero α] [Div α] [NatCast α] {init : DS α} {E : List String}
    {ws ws' : List (DS α)} {o : Op}
    (hE : "bins" ∈ E ∧ ∀ i by_ bins, o = .binTime i by_ bins → by_ ∈ E)
    (hws : ∀ d ∈ ws, WFex d ∧ ∀ c, IsCell d c → Prov init E c)
    (h : applyOp ws o = some ws') :
    ∀ d ∈ ws', WFex d ∧ ∀ c, IsCell d c → Prov init E c := by
  by_cases hk : keepsValues o
  · intro x hx
    have hder := applyOp_derives (fun y hy => (hws y hy).1) hk h x hx
    refine ⟨hder.1, fun c' hc' => ?_⟩
    obtain ⟨y, hy, c, hc, hs⟩ := hder.2 c' hc'
    exact ((hws y hy).2 c hc).of_sub hs
  · cases o with
    | binTime i by_ bins =>
      simp only [applyOp] at h
      cases hd : ws[i]? with
      | none => simp [hd] at h
      | some d =>
        simp only [hd, Option.bind_some] at h
        cases hb : binTime by_ bins d with
        | none => simp [hb] at h
        | some d' =>
          simp only [hb, Option.map_some, Option.some.injEq] at h
          subst h
          intro x hx
          rcases mem_replaceAt hx with hx | hx
          · exact hws x hx
          · have : x = d' := by simpa using hx
            subst this
            have hdm : d ∈ ws := List.mem_of_getElem? hd
            obtain ⟨no, nc, nt, hwf⟩ := (hws d hdm).1
            obtain ⟨hwf', hcells⟩ := binTime_cells hwf hb
            refine ⟨⟨no, nc, bins.length, hwf'⟩, fun c' hc' => ?_⟩
            obtain ⟨cs, ts, hcs, hts, hv, hl⟩ := hcells c' hc'
            refine Prov.mean c' cs ts (fun y hy => (hws d hdm).2 y (hcs y hy))
              (fun y hy => (hws d hdm).2 y (hts y hy)) hv (fun p hp => ?_)
            rcases hl p hp with h1 | h1 | h1 | h1
            · exact Or.inl h1
            · exact Or.inr (Or.inl h1)
            · exact Or.inr (Or.inr (h1 ▸ hE.2 i by_ bins rfl))
            · exact Or.inr (Or.inr (h1 ▸ hE.1))
    | _ => exact absurd trivial hk

end Rsa.Lemmas.C11
