/-
  C10 round 6 — dictionaries are finite maps: helper lemmas for the order-freeness of `append`'s
  merged rdm descriptors (`Rsa.Props.C10.append_desc_order_free`).
-/
import Rsa.Lemmas.C10Step

set_option linter.unusedSectionVars false
set_option linter.unusedVariables false
set_option linter.unusedSimpArgs false

namespace Rsa.Rdm

theorem lookup_cons_ite {β : Type} (k a : String) (b : β) (es : List (String × β)) :
    List.lookup k ((a, b) :: es) = if k = a then some b else List.lookup k es := by
  simp only [List.lookup_cons]
  by_cases h : k = a
  · subst h; simp
  · have : (k == a) = false := by simpa using h
    simp [this, h]

/-- a dictionary read by name does not see the insertion order (keys unique) -/
theorem lookup_perm {β : Type} (k : String) {l₁ l₂ : List (String × β)} (p : l₁.Perm l₂)
    (nd : (l₁.map (·.1)).Nodup) : l₁.lookup k = l₂.lookup k := by
  induction p with
  | nil => rfl
  | cons x _ ih =>
    obtain ⟨a, b⟩ := x
    simp only [List.map_cons, List.nodup_cons] at nd
    simp only [lookup_cons_ite, ih nd.2]
  | swap x y l =>
    obtain ⟨a, b⟩ := x
    obtain ⟨c, d⟩ := y
    simp only [List.map_cons, List.nodup_cons, List.mem_cons] at nd
    simp only [lookup_cons_ite]
    by_cases h1 : k = a <;> by_cases h2 : k = c
    · subst h1; subst h2; exact absurd (Or.inl rfl) nd.1
    · simp [h1, h2]
      intro hh; exact absurd (h1 ▸ hh) h2
    · simp [h1, h2]
      intro hh; exact absurd (h2 ▸ hh) h1
    · simp [h1, h2]
  | trans p1 _ ih1 ih2 =>
    rw [ih1 nd, ih2 ((p1.map _).nodup_iff.mp nd)]

/-- reading a column of a dictionary whose columns were each extended by a function of their key -/
theorem lookup_map_ext (d : Desc) (g : String → List Lbl) (k : String) :
    (d.map (fun kv => (kv.1, kv.2 ++ g kv.1))).lookup k = (d.lookup k).map (· ++ g k) := by
  induction d with
  | nil => rfl
  | cons x xs ih =>
    obtain ⟨a, b⟩ := x
    simp only [List.map_cons, lookup_cons_ite, ih]
    by_cases h : k = a
    · subst h; simp
    · simp [h]

theorem keys_map_ext (d : Desc) (f : String × List Lbl → List Lbl) :
    Desc.keys (d.map (fun kv => (kv.1, f kv))) = d.keys := by
  simp [Desc.keys, List.map_map, Function.comp_def]

theorem lookup_replace (d : Desc) (k' : String) (col : List Lbl) (k : String) :
    (d.map (fun kv => if kv.1 = k' then (k', col) else kv)).lookup k
      = if k = k' then (d.lookup k).map (fun _ => col) else d.lookup k := by
  induction d with
  | nil => simp
  | cons x xs ih =>
    obtain ⟨a, b⟩ := x
    by_cases hak : a = k'
    · subst hak
      simp only [List.map_cons, if_true, lookup_cons_ite, ih]
      by_cases hk : k = a
      · simp [hk]
      · simp [hk]
    · simp only [List.map_cons, hak, if_false, lookup_cons_ite, ih]
      by_cases hk : k = a
      · subst hk; simp [hak]
      · simp [hk]

/-- dict assignment `d[k'] = col`, read back by name -/
theorem lookup_set (d : Desc) (k' : String) (col : List Lbl) (k : String) :
    (d.set k' col).lookup k = if k = k' then some col else d.lookup k := by
  unfold Desc.set
  split
  · rename_i hh
    rw [lookup_replace]
    by_cases hk : k = k'
    · subst hk
      obtain ⟨c, hc⟩ := Desc.get_of_mem_keys (d := d) (k := k) (by simpa [Desc.has] using hh)
      simp only [Desc.get] at hc
      simp [hc]
    · simp [hk]
  · rename_i hh
    rw [List.lookup_append]
    by_cases hk : k = k'
    · subst hk
      have : d.lookup k = none := by
        rw [List.lookup_eq_none_iff]
        intro p hp
        simp only [Desc.has, Desc.keys, List.contains_eq_mem, List.mem_map, decide_eq_true_eq] at hh
        simp only [bne_iff_ne, ne_eq]
        intro hpk
        exact hh ⟨p, hp, hpk.symm⟩
      simp [this, lookup_cons_ite]
    · simp [hk, lookup_cons_ite]

end Rsa.Rdm
