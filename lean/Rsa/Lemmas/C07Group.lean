/-
  Helper lemmas for C07, part 7 (round 3): `rdm_descriptor` groups of any size.
  * the score `boot_noise_ceiling`'s loop gives a candidate is the *weighted* sum
    `Σ_j w_j · sim(c, r_j)` with `w_j = 1 / (#groups · size of the group of RDM j)`;
  * for every weight vector the weighted sum of cosines is maximised by the weighted pool
    `Σ_j w_j r_j / rms(r_j)` (Cauchy–Schwarz), and the same for correlations.
-/
import Rsa.Lemmas.C07Opt
import Rsa.Lemmas.C07Rank
import Rsa.Lemmas.C07Struct
import Mathlib.Data.List.GetD

set_option linter.unusedSectionVars false
set_option linter.unusedVariables false
set_option linter.unusedSimpArgs false

namespace Rsa.Ceiling
open Rsa Rsa.Compare Rsa.Folds

/-! ### sums over filtered lists -/

theorem sum_filter_eq_ite {β : Type} (l : List β) (q : β → Bool) (f : β → ℝ) :
    ((l.filter q).map f).sum = (l.map fun a => if q a then f a else 0).sum := by
  induction l with
  | nil => simp
  | cons a l ih =>
    by_cases h : q a
    · simp [List.filter_cons_of_pos, h, ih]
    · simp [h, ih]

theorem sum_indicator_nodup (U : List ℕ) (hnd : U.Nodup) (v : ℕ) (hv : v ∈ U) (x : ℝ) :
    (U.map fun u => if v == u then x else 0).sum = x := by
  induction U with
  | nil => simp at hv
  | cons u U ih =>
    rw [List.nodup_cons] at hnd
    rcases List.mem_cons.mp hv with rfl | hv'
    · have : (U.map fun u => if v == u then x else 0).sum = 0 := by
        apply List.sum_eq_zero
        intro y hy
        obtain ⟨u', hu', rfl⟩ := List.mem_map.mp hy
        have : v ≠ u' := fun h => hnd.1 (h ▸ hu')
        simp [this]
      rw [List.map_cons, List.sum_cons, this]
      simp
    · have hne : v ≠ u := fun h => hnd.1 (h ▸ hv')
      rw [List.map_cons, List.sum_cons, ih hnd.2 hv']
      simp [hne]

theorem selectRows_map_getD (rows : List (List ℝ)) (idx : List ℕ) (h : ∀ j ∈ idx, j < rows.length)
    (g : List ℝ → ℝ) : (selectRows rows idx).map g = idx.map (fun j => g (rows.getD j [])) := by
  induction idx with
  | nil => rfl
  | cons i idx ih =>
    have hi := h i (List.mem_cons_self ..)
    have ht : ∀ j ∈ idx, j < rows.length := fun j hj => h j (List.mem_cons_of_mem _ hj)
    have e : selectRows rows (i :: idx) = rows[i] :: selectRows rows idx := by
      simp [selectRows, List.getElem?_eq_getElem hi]
    rw [e, List.map_cons, List.map_cons, ih ht, List.getD_eq_getElem _ _ hi]

theorem selectRows_length_of_lt (rows : List (List ℝ)) (idx : List ℕ)
    (h : ∀ j ∈ idx, j < rows.length) : (selectRows rows idx).length = idx.length := by
  have := congrArg List.length (selectRows_map_getD rows idx h (fun _ => (0 : ℝ)))
  simpa using this

/-! ### the grouped score -/

/-- test positions of the fold that leaves the group of RDM `j` out = the members of that group -/
theorem looFoldOf_test_length (o : Obj) (j : ℕ) :
    ((looFoldOf o (o.rdesc j)).test.rows).length = groupSize o j := by
  rw [looFoldOf_test_rows]; rfl

/-- **any grouping with at least two groups**: the score of a candidate under `boot_noise_ceiling`'s
    loop (mean within each left-out group, then mean over groups) is the weighted sum of its
    similarities to the data RDMs, RDM `j` weighing `1 / (#groups · size of its group)` -/
theorem candidateScore_grouped (sim : List ℝ → List ℝ → ℝ) (rows : List (List ℝ)) (o : Obj)
    (c : List ℝ) (hn : o.nR = rows.length) (h2 : 1 < nGroups o) :
    candidateScore sim rows o c =
      ((List.range rows.length).map fun j => groupWeight o j * sim c (rows.getD j [])).sum := by
  set U := uniq (descList o.nR o.rdesc) with hU
  have hnd : U.Nodup := uniq_nodup _
  set s : ℕ → ℝ := fun j => sim c (rows.getD j []) with hs
  unfold candidateScore
  rw [looFolds_eq o h2, List.map_map]
  -- one fold
  have hfold : ∀ v ∈ U, ((fun f : Fold => meanSim sim c (selectRows rows f.test.rows)) ∘ looFoldOf o) v
      = ((List.range o.nR).map fun j =>
          if o.rdesc j == v then s j / (groupSize o j : ℝ) else 0).sum := by
    intro v _
    simp only [Function.comp_def]
    unfold meanSim mean
    have hlt : ∀ j ∈ (looFoldOf o v).test.rows, j < rows.length := by
      intro j hj
      rw [looFoldOf_test_rows] at hj
      rw [← hn]; exact List.mem_range.mp (List.mem_filter.mp hj).1
    rw [List.length_map, selectRows_length_of_lt rows _ hlt, selectRows_map_getD rows _ hlt (sim c),
      looFoldOf_test_rows, sum_filter_eq_ite, ← sum_map_div, List.map_map]
    congr 1
    apply List.map_congr_left
    intro j _
    simp only [Function.comp_def]
    by_cases hj : o.rdesc j = v
    · subst hj
      simp only [beq_self_eq_true, if_true]
      rfl
    · have : (o.rdesc j == v) = false := by simpa using hj
      simp [this]
  rw [List.map_congr_left hfold]
  unfold mean
  rw [List.length_map, sum_sum_swap U (List.range o.nR)
    (fun v j => if o.rdesc j == v then s j / (groupSize o j : ℝ) else 0), ← sum_map_div, List.map_map,
    ← hn]
  congr 1
  apply List.map_congr_left
  intro j hj
  have hmem : o.rdesc j ∈ U := mem_uniq.mpr (mem_descList.mpr ⟨j, List.mem_range.mp hj, rfl⟩)
  simp only [Function.comp_def]
  rw [sum_indicator_nodup U hnd (o.rdesc j) hmem]
  unfold groupWeight nGroups
  rw [← hU, hs]
  simp only
  rw [one_div, div_div, mul_comm (groupSize o j : ℝ), div_eq_inv_mul]

/-- the coded upper bound is the grouped score of the coded (equal-weight) pool -/
theorem upper_grouped (pool : List (List ℝ) → List ℝ) (sim : List ℝ → List ℝ → ℝ)
    (rows : List (List ℝ)) (o : Obj) (hn : o.nR = rows.length) (h2 : 1 < nGroups o) :
    (bootNoiseCeilingG pool sim rows o).2 =
      ((List.range rows.length).map fun j => groupWeight o j * sim (pool rows) (rows.getD j [])).sum := by
  rw [← candidateScore_grouped sim rows o (pool rows) hn h2, candidateScore_eq_boot]
  unfold bootNoiseCeilingG bounds bootTerms
  simp [List.map_map, Function.comp_def]

/-! ### the weighted pool maximises every weighted sum of cosines -/

theorem range_map_getD (rows : List (List ℝ)) :
    (List.range rows.length).map (fun j => rows.getD j []) = rows := by
  apply List.ext_getElem
  · simp
  · intro i h1 h2
    simp only [List.getElem_map, List.getElem_range]
    exact List.getD_eq_getElem _ _ h2

theorem poolWeighted_terms_length (w : ℕ → ℝ) (p : ℕ) (rows : List (List ℝ))
    (hlen : ∀ r ∈ rows, r.length = p) :
    ∀ u ∈ (List.range rows.length).map (fun j => (applyD cosF (rows.getD j [])).map (· * w j)),
      u.length = p := by
  intro u hu
  obtain ⟨j, hj, rfl⟩ := List.mem_map.mp hu
  have hj' := List.mem_range.mp hj
  rw [List.length_map, applyD_length, List.getD_eq_getElem _ _ hj']
  exact hlen _ (List.getElem_mem hj')

theorem poolWeighted_length (w : ℕ → ℝ) (p : ℕ) (rows : List (List ℝ)) (hne : rows ≠ [])
    (hlen : ∀ r ∈ rows, r.length = p) : (poolWeighted cosF w rows).length = p := by
  unfold poolWeighted
  obtain ⟨r, rs, rfl⟩ := List.exists_cons_of_ne_nil hne
  have hp : ((r :: rs).headD []).length = p := by simpa using hlen r (List.mem_cons_self ..)
  rw [hp]
  exact vsumP_length p _ (poolWeighted_terms_length w p _ hlen)

/-- inner product with the weighted pool -/
theorem dot_poolWeighted (c : List ℝ) (w : ℕ → ℝ) (p : ℕ) (rows : List (List ℝ)) (hne : rows ≠ [])
    (hlen : ∀ r ∈ rows, r.length = p) :
    dot c (poolWeighted cosF w rows) =
      ((List.range rows.length).map fun j =>
        w j * (dot c (rows.getD j []) / rms (rows.getD j []))).sum := by
  unfold poolWeighted
  obtain ⟨r, rs, rfl⟩ := List.exists_cons_of_ne_nil hne
  have hp : ((r :: rs).headD []).length = p := by simpa using hlen r (List.mem_cons_self ..)
  rw [hp, dot_vsumP c p _ (poolWeighted_terms_length w p _ hlen), List.map_map]
  congr 1
  apply List.map_congr_left
  intro j _
  simp only [Function.comp_def]
  rw [dot_map_mul_right, applyD_cosF, dot_map_div_right, mul_comm]

/-- weighted sum of cosines of a non-zero candidate = normalised inner product with the weighted pool -/
theorem wsum_cosine_eq (c : List ℝ) (w : ℕ → ℝ) (p : ℕ) (rows : List (List ℝ)) (hne : rows ≠ [])
    (hlen : ∀ r ∈ rows, r.length = p) (hc : 0 < dot c c) :
    ((List.range rows.length).map fun j => w j * cosine c (rows.getD j [])).sum =
      dot c (poolWeighted cosF w rows) / (Real.sqrt p * Real.sqrt (dot c c)) := by
  rw [dot_poolWeighted c w p rows hne hlen, ← sum_map_div, List.map_map]
  congr 1
  apply List.map_congr_left
  intro j hj
  have hj' := List.mem_range.mp hj
  have hl : (rows.getD j []).length = p := by
    rw [List.getD_eq_getElem _ _ hj']; exact hlen _ (List.getElem_mem hj')
  simp only [Function.comp_def]
  rw [cosine_eq_div_rms hl hc, mul_div_assoc]

theorem wsum_cosine_zero (c : List ℝ) (w : ℕ → ℝ) (rows : List (List ℝ)) (hc : ¬ 0 < dot c c) :
    ((List.range rows.length).map fun j => w j * cosine c (rows.getD j [])).sum = 0 := by
  apply List.sum_eq_zero
  intro x hx
  obtain ⟨j, _, rfl⟩ := List.mem_map.mp hx
  have : cosine c (rows.getD j []) = 0 := by
    rw [cosine_eq, if_neg]
    rintro ⟨h1, _⟩
    exact hc (Real.sqrt_pos.mp h1)
  rw [this, mul_zero]

/-- **optimality of the weighted pool**: for *every* weight vector (positive, zero, even negative
    weights) no candidate has a larger weighted sum of cosines with the data RDMs than
    `Σ_j w_j · r_j / rms(r_j)` -/
theorem wsum_cosine_le_pool (c : List ℝ) (w : ℕ → ℝ) (p : ℕ) (rows : List (List ℝ)) (hne : rows ≠ [])
    (hlen : ∀ r ∈ rows, r.length = p) :
    ((List.range rows.length).map fun j => w j * cosine c (rows.getD j [])).sum ≤
      ((List.range rows.length).map fun j =>
        w j * cosine (poolWeighted cosF w rows) (rows.getD j [])).sum := by
  set P := poolWeighted cosF w rows with hP
  have hsp : 0 ≤ Real.sqrt p := Real.sqrt_nonneg _
  have hpool : 0 < dot P P →
      ((List.range rows.length).map fun j => w j * cosine P (rows.getD j [])).sum
        = Real.sqrt (dot P P) / Real.sqrt p := by
    intro hPP
    rw [wsum_cosine_eq P w p rows hne hlen hPP, ← hP]
    have h2 := (Real.sqrt_pos.mpr hPP).ne'
    by_cases h1 : Real.sqrt (p : ℝ) = 0
    · simp [h1]
    · field_simp
      rw [Real.sq_sqrt hPP.le]
  by_cases hc : 0 < dot c c
  · rw [wsum_cosine_eq c w p rows hne hlen hc, ← hP]
    by_cases hPP : 0 < dot P P
    · rw [hpool hPP]
      have hcs := dot_le_sqrt_mul c P
      have h2 := Real.sqrt_pos.mpr hc
      by_cases h1 : Real.sqrt (p : ℝ) = 0
      · simp [h1]
      · have h1' : 0 < Real.sqrt (p : ℝ) := lt_of_le_of_ne hsp (Ne.symm h1)
        rw [div_le_div_iff₀ (mul_pos h1' h2) h1']
        have := mul_le_mul_of_nonneg_right hcs hsp
        nlinarith
    · have hz : dot P P = 0 := le_antisymm (not_lt.mp hPP) (dot_self_nonneg P)
      have hcp : dot c P = 0 := by
        have := dot_sq_le c P
        rw [hz, mul_zero] at this
        nlinarith [mul_self_nonneg (dot c P)]
      rw [hcp, wsum_cosine_zero P w rows hPP]
      simp
  · rw [wsum_cosine_zero c w rows hc]
    by_cases hPP : 0 < dot P P
    · rw [hpool hPP]
      exact div_nonneg (Real.sqrt_nonneg _) hsp
    · rw [wsum_cosine_zero P w rows hPP]

/-- correlation: the weighted pool of the mean-removed RDMs (`corrF` = `cosF ∘ center`) -/
theorem wsum_corr_le_pool (c : List ℝ) (w : ℕ → ℝ) (p : ℕ) (rows : List (List ℝ)) (hne : rows ≠ [])
    (hlen : ∀ r ∈ rows, r.length = p) :
    ((List.range rows.length).map fun j => w j * corr c (rows.getD j [])).sum ≤
      ((List.range rows.length).map fun j =>
        w j * corr (poolWeighted corrF w rows) (rows.getD j [])).sum := by
  have hcl := map_center_length p rows hlen
  have h := wsum_cosine_le_pool (center c) w p (rows.map center) (by simpa using hne) hcl
  have hget : ∀ j, j < rows.length → (rows.map center).getD j [] = center (rows.getD j []) := by
    intro j hj
    rw [List.getD_eq_getElem _ _ (by simpa using hj), List.getD_eq_getElem _ _ hj, List.getElem_map]
  -- the weighted correlation pool is the weighted cosine pool of the centred data, and mean-free
  have hW : poolWeighted corrF w rows = poolWeighted cosF w (rows.map center) := by
    unfold poolWeighted
    obtain ⟨r, rs, rfl⟩ := List.exists_cons_of_ne_nil hne
    have e1 : (((r :: rs).map center).headD []).length = ((r :: rs).headD []).length := by
      simp [center_length]
    rw [e1, List.length_map]
    congr 1
    apply List.map_congr_left
    intro j hj
    rw [hget j (List.mem_range.mp hj), applyD_corrF]
  have hmean : mean (poolWeighted cosF w (rows.map center)) = 0 := by
    have hne' : rows.map center ≠ [] := by simpa using hne
    unfold poolWeighted
    obtain ⟨r, rs, hrs⟩ := List.exists_cons_of_ne_nil hne'
    have hp : ((rows.map center).headD []).length = p := by
      rw [hrs]; simpa using hcl r (by rw [hrs]; exact List.mem_cons_self ..)
    rw [hp]
    unfold mean
    rw [sum_vsumP p _ (poolWeighted_terms_length w p _ hcl)]
    have : (((List.range (rows.map center).length).map fun j =>
        (applyD cosF ((rows.map center).getD j [])).map (· * w j)).map List.sum).sum = 0 := by
      apply List.sum_eq_zero
      intro x hx
      simp only [List.map_map, List.mem_map, Function.comp_def] at hx
      obtain ⟨j, hj, rfl⟩ := hx
      have hj' : j < rows.length := by simpa using hj
      rw [hget j hj', applyD_cosF, List.sum_map_mul_right]
      simp only [List.map_id']
      rw [sum_map_div, sum_center]
      simp
    rw [this]; simp
  have e1 : ∀ j ∈ List.range rows.length,
      w j * corr c (rows.getD j []) = w j * cosine (center c) ((rows.map center).getD j []) := by
    intro j hj; rw [hget j (List.mem_range.mp hj)]; rfl
  have e2 : ∀ j ∈ List.range rows.length,
      w j * corr (poolWeighted corrF w rows) (rows.getD j [])
        = w j * cosine (poolWeighted cosF w (rows.map center)) ((rows.map center).getD j []) := by
    intro j hj
    rw [hget j (List.mem_range.mp hj), hW]
    unfold corr
    rw [center_of_mean_zero _ hmean]
  rw [List.map_congr_left e1, List.map_congr_left e2]
  simpa using h

end Rsa.Ceiling
