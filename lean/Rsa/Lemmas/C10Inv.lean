/- C10 helper lemmas, object level: constructors, descriptor tables, and the invariant under
   selections of rows / conditions -/
import Rsa.Lemmas.C10Vec

set_option linter.unusedSectionVars false
set_option linter.unusedVariables false
set_option linter.unusedSimpArgs false

namespace Rsa.Rdm

open Rsa

variable {α : Type} [Zero α]

/-! ### size recovery through the generated leaf -/

theorem nFromReduced_triLen (n : Nat) (hn : 1 ≤ n) : Rsa.Gen.C10.nFromReduced (triLen n) = n := by
  unfold Rsa.Gen.C10.nFromReduced
  rw [two_mul_triLen]
  by_cases h2 : 2 ≤ n
  · rw [ceilSqrt_mul_pred n h2]; omega
  · have : n = 1 := by omega
    subst this
    decide

theorem nFromLength_triLen (n : Nat) (hn : n ≠ 1) : Rsa.Gen.C10.nFromLength (triLen n) = n := by
  unfold Rsa.Gen.C10.nFromLength
  rw [two_mul_triLen]
  by_cases h2 : 2 ≤ n
  · exact ceilSqrt_mul_pred n h2
  · have : n = 0 := by omega
    subst this
    decide

/-! ### `pick` -/

theorem pick_length {β : Type} (d : β) (l : List β) (sel : List Nat) : (pick d l sel).length = sel.length := by
  simp [pick]

theorem pick_getElem? {β : Type} (d : β) (l : List β) (sel : List Nat) (i : Nat) :
    (pick d l sel)[i]? = (sel[i]?).map (fun a => l.getD a d) := by
  simp [pick]

theorem getD_eq_of_getElem? {β : Type} {l : List β} {a : Nat} {d x : β} (h : l[a]? = some x) :
    l.getD a d = x := by
  simp [List.getD_eq_getElem?_getD, h]

theorem getElem?_of_getD_ne {β : Type} {l : List β} {a : Nat} {d x : β} (h : l.getD a d = x) (hne : x ≠ d) :
    l[a]? = some x := by
  rw [List.getD_eq_getElem?_getD] at h
  cases hl : l[a]? with
  | none => rw [hl] at h; simp at h; exact absurd h.symm hne
  | some y => rw [hl] at h; simp at h; rw [h]

theorem inRange_iff (sel : List Nat) (n : Nat) : inRange sel n = true ↔ ∀ a ∈ sel, a < n := by
  simp [inRange]

/-! ### descriptor tables -/

theorem Desc.mem_pick {d : Desc} {sel : List Nat} {kv : String × List Lbl} (h : kv ∈ d.pick sel) :
    ∃ kv0 ∈ d, kv = (kv0.1, Rsa.Rdm.pick Lbl.none kv0.2 sel) := by
  simp only [Desc.pick, List.mem_map] at h
  obtain ⟨kv0, h0, rfl⟩ := h
  exact ⟨kv0, h0, rfl⟩

theorem Desc.mem_addIndex {d : Desc} {n : Nat} {kv : String × List Lbl} (h : kv ∈ d.addIndex n) :
    kv ∈ d ∨ kv = ("index", rangeLbl n) := by
  unfold Desc.addIndex at h
  split at h
  · exact Or.inl h
  · simpa using h

theorem Desc.mem_set {d : Desc} {k : String} {col : List Lbl} {kv : String × List Lbl}
    (h : kv ∈ d.set k col) : kv ∈ d ∨ kv = (k, col) := by
  unfold Desc.set at h
  split at h
  · simp only [List.mem_map] at h
    obtain ⟨kv0, h0, rfl⟩ := h
    split
    · exact Or.inr rfl
    · exact Or.inl h0
  · simpa using h

theorem rangeLbl_length (n : Nat) : (rangeLbl n).length = n := by simp [rangeLbl]

theorem Desc.wellShaped_iff (d : Desc) (n : Nat) :
    d.wellShaped n = true ↔ ∀ kv ∈ d, kv.2.length = n := by
  simp [Desc.wellShaped]

theorem Desc.get_mem {d : Desc} {k : String} {col : List Lbl} (h : d.get k = some col) : (k, col) ∈ d := by
  unfold Desc.get at h
  induction d with
  | nil => simp [List.lookup] at h
  | cons kv rest ih =>
    obtain ⟨k', c'⟩ := kv
    simp only [List.lookup] at h
    split at h
    · rename_i heq
      have : k = k' := by simpa using heq
      subst this
      simp at h; subst h
      exact List.mem_cons_self
    · exact List.mem_cons_of_mem _ (ih h)

/-! ### constructors -/

theorem mk2d_some {vecs : List (List (Option α))} {od : ODesc} {rd pd : Desc} {o : Obj α}
    (h : mk2d vecs od rd pd = some o) :
    ∃ v rest, vecs = v :: rest ∧ o.nCond = Rsa.Gen.C10.nFromReduced v.length ∧ o.vecs = vecs ∧
      o.odesc = od ∧ o.rdesc = rd.addIndex vecs.length ∧ o.pdesc = pd.addIndex o.nCond ∧
      (∀ w ∈ vecs, w.length = v.length) ∧ (∀ kv ∈ pd, kv.2.length = o.nCond) ∧
      (∀ kv ∈ rd, kv.2.length = vecs.length) := by
  unfold mk2d at h
  cases vecs with
  | nil => simp at h
  | cons v rest =>
    simp only at h
    split at h
    · rename_i hc
      simp only [Option.some.injEq] at h
      subst h
      simp only [Bool.and_eq_true, List.all_eq_true, beq_iff_eq, Desc.wellShaped_iff] at hc
      exact ⟨v, rest, rfl, rfl, rfl, rfl, rfl, rfl, hc.1.1, hc.2, hc.1.2⟩
    · simp at h

theorem mk3d_some {n : Nat} {vecs : List (List (Option α))} {od : ODesc} {rd pd : Desc} {o : Obj α}
    (h : mk3d n vecs od rd pd = some o) :
    o.nCond = n ∧ 1 ≤ n ∧ vecs ≠ [] ∧ o.vecs = vecs ∧ o.odesc = od ∧
      o.rdesc = rd.addIndex vecs.length ∧ o.pdesc = pd.addIndex n ∧
      (∀ w ∈ vecs, w.length = triLen n) ∧ (∀ kv ∈ pd, kv.2.length = n) ∧
      (∀ kv ∈ rd, kv.2.length = vecs.length) := by
  unfold mk3d at h
  split at h
  · rename_i hc
    simp only [Option.some.injEq] at h
    subst h
    simp only [Bool.and_eq_true, decide_eq_true_eq, List.all_eq_true, beq_iff_eq,
      Desc.wellShaped_iff] at hc
    -- the buffer length `batch_to_vectors` allocates (generated leaf) is the number of pairs
    have hb : Rsa.Gen.C10.b2vLen n = triLen n := rfl
    rw [hb] at hc
    refine ⟨rfl, hc.1.1.1.1, ?_, rfl, rfl, rfl, rfl, hc.1.1.2, hc.2, hc.1.2⟩
    intro he; rw [he] at hc; simp at hc
  · simp at h

/-! ### the invariant under re-indexing of conditions -/

theorem pvals_pick (s0 : Store α) (pd : Desc) (pp : List (Option (Nat × Nat))) (sel : List Nat)
    (h : PVals s0 pd pp) : PVals s0 (pd.pick sel) (pick none pp sel) := by
  intro kv hkv hne i sp hi
  obtain ⟨kv0, h0, rfl⟩ := Desc.mem_pick hkv
  rw [pick_getElem?] at hi
  cases hs : sel[i]? with
  | none => rw [hs] at hi; simp at hi
  | some a =>
    rw [hs] at hi
    simp only [Option.map_some, Option.some.injEq] at hi
    have hpa : pp[a]? = some (some sp) := getElem?_of_getD_ne hi (by simp)
    obtain ⟨v, hv, hpv⟩ := h kv0 h0 hne a sp hpa
    refine ⟨v, ?_, hpv⟩
    simp only [pick_getElem?, hs, Option.map_some, Option.some.injEq]
    exact getD_eq_of_getElem? hv

theorem pvals_mono (s0 : Store α) {pd pd' : Desc} {pp : List (Option (Nat × Nat))}
    (h : PVals s0 pd pp) (hsub : ∀ kv ∈ pd', kv.1 ≠ "index" → kv ∈ pd) : PVals s0 pd' pp := by
  intro kv hkv hne i sp hi
  exact h kv (hsub kv hkv hne) hne i sp hi

theorem aligned_pick (rows : List GRow) (pp : List (Option (Nat × Nat))) (sel : List Nat)
    (h : Aligned rows pp) : Aligned (rows.map (·.pickC sel)) (pick none pp sel) := by
  intro r hr hal i p hi
  simp only [List.mem_map] at hr
  obtain ⟨r0, hr0, rfl⟩ := hr
  simp only [GRow.pickC] at hi hal ⊢
  rw [pick_getElem?] at hi ⊢
  cases hs : sel[i]? with
  | none => rw [hs] at hi; simp at hi
  | some a =>
    rw [hs] at hi
    simp only [Option.map_some, Option.some.injEq] at hi ⊢
    have hca : r0.cp[a]? = some (some p) := getElem?_of_getD_ne hi (by simp)
    exact getD_eq_of_getElem? (h r0 hr0 hal a p hca)

theorem pshape_pick {pd : Desc} {sel : List Nat} :
    ∀ kv ∈ pd.pick sel, kv.2.length = sel.length := by
  intro kv hkv
  obtain ⟨kv0, _, rfl⟩ := Desc.mem_pick hkv
  simp [pick_length]

theorem pshape_addIndex {pd : Desc} {n : Nat} (h : ∀ kv ∈ pd, kv.2.length = n) :
    ∀ kv ∈ pd.addIndex n, kv.2.length = n := by
  intro kv hkv
  rcases Desc.mem_addIndex hkv with h1 | rfl
  · exact h kv h1
  · exact rangeLbl_length n

theorem pvals_addIndex (s0 : Store α) {pd : Desc} {n : Nat} {pp : List (Option (Nat × Nat))}
    (h : PVals s0 pd pp) : PVals s0 (pd.addIndex n) pp :=
  pvals_mono s0 h (fun kv hkv hne => by
    rcases Desc.mem_addIndex hkv with h1 | rfl
    · exact h1
    · exact absurd rfl hne)


/-! ### rdm descriptors follow their rows -/

theorem Desc.get_cons (kv : String × List Lbl) (d : Desc) (k : String) :
    Desc.get (kv :: d) k = if k = kv.1 then some kv.2 else Desc.get d k := by
  unfold Desc.get
  simp only [List.lookup]
  by_cases h : k = kv.1
  · subst h; simp
  · have : (k == kv.1) = false := by simpa using h
    simp [this, h]

theorem Desc.get_mapVal (F : String → List Lbl → List Lbl) (d : Desc) (k : String) :
    Desc.get (d.map (fun kv => (kv.1, F kv.1 kv.2))) k = (Desc.get d k).map (F k) := by
  induction d with
  | nil => simp [Desc.get]
  | cons kv rest ih =>
    simp only [List.map_cons, Desc.get_cons, ih]
    by_cases h : k = kv.1
    · subst h; simp
    · simp [h]

theorem Desc.get_pick (d : Desc) (sel : List Nat) (k : String) :
    Desc.get (d.pick sel) k = (Desc.get d k).map (fun c => Rsa.Rdm.pick Lbl.none c sel) :=
  Desc.get_mapVal (fun _ c => Rsa.Rdm.pick Lbl.none c sel) d k

theorem Desc.get_append_of_some (d e : Desc) (k : String) (c : List Lbl) (h : Desc.get d k = some c) :
    Desc.get (d ++ e) k = some c := by
  induction d with
  | nil => simp [Desc.get] at h
  | cons kv rest ih =>
    simp only [List.cons_append, Desc.get_cons] at h ⊢
    by_cases hk : k = kv.1
    · simpa [hk] using h
    · simp only [hk, if_false] at h ⊢; exact ih h

theorem Desc.get_addIndex_of_some (d : Desc) (n : Nat) (k : String) (c : List Lbl)
    (h : Desc.get d k = some c) : Desc.get (d.addIndex n) k = some c := by
  unfold Desc.addIndex
  split
  · exact h
  · exact Desc.get_append_of_some d _ k c h

theorem Desc.get_set_ne (d : Desc) (k k' : String) (c col : List Lbl) (hne : k ≠ k')
    (h : Desc.get d k = some c) : Desc.get (d.set k' col) k = some c := by
  unfold Desc.set
  split
  · have := Desc.get_mapVal (fun key old => if key = k' then col else old) d k
    have hmap : d.map (fun kv => if kv.1 = k' then (k', col) else kv)
        = d.map (fun kv => (kv.1, if kv.1 = k' then col else kv.2)) := by
      apply List.map_congr_left
      intro kv _
      by_cases hk : kv.1 = k'
      · simp [hk]
      · simp [hk]
    rw [hmap, this, h]
    simp [hne]
  · exact Desc.get_append_of_some d _ k c h

theorem rvalsObj_nil (s0 : Store α) (rd : Desc) (rows : List GRow) : RValsObj s0 rd rows [] := by
  intro key hk; simp at hk

/-- rows re-selected by `sel`, descriptors re-selected alike -/
theorem rvalsObj_pickRows (s0 : Store α) {rd : Desc} {rows : List GRow} {keys : List String} {sel : List Nat}
    (h : RValsObj s0 rd rows keys) (hsel : ∀ a ∈ sel, a < rows.length) :
    RValsObj s0 (rd.pick sel) (pick default rows sel) keys := by
  intro key hk hne
  obtain ⟨col, hc, hlen, hv⟩ := h key hk hne
  refine ⟨pick Lbl.none col sel, by rw [Desc.get_pick, hc]; rfl, by simp [pick_length], ?_⟩
  intro q r hr
  rw [pick_getElem?] at hr
  cases hs : sel[q]? with
  | none => rw [hs] at hr; simp at hr
  | some a =>
    rw [hs] at hr
    simp only [Option.map_some, Option.some.injEq] at hr
    have ha : a < rows.length := hsel a (List.mem_of_getElem? hs)
    have hra : rows[a]? = some r := by
      rw [List.getD_eq_getElem?_getD, List.getElem?_eq_getElem ha] at hr
      simp at hr
      rw [List.getElem?_eq_getElem ha, hr]
    obtain ⟨v, hv1, hv2⟩ := hv a r hra
    refine ⟨v, ?_, hv2⟩
    simp only [pick_getElem?, hs, Option.map_some, Option.some.injEq]
    exact getD_eq_of_getElem? hv1

/-- rows transformed without changing which RDM they are -/
theorem rvalsObj_mapRows (s0 : Store α) {rd : Desc} {rows : List GRow} {keys : List String}
    (h : RValsObj s0 rd rows keys) (f : GRow → GRow) (hf : ∀ r, (f r).src = r.src) :
    RValsObj s0 rd (rows.map f) keys := by
  intro key hk hne
  obtain ⟨col, hc, hlen, hv⟩ := h key hk hne
  refine ⟨col, hc, by simpa using hlen, ?_⟩
  intro q r hr
  rw [List.getElem?_map] at hr
  cases hq : rows[q]? with
  | none => rw [hq] at hr; simp at hr
  | some r0 =>
    rw [hq] at hr
    simp only [Option.map_some, Option.some.injEq] at hr
    subst hr
    rw [hf r0]
    exact hv q r0 hq

theorem rvalsObj_addIndex (s0 : Store α) {rd : Desc} {rows : List GRow} {keys : List String} (n : Nat)
    (h : RValsObj s0 rd rows keys) : RValsObj s0 (rd.addIndex n) rows keys := by
  intro key hk hne
  obtain ⟨col, hc, hlen, hv⟩ := h key hk hne
  exact ⟨col, Desc.get_addIndex_of_some rd n key col hc, hlen, hv⟩

theorem rvalsObj_append (s0 : Store α) {rd rd2 : Desc} {rows rows2 : List GRow} {keys keys2 : List String}
    (n : Nat) (f : GRow → GRow) (hf : ∀ r, (f r).src = r.src)
    (h : RValsObj s0 rd rows keys) (h2 : RValsObj s0 rd2 rows2 keys2) :
    RValsObj s0 (Desc.set (rd.map (fun kv => (kv.1, kv.2 ++ (Desc.get rd2 kv.1).getD []))) "index" (rangeLbl n))
      (rows ++ rows2.map f) (keys.filter (fun k => keys2.contains k)) := by
  intro key hk hne
  simp only [List.mem_filter, List.contains_iff_mem] at hk
  obtain ⟨col, hc, hlen, hv⟩ := h key hk.1 hne
  obtain ⟨col2, hc2, hlen2, hv2⟩ := h2 key hk.2 hne
  refine ⟨col ++ col2, ?_, by simp [hlen, hlen2], ?_⟩
  · apply Desc.get_set_ne _ _ _ _ _ hne
    have := Desc.get_mapVal (fun k c => c ++ (Desc.get rd2 k).getD []) rd key
    rw [this, hc, hc2]
    rfl
  · intro q r hr
    by_cases hq : q < rows.length
    · rw [List.getElem?_append_left hq] at hr
      obtain ⟨v, hv1, hv2'⟩ := hv q r hr
      exact ⟨v, by rw [List.getElem?_append_left (by omega)]; exact hv1, hv2'⟩
    · rw [List.getElem?_append_right (by omega), List.getElem?_map] at hr
      cases hq2 : rows2[q - rows.length]? with
      | none => rw [hq2] at hr; simp at hr
      | some r0 =>
        rw [hq2] at hr
        simp only [Option.map_some, Option.some.injEq] at hr
        subst hr
        obtain ⟨v, hv1, hv2'⟩ := hv2 _ r0 hq2
        rw [hf r0]
        refine ⟨v, ?_, hv2'⟩
        rw [List.getElem?_append_right (by omega), hlen]
        exact hv1


/-! ### row level: every row's own tracked keys -/

theorem rowVals_pickRows (s0 : Store α) {rd : Desc} {rows : List GRow} {sel : List Nat}
    (h : RowVals s0 rd rows) (hsel : ∀ a ∈ sel, a < rows.length) :
    RowVals s0 (rd.pick sel) (pick default rows sel) := by
  refine ⟨?_, ?_⟩
  · intro kv hkv
    obtain ⟨kv0, _, rfl⟩ := Desc.mem_pick hkv
    simp [pick_length]
  · intro q r hr key hk hne
    rw [pick_getElem?] at hr
    cases hs : sel[q]? with
    | none => rw [hs] at hr; simp at hr
    | some a =>
      rw [hs] at hr
      simp only [Option.map_some, Option.some.injEq] at hr
      have ha : a < rows.length := hsel a (List.mem_of_getElem? hs)
      have hra : rows[a]? = some r := by
        rw [List.getD_eq_getElem?_getD, List.getElem?_eq_getElem ha] at hr
        simp at hr
        rw [List.getElem?_eq_getElem ha, hr]
      obtain ⟨col, v, hc, hv1, hv2⟩ := h.2 a r hra key hk hne
      refine ⟨pick Lbl.none col sel, v, by rw [Desc.get_pick, hc]; rfl, ?_, hv2⟩
      simp only [pick_getElem?, hs, Option.map_some, Option.some.injEq]
      exact getD_eq_of_getElem? hv1

theorem rowVals_mapRows (s0 : Store α) {rd : Desc} {rows : List GRow}
    (h : RowVals s0 rd rows) (f : GRow → GRow) (hf : ∀ r, (f r).src = r.src)
    (hk : ∀ r, (f r).rk = r.rk) : RowVals s0 rd (rows.map f) := by
  refine ⟨by simpa using h.1, ?_⟩
  intro q r hr key hkey hne
  rw [List.getElem?_map] at hr
  cases hq : rows[q]? with
  | none => rw [hq] at hr; simp at hr
  | some r0 =>
    rw [hq] at hr
    simp only [Option.map_some, Option.some.injEq] at hr
    subst hr
    rw [hk r0] at hkey
    rw [hf r0]
    exact h.2 q r0 hq key hkey hne

theorem rowVals_addIndex (s0 : Store α) {rd : Desc} {rows : List GRow}
    (h : RowVals s0 rd rows) : RowVals s0 (rd.addIndex rows.length) rows := by
  refine ⟨pshape_addIndex h.1, ?_⟩
  intro q r hr key hk hne
  obtain ⟨col, v, hc, hv⟩ := h.2 q r hr key hk hne
  exact ⟨col, v, Desc.get_addIndex_of_some rd _ key col hc, hv⟩

theorem Desc.get_of_has {d : Desc} {k : String} (h : d.has k = true) : ∃ c, Desc.get d k = some c := by
  simp only [Desc.has, List.contains_iff_mem] at h
  induction d with
  | nil => simp [Desc.keys] at h
  | cons kv rest ih =>
    rw [Desc.get_cons]
    by_cases hk : k = kv.1
    · exact ⟨kv.2, by simp [hk]⟩
    · simp only [hk, if_false]
      apply ih
      simp only [Desc.keys, List.map_cons, List.mem_cons] at h
      rcases h with h | h
      · exact absurd h hk
      · exact h

/-- `append`: the receiver's rows keep all their keys, the appended rows those the receiver has -/
theorem rowVals_append (s0 : Store α) {rd rd2 : Desc} {rows rows2 : List GRow}
    (h : RowVals s0 rd rows) (h2 : RowVals s0 rd2 rows2)
    (hkeys : ∀ k ∈ rd.keys, rd2.has k = true) :
    RowVals s0 (Desc.set (rd.map (fun kv => (kv.1, kv.2 ++ (Desc.get rd2 kv.1).getD [])))
        "index" (rangeLbl (rows.length + rows2.length)))
      (rows ++ rows2.map (GRow.appended rd.keys)) := by
  have hcolLen : ∀ k c c2, Desc.get rd k = some c → Desc.get rd2 k = some c2 →
      (c ++ c2).length = rows.length + rows2.length := by
    intro k c c2 hc hc2
    rw [List.length_append, h.1 _ (Desc.get_mem hc), h2.1 _ (Desc.get_mem hc2)]
  refine ⟨?_, ?_⟩
  · intro kv hkv
    rcases Desc.mem_set hkv with h1 | rfl
    · simp only [List.mem_map] at h1
      obtain ⟨kv0, h0, rfl⟩ := h1
      have hk0 : kv0.1 ∈ rd.keys := by
        simp only [Desc.keys, List.mem_map]; exact ⟨kv0, h0, rfl⟩
      obtain ⟨c2, hc2⟩ := Desc.get_of_has (hkeys _ hk0)
      simp only [hc2, Option.getD_some, List.length_append, List.length_map]
      rw [h.1 kv0 h0, h2.1 _ (Desc.get_mem hc2)]
    · simp [rangeLbl_length]
  · intro q r hr key hk hne
    have hget : ∀ c, Desc.get rd key = some c →
        Desc.get (Desc.set (rd.map (fun kv => (kv.1, kv.2 ++ (Desc.get rd2 kv.1).getD [])))
          "index" (rangeLbl (rows.length + rows2.length))) key
          = some (c ++ (Desc.get rd2 key).getD []) := by
      intro c hc
      apply Desc.get_set_ne _ _ _ _ _ hne
      have := Desc.get_mapVal (fun k c => c ++ (Desc.get rd2 k).getD []) rd key
      rw [this, hc]; rfl
    by_cases hq : q < rows.length
    · rw [List.getElem?_append_left hq] at hr
      obtain ⟨col, v, hc, hv1, hv2⟩ := h.2 q r hr key hk hne
      have hcl : col.length = rows.length := h.1 _ (Desc.get_mem hc)
      exact ⟨_, v, hget col hc, by rw [List.getElem?_append_left (by omega)]; exact hv1, hv2⟩
    · rw [List.getElem?_append_right (by omega), List.getElem?_map] at hr
      cases hq2 : rows2[q - rows.length]? with
      | none => rw [hq2] at hr; simp at hr
      | some r0 =>
        rw [hq2] at hr
        simp only [Option.map_some, Option.some.injEq] at hr
        subst hr
        simp only [GRow.appended, List.mem_filter, List.contains_iff_mem] at hk
        obtain ⟨col2, v, hc2, hv1, hv2⟩ := h2.2 _ r0 hq2 key hk.1 hne
        have hhas : rd.has key = true := by simpa [Desc.has] using hk.2
        obtain ⟨col, hc⟩ := Desc.get_of_has hhas
        have hcl : col.length = rows.length := h.1 _ (Desc.get_mem hc)
        refine ⟨_, v, hget col hc, ?_, hv2⟩
        rw [hc2, Option.getD_some, List.getElem?_append_right (by omega), hcl]
        exact hv1

/-! ### both levels together -/

theorem rvals_pickRows (s0 : Store α) {rd : Desc} {rows : List GRow} {keys : List String} {sel : List Nat}
    (h : RVals s0 rd rows keys) (hsel : ∀ a ∈ sel, a < rows.length) :
    RVals s0 (rd.pick sel) (pick default rows sel) keys :=
  ⟨rvalsObj_pickRows s0 h.1 hsel, rowVals_pickRows s0 h.2 hsel⟩

theorem rvals_mapRows (s0 : Store α) {rd : Desc} {rows : List GRow} {keys : List String}
    (h : RVals s0 rd rows keys) (f : GRow → GRow) (hf : ∀ r, (f r).src = r.src)
    (hk : ∀ r, (f r).rk = r.rk) : RVals s0 rd (rows.map f) keys :=
  ⟨rvalsObj_mapRows s0 h.1 f hf, rowVals_mapRows s0 h.2 f hf hk⟩

/-- the constructor adds `index` for exactly the rows at hand -/
theorem rvals_addIndex (s0 : Store α) {rd : Desc} {rows : List GRow} {keys : List String} (n : Nat)
    (hn : n = rows.length) (h : RVals s0 rd rows keys) : RVals s0 (rd.addIndex n) rows keys := by
  subst hn
  exact ⟨rvalsObj_addIndex s0 _ h.1, rowVals_addIndex s0 h.2⟩

theorem rvals_append (s0 : Store α) {rd rd2 : Desc} {rows rows2 : List GRow} {keys keys2 : List String}
    (h : RVals s0 rd rows keys) (h2 : RVals s0 rd2 rows2 keys2)
    (hkeys : ∀ k ∈ rd.keys, rd2.has k = true) :
    RVals s0 (Desc.set (rd.map (fun kv => (kv.1, kv.2 ++ (Desc.get rd2 kv.1).getD []))) "index"
        (rangeLbl (rows.length + rows2.length)))
      (rows ++ rows2.map (GRow.appended rd.keys)) (keys.filter (fun k => keys2.contains k)) :=
  ⟨rvalsObj_append s0 _ _ (fun _ => rfl) h.1 h2.1, rowVals_append s0 h.2 h2.2 hkeys⟩

/-! ### `uniq` -/

theorem mem_uniq {β : Type} [BEq β] [LawfulBEq β] {l : List β} {a : β} : a ∈ uniq l ↔ a ∈ l := by
  induction l with
  | nil => simp [uniq]
  | cons x xs ih =>
    simp only [uniq, List.mem_cons, List.mem_filter, ih]
    constructor
    · rintro (h | ⟨h, _⟩)
      · exact Or.inl h
      · exact Or.inr h
    · rintro (h | h)
      · exact Or.inl h
      · by_cases hax : a = x
        · exact Or.inl hax
        · exact Or.inr ⟨h, by simpa using hax⟩

theorem nodup_uniq {β : Type} [BEq β] [LawfulBEq β] (l : List β) : (uniq l).Nodup := by
  induction l with
  | nil => simp [uniq]
  | cons x xs ih =>
    simp only [uniq, List.nodup_cons, List.mem_filter]
    refine ⟨?_, ih.filter _⟩
    rintro ⟨_, h⟩
    simp at h

/-! ### merged rdm descriptors (`concat`, `from_partials`) -/

theorem Desc.get_mapKeys (H : String → List Lbl) (names : List String) (k : String) (hk : k ∈ names) :
    Desc.get (names.map (fun n => (n, H n))) k = some (H k) := by
  induction names with
  | nil => simp at hk
  | cons a rest ih =>
    simp only [List.map_cons, Desc.get_cons]
    by_cases h : k = a
    · subst h; simp
    · simp only [h, if_false]
      exact ih (by rcases List.mem_cons.mp hk with h1 | h1; exact absurd h1 h; exact h1)

theorem Desc.get_filter_key (pk : String → Bool) (d : Desc) (k : String) (h : pk k = true) :
    Desc.get (d.filter (fun kv => pk kv.1)) k = Desc.get d k := by
  induction d with
  | nil => rfl
  | cons kv rest ih =>
    by_cases hp : pk kv.1 = true
    · simp only [List.filter_cons, hp, if_true, Desc.get_cons, ih]
    · have hne : k ≠ kv.1 := by intro e; subst e; exact hp h
      simp only [List.filter_cons, hp, Bool.false_eq_true, if_false, Desc.get_cons, hne, ih]

theorem Desc.mem_keys_of_get {d : Desc} {k : String} {c : List Lbl} (h : Desc.get d k = some c) :
    k ∈ d.keys := by
  have := Desc.get_mem h
  simp only [Desc.keys, List.mem_map]
  exact ⟨(k, c), this, rfl⟩

/-- one column against one list of rows: same length, row by row the initial RDM's value -/
def RCol (s0 : Store α) (key : String) (col : List Lbl) (rows : List GRow) : Prop :=
  col.length = rows.length ∧
    ∀ (q : Nat) (r : GRow), rows[q]? = some r → ∃ v, col[q]? = some v ∧ RVal s0 r.src key v

theorem rcol_nil (s0 : Store α) (key : String) : RCol s0 key [] [] := by
  refine ⟨rfl, ?_⟩
  intro q r hr; simp at hr

theorem rcol_append (s0 : Store α) {key : String} {c1 c2 : List Lbl} {r1 r2 : List GRow}
    (h1 : RCol s0 key c1 r1) (h2 : RCol s0 key c2 r2) : RCol s0 key (c1 ++ c2) (r1 ++ r2) := by
  refine ⟨by simp [h1.1, h2.1], ?_⟩
  intro q r hr
  by_cases hq : q < r1.length
  · rw [List.getElem?_append_left hq] at hr
    obtain ⟨v, hv1, hv2⟩ := h1.2 q r hr
    exact ⟨v, by rw [List.getElem?_append_left (by rw [h1.1]; exact hq)]; exact hv1, hv2⟩
  · rw [List.getElem?_append_right (by omega)] at hr
    obtain ⟨v, hv1, hv2⟩ := h2.2 _ r hr
    exact ⟨v, by rw [List.getElem?_append_right (by rw [h1.1]; omega), h1.1]; exact hv1, hv2⟩

theorem rcol_mapRows (s0 : Store α) {key : String} {col : List Lbl} {rows : List GRow}
    (h : RCol s0 key col rows) (f : GRow → GRow) (hf : ∀ r, (f r).src = r.src) :
    RCol s0 key col (rows.map f) := by
  refine ⟨by simpa using h.1, ?_⟩
  intro q r hr
  rw [List.getElem?_map] at hr
  cases hq : rows[q]? with
  | none => rw [hq] at hr; simp at hr
  | some r0 =>
    rw [hq] at hr
    simp only [Option.map_some, Option.some.injEq] at hr
    subst hr
    rw [hf r0]
    exact h.2 q r0 hq

theorem rcol_of_src_eq (s0 : Store α) {key : String} {col : List Lbl} {rows rows' : List GRow}
    (hsrc : rows'.map (·.src) = rows.map (·.src)) (h : RCol s0 key col rows) : RCol s0 key col rows' := by
  have hlen : rows'.length = rows.length := by simpa using congrArg List.length hsrc
  refine ⟨by rw [h.1, hlen], ?_⟩
  intro q r' hr'
  have hq : q < rows.length := by
    by_contra hc
    rw [List.getElem?_eq_none (by omega)] at hr'
    simp at hr'
  have hs : (rows'.map (·.src))[q]? = (rows.map (·.src))[q]? := by rw [hsrc]
  rw [List.getElem?_map, List.getElem?_map, hr', List.getElem?_eq_getElem hq] at hs
  simp only [Option.map_some, Option.some.injEq] at hs
  obtain ⟨v, hv1, hv2⟩ := h.2 q rows[q] (List.getElem?_eq_getElem hq)
  exact ⟨v, hv1, by rw [hs]; exact hv2⟩

theorem mem_commonKeys {g : GObj} {gs : List GObj} {k : String} (h : k ∈ commonKeys (g :: gs)) :
    k ∈ g.rk ∧ ∀ g' ∈ gs, k ∈ g'.rk := by
  simp only [commonKeys, List.mem_filter, List.all_eq_true, List.contains_iff_mem] at h
  exact h

theorem mem_commonKeys_all {gs : List GObj} {k : String} (h : k ∈ commonKeys gs) : ∀ g ∈ gs, k ∈ g.rk := by
  cases gs with
  | nil => simp [commonKeys] at h
  | cons g rest =>
    obtain ⟨h1, h2⟩ := mem_commonKeys h
    intro g' hg'
    rcases List.mem_cons.mp hg' with rfl | hg'
    · exact h1
    · exact h2 g' hg'

/-! ### stores -/

theorem storeInv_get {s0 s : Store α} {g : List GObj} (h : StoreInv s0 s g) {i : Nat} {o : Obj α}
    (ho : s[i]? = some o) : ∃ go, g[i]? = some go ∧ ObjInv s0 o go := by
  have hi : i < s.length := by
    by_contra hc; rw [List.getElem?_eq_none (by omega)] at ho; simp at ho
  have hg : i < g.length := by rw [← h.1]; exact hi
  exact ⟨g[i], List.getElem?_eq_getElem hg, h.2 i o g[i] ho (List.getElem?_eq_getElem hg)⟩

theorem storeInv_append {s0 s : Store α} {g : List GObj} (h : StoreInv s0 s g) {o : Obj α} {go : GObj}
    (ho : ObjInv s0 o go) : StoreInv s0 (s ++ [o]) (g ++ [go]) := by
  refine ⟨by simp [h.1], ?_⟩
  intro i o' go' h1 h2
  by_cases hi : i < s.length
  · rw [List.getElem?_append_left hi] at h1
    rw [List.getElem?_append_left (by rw [← h.1]; exact hi)] at h2
    exact h.2 i o' go' h1 h2
  · rw [List.getElem?_append_right (by omega)] at h1
    rw [List.getElem?_append_right (by rw [← h.1]; omega)] at h2
    rw [← h.1] at h2
    cases hk : i - s.length with
    | zero => rw [hk] at h1 h2; simp at h1 h2; subst h1; subst h2; exact ho
    | succ k => rw [hk] at h1; simp at h1

theorem storeInv_set {s0 s : Store α} {g : List GObj} (h : StoreInv s0 s g) {i : Nat} {o : Obj α}
    {go : GObj} (ho : ObjInv s0 o go) : StoreInv s0 (s.set i o) (g.set i go) := by
  refine ⟨by simp [h.1], ?_⟩
  intro j o' go' h1 h2
  by_cases hij : i = j
  · subst hij
    rw [List.getElem?_set_self'] at h1 h2
    by_cases hi : i < s.length
    · have hg : i < g.length := by rw [← h.1]; exact hi
      simp [hi] at h1; simp [hg] at h2
      subst h1; subst h2; exact ho
    · simp [hi] at h1
  · rw [List.getElem?_set_ne hij] at h1 h2
    exact h.2 j o' go' h1 h2

end Rsa.Rdm
