/- C10 helper lemmas: which rdm-descriptor keys a row still tracks.

   `GFull`: every row tracks every rdm-descriptor key of its initial object.  It holds initially
   and is preserved by every operation except `append` (the only operation that drops keys of
   the rows it attaches).  Together with the row-level part of the invariant (`RowVals`) this
   gives the literal sentence "every retained RDM keeps all its descriptor values" for every
   `append`-free operation sequence. -/
import Rsa.Lemmas.C10Step

set_option linter.unusedSectionVars false
set_option linter.unusedVariables false
set_option linter.unusedSimpArgs false

namespace Rsa.Rdm

open Rsa

variable {α : Type} [Zero α]

/-- every row still tracks every rdm-descriptor key of its initial object -/
def GFullObj (s0 : Store α) (go : GObj) : Prop :=
  ∀ r ∈ go.rows, ∀ o0, s0[r.src.1]? = some o0 → ∀ k ∈ o0.rdesc.keys, k ∈ r.rk

def GFull (s0 : Store α) (g : List GObj) : Prop := ∀ go ∈ g, GFullObj s0 go

def Op.isAppend : Op → Bool
  | .append _ _ => true
  | _ => false

theorem gfull_init (s0 : Store α) : GFull s0 (ginit s0) := by
  intro go hgo
  obtain ⟨i, hi, hgi⟩ := List.getElem_of_mem hgo
  have hgi' : (ginit s0)[i]? = some go := by rw [List.getElem?_eq_getElem hi, hgi]
  unfold ginit at hgi'
  rw [ginitFrom_getElem?] at hgi'
  cases ho : s0[i]? with
  | none => rw [ho] at hgi'; simp at hgi'
  | some o =>
    rw [ho] at hgi'
    simp only [Option.map_some, Nat.zero_add, Option.some.injEq] at hgi'
    subst hgi'
    intro r hr o0 ho0 k hk
    simp only [GObj.init, List.mem_map] at hr
    obtain ⟨q, _, rfl⟩ := hr
    simp only at ho0 ⊢
    rw [ho] at ho0
    simp only [Option.some.injEq] at ho0
    subst ho0
    exact hk

theorem gfullObj_mapRows {s0 : Store α} {go : GObj} (h : GFullObj s0 go) (f : GRow → GRow)
    (hf : ∀ r, (f r).src = r.src) (hk : ∀ r, (f r).rk = r.rk) {g' : GObj}
    (hrows : g'.rows = go.rows.map f) : GFullObj s0 g' := by
  intro r hr o0 ho0 k hk0
  rw [hrows] at hr
  simp only [List.mem_map] at hr
  obtain ⟨r0, hr0, rfl⟩ := hr
  rw [hf r0] at ho0
  rw [hk r0]
  exact h r0 hr0 o0 ho0 k hk0

theorem gfullObj_pickConds {s0 : Store α} {go : GObj} (h : GFullObj s0 go) (sel : List Nat) :
    GFullObj s0 (go.pickConds sel) :=
  gfullObj_mapRows h (·.pickC sel) (fun _ => rfl) (fun _ => rfl) rfl

theorem gfullObj_pickRows {s0 : Store α} {go : GObj} (h : GFullObj s0 go) {sel : List Nat}
    (hsel : ∀ a ∈ sel, a < go.rows.length) : GFullObj s0 (go.pickRows sel) := by
  intro r hr
  exact h r (mem_pick_of_lt hsel hr)

theorem gfullObj_alignTo {s0 : Store α} {go : GObj} (h : GFullObj s0 go) (ord : Option (List Nat)) :
    GFullObj s0 (go.alignTo ord) := by
  cases ord with
  | none => exact h
  | some ord => exact gfullObj_pickConds h ord

theorem gfull_snoc {s0 : Store α} {g : List GObj} {x : GObj} (h : GFull s0 g) (hx : GFullObj s0 x) :
    GFull s0 (g ++ [x]) := by
  intro go hgo
  simp only [List.mem_append, List.mem_singleton] at hgo
  rcases hgo with hgo | rfl
  · exact h go hgo
  · exact hx

theorem gfull_set {s0 : Store α} {g : List GObj} {x : GObj} (h : GFull s0 g) (hx : GFullObj s0 x)
    (i : Nat) : GFull s0 (g.set i x) := by
  intro go hgo
  rcases List.mem_or_eq_of_mem_set hgo with hgo | rfl
  · exact h go hgo
  · exact hx

theorem gfull_writeBack {s0 : Store α} :
    ∀ (is : List Nat) {g : List GObj} {xs : List GObj}, GFull s0 g → (∀ x ∈ xs, GFullObj s0 x) →
      GFull s0 (gwriteBack g is xs) := by
  intro is
  induction is with
  | nil => intro g xs h _; simpa [gwriteBack] using h
  | cons i is ih =>
    intro g xs h hx
    cases xs with
    | nil => simpa [gwriteBack] using h
    | cons x xs =>
      simp only [gwriteBack]
      exact ih (gfull_set h (hx x List.mem_cons_self) i)
        (fun y hy => hx y (List.mem_cons_of_mem _ hy))

theorem mem_of_mapM_getElem? {β : Type} {g : List β} :
    ∀ {is : List Nat} {gs : List β}, is.mapM (fun i => g[i]?) = some gs → ∀ x ∈ gs, x ∈ g := by
  intro is
  induction is with
  | nil =>
    intro gs h x hx
    simp only [List.mapM_nil, Option.pure_def, Option.some.injEq] at h
    subst h; simp at hx
  | cons i is ih =>
    intro gs h x hx
    simp only [List.mapM_cons, Option.bind_eq_bind, Option.pure_def, Option.bind_eq_some_iff] at h
    obtain ⟨a, ha, as, has, hgs⟩ := h
    simp only [Option.some.injEq] at hgs
    subst hgs
    rcases List.mem_cons.mp hx with rfl | hx
    · exact List.mem_of_getElem? ha
    · exact ih has x hx

theorem getitem_inRange {s0 : Store α} {o o' : Obj α} {go : GObj} (h : ObjInv s0 o go) {sel : List Nat}
    (ho : o.getitem sel = some o') : ∀ a ∈ sel, a < go.rows.length := by
  unfold Obj.getitem at ho
  split at ho
  · rename_i hr
    rw [inRange_iff, nRdm_eq h] at hr
    exact hr
  · simp at ho

theorem gfullObj_concat {s0 : Store α} {gfirst : GObj} {aligned : List GObj}
    (hf : GFullObj s0 gfirst) (ha : ∀ a ∈ aligned, GFullObj s0 a) :
    GFullObj s0 (gconcat gfirst aligned) := by
  intro r hr
  simp only [gconcat, List.mem_append, List.mem_flatMap, List.mem_map] at hr
  rcases hr with hr | ⟨a, ha1, r0, hr0, rfl⟩
  · exact hf r hr
  · exact ha a ha1 r0 hr0

theorem gfullObj_fromPartials {s0 : Store α} {gs : List GObj} (h : ∀ a ∈ gs, GFullObj s0 a)
    (labs : List (List Lbl)) (all : List Lbl) : GFullObj s0 (gfromPartials gs labs all) := by
  intro r hr
  simp only [gfromPartials, List.mem_flatMap, List.mem_map] at hr
  obtain ⟨gl, hgl, r0, hr0, rfl⟩ := hr
  exact h gl.1 (List.of_mem_zip hgl).1 r0 hr0

/-- every operation other than `append` keeps every row's keys -/
theorem gstepOk_full {s0 s s' : Store α} {g g' : List GObj} (cm : Bool) (h : StoreInv s0 s g)
    (hf : GFull s0 g) (op : Op) (hna : op.isAppend = false)
    (hs : stepE cm s op = some s') (hg : gstepOk cm s g op = some g') : GFull s0 g' := by
  have hget : ∀ {i : Nat} {go : GObj}, g[i]? = some go → GFullObj s0 go :=
    fun hgo => hf _ (List.mem_of_getElem? hgo)
  cases op with
  | getitem i sel =>
    simp only [stepE, Option.bind_eq_bind, Option.bind_eq_some_iff, bindNew, Option.map_eq_some_iff] at hs
    obtain ⟨o, ho, o', ho', _⟩ := hs
    obtain ⟨go, hgo, hinv⟩ := storeInv_get h ho
    simp only [gstepOk, hgo, Option.bind_eq_bind, Option.bind_some, Option.pure_def, Option.some.injEq] at hg
    subst hg
    exact gfull_snoc hf (gfullObj_pickRows (hget hgo) (getitem_inRange hinv ho'))
  | subset i b v =>
    simp only [stepE, Option.bind_eq_bind, Option.bind_eq_some_iff, bindNew, Option.map_eq_some_iff] at hs
    obtain ⟨o, ho, o', ho', _⟩ := hs
    obtain ⟨go, hgo, hinv⟩ := storeInv_get h ho
    simp only [Obj.subset, Option.bind_eq_bind, Option.bind_eq_some_iff] at ho'
    obtain ⟨col, hc, ho'⟩ := ho'
    simp only [gstepOk, ho, hgo, hc, Option.bind_eq_bind, Option.bind_some, Option.pure_def,
      Option.some.injEq] at hg
    subst hg
    exact gfull_snoc hf (gfullObj_pickRows (hget hgo) (getitem_inRange hinv ho'))
  | subsample i b v =>
    simp only [stepE, Option.bind_eq_bind, Option.bind_eq_some_iff, bindNew, Option.map_eq_some_iff] at hs
    obtain ⟨o, ho, o', ho', _⟩ := hs
    obtain ⟨go, hgo, hinv⟩ := storeInv_get h ho
    simp only [Obj.subsample, Option.bind_eq_bind, Option.bind_eq_some_iff] at ho'
    obtain ⟨col, hc, ho'⟩ := ho'
    simp only [gstepOk, ho, hgo, hc, Option.bind_eq_bind, Option.bind_some, Option.pure_def,
      Option.some.injEq] at hg
    subst hg
    exact gfull_snoc hf (gfullObj_pickRows (hget hgo) (getitem_inRange hinv ho'))
  | subsetPattern i b v =>
    simp only [gstepOk, Option.bind_eq_bind, Option.bind_eq_some_iff, Option.pure_def, Option.some.injEq] at hg
    obtain ⟨o, _, go, hgo, col, _, rfl⟩ := hg
    exact gfull_snoc hf (gfullObj_pickConds (hget hgo) _)
  | subsamplePattern i b v =>
    simp only [gstepOk, Option.bind_eq_bind, Option.bind_eq_some_iff, Option.pure_def, Option.some.injEq] at hg
    obtain ⟨o, _, go, hgo, col, _, rfl⟩ := hg
    exact gfull_snoc hf (gfullObj_pickConds (hget hgo) _)
  | reorder i ord =>
    simp only [gstepOk, Option.bind_eq_bind, Option.bind_eq_some_iff, Option.pure_def, Option.some.injEq] at hg
    obtain ⟨go, hgo, rfl⟩ := hg
    exact gfull_set hf (gfullObj_pickConds (hget hgo) _) i
  | sortAlpha i b re =>
    simp only [gstepOk, Option.bind_eq_bind, Option.bind_eq_some_iff, Option.pure_def, Option.some.injEq] at hg
    obtain ⟨o, _, go, hgo, col, _, rfl⟩ := hg
    exact gfull_set hf (gfullObj_pickConds (hget hgo) _) i
  | sortList i b m re =>
    simp only [gstepOk, Option.bind_eq_bind, Option.bind_eq_some_iff, Option.pure_def, Option.some.injEq] at hg
    obtain ⟨o, _, go, hgo, col, _, rfl⟩ := hg
    exact gfull_set hf (gfullObj_pickConds (hget hgo) _) i
  | append i j => simp [Op.isAppend] at hna
  | concat is tgt =>
    simp only [gstepOk, Option.bind_eq_bind, Option.bind_eq_some_iff] at hg
    obtain ⟨objs, hobjs, gs, hgs, hg⟩ := hg
    have hmem := mem_of_mapM_getElem? hgs
    split at hg
    · rename_i first rest gfirst grest
      simp only [Option.pure_def, Option.some.injEq] at hg
      subst hg
      have hfirst : GFullObj s0 gfirst := hf _ (hmem _ List.mem_cons_self)
      have hal : ∀ a ∈ galignAll first rest grest ((effTarget first tgt).getD none), GFullObj s0 a := by
        intro a ha
        simp only [galignAll, List.mem_map] at ha
        obtain ⟨go, hgo, rfl⟩ := ha
        exact gfullObj_alignTo (hf _ (hmem _ (List.mem_cons_of_mem _ (List.of_mem_zip hgo).1))) _
      apply gfull_snoc _ (gfullObj_concat hfirst hal)
      cases cm
      · simpa using hf
      · simp only [if_true]
        apply gfull_writeBack is hf
        intro x hx
        rcases List.mem_cons.mp hx with rfl | hx
        · exact hfirst
        · exact hal x hx
    · simp at hg
  | copy i =>
    simp only [gstepOk, Option.bind_eq_bind, Option.bind_eq_some_iff, Option.pure_def, Option.some.injEq] at hg
    obtain ⟨go, hgo, rfl⟩ := hg
    exact gfull_snoc hf (hget hgo)
  | fromPartials is allP d =>
    simp only [gstepOk, Option.bind_eq_bind, Option.bind_eq_some_iff, Option.pure_def, Option.some.injEq] at hg
    obtain ⟨objs, _, gs, hgs, rfl⟩ := hg
    have hmem := mem_of_mapM_getElem? hgs
    exact gfull_snoc hf (gfullObj_fromPartials (fun a ha => hf _ (hmem a ha)) _ _)
  | permute i p =>
    simp only [gstepOk, Option.bind_eq_bind, Option.bind_eq_some_iff, Option.pure_def, Option.some.injEq] at hg
    obtain ⟨go, hgo, rfl⟩ := hg
    exact gfull_snoc hf (gfullObj_pickConds (hget hgo) _)
  | inversePermute i =>
    simp only [gstepOk, Option.bind_eq_bind, Option.bind_eq_some_iff] at hg
    obtain ⟨o, _, go, hgo, hg⟩ := hg
    split at hg
    · simp only [Option.pure_def, Option.some.injEq] at hg
      subst hg
      exact gfull_snoc hf (gfullObj_pickConds (hget hgo) _)
    · simp at hg

/-- `append`-free operation sequences keep every row's keys -/
theorem run_full {s0 : Store α} (cm : Bool) (ops : List Op) (hna : ∀ op ∈ ops, op.isAppend = false) :
    ∀ {s : Store α} {g : List GObj}, StoreInv s0 s g → GFull s0 g →
      GFull s0 (grun cm s g ops) := by
  induction ops with
  | nil => intro s g _ hf; simpa [grun] using hf
  | cons op ops ih =>
    intro s g h hf
    simp only [grun]
    apply ih (fun o ho => hna o (List.mem_cons_of_mem _ ho)) (step_inv' cm h op)
    unfold gstep
    cases hs : stepE cm s op with
    | none => simpa using hf
    | some s' =>
      obtain ⟨g', hg', _⟩ := stepE_inv cm h op hs
      simp only [hg', Option.getD_some]
      exact gstepOk_full cm h hf op (hna op List.mem_cons_self) hs hg'

/-- a dict has one entry per key: then `get` and membership agree -/
theorem Desc.get_of_mem_nodup {d : Desc} (hnd : d.keys.Nodup) {k : String} {c : List Lbl}
    (h : (k, c) ∈ d) : Desc.get d k = some c := by
  induction d with
  | nil => simp at h
  | cons kv rest ih =>
    simp only [Desc.keys, List.map_cons, List.nodup_cons] at hnd
    rw [Desc.get_cons]
    rcases List.mem_cons.mp h with heq | hm
    · rw [← heq]; simp
    · have hne : k ≠ kv.1 := by
        intro e
        apply hnd.1
        simp only [List.mem_map]
        exact ⟨(k, c), hm, e⟩
      simp only [hne, if_false]
      exact ih hnd.2 hm

end Rsa.Rdm
