/-
  Helper lemmas for C03, round 5: behaviour of the building blocks of the comparison measures when a
  vector is multiplied by a positive number (`x.map (c * ·)`, `0 < c`):
    * `dot`, `mean`, `center` are homogeneous;
    * the tie-averaged ranks do not change;
    * the five pair counts behind Kendall's tau do not change.
-/
import Rsa.Lemmas.C03
import Rsa.Lemmas.C03Kendall

set_option linter.unusedSectionVars false
set_option linter.unusedVariables false
set_option linter.unusedSimpArgs false

namespace Rsa.Compare

/-- multiply every entry by `c` -/
def scaleBy (c : ℝ) (x : List ℝ) : List ℝ := x.map (fun a => c * a)

@[simp] theorem scaleBy_length (c : ℝ) (x : List ℝ) : (scaleBy c x).length = x.length := by
  simp [scaleBy]

theorem dot_scale (c d : ℝ) (x y : List ℝ) : dot (scaleBy c x) (scaleBy d y) = c * d * dot x y := by
  unfold scaleBy
  induction x generalizing y with
  | nil => simp
  | cons a x ih =>
    cases y with
    | nil => simp
    | cons b y =>
      simp only [List.map_cons, dot_cons, ih]
      ring

theorem sqrt_scale_sq (c s : ℝ) (hc : 0 < c) : Real.sqrt (c * c * s) = c * Real.sqrt s := by
  rw [Real.sqrt_mul (mul_self_nonneg c), Real.sqrt_mul_self hc.le]

theorem mean_scale (c : ℝ) (x : List ℝ) : mean (scaleBy c x) = c * mean x := by
  unfold mean scaleBy
  rw [List.sum_map_mul_left, List.length_map, mul_div_assoc, List.map_id']

theorem center_scale (c : ℝ) (x : List ℝ) : center (scaleBy c x) = scaleBy c (center x) := by
  unfold center
  rw [mean_scale]
  simp [scaleBy, List.map_map, Function.comp_def, mul_sub]

theorem cntLt_scale (c : ℝ) (hc : 0 < c) (x : List ℝ) (a : ℝ) :
    cntLt (scaleBy c x) (c * a) = cntLt x a := by
  unfold cntLt scaleBy
  rw [List.countP_map]
  congr 1
  funext b
  simp [Function.comp_def, mul_lt_mul_iff_of_pos_left hc]

theorem cntEq_scale (c : ℝ) (hc : 0 < c) (x : List ℝ) (a : ℝ) :
    cntEq (scaleBy c x) (c * a) = cntEq x a := by
  unfold cntEq scaleBy
  rw [List.countP_map]
  congr 1
  funext b
  simp [Function.comp_def, mul_lt_mul_iff_of_pos_left hc]

/-- positive scaling keeps the order, hence every tie-averaged rank -/
theorem avgRank_scale (c : ℝ) (hc : 0 < c) (x : List ℝ) : avgRank (scaleBy c x) = avgRank x := by
  unfold avgRank
  conv_lhs => rw [show scaleBy c x = x.map (fun a => c * a) from rfl, List.map_map]
  apply List.map_congr_left
  intro a _
  show rankOf (scaleBy c x) (c * a) = rankOf x a
  unfold rankOf
  rw [cntLt_scale c hc, cntEq_scale c hc]


theorem zip_scale (c d : ℝ) (x y : List ℝ) :
    (scaleBy c x).zip (scaleBy d y) = (x.zip y).map (fun p => (c * p.1, d * p.2)) := by
  unfold scaleBy
  rw [List.zip_map]
  rfl

/-- the five pair counts (concordant, discordant, ties in x, ties in y, joint ties) of two vectors do
    not change when the vectors are multiplied by positive numbers -/
theorem counts_scale (c d : ℝ) (hc : 0 < c) (hd : 0 < d) (x y : List ℝ) :
    nCon (scaleBy c x) (scaleBy d y) = nCon x y ∧ nDis (scaleBy c x) (scaleBy d y) = nDis x y ∧
    nTieX (scaleBy c x) (scaleBy d y) = nTieX x y ∧ nTieY (scaleBy c x) (scaleBy d y) = nTieY x y ∧
    nTieXY (scaleBy c x) (scaleBy d y) = nTieXY x y := by
  unfold nCon nDis nTieX nTieY nTieXY
  rw [zip_scale]
  simp only [countPairs_map]
  refine ⟨?_, ?_, ?_, ?_, ?_⟩ <;>
    · congr 1
      funext p q
      simp [concordant, discordant, tieX, tieY, tieXY, tiedB, mul_lt_mul_iff_of_pos_left hc,
        mul_lt_mul_iff_of_pos_left hd]

/-! ### the linear-CKA fast path is homogeneous -/

theorem getD_scale (c : ℝ) (l : List ℝ) (k : ℕ) : (scaleBy c l).getD k 0 = c * l.getD k 0 := by
  unfold scaleBy
  rw [List.getD_eq_getElem?_getD, List.getD_eq_getElem?_getD, List.getElem?_map]
  cases l[k]? <;> simp

theorem halfNeg_scale (n : ℕ) (c : ℝ) (r : List ℝ) (i j : ℕ) :
    halfNeg n (scaleBy c r) i j = c * halfNeg n r i j := by
  have e : (scaleBy c r).map (fun d => -d / ((2 : ℕ) : ℝ)) = scaleBy c (r.map (fun d => -d / ((2 : ℕ) : ℝ))) := by
    simp only [scaleBy, List.map_map, Function.comp_def]
    apply List.map_congr_left
    intro a _
    ring
  unfold halfNeg vecToMat
  rw [e]
  split_ifs
  · simp
  · exact getD_scale c _ _
  · exact getD_scale c _ _

theorem centreKernel_scale (n : ℕ) (c : ℝ) (g : ℕ → ℕ → ℝ) (i j : ℕ) :
    centreKernel n (fun a b => c * g a b) i j = c * centreKernel n g i j := by
  have hs : ∀ k, colMean n (fun a b => c * g a b) k = c * colMean n g k := by
    intro k
    unfold colMean
    rw [List.sum_map_mul_left, mul_div_assoc]
  have hm : (List.map (colMean n fun a b => c * g a b) (List.range n)).sum
      = c * (List.map (colMean n g) (List.range n)).sum := by
    rw [← List.sum_map_mul_left]
    congr 1
    apply List.map_congr_left
    intro k _
    exact hs k
  unfold centreKernel
  simp only [hs, hm]
  ring

theorem covWeighting_scale (n : ℕ) (c : ℝ) (r : List ℝ) :
    covWeighting n (scaleBy c r) = scaleBy c (covWeighting n r) := by
  have hg : centreKernel n (halfNeg n (scaleBy c r)) = fun i j => c * centreKernel n (halfNeg n r) i j := by
    funext i j
    rw [show halfNeg n (scaleBy c r) = fun a b => c * halfNeg n r a b from
      funext fun a => funext fun b => halfNeg_scale n c r a b]
    exact centreKernel_scale n c _ i j
  unfold covWeighting
  simp only [hg]
  simp only [scaleBy, List.map_append, List.map_map, Function.comp_def]
  congr 1
  apply List.map_congr_left
  intro p _
  ring

end Rsa.Compare
