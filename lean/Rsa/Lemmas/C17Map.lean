/-
  Helper lemmas for C17, element-wise maps: the running maximum / minimum of `minmax_transform`
  are the greatest / least entry; dense ranks count distinct smaller values.
-/
import Mathlib.Algebra.Order.Field.Basic
import Mathlib.Data.List.Basic
import Mathlib.Data.Finset.Card
import Mathlib.Data.Finset.Filter
import Mathlib.Data.List.Nodup
import Mathlib.Tactic.Linarith
import Rsa.Lemmas.C17Rank

set_option linter.unusedSectionVars false
set_option linter.unusedVariables false
set_option linter.unusedSimpArgs false
set_option linter.unnecessarySimpa false

namespace Rsa.Transform

open Rsa Rsa.Compare

section
variable {K : Type} [Field K] [LinearOrder K] [IsStrictOrderedRing K]

theorem foldl_max_spec (t : List K) (a : K) :
    let m := t.foldl (fun m b => if m < b then b else m) a
    a ≤ m ∧ (∀ b ∈ t, b ≤ m) ∧ (m = a ∨ m ∈ t) := by
  induction t generalizing a with
  | nil => simp
  | cons c t ih =>
    simp only [List.foldl_cons]
    by_cases h : a < c
    · simp only [h, ↓reduceIte]
      obtain ⟨h1, h2, h3⟩ := ih c
      refine ⟨le_trans h.le h1, ?_, ?_⟩
      · intro b hb
        rcases List.mem_cons.mp hb with rfl | hb
        · exact h1
        · exact h2 b hb
      · rcases h3 with h3 | h3
        · right; rw [h3]; exact List.mem_cons_self
        · right; exact List.mem_cons_of_mem _ h3
    · simp only [h, ↓reduceIte]
      obtain ⟨h1, h2, h3⟩ := ih a
      refine ⟨h1, ?_, ?_⟩
      · intro b hb
        rcases List.mem_cons.mp hb with rfl | hb
        · exact le_trans (not_lt.mp h) h1
        · exact h2 b hb
      · rcases h3 with h3 | h3
        · left; exact h3
        · right; exact List.mem_cons_of_mem _ h3

theorem foldl_min_spec (t : List K) (a : K) :
    let m := t.foldl (fun m b => if b < m then b else m) a
    m ≤ a ∧ (∀ b ∈ t, m ≤ b) ∧ (m = a ∨ m ∈ t) := by
  induction t generalizing a with
  | nil => simp
  | cons c t ih =>
    simp only [List.foldl_cons]
    by_cases h : c < a
    · simp only [h, ↓reduceIte]
      obtain ⟨h1, h2, h3⟩ := ih c
      refine ⟨le_trans h1 h.le, ?_, ?_⟩
      · intro b hb
        rcases List.mem_cons.mp hb with rfl | hb
        · exact h1
        · exact h2 b hb
      · rcases h3 with h3 | h3
        · right; rw [h3]; exact List.mem_cons_self
        · right; exact List.mem_cons_of_mem _ h3
    · simp only [h, ↓reduceIte]
      obtain ⟨h1, h2, h3⟩ := ih a
      refine ⟨h1, ?_, ?_⟩
      · intro b hb
        rcases List.mem_cons.mp hb with rfl | hb
        · exact le_trans h1 (not_lt.mp h)
        · exact h2 b hb
      · rcases h3 with h3 | h3
        · left; exact h3
        · right; exact List.mem_cons_of_mem _ h3

theorem maxL_spec {v : List K} {m : K} (h : maxL v = some m) : m ∈ v ∧ ∀ b ∈ v, b ≤ m := by
  cases v with
  | nil => simp [maxL] at h
  | cons a t =>
    simp only [maxL, Option.some.injEq] at h
    obtain ⟨h1, h2, h3⟩ := foldl_max_spec t a
    rw [h] at h1 h2 h3
    refine ⟨?_, ?_⟩
    · rcases h3 with h3 | h3
      · rw [h3]; exact List.mem_cons_self
      · exact List.mem_cons_of_mem _ h3
    · intro b hb
      rcases List.mem_cons.mp hb with rfl | hb
      · exact h1
      · exact h2 b hb

theorem minL_spec {v : List K} {m : K} (h : minL v = some m) : m ∈ v ∧ ∀ b ∈ v, m ≤ b := by
  cases v with
  | nil => simp [minL] at h
  | cons a t =>
    simp only [minL, Option.some.injEq] at h
    obtain ⟨h1, h2, h3⟩ := foldl_min_spec t a
    rw [h] at h1 h2 h3
    refine ⟨?_, ?_⟩
    · rcases h3 with h3 | h3
      · rw [h3]; exact List.mem_cons_self
      · exact List.mem_cons_of_mem _ h3
    · intro b hb
      rcases List.mem_cons.mp hb with rfl | hb
      · exact h1
      · exact h2 b hb

/-! ### `dedup`: first occurrences -/

theorem mem_dedup_iff {x : List K} {a : K} : a ∈ dedup x ↔ a ∈ x := by
  constructor
  · exact mem_dedup
  · intro h
    induction x with
    | nil => simp at h
    | cons b t ih =>
      simp only [dedup, List.mem_cons, List.mem_filter]
      rcases List.mem_cons.mp h with rfl | h
      · exact Or.inl rfl
      · by_cases hab : a = b
        · exact Or.inl hab
        · right
          refine ⟨ih h, ?_⟩
          have : ¬ (tiedB b a = true) := by
            rw [Rsa.Compare.tiedB]
            simp only [Bool.and_eq_true, Bool.not_eq_true', decide_eq_false_iff_not, not_and, not_not]
            intro h1
            exact lt_of_le_of_ne (not_lt.mp h1) hab
          simpa using this

theorem dedup_nodup (x : List K) : (dedup x).Nodup := by
  induction x with
  | nil => simp [dedup]
  | cons b t ih =>
    simp only [dedup, List.nodup_cons, List.mem_filter]
    refine ⟨?_, ih.filter _⟩
    rintro ⟨_, h⟩
    simp [Rsa.Compare.tiedB] at h

/-! ### counts behind the order-preservation and the ordinal ranks -/

theorem cnt_step' (x : List K) {a b : K} (hab : a < b) : cntLt x a + cntEq x a ≤ cntLt x b := by
  unfold cntLt cntEq
  induction x with
  | nil => simp
  | cons c x ih =>
    simp only [List.countP_cons]
    by_cases h1 : c < a
    · have h3 : c < b := lt_trans h1 hab
      have h2 : ¬ a < c := lt_asymm h1
      simp [h1, h2, h3]; omega
    · by_cases h2 : a < c
      · simp [h1, h2]; omega
      · have : c = a := le_antisymm (not_lt.mp h2) (not_lt.mp h1)
        have h3 : c < b := this ▸ hab
        simp [h1, h2, h3]; omega

theorem cntEq_pos' {x : List K} {a : K} (ha : a ∈ x) : 0 < cntEq x a := by
  unfold cntEq
  apply List.countP_pos_iff.mpr
  exact ⟨a, ha, by simp⟩

theorem cntLt_add_cntEq_le (x : List K) (a : K) : cntLt x a + cntEq x a ≤ x.length := by
  unfold cntLt cntEq
  induction x with
  | nil => simp
  | cons c x ih =>
    simp only [List.countP_cons, List.length_cons]
    by_cases h1 : c < a
    · have h2 : ¬ a < c := lt_asymm h1
      simp [h1, h2]; omega
    · by_cases h2 : a < c
      · simp [h1, h2]; omega
      · simp [h1, h2]; omega

theorem cntEq_take_succ (x : List K) (i : Nat) (hi : i < x.length) :
    cntEq (x.take (i + 1)) x[i] = cntEq (x.take i) x[i] + 1 := by
  rw [List.take_succ_eq_append_getElem hi]
  simp only [cntEq, List.countP_append, List.countP_cons, List.countP_nil, lt_self_iff_false,
    decide_false, Bool.not_false, Bool.and_self, ↓reduceIte, Nat.zero_add]

theorem cntEq_take_mono (x : List K) (a : K) {i j : Nat} (h : i ≤ j) :
    cntEq (x.take i) a ≤ cntEq (x.take j) a :=
  (List.take_sublist_take_left h).countP_le

theorem cntEq_take_le (x : List K) (a : K) (i : Nat) : cntEq (x.take i) a ≤ cntEq x a :=
  (List.take_sublist i x).countP_le

/-- the ordinal rank of position `i` lies in `1..n` -/
theorem ordinalAt_range (x : List K) (i : Nat) (hi : i < x.length) :
    1 ≤ ordinalAt x x[i] i ∧ ordinalAt x x[i] i ≤ x.length := by
  unfold ordinalAt
  have h1 := cntEq_take_succ x i hi
  have h2 := cntEq_take_le x x[i] (i + 1)
  have h3 := cntLt_add_cntEq_le x x[i]
  omega

/-- ordinal ranks follow the order of the values and, among equal values, the positions -/
theorem ordinalAt_lt (x : List K) {i j : Nat} (hij : i < j) (hj : j < x.length) :
    (x[i] ≤ x[j] → ordinalAt x x[i] i < ordinalAt x x[j] j) ∧
    (x[j] < x[i] → ordinalAt x x[j] j < ordinalAt x x[i] i) := by
  have hi : i < x.length := lt_trans hij hj
  unfold ordinalAt
  constructor
  · intro hle
    rcases lt_or_eq_of_le hle with hlt | heq
    · have h1 := cnt_step' x hlt
      have h2 := cntEq_take_succ x i hi
      have h3 := cntEq_take_le x x[i] (i + 1)
      omega
    · have h2 := cntEq_take_succ x i hi
      have h3 := cntEq_take_mono x x[i] (show i + 1 ≤ j by omega)
      rw [← heq]
      omega
  · intro hlt
    have h1 := cnt_step' x hlt
    have h2 := cntEq_take_succ x j hj
    have h3 := cntEq_take_le x x[j] (j + 1)
    omega

theorem cntLt_dedup_lt {x : List K} {a b : K} (ha : a ∈ x) (hab : a < b) :
    cntLt (dedup x) a < cntLt (dedup x) b := by
  have h1 := cnt_step' (dedup x) hab
  have h2 := cntEq_pos' (mem_dedup_iff.mpr ha)
  omega

/-! ### `np.quantile` at the two ends -/

theorem quantileLin_zero (s : List K) : quantileLin s 0 = s.getD 0 0 := by
  unfold quantileLin
  have hk : (List.range (s.length - 1)).countP
      (fun j => decide (((j + 1 : ℕ) : K) ≤ 0 * ((s.length - 1 : ℕ) : K))) = 0 := by
    rw [List.countP_eq_zero]
    intro j _
    have : (0 : K) < ((j + 1 : ℕ) : K) := by positivity
    simp only [zero_mul, decide_eq_true_eq, not_le]
    exact this
  simp only [hk]
  simp

theorem quantileLin_one (s : List K) (hs : s ≠ []) : quantileLin s 1 = s.getD (s.length - 1) 0 := by
  unfold quantileLin
  have hk : (List.range (s.length - 1)).countP
      (fun j => decide (((j + 1 : ℕ) : K) ≤ 1 * ((s.length - 1 : ℕ) : K))) = s.length - 1 := by
    rw [List.countP_eq_length.mpr, List.length_range]
    intro j hj
    have : j + 1 ≤ s.length - 1 := by have := List.mem_range.mp hj; omega
    simp only [one_mul, decide_eq_true_eq]
    exact_mod_cast this
  have hn : s.length - 1 + 1 = s.length := by
    have := List.length_pos_iff.mpr hs; omega
  simp only [hk, hn]
  simp

end

end Rsa.Transform
