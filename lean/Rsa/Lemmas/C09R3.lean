/- helper lemmas for property C09, round 3: about `Rsa.Core.BootC09` -/
import Mathlib.Data.Rat.Defs
import Mathlib.Algebra.Order.Field.Rat
import Mathlib.Algebra.BigOperators.Ring.Finset
import Mathlib.Tactic.NormNum
import Mathlib.Tactic.FieldSimp
import Rsa.Lemmas.C09
import Rsa.Core.BootC09

set_option linter.unusedSectionVars false
set_option linter.unusedVariables false
set_option linter.unusedSimpArgs false

namespace Rsa.Boot

variable {L β α : Type} [DecidableEq L]

/-! ### the source-tied NaN rule -/

/-- with the generated decision leaf, the tied `subsample_pattern` kernel *is* `subVec`
    (breaks when the source no longer fills the diagonal with NaN before selecting) -/
theorem subVecTied_eq (n : Nat) (sel : List Nat) (v : List (Option α)) :
    subVecTied n sel v = subVec n sel v := by
  unfold subVecTied subVec
  congr 1
  funext i j
  by_cases h : sel.getD i 0 = sel.getD j 0
  · have e : Rsa.Gen.C09.entryIsNan 1 = 1 := by decide
    rw [if_pos h, if_pos e]
    unfold vecToMat
    rw [if_pos h]
  · have e : ¬ Rsa.Gen.C09.entryIsNan 0 = 1 := by decide
    rw [if_neg h, if_neg e]

/-! ### numpy's coercion -/

/-- all ints or all strings — what the property quantifies over -/
def Homog (l : List Lbl) : Prop := (∀ x ∈ l, x.isStr = true) ∨ (∀ x ∈ l, x.isStr = false)

theorem toStr_of_isStr {x : Lbl} (h : x.isStr = true) : x.toStr = x := by
  cases x <;> simp_all [Lbl.isStr, Lbl.toStr]

theorem isStr_toStr (x : Lbl) : x.toStr.isStr = true := by
  cases x <;> rfl

theorem npCoerce_homog (l : List Lbl) (h : Homog l) : npCoerce l = l := by
  unfold npCoerce
  split
  · rename_i hany
    rcases h with h | h
    · conv_rhs => rw [← List.map_id l]
      exact List.map_congr_left (fun x hx => toStr_of_isStr (h x hx))
    · obtain ⟨x, hx, hs⟩ := List.any_eq_true.mp hany
      rw [h x hx] at hs; cases hs
  · rfl

theorem npCoerce_length (l : List Lbl) : (npCoerce l).length = l.length := by
  unfold npCoerce; split <;> simp

theorem npCoerce_mixed_isStr (l : List Lbl) (hmix : ∃ x ∈ l, x.isStr = true) :
    ∀ y ∈ npCoerce l, y.isStr = true := by
  intro y hy
  have hany : l.any Lbl.isStr = true := List.any_eq_true.mpr hmix
  simp only [npCoerce, hany, if_true, List.mem_map] at hy
  obtain ⟨x, _, rfl⟩ := hy
  exact isStr_toStr x

/-! ### equal expected frequency from symmetry alone -/

/-- relabelling the draw numbers by the transposition `(a b)` maps "hits of `a`" to "hits of
    `b`"; a weighting that is invariant under relabelling therefore weighs both equally -/
theorem weighted_countP_swap {m : Nat} (P : (Fin m → Fin m) → ℚ)
    (hsym : ∀ (σ : Equiv.Perm (Fin m)) (f : Fin m → Fin m), P (fun t => σ (f t)) = P f)
    (a b : Fin m) :
    ∑ f : Fin m → Fin m, P f * ((List.finRange m).countP (fun t => decide (f t = a)) : ℚ) =
    ∑ f : Fin m → Fin m, P f * ((List.finRange m).countP (fun t => decide (f t = b)) : ℚ) := by
  refine Fintype.sum_equiv ((Equiv.refl _).arrowCongr (Equiv.swap a b)) _ _ ?_
  intro f
  have hP : P (((Equiv.refl _).arrowCongr (Equiv.swap a b)) f) = P f := by
    exact hsym (Equiv.swap a b) f
  rw [hP]
  congr 2
  apply List.countP_congr
  intro t _
  simp only [Equiv.arrowCongr_apply, Equiv.refl_symm, Equiv.refl_apply, Function.comp,
    decide_eq_true_eq]
  constructor
  · intro h; rw [h]; simp
  · intro h
    have := congrArg (Equiv.swap a b) h
    simpa using this

/-- … hence every draw number is hit once per outcome in expectation -/
theorem weighted_countP_one {m : Nat} (P : (Fin m → Fin m) → ℚ)
    (hsym : ∀ (σ : Equiv.Perm (Fin m)) (f : Fin m → Fin m), P (fun t => σ (f t)) = P f)
    (hone : ∑ f, P f = 1) (a : Fin m) :
    ∑ f : Fin m → Fin m, P f * ((List.finRange m).countP (fun t => decide (f t = a)) : ℚ) = 1 := by
  have hall : ∀ c : Fin m,
      ∑ f : Fin m → Fin m, P f * ((List.finRange m).countP (fun t => decide (f t = c)) : ℚ) =
      ∑ f : Fin m → Fin m, P f * ((List.finRange m).countP (fun t => decide (f t = a)) : ℚ) :=
    fun c => weighted_countP_swap P hsym c a
  have hdouble : ∑ c : Fin m, ∑ f : Fin m → Fin m,
      P f * ((List.finRange m).countP (fun t => decide (f t = c)) : ℚ) = (m : ℚ) := by
    rw [Finset.sum_comm]
    have : ∀ f : Fin m → Fin m,
        ∑ c : Fin m, P f * ((List.finRange m).countP (fun t => decide (f t = c)) : ℚ)
          = P f * (m : ℚ) := by
      intro f
      rw [← Finset.mul_sum]
      congr 1
      have := sum_countP_fiber f (List.finRange m)
      rw [List.length_finRange] at this
      exact_mod_cast this
    simp only [this]
    rw [← Finset.sum_mul, hone, one_mul]
  simp only [hall, Finset.sum_const, Finset.card_univ, Fintype.card_fin, nsmul_eq_mul] at hdouble
  have hm : (m : ℚ) ≠ 0 := by
    have : 0 < m := Fin.pos a
    exact_mod_cast this.ne'
  field_simp at hdouble
  linarith

theorem pick_map {γ : Type} (f : β → γ) (l : List β) (sel : List Nat) :
    pick (l.map f) sel = (pick l sel).map f := by
  unfold pick
  rw [List.map_filterMap]
  congr 1
  funext i
  simp [List.getElem?_map]

/-! ### test sets of the groups that were not drawn -/

theorem nodup_testIdx (le : L → L → Bool) (desc idx : List L) : (testIdx le desc idx).Nodup :=
  (nodup_uniq le desc).filter _

theorem mem_testIdx {le : L → L → Bool} {desc idx : List L} {g : L} :
    g ∈ testIdx le desc idx ↔ g ∈ desc ∧ g ∉ idx := by
  simp [testIdx, mem_uniq]

end Rsa.Boot
