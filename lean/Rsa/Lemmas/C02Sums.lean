/-
  Helper lemmas for property C02, part 1: list sums, sums over ordered pairs of distinct
  elements, column means, `uniqueFirst`, sorting.  (No property statements here.)
-/
import Mathlib.Algebra.BigOperators.Group.List.Basic
import Mathlib.Algebra.Order.Field.Basic
import Mathlib.Data.List.Sort
import Mathlib.Tactic.Ring
import Mathlib.Tactic.FieldSimp
import Mathlib.Tactic.Linarith
import Rsa.Core.CrossVal
import Rsa.Lemmas.Tri

set_option linter.unusedSectionVars false
set_option linter.unusedVariables false
set_option linter.unusedSimpArgs false
set_option linter.unusedDecidableInType false

namespace Rsa.CrossVal

open List

/-! ### sums of mapped lists -/

section lsum
variable {ι κ : Type} {A : Type} [AddCommMonoid A] {K : Type} [Field K]

theorem lsum_congr {l : List ι} {f g : ι → A} (h : ∀ i ∈ l, f i = g i) :
    (l.map f).sum = (l.map g).sum := by
  rw [List.map_congr_left h]

theorem lsum_add (l : List ι) (f g : ι → A) :
    (l.map (fun i => f i + g i)).sum = (l.map f).sum + (l.map g).sum := by
  induction l with
  | nil => simp
  | cons a l ih =>
    simp only [List.map_cons, List.sum_cons, ih]
    exact add_add_add_comm _ _ _ _

theorem lsum_zero (l : List ι) : (l.map (fun _ => (0 : A))).sum = 0 := by
  induction l with
  | nil => simp
  | cons a l ih => simp [ih]

theorem lsum_sub (l : List ι) (f g : ι → K) :
    (l.map (fun i => f i - g i)).sum = (l.map f).sum - (l.map g).sum := by
  induction l with
  | nil => simp
  | cons a l ih => simp only [List.map_cons, List.sum_cons, ih]; ring

theorem lsum_mul_right (l : List ι) (f : ι → K) (c : K) :
    (l.map (fun i => f i * c)).sum = (l.map f).sum * c := by
  induction l with
  | nil => simp
  | cons a l ih => simp only [List.map_cons, List.sum_cons, ih]; ring

theorem lsum_mul_left (l : List ι) (f : ι → K) (c : K) :
    (l.map (fun i => c * f i)).sum = c * (l.map f).sum := by
  induction l with
  | nil => simp
  | cons a l ih => simp only [List.map_cons, List.sum_cons, ih]; ring

theorem lsum_div (l : List ι) (f : ι → K) (c : K) :
    (l.map (fun i => f i / c)).sum = (l.map f).sum / c := by
  simp only [div_eq_mul_inv, lsum_mul_right]

theorem lsum_const (l : List ι) (c : K) :
    (l.map (fun _ => c)).sum = (l.length : K) * c := by
  induction l with
  | nil => simp
  | cons a l ih => simp only [List.map_cons, List.sum_cons, ih, List.length_cons]; push_cast; ring

theorem lsum_comm (l1 : List ι) (l2 : List κ) (f : ι → κ → A) :
    (l1.map (fun i => (l2.map (fun j => f i j)).sum)).sum
      = (l2.map (fun j => (l1.map (fun i => f i j)).sum)).sum := by
  induction l1 with
  | nil => simp [lsum_zero]
  | cons a l ih => simp only [List.map_cons, List.sum_cons, ih, lsum_add]

/-- a sum with a single non-zero term -/
theorem lsum_ite_single [DecidableEq ι] {S : List ι} (hS : S.Nodup) {a : ι} (ha : a ∈ S)
    (v : A) : (S.map (fun n => if n = a then v else 0)).sum = v := by
  induction S with
  | nil => simp at ha
  | cons b S ih =>
    have hb : b ∉ S := (List.nodup_cons.mp hS).1
    have hS' := (List.nodup_cons.mp hS).2
    simp only [List.map_cons, List.sum_cons]
    by_cases hba : b = a
    · subst hba
      have : (S.map (fun n => if n = b then v else 0)).sum = 0 := by
        rw [lsum_congr (g := fun _ => (0 : A))]
        · exact lsum_zero S
        · intro i hi
          have : i ≠ b := fun h => hb (h ▸ hi)
          simp [this]
      simp [this]
    · have ha' : a ∈ S := by
        rcases List.mem_cons.mp ha with h | h
        · exact absurd h.symm hba
        · exact h
      simp [hba, ih hS' ha']

/-- splitting a sum over a list according to a key with values in a duplicate-free list -/
theorem lsum_partition {ρ F : Type} [DecidableEq F] (l : List ρ) (key : ρ → F) {S : List F}
    (hS : S.Nodup) (hkey : ∀ r ∈ l, key r ∈ S) (g : ρ → A) :
    (l.map g).sum = (S.map (fun n => ((l.filter (fun r => key r = n)).map g).sum)).sum := by
  induction l with
  | nil => simp [lsum_zero]
  | cons r l ih =>
    have ih' := ih (fun r' hr' => hkey r' (List.mem_cons_of_mem _ hr'))
    have hr : key r ∈ S := hkey r (List.mem_cons_self)
    have : ∀ n, (((r :: l).filter (fun r => key r = n)).map g).sum
        = (if n = key r then g r else 0) + ((l.filter (fun r => key r = n)).map g).sum := by
      intro n
      by_cases h : key r = n
      · subst h
        simp [List.filter_cons]
      · have h' : ¬ n = key r := fun e => h e.symm
        simp [List.filter_cons, h, h']
    simp only [this, lsum_add, List.map_cons, List.sum_cons, ← ih']
    rw [lsum_ite_single hS hr]

end lsum

/-! ### ordered pairs of distinct elements -/

section offdiag
variable {F : Type} [DecidableEq F] {K : Type} [Field K]

theorem filter_ne_of_not_mem {a : F} {S : List F} (h : a ∉ S) :
    S.filter (fun n => n ≠ a) = S := by
  rw [List.filter_eq_self]
  intro n hn
  simpa using fun e : n = a => h (e ▸ hn)

/-- `Σ_{m≠n} g m n = Σ_{pairs i<j} (g i j + g j i)` for a duplicate-free list -/
theorem offDiagSum_eq_pairs {S : List F} (hS : S.Nodup) (g : F → F → K) :
    offDiagSum S g = ((pairsOf S).map (fun p => g p.1 p.2 + g p.2 p.1)).sum := by
  induction S with
  | nil => simp [offDiagSum, pairsOf]
  | cons a S ih =>
    have ha : a ∉ S := (List.nodup_cons.mp hS).1
    have hS' := (List.nodup_cons.mp hS).2
    have ih' := ih hS'
    unfold offDiagSum at ih' ⊢
    have h1 : (a :: S).filter (fun n => n ≠ a) = S := by
      simp only [List.filter_cons, ne_eq, not_true_eq_false, decide_false, Bool.false_eq_true,
        if_false]
      exact filter_ne_of_not_mem ha
    have h2 : ∀ m ∈ S, (((a :: S).filter (fun n => n ≠ m)).map (fun n => g m n)).sum
        = g m a + ((S.filter (fun n => n ≠ m)).map (fun n => g m n)).sum := by
      intro m hm
      have : a ≠ m := fun e => ha (e ▸ hm)
      simp [List.filter_cons, this]
    simp only [List.map_cons, List.sum_cons, h1]
    rw [lsum_congr h2, lsum_add, ih']
    simp only [pairsOf, List.map_append, List.sum_append, List.map_map, Function.comp_def,
      lsum_add]
    ring

/-- the sum over ordered pairs of distinct folds does not depend on which member of the
    pair is called first -/
theorem offDiagSum_swap {S : List F} (hS : S.Nodup) (g : F → F → K) :
    offDiagSum S g = offDiagSum S (fun m n => g n m) := by
  rw [offDiagSum_eq_pairs hS, offDiagSum_eq_pairs hS]
  apply lsum_congr
  intro p _
  ring

theorem offDiagSum_congr {S : List F} {g h : F → F → K}
    (e : ∀ m ∈ S, ∀ n ∈ S, m ≠ n → g m n = h m n) : offDiagSum S g = offDiagSum S h := by
  unfold offDiagSum
  apply lsum_congr
  intro m hm
  apply lsum_congr
  intro n hn
  have hn' := List.mem_filter.mp hn
  have : n ≠ m := by simpa using hn'.2
  exact e m hm n hn'.1 (fun e => this e.symm)

theorem offDiagSum_div (S : List F) (g : F → F → K) (c : K) :
    offDiagSum S (fun m n => g m n / c) = offDiagSum S g / c := by
  unfold offDiagSum
  simp only [lsum_div]

/-- permutation invariance of the sum over ordered pairs of distinct folds -/
theorem offDiagSum_perm {S1 S2 : List F} (h : S1.Perm S2) (g : F → F → K) :
    offDiagSum S1 g = offDiagSum S2 g := by
  unfold offDiagSum
  have e1 : ∀ m, ((S1.filter (fun n => n ≠ m)).map (fun n => g m n)).sum
      = ((S2.filter (fun n => n ≠ m)).map (fun n => g m n)).sum :=
    fun m => ((h.filter _).map _).sum_eq
  simp only [e1]
  exact (h.map _).sum_eq

/-- re-labelling by an injective map -/
theorem offDiagSum_map {G : Type} [DecidableEq G] (φ : F → G) (hφ : Function.Injective φ)
    (S : List F) (g : G → G → K) :
    offDiagSum (S.map φ) g = offDiagSum S (fun m n => g (φ m) (φ n)) := by
  unfold offDiagSum
  simp only [List.map_map, Function.comp_def, List.filter_map]
  apply lsum_congr
  intro m _
  have : (fun n => decide (φ n ≠ φ m)) = (fun n => decide (n ≠ m)) := by
    funext n
    simp [hφ.eq_iff]
  simp only [Function.comp_def, this]

theorem length_filter_ne {S : List F} (hS : S.Nodup) {f : F} (hf : f ∈ S) :
    (S.filter (fun n => n ≠ f)).length + 1 = S.length := by
  induction S with
  | nil => simp at hf
  | cons a S ih =>
    have ha : a ∉ S := (List.nodup_cons.mp hS).1
    have hS' := (List.nodup_cons.mp hS).2
    by_cases e : a = f
    · subst e
      simp only [List.filter_cons, ne_eq, not_true_eq_false, decide_false, Bool.false_eq_true,
        if_false, List.length_cons]
      rw [filter_ne_of_not_mem ha]
    · have hf' : f ∈ S := by
        rcases List.mem_cons.mp hf with h | h
        · exact absurd h.symm e
        · exact h
      have hdec : decide (a ≠ f) = true := by simpa using e
      have := ih hS' hf'
      simp only [List.filter_cons, hdec, if_true, List.length_cons]
      omega

theorem pairsOf_length_two {β : Type} (l : List β) :
    2 * (pairsOf l).length = l.length * (l.length - 1) := by
  induction l with
  | nil => simp [pairsOf]
  | cons x xs ih =>
    simp only [pairsOf, List.length_append, List.length_map, List.length_cons,
      Nat.add_sub_cancel, Nat.mul_add, ih]
    cases xs.length with
    | zero => simp
    | succ k => simp only [Nat.add_sub_cancel]; ring

end offdiag

/-! ### column means -/

section colmean
variable {ι β : Type} {K : Type} [Field K] [LinearOrder K]

theorem zipWith_add_map (Q : List β) (h g : β → K) :
    List.zipWith (· + ·) (Q.map h) (Q.map g) = Q.map (fun q => h q + g q) := by
  induction Q with
  | nil => simp
  | cons a Q ih => simp [ih]

theorem foldl_zipWith_map (S : List ι) (Q : List β) (h0 : β → K) (h : ι → β → K) :
    (S.map (fun f => Q.map (h f))).foldl (fun acc v => List.zipWith (· + ·) acc v) (Q.map h0)
      = Q.map (fun q => h0 q + (S.map (fun f => h f q)).sum) := by
  induction S generalizing h0 with
  | nil => simp
  | cons a S ih =>
    simp only [List.map_cons, List.foldl_cons, zipWith_add_map, ih, List.sum_cons]
    apply List.map_congr_left
    intro q _
    ring

/-- the column mean of a family of vectors indexed alike is the index-wise mean -/
theorem colMean_family (S : List ι) (hS : S ≠ []) (Q : List β) (h : ι → β → K) :
    colMean (S.map (fun f => Q.map (h f)))
      = Q.map (fun q => (S.map (fun f => h f q)).sum / ((S.length : Nat) : K)) := by
  cases S with
  | nil => exact absurd rfl hS
  | cons a S =>
    simp only [colMean, Rsa.Gen.C02.foldAverage, List.map_cons, foldl_zipWith_map, List.map_map, List.length_cons,
      List.length_map, List.sum_cons, Function.comp_def]

theorem zip_map_self {β γ : Type} (l : List β) (h : β → γ) :
    l.zip (l.map h) = l.map (fun p => (p, h p)) := by
  induction l with
  | nil => rfl
  | cons a l ih => simp [ih]

theorem zip_map_map {β γ δ : Type} (l : List β) (h : β → γ) (g : β → δ) :
    (l.map h).zip (l.map g) = l.map (fun p => (h p, g p)) := by
  induction l with
  | nil => rfl
  | cons a l ih => simp [ih]

end colmean

/-! ### unique values and sorting -/

section uniq
variable {β : Type} [DecidableEq β]

theorem mem_uniqueFirst {l : List β} {b : β} : b ∈ uniqueFirst l ↔ b ∈ l := by
  induction l with
  | nil => simp [uniqueFirst]
  | cons a l ih =>
    simp only [uniqueFirst, List.mem_cons, List.mem_filter, ih]
    by_cases h : b = a <;> simp [h]

theorem uniqueFirst_nodup (l : List β) : (uniqueFirst l).Nodup := by
  induction l with
  | nil => simp [uniqueFirst]
  | cons a l ih =>
    simp only [uniqueFirst, List.nodup_cons, List.mem_filter]
    exact ⟨by simp, ih.filter _⟩

variable [LinearOrder β]

theorem uniqueFirst_sorted {l : List β} (h : l.Pairwise (· ≤ ·)) :
    (uniqueFirst l).Pairwise (· < ·) := by
  induction l with
  | nil => simp [uniqueFirst]
  | cons a l ih =>
    have h' := List.pairwise_cons.mp h
    simp only [uniqueFirst, List.pairwise_cons, List.mem_filter]
    refine ⟨?_, (ih h'.2).filter _⟩
    intro b hb
    have hb1 : b ∈ l := mem_uniqueFirst.mp hb.1
    have hne : b ≠ a := by simpa using hb.2
    exact lt_of_le_of_ne (h'.1 b hb1) (fun e => hne e.symm)

/-- two sorted lists with the same members have the same distinct values in the same order -/
theorem uniqueFirst_eq_of_sorted {l1 l2 : List β} (h1 : l1.Pairwise (· ≤ ·))
    (h2 : l2.Pairwise (· ≤ ·)) (hm : ∀ b, b ∈ l1 ↔ b ∈ l2) :
    uniqueFirst l1 = uniqueFirst l2 :=
  (uniqueFirst_sorted h1).eq_of_mem_iff (uniqueFirst_sorted h2)
    (fun b => by rw [mem_uniqueFirst, mem_uniqueFirst]; exact hm b)

theorem leB_iff (a b : β) : leB a b = true ↔ a ≤ b := by
  simp [leB]

theorem mergeSort_leB_sorted (l : List β) : (l.mergeSort leB).Pairwise (· ≤ ·) := by
  have := List.pairwise_mergeSort (le := (leB : β → β → Bool))
    (fun a b c hab hbc => by
      rw [leB_iff] at *; exact le_trans hab hbc)
    (fun a b => by
      rcases le_total a b with h | h
      · simp [(leB_iff a b).mpr h]
      · simp [(leB_iff b a).mpr h]) l
  exact this.imp (fun {a b} h => (leB_iff a b).mp h)

theorem mem_sortedDistinct {l : List β} {b : β} : b ∈ sortedDistinct l ↔ b ∈ l := by
  unfold sortedDistinct
  rw [mem_uniqueFirst]
  exact (List.mergeSort_perm l leB).mem_iff

theorem sortedDistinct_nodup (l : List β) : (sortedDistinct l).Nodup := uniqueFirst_nodup _

theorem sortedDistinct_sorted (l : List β) : (sortedDistinct l).Pairwise (· < ·) :=
  uniqueFirst_sorted (mergeSort_leB_sorted l)

/-- `np.unique` depends on the members only -/
theorem sortedDistinct_congr {l1 l2 : List β} (hm : ∀ b, b ∈ l1 ↔ b ∈ l2) :
    sortedDistinct l1 = sortedDistinct l2 :=
  uniqueFirst_eq_of_sorted (mergeSort_leB_sorted l1) (mergeSort_leB_sorted l2)
    (fun b => by
      rw [(List.mergeSort_perm l1 leB).mem_iff, (List.mergeSort_perm l2 leB).mem_iff]
      exact hm b)

/-- the distinct values of an already sorted list are its `np.unique` -/
theorem uniqueFirst_of_sorted {l : List β} (h : l.Pairwise (· ≤ ·)) :
    uniqueFirst l = sortedDistinct l :=
  uniqueFirst_eq_of_sorted h (mergeSort_leB_sorted l)
    (fun b => ((List.mergeSort_perm l leB).mem_iff).symm)

end uniq

end Rsa.CrossVal
