/- helper lemmas for property C19: the direct RDM does not depend on the order of the columns -/
import Mathlib.Algebra.Field.Basic
import Mathlib.Algebra.BigOperators.Group.List.Basic
import Mathlib.Data.List.Basic
import Rsa.Lemmas.Tri
import Rsa.Lemmas.C19
import Rsa.Core.Calc

set_option linter.unusedSectionVars false
set_option linter.unusedVariables false
set_option linter.unusedSimpArgs false
set_option linter.style.longLine false

namespace Rsa.Searchlight

variable {K : Type} [Field K]

/-- the rows of `data` whose event label is `c` -/
def rowsOf (data : List (List K)) (ev : List Int) (c : Int) : List (List K) :=
  ((data.zip ev).filter (fun p => p.2 == c)).map (·.1)

/-- mean of channel `j` over the rows of condition `c` -/
def colMean (data : List (List K)) (ev : List Int) (c : Int) (j : Nat) : K :=
  ((rowsOf data ev c).map (fun r => r.getD j 0)).sum / (((rowsOf data ev c).length : Nat) : K)

theorem rowsOf_selectCols (data : List (List K)) (ev : List Int) (c : Int) (nb : List Nat) :
    rowsOf (selectCols data nb) ev c
      = (rowsOf data ev c).map (fun row => nb.map (fun j => row.getD j 0)) := by
  simp [rowsOf, selectCols, List.zip_map_left, List.filter_map, Function.comp_def]

/-- selecting columns commutes with taking condition means -/
theorem condMean_selectCols (data : List (List K)) (ev : List Int) (c : Int) (nb : List Nat) :
    condMean (selectCols data nb) ev nb.length c = nb.map (colMean data ev c) := by
  have h := rowsOf_selectCols data ev c nb
  unfold rowsOf at h
  unfold condMean
  simp only [h, List.length_map]
  apply List.ext_getElem
  · simp
  · intro i h1 h2
    have hi : i < nb.length := by simpa using h2
    simp only [List.getElem_map, List.getElem_range, colMean, rowsOf, List.map_map]
    congr 1
    · congr 1
      apply List.map_congr_left
      intro row _
      simp [Function.comp_def, List.getD_eq_getElem?_getD, hi]
    · simp

theorem dEuclid_map (nb : List Nat) (a b : Nat → K) :
    dEuclid (nb.map a) (nb.map b)
      = (nb.map (fun j => (a j - b j) * (a j - b j))).sum / ((nb.length : Nat) : K) := by
  simp [dEuclid, List.zipWith_map, List.zipWith_self]

/-- the squared Euclidean distance of two patterns read off the same channel list does not
    depend on the order of that list -/
theorem dEuclid_perm {nb nb' : List Nat} (h : nb.Perm nb') (a b : Nat → K) :
    dEuclid (nb.map a) (nb.map b) = dEuclid (nb'.map a) (nb'.map b) := by
  rw [dEuclid_map, dEuclid_map, (h.map _).sum_eq, h.length_eq]

/-! ### correlation and Poisson-KL distance read off a channel list -/

/-- correlation distance of two patterns `a`, `b` tabulated over the channel list `l` -/
def corrOn [HasSqrt K] (l : List Nat) (a b : Nat → K) : K :=
  let ma := (l.map a).sum / ((l.length : Nat) : K)
  let mb := (l.map b).sum / ((l.length : Nat) : K)
  let sa := HasSqrt.sqrt ((l.map (fun j => (a j - ma) * (a j - ma))).sum)
  let sb := HasSqrt.sqrt ((l.map (fun j => (b j - mb) * (b j - mb))).sum)
  1 - (l.map (fun j => (a j - ma) / sa * ((b j - mb) / sb))).sum

theorem dCorr_map [HasSqrt K] (l : List Nat) (a b : Nat → K) :
    dCorr (l.map a) (l.map b) = corrOn l a b := by
  simp only [dCorr, corrOn, mean, dot, List.map_map, List.zipWith_map, List.zipWith_self,
    List.length_map, Function.comp_def]

theorem corrOn_perm [HasSqrt K] {l l' : List Nat} (h : l.Perm l') (a b : Nat → K) :
    corrOn l a b = corrOn l' a b := by
  have e : ∀ φ : Nat → K, (l.map φ).sum = (l'.map φ).sum := fun φ => (h.map φ).sum_eq
  simp only [corrOn, e, h.length_eq]

theorem dCorr_perm [HasSqrt K] {l l' : List Nat} (h : l.Perm l') (a b : Nat → K) :
    dCorr (l.map a) (l.map b) = dCorr (l'.map a) (l'.map b) := by
  rw [dCorr_map, dCorr_map, corrOn_perm h]

/-- symmetrised Poisson-KL distance of two patterns tabulated over the channel list `l` -/
def poissonOn [HasLog K] (l : List Nat) (a b : Nat → K) : K :=
  let w : K := ((1 : Nat) : K) / ((10 : Nat) : K)
  (l.map (fun j => ((a j + 1 * w) / (1 + w) - (b j + 1 * w) / (1 + w))
      * (HasLog.log ((a j + 1 * w) / (1 + w)) - HasLog.log ((b j + 1 * w) / (1 + w))))).sum
    / ((l.length : Nat) : K)

theorem dPoisson_map [HasLog K] (l : List Nat) (a b : Nat → K) :
    dPoisson (l.map a) (l.map b) = poissonOn l a b := by
  simp only [dPoisson, poissonOn, List.map_map, List.zipWith_map, List.zipWith_self,
    List.length_map, Function.comp_def]

theorem dPoisson_perm [HasLog K] {l l' : List Nat} (h : l.Perm l') (a b : Nat → K) :
    dPoisson (l.map a) (l.map b) = dPoisson (l'.map a) (l'.map b) := by
  rw [dPoisson_map, dPoisson_map]
  simp only [poissonOn, (h.map _).sum_eq, h.length_eq]

/-- RDM of the selected columns, written with per-channel condition means -/
theorem calcRdm_selectCols (d : List K → List K → K) (ev : List Int) (row : List K)
    (rest : List (List K)) (nb : List Nat) :
    calcRdm d ev (selectCols (row :: rest) nb)
      = (pairsOf (uniq ev)).map (fun p =>
          d (nb.map (colMean (row :: rest) ev p.1)) (nb.map (colMean (row :: rest) ev p.2))) := by
  have hn : ((selectCols (row :: rest) nb).headD []).length = nb.length := by
    simp [selectCols]
  unfold calcRdm
  simp only [hn]
  have hm : (uniq ev).map (condMean (selectCols (row :: rest) nb) ev nb.length)
      = (uniq ev).map (fun c => nb.map (colMean (row :: rest) ev c)) :=
    List.map_congr_left (fun c _ => condMean_selectCols _ ev c nb)
  rw [hm, Rsa.pairsOf_map, List.map_map]
  rfl

/-- C01's left-to-right sum is the sum of the tabulated list -/
theorem sumTo_eq_list_sum (n : Nat) (f : Nat → K) :
    Rsa.Calc.sumTo n f = ((List.range n).map f).sum := by
  induction n with
  | zero => simp [Rsa.Calc.sumTo]
  | succ n ih => simp [Rsa.Calc.sumTo, List.range_succ, ih]

end Rsa.Searchlight
