/-
  Helper lemmas for C03 (round 3): the variants of `Rsa.Core.C03Passes` that call the leaves
  regenerated from the source text equal the definitions the earlier theorems speak about.
-/
import Rsa.Lemmas.C03Cka
import Rsa.Lemmas.C03TwoPass

set_option linter.unusedVariables false
set_option linter.unusedSectionVars false
set_option linter.unusedSimpArgs false
set_option linter.unnecessarySeqFocus false

open Rsa Rsa.Compare

namespace Rsa.Compare

/-! ### `_cosine` -/

theorem cosineSel_iff (a : ℝ) : Rsa.Gen.C03.cosineSel a = 1 ↔ 0 < a := by
  unfold Rsa.Gen.C03.cosineSel
  by_cases h : (0 : ℝ) < a <;> simp [h]

theorem cosineCoded_eq (x y : List ℝ) : cosineCoded x y = cosine x y := by
  unfold cosineCoded cosine
  simp only [cosineSel_iff, Rsa.Gen.C03.cosineEntry]

theorem corrCoded_eq (x y : List ℝ) : corrCoded x y = corr x y := cosineCoded_eq _ _
theorem spearmanCoded_eq (x y : List ℝ) : spearmanCoded x y = spearman x y := cosineCoded_eq _ _

/-! ### `_get_v` dispatch, routing, `n_cond` -/

theorem getVCoded_eq {K : Type} [Field K] [LinearOrder K] (n : ℕ) (s : SigmaK K) :
    getVCoded n s = getV n s := by
  cases s <;> rfl

theorem covRouteOf_eq {K : Type} [Field K] [LinearOrder K] (s : SigmaK K) :
    covRouteOf s = match s with
      | .none => 0
      | _ => 1 := by
  cases s <;> rfl

theorem nFromLength_triLen (n : ℕ) (hn : 2 ≤ n) : Rsa.Gen.C03.nFromLength (triLen n) = n := by
  unfold Rsa.Gen.C03.nFromLength
  rw [two_mul_triLen, ceilSqrt_mul_pred n hn]

theorem nFromReduced_triLen (n : ℕ) (hn : 2 ≤ n) : Rsa.Gen.C03.nFromReduced (triLen n) = n := by
  unfold Rsa.Gen.C03.nFromReduced
  rw [two_mul_triLen, ceilSqrt_mul_pred n hn]
  omega

/-! ### linear-CKA centring with every scalar step from the text -/

theorem ckaKernel_eq (n : ℕ) (r : List ℝ) : ckaKernel n r = centreKernel n (halfNeg n r) := by
  rw [← centreKernelCoded_eq n (halfNeg n r) (fun i j => vecToMat_symm n _ _ _ i j)
    (fun i => vecToMat_diag n _ _ _ i)]
  have hmap : r.map Rsa.Gen.C03.ckaHalfNeg = r.map (fun d => -d / ((2 : ℕ) : ℝ)) := by
    apply List.map_congr_left
    intro d _
    unfold Rsa.Gen.C03.ckaHalfNeg
    push_cast
    ring
  funext i j
  unfold ckaKernel centreKernelCoded halfNeg colMean Rsa.Gen.C03.ckaMean Rsa.Gen.C03.ckaCentre
  simp only [hmap]
  ring

theorem covWeighting3_eq (n : ℕ) (r : List ℝ) : covWeighting3 n r = covWeighting n r := by
  unfold covWeighting3 covWeighting
  rw [ckaKernel_eq]

/-! ### Bures -/

theorem buresKernelRows_eq {K : Type} [Field K] [LinearOrder K] (n : ℕ) (r : List K) :
    buresKernelRows n r = kernelRows n r := rfl

theorem buresClamp_eq : (Rsa.Gen.C03.buresClamp : ℝ → ℝ) = clamp0 := by
  funext v
  unfold Rsa.Gen.C03.buresClamp clamp0
  by_cases h : (0 : ℝ) < v
  · simp [h, h.le]
  · simp [h, not_lt.mp h]

theorem buresSimCoded_eq (eigh : List (List ℝ) → List ℝ × List (List ℝ)) (A B : List (List ℝ)) :
    buresSimCoded eigh A B = buresSim eigh A B := by
  unfold buresSimCoded
  rw [buresClamp_eq]
  rfl

theorem sqBuresMetricCoded_eq (eigh : List (List ℝ) → List ℝ × List (List ℝ)) (A B : List (List ℝ)) :
    sqBuresMetricCoded eigh A B = sqBuresMetric eigh A B := by
  unfold sqBuresMetricCoded
  rw [buresClamp_eq]
  rfl

/-! ### `_tau_a` through the two passes -/

theorem counts5_same {K : Type} [LinearOrder K] (x y : List K) :
    counts5 (x.zip y) = (nCon x y, nDis x y, nTieX x y, nTieY x y, nTieXY x y) := rfl

/-- with `_kendall_dis` returning the number of discordant pairs of lexicographically sorted
    rank vectors, the coded `_tau_a` (two passes, run-length and bincount tie counts) is the
    count-form `tauA` -/
theorem tauATwoPass_eq_tauA {K : Type} [Field K] [LinearOrder K] [IsStrictOrderedRing K]
    (kdis : List ℕ → List ℕ → ℕ)
    (hk : ∀ a b : List ℕ, a.length = b.length → (a.zip b).Pairwise lexLE →
      kdis a b = countPairs discordantH (a.zip b))
    (x y : List K) (h : x.length = y.length) : tauATwoPass kdis x y = tauA x y := by
  obtain ⟨hl, hlex, hc⟩ := tauAPasses_spec x y h
  unfold counts5 at hc
  simp only [Prod.mk.injEq] at hc
  obtain ⟨-, c2, c3, c4, c5⟩ := hc
  have e1 : bincountTies (tauAPasses x y).1 = nTieX x y := by
    rw [bincountTies_eq]
    have : (tauAPasses x y).1 = ((tauAPasses x y).1.zip (tauAPasses x y).2).map Prod.fst :=
      (List.map_fst_zip (le_of_eq hl)).symm
    conv_lhs => rw [this]
    rw [countPairs_map]
    exact c3
  have e2 : bincountTies (tauAPasses x y).2 = nTieY x y := by
    rw [bincountTies_eq]
    have : (tauAPasses x y).2 = ((tauAPasses x y).1.zip (tauAPasses x y).2).map Prod.snd :=
      (List.map_snd_zip (le_of_eq hl.symm)).symm
    conv_lhs => rw [this]
    rw [countPairs_map]
    exact c4
  have e3 : runTies ((tauAPasses x y).1.zip (tauAPasses x y).2) = nTieXY x y := by
    rw [runTies_eq _ hlex]
    exact c5
  have e4 : kdis (tauAPasses x y).1 (tauAPasses x y).2 = nDis x y := by
    rw [hk _ _ hl hlex]
    exact c2
  unfold tauATwoPass tauA conMinusDis
  simp only [e1, e2, e3, e4]

/-! ### `compare_neg_riemannian_distance` -/

theorem riemGram_eq (di dj dij : ℝ) : Rsa.Gen.C03.riemGram di dj dij = (di + dj - dij) / 2 := by
  unfold Rsa.Gen.C03.riemGram
  push_cast
  ring

theorem riemNeg_eq (f : ℝ) : Rsa.Gen.C03.riemNeg f = -f := by
  unfold Rsa.Gen.C03.riemNeg
  push_cast
  ring

end Rsa.Compare
