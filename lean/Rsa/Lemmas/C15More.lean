/- further helper lemmas for the C15 property theorems -/
import Mathlib.Data.List.Basic
import Rsa.Lemmas.C15Idx
import Rsa.Lemmas.C15Bal
import Rsa.Lemmas.C15Miss

set_option linter.unusedSectionVars false
set_option linter.unusedVariables false

namespace Rsa.Unb

open Finset Rsa.Gen.C15

/-! ### positions in the `triu` enumeration -/

theorem pairsOf_range'_pos (m : Nat) : ∀ (s p : Nat) (hp : p < (pairsOf (List.range' s m)).length),
    s ≤ ((pairsOf (List.range' s m))[p]).1 ∧
    ((pairsOf (List.range' s m))[p]).1 < ((pairsOf (List.range' s m))[p]).2 ∧
    ((pairsOf (List.range' s m))[p]).2 < s + m ∧
    p = rowStart m (((pairsOf (List.range' s m))[p]).1 - s) +
      (((pairsOf (List.range' s m))[p]).2 - ((pairsOf (List.range' s m))[p]).1 - 1) := by
  induction m with
  | zero => intro s p hp; simp [pairsOf] at hp
  | succ m ih =>
    intro s p hp
    have hr : List.range' s (m + 1) = s :: List.range' (s + 1) m := List.range'_succ
    have hpo : pairsOf (List.range' s (m + 1))
        = (List.range' (s + 1) m).map (fun y => (s, y)) ++ pairsOf (List.range' (s + 1) m) := by
      rw [hr]; rfl
    have hlen : ((List.range' (s + 1) m).map (fun y => (s, y))).length = m := by simp
    by_cases hpm : p < m
    · have e : (pairsOf (List.range' s (m + 1)))[p] = (s, s + 1 + p) := by
        simp only [hpo]
        rw [List.getElem_append_left (by rw [hlen]; exact hpm)]
        simp
      rw [e]
      refine ⟨Nat.le_refl _, by simp only; omega, by simp only; omega, ?_⟩
      simp only [Nat.sub_self, rowStart]
      omega
    · have hp' : p - m < (pairsOf (List.range' (s + 1) m)).length := by
        have := hp
        simp only [hpo, List.length_append, hlen] at this
        omega
      have e : (pairsOf (List.range' s (m + 1)))[p] = (pairsOf (List.range' (s + 1) m))[p - m] := by
        simp only [hpo]
        rw [List.getElem_append_right (by rw [hlen]; omega)]
        simp only [hlen]
      rw [e]
      obtain ⟨h1, h2, h3, h4⟩ := ih (s + 1) (p - m) hp'
      refine ⟨by omega, h2, by omega, ?_⟩
      have hk : ((pairsOf (List.range' (s + 1) m))[p - m]).1 - s
          = (((pairsOf (List.range' (s + 1) m))[p - m]).1 - (s + 1)) + 1 := by omega
      rw [hk, rowStart_succ_succ]
      omega

theorem pairs_position (n p : Nat) (hp : p < (pairs n).length) :
    pairKey n ((pairs n)[p]).1 ((pairs n)[p]).2 = n + p ∧
    ((pairs n)[p]).1 < ((pairs n)[p]).2 ∧ ((pairs n)[p]).2 < n := by
  have hr : List.range n = List.range' 0 n := List.range_eq_range'
  have hp' : p < (pairsOf (List.range' 0 n)).length := by
    have := hp; unfold pairs at this; rwa [hr] at this
  have e : (pairs n)[p] = (pairsOf (List.range' 0 n))[p] := by
    unfold pairs; simp only [hr]
  obtain ⟨h1, h2, h3, h4⟩ := pairsOf_range'_pos n 0 p hp'
  rw [e]
  refine ⟨?_, h2, by omega⟩
  rw [pairKey_lt n _ _ h2 (by omega)]
  simp only [Nat.sub_zero] at h4
  omega

section generic
variable {K : Type} [Field K] [LinearOrder K] [IsStrictOrderedRing K]

/-- the assembled vector is, position by position, the distance of the pair at that position -/
theorem assemble_eq (n : Nat) (out : Nat → Option K) (D : Nat → Nat → Option K)
    (hd : ∀ a b, a < b → b < n → distOf n out a b = D a b) :
    assemble n out = (pairs n).map (fun ab => D ab.1 ab.2) := by
  unfold assemble
  apply List.ext_getElem
  · simp
  · intro p h1 h2
    have hp : p < (pairs n).length := by simpa using h2
    obtain ⟨hk, hlt, hb⟩ := pairs_position n p hp
    simp only [List.getElem_map, List.getElem_zipIdx, Nat.zero_add]
    rw [← hd _ _ hlt hb]
    unfold distOf
    rw [hk]

/-! ### balanced forms -/

theorem specDist_plain {c : Cfg K} {P N V} (h : BilCfg c P N V) (hcv : c.crossval = false)
    (hnum : c.number = true) (a b : Nat) (ha : 0 < nOf c.nObs c.desc a)
    (hb : 0 < nOf c.nObs c.desc b) :
    specDist c a b = some (balMahal P N (condMean c.nObs c.desc V) a b) := by
  unfold specDist
  rw [specSim_plain h hcv hnum a a ha ha, specSim_plain h hcv hnum b b hb hb,
    specSim_plain h hcv hnum a b ha hb]
  simp only
  congr 1
  unfold balMahal
  have hP : ((P : Nat) : K) ≠ 0 := by
    have := h.posP; exact_mod_cast (Nat.pos_iff_ne_zero.mp this)
  field_simp

theorem balMahal_idN_eq_sqDist (P : Nat) (m : Nat → Nat → K) (a b : Nat) :
    balMahal P idN m a b = sqDist P m a b := by
  unfold balMahal sqDist two
  rw [bil_idN, bil_idN, bil_idN]
  congr 1
  simp only [sumTo_eq_sum]
  rw [Finset.mul_sum, ← Finset.sum_add_distrib, ← Finset.sum_sub_distrib]
  apply Finset.sum_congr rfl; intro ch _
  push_cast; ring

/-! ### a channel missing everywhere = the channel deleted -/

theorem prodAt_at_skip (c0 c : Nat) (x y : Nat → Option K) :
    prodAt (dropCh c0 x) (dropCh c0 y) (if c < c0 then c else c + 1)
      = prodAt (delCh c0 x) (delCh c0 y) c := by
  unfold prodAt; rw [drop_del_at, drop_del_at]

theorem fstAt_at_skip (c0 c : Nat) (x y : Nat → Option K) :
    fstAt (dropCh c0 x) (dropCh c0 y) (if c < c0 then c else c + 1)
      = fstAt (delCh c0 x) (delCh c0 y) c := by
  unfold fstAt; rw [drop_del_at, drop_del_at]

theorem sndAt_at_skip (c0 c : Nat) (x y : Nat → Option K) :
    sndAt (dropCh c0 x) (dropCh c0 y) (if c < c0 then c else c + 1)
      = sndAt (delCh c0 x) (delCh c0 y) c := by
  unfold sndAt; rw [drop_del_at, drop_del_at]

theorem oneAt_at_skip {β : Type} (c0 c : Nat) (x y : Nat → Option β) :
    (oneAt (dropCh c0 x) (dropCh c0 y) (if c < c0 then c else c + 1) : K)
      = oneAt (delCh c0 x) (delCh c0 y) c := by
  unfold oneAt; rw [drop_del_at, drop_del_at]

theorem poissonAt_at_skip (c0 c : Nat) (x y : Nat → Option (K × K)) :
    poissonAt (dropCh c0 x) (dropCh c0 y) (if c < c0 then c else c + 1)
      = poissonAt (delCh c0 x) (delCh c0 y) c := by
  unfold poissonAt; rw [drop_del_at, drop_del_at]

theorem validNat_at_skip {β : Type} (c0 c : Nat) (x y : Nat → Option β) :
    validNat (dropCh c0 x) (dropCh c0 y) (if c < c0 then c else c + 1)
      = validNat (delCh c0 x) (delCh c0 y) c := by
  unfold validNat; rw [drop_del_at, drop_del_at]

theorem prodAt_c0 (c0 : Nat) (x y : Nat → Option K) :
    prodAt (dropCh c0 x) (dropCh c0 y) c0 = 0 := by simp [prodAt, dropCh]
theorem fstAt_c0 (c0 : Nat) (x y : Nat → Option K) :
    fstAt (dropCh c0 x) (dropCh c0 y) c0 = 0 := by simp [fstAt, dropCh]
theorem sndAt_c0 (c0 : Nat) (x y : Nat → Option K) :
    sndAt (dropCh c0 x) (dropCh c0 y) c0 = 0 := by simp [sndAt, dropCh]
theorem oneAt_c0 {β : Type} (c0 : Nat) (x y : Nat → Option β) :
    (oneAt (dropCh c0 x) (dropCh c0 y) c0 : K) = 0 := by simp [oneAt, dropCh]
theorem poissonAt_c0 (c0 : Nat) (x y : Nat → Option (K × K)) :
    poissonAt (dropCh c0 x) (dropCh c0 y) c0 = 0 := by simp [poissonAt, dropCh]
theorem validNat_c0 {β : Type} (c0 : Nat) (x y : Nat → Option β) :
    validNat (dropCh c0 x) (dropCh c0 y) c0 = 0 := by simp [validNat, dropCh]

theorem cntValid_skip {β : Type} (P c0 : Nat) (h : c0 ≤ P) (x y : Nat → Option β) :
    cntValid (P + 1) (dropCh c0 x) (dropCh c0 y) = cntValid P (delCh c0 x) (delCh c0 y) := by
  rw [cntValid_eq_sumTo, cntValid_eq_sumTo, sumTo_skip P c0 h]
  simp only [validNat_c0, validNat_at_skip, add_zero]

theorem euclidK_skip (P c0 : Nat) (h : c0 ≤ P) (x y : Nat → Option K) :
    euclidK (P + 1) (dropCh c0 x) (dropCh c0 y) = euclidK P (delCh c0 x) (delCh c0 y) := by
  unfold euclidK
  simp only [sumTo_skip P c0 h, prodAt_c0, oneAt_c0, prodAt_at_skip, oneAt_at_skip, add_zero]

theorem poissonK_skip (P c0 : Nat) (h : c0 ≤ P) (x y : Nat → Option (K × K)) :
    poissonK (P + 1) (dropCh c0 x) (dropCh c0 y) = poissonK P (delCh c0 x) (delCh c0 y) := by
  unfold poissonK
  simp only [sumTo_skip P c0 h, poissonAt_c0, oneAt_c0, poissonAt_at_skip, oneAt_at_skip, add_zero]

theorem mahalK_skip (P c0 : Nat) (h : c0 ≤ P) (N : Nat → Nat → K) (x y : Nat → Option K) :
    mahalK false (P + 1) N (dropCh c0 x) (dropCh c0 y)
      = mahalK false P (delRC c0 N) (delCh c0 x) (delCh c0 y) := by
  unfold mahalK delRC
  simp only [sumTo_skip P c0 h, fstAt_c0, sndAt_c0, oneAt_c0, fstAt_at_skip, sndAt_at_skip,
    oneAt_at_skip, add_zero, mul_zero, zero_mul, Bool.false_eq_true, if_false]

theorem corrK_skip [HasSqrt K] (P c0 : Nat) (h : c0 ≤ P) (x y : Nat → Option K) :
    corrK false (P + 1) (dropCh c0 x) (dropCh c0 y) = corrK false P (delCh c0 x) (delCh c0 y) := by
  unfold corrK
  simp only [sumTo_skip P c0 h, fstAt_c0, sndAt_c0, oneAt_c0, prodAt_c0, fstAt_at_skip,
    sndAt_at_skip, oneAt_at_skip, prodAt_at_skip, add_zero, mul_zero, cntValid_skip P c0 h,
    Bool.false_eq_true, if_false]

/-! ### no valid product -/

theorem specDen_zero (c : Cfg K) (a b : Nat)
    (h : ∀ i j, i < c.nObs → j < c.nObs →
      ((c.desc i = a ∧ c.desc j = b) ∨ (c.desc i = b ∧ c.desc j = a)) → ¬ 0 < (c.kern i j).2) :
    specDen c a b = 0 := by
  unfold specDen
  refine (sumTo_congr (g := fun _ => (0 : K)) ?_).trans (sumTo_zero c.nObs)
  intro i hi
  have h1 : ¬ (c.crossval = false ∧ a = b ∧ c.desc i = a ∧ 0 < (c.kern i i).2) := by
    rintro ⟨_, hab, hd, hw⟩
    exact h i i hi hi (Or.inl ⟨hd, hab ▸ hd⟩) hw
  rw [if_neg h1, zero_add]
  refine (sumTo_congr (g := fun _ => (0 : K)) ?_).trans (sumTo_zero _)
  intro t ht
  have hj : i + 1 + t < c.nObs := by omega
  rw [if_neg]
  rintro ⟨_, hw, hd⟩
  exact h i _ hi hj hd hw

/-! ### equal weighting = weighting by number when all weights coincide -/

theorem sumTo_div (n : Nat) (f : Nat → K) (r : K) :
    sumTo n (fun i => f i / r) = sumTo n f / r := by
  rw [sumTo_eq_sum, sumTo_eq_sum, Finset.sum_div]

theorem specSim_equal_eq_number (c : Cfg K) (w0 : K) (hw0 : 0 < w0)
    (hw : ∀ i j, (c.kern i j).2 = w0) (a b : Nat) :
    specSim { c with number := false } a b = specSim { c with number := true } a b := by
  have hne : w0 ≠ 0 := ne_of_gt hw0
  have hadm : ∀ (bb : Bool) i j, adm { c with number := bb } i j = adm c i j := fun _ _ _ => rfl
  have hN : specNum { c with number := false } a b
      = specNum { c with number := true } a b / w0 := by
    unfold specNum
    rw [← sumTo_div]
    apply sumTo_congr; intro i _
    simp only [hadm, cVal, hw, Bool.false_eq_true, if_false, if_true]
    rw [add_div, ← sumTo_div]
    congr 1
    · by_cases hc : c.crossval = false ∧ a = b ∧ c.desc i = a ∧ 0 < w0
      · rw [if_pos hc, if_pos hc]; field_simp
      · rw [if_neg hc, if_neg hc]; simp
    · apply sumTo_congr; intro t _
      by_cases hc : adm c i (i + 1 + t) = true ∧ 0 < w0 ∧
          ((c.desc i = a ∧ c.desc (i + 1 + t) = b) ∨ (c.desc i = b ∧ c.desc (i + 1 + t) = a))
      · rw [if_pos hc, if_pos hc]
      · rw [if_neg hc, if_neg hc]; simp
  have hD : specDen { c with number := false } a b
      = specDen { c with number := true } a b / w0 := by
    unfold specDen
    rw [← sumTo_div]
    apply sumTo_congr; intro i _
    simp only [hadm, cW, hw, Bool.false_eq_true, if_false, if_true]
    rw [add_div, ← sumTo_div]
    congr 1
    · by_cases hc : c.crossval = false ∧ a = b ∧ c.desc i = a ∧ 0 < w0
      · rw [if_pos hc, if_pos hc]; field_simp
      · rw [if_neg hc, if_neg hc]; simp
    · apply sumTo_congr; intro t _
      by_cases hc : adm c i (i + 1 + t) = true ∧ 0 < w0 ∧
          ((c.desc i = a ∧ c.desc (i + 1 + t) = b) ∨ (c.desc i = b ∧ c.desc (i + 1 + t) = a))
      · rw [if_pos hc, if_pos hc]; field_simp
      · rw [if_neg hc, if_neg hc]; simp
  unfold specSim
  rw [hN, hD]
  by_cases hpos : 0 < specDen { c with number := true } a b
  · have : 0 < specDen { c with number := true } a b / w0 := div_pos hpos hw0
    rw [if_pos this, if_pos hpos]
    congr 1
    have := ne_of_gt hpos
    field_simp
  · have : ¬ 0 < specDen { c with number := true } a b / w0 := by
      intro h; apply hpos
      have := mul_pos h hw0
      rwa [div_mul_cancel₀ _ hne] at this
    rw [if_neg this, if_neg hpos]

end generic

/-! ### labels in order of first appearance -/

theorem mem_firstAppearance (l : List Nat) (x : Nat) : x ∈ firstAppearance l ↔ x ∈ l := by
  induction l with
  | nil => simp [firstAppearance]
  | cons y ys ih =>
    simp only [firstAppearance, List.mem_cons, List.mem_filter, ih, bne_iff_ne, ne_eq]
    constructor
    · rintro (h | ⟨h, _⟩)
      · exact Or.inl h
      · exact Or.inr h
    · rintro (h | h)
      · exact Or.inl h
      · by_cases e : x = y
        · exact Or.inl e
        · exact Or.inr ⟨h, e⟩

theorem firstAppearance_nodup (l : List Nat) : (firstAppearance l).Nodup := by
  induction l with
  | nil => simp [firstAppearance]
  | cons y ys ih =>
    simp only [firstAppearance, List.nodup_cons, List.mem_filter, bne_iff_ne, ne_eq,
      not_true_eq_false, and_false, not_false_eq_true, true_and]
    exact ih.filter _

theorem firstAppearance_append (l : List Nat) (x : Nat) :
    firstAppearance (l ++ [x]) = if x ∈ l then firstAppearance l else firstAppearance l ++ [x] := by
  induction l with
  | nil => simp [firstAppearance]
  | cons y ys ih =>
    simp only [List.cons_append, firstAppearance, ih]
    by_cases hx : x ∈ ys
    · have : x ∈ y :: ys := List.mem_cons_of_mem _ hx
      simp [hx, this]
    · by_cases e : x = y
      · subst e
        simp [hx, List.filter_append]
      · have : x ∉ y :: ys := by
          simp only [List.mem_cons, not_or]; exact ⟨e, hx⟩
        simp [hx, this, List.filter_append, e]

end Rsa.Unb
