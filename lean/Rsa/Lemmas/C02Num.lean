/-
  Helper lemmas for property C02, part 2: means of patterns, the kernels
  (`u N vᵀ`, `u · log v`), centring, prior regularisation, channel permutations.
-/
import Rsa.Lemmas.C02Sums

set_option linter.unusedSectionVars false
set_option linter.unusedVariables false
set_option linter.unusedSimpArgs false
set_option linter.unusedDecidableInType false

namespace Rsa.CrossVal

open List

variable {K : Type} [Field K] [LinearOrder K]

/-- `κ` is linear in its first (training) argument, in the form the estimator uses it:
    the kernel of a mean pattern is the mean of the kernels -/
def MeanLinear (κ : (Nat → K) → (Nat → K) → K) : Prop :=
  ∀ (us : List (Nat → K)) (v : Nat → K),
    κ (meanVec us) v = (us.map (fun u => κ u v)).sum / ((us.length : Nat) : K)

/-- the per-pattern transform commutes with averaging (true of the identity, of channel
    centring and of the prior regularisation — affine maps with coefficients summing to one) -/
def MeanCommute (T : (Nat → K) → (Nat → K)) : Prop :=
  ∀ (us : List (Nat → K)), us ≠ [] → T (meanVec us) = meanVec (us.map T)

theorem meanVec_perm {l1 l2 : List (Nat → K)} (h : l1.Perm l2) : meanVec l1 = meanVec l2 := by
  funext k
  unfold meanVec
  rw [(h.map _).sum_eq, h.length_eq]

/-- a "dot form" `u ↦ Σ_k u_k w_k` of a mean is the mean of the dot forms -/
theorem sumR_mean_mul {ι : Type} (P : Nat) (us : List ι) (φ : ι → Nat → K) (c : K)
    (w : Nat → K) :
    sumR P (fun k => (us.map (fun u => φ u k)).sum / c * w k)
      = (us.map (fun u => sumR P (fun k => φ u k * w k))).sum / c := by
  have : ∀ k, (us.map (fun u => φ u k)).sum / c * w k
      = (us.map (fun u => φ u k * w k)).sum / c := by
    intro k; rw [lsum_mul_right]; ring
  simp only [sumR, this, lsum_div]
  rw [lsum_comm]

theorem kern_meanLinear (P : Nat) (N : Nat → Nat → K) : MeanLinear (kern P N) := by
  intro us v
  unfold kern meanVec
  have h1 : ∀ l, sumR P (fun k => (us.map (fun u => u k)).sum / ((us.length : Nat) : K) * N k l)
      = (us.map (fun u => sumR P (fun k => u k * N k l))).sum / ((us.length : Nat) : K) :=
    fun l => sumR_mean_mul P us (fun u k => u k) _ (fun k => N k l)
  simp only [h1]
  exact sumR_mean_mul P us (fun u l => sumR P (fun k => u k * N k l)) _ v

theorem pkern_meanLinear (lg : K → K) (P : Nat) : MeanLinear (pkern lg P) := by
  intro us v
  unfold pkern meanVec Rsa.Gen.C02.poissonKernel
  exact sumR_mean_mul P us (fun u k => u k) _ (fun k => lg (v k))

theorem id_meanCommute : MeanCommute (id : (Nat → K) → (Nat → K)) := by
  intro us _
  simp

theorem centre_meanCommute (P : Nat) : MeanCommute (centre (α := K) P) := by
  intro us _
  funext k
  unfold centre meanVec Rsa.Gen.C02.centreTrain
  simp only [List.map_map, Function.comp_def, List.length_map, lsum_sub, lsum_div]
  have : sumR P (fun k => (us.map (fun v => v k)).sum / ((us.length : Nat) : K))
      = (us.map (fun x => sumR P x)).sum / ((us.length : Nat) : K) := by
    simp only [sumR, lsum_div]
    rw [lsum_comm]
  rw [this]
  ring

theorem reg_meanCommute [IsStrictOrderedRing K] (lam0 w : K) : MeanCommute (reg lam0 w) := by
  intro us hus
  funext k
  unfold reg meanVec Rsa.Gen.C02.regTrain
  have hn : ((us.length : Nat) : K) ≠ 0 := by
    have : us.length ≠ 0 := fun h => hus (List.length_eq_zero_iff.mp h)
    exact_mod_cast this
  simp only [List.map_map, Function.comp_def, List.length_map, lsum_div, lsum_add, lsum_const]
  field_simp

theorem xT_meanCommute (rm : Bool) (P : Nat) : MeanCommute (xT (α := K) rm P) := by
  unfold xT
  cases rm
  · exact id_meanCommute
  · exact centre_meanCommute P

/-! ### sums over channels -/

theorem sumR_add (P : Nat) (f g : Nat → K) :
    sumR P (fun k => f k + g k) = sumR P f + sumR P g := lsum_add _ f g

theorem sumR_sub (P : Nat) (f g : Nat → K) :
    sumR P (fun k => f k - g k) = sumR P f - sumR P g := lsum_sub _ f g

theorem sumR_mul_right (P : Nat) (f : Nat → K) (c : K) :
    sumR P (fun k => f k * c) = sumR P f * c := lsum_mul_right _ f c

theorem sumR_comm (P Q : Nat) (f : Nat → Nat → K) :
    sumR P (fun k => sumR Q (fun l => f k l)) = sumR Q (fun l => sumR P (fun k => f k l)) :=
  lsum_comm _ _ f

theorem sumR_congr {P : Nat} {f g : Nat → K} (h : ∀ k, k < P → f k = g k) :
    sumR P f = sumR P g :=
  lsum_congr (fun k hk => h k (List.mem_range.mp hk))

/-- `k_aa + k_bb − k_ab − k_ba` for the bilinear kernel is the product of the differences -/
theorem kdiff_kern (P : Nat) (N : Nat → Nat → K) (ua ub va vb : Nat → K) :
    kdiff (kern P N) ua ub va vb = kern P N (vsubF ua ub) (vsubF va vb) := by
  simp only [kdiff, Rsa.Gen.C02.crossEntry, kern, vsubF, sub_mul, mul_sub, sumR_sub]
  ring

/-- … and for the Poisson kernel `(λ_a − λ_b)·(log λ'_a − log λ'_b)` -/
theorem kdiff_pkern (lg : K → K) (P : Nat) (ua ub va vb : Nat → K) :
    kdiff (pkern lg P) ua ub va vb
      = sumR P (fun k => (ua k - ub k) * (lg (va k) - lg (vb k))) := by
  simp only [kdiff, Rsa.Gen.C02.crossEntry, pkern, Rsa.Gen.C02.poissonKernel, sub_mul, mul_sub, sumR_sub]
  ring

/-- identity precision: `u · I · vᵀ = u · v` -/
theorem kern_eye (P : Nat) (u v : Nat → K) : kern P eye u v = dotP P u v := by
  unfold kern dotP
  apply sumR_congr
  intro l hl
  congr 1
  unfold sumR eye
  have : ∀ k, u k * (if k = l then (1 : K) else 0) = if k = l then u l else 0 := by
    intro k; by_cases h : k = l <;> simp [h]
  simp only [this]
  exact lsum_ite_single (List.nodup_range) (List.mem_range.mpr hl) (u l)

/-- a symmetric precision gives a symmetric bilinear form -/
theorem kern_symm (P : Nat) (N : Nat → Nat → K) (hN : ∀ k l, k < P → l < P → N k l = N l k)
    (u v : Nat → K) :
    kern P N u v = kern P N v u := by
  unfold kern
  simp only [← sumR_mul_right]
  rw [sumR_comm]
  apply sumR_congr; intro k hk
  apply sumR_congr; intro l hl
  rw [hN l k hl hk]; ring

/-! ### channel permutations -/

theorem sumR_perm (P : Nat) (σ : Nat → Nat) (hσ : ((List.range P).map σ).Perm (List.range P))
    (f : Nat → K) : sumR P (fun k => f (σ k)) = sumR P f := by
  unfold sumR
  have : (List.range P).map (fun k => f (σ k)) = ((List.range P).map σ).map f := by
    simp [List.map_map, Function.comp_def]
  rw [this]
  exact (hσ.map f).sum_eq

theorem kern_perm (P : Nat) (σ : Nat → Nat) (hσ : ((List.range P).map σ).Perm (List.range P))
    (N : Nat → Nat → K) (u v : Nat → K) :
    kern P (fun k l => N (σ k) (σ l)) (fun k => u (σ k)) (fun k => v (σ k)) = kern P N u v := by
  unfold kern
  have h1 : ∀ l, sumR P (fun k => u (σ k) * N (σ k) (σ l)) = sumR P (fun k => u k * N k (σ l)) :=
    fun l => sumR_perm P σ hσ (fun k => u k * N k (σ l))
  simp only [h1]
  exact sumR_perm P σ hσ (fun l => sumR P (fun k => u k * N k l) * v l)

theorem pkern_perm (lg : K → K) (P : Nat) (σ : Nat → Nat)
    (hσ : ((List.range P).map σ).Perm (List.range P)) (u v : Nat → K) :
    pkern lg P (fun k => u (σ k)) (fun k => v (σ k)) = pkern lg P u v := by
  unfold pkern Rsa.Gen.C02.poissonKernel
  exact sumR_perm P σ hσ (fun k => u k * lg (v k))

theorem centre_perm (P : Nat) (σ : Nat → Nat) (hσ : ((List.range P).map σ).Perm (List.range P))
    (x : Nat → K) : centre P (fun k => x (σ k)) = fun k => centre P x (σ k) := by
  funext k
  unfold centre Rsa.Gen.C02.centreTrain
  rw [sumR_perm P σ hσ x]

theorem meanVec_comp (σ : Nat → Nat) (vs : List (Nat → K)) :
    meanVec (vs.map (fun v => fun k => v (σ k))) = fun k => meanVec vs (σ k) := by
  funext k
  simp [meanVec, List.map_map, Function.comp_def]

/-! ### the left (training) pair of a `kdiff` may be averaged outside -/

theorem kdiff_mean_left {ι : Type} {κ : (Nat → K) → (Nat → K) → K} (hκ : MeanLinear κ)
    (S : List ι) (ya yb : ι → Nat → K) (va vb : Nat → K) :
    kdiff κ (meanVec (S.map ya)) (meanVec (S.map yb)) va vb
      = (S.map (fun n => kdiff κ (ya n) (yb n) va vb)).sum / ((S.length : Nat) : K) := by
  unfold kdiff Rsa.Gen.C02.crossEntry
  rw [hκ (S.map yb) vb, hκ (S.map ya) va, hκ (S.map ya) vb, hκ (S.map yb) va]
  simp only [List.map_map, List.length_map, Function.comp_def, lsum_add, lsum_sub]
  ring

end Rsa.CrossVal
