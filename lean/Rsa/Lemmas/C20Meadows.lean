/- helper lemmas for C20: Meadows component extraction -/
import Rsa.Lemmas.C20Str

set_option linter.unusedSectionVars false
set_option linter.unusedVariables false
set_option linter.unusedSimpArgs false

namespace Rsa.Importers

variable {α : Type}

/-- every participant's values come from the variable *named* after it -/
theorem stackUtvs_eq (vars : List (Str × MatVal α)) (rowsOf : Str → List (List α)) :
    ∀ ps : List Str, (∀ p ∈ ps, lookupVar vars (utvVarOf p) = some (.nums (rowsOf p))) →
      stackUtvs vars ps = .ok (ps.flatMap rowsOf)
  | [], _ => rfl
  | p :: ps, h => by
    have hp := h p List.mem_cons_self
    have ih := stackUtvs_eq vars rowsOf ps (fun q hq => h q (List.mem_cons_of_mem _ hq))
    simp [stackUtvs, hp, ih]

/-- the tasks the json loop keeps once the stimulus list is fixed: multi-arrangement tasks
    with exactly that stimulus list, with their position in the file -/
def selected (stim : List Str) (ts : List (JTask α)) (t : Nat) : List (JTask α × Nat) :=
  (ts.zipIdx t).filter (fun p => p.1.taskType == some sMultiarrange && p.1.stimuli == stim)

theorem jsonLoop_nonempty : ∀ (ts : List (JTask α)) (t : Nat) (utvs : List (List α))
    (stim tn : List Str) (ti : List Nat), utvs ≠ [] →
    jsonLoop ts t utvs stim tn ti =
      (utvs ++ (selected stim ts t).map (·.1.rdm), stim,
       tn ++ (selected stim ts t).map (·.1.name), ti ++ (selected stim ts t).map (·.2))
  | [], t, utvs, stim, tn, ti, _ => by simp [jsonLoop, selected]
  | task :: rest, t, utvs, stim, tn, ti, h => by
    have hne : utvs.isEmpty = false := by cases utvs <;> simp_all
    unfold jsonLoop
    by_cases h1 : task.taskType = some sMultiarrange
    · by_cases h2 : stim = task.stimuli
      · have ih := jsonLoop_nonempty rest (t + 1) (utvs ++ [task.rdm]) stim (tn ++ [task.name])
          (ti ++ [t]) (by simp)
        simp [h1, hne, h2] at ih ⊢
        simp [ih, selected, List.zipIdx_cons, h1, h2]
      · have ih := jsonLoop_nonempty rest (t + 1) utvs stim tn ti h
        have h2' : (task.stimuli == stim) = false := by
          simpa using fun e => h2 e.symm
        simp [h1, hne, h2, ih, selected, List.zipIdx_cons, h2']
    · have ih := jsonLoop_nonempty rest (t + 1) utvs stim tn ti h
      have h1' : (task.taskType == some sMultiarrange) = false := by simpa using h1
      simp [h1, ih, selected, List.zipIdx_cons, h1']

/-- tasks before the first multi-arrangement task are skipped; that task fixes the stimuli -/
theorem jsonLoop_start : ∀ (pre : List (JTask α)) (t0 : JTask α) (rest : List (JTask α)) (t : Nat),
    (∀ x ∈ pre, x.taskType ≠ some sMultiarrange) → t0.taskType = some sMultiarrange →
    jsonLoop (pre ++ t0 :: rest) t [] [] [] [] =
      (t0.rdm :: (selected t0.stimuli rest (t + pre.length + 1)).map (·.1.rdm), t0.stimuli,
       t0.name :: (selected t0.stimuli rest (t + pre.length + 1)).map (·.1.name),
       (t + pre.length) :: (selected t0.stimuli rest (t + pre.length + 1)).map (·.2))
  | [], t0, rest, t, _, h0 => by
    have := jsonLoop_nonempty rest (t + 1) [t0.rdm] t0.stimuli [t0.name] [t] (by simp)
    simp [jsonLoop, h0, this]
  | x :: pre, t0, rest, t, hpre, h0 => by
    have hx : x.taskType ≠ some sMultiarrange := hpre x List.mem_cons_self
    have ih := jsonLoop_start pre t0 rest (t + 1)
      (fun y hy => hpre y (List.mem_cons_of_mem _ hy)) h0
    have e1 : t + 1 + pre.length = t + (pre.length + 1) := by omega
    simp [jsonLoop, hx, ih, e1, Nat.add_assoc]

end Rsa.Importers
