/- sums and loops of `Rsa.Core.Unbalanced`: bridge to `Finset`, additive loop lemma -/
import Mathlib.Algebra.BigOperators.Group.Finset.Basic
import Mathlib.Algebra.BigOperators.Intervals
import Mathlib.Algebra.BigOperators.Ring.Finset
import Mathlib.Algebra.BigOperators.Field
import Mathlib.Algebra.Order.Field.Basic
import Mathlib.Tactic.Ring
import Mathlib.Tactic.Linarith
import Mathlib.Tactic.FieldSimp
import Rsa.Core.Unbalanced

set_option linter.unusedSectionVars false
set_option linter.unusedVariables false

namespace Rsa.Unb

open Finset

section monoid
variable {K : Type} [AddCommMonoid K]

theorem sumTo_eq_sum (n : Nat) (f : Nat → K) : sumTo n f = ∑ i ∈ range n, f i := by
  induction n with
  | zero => simp [sumTo]
  | succ n ih => rw [sumTo, ih, Finset.sum_range_succ]

theorem sumTo_congr {n : Nat} {f g : Nat → K} (h : ∀ i, i < n → f i = g i) :
    sumTo n f = sumTo n g := by
  rw [sumTo_eq_sum, sumTo_eq_sum]
  exact Finset.sum_congr rfl (fun i hi => h i (Finset.mem_range.mp hi))

theorem sumTo_zero (n : Nat) : sumTo n (fun _ => (0 : K)) = 0 := by
  rw [sumTo_eq_sum]; simp

theorem sumTo_add (n : Nat) (f g : Nat → K) :
    sumTo n (fun i => f i + g i) = sumTo n f + sumTo n g := by
  simp only [sumTo_eq_sum, Finset.sum_add_distrib]

/-- a loop whose every iteration adds a state-independent amount to an observable -/
theorem forRange_obs {β : Type} (obs : β → K) (body : Nat → β → β) (c : Nat → K)
    (h : ∀ i s, obs (body i s) = obs s + c i) (m lo : Nat) (s : β) :
    obs (forRange m lo body s) = obs s + sumTo m (fun t => c (lo + t)) := by
  induction m with
  | zero => simp [forRange, sumTo]
  | succ m ih => rw [forRange, h, ih, sumTo, add_assoc]

/-- the tail sum `Σ_{t < n-(i+1)} f (i+1+t)` is the sum over `i < j < n` -/
theorem sumTo_tail (n i : Nat) (f : Nat → K) :
    sumTo (n - (i + 1)) (fun t => f (i + 1 + t)) = ∑ j ∈ range n, if i < j then f j else 0 := by
  rw [sumTo_eq_sum, ← Finset.sum_filter]
  rw [← Finset.sum_Ico_eq_sum_range]
  apply Finset.sum_congr
  · ext j; simp only [Finset.mem_Ico, Finset.mem_filter, Finset.mem_range]; omega
  · intros; rfl

end monoid

/-- reorder a fourfold sum -/
theorem sum4_comm {K : Type} [AddCommMonoid K] (P n : Nat) (T : Nat → Nat → Nat → Nat → K) :
    (∑ k ∈ range P, ∑ l ∈ range P, ∑ i ∈ range n, ∑ j ∈ range n, T i j k l)
      = ∑ i ∈ range n, ∑ j ∈ range n, ∑ k ∈ range P, ∑ l ∈ range P, T i j k l := by
  calc (∑ k ∈ range P, ∑ l ∈ range P, ∑ i ∈ range n, ∑ j ∈ range n, T i j k l)
      = ∑ k ∈ range P, ∑ i ∈ range n, ∑ l ∈ range P, ∑ j ∈ range n, T i j k l :=
        Finset.sum_congr rfl (fun k _ => Finset.sum_comm)
    _ = ∑ i ∈ range n, ∑ k ∈ range P, ∑ l ∈ range P, ∑ j ∈ range n, T i j k l := Finset.sum_comm
    _ = ∑ i ∈ range n, ∑ k ∈ range P, ∑ j ∈ range n, ∑ l ∈ range P, T i j k l :=
        Finset.sum_congr rfl (fun i _ => Finset.sum_congr rfl (fun k _ => Finset.sum_comm))
    _ = ∑ i ∈ range n, ∑ j ∈ range n, ∑ k ∈ range P, ∑ l ∈ range P, T i j k l :=
        Finset.sum_congr rfl (fun i _ => Finset.sum_comm)

section ring
variable {K : Type} [Field K]

/-- for a symmetric summand the strict upper triangle is half of (square − diagonal) -/
theorem two_mul_sum_upper (n : Nat) (g : Nat → Nat → K) (hs : ∀ i j, g i j = g j i) :
    2 * (∑ i ∈ range n, ∑ j ∈ range n, if i < j then g i j else 0)
      = (∑ i ∈ range n, ∑ j ∈ range n, g i j) - ∑ i ∈ range n, g i i := by
  have hsplit : ∀ i j, g i j = (if i < j then g i j else 0) + (if j < i then g i j else 0)
      + (if i = j then g i j else 0) := by
    intro i j
    rcases Nat.lt_trichotomy i j with h | h | h
    · have h1 : ¬ j < i := by omega
      have h2 : ¬ i = j := by omega
      simp [h, h1, h2]
    · subst h; simp
    · have h1 : ¬ i < j := by omega
      have h2 : ¬ i = j := by omega
      simp [h, h1, h2]
  have hlow : (∑ i ∈ range n, ∑ j ∈ range n, if j < i then g i j else 0)
      = ∑ i ∈ range n, ∑ j ∈ range n, if i < j then g i j else 0 := by
    rw [Finset.sum_comm]
    apply Finset.sum_congr rfl; intro i _
    apply Finset.sum_congr rfl; intro j _
    by_cases h : i < j
    · simp [h, hs j i]
    · simp [h]
  have hdiag : (∑ i ∈ range n, ∑ j ∈ range n, if i = j then g i j else 0)
      = ∑ i ∈ range n, g i i := by
    apply Finset.sum_congr rfl; intro i hi
    rw [Finset.sum_ite_eq]; simp [hi]
  have htot : (∑ i ∈ range n, ∑ j ∈ range n, g i j)
      = (∑ i ∈ range n, ∑ j ∈ range n, if i < j then g i j else 0)
        + (∑ i ∈ range n, ∑ j ∈ range n, if j < i then g i j else 0)
        + ∑ i ∈ range n, ∑ j ∈ range n, if i = j then g i j else 0 := by
    rw [← Finset.sum_add_distrib, ← Finset.sum_add_distrib]
    apply Finset.sum_congr rfl; intro i _
    rw [← Finset.sum_add_distrib, ← Finset.sum_add_distrib]
    apply Finset.sum_congr rfl; intro j _
    exact hsplit i j
  rw [htot, hlow, hdiag]; ring

end ring

end Rsa.Unb
