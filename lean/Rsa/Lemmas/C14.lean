/-
  Helper lemmas for property C14 (noise covariance).  No property statements here.
-/
import Mathlib.Algebra.Order.Field.Basic
import Mathlib.Algebra.BigOperators.Ring.List
import Mathlib.Algebra.BigOperators.Ring.Finset
import Mathlib.Algebra.BigOperators.Fin
import Mathlib.Algebra.BigOperators.Field
import Mathlib.Algebra.Order.BigOperators.Group.List
import Mathlib.Algebra.Order.BigOperators.Ring.Finset
import Mathlib.Algebra.Order.BigOperators.Group.Finset
import Mathlib.Tactic.Linarith
import Mathlib.Tactic.FieldSimp
import Mathlib.Tactic.Ring
import Mathlib.Tactic.Positivity
import Rsa.Core.Noise

set_option linter.unusedSectionVars false
set_option linter.unusedVariables false
set_option linter.unusedSimpArgs false
set_option linter.style.longLine false

namespace Rsa.Lemmas.C14

open Rsa.Noise Rsa.Gen.C14

/-! ### list sums -/

section monoid
variable {M : Type} [AddCommMonoid M]

theorem rsum_eq_finset (p : Nat) (f : Nat → M) : rsum p f = ∑ j ∈ Finset.range p, f j := by
  unfold rsum
  induction p with
  | zero => simp
  | succ n ih => rw [List.range_succ, List.map_append, List.sum_append, ih, Finset.sum_range_succ]; simp

theorem sum_map_zero' {ι : Type} (l : List ι) : (l.map (fun _ => (0 : M))).sum = 0 := by
  induction l with
  | nil => rfl
  | cons a l ih => simp [ih]

/-- picking the one matching key out of a duplicate-free key list -/
theorem sum_ite_key (ks : List Nat) (a : Nat) (c : M) (hn : ks.Nodup) (ha : a ∈ ks) :
    (ks.map (fun v => if (a == v) = true then c else 0)).sum = c := by
  induction ks with
  | nil => simp at ha
  | cons k ks ih =>
    rw [List.nodup_cons] at hn
    rw [List.map_cons, List.sum_cons]
    by_cases hk : a = k
    · subst hk
      have : (ks.map (fun v => if (a == v) = true then c else 0)).sum = 0 := by
        rw [← sum_map_zero' ks]
        congr 1
        apply List.map_congr_left
        intro v hv
        have : a ≠ v := fun h => hn.1 (h ▸ hv)
        simp [this]
      rw [this]; simp
    · have ha' : a ∈ ks := by
        rcases List.mem_cons.mp ha with h | h
        · exact absurd h hk
        · exact h
      rw [ih hn.2 ha']
      simp [hk]

/-- a sum over observations splits by condition key -/
theorem sum_by_key {β : Type} (obs : List (Nat × β)) (ks : List Nat) (hn : ks.Nodup)
    (hk : ∀ o ∈ obs, o.1 ∈ ks) (f : Nat × β → M) :
    (obs.map f).sum = (ks.map (fun v => ((obs.filter (fun o => o.1 == v)).map f).sum)).sum := by
  induction obs with
  | nil => simp [sum_map_zero']
  | cons a obs ih =>
    have hk' : ∀ o ∈ obs, o.1 ∈ ks := fun o ho => hk o (List.mem_cons_of_mem _ ho)
    have ha : a.1 ∈ ks := hk a List.mem_cons_self
    rw [List.map_cons, List.sum_cons, ih hk']
    have : ∀ v, (((a :: obs).filter (fun o => o.1 == v)).map f).sum
        = (if (a.1 == v) = true then f a else 0) + ((obs.filter (fun o => o.1 == v)).map f).sum := by
      intro v
      rw [List.filter_cons]
      by_cases h : (a.1 == v) = true
      · simp [h]
      · simp [h]
    simp only [this]
    rw [List.sum_map_add, sum_ite_key ks a.1 (f a) hn ha]

end monoid

/-! ### `uniq` -/

theorem mem_uniq (l : List Nat) (a : Nat) : a ∈ uniq l ↔ a ∈ l := by
  induction l with
  | nil => simp [uniq]
  | cons b l ih =>
    simp only [uniq, List.mem_cons, List.mem_filter, ih]
    constructor
    · rintro (h | ⟨h, _⟩)
      · exact Or.inl h
      · exact Or.inr h
    · rintro (h | h)
      · exact Or.inl h
      · by_cases hab : a = b
        · exact Or.inl hab
        · exact Or.inr ⟨h, by simpa using hab⟩

theorem nodup_uniq (l : List Nat) : (uniq l).Nodup := by
  induction l with
  | nil => simp [uniq]
  | cons b l ih =>
    simp only [uniq, List.nodup_cons]
    refine ⟨?_, ih.filter _⟩
    simp [List.mem_filter]

theorem uniq_length_perm (l1 l2 : List Nat) (h : l1.Perm l2) :
    (uniq l1).length = (uniq l2).length := by
  apply List.Perm.length_eq
  apply (List.perm_ext_iff_of_nodup (nodup_uniq _) (nodup_uniq _)).mpr
  intro a; rw [mem_uniq, mem_uniq]; exact h.mem_iff

theorem uniq_map_inj (f : Nat → Nat) (hf : Function.Injective f) (l : List Nat) :
    uniq (l.map f) = (uniq l).map f := by
  induction l with
  | nil => rfl
  | cons a l ih =>
    simp only [List.map_cons, uniq, ih, List.filter_map, List.cons.injEq, true_and]
    congr 1
    apply List.filter_congr
    intro b _
    by_cases h : b = a
    · subst h; simp
    · have : f b ≠ f a := fun h' => h (hf h')
      show (f b != f a) = (b != a)
      rw [bne_iff_ne.mpr this, bne_iff_ne.mpr h]

/-! ### the derived statement-level leaves against the single-expression leaves -/

section leaves
variable {α : Type} [Add α] [Sub α] [Mul α] [Div α] [Neg α] [Zero α] [One α] [NatCast α]
variable [LT α] [DecidableLT α] [LE α] [DecidableLE α] [Max α] [Min α]

/-- the source of `_covariance_eye` from `b2 = min(d2, b2)` to `return` is: `min`, guard on
    `d2 > 0`, combination (else `s`), and the rescale applied to *both* branches -/
theorem lwTail_eq (s d2 b2raw m e n dof : α) :
    lwTail s d2 b2raw m e n dof
      = lwRescale (if ((0 : Nat) : α) < d2 then lwCombine (lwB2min d2 b2raw) d2 m e s else s) n dof := by
  unfold lwTail lwRescale lwCombine lwB2min
  split <;> rfl

/-- the guard statement of `_covariance_diag`: clip of the ratio when `denom > 0`, else `0` -/
theorem ssLambda_eq (num den : α) :
    ssLambda num den = if ((0 : Nat) : α) < den then ssClip (ssLambRaw num den) else ((0 : Nat) : α) := by
  unfold ssLambda ssClip ssLambRaw
  split <;> rfl

/-- the source of `_covariance_diag` from the guard to `return` -/
theorem ssTail_eq (num den s e mk : α) :
    ssTail num den s e mk = ssShrink s (ssScaling e (ssLambda num den) mk) := by
  unfold ssTail ssShrink ssScaling ssLambda
  split <;> rfl

theorem dofPick_eq (dof : Option α) (nat : α) : dofPick dof nat = dof.getD nat := by
  cases dof <;> rfl

theorem dofPickUnb_eq (dof : Option α) (n c : Nat) :
    dofPickUnb dof n c = dof.getD ((dofUnbalanced n c : Nat) : α) := by
  cases dof <;> rfl

variable [Rsa.HasSqrt α]

theorem estimateC_full (rows : List (Row α)) (dof : α) (p : Nat) :
    estimateC .full rows dof p = covFullC rows dof := rfl
theorem estimateC_diag (rows : List (Row α)) (dof : α) (p : Nat) :
    estimateC .diag rows dof p = varianceC rows dof := rfl
theorem estimateC_eye (rows : List (Row α)) (dof : α) (p : Nat) :
    estimateC .eye rows dof p = covEyeC rows dof p := rfl
theorem estimateC_sdiag (rows : List (Row α)) (dof : α) (p : Nat) :
    estimateC .sdiag rows dof p = covSDiagC rows dof p := rfl

end leaves

section field
variable {K : Type} [Field K] [LinearOrder K] [IsStrictOrderedRing K]

/-! ### Gram matrices -/

theorem gram_nil (j k : Nat) : gram ([] : List (Row K)) j k = 0 := rfl
theorem gram_cons (r : Row K) (rs : List (Row K)) (j k : Nat) :
    gram (r :: rs) j k = r j * r k + gram rs j k := by simp [gram]
theorem gram2_cons (r : Row K) (rs : List (Row K)) (j k : Nat) :
    gram2 (r :: rs) j k = (r j * r k) * (r j * r k) + gram2 rs j k := by simp [gram2]

theorem gram_comm (rows : List (Row K)) (j k : Nat) : gram rows j k = gram rows k j := by
  unfold gram; congr 1; apply List.map_congr_left; intro r _; ring

theorem gram_diag_nonneg (rows : List (Row K)) (j : Nat) : 0 ≤ gram rows j j := by
  unfold gram
  apply List.sum_nonneg
  intro x hx
  rcases List.mem_map.mp hx with ⟨r, _, rfl⟩
  exact mul_self_nonneg _

/-- `vᵀ (Σ_r r rᵀ) v = Σ_r (v·r)²` -/
theorem quad_gram (s : Finset Nat) (rows : List (Row K)) (v : Nat → K) :
    ∑ j ∈ s, ∑ k ∈ s, v j * gram rows j k * v k
      = (rows.map (fun r => (∑ j ∈ s, v j * r j) ^ 2)).sum := by
  induction rows with
  | nil => simp [gram_nil]
  | cons r rs ih =>
    rw [List.map_cons, List.sum_cons, ← ih]
    simp only [gram_cons]
    rw [sq, Finset.sum_mul_sum, ← Finset.sum_add_distrib]
    apply Finset.sum_congr rfl; intro j _
    rw [← Finset.sum_add_distrib]
    apply Finset.sum_congr rfl; intro k _
    ring

theorem quad_gram_nonneg (s : Finset Nat) (rows : List (Row K)) (v : Nat → K) :
    0 ≤ ∑ j ∈ s, ∑ k ∈ s, v j * gram rows j k * v k := by
  rw [quad_gram]
  apply List.sum_nonneg
  intro x hx
  rcases List.mem_map.mp hx with ⟨r, _, rfl⟩
  positivity

/-- Cauchy–Schwarz against the all-ones vector: `(Σ y)² ≤ n Σ y²` -/
theorem sq_sum_le (l : List K) : l.sum ^ 2 ≤ (l.length : K) * (l.map (fun y => y * y)).sum := by
  induction l with
  | nil => simp
  | cons a l ih =>
    simp only [List.sum_cons, List.map_cons, List.length_cons, Nat.cast_succ]
    have hq : 0 ≤ (l.map (fun y => y * y)).sum := by
      apply List.sum_nonneg; intro x hx
      rcases List.mem_map.mp hx with ⟨y, _, rfl⟩; exact mul_self_nonneg _
    have hn : (0 : K) ≤ (l.length : K) := Nat.cast_nonneg _
    -- 2 a s ≤ n a² + q, from (n a - s)² ≥ 0 and s² ≤ n q
    by_cases h0 : l.length = 0
    · have : l = [] := List.eq_nil_of_length_eq_zero h0
      subst this; simp; nlinarith [mul_self_nonneg a]
    · have hpos : (0 : K) < (l.length : K) := by exact_mod_cast Nat.pos_of_ne_zero h0
      have key : 2 * a * l.sum ≤ (l.length : K) * (a * a) + (l.map (fun y => y * y)).sum := by
        have h1 : 0 ≤ ((l.length : K) * a - l.sum) ^ 2 := sq_nonneg _
        have h2 : l.sum ^ 2 ≤ (l.length : K) * (l.map (fun y => y * y)).sum := ih
        -- multiply target by n > 0
        have : (l.length : K) * (2 * a * l.sum)
            ≤ (l.length : K) * ((l.length : K) * (a * a) + (l.map (fun y => y * y)).sum) := by
          nlinarith
        exact le_of_mul_le_mul_left this hpos
      nlinarith

variable [Rsa.HasSqrt K]

/-! ### specification vocabulary used by the property statements -/

/-- `tr S / p`, the scale of the Ledoit–Wolf target `(tr S / p) · I` -/
def traceMean (S : Mat K) (p : Nat) : K := (∑ j ∈ Finset.range p, S j j) / (p : K)

/-- the quadratic form `vᵀ S v` on the first `p` channels -/
def quad (p : Nat) (S : Mat K) (v : Nat → K) : K :=
  ∑ j ∈ Finset.range p, ∑ k ∈ Finset.range p, v j * S j k * v k

theorem eyeB2raw_nonneg (rows : List (Row K)) (p : Nat) : 0 ≤ eyeB2raw rows p := by
  unfold eyeB2raw lwB2 lwB2term rsum2
  apply div_nonneg _ (Nat.cast_nonneg _)
  rw [rsum_eq_finset]
  apply Finset.sum_nonneg; intro j _
  rw [rsum_eq_finset]
  apply Finset.sum_nonneg; intro k _
  unfold eyeS lwS
  beta_reduce
  by_cases h0 : rows.length = 0
  · have : rows = [] := List.eq_nil_of_length_eq_zero h0
    subst this; simp [gram, gram2]
  · have hpos : (0 : K) < (rows.length : K) := by exact_mod_cast Nat.pos_of_ne_zero h0
    have cs := sq_sum_le (rows.map (fun r => r j * r k))
    simp only [List.length_map, List.map_map] at cs
    have hg : gram rows j k = (rows.map (fun r => r j * r k)).sum := rfl
    have hg2 : gram2 rows j k = (rows.map ((fun y => y * y) ∘ fun r => r j * r k)).sum := rfl
    rw [hg, hg2]
    rw [sub_nonneg, div_mul_div_comm, div_le_div_iff₀ (mul_pos hpos hpos) hpos]
    nlinarith [cs]

theorem eyeD2_nonneg (rows : List (Row K)) (p : Nat) : 0 ≤ eyeD2 rows p := by
  unfold eyeD2 lwD2term rsum2
  rw [rsum_eq_finset]
  apply Finset.sum_nonneg; intro j _
  rw [rsum_eq_finset]
  apply Finset.sum_nonneg; intro k _
  exact mul_self_nonneg _

theorem delta_comm (j k : Nat) : (delta j k : K) = delta k j := by
  unfold delta; by_cases h : j = k
  · subst h; rfl
  · have : ¬ k = j := fun h' => h h'.symm
    simp [h, this]

theorem quad_combo (p : Nat) (a b : K) (T S : Mat K) (v : Nat → K) :
    quad p (fun j k => a * T j k + b * S j k) v = a * quad p T v + b * quad p S v := by
  unfold quad
  rw [Finset.mul_sum, Finset.mul_sum, ← Finset.sum_add_distrib]
  apply Finset.sum_congr rfl; intro j _
  rw [Finset.mul_sum, Finset.mul_sum, ← Finset.sum_add_distrib]
  apply Finset.sum_congr rfl; intro k _
  ring

theorem quad_diagonal (p : Nat) (d : Nat → K) (v : Nat → K) :
    quad p (fun j k => if j = k then d j else 0) v = ∑ j ∈ Finset.range p, d j * (v j * v j) := by
  unfold quad
  apply Finset.sum_congr rfl; intro j hj
  rw [Finset.sum_eq_single j]
  · simp; ring
  · intro k _ hk
    have : ¬ j = k := fun h => hk h.symm
    simp [this]
  · intro h; exact absurd hj h

theorem sum_diag_pos (p : Nat) (d v : Nat → K) (hd : ∀ j, j < p → 0 < d j)
    (hv : ∃ j, j < p ∧ v j ≠ 0) : 0 < ∑ j ∈ Finset.range p, d j * (v j * v j) := by
  obtain ⟨j0, hj0, hvj⟩ := hv
  apply Finset.sum_pos'
  · intro j hj
    exact mul_nonneg (le_of_lt (hd j (Finset.mem_range.mp hj))) (mul_self_nonneg _)
  · exact ⟨j0, Finset.mem_range.mpr hj0, mul_pos (hd j0 hj0) (mul_self_pos.mpr hvj)⟩

theorem labels_mem_uniq (obs : List (Obs K)) : ∀ o ∈ obs, o.1 ∈ uniq (labels obs) := by
  intro o ho
  rw [mem_uniq]
  exact List.mem_map_of_mem ho

/-- the residuals of the two dataset paths carry the same terms -/
theorem sum_demean3_groups {M : Type} [AddCommMonoid M] (obs : List (Obs K)) (g : Row K → M) :
    ((demean3 (groups obs)).map g).sum = ((residUnb obs).map g).sum := by
  unfold residUnb
  rw [List.map_map, sum_by_key obs (uniq (labels obs)) (nodup_uniq _) (labels_mem_uniq obs)]
  unfold demean3 groups
  rw [List.flatMap_def, List.map_flatten, List.sum_flatten, List.map_map, List.map_map, List.map_map]
  congr 1
  apply List.map_congr_left
  intro v _
  simp only [Function.comp, demean, groupRows, List.map_map]
  congr 1
  apply List.map_congr_left
  intro o ho
  have : o.1 = v := by
    have := (List.mem_filter.mp ho).2
    simpa using this
  simp only [Function.comp, this]

theorem sum_map_sub_const (l : List K) (c : K) :
    (l.map (fun x => x - c)).sum = l.sum - (l.length : K) * c := by
  induction l with
  | nil => simp
  | cons a l ih => simp only [List.map_cons, List.sum_cons, List.length_cons, Nat.cast_succ, ih]; ring

theorem sum_sub_mean (l : List K) : (l.map (fun x => x - l.sum / (l.length : K))).sum = 0 := by
  rw [sum_map_sub_const]
  by_cases h : l.length = 0
  · have : l = [] := List.eq_nil_of_length_eq_zero h
    subst this; simp
  · have : (l.length : K) ≠ 0 := by exact_mod_cast h
    field_simp
    ring

theorem estimateC_congr (m : Method) (r1 r2 : List (Row K)) (dof : K) (p : Nat)
    (h1 : gram r1 = gram r2) (h2 : gram2 r1 = gram2 r2) (h3 : r1.length = r2.length) :
    estimateC m r1 dof p = estimateC m r2 dof p := by
  have hv : sdVarHat r1 dof = sdVarHat r2 dof := by
    funext a b
    simp only [sdVarHat, sdS2Mean, sdSMean, sdStd, sdVar, sdS, covFullC, h1, h2, h3]
  have hdeg : sdDegenerate r1 dof p = sdDegenerate r2 dof p := by
    unfold sdDegenerate sdVar sdS; rw [h1]
  funext j k
  cases m <;>
  simp only [hv, hdeg, estimateC_full, estimateC_diag, estimateC_eye, estimateC_sdiag, covFullC, varianceC,
    covEyeC, covSDiagC, sdS, eyeS, eyeD2, eyeB2, eyeB2raw,
    eyeM, sdLambda, sdNumG, sdDenG, sdNum, sdDen, sdVarHat, sdSMean, sdS2Mean, sdStd, sdVar, h1, h2, h3]

theorem balancedR_spec (gs : List (List (Row K))) (R : Nat) (h : balancedR gs = some R) :
    ∀ g ∈ gs, g.length = R := by
  cases gs with
  | nil => simp [balancedR] at h
  | cons g rest =>
    simp only [balancedR] at h
    split at h
    · rename_i hall
      have hR : g.length = R := by simpa using h
      intro g' hg'
      rcases List.mem_cons.mp hg' with rfl | hmem
      · exact hR
      · have := List.all_eq_true.mp hall g' hmem
        have : g'.length = g.length := by simpa using this
        omega
    · simp at h

theorem length_eq_of_balanced (obs : List (Obs K)) (R : Nat) (h : balancedR (groups obs) = some R) :
    obs.length = (uniq (labels obs)).length * R := by
  have hsum := sum_by_key (M := Nat) obs (uniq (labels obs)) (nodup_uniq _) (labels_mem_uniq obs)
    (fun _ => 1)
  simp only [List.map_const', List.sum_replicate, smul_eq_mul, mul_one] at hsum
  rw [hsum]
  have : ∀ v ∈ uniq (labels obs), (obs.filter (fun o => o.1 == v)).length = R := by
    intro v hv
    have := balancedR_spec _ R h (groupRows obs v) (List.mem_map_of_mem hv)
    simpa [groupRows] using this
  rw [List.map_congr_left this]
  simp

theorem balancedR_of_all (gs : List (List (Row K))) (R : Nat) (hne : gs ≠ [])
    (h : ∀ g ∈ gs, g.length = R) : balancedR gs = some R := by
  cases gs with
  | nil => exact absurd rfl hne
  | cons g rest =>
    have hg : g.length = R := h g (List.mem_cons_self)
    have hall : rest.all (fun h' => h'.length == g.length) = true := by
      rw [List.all_eq_true]
      intro g' hg'
      have := h g' (List.mem_cons_of_mem _ hg')
      simp [this, hg]
    rw [hg] at hall
    simp only [balancedR, hg, hall, if_true]

/-- acceptance by `np.stack` (equally many rows per condition) does not depend on the order of
    the observations -/
theorem balancedR_perm (o1 o2 : List (Obs K)) (h : o1.Perm o2) (R : Nat)
    (hb : balancedR (groups o1) = some R) : balancedR (groups o2) = some R := by
  apply balancedR_of_all
  · have h1 : o1 ≠ [] := by
      intro h0; subst h0; simp [groups, labels, uniq, balancedR] at hb
    have h2 : o2 ≠ [] := by
      intro h0; subst h0; exact h1 (List.perm_nil.mp h)
    cases o2 with
    | nil => exact absurd rfl h2
    | cons o rest => simp [groups, labels, uniq]
  · intro g hg
    simp only [groups, List.mem_map] at hg
    obtain ⟨v, hv, rfl⟩ := hg
    have hv2 : v ∈ labels o2 := (mem_uniq _ _).mp hv
    have hv1 : v ∈ uniq (labels o1) := (mem_uniq _ _).mpr ((h.map _).mem_iff.mpr hv2)
    have hl := balancedR_spec _ R hb (groupRows o1 v) (List.mem_map_of_mem hv1)
    have hp : (groupRows o1 v).Perm (groupRows o2 v) := (h.filter _).map _
    rw [← hp.length_eq]; exact hl

theorem traceMean_full_nonneg (rows : List (Row K)) (dof : K) (hdof : 0 < dof) (p : Nat) :
    0 ≤ traceMean (covFullC rows dof) p := by
  unfold traceMean covFullC fullNorm
  apply div_nonneg _ (Nat.cast_nonneg _)
  apply Finset.sum_nonneg; intro j _
  exact div_nonneg (gram_diag_nonneg rows j) (le_of_lt hdof)

/-- `(C · B) j k` as a finite sum -/
theorem mmul_eq_finset (p : Nat) (a b : Mat K) (j k : Nat) :
    mmul p a b j k = ∑ l ∈ Finset.range p, a j l * b l k := by
  have e := rsum_eq_finset p (fun l => a j l * b l k)
  unfold rsum at e
  unfold mmul
  exact e

end field

/-! ### the driver's evaluation plan is the identity on the model -/

section fast
variable {α : Type}

theorem rowOfFb_eq (p : Nat) (r : Row α) : rowOfFb ((List.range p).map r) r = r := by
  funext j
  unfold rowOfFb
  by_cases h : j < p
  · simp [List.getElem?_map, List.getElem?_range, h]
  · simp [List.getElem?_map, List.getElem?_range, h]

theorem freezeRows_eq (p : Nat) (rows : List (Row α)) : freezeRows p rows = rows := by
  unfold freezeRows
  induction rows with
  | nil => rfl
  | cons r rs ih => simp only [List.map_cons, List.zipWith_cons_cons, ih, rowOfFb_eq]

variable [Add α] [Sub α] [Mul α] [Div α] [Neg α] [Zero α] [One α] [NatCast α]
variable [LT α] [DecidableLT α] [LE α] [DecidableLE α] [Min α] [Max α] [Rsa.HasSqrt α]

theorem estimateCL_eq (m : Method) (rows : List (Row α)) (dof : α) (p : Nat) :
    estimateCL m rows dof p = matList p (estimateC m rows dof p) := by
  cases m <;> rfl

end fast

end Rsa.Lemmas.C14
