/- helper lemmas for property C19 (searchlights): writes by index, chunks, index arithmetic -/
import Mathlib.Data.List.Nodup
import Mathlib.Data.List.Basic
import Mathlib.Tactic.Ring
import Mathlib.Tactic.Linarith
import Rsa.Core.Searchlight

set_option linter.unusedSectionVars false
set_option linter.unusedVariables false
set_option linter.unusedSimpArgs false
set_option linter.style.longLine false

namespace Rsa.Searchlight

/-! ### writes by index -/
section scatter
variable {γ : Type}

theorem scatter_length (ws : List (Nat × γ)) : ∀ init : List γ,
    (scatter init ws).length = init.length := by
  induction ws with
  | nil => intro init; rfl
  | cons w ws ih =>
    intro init
    simp only [scatter, List.foldl_cons] at ih ⊢
    rw [ih]; simp

theorem scatter_append (init : List γ) (a b : List (Nat × γ)) :
    scatter init (a ++ b) = scatter (scatter init a) b := by
  simp [scatter, List.foldl_append]

/-- after writing `f j` at every position `j` of `idx`, position `i` holds `f i` if it was
    written and its initial content otherwise — whatever the order and multiplicity -/
theorem scatter_getElem? (f : Nat → γ) (idx : List Nat) : ∀ (init : List γ) (i : Nat),
    i < init.length →
    (scatter init (idx.map (fun j => (j, f j))))[i]? = if i ∈ idx then some (f i) else init[i]? := by
  induction idx with
  | nil => intro init i _; simp [scatter]
  | cons j js ih =>
    intro init i hi
    have h1 : scatter init (List.map (fun j => (j, f j)) (j :: js))
        = scatter (init.set j (f j)) (js.map (fun j => (j, f j))) := by
      simp [scatter]
    rw [h1, ih (init.set j (f j)) i (by simpa using hi), List.getElem?_set]
    by_cases hjs : i ∈ js
    · simp [hjs]
    · by_cases hij : j = i
      · subst hij; simp [hi]
      · have : ¬ i = j := fun h => hij h.symm
        simp [hjs, hij, this]

/-- if every position is written, the table is `f` tabulated -/
theorem scatter_all (f : Nat → γ) (n : Nat) (z : γ) (idx : List Nat)
    (hcover : ∀ i, i < n → i ∈ idx) :
    scatter (List.replicate n z) (idx.map (fun j => (j, f j))) = (List.range n).map f := by
  apply List.ext_getElem?
  intro i
  by_cases hi : i < n
  · rw [scatter_getElem? f idx _ i (by simpa using hi)]
    simp [hcover i hi, hi]
  · have h1 : (scatter (List.replicate n z) (idx.map (fun j => (j, f j)))).length ≤ i := by
      rw [scatter_length]; simp; omega
    rw [List.getElem?_eq_none h1, List.getElem?_eq_none (by simp; omega)]

theorem zip_map_self (f : Nat → γ) (l : List Nat) :
    l.zip (l.map f) = l.map (fun j => (j, f j)) := by
  induction l with
  | nil => rfl
  | cons a l ih => simp [ih]

/-- chunk-wise assignment is one long sequence of writes -/
theorem foldl_assignRows (f : Nat → γ) (chunks : List (List Nat)) : ∀ t : List γ,
    chunks.foldl (fun t ch => assignRows t ch (ch.map f)) t
      = scatter t (chunks.flatten.map (fun j => (j, f j))) := by
  induction chunks with
  | nil => intro t; simp [scatter]
  | cons ch chs ih =>
    intro t
    simp only [List.foldl_cons, List.flatten_cons, List.map_append]
    rw [ih, scatter_append, assignRows, zip_map_self]

end scatter

/-! ### chunks -/

/-- admissible split points: non-decreasing and not beyond `n` -/
def PtsOk (n : Nat) (pts : List Nat) : Prop := pts.Pairwise (· ≤ ·) ∧ ∀ p ∈ pts, p ≤ n

theorem splitFrom_flatten (n : Nat) : ∀ (pts : List Nat) (a : Nat), a ≤ n →
    pts.Pairwise (· ≤ ·) → (∀ p ∈ pts, a ≤ p ∧ p ≤ n) →
    (splitFrom n a pts).flatten = List.range' a (n - a) := by
  intro pts
  induction pts with
  | nil => intro a _ _ _; simp [splitFrom, chunk]
  | cons p ps ih =>
    intro a han hs hb
    have hp := hb p List.mem_cons_self
    rw [List.pairwise_cons] at hs
    simp only [splitFrom, List.flatten_cons]
    rw [ih p hp.2 hs.2 (fun q hq => ⟨hs.1 q hq, (hb q (List.mem_cons_of_mem _ hq)).2⟩)]
    have h1 : min p n = p := Nat.min_eq_left hp.2
    have h2 : p = a + (p - a) := by omega
    simp only [chunk, h1]
    conv_lhs => rw [h2]; arg 1; rw [← h2]
    rw [List.range'_append_1]
    congr 1; omega

theorem splitIdx_flatten {n : Nat} {pts : List Nat} (h : PtsOk n pts) :
    (splitIdx n pts).flatten = List.range n := by
  rw [splitIdx, splitFrom_flatten n pts 0 (Nat.zero_le _) h.1 (fun p hp => ⟨Nat.zero_le _, h.2 p hp⟩)]
  simp [List.range_eq_range']

theorem mem_chunk {a b n i : Nat} : i ∈ chunk a b n ↔ a ≤ i ∧ i < min b n := by
  simp only [chunk, List.mem_range'_1]
  omega

/-- **discrete intermediate value**: whatever the split points are (unsorted, repeated, beyond
    `n`), every index from the current position up to `n` lands in some chunk -/
theorem splitFrom_cover (n : Nat) : ∀ (pts : List Nat) (a i : Nat), a ≤ i → i < n →
    i ∈ (splitFrom n a pts).flatten := by
  intro pts
  induction pts with
  | nil =>
    intro a i h1 h2
    simp only [splitFrom, List.flatten_cons, List.flatten_nil, List.append_nil, mem_chunk]
    omega
  | cons p ps ih =>
    intro a i h1 h2
    simp only [splitFrom, List.flatten_cons, List.mem_append]
    by_cases h : i < p
    · left; exact mem_chunk.mpr ⟨h1, by omega⟩
    · right; exact ih p i (by omega) h2

theorem splitIdx_cover (n : Nat) (pts : List Nat) (i : Nat) (h : i < n) :
    i ∈ (splitIdx n pts).flatten := splitFrom_cover n pts 0 i (Nat.zero_le _) h

theorem floorPts_ok (n : Nat) : PtsOk n (floorPts n) := by
  constructor
  · rw [floorPts, List.pairwise_map]
    exact List.pairwise_lt_range.imp (fun {a b} hab =>
      Nat.div_le_div_right (Nat.mul_le_mul_right _ (by omega)))
  · intro p hp
    simp only [floorPts, List.mem_map, List.mem_range] at hp
    obtain ⟨i, hi, rfl⟩ := hp
    apply Nat.div_le_of_le_mul
    have : i + 1 ≤ 100 := by omega
    exact Nat.mul_le_mul_right n this

/-! ### linear indices -/

def InVol (s : Shape) (v : Vox) : Prop := v.1 < s.1 ∧ v.2.1 < s.2.1 ∧ v.2.2 < s.2.2

instance (s : Shape) (v : Vox) : Decidable (InVol s v) := by unfold InVol; infer_instance

theorem ravel_unravel (s : Shape) (i : Nat) : ravel s (unravel s i) = i := by
  obtain ⟨nx, ny, nz⟩ := s
  simp only [ravel, unravel]
  have h1 : i / (ny * nz) = i / nz / ny := by rw [Nat.mul_comm, Nat.div_div_eq_div_mul]
  rw [h1, Nat.div_add_mod' (i / nz) ny, Nat.div_add_mod' i nz]

theorem unravel_ravel {s : Shape} {v : Vox} (h : InVol s v) : unravel s (ravel s v) = v := by
  obtain ⟨nx, ny, nz⟩ := s
  obtain ⟨x, y, z⟩ := v
  obtain ⟨hx, hy, hz⟩ := h
  simp only at hx hy hz
  simp only [ravel, unravel]
  have hnz : 0 < nz := by omega
  have hny : 0 < ny := by omega
  have e1 : ((x * ny + y) * nz + z) % nz = z := by
    rw [Nat.mul_add_mod_self_right]; exact Nat.mod_eq_of_lt hz
  have e2 : ((x * ny + y) * nz + z) / nz = x * ny + y := by
    rw [Nat.add_comm, Nat.add_mul_div_right _ _ hnz, Nat.div_eq_of_lt hz, Nat.zero_add]
  have e3 : ((x * ny + y) * nz + z) / (ny * nz) = x := by
    rw [Nat.mul_comm ny nz, ← Nat.div_div_eq_div_mul, e2, Nat.add_comm,
      Nat.add_mul_div_right _ _ hny, Nat.div_eq_of_lt hy, Nat.zero_add]
  have e4 : (x * ny + y) % ny = y := by
    rw [Nat.mul_add_mod_self_right]; exact Nat.mod_eq_of_lt hy
  rw [e3, e2, e4, e1]

theorem ravel_lt {s : Shape} {v : Vox} (h : InVol s v) : ravel s v < size s := by
  obtain ⟨nx, ny, nz⟩ := s
  obtain ⟨x, y, z⟩ := v
  obtain ⟨hx, hy, hz⟩ := h
  simp only at hx hy hz
  simp only [ravel, size]
  have h1 : x * ny + y + 1 ≤ nx * ny := by
    have : (x + 1) * ny ≤ nx * ny := Nat.mul_le_mul_right _ hx
    rw [Nat.add_mul] at this; omega
  have h2 : (x * ny + y + 1) * nz ≤ nx * ny * nz := Nat.mul_le_mul_right _ h1
  rw [Nat.add_mul] at h2; omega

theorem unravel_inVol {s : Shape} {i : Nat} (h : i < size s) : InVol s (unravel s i) := by
  obtain ⟨nx, ny, nz⟩ := s
  simp only [size] at h
  have hnz : 0 < nz := by
    rcases Nat.eq_zero_or_pos nz with h0 | h0
    · subst h0; simp at h
    · exact h0
  have hny : 0 < ny := by
    rcases Nat.eq_zero_or_pos ny with h0 | h0
    · subst h0; simp at h
    · exact h0
  refine ⟨?_, Nat.mod_lt _ hny, Nat.mod_lt _ hnz⟩
  simp only [unravel]
  rw [Nat.div_lt_iff_lt_mul (Nat.mul_pos hny hnz)]
  rw [← Nat.mul_assoc]; exact h

theorem mem_allVoxels {s : Shape} {v : Vox} : v ∈ allVoxels s ↔ InVol s v := by
  constructor
  · intro h
    simp only [allVoxels, List.mem_map, List.mem_range] at h
    obtain ⟨i, hi, rfl⟩ := h
    exact unravel_inVol hi
  · intro h
    simp only [allVoxels, List.mem_map, List.mem_range]
    exact ⟨ravel s v, ravel_lt h, unravel_ravel h⟩

theorem allVoxels_map_ravel (s : Shape) : (allVoxels s).map (ravel s) = List.range (size s) := by
  simp only [allVoxels, List.map_map]
  conv_rhs => rw [← List.map_id (List.range (size s))]
  apply List.map_congr_left
  intro i _
  simp [ravel_unravel]

theorem allVoxels_nodup (s : Shape) : (allVoxels s).Nodup := by
  have h : ((allVoxels s).map (ravel s)).Nodup := by
    rw [allVoxels_map_ravel]; exact List.nodup_range
  exact List.Nodup.of_map _ h

end Rsa.Searchlight
