/-
  Helper lemmas for property C02, part 6: invariance of the closed form under
  re-ordering of observations, re-labelling of folds, permutation of channels.
-/
import Rsa.Lemmas.C02Prec

set_option linter.unusedSectionVars false
set_option linter.unusedVariables false
set_option linter.unusedSimpArgs false
set_option linter.unusedDecidableInType false

namespace Rsa.CrossVal

open List

variable {L F G : Type} [LinearOrder L] [LinearOrder F] [LinearOrder G]
variable {K : Type} [Field K] [LinearOrder K] [IsStrictOrderedRing K]

/-- the same dataset with every fold label `f` replaced by `φ f` -/
def relabel (φ : F → G) (D : List (Obs L F K)) : List (Obs L G K) :=
  D.map (fun r => ⟨r.cond, φ r.fold, r.x⟩)

/-- the same dataset with the channels re-ordered: new channel `k` is old channel `σ k` -/
def permCh (σ : Nat → Nat) (D : List (Obs L F K)) : List (Obs L F K) :=
  D.map (fun r => ⟨r.cond, r.fold, fun k => r.x (σ k)⟩)

/-! ### observation order -/

theorem cvSpec_perm {D1 D2 : List (Obs L F K)} (h : D1.Perm D2) (T : (Nat → K) → (Nat → K))
    (κ : (Nat → K) → (Nat → K) → K) (P : Nat) (S : List F) (a b : L) :
    cvSpec T κ P D1 S a b = cvSpec T κ P D2 S a b := by
  have : ∀ c f, foldMean T D1 c f = foldMean T D2 c f := fun c f => foldMean_perm h T c f
  unfold cvSpec
  simp only [this]

theorem lofoAlgo_perm (T : (Nat → K) → (Nat → K)) (κ : (Nat → K) → (Nat → K) → K) (P : Nat)
    (hT : MeanCommute T) (hκ : MeanLinear κ) {D1 D2 : List (Obs L F K)} (h : D1.Perm D2)
    {R : Nat} (hbal : Balanced D2 R) (hM : 2 ≤ (sortedDistinct (D2.map (·.fold))).length) :
    lofoAlgo T κ P D1 = lofoAlgo T κ P D2 := by
  have hc : sortedDistinct (D1.map (·.cond)) = sortedDistinct (D2.map (·.cond)) :=
    sortedDistinct_congr (fun b => (h.map _).mem_iff)
  have hf : sortedDistinct (D1.map (·.fold)) = sortedDistinct (D2.map (·.fold)) :=
    sortedDistinct_congr (fun b => (h.map _).mem_iff)
  rw [lofoAlgo_closed T κ P hT hκ D1 (hbal.perm h.symm) (by rw [hf]; exact hM),
    lofoAlgo_closed T κ P hT hκ D2 hbal hM, hc, hf]
  apply List.map_congr_left
  intro ab _
  rw [cvSpec_perm h]

/-! ### fold labels -/

theorem relabel_cond (φ : F → G) (D : List (Obs L F K)) :
    (relabel φ D).map (·.cond) = D.map (·.cond) := by
  simp [relabel, List.map_map, Function.comp_def]

theorem relabel_fold (φ : F → G) (D : List (Obs L F K)) :
    (relabel φ D).map (·.fold) = (D.map (·.fold)).map φ := by
  simp [relabel, List.map_map, Function.comp_def]

theorem cell_relabel (φ : F → G) (hφ : Function.Injective φ) (D : List (Obs L F K))
    (c : L) (f : F) : cell (relabel φ D) c (φ f) = cell D c f := by
  unfold cell relabel
  rw [List.filter_map, List.map_map]
  simp only [Function.comp_def, hφ.eq_iff]

theorem Balanced.relabel {D : List (Obs L F K)} {R : Nat} (hb : Balanced D R) (φ : F → G)
    (hφ : Function.Injective φ) : Balanced (relabel φ D) R := by
  refine ⟨hb.1, ?_⟩
  intro c hc g hg
  rw [relabel_cond] at hc
  rw [relabel_fold] at hg
  obtain ⟨f, hf, rfl⟩ := List.mem_map.mp hg
  rw [cell_relabel φ hφ]
  exact hb.2 c hc f hf

/-- `np.unique` of the re-labelled folds is a re-ordering of the re-labelled `np.unique` -/
theorem folds_relabel_perm (φ : F → G) (hφ : Function.Injective φ) (l : List F) :
    (sortedDistinct (l.map φ)).Perm ((sortedDistinct l).map φ) := by
  apply (List.perm_ext_iff_of_nodup (sortedDistinct_nodup _)
    ((sortedDistinct_nodup l).map hφ)).mpr
  intro g
  rw [mem_sortedDistinct, List.mem_map, List.mem_map]
  constructor
  · rintro ⟨f, hf, rfl⟩
    exact ⟨f, mem_sortedDistinct.mpr hf, rfl⟩
  · rintro ⟨f, hf, rfl⟩
    exact ⟨f, mem_sortedDistinct.mp hf, rfl⟩

theorem cvSpec_relabel (φ : F → G) (hφ : Function.Injective φ) (D : List (Obs L F K))
    (T : (Nat → K) → (Nat → K)) (κ : (Nat → K) → (Nat → K) → K) (P : Nat) (a b : L) :
    cvSpec T κ P (relabel φ D) (sortedDistinct ((relabel φ D).map (·.fold))) a b
      = cvSpec T κ P D (sortedDistinct (D.map (·.fold))) a b := by
  rw [relabel_fold]
  have hp := folds_relabel_perm φ hφ (D.map (·.fold))
  unfold cvSpec pairAverage
  rw [offDiagSum_perm hp, offDiagSum_map φ hφ, hp.length_eq, List.length_map]
  unfold foldMean
  simp only [cell_relabel φ hφ]

theorem foldPrecSpec_relabel (φ : F → G) (hφ : Function.Injective φ) (D : List (Obs L F K))
    (T : (Nat → K) → (Nat → K)) (P : Nat) (Nmn : F → F → Nat → Nat → K)
    (Nmn' : G → G → Nat → Nat → K) (hN : ∀ m n, Nmn' (φ m) (φ n) = Nmn m n) (a b : L) :
    foldPrecSpec T P Nmn' (relabel φ D) (sortedDistinct ((relabel φ D).map (·.fold))) a b
      = foldPrecSpec T P Nmn D (sortedDistinct (D.map (·.fold))) a b := by
  rw [relabel_fold]
  have hp := folds_relabel_perm φ hφ (D.map (·.fold))
  unfold foldPrecSpec pairAverage
  rw [offDiagSum_perm hp, offDiagSum_map φ hφ, hp.length_eq, List.length_map]
  unfold foldMean
  simp only [cell_relabel φ hφ, hN]

theorem lofoAlgo_relabel (T : (Nat → K) → (Nat → K)) (κ : (Nat → K) → (Nat → K) → K) (P : Nat)
    (hT : MeanCommute T) (hκ : MeanLinear κ) (φ : F → G) (hφ : Function.Injective φ)
    {D : List (Obs L F K)} {R : Nat} (hbal : Balanced D R)
    (hM : 2 ≤ (sortedDistinct (D.map (·.fold))).length) :
    lofoAlgo T κ P (relabel φ D) = lofoAlgo T κ P D := by
  have hM' : 2 ≤ (sortedDistinct ((relabel φ D).map (·.fold))).length := by
    rw [relabel_fold, (folds_relabel_perm φ hφ _).length_eq, List.length_map]
    exact hM
  rw [lofoAlgo_closed T κ P hT hκ _ (hbal.relabel φ hφ) hM',
    lofoAlgo_closed T κ P hT hκ D hbal hM, relabel_cond]
  apply List.map_congr_left
  intro ab _
  rw [cvSpec_relabel φ hφ]

/-! ### channel order -/

theorem permCh_cond (σ : Nat → Nat) (D : List (Obs L F K)) :
    (permCh σ D).map (·.cond) = D.map (·.cond) := by
  simp [permCh, List.map_map, Function.comp_def]

theorem permCh_fold (σ : Nat → Nat) (D : List (Obs L F K)) :
    (permCh σ D).map (·.fold) = D.map (·.fold) := by
  simp [permCh, List.map_map, Function.comp_def]

theorem cell_permCh (σ : Nat → Nat) (D : List (Obs L F K)) (c : L) (f : F) :
    cell (permCh σ D) c f = (cell D c f).map (fun v => fun k => v (σ k)) := by
  unfold cell permCh
  rw [List.filter_map, List.map_map, List.map_map]
  rfl

theorem Balanced.permCh {D : List (Obs L F K)} {R : Nat} (hb : Balanced D R) (σ : Nat → Nat) :
    Balanced (permCh σ D) R := by
  refine ⟨hb.1, ?_⟩
  intro c hc f hf
  rw [permCh_cond] at hc
  rw [permCh_fold] at hf
  rw [cell_permCh, List.length_map]
  exact hb.2 c hc f hf

theorem kern_congr_bounded (P : Nat) {N N' : Nat → Nat → K}
    (h : ∀ k l, k < P → l < P → N k l = N' k l) (u v : Nat → K) :
    kern P N u v = kern P N' u v := by
  unfold kern
  apply sumR_congr; intro l hl
  congr 1
  apply sumR_congr; intro k hk
  rw [h k l hk hl]

theorem perm_range_lt {P : Nat} {σ : Nat → Nat}
    (hσ : ((List.range P).map σ).Perm (List.range P)) {k : Nat} (hk : k < P) : σ k < P := by
  have : σ k ∈ (List.range P).map σ := List.mem_map.mpr ⟨k, List.mem_range.mpr hk, rfl⟩
  exact List.mem_range.mp (hσ.mem_iff.mp this)

theorem foldMean_permCh (T : (Nat → K) → (Nat → K)) (σ : Nat → Nat)
    (hTσ : ∀ x : Nat → K, T (fun k => x (σ k)) = fun k => T x (σ k))
    (D : List (Obs L F K)) (c : L) (f : F) :
    foldMean T (permCh σ D) c f = fun k => foldMean T D c f (σ k) := by
  unfold foldMean
  rw [cell_permCh, meanVec_comp, hTσ]

/-- generic channel-permutation invariance: the transform commutes with the permutation and
    the kernel `κ'` on permuted patterns equals `κ` on the original ones -/
theorem lofoAlgo_permCh (T : (Nat → K) → (Nat → K)) (κ κ' : (Nat → K) → (Nat → K) → K) (P : Nat)
    (hT : MeanCommute T) (hκ : MeanLinear κ) (hκ' : MeanLinear κ') (σ : Nat → Nat)
    (hTσ : ∀ x : Nat → K, T (fun k => x (σ k)) = fun k => T x (σ k))
    (hκσ : ∀ u v : Nat → K, κ' (fun k => u (σ k)) (fun k => v (σ k)) = κ u v)
    {D : List (Obs L F K)} {R : Nat} (hbal : Balanced D R)
    (hM : 2 ≤ (sortedDistinct (D.map (·.fold))).length) :
    lofoAlgo T κ' P (permCh σ D) = lofoAlgo T κ P D := by
  rw [lofoAlgo_closed T κ' P hT hκ' _ (hbal.permCh σ) (by rw [permCh_fold]; exact hM),
    lofoAlgo_closed T κ P hT hκ D hbal hM, permCh_cond, permCh_fold]
  apply List.map_congr_left
  intro ab _
  congr 1
  have hfm : ∀ c f, foldMean T (permCh σ D) c f = fun k => foldMean T D c f (σ k) := by
    intro c f
    unfold foldMean
    rw [cell_permCh, meanVec_comp, hTσ]
  unfold cvSpec
  simp only [hfm, kdiff, hκσ]

end Rsa.CrossVal
