/- bridge between the two models of `RDMs.subsample` / `RDMs.subsample_pattern`:
   `Rsa.Core.Boot` (property C09, generic labels) and `Rsa.Core.Rdm` (property C10, the RDM
   container with its constructor checks).  Helper lemmas; the agreement theorems themselves are in
   `Rsa/Props/C09.lean`. -/
import Rsa.Lemmas.C09
import Rsa.Lemmas.C10Ops

set_option linter.unusedSectionVars false
set_option linter.unusedVariables false
set_option linter.unusedSimpArgs false

namespace Rsa.Boot

open Rsa.Rdm (Obj idxWhere idxWhereFrom selSubsample sortNat reindexVec matOf)

variable {α : Type} [Zero α]

/-- the C10 container seen as a C09 stack (object-level descriptors play no role in resampling) -/
def ofObj (o : Obj α) : Stack Rsa.Rdm.Lbl α :=
  { nCond := o.nCond, vecs := o.vecs, rdmDesc := o.rdesc, patDesc := o.pdesc }

/-- C10's scan `idxWhereFrom` is the filtered range, shifted by its start -/
theorem idxWhereFrom_eq_filter {β : Type} (p : β → Bool) (k : Nat) (l : List β) :
    idxWhereFrom p k l =
      ((List.range l.length).filter (fun j => match l[j]? with
        | some x => p x
        | none => false)).map (· + k) := by
  induction l generalizing k with
  | nil => simp [idxWhereFrom]
  | cons x xs ih =>
    rw [List.length_cons, List.range_succ_eq_map, List.filter_cons, List.filter_map]
    simp only [idxWhereFrom, List.getElem?_cons_zero, Function.comp_def,
      List.getElem?_cons_succ]
    rw [ih (k + 1)]
    have hshift : ∀ l' : List Nat, (l'.map (· + (k + 1))) = (l'.map Nat.succ).map (· + k) := by
      intro l'; simp [List.map_map, Function.comp_def]; intro a _; omega
    by_cases hx : p x = true
    · simp [hx, hshift]
    · have hx' : p x = false := by simpa using hx
      simp [hx', hshift]

/-- both models select the same positions of one value -/
theorem idxWhere_eq_positions (col : List Rsa.Rdm.Lbl) (v : Rsa.Rdm.Lbl) :
    idxWhere (fun x => x == v) col = positions col v := by
  unfold idxWhere positions
  rw [idxWhereFrom_eq_filter]
  simp only [Nat.add_zero, List.map_id']
  apply List.filter_congr
  intro j _
  cases h : col[j]? with
  | none => simp
  | some x => simp [beq_eq_decide]

theorem selSubsample_eq_rdmSelection (col vals : List Rsa.Rdm.Lbl) :
    selSubsample col vals = rdmSelection col vals := by
  unfold selSubsample rdmSelection
  congr 1
  funext v
  exact idxWhere_eq_positions col v

theorem sortNat_selSubsample_eq_patSelection (col vals : List Rsa.Rdm.Lbl) :
    sortNat (selSubsample col vals) = patSelection col vals := by
  unfold sortNat patSelection
  rw [selSubsample_eq_rdmSelection]
  rfl

/-- C10's `reindexVec` with a NaN diagonal is C09's `subVec` -/
theorem reindexVec_eq_subVec (n : Nat) (sel : List Nat) (v : List (Option α)) :
    reindexVec n Option.none sel v = subVec n sel v := rfl

/-- re-indexing with a default (C10) and by dropping (C09) agree on in-range selections -/
theorem rdmPick_eq_pick {β : Type} (d : β) (l : List β) (sel : List Nat)
    (h : ∀ i ∈ sel, i < l.length) : Rsa.Rdm.pick d l sel = pick l sel := by
  induction sel with
  | nil => simp [Rsa.Rdm.pick, pick]
  | cons i is ih =>
    have hi : i < l.length := h i List.mem_cons_self
    have his : ∀ i' ∈ is, i' < l.length := fun i' hi' => h i' (List.mem_cons_of_mem _ hi')
    have ih' := ih his
    simp only [Rsa.Rdm.pick, pick] at ih' ⊢
    simp only [List.getD_eq_getElem?_getD] at ih'
    simp [List.filterMap_cons, List.getElem?_eq_getElem hi, List.getD_eq_getElem?_getD, ih']

theorem descPick_eq_extract (d : Rsa.Rdm.Desc) (sel : List Nat) (n : Nat)
    (hd : ∀ kv ∈ d, kv.2.length = n) (h : ∀ i ∈ sel, i < n) :
    Rsa.Rdm.Desc.pick d sel = extract d sel := by
  unfold Rsa.Rdm.Desc.pick extract
  apply List.map_congr_left
  intro kv hkv
  rw [rdmPick_eq_pick _ _ _ (fun i hi => by rw [hd kv hkv]; exact h i hi)]

/-- the constructor adds no `index` column when there is one -/
theorem addIndex_of_has (d : Rsa.Rdm.Desc) (n : Nat) (h : d.has "index" = true) :
    d.addIndex n = d := by
  simp [Rsa.Rdm.Desc.addIndex, h]

theorem has_extract (d : Rsa.Rdm.Desc) (sel : List Nat) (k : String) :
    Rsa.Rdm.Desc.has (extract d sel) k = d.has k := by
  simp [Rsa.Rdm.Desc.has, Rsa.Rdm.Desc.keys, extract, List.map_map, Function.comp_def]

end Rsa.Boot
