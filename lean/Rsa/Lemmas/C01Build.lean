/- helper lemmas for C01: descriptor propagation, `reorderList` indexing, time selection -/
import Mathlib.Data.List.Basic
import Mathlib.Data.List.Nodup
import Rsa.Core.Calc
import Rsa.Lemmas.C01Label
import Rsa.Lemmas.C01Reorder

set_option linter.unusedSectionVars false
set_option linter.unusedVariables false

namespace Rsa.Calc

open Rsa

theorem allSome_eq_some {β : Type} {l : List (Option β)} {r : List β} :
    allSome l = some r ↔ l = r.map some := by
  induction l generalizing r with
  | nil => cases r <;> simp [allSome]
  | cons o os ih =>
    cases o with
    | none => cases r <;> simp [allSome]
    | some x =>
      cases r with
      | nil => simp [allSome]
      | cons y ys =>
        simp only [allSome, Option.map_eq_some_iff, List.cons.injEq, List.map_cons,
          Option.some.injEq]
        constructor
        · rintro ⟨a, ha, rfl, rfl⟩
          exact ⟨rfl, ih.mp ha⟩
        · rintro ⟨rfl, h⟩
          exact ⟨ys, ih.mpr h, rfl, rfl⟩

section prop
variable {L : Type} [DecidableEq L] {D : Type} [DecidableEq D]

/-- `sharedValue` returns `d` only if every observation labelled `u` carries `d` -/
theorem sharedValue_sound {lab : List L} {dv : List D} {u : L} {d : D}
    (h : sharedValue lab dv u = some d) : ∀ p ∈ lab.zip dv, p.1 = u → p.2 = d := by
  unfold sharedValue at h
  intro p hp hpu
  have hmem : p.2 ∈ ((lab.zip dv).filter (fun p => decide (p.1 = u))).map (fun p => p.2) :=
    List.mem_map.mpr ⟨p, List.mem_filter.mpr ⟨hp, by simpa using hpu⟩, rfl⟩
  generalize ((lab.zip dv).filter (fun p => decide (p.1 = u))).map (fun p => p.2) = vals at h hmem
  cases vals with
  | nil => simp at hmem
  | cons e es =>
    simp only at h
    split at h
    · rename_i hall
      simp only [Option.some.injEq] at h
      subst h
      rcases List.mem_cons.mp hmem with h1 | h1
      · exact h1
      · have := List.all_eq_true.mp hall _ h1
        simpa using this
    · simp at h

/-- … and returns a value whenever the condition occurs and is internally constant -/
theorem sharedValue_complete {lab : List L} {dv : List D} {u : L} {d : D}
    (hex : ∃ p ∈ lab.zip dv, p.1 = u) (hall : ∀ p ∈ lab.zip dv, p.1 = u → p.2 = d) :
    sharedValue lab dv u = some d := by
  unfold sharedValue
  have hvals : ∀ e ∈ ((lab.zip dv).filter (fun p => decide (p.1 = u))).map (fun p => p.2), e = d := by
    intro e he
    obtain ⟨p, hp, rfl⟩ := List.mem_map.mp he
    have := List.mem_filter.mp hp
    exact hall p this.1 (by simpa using this.2)
  have hne : ((lab.zip dv).filter (fun p => decide (p.1 = u))).map (fun p => p.2) ≠ [] := by
    obtain ⟨p, hp, hpu⟩ := hex
    intro h0
    have : p.2 ∈ ((lab.zip dv).filter (fun p => decide (p.1 = u))).map (fun p => p.2) :=
      List.mem_map.mpr ⟨p, List.mem_filter.mpr ⟨hp, by simpa using hpu⟩, rfl⟩
    rw [h0] at this
    simp at this
  generalize ((lab.zip dv).filter (fun p => decide (p.1 = u))).map (fun p => p.2) = vals at hvals hne
  cases vals with
  | nil => exact absurd rfl hne
  | cons e es =>
    have he : e = d := hvals e List.mem_cons_self
    subst he
    have : es.all (fun x => decide (x = e)) = true :=
      List.all_eq_true.mpr (fun x hx => by simpa using hvals x (List.mem_cons_of_mem _ hx))
    simp [this]

theorem propagate_eq_some {lab : List L} {dv : List D} {r : List D} :
    propagate lab dv = some r ↔ (uniqueFirst lab).map (sharedValue lab dv) = r.map some := by
  unfold propagate
  exact allSome_eq_some

end prop

/-- indexing into a reordered list -/
theorem reorderList_getElem? {β : Type} (ord : List Nat) (l : List β)
    (hv : ∀ j ∈ ord, j < l.length) (i : Nat) :
    (reorderList ord l)[i]? = ord[i]?.bind (fun j => l[j]?) := by
  unfold reorderList
  induction ord generalizing i with
  | nil => simp
  | cons j js ih =>
    have hj : j < l.length := hv j List.mem_cons_self
    have ih' := ih (fun k hk => hv k (List.mem_cons_of_mem _ hk))
    rw [List.filterMap_cons, List.getElem?_eq_getElem hj]
    cases i with
    | zero => simp [List.getElem?_eq_getElem hj]
    | succ i' => simpa using ih' i'

section time
variable {τ : Type} [DecidableEq τ]

/-- with distinct time values, the frame of value `times[t]` selects exactly index `t` -/
theorem selTimes_of_nodup {times : List τ} (hnd : times.Nodup) {v : τ} {t : Nat}
    (ht : times[t]? = some v) : selTimes times v = [t] := by
  unfold selTimes
  have hsub : (times.zipIdx.filter (fun p => decide (p.1 = v))).Nodup :=
    (zipIdx_nodup times).sublist List.filter_sublist
  have hall : ∀ p ∈ times.zipIdx.filter (fun p => decide (p.1 = v)), p = (v, t) := by
    intro p hp
    obtain ⟨h1, h2⟩ := List.mem_filter.mp hp
    have h2' : p.1 = v := by simpa using h2
    have e := List.mem_zipIdx_iff_getElem?.mp h1
    rw [h2'] at e
    obtain ⟨hlt, e1⟩ := List.getElem?_eq_some_iff.mp e
    obtain ⟨hlt', e2⟩ := List.getElem?_eq_some_iff.mp ht
    have : p.2 = t := (hnd.getElem_inj_iff).mp (by rw [e1, e2])
    exact Prod.ext h2' this
  have hmem : (v, t) ∈ times.zipIdx.filter (fun p => decide (p.1 = v)) :=
    List.mem_filter.mpr ⟨List.mem_zipIdx_iff_getElem?.mpr ht, by simp⟩
  generalize times.zipIdx.filter (fun p => decide (p.1 = v)) = F at hsub hall hmem
  match F, hsub, hall, hmem with
  | [], _, _, hmem => simp at hmem
  | [x], _, hall, _ => simp [hall x List.mem_cons_self]
  | x :: y :: rest, hsub, hall, _ =>
    have hx := hall x List.mem_cons_self
    have hy := hall y (List.mem_cons_of_mem _ List.mem_cons_self)
    rw [List.nodup_cons] at hsub
    exact absurd (by rw [hx, hy]; exact List.mem_cons_self) hsub.1

/-- the time points of a bin: exactly those whose descriptor value lies in the bin -/
theorem mem_selBin {times : List τ} {bin : List τ} {t : Nat} :
    t ∈ selBin times bin ↔ ∃ v, times[t]? = some v ∧ v ∈ bin := by
  unfold selBin
  simp only [List.mem_map, List.mem_filter, decide_eq_true_eq, Prod.exists,
    exists_eq_right]
  constructor
  · rintro ⟨v, h1, h2⟩
    exact ⟨v, List.mem_zipIdx_iff_getElem?.mp h1, h2⟩
  · rintro ⟨v, h1, h2⟩
    exact ⟨v, List.mem_zipIdx_iff_getElem?.mpr h1, h2⟩

end time

end Rsa.Calc
