/- helper lemmas for C01 (round 5): how the four formulas respond to a rescaling of the data -/
import Mathlib.Algebra.BigOperators.Group.Finset.Basic
import Mathlib.Algebra.BigOperators.Ring.Finset
import Mathlib.Algebra.BigOperators.Field
import Mathlib.Algebra.Order.Field.Basic
import Mathlib.Tactic.Ring
import Mathlib.Tactic.FieldSimp
import Mathlib.Tactic.Linarith
import Mathlib.Tactic.Positivity
import Rsa.Lemmas.C01Calc

set_option linter.unusedSectionVars false
set_option linter.unusedVariables false

namespace Rsa.Calc

open Rsa

section scale
variable {K : Type} [Field K] [LinearOrder K] [IsStrictOrderedRing K]

/-- the pattern `x` with every channel multiplied by `s` (data recorded in another unit) -/
def smulRow (s : K) (x : Row K) : Row K := fun c => s * x c

theorem sumTo_mul_left (P : Nat) (s : K) (f : Nat → K) :
    sumTo P (fun c => s * f c) = s * sumTo P f := by
  rw [sumTo_eq_sum, sumTo_eq_sum, Finset.mul_sum]

theorem rowMean_smul (P : Nat) (s : K) (x : Row K) :
    rowMean P (smulRow s x) = s * rowMean P x := by
  unfold rowMean smulRow
  rw [sumTo_mul_left, mul_div_assoc]

theorem centre_smul (P : Nat) (s : K) (x : Row K) :
    centre P (smulRow s x) = smulRow s (centre P x) := by
  funext c
  simp only [centre, rowMean_smul, smulRow]
  ring

theorem dotP_smul (P : Nat) (s t : K) (x y : Row K) :
    dotP P (smulRow s x) (smulRow t y) = s * t * dotP P x y := by
  unfold dotP smulRow
  rw [← sumTo_mul_left]
  exact sumTo_congr (fun i _ => by ring)

theorem euclidSpec_smul (P : Nat) (s : K) (a b : Row K) :
    euclidSpec P (smulRow s a) (smulRow s b) = s * s * euclidSpec P a b := by
  unfold euclidSpec smulRow
  rw [← mul_div_assoc, ← sumTo_mul_left]
  congr 1
  exact sumTo_congr (fun i _ => by ring)

theorem mahalSpec_smul (P : Nat) (s t : K) (N : Nat → Nat → K) (a b : Row K) :
    mahalSpec P (fun i j => t * N i j) (smulRow s a) (smulRow s b) =
      t * (s * s) * mahalSpec P N a b := by
  unfold mahalSpec smulRow
  rw [← mul_div_assoc, ← sumTo_mul_left]
  congr 1
  apply sumTo_congr
  intro i _
  rw [← sumTo_mul_left]
  exact sumTo_congr (fun j _ => by ring)

theorem covP_smul (P : Nat) (s : K) (a b : Row K) :
    covP P (smulRow s a) (smulRow s b) = s * s * covP P a b := by
  rw [covP_eq, covP_eq, centre_smul, centre_smul, dotP_smul, mul_div_assoc]

theorem covP_self_nonneg (P : Nat) (a : Row K) : 0 ≤ covP P a a := by
  rw [covP_eq]
  exact div_nonneg (dotP_self_nonneg P _) (Nat.cast_nonneg P)

/-- a non-negative root is positively homogeneous: `sqrt (s² v) = s · sqrt v` -/
theorem sqrt_scale (sqrt : K → K) (hs : IsSqrt sqrt) (s v : K) (hs0 : 0 ≤ s) (hv : 0 ≤ v) :
    sqrt (s * s * v) = s * sqrt v := by
  obtain ⟨r0, r⟩ := hs v hv
  obtain ⟨q0, q⟩ := hs (s * s * v) (mul_nonneg (mul_nonneg hs0 hs0) hv)
  have h3 : (sqrt (s * s * v)) ^ 2 = (s * sqrt v) ^ 2 := by
    have e1 : (sqrt (s * s * v)) ^ 2 = sqrt (s * s * v) * sqrt (s * s * v) := by ring
    have e2 : (s * sqrt v) ^ 2 = s * s * (sqrt v * sqrt v) := by ring
    rw [e1, e2, q, r]
  exact (sq_eq_sq₀ q0 (mul_nonneg hs0 r0)).mp h3

/-- Pearson's r does not see the unit of the data -/
theorem corrSpec_smul (P : Nat) (sqrt : K → K) (hs : IsSqrt sqrt) (s : K) (hs0 : 0 < s)
    (a b : Row K) :
    corrSpec P sqrt (smulRow s a) (smulRow s b) = corrSpec P sqrt a b := by
  unfold corrSpec
  rw [covP_smul, covP_smul, covP_smul,
    sqrt_scale sqrt hs s _ hs0.le (covP_self_nonneg P a),
    sqrt_scale sqrt hs s _ hs0.le (covP_self_nonneg P b)]
  congr 1
  have hne : s ≠ 0 := hs0.ne'
  rw [show s * sqrt (covP P a a) * (s * sqrt (covP P b b)) =
    s * s * (sqrt (covP P a a) * sqrt (covP P b b)) by ring]
  exact mul_div_mul_left _ _ (mul_ne_zero hne hne)

theorem rateSpec_smul (s pl pw : K) (x : Row K) :
    rateSpec (s * pl) pw (smulRow s x) = smulRow s (rateSpec pl pw x) := by
  funext c
  simp only [rateSpec, smulRow]
  ring

/-- the symmetrised Poisson KL divergence is homogeneous of degree 1 in the rates, for every
    `lg` whose differences do not see a common factor (as `log` on positive numbers) -/
theorem poissonSpec_smul (P : Nat) (lg : K → K) (s : K) (la lb : Row K)
    (hlg : ∀ c, c < P → lg (s * la c) - lg (s * lb c) = lg (la c) - lg (lb c)) :
    poissonSpec P lg (smulRow s la) (smulRow s lb) = s * poissonSpec P lg la lb := by
  unfold poissonSpec smulRow
  rw [← mul_div_assoc, ← sumTo_mul_left]
  congr 1
  apply sumTo_congr
  intro c hc
  rw [hlg c hc]
  ring

end scale

end Rsa.Calc
