/- helper lemmas for property C06 (sums, contrasts, the condensed index, counting) -/
import Mathlib.Algebra.BigOperators.Group.Finset.Basic
import Mathlib.Algebra.BigOperators.Ring.Finset
import Mathlib.Algebra.Order.Field.Basic
import Mathlib.Tactic.Linarith
import Mathlib.Tactic.FieldSimp
import Mathlib.Tactic.Ring
import Rsa.Core.Stats
import Rsa.Lemmas.Tri

set_option linter.unusedSectionVars false
set_option linter.unusedVariables false
set_option linter.unusedSimpArgs false

namespace Rsa.Lemmas.C06

open Rsa Rsa.Stats

/-! ### sums -/

section sums
variable {M : Type} [AddCommMonoid M]

theorem fsum_append_singleton (l : List M) (a : M) : fsum (l ++ [a]) = fsum l + a := by
  simp [fsum, List.foldl_append]

theorem sumRange_eq (n : Nat) (f : Nat → M) : sumRange n f = ∑ k ∈ Finset.range n, f k := by
  induction n with
  | zero => simp [sumRange, fsum]
  | succ n ih =>
    rw [Finset.sum_range_succ, ← ih]
    simp [sumRange, List.range_succ, fsum_append_singleton]

theorem fsum_eq_sum (l : List M) : fsum l = l.sum := by
  induction l using List.reverseRecOn with
  | nil => simp [fsum]
  | append_singleton l a ih => rw [fsum_append_singleton, ih]; simp

end sums

/-! ### pairs -/

theorem pairsOf_rel {β : Type} (R : β → β → Prop) :
    ∀ (l : List β), l.Pairwise R → ∀ p ∈ pairsOf l, R p.1 p.2
  | [], _, p, hp => by simp [pairsOf] at hp
  | x :: xs, h, p, hp => by
    rw [List.pairwise_cons] at h
    simp only [pairsOf, List.mem_append, List.mem_map] at hp
    rcases hp with ⟨y, hy, rfl⟩ | hp
    · exact h.1 y hy
    · exact pairsOf_rel R xs h.2 p hp

theorem mem_pairs {n : Nat} {p : Nat × Nat} (h : p ∈ pairs n) : p.1 < p.2 ∧ p.2 < n := by
  refine ⟨pairsOf_rel (· < ·) _ List.pairwise_lt_range p h, ?_⟩
  have := (mem_pairsOf h).2
  simpa using this

/-- the entry of `pairsOf (range' s k)` at the condensed index -/
theorem pairsOf_range'_getElem? : ∀ (k s a b : Nat), a < b → b < k →
    (pairsOf (List.range' s k))[triIdx k a b]? = some (s + a, s + b)
  | 0, _, _, _, _, hb => by omega
  | k + 1, s, 0, b, hab, hb => by
    have h1 : triIdx (k + 1) 0 b = b - 1 := by simp [triIdx]
    rw [h1, List.range'_succ, pairsOf]
    rw [List.getElem?_append_left (by simp; omega)]
    simp only [List.getElem?_map, List.getElem?_range', Nat.add_zero]
    have : b - 1 < k := by omega
    simp [this]
    omega
  | k + 1, s, a + 1, b, hab, hb => by
    have ih := pairsOf_range'_getElem? k (s + 1) a (b - 1) (by omega) (by omega)
    have hT : (a + 1) * (a + 1 + 1) / 2 = a * (a + 1) / 2 + (a + 1) := by
      have : (a + 1) * (a + 1 + 1) = a * (a + 1) + (a + 1) * 2 := by ring
      rw [this, Nat.add_mul_div_right _ _ (by norm_num : 0 < 2)]
    have hle : a * (a + 1) / 2 ≤ a * k := by
      calc a * (a + 1) / 2 ≤ a * (a + 1) := Nat.div_le_self _ _
        _ ≤ a * k := Nat.mul_le_mul_left _ (by omega)
    have hidx : triIdx (k + 1) (a + 1) b = k + triIdx k a (b - 1) := by
      unfold triIdx
      rw [hT]
      have e1 : (a + 1) * (k + 1) = a * k + a + k + 1 := by ring
      rw [e1]
      generalize a * (a + 1) / 2 = T at *
      generalize a * k = X at *
      omega
    rw [hidx, List.range'_succ, pairsOf]
    rw [List.getElem?_append_right (by simp)]
    simp only [List.length_map, List.length_range', Nat.add_sub_cancel_left]
    rw [ih]
    congr 1
    ext <;> simp <;> omega

theorem pairs_getElem?_triIdx {n i j : Nat} (hij : i < j) (hj : j < n) :
    (pairs n)[triIdx n i j]? = some (i, j) := by
  have := pairsOf_range'_getElem? n 0 i j hij hj
  simpa [pairs, List.range_eq_range'] using this

/-! ### contrasts -/

section field
variable {K : Type} [Field K] [LinearOrder K] [IsStrictOrderedRing K]

theorem contrastEntry_eq (p : Nat × Nat) (h : p.1 ≠ p.2) (k : Nat) :
    (contrastEntry p k : K) = (if k = p.1 then 1 else 0) - (if k = p.2 then 1 else 0) := by
  unfold contrastEntry
  by_cases h1 : k = p.1
  · have h2 : ¬ k = p.2 := fun h2 => h (h1 ▸ h2)
    simp [h1, h]
  · by_cases h2 : k = p.2
    · subst h2; simp [Ne.symm h]
    · simp [h1, h2]

/-- `(C V Cᵀ)_pp = V_ii + V_jj - V_ij - V_ji` for the contrast row of `p = (i, j)` -/
theorem quadForm_contrast (m : Nat) (V : Nat → Nat → K) (p : Nat × Nat)
    (h1 : p.1 < m) (h2 : p.2 < m) (hne : p.1 ≠ p.2) :
    quadForm m (contrastEntry p) V = V p.1 p.1 + V p.2 p.2 - V p.1 p.2 - V p.2 p.1 := by
  simp only [quadForm, sumRange_eq, contrastEntry_eq p hne]
  simp only [sub_mul, mul_sub, Finset.sum_sub_distrib, ite_mul, mul_ite, one_mul, mul_one,
    zero_mul, mul_zero, Finset.sum_ite_eq', Finset.mem_range, h1, h2, if_true]
  ring

/-- sum of the contrast row against a vector: `e_i - e_j` -/
theorem contrast_dot (m : Nat) (e : Nat → K) (p : Nat × Nat)
    (h1 : p.1 < m) (h2 : p.2 < m) (hne : p.1 ≠ p.2) :
    sumRange m (fun k => contrastEntry p k * e k) = e p.1 - e p.2 := by
  simp only [sumRange_eq, contrastEntry_eq p hne]
  simp only [sub_mul, Finset.sum_sub_distrib, ite_mul, one_mul, zero_mul, Finset.sum_ite_eq',
    Finset.mem_range, h1, h2, if_true]

end field

section order
variable {K : Type} [Field K] [LinearOrder K] [IsStrictOrderedRing K]

theorem absG_eq_abs (t : K) : absG t = |t| := by
  simp [absG, abs_eq_max_neg]

/-! ### the formula leaves unfolded (regenerated from the source each run) -/

open Rsa.Gen.C06 in
theorem pTwo_def (F : K → K) (t : K) : pTwo F t = 2 * (1 - F (absG t)) := by
  simp [pTwo, pTwoSidedPair]

open Rsa.Gen.C06 in
theorem pTwoNc_def (F : K → K) (t : K) : pTwoNc F t = 2 * (1 - F (absG t)) := by
  simp [pTwoNc, pTwoSidedNc]

open Rsa.Gen.C06 in
theorem pOne_def (F : K → K) (t : K) : pOne F t = 1 - F t := by
  simp [pOne, pOneSided]

theorem tStat_def [HasSqrt K] (eps eff var : K) :
    tStat eps eff var = eff / HasSqrt.sqrt (max var eps) := rfl

theorem tStatPair_def [HasSqrt K] (eps eff var : K) : tStatPair eps eff var = tStat eps eff var := rfl

theorem tStatNc_def [HasSqrt K] (eps eff c var : K) :
    tStatNc eps eff c var = tStat eps (eff - c) var := rfl

open Rsa.Gen.C06 in
theorem bootPairP_def (N lt eq : Nat) :
    bootPairP (α := K) N lt eq
      = ((N : K) - 1) / N * (min ((lt : K) / ((N : K) - eq)) (1 - (lt : K) / ((N : K) - eq)) * 2) + 1 / N := by
  simp [bootPairP, bootShrink, bootTwoSided, bootProp]

open Rsa.Gen.C06 in
theorem bootZeroSingle_def (c n : K) : bootZeroSingle c n = min ((c + 1) / n) 1 := by
  simp [bootZeroSingle]

end order

theorem vecToMat_symm {β : Type} (n : Nat) (d z : β) (v : List β) (i j : Nat) :
    vecToMat n d z v i j = vecToMat n d z v j i := by
  unfold vecToMat
  rcases Nat.lt_trichotomy i j with h | h | h
  · have h1 : ¬ i = j := by omega
    have h2 : ¬ j = i := by omega
    have h3 : ¬ j < i := by omega
    simp [h1, h2, h3, h]
  · subst h; rfl
  · have h1 : ¬ i = j := by omega
    have h2 : ¬ j = i := by omega
    have h3 : ¬ i < j := by omega
    simp [h1, h2, h3, h]

/-! ### counting -/

theorem countRows_trichotomy {β : Type} (rows : List β) (p1 p2 p3 : β → Bool)
    (h : ∀ r ∈ rows, (p1 r = true ∧ p2 r = false ∧ p3 r = false) ∨
      (p1 r = false ∧ p2 r = true ∧ p3 r = false) ∨ (p1 r = false ∧ p2 r = false ∧ p3 r = true)) :
    countRows rows p1 + countRows rows p2 + countRows rows p3 = rows.length := by
  induction rows with
  | nil => simp [countRows]
  | cons x xs ih =>
    have ih' := ih (fun r hr => h r (List.mem_cons_of_mem _ hr))
    simp only [countRows] at ih' ⊢
    rcases h x List.mem_cons_self with ⟨a, b, c⟩ | ⟨a, b, c⟩ | ⟨a, b, c⟩ <;>
      simp [List.filter_cons, a, b, c] <;> omega

theorem countRows_congr {β : Type} (rows : List β) (p q : β → Bool)
    (h : ∀ r ∈ rows, p r = q r) : countRows rows p = countRows rows q := by
  unfold countRows
  rw [List.filter_congr h]

end Rsa.Lemmas.C06
