/-
  Helper lemmas for C07, part 2: the pooled RDM of `pool_rdm` maximises the summed cosine /
  correlation with the data RDMs (Cauchy–Schwarz).
-/
import Rsa.Lemmas.C07Vec

set_option linter.unusedSectionVars false
set_option linter.unusedVariables false
set_option linter.unusedSimpArgs false

namespace Rsa.Ceiling
open Rsa Rsa.Compare

theorem poolD_cosine (rows : List (List ℝ)) :
    poolD .cosine rows = meanRows (rows.map (applyD cosF)) := rfl

theorem poolD_corr (rows : List (List ℝ)) :
    poolD .corr rows = applyD shiftF (meanRows (rows.map (applyD corrF))) := rfl

theorem map_applyD_length (f : List ℝ → ℝ → ℝ) (p : ℕ) (rows : List (List ℝ))
    (h : ∀ r ∈ rows, r.length = p) : ∀ w ∈ rows.map (applyD f), w.length = p := by
  intro w hw
  obtain ⟨r, hr, rfl⟩ := List.mem_map.mp hw
  rw [applyD_length]; exact h r hr

/-- the inner product of a vector with the cosine pool is the mean of its inner products with
    the RMS-normalised data RDMs -/
theorem dot_poolD_cosine (c : List ℝ) (p : ℕ) (rows : List (List ℝ)) (hne : rows ≠ [])
    (hlen : ∀ r ∈ rows, r.length = p) :
    dot c (poolD .cosine rows) = (rows.map (fun r => dot c r / rms r)).sum / (rows.length : ℝ) := by
  rw [poolD_cosine, meanRows_eq p _ (by simpa using hne) (map_applyD_length cosF p rows hlen),
    dot_map_div_right, dot_vsumP c p _ (map_applyD_length cosF p rows hlen), List.length_map,
    List.map_map]
  congr 2
  apply List.map_congr_left
  intro r _
  simp only [Function.comp_def, applyD_cosF, dot_map_div_right]

/-- one cosine in terms of the RMS-normalised inner product (a zero RDM gives 0 on both sides) -/
theorem cosine_eq_div_rms {c r : List ℝ} {p : ℕ} (hr : r.length = p) (hc : 0 < dot c c) :
    cosine c r = (dot c r / rms r) / (Real.sqrt p * Real.sqrt (dot c c)) := by
  by_cases hrr : 0 < dot r r
  · rw [cosine_pos_def hc hrr, rms_eq, hr, Real.sqrt_div hrr.le]
    have hp : 0 < (p : ℝ) := by
      have : r ≠ [] := by rintro rfl; simp at hrr
      have : 0 < r.length := List.length_pos_iff.mpr this
      rw [hr] at this; exact_mod_cast this
    have h1 := (Real.sqrt_pos.mpr hp).ne'
    have h2 := (Real.sqrt_pos.mpr hc).ne'
    have h3 := (Real.sqrt_pos.mpr hrr).ne'
    field_simp
  · have hz : dot r r = 0 := le_antisymm (not_lt.mp hrr) (dot_self_nonneg r)
    have h0 : rms r = 0 := by rw [rms_eq, hz]; simp
    rw [h0, div_zero, zero_div, cosine_eq, if_neg]
    rintro ⟨_, h2⟩
    exact hrr (Real.sqrt_pos.mp h2)

/-- `mean_sim_eq_sim_to_pool` (sum form): the summed cosine of any non-zero candidate with the data
    RDMs is, up to the constant `n/√p`, its normalised inner product with the pooled RDM -/
theorem sum_cosine_eq (c : List ℝ) (p : ℕ) (rows : List (List ℝ)) (hne : rows ≠ [])
    (hlen : ∀ r ∈ rows, r.length = p) (hc : 0 < dot c c) :
    (rows.map (cosine c)).sum =
      (rows.length : ℝ) * dot c (poolD .cosine rows) / (Real.sqrt p * Real.sqrt (dot c c)) := by
  rw [dot_poolD_cosine c p rows hne hlen]
  have hn : (rows.length : ℝ) ≠ 0 := by
    have : rows.length ≠ 0 := fun h => hne (List.eq_nil_of_length_eq_zero h)
    exact_mod_cast this
  rw [mul_div_cancel₀ _ hn]
  have : rows.map (cosine c) =
      (rows.map (fun r => dot c r / rms r)).map (· / (Real.sqrt p * Real.sqrt (dot c c))) := by
    rw [List.map_map]
    apply List.map_congr_left
    intro r hr
    simp only [Function.comp_def]
    exact cosine_eq_div_rms (hlen r hr) hc
  rw [this, sum_map_div]

theorem sum_cosine_zero (c : List ℝ) (rows : List (List ℝ)) (hc : ¬ 0 < dot c c) :
    (rows.map (cosine c)).sum = 0 := by
  have : ∀ r ∈ rows, cosine c r = 0 := by
    intro r _
    rw [cosine_eq, if_neg]
    rintro ⟨h1, _⟩
    exact hc (Real.sqrt_pos.mp h1)
  rw [List.map_congr_left this]
  simp

theorem dot_le_sqrt_mul (x y : List ℝ) : dot x y ≤ Real.sqrt (dot x x) * Real.sqrt (dot y y) := by
  rw [← Real.sqrt_mul (dot_self_nonneg x)]
  apply Real.le_sqrt_of_sq_le
  rw [sq]; exact dot_sq_le x y

/-- **optimality of the cosine pool**: no candidate has a larger summed (hence mean) cosine
    similarity with the data RDMs than the pooled RDM -/
theorem sum_cosine_le_pool (c : List ℝ) (p : ℕ) (rows : List (List ℝ)) (hne : rows ≠ [])
    (hlen : ∀ r ∈ rows, r.length = p) :
    (rows.map (cosine c)).sum ≤ (rows.map (cosine (poolD .cosine rows))).sum := by
  set P := poolD .cosine rows with hP
  have hn : 0 ≤ (rows.length : ℝ) := Nat.cast_nonneg _
  have hsp : 0 ≤ Real.sqrt p := Real.sqrt_nonneg _
  -- the pool's own score
  have hpool : 0 < dot P P →
      (rows.map (cosine P)).sum = (rows.length : ℝ) * Real.sqrt (dot P P) / Real.sqrt p := by
    intro hPP
    rw [sum_cosine_eq P p rows hne hlen hPP, ← hP]
    have h2 := (Real.sqrt_pos.mpr hPP).ne'
    by_cases h1 : Real.sqrt (p : ℝ) = 0
    · simp [h1]
    · field_simp
      rw [Real.sq_sqrt hPP.le]
  by_cases hc : 0 < dot c c
  · rw [sum_cosine_eq c p rows hne hlen hc, ← hP]
    by_cases hPP : 0 < dot P P
    · rw [hpool hPP]
      have hcs := dot_le_sqrt_mul c P
      have h2 := Real.sqrt_pos.mpr hc
      by_cases h1 : Real.sqrt (p : ℝ) = 0
      · simp [h1]
      · have h1' : 0 < Real.sqrt (p : ℝ) := lt_of_le_of_ne hsp (Ne.symm h1)
        rw [div_le_div_iff₀ (mul_pos h1' h2) h1']
        have : (rows.length : ℝ) * dot c P * Real.sqrt p ≤
            (rows.length : ℝ) * (Real.sqrt (dot c c) * Real.sqrt (dot P P)) * Real.sqrt p :=
          mul_le_mul_of_nonneg_right (mul_le_mul_of_nonneg_left hcs hn) hsp
        nlinarith
    · have hz : dot P P = 0 := le_antisymm (not_lt.mp hPP) (dot_self_nonneg P)
      have hcp : dot c P = 0 := by
        have := dot_sq_le c P
        rw [hz, mul_zero] at this
        nlinarith [mul_self_nonneg (dot c P)]
      rw [hcp, sum_cosine_zero P rows hPP]
      simp
  · rw [sum_cosine_zero c rows hc]
    by_cases hPP : 0 < dot P P
    · rw [hpool hPP]
      exact div_nonneg (mul_nonneg hn (Real.sqrt_nonneg _)) hsp
    · rw [sum_cosine_zero P rows hPP]

/-! ### correlation: the same on centred vectors -/

theorem map_center_length (p : ℕ) (rows : List (List ℝ)) (h : ∀ r ∈ rows, r.length = p) :
    ∀ r ∈ rows.map center, r.length = p := by
  intro w hw
  obtain ⟨r, hr, rfl⟩ := List.mem_map.mp hw
  rw [center_length]; exact h r hr

/-- the mean of the cosine pool of mean-free vectors is zero -/
theorem mean_poolD_cosine_centered (p : ℕ) (rows : List (List ℝ)) (hne : rows ≠ [])
    (hlen : ∀ r ∈ rows, r.length = p) : mean (poolD .cosine (rows.map center)) = 0 := by
  have hl := map_center_length p rows hlen
  have hl' := map_applyD_length cosF p _ hl
  rw [poolD_cosine, meanRows_eq p _ (by simpa using hne) hl']
  unfold mean
  rw [sum_map_div, sum_vsumP p _ hl']
  have : (((rows.map center).map (applyD cosF)).map List.sum).sum = 0 := by
    apply List.sum_eq_zero
    intro x hx
    simp only [List.map_map, List.mem_map, Function.comp_def] at hx
    obtain ⟨r, _, rfl⟩ := hx
    simp only [applyD_cosF, sum_map_div, sum_center, zero_div]
  rw [this]
  simp

/-- after mean removal the correlation pool is the cosine pool of the mean-removed data: the
    final subtraction of the minimum is immaterial -/
theorem center_poolD_corr (p : ℕ) (rows : List (List ℝ)) (hne : rows ≠ [])
    (hlen : ∀ r ∈ rows, r.length = p) :
    center (poolD .corr rows) = poolD .cosine (rows.map center) := by
  rw [poolD_corr]
  have h1 : rows.map (applyD corrF) = (rows.map center).map (applyD cosF) := by
    rw [List.map_map]
    apply List.map_congr_left
    intro r _
    exact applyD_corrF r
  rw [h1, ← poolD_cosine]
  unfold applyD shiftF Rsa.Gen.C07.corrShift
  rw [center_map_sub_const]
  exact center_of_mean_zero _ (mean_poolD_cosine_centered p rows hne hlen)

theorem corr_poolD_corr (p : ℕ) (rows : List (List ℝ)) (hne : rows ≠ [])
    (hlen : ∀ r ∈ rows, r.length = p) (y : List ℝ) :
    corr (poolD .corr rows) y = cosine (poolD .cosine (rows.map center)) (center y) := by
  unfold corr
  rw [center_poolD_corr p rows hne hlen]

/-- **optimality of the correlation pool** -/
theorem sum_corr_le_pool (c : List ℝ) (p : ℕ) (rows : List (List ℝ)) (hne : rows ≠ [])
    (hlen : ∀ r ∈ rows, r.length = p) :
    (rows.map (corr c)).sum ≤ (rows.map (corr (poolD .corr rows))).sum := by
  have h := sum_cosine_le_pool (center c) p (rows.map center) (by simpa using hne)
    (map_center_length p rows hlen)
  rw [List.map_map, List.map_map] at h
  have e1 : rows.map (corr c) = rows.map (cosine (center c) ∘ center) := by
    apply List.map_congr_left; intro r _; rfl
  have e2 : rows.map (corr (poolD .corr rows)) =
      rows.map (cosine (poolD .cosine (rows.map center)) ∘ center) := by
    apply List.map_congr_left; intro r _
    exact corr_poolD_corr p rows hne hlen r
  rw [e1, e2]
  exact h

end Rsa.Ceiling
