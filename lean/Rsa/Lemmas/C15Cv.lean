/- cross-validated bilinear kernels on fold-balanced designs: regrouping by folds -/
import Rsa.Lemmas.C15Bal
import Rsa.Lemmas.C15One

set_option linter.unusedSectionVars false
set_option linter.unusedVariables false

namespace Rsa.Unb

open Finset

variable {K : Type} [Field K] [LinearOrder K] [IsStrictOrderedRing K]

/-- indicator: observation `i` belongs to condition `a` and fold `f` -/
def uAF (c : Cfg K) (a f i : Nat) : K := if c.desc i = a ∧ c.cv i = f then 1 else 0

/-- sum of the patterns of condition `a` in fold `f` -/
def sAF (c : Cfg K) (V : Nat → Nat → K) (a f k : Nat) : K := ∑ i ∈ range c.nObs, uAF c a f i * V i k

/-- number of observations of condition `a` in fold `f` -/
def nAF (c : Cfg K) (a f : Nat) : K := ∑ i ∈ range c.nObs, uAF c a f i

/-- regrouping an admissible-pairs rectangle by fold pairs -/
theorem rect_by_folds (c : Cfg K) (F : Nat) (hF : ∀ i, i < c.nObs → c.cv i < F)
    (hcv : c.crossval = true) (a b : Nat) (T : Nat → Nat → K) :
    (∑ i ∈ range c.nObs, ∑ j ∈ range c.nObs,
        if c.desc i = a ∧ c.desc j = b ∧ adm c i j = true then T i j else 0)
      = ∑ f ∈ range F, ∑ g ∈ range F, if f = g then 0 else
          ∑ i ∈ range c.nObs, ∑ j ∈ range c.nObs, uAF c a f i * uAF c b g j * T i j := by
  have hterm : ∀ i j, i < c.nObs → j < c.nObs →
      (if c.desc i = a ∧ c.desc j = b ∧ adm c i j = true then T i j else 0)
        = ∑ f ∈ range F, ∑ g ∈ range F,
            if f = g then 0 else uAF c a f i * uAF c b g j * T i j := by
    intro i j hi hj
    rw [Finset.sum_eq_single (c.cv i)]
    · rw [Finset.sum_eq_single (c.cv j)]
      · unfold adm uAF
        by_cases h1 : c.desc i = a <;> by_cases h2 : c.desc j = b <;>
          by_cases h3 : c.cv i = c.cv j <;> simp [h1, h2, h3, hcv]
      · intro g _ hg
        unfold uAF
        have : ¬ (c.desc j = b ∧ c.cv j = g) := fun h => hg h.2.symm
        simp [this]
      · intro h; exact absurd (Finset.mem_range.mpr (hF j hj)) h
    · intro f _ hf
      apply Finset.sum_eq_zero; intro g _
      unfold uAF
      have : ¬ (c.desc i = a ∧ c.cv i = f) := fun h => hf h.2.symm
      simp [this]
    · intro h; exact absurd (Finset.mem_range.mpr (hF i hi)) h
  have h1 : (∑ i ∈ range c.nObs, ∑ j ∈ range c.nObs,
        if c.desc i = a ∧ c.desc j = b ∧ adm c i j = true then T i j else 0)
      = ∑ i ∈ range c.nObs, ∑ j ∈ range c.nObs, ∑ f ∈ range F, ∑ g ∈ range F,
            if f = g then 0 else uAF c a f i * uAF c b g j * T i j := by
    apply Finset.sum_congr rfl; intro i hi
    apply Finset.sum_congr rfl; intro j hj
    exact hterm i j (Finset.mem_range.mp hi) (Finset.mem_range.mp hj)
  rw [h1, ← sum4_comm F c.nObs (fun i j f g => if f = g then 0 else uAF c a f i * uAF c b g j * T i j)]
  apply Finset.sum_congr rfl; intro f _
  apply Finset.sum_congr rfl; intro g _
  by_cases h : f = g
  · simp [h]
  · simp [h]

theorem count_offdiag (F : Nat) (hF : 1 ≤ F) :
    (∑ f ∈ range F, ∑ g ∈ range F, if f = g then (0 : K) else 1) = ((F * (F - 1) : Nat) : K) := by
  have h1 : ∀ f ∈ range F, (∑ g ∈ range F, if f = g then (0 : K) else 1) = (F : K) - 1 := by
    intro f hf
    have : ∀ g, (if f = g then (0 : K) else 1) = 1 - (if f = g then 1 else 0) := by
      intro g; by_cases h : f = g <;> simp [h]
    simp only [this, Finset.sum_sub_distrib, Finset.sum_ite_eq, hf, if_true]
    simp
  rw [Finset.sum_congr rfl h1]
  simp only [Finset.sum_const, Finset.card_range, nsmul_eq_mul]
  obtain ⟨k, rfl⟩ : ∃ k, F = k + 1 := ⟨F - 1, by omega⟩
  push_cast
  simp

theorem nAF_eq_nInFold (c : Cfg K) (a f : Nat) :
    nAF c a f = ((nInFold c.nObs c.desc c.cv a f : Nat) : K) := by
  unfold nAF nInFold
  rw [nOf_cast]
  apply Finset.sum_congr rfl; intro i _
  unfold uAF
  by_cases h2 : c.cv i = f
  · by_cases h1 : c.desc i = a <;> simp [h1, h2]
  · have : ¬ (c.nObs + a + 1 = a) := by omega
    simp [h2, this]

/-- fold sums in terms of the model's `foldMean` -/
theorem foldMean_eq (c : Cfg K) (V : Nat → Nat → K) (a f ch : Nat) :
    foldMean c.nObs c.desc c.cv V a f ch = sAF c V a f ch / nAF c a f := by
  rw [nAF_eq_nInFold]
  unfold foldMean sAF
  rw [sumTo_eq_sum]
  congr 1
  apply Finset.sum_congr rfl; intro i _
  unfold uAF
  by_cases h : c.desc i = a ∧ c.cv i = f <;> simp [h]

/-- cross term of fold means summed over ordered pairs of different folds -/
def xAB (F P : Nat) (N : Nat → Nat → K) (mu : Nat → Nat → Nat → K) (a b : Nat) : K :=
  ∑ f ∈ range F, ∑ g ∈ range F, if f = g then 0 else bil P N (mu a f) (mu b g)

/-- the cross-validated pair average on a fold-balanced design -/
theorem specSim_cv {c : Cfg K} {P N V} (h : BilCfg c P N V) (hcv : c.crossval = true)
    (hnum : c.number = true) (F : Nat) (hF2 : 2 ≤ F) (hF : ∀ i, i < c.nObs → c.cv i < F)
    (a b : Nat) (ra rb : K) (hra : 0 < ra) (hrb : 0 < rb)
    (hba : ∀ f, f < F → nAF c a f = ra) (hbb : ∀ f, f < F → nAF c b f = rb) :
    specSim c a b = some (xAB F P N (foldMean c.nObs c.desc c.cv V) a b
      / ((F * (F - 1) : Nat) : K) / (P : K)) := by
  have hP : (0 : K) < (P : K) := by exact_mod_cast h.posP
  have hFF : (0 : K) < ((F * (F - 1) : Nat) : K) := by
    have : 0 < F * (F - 1) := Nat.mul_pos (by omega) (by omega)
    exact_mod_cast this
  rw [specSim_eq_rect c h.kern_symm]
  -- numerator
  have hgN : ∀ i j, gO c (cVal c.number) a b i j
      = if c.desc i = a ∧ c.desc j = b ∧ adm c i j = true then bil P N (V i) (V j) else 0 := by
    intro i j; unfold gO cVal; rw [h.kern, hnum]
    by_cases hc : c.desc i = a ∧ c.desc j = b ∧ adm c i j = true
    · rw [if_pos hc, if_pos ⟨hc.1, hc.2.1, hc.2.2, hP⟩]; simp
    · rw [if_neg hc, if_neg]; rintro ⟨x, y, z, _⟩; exact hc ⟨x, y, z⟩
  have hgD : ∀ i j, gO c (cW c.number) a b i j
      = if c.desc i = a ∧ c.desc j = b ∧ adm c i j = true then (P : K) else 0 := by
    intro i j; unfold gO cW; rw [h.kern, hnum]
    by_cases hc : c.desc i = a ∧ c.desc j = b ∧ adm c i j = true
    · rw [if_pos hc, if_pos ⟨hc.1, hc.2.1, hc.2.2, hP⟩]; simp
    · rw [if_neg hc, if_neg]; rintro ⟨x, y, z, _⟩; exact hc ⟨x, y, z⟩
  have hmu : ∀ f, f < F → (foldMean c.nObs c.desc c.cv V a f) = fun k => sAF c V a f k / ra := by
    intro f hf; funext k; rw [foldMean_eq, hba f hf]
  have hmub : ∀ g, g < F → (foldMean c.nObs c.desc c.cv V b g) = fun k => sAF c V b g k / rb := by
    intro g hg; funext k; rw [foldMean_eq, hbb g hg]
  have hN : rectNum c a b = ra * rb * xAB F P N (foldMean c.nObs c.desc c.cv V) a b := by
    rw [rectNum_eq_sum]
    simp only [hgN]
    rw [rect_by_folds c F hF hcv a b (fun i j => bil P N (V i) (V j))]
    unfold xAB
    rw [Finset.mul_sum]
    apply Finset.sum_congr rfl; intro f hf
    rw [Finset.mul_sum]
    apply Finset.sum_congr rfl; intro g hg
    by_cases e : f = g
    · simp [e]
    · simp only [e, if_false]
      rw [bil_sum_sum, hmu f (Finset.mem_range.mp hf), hmub g (Finset.mem_range.mp hg),
        bil_div_left, bil_div_right]
      have h1 := ne_of_gt hra
      have h2 := ne_of_gt hrb
      unfold sAF
      field_simp
  have hD : rectDen c a b = ra * rb * (P : K) * ((F * (F - 1) : Nat) : K) := by
    rw [rectDen_eq_sum]
    simp only [hgD]
    rw [rect_by_folds c F hF hcv a b (fun _ _ => (P : K)), ← count_offdiag F (by omega),
      Finset.mul_sum]
    apply Finset.sum_congr rfl; intro f hf
    rw [Finset.mul_sum]
    apply Finset.sum_congr rfl; intro g hg
    by_cases e : f = g
    · simp [e]
    · simp only [e, if_false, mul_one]
      rw [← hba f (Finset.mem_range.mp hf), ← hbb g (Finset.mem_range.mp hg)]
      unfold nAF
      rw [Finset.sum_mul_sum, Finset.sum_mul]
      apply Finset.sum_congr rfl; intro i _
      rw [Finset.sum_mul]
  rw [hN, hD]
  have hpos : 0 < ra * rb * (P : K) * ((F * (F - 1) : Nat) : K) := by positivity
  rw [if_pos hpos]
  congr 1
  have h1 := ne_of_gt hra
  have h2 := ne_of_gt hrb
  have h3 := ne_of_gt hP
  have h4 := ne_of_gt hFF
  field_simp

theorem xAB_symm (F P : Nat) (N : Nat → Nat → K) (hN : ∀ k l, N k l = N l k)
    (mu : Nat → Nat → Nat → K) (a b : Nat) : xAB F P N mu b a = xAB F P N mu a b := by
  unfold xAB
  rw [Finset.sum_comm]
  apply Finset.sum_congr rfl; intro f _
  apply Finset.sum_congr rfl; intro g _
  by_cases e : f = g
  · simp [e]
  · have e' : ¬ g = f := fun h => e h.symm
    simp only [e, e', if_false]
    exact bil_symm P N hN _ _

/-- `self_a + self_b − 2 cross_ab` of the cross-validated averages is the C02 estimator -/
theorem specDist_cv {c : Cfg K} {P N V} (h : BilCfg c P N V) (hcv : c.crossval = true)
    (hnum : c.number = true) (F : Nat) (hF2 : 2 ≤ F) (hF : ∀ i, i < c.nObs → c.cv i < F)
    (a b : Nat) (ra rb : K) (hra : 0 < ra) (hrb : 0 < rb)
    (hba : ∀ f, f < F → nAF c a f = ra) (hbb : ∀ f, f < F → nAF c b f = rb) :
    specDist c a b = some (cvSpec F P N (foldMean c.nObs c.desc c.cv V) a b) := by
  unfold specDist
  rw [specSim_cv h hcv hnum F hF2 hF a a ra ra hra hra hba hba,
    specSim_cv h hcv hnum F hF2 hF b b rb rb hrb hrb hbb hbb,
    specSim_cv h hcv hnum F hF2 hF a b ra rb hra hrb hba hbb]
  simp only
  congr 1
  unfold cvSpec
  simp only [sumTo_eq_sum]
  have hexp : (∑ f ∈ range F, ∑ g ∈ range F, if f = g then (0 : K) else
        bil P N (fun ch => foldMean c.nObs c.desc c.cv V a f ch - foldMean c.nObs c.desc c.cv V b f ch)
          (fun ch => foldMean c.nObs c.desc c.cv V a g ch - foldMean c.nObs c.desc c.cv V b g ch))
      = xAB F P N (foldMean c.nObs c.desc c.cv V) a a - xAB F P N (foldMean c.nObs c.desc c.cv V) a b
        - xAB F P N (foldMean c.nObs c.desc c.cv V) b a + xAB F P N (foldMean c.nObs c.desc c.cv V) b b := by
    unfold xAB
    simp only [← Finset.sum_sub_distrib, ← Finset.sum_add_distrib]
    apply Finset.sum_congr rfl; intro f _
    apply Finset.sum_congr rfl; intro g _
    by_cases e : f = g
    · simp [e]
    · simp only [e, if_false]
      exact bil_sub_sub P N _ _ _ _
  rw [hexp, xAB_symm F P N h.symm _ a b]
  unfold two
  push_cast
  ring

end Rsa.Unb
