/- helper lemmas for C20, round 3: HRF predictor columns, epoch times, SPM residuals -/
import Rsa.Lemmas.C20Num

set_option linter.unusedSectionVars false
set_option linter.unusedVariables false
set_option linter.unusedSimpArgs false

namespace Rsa.Importers

open Finset

section ord
variable {K : Type} [Field K] [LinearOrder K] [IsStrictOrderedRing K]

theorem natcast_sub_one_ne {n : Nat} (hn : 2 ≤ n) : ((n : K) - ((1 : Nat) : K)) ≠ 0 := by
  have : (1 : K) < (n : K) := by exact_mod_cast hn
  rw [Nat.cast_one]
  intro h; linarith

theorem volTimeAt_eq (tr : K) (n i : Nat) (hn : 2 ≤ n) : volTimeAt tr n i = tr * i := by
  unfold volTimeAt Rsa.Gen.C20.volTime
  have h1 := natcast_sub_one_ne (K := K) hn
  rw [Nat.cast_zero, sub_zero, add_zero]
  field_simp

theorem hrfEnd_eq (tr : K) (len : Nat) (hl : 2 ≤ len) : hrfEnd tr len = tr * ((len - 1 : Nat) : K) := by
  unfold hrfEnd Rsa.Gen.C20.hrfTime
  have h1 := natcast_sub_one_ne (K := K) hl
  rw [Nat.cast_zero, sub_zero, add_zero]
  field_simp

theorem predictorCol_getElem? (P : K → K) (T tr : K) (n : Nat) (onsets : List K) (i : Nat)
    (hi : i < n) :
    (predictorCol P T tr n onsets)[i]? =
      some ((onsets.map (fun o => respAt P T o (volTimeAt tr n i))).sum) := by
  simp [predictorCol, hi]

end ord

/-! ### SPM: residual forming annihilates the design -/

section field
variable {K : Type} [Field K]

/-- `P (F − X (P F)) = 0` when `P X = I` -/
theorem resid_annihilated (n q : Nat) (P X F : Nat → Nat → K)
    (hPX : ∀ c < q, ∀ c' < q, ∑ r ∈ range n, P c r * X r c' = if c = c' then 1 else 0)
    (c : Nat) (hc : c < q) (p : Nat) :
    ∑ r ∈ range n, P c r * (F r p - ∑ c' ∈ range q, X r c' * ∑ r' ∈ range n, P c' r' * F r' p) = 0 := by
  set B : Nat → K := fun c' => ∑ r' ∈ range n, P c' r' * F r' p with hB
  calc ∑ r ∈ range n, P c r * (F r p - ∑ c' ∈ range q, X r c' * B c')
      = B c - ∑ r ∈ range n, ∑ c' ∈ range q, P c r * (X r c' * B c') := by
        simp only [mul_sub, sum_sub_distrib, mul_sum, hB]
    _ = B c - ∑ c' ∈ range q, ∑ r ∈ range n, P c r * (X r c' * B c') := by rw [sum_comm]
    _ = B c - ∑ c' ∈ range q, (∑ r ∈ range n, P c r * X r c') * B c' := by
        congr 1; apply sum_congr rfl; intro c' _
        rw [sum_mul]; apply sum_congr rfl; intro r _; ring
    _ = B c - ∑ c' ∈ range q, (if c = c' then 1 else 0) * B c' := by
        congr 1; apply sum_congr rfl; intro c' hc'
        rw [hPX c hc c' (mem_range.mp hc')]
    _ = 0 := by simp [ite_mul, hc]

end field

/-! ### `str.find` -/

theorem findSub_first (pat : Str) : ∀ (a b : Str),
    (∀ k < a.length, pat.isPrefixOf ((a ++ pat ++ b).drop k) = false) →
    findSub pat (a ++ pat ++ b) = some a.length
  | [], b, _ => by
    have hp : pat.isPrefixOf (pat ++ b) = true := by
      rw [List.isPrefixOf_iff_prefix]; exact ⟨b, rfl⟩
    simp only [List.nil_append, List.length_nil]
    generalize pat ++ b = l at hp
    cases l with
    | nil => simp [findSub, hp]
    | cons c cs => simp [findSub, hp]
  | x :: a, b, h => by
    have h0 : pat.isPrefixOf (x :: (a ++ pat ++ b)) = false := by
      have := h 0 (by simp); simpa using this
    have ih := findSub_first pat a b (fun k hk => by
      have := h (k + 1) (by simp; omega); simpa using this)
    simp only [List.cons_append, findSub, h0, ih, List.length_cons]
    simp

/-! ### `mapM` in `Except` -/

theorem mapM_ok_spec {β γ : Type} (f : β → Except String γ) : ∀ (l : List β) (res : List γ),
    l.mapM f = .ok res → res.length = l.length ∧ ∀ i (hi : i < l.length) (hr : i < res.length),
      f l[i] = .ok res[i]
  | [], res, h => by
    simp [List.mapM_nil, pure, Except.pure] at h
    subst h; simp
  | x :: xs, res, h => by
    rw [List.mapM_cons] at h
    cases hx : f x with
    | error e => simp [hx, bind, Except.bind] at h
    | ok y =>
      cases hxs : xs.mapM f with
      | error e => simp [hx, hxs, bind, Except.bind] at h
      | ok ys =>
        simp [hx, hxs, bind, Except.bind, pure, Except.pure] at h
        subst h
        obtain ⟨h1, h2⟩ := mapM_ok_spec f xs ys hxs
        refine ⟨by simp [h1], ?_⟩
        intro i hi hr
        cases i with
        | zero => simpa using hx
        | succ j => simpa using h2 j (by simpa using hi) (by simpa using hr)

end Rsa.Importers
