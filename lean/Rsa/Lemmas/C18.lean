/- helper lemmas for property C18 (simulation): list sums ↔ `Finset` sums, centring algebra,
   Gram matrix of a product, `np.unique` facts -/
import Mathlib.Algebra.BigOperators.Group.Finset.Basic
import Mathlib.Algebra.BigOperators.Ring.Finset
import Mathlib.Algebra.BigOperators.Field
import Mathlib.Data.List.GetD
import Mathlib.Algebra.Order.BigOperators.Group.Finset
import Mathlib.Algebra.Order.Field.Basic
import Mathlib.Tactic.Ring
import Mathlib.Tactic.Linarith
import Mathlib.Tactic.FieldSimp
import Rsa.Core.Sim
import Rsa.Lemmas.Tri

set_option linter.unusedSectionVars false
set_option linter.unusedVariables false

namespace Rsa.Sim

open Finset

section ring
variable {K : Type} [Field K] [LinearOrder K] [IsStrictOrderedRing K]

theorem sumTo_eq (n : Nat) (f : Nat → K) : sumTo n f = ∑ l ∈ range n, f l := by
  unfold sumTo
  induction n with
  | zero => simp
  | succ n ih => rw [List.range_succ, List.map_append, List.sum_append, ih, sum_range_succ]; simp

theorem sumTo_congr (n : Nat) (f g : Nat → K) (h : ∀ l, l < n → f l = g l) :
    sumTo n f = sumTo n g := by
  rw [sumTo_eq, sumTo_eq]
  exact sum_congr rfl (fun l hl => h l (mem_range.mp hl))

/-! the regenerated summands of the five matrix products are plain products (a changed operand
    order or a transposed operand in the source text makes the leaf underivable) -/
theorem mmulBy_signalChan (k : Nat) (A B : Mat K) :
    mmulBy Rsa.Gen.C18.signalChanTerm k A B = mmul k A B := rfl
theorem mmulBy_signalMix (k : Nat) (A B : Mat K) :
    mmulBy Rsa.Gen.C18.signalMixTerm k A B = mmul k A B := rfl
theorem mmulBy_noiseChan (k : Nat) (A B : Mat K) :
    mmulBy Rsa.Gen.C18.noiseChanTerm k A B = mmul k A B := rfl
theorem mmulBy_noiseTrial (k : Nat) (A B : Mat K) :
    mmulBy Rsa.Gen.C18.noiseTrialTerm k A B = mmul k A B := rfl
theorem mmulBy_design (k : Nat) (A B : Mat K) :
    mmulBy Rsa.Gen.C18.designTerm k A B = mmul k A B := rfl

/-- entry of `indicator` as regenerated from the masked assignment of `util/matrix.py` -/
theorem indicatorEntry_eq (a b : Nat) :
    (Rsa.Gen.C18.indicatorEntry a b : K) = if a = b then 1 else 0 := by
  simp [Rsa.Gen.C18.indicatorEntry]

/-- row centring as regenerated from `true_U - np.mean(true_U, axis=1, keepdims=True)` -/
theorem rowCenter_apply (w : Nat) (U : Mat K) (i c : Nat) :
    rowCenter w U i c = U i c - sumTo w (fun l => U i l) / (w : K) := rfl

theorem centering_apply (n i j : Nat) :
    (centering n : Mat K) i j = (if i = j then 1 else 0) - 1 / (n : K) := by
  simp [centering, Rsa.Gen.C18.centeringEntry]

/-- left multiplication by the centring matrix removes the column mean -/
theorem centering_mul_left (n i : Nat) (hi : i < n) (x : Nat → K) :
    sumTo n (fun l => (centering n : Mat K) i l * x l) = x i - sumTo n x / (n : K) := by
  simp only [sumTo_eq, centering_apply, sub_mul, sum_sub_distrib, ite_mul, one_mul, zero_mul]
  rw [sum_ite_eq (range n) i, if_pos (mem_range.mpr hi), ← mul_sum]
  ring

/-- right multiplication by the centring matrix removes the row mean -/
theorem centering_mul_right (n j : Nat) (hj : j < n) (x : Nat → K) :
    sumTo n (fun l => x l * (centering n : Mat K) l j) = x j - sumTo n x / (n : K) := by
  simp only [sumTo_eq, centering_apply, mul_sub, sum_sub_distrib, mul_ite, mul_one, mul_zero]
  rw [sum_ite_eq' (range n) j, if_pos (mem_range.mpr hj), ← sum_mul]
  ring

/-- entry of `H D H`: double centring -/
theorem hdh_entry (n i j : Nat) (hi : i < n) (hj : j < n) (D : Mat K) :
    mmul n (mmul n (centering n) D) (centering n) i j
      = D i j - sumTo n (fun k => D k j) / (n : K) - sumTo n (fun l => D i l) / (n : K)
        + sumTo n (fun l => sumTo n (fun k => D k l)) / (n : K) / (n : K) := by
  have h1 : ∀ l, mmul n (centering n) D i l = D i l - sumTo n (fun k => D k l) / (n : K) := by
    intro l
    exact centering_mul_left n i hi (fun k => D k l)
  unfold mmul at h1 ⊢
  rw [centering_mul_right n j hj (fun l => sumTo n (fun k => (centering n : Mat K) i k * D k l))]
  simp only [h1]
  simp only [sumTo_eq, sum_sub_distrib, ← Finset.sum_div]
  ring

/-- `G_aa + G_bb − 2 G_ab = D_ab` for a symmetric matrix with zero diagonal -/
theorem gram_to_dist (n a b : Nat) (ha : a < n) (hb : b < n) (D : Mat K)
    (hsym : ∀ i j, i < n → j < n → D i j = D j i) (hdiag : ∀ i, i < n → D i i = 0) :
    distOfGram (gramOfRdm n D) a b = D a b := by
  have hn : (n : K) ≠ 0 := Nat.cast_ne_zero.mpr (by omega)
  have hcol : ∀ j, j < n → sumTo n (fun k => D k j) = sumTo n (fun l => D j l) := by
    intro j hj
    exact sumTo_congr n _ _ (fun l hl => hsym l j hl hj)
  unfold distOfGram gramOfRdm
  rw [hdh_entry n a a ha ha, hdh_entry n b b hb hb, hdh_entry n a b ha hb]
  rw [hcol a ha, hcol b hb, hdiag a ha, hdiag b hb]
  simp only [Rsa.Gen.C18.gScale]
  push_cast
  field_simp
  ring

/-- Gram matrix of a product: `(C W)(C W)ᵀ = C (W Wᵀ) Cᵀ`, entry-wise -/
theorem gramRows_mmul (k w i j : Nat) (C W : Mat K) :
    gramRows w (mmul k C W) i j
      = sumTo k (fun a => sumTo k (fun b => C i a * C j b * gramRows w W a b)) := by
  unfold gramRows mmul
  simp only [sumTo_eq]
  have hL : ∀ l, (∑ a ∈ range k, C i a * W a l) * (∑ b ∈ range k, C j b * W b l)
      = ∑ a ∈ range k, ∑ b ∈ range k, C i a * C j b * (W a l * W b l) := by
    intro l
    rw [sum_mul_sum]
    refine sum_congr rfl (fun a _ => sum_congr rfl (fun b _ => ?_))
    ring
  simp only [hL, mul_sum]
  rw [Finset.sum_comm]
  refine sum_congr rfl (fun a _ => ?_)
  rw [Finset.sum_comm]

/-- if the rows of `W` are orthogonal with squared norm `c`, then `(C W)(C W)ᵀ = c · C Cᵀ` -/
theorem gramRows_mmul_orthogonal (k w i j : Nat) (C W : Mat K) (c : K)
    (hW : ∀ a b, a < k → b < k → gramRows w W a b = if a = b then c else 0) :
    gramRows w (mmul k C W) i j = c * gramRows k C i j := by
  rw [gramRows_mmul]
  unfold gramRows at hW ⊢
  simp only [sumTo_eq] at hW ⊢
  rw [mul_sum]
  refine sum_congr rfl (fun a ha => ?_)
  have : ∀ b ∈ range k, C i a * C j b * ∑ l ∈ range w, W a l * W b l
      = if a = b then C i a * C j b * c else 0 := by
    intro b hb
    rw [hW a b (mem_range.mp ha) (mem_range.mp hb)]
    split <;> simp
  rw [sum_congr rfl this, sum_ite_eq (range k) a, if_pos ha]
  ring

/-- a row of `Z U` for a one-hot row of `Z` is the corresponding row of `U` -/
theorem indicator_mmul (nCond : Nat) (cv uniq : Nat → Nat) (U : Mat K) (o i c : Nat)
    (hi : i < nCond) (hinj : ∀ a b, a < nCond → b < nCond → uniq a = uniq b → a = b)
    (ho : cv o = uniq i) :
    mmul nCond (indicatorF cv uniq) U o c = U i c := by
  unfold mmul indicatorF
  simp only [indicatorEntry_eq]
  rw [sumTo_eq, sum_eq_single i]
  · simp [ho]
  · intro l hl hne
    have : ¬ cv o = uniq l := fun h => hne (hinj l i (mem_range.mp hl) hi (by rw [← h, ho]))
    simp [this]
  · intro h; exact absurd (mem_range.mpr hi) h

/-- the number of observations of a condition that occurs is not zero -/
theorem count_ne_zero (nObs : Nat) (cv : Nat → Nat) (u : Nat) (h : ∃ o, o < nObs ∧ cv o = u) :
    sumTo nObs (fun o => if cv o = u then (1 : K) else 0) ≠ 0 := by
  obtain ⟨o, ho, hc⟩ := h
  rw [sumTo_eq]
  have h1 : (1 : K) ≤ ∑ l ∈ range nObs, (if cv l = u then (1 : K) else 0) := by
    have := single_le_sum (f := fun l => if cv l = u then (1 : K) else 0)
      (fun l _ => by split <;> norm_num) (mem_range.mpr ho)
    simpa [hc] using this
  intro h0
  rw [h0] at h1
  exact absurd h1 (by norm_num)

/-- averaging rows that are all equal to `x` gives `x` -/
theorem condMean_const (nObs : Nat) (cv uniq : Nat → Nat) (data : Mat K) (i c : Nat) (x : K)
    (hex : ∃ o, o < nObs ∧ cv o = uniq i)
    (hx : ∀ o, o < nObs → cv o = uniq i → data o c = x) :
    condMean nObs cv uniq data i c = x := by
  unfold condMean
  have hne := count_ne_zero (K := K) nObs cv (uniq i) hex
  have : sumTo nObs (fun o => if cv o = uniq i then data o c else 0)
      = x * sumTo nObs (fun o => if cv o = uniq i then (1 : K) else 0) := by
    simp only [sumTo_eq, mul_sum]
    refine sum_congr rfl (fun o ho => ?_)
    by_cases h : cv o = uniq i
    · simp [h, hx o (mem_range.mp ho) h]
    · simp [h]
  rw [this, mul_div_assoc, div_self hne, mul_one]

/-- the Gram form used by `calc_rdm_euclidean` is the mean squared difference -/
theorem euclidRdm_eq_spec (nCh : Nat) (M : Mat K) (a b : Nat) :
    euclidRdm nCh M a b = euclidSpec nCh M a b := by
  unfold euclidRdm euclidSpec Rsa.Gen.C01.euclidNorm Rsa.Gen.C01.euclidEntry
  congr 1
  simp only [sumTo_eq]
  push_cast
  rw [mul_sum, ← sum_add_distrib, ← sum_sub_distrib]
  refine sum_congr rfl (fun c _ => ?_)
  ring

/-- with a zero noise scale the noise term vanishes, whatever the draws and factors -/
theorem noiseTerm_zero (nObs nCh : Nat) (z : Mat K) (cholC cholT : Option (Mat K)) :
    noiseTerm nObs nCh z 0 cholC cholT = fun _ _ => 0 := by
  funext o c
  cases cholC <;> cases cholT <;>
    simp [noiseTerm, mmulBy_noiseChan, mmulBy_noiseTrial, mmul, sumTo_eq, Rsa.Gen.C18.noiseScale]

/-- the noise term is linear in the noise scale -/
theorem noiseTerm_scale (nObs nCh : Nat) (z : Mat K) (q : K) (cholC cholT : Option (Mat K))
    (o c : Nat) :
    noiseTerm nObs nCh z q cholC cholT o c = q * noiseTerm nObs nCh z 1 cholC cholT o c := by
  cases cholC <;> cases cholT <;>
    simp only [noiseTerm, mmulBy_noiseChan, mmulBy_noiseTrial, mmul, sumTo_eq,
      Rsa.Gen.C18.noiseScale, mul_one, mul_sum]
  · ring
  · refine sum_congr rfl (fun l _ => ?_); ring
  · refine sum_congr rfl (fun l _ => ?_); ring
  · refine sum_congr rfl (fun l _ => sum_congr rfl (fun m _ => ?_)); ring

/-- quadratic form of a zero-sum vector in the double-centred matrix `G = −½ H D H`: the row,
    column and grand means drop out, only the `D` term survives (no symmetry of `D` needed) -/
theorem quadform_gram (n : Nat) (d : Nat → K) (D : Mat K) (hd : sumTo n d = 0) :
    sumTo n (fun a => sumTo n (fun b => d a * d b * gramOfRdm n D a b))
      = Rsa.Gen.C18.gScale (sumTo n (fun a => sumTo n (fun b => d a * d b * D a b))) := by
  have h1 : sumTo n (fun a => sumTo n (fun b => d a * d b * gramOfRdm n D a b))
      = sumTo n (fun a => sumTo n (fun b => d a * d b * Rsa.Gen.C18.gScale
          (D a b - sumTo n (fun k => D k b) / (n : K) - sumTo n (fun l => D a l) / (n : K)
            + sumTo n (fun l => sumTo n (fun k => D k l)) / (n : K) / (n : K)))) := by
    apply sumTo_congr; intro a ha
    apply sumTo_congr; intro b hb
    unfold gramOfRdm
    rw [hdh_entry n a b ha hb]
  rw [h1]
  simp only [Rsa.Gen.C18.gScale]
  push_cast
  rw [sumTo_eq] at hd
  generalize hT : sumTo n (fun l => sumTo n (fun k => D k l)) = T
  simp only [sumTo_eq]
  have e : ∀ a b, d a * d b * (-(1 / 2) * (D a b - (∑ k ∈ range n, D k b) / (n : K)
        - (∑ l ∈ range n, D a l) / (n : K) + T / (n : K) / (n : K)))
      = -(1 / 2) * (d a * d b * D a b) + 1 / 2 / (n : K) * (d a * (d b * ∑ k ∈ range n, D k b))
        + 1 / 2 / (n : K) * (d a * (∑ l ∈ range n, D a l) * d b)
        - 1 / 2 * T / (n : K) / (n : K) * (d a * d b) := by
    intro a b; ring
  simp only [e, sum_add_distrib, sum_sub_distrib, ← mul_sum, ← sum_mul, hd]
  ring

end ring
/-! ### `np.unique` on natural-number labels -/

theorem le_foldr_max (l : List Nat) (v : Nat) (h : v ∈ l) : v ≤ l.foldr max 0 := by
  induction l with
  | nil => simp at h
  | cons x xs ih =>
    simp only [List.foldr_cons]
    rcases List.mem_cons.mp h with rfl | h
    · exact le_max_left _ _
    · exact le_trans (ih h) (le_max_right _ _)

theorem mem_uniqueSorted (l : List Nat) (v : Nat) : v ∈ uniqueSorted l ↔ v ∈ l := by
  unfold uniqueSorted
  simp only [List.mem_filter, List.mem_range, List.contains_iff_mem]
  constructor
  · exact fun h => h.2
  · exact fun h => ⟨Nat.lt_succ_of_le (le_foldr_max l v h), h⟩

theorem uniqueSorted_nodup (l : List Nat) : (uniqueSorted l).Nodup :=
  List.Nodup.filter _ List.nodup_range

theorem uniqueSorted_sorted (l : List Nat) : (uniqueSorted l).Pairwise (· < ·) :=
  List.Pairwise.filter _ List.pairwise_lt_range

/-- positions in the unique list are determined by the value -/
theorem uniqueSorted_getD_inj (l : List Nat) (a b : Nat) (ha : a < (uniqueSorted l).length)
    (hb : b < (uniqueSorted l).length)
    (h : (uniqueSorted l).getD a 0 = (uniqueSorted l).getD b 0) : a = b := by
  rw [List.getD_eq_getElem _ _ ha, List.getD_eq_getElem _ _ hb] at h
  exact (List.Nodup.getElem_inj_iff (uniqueSorted_nodup l)).mp h

/-- every observation's label is one of the unique values -/
theorem uniqueSorted_covers (l : List Nat) (o : Nat) (ho : o < l.length) :
    ∃ i, i < (uniqueSorted l).length ∧ l.getD o 0 = (uniqueSorted l).getD i 0 := by
  have hm : l.getD o 0 ∈ uniqueSorted l := by
    rw [mem_uniqueSorted, List.getD_eq_getElem _ _ ho]; exact List.getElem_mem ho
  obtain ⟨i, hi, he⟩ := List.getElem_of_mem hm
  exact ⟨i, hi, by rw [List.getD_eq_getElem _ _ hi, he]⟩

/-- every unique value is the label of some observation -/
theorem uniqueSorted_occurs (l : List Nat) (i : Nat) (hi : i < (uniqueSorted l).length) :
    ∃ o, o < l.length ∧ l.getD o 0 = (uniqueSorted l).getD i 0 := by
  have hm : (uniqueSorted l)[i] ∈ l := (mem_uniqueSorted l _).mp (List.getElem_mem hi)
  obtain ⟨o, ho, he⟩ := List.getElem_of_mem hm
  exact ⟨o, ho, by rw [List.getD_eq_getElem _ _ ho, List.getD_eq_getElem _ _ hi, he]⟩

/-- the list form of `indicator` agrees with the function form on the observations -/
theorem indicator_eq_indicatorF {K : Type} [Field K] [LinearOrder K] [IsStrictOrderedRing K]
    (cv : List Nat) (o i : Nat)
    (ho : o < cv.length) (hi : i < (uniqueSorted cv).length) :
    (indicator cv : Mat K) o i
      = indicatorF (fun o => cv.getD o 0) (fun i => (uniqueSorted cv).getD i 0) o i := by
  unfold indicator indicatorF
  simp [List.getElem?_eq_getElem ho, List.getElem?_eq_getElem hi]

/-! ### order of the draws -/

theorem flatMap_pair_even {β γ : Type} (l : List β) (a b : β → γ) (k : Nat) :
    (l.flatMap (fun x => [a x, b x]))[2 * k]? = l[k]?.map a := by
  induction l generalizing k with
  | nil => simp
  | cons x xs ih =>
    cases k with
    | zero => simp
    | succ k =>
      have : 2 * (k + 1) = 2 * k + 1 + 1 := by ring
      simp [List.flatMap_cons, this, ih]

theorem flatMap_pair_odd {β γ : Type} (l : List β) (a b : β → γ) (k : Nat) :
    (l.flatMap (fun x => [a x, b x]))[2 * k + 1]? = l[k]?.map b := by
  induction l generalizing k with
  | nil => simp
  | cons x xs ih =>
    cases k with
    | zero => simp
    | succ k =>
      have : 2 * (k + 1) + 1 = 2 * k + 1 + 1 + 1 := by ring
      simp [List.flatMap_cons, this, ih]

theorem drawPlan_fresh_even (nSim k : Nat) (hk : k < nSim) :
    (drawPlan false nSim)[2 * k]? = some (true, k) := by
  simp only [drawPlan, Bool.false_eq_true, if_false]
  rw [flatMap_pair_even (List.range nSim) (fun k => (true, k)) (fun k => (false, k))]
  simp [hk]

theorem drawPlan_fresh_odd (nSim k : Nat) (hk : k < nSim) :
    (drawPlan false nSim)[2 * k + 1]? = some (false, k) := by
  simp only [drawPlan, Bool.false_eq_true, if_false]
  rw [flatMap_pair_odd (List.range nSim) (fun k => (true, k)) (fun k => (false, k))]
  simp [hk]

/-! ### the list of simulated datasets -/

section datasets
variable {K : Type} [Field K] [LinearOrder K] [IsStrictOrderedRing K] [HasSqrt K]

theorem makeDatasets_getElem? (p : Params K) (cond : CondInput K) (signals noises : Nat → Mat K)
    (k : Nat) (hk : k < p.nSim) :
    (makeDatasets p cond signals noises)[k]? = some (simDataset p cond signals noises k) := by
  simp [makeDatasets, hk]

theorem mem_makeDatasets (p : Params K) (cond : CondInput K) (signals noises : Nat → Mat K)
    (ds : SimDataset K) (h : ds ∈ makeDatasets p cond signals noises) :
    ∃ k, k < p.nSim ∧ ds = simDataset p cond signals noises k := by
  obtain ⟨k, hk, rfl⟩ := List.mem_map.mp h
  exact ⟨k, List.mem_range.mp hk, rfl⟩

end datasets

/-! ### the coded factor steps of the repaired `make_signal` (eigh, QR) -/

section factors
variable {K : Type} [Field K] [LinearOrder K] [IsStrictOrderedRing K]

/-- an eigenvalue that is 0 or at least the threshold of the code is not changed by the clamp
    `eigval[eigval < 1e-15] = 0` (depends on the regenerated leaf `eigClamp`) -/
theorem eigClamp_fixed (x : K) (h : x = 0 ∨ (1 : K) / 1000000000000000 ≤ x) :
    Rsa.Gen.C18.eigClamp x = x := by
  unfold Rsa.Gen.C18.eigClamp
  push_cast
  rcases h with rfl | h
  · simp
  · rw [if_neg (not_lt.mpr h)]

variable [HasSqrt K]

/-- `chol_G chol_Gᵀ = V diag(w) Vᵀ` when no eigenvalue is clamped away and each has a square
    root (`√w·√w = w`, i.e. `w ≥ 0` over the reals: the model RDM is Euclidean-embeddable) -/
theorem cholEigh_gram (n a b : Nat) (w : Nat → K) (V : Mat K)
    (hw : ∀ j, j < n → Rsa.Gen.C18.eigClamp (w j) = w j ∧
      HasSqrt.sqrt (w j) * HasSqrt.sqrt (w j) = w j) :
    gramRows n (cholEigh w V) a b = sumTo n (fun j => V a j * w j * V b j) := by
  unfold gramRows cholEigh
  apply sumTo_congr
  intro j hj
  obtain ⟨hc, hs⟩ := hw j hj
  rw [hc]
  calc V a j * HasSqrt.sqrt (w j) * (V b j * HasSqrt.sqrt (w j))
      = V a j * (HasSqrt.sqrt (w j) * HasSqrt.sqrt (w j)) * V b j := by ring
    _ = V a j * w j * V b j := by rw [hs]

/-- rows of `Qᵀ·√w` are orthogonal with squared norm `w` when the columns of `Q` are orthonormal -/
theorem whitenQR_gram (w a b : Nat) (q : Mat K)
    (hs : HasSqrt.sqrt (w : K) * HasSqrt.sqrt (w : K) = (w : K))
    (hQ : sumTo w (fun c => q c a * q c b) = if a = b then 1 else 0) :
    gramRows w (whitenQR w q) a b = if a = b then (w : K) else 0 := by
  unfold gramRows whitenQR Rsa.Gen.C18.exactScale
  have : sumTo w (fun l => q l a * HasSqrt.sqrt (w : K) * (q l b * HasSqrt.sqrt (w : K)))
      = (HasSqrt.sqrt (w : K) * HasSqrt.sqrt (w : K)) * sumTo w (fun c => q c a * q c b) := by
    simp only [sumTo_eq, Finset.mul_sum]
    refine Finset.sum_congr rfl (fun c _ => ?_)
    ring
  rw [this, hs, hQ]
  split <;> simp

end factors

/-! ### squareform, nested lists -/

theorem squareform_symm {K : Type} [Zero K] (n : Nat) (v : List K) (i j : Nat) :
    squareform n v i j = squareform n v j i := by
  unfold squareform Rsa.vecToMat
  by_cases h : i = j
  · subst h; rfl
  · have h' : ¬ j = i := fun e => h e.symm
    rcases Nat.lt_or_gt_of_ne h with hl | hl
    · have : ¬ j < i := by omega
      simp [h, h', hl, this]
    · have : ¬ i < j := by omega
      simp [h, h', hl, this]

theorem squareform_diag {K : Type} [Zero K] (n : Nat) (v : List K) (i : Nat) :
    squareform n v i i = 0 := by
  simp [squareform, Rsa.vecToMat]

/-- materialising a matrix as nested lists and reading it back is the identity in range
    (the driver does this between the stages of the model) -/
theorem ofLists_toLists {K : Type} [Zero K] (r c : Nat) (M : Mat K) (i j : Nat) (hi : i < r)
    (hj : j < c) : ofLists (toLists r c M) i j = M i j := by
  simp [ofLists, toLists, hi, hj]

end Rsa.Sim
