/-
  Helper lemmas for property C02, part 5: the per-fold-precision branch, weights of the
  pair average, the default fold descriptor, re-labelling of folds and channels.
-/
import Rsa.Lemmas.C02Main

set_option linter.unusedSectionVars false
set_option linter.unusedVariables false
set_option linter.unusedSimpArgs false
set_option linter.unusedDecidableInType false

namespace Rsa.CrossVal

open List

variable {L F : Type} [LinearOrder L] [LinearOrder F]
variable {K : Type} [Field K] [LinearOrder K] [IsStrictOrderedRing K]

/-- fold means of one fold, rows in the order of the sorted distinct conditions -/
theorem test_means_eq (T : (Nat → K) → (Nat → K))
    (Ds : List (Obs L F K)) (hs : (Ds.map (·.cond)).Pairwise (· ≤ ·)) {R : Nat}
    (hbal : Balanced Ds R) {f : F} (hf : f ∈ foldsOf Ds) :
    (averageBy (Ds.filter (fun r => r.fold = f))).map (fun p => T p.2)
      = (uniqueFirst (Ds.map (·.cond))).map (fun c => foldMean T Ds c f) := by
  have hfD : f ∈ Ds.map (·.fold) := mem_foldsOf.mp hf
  have htest : uniqueFirst ((Ds.filter (fun r => r.fold = f)).map (·.cond))
      = uniqueFirst (Ds.map (·.cond)) := by
    apply conds_of_subset hs
    intro c hc
    have hpos : 0 < (cell Ds c f).length := by rw [hbal.2 c hc f hfD]; exact hbal.1
    obtain ⟨r, hr, h1, h2⟩ := exists_row_of_cell hpos
    exact ⟨r, hr, by simp [h2], h1⟩
  rw [averageBy_T, htest]
  apply List.map_congr_left
  intro c _
  rw [test_rows_cell]
  rfl

theorem matAvg_comm (A B : List (List K)) : matAvg A B = matAvg B A := by
  unfold matAvg
  induction A generalizing B with
  | nil => cases B <;> simp
  | cons a A ih =>
    cases B with
    | nil => simp
    | cons b B =>
      simp only [List.zipWith_cons_cons, ih B, List.cons.injEq, and_true]
      apply List.zipWith_comm_of_comm
      intro x y
      unfold Rsa.Gen.C02.pairCov
      rw [add_comm]

/-- the precision used for the pair of folds (m, n): inverse of the average of the two
    folds' covariances -/
def pairPrec (inv : List (List K) → List (List K)) (prec : F → List (List K)) (m n : F) :
    Nat → Nat → K :=
  matFn (inv (matAvg (inv (prec m)) (inv (prec n))))

theorem pairPrec_comm (inv : List (List K) → List (List K)) (prec : F → List (List K)) (m n : F) :
    pairPrec inv prec m n = pairPrec inv prec n m := by
  unfold pairPrec
  rw [matAvg_comm]

/-- members of `pairsOf` of a duplicate-free list are pairs of distinct elements -/
theorem pairsOf_ne {β : Type} {l : List β} (hl : l.Nodup) {p : β × β} (hp : p ∈ pairsOf l) :
    p.1 ≠ p.2 := by
  induction l with
  | nil => simp [pairsOf] at hp
  | cons x xs ih =>
    rw [List.nodup_cons] at hl
    simp only [pairsOf, List.mem_append, List.mem_map] at hp
    rcases hp with ⟨y, hy, rfl⟩ | hp
    · intro e
      have e' : x = y := e
      exact hl.1 (e' ▸ hy)
    · exact ih hl.2 hp

/-- two distinct members of a list form a pair of `pairsOf` in one of the two orders -/
theorem mem_pairsOf_or {β : Type} {l : List β} {a b : β} (ha : a ∈ l) (hb : b ∈ l) (hab : a ≠ b) :
    (a, b) ∈ pairsOf l ∨ (b, a) ∈ pairsOf l := by
  induction l with
  | nil => simp at ha
  | cons x xs ih =>
    simp only [pairsOf, List.mem_append, List.mem_map, Prod.mk.injEq]
    rcases List.mem_cons.mp ha with rfl | ha'
    · rcases List.mem_cons.mp hb with rfl | hb'
      · exact absurd rfl hab
      · exact Or.inl (Or.inl ⟨b, hb', rfl, rfl⟩)
    · rcases List.mem_cons.mp hb with rfl | hb'
      · exact Or.inr (Or.inl ⟨a, ha', rfl, rfl⟩)
      · rcases ih ha' hb' with h | h
        · exact Or.inl (Or.inr h)
        · exact Or.inr (Or.inr h)

/-- the per-fold-precision branch in closed form -/
theorem foldPrecAlgo_closed (inv : List (List K) → List (List K)) (rm : Bool) (P : Nat)
    (prec : F → List (List K)) (D : List (Obs L F K)) {R : Nat} (hbal : Balanced D R)
    (hM : 2 ≤ (sortedDistinct (D.map (·.fold))).length)
    (hsym : ∀ m ∈ sortedDistinct (D.map (·.fold)), ∀ n ∈ sortedDistinct (D.map (·.fold)), m ≠ n →
      ∀ k l, k < P → l < P → pairPrec inv prec m n k l = pairPrec inv prec m n l k) :
    foldPrecAlgo inv rm P ((sortedDistinct (D.map (·.fold))).map prec) D
      = (pairsOf (sortedDistinct (D.map (·.cond)))).map (fun ab =>
          (ab, foldPrecSpec (xT rm P) P (pairPrec inv prec) D
                (sortedDistinct (D.map (·.fold))) ab.1 ab.2)) := by
  have hperm := sortByCond_perm D
  have hs := sortByCond_sorted D
  have hbal' : Balanced (sortByCond D) R := hbal.perm hperm.symm
  have hfolds : foldsOf (sortByCond D) = sortedDistinct (D.map (·.fold)) := by
    unfold foldsOf
    exact sortedDistinct_congr (fun b => (hperm.map _).mem_iff)
  have hconds : uniqueFirst ((sortByCond D).map (·.cond)) = sortedDistinct (D.map (·.cond)) := by
    rw [uniqueFirst_of_sorted hs]
    exact sortedDistinct_congr (fun b => (hperm.map _).mem_iff)
  unfold foldPrecAlgo
  simp only []
  have hmeas : (foldsOf (sortByCond D)).map (fun f =>
        (averageBy ((sortByCond D).filter (fun r => r.fold = f))).map
          (fun p => xT rm P p.2))
      = (foldsOf (sortByCond D)).map (fun f =>
          (uniqueFirst ((sortByCond D).map (·.cond))).map
            (fun c => foldMean (xT rm P) (sortByCond D) c f)) :=
    List.map_congr_left (fun f hf => test_means_eq (xT rm P) _ hs hbal' hf)
  rw [hmeas, hfolds, hconds]
  set S := sortedDistinct (D.map (·.fold)) with hS
  set conds := sortedDistinct (D.map (·.cond)) with hC
  have hnd : S.Nodup := sortedDistinct_nodup _
  rw [List.map_map, zip_map_map, pairsOf_map, List.map_map]
  simp only [Function.comp_def, single_map]
  have hpne : pairsOf S ≠ [] := by
    intro h
    have := pairsOf_length_two S
    rw [h] at this
    simp at this
    rcases this with h0 | h0
    · rw [h0] at hM; simp at hM
    · omega
  rw [colMean_family _ hpne]
  unfold pairLabels
  rw [averageBy_fst, hconds, zip_map_self]
  apply List.map_congr_left
  intro ab _
  congr 1
  have hfm : ∀ c f, foldMean (xT rm P) (sortByCond D) c f = foldMean (xT rm P) D c f :=
    fun c f => foldMean_perm hperm _ c f
  simp only [hfm, kdiff_kern]
  unfold foldPrecSpec pairAverage
  rw [offDiagSum_eq_pairs hnd]
  have hg : ∀ p ∈ pairsOf S,
      kern P (pairPrec inv prec p.1 p.2)
          (vsubF (foldMean (xT rm P) D ab.1 p.1) (foldMean (xT rm P) D ab.2 p.1))
          (vsubF (foldMean (xT rm P) D ab.1 p.2) (foldMean (xT rm P) D ab.2 p.2)) / ((P : Nat) : K)
        + kern P (pairPrec inv prec p.2 p.1)
          (vsubF (foldMean (xT rm P) D ab.1 p.2) (foldMean (xT rm P) D ab.2 p.2))
          (vsubF (foldMean (xT rm P) D ab.1 p.1) (foldMean (xT rm P) D ab.2 p.1)) / ((P : Nat) : K)
      = 2 * (kern P (pairPrec inv prec p.1 p.2)
          (vsubF (foldMean (xT rm P) D ab.1 p.1) (foldMean (xT rm P) D ab.2 p.1))
          (vsubF (foldMean (xT rm P) D ab.1 p.2) (foldMean (xT rm P) D ab.2 p.2))
            / ((P : Nat) : K)) := by
    intro p hp
    obtain ⟨hp1, hp2⟩ := mem_pairsOf hp
    rw [pairPrec_comm inv prec p.2 p.1,
      kern_symm P (pairPrec inv prec p.1 p.2) (hsym p.1 hp1 p.2 hp2 (pairsOf_ne hnd hp))
        (vsubF (foldMean (xT rm P) D ab.1 p.2) (foldMean (xT rm P) D ab.2 p.2))]
    ring
  rw [lsum_congr hg]
  simp only [lsum_mul_left]
  have h2 : (2 : K) * (((pairsOf S).length : Nat) : K)
      = ((S.length : Nat) : K) * (((S.length : Nat) : K) - 1) := by
    have := pairsOf_length_two S
    have h1 : 1 ≤ S.length := by omega
    have hc : ((2 * (pairsOf S).length : Nat) : K) = ((S.length * (S.length - 1) : Nat) : K) := by
      rw [this]
    push_cast [Nat.cast_sub h1] at hc
    exact hc
  have hlen : (((pairsOf S).length : Nat) : K) ≠ 0 := by
    have : (pairsOf S).length ≠ 0 := fun h => hpne (List.length_eq_zero_iff.mp h)
    exact_mod_cast this
  rw [← h2]
  field_simp
  rfl

/-! ### weights of the pair average -/

section weights
variable {G : Type} [DecidableEq G]

/-- an ordered pair of distinct folds carries the weight `1 / (M (M − 1))` -/
theorem pairAverage_single {S : List G} (hS : S.Nodup) {m0 n0 : G} (hm : m0 ∈ S) (hn : n0 ∈ S)
    (hne : m0 ≠ n0) (v : K) :
    pairAverage S (fun m n => if m = m0 ∧ n = n0 then v else 0)
      = v / (((S.length : Nat) : K) * (((S.length : Nat) : K) - 1)) := by
  unfold pairAverage offDiagSum
  congr 1
  have h1 : ∀ m, ((S.filter (fun n => n ≠ m)).map
        (fun n => if m = m0 ∧ n = n0 then v else 0)).sum = if m = m0 then v else 0 := by
    intro m
    by_cases h : m = m0
    · subst h
      simp only [true_and, if_true]
      apply lsum_ite_single (hS.filter _)
      exact List.mem_filter.mpr ⟨hn, by simpa using fun e : n0 = m => hne e.symm⟩
    · simp only [h, false_and, if_false]
      exact lsum_zero _
  simp only [h1]
  exact lsum_ite_single hS hm v

/-- products of a fold with itself carry weight zero -/
theorem pairAverage_diag (S : List G) (h : G → K) :
    pairAverage S (fun m n => if m = n then h m else 0) = 0 := by
  unfold pairAverage offDiagSum
  have h1 : ∀ m, ((S.filter (fun n => n ≠ m)).map
      (fun n => if m = n then h m else 0)).sum = 0 := by
    intro m
    rw [lsum_congr (g := fun _ => (0 : K))]
    · exact lsum_zero _
    · intro n hn
      have : n ≠ m := by simpa using (List.mem_filter.mp hn).2
      have hmn : ¬ m = n := fun e => this e.symm
      simp [hmn]
  simp only [h1, lsum_zero, zero_div]

theorem pairAverage_congr {S : List G} {g h : G → G → K}
    (e : ∀ m ∈ S, ∀ n ∈ S, m ≠ n → g m n = h m n) : pairAverage S g = pairAverage S h := by
  unfold pairAverage
  rw [offDiagSum_congr e]

end weights

/-! ### default fold descriptor -/

section default
variable {β : Type} [DecidableEq β]

theorem length_occFrom (seen l : List β) : (occFrom seen l).length = l.length := by
  induction l generalizing seen with
  | nil => rfl
  | cons c cs ih => simp [occFrom, ih]

/-- the pair (condition c, occurrence number k) occurs exactly once for every k below the
    number of occurrences of c, and never otherwise -/
theorem count_zip_occFrom (seen l : List β) (c : β) (k : Nat) :
    (l.zip (occFrom seen l)).count (c, k)
      = if seen.count c ≤ k ∧ k < seen.count c + l.count c then 1 else 0 := by
  induction l generalizing seen with
  | nil => simp [occFrom]
  | cons a l ih =>
    simp only [occFrom, List.zip_cons_cons, List.count_cons, ih (a :: seen)]
    by_cases hac : a = c
    · subst hac
      simp only [beq_self_eq_true, if_true, Prod.mk.injEq, true_and]
      by_cases hk : seen.count a = k
      · subst hk
        simp
      · have : ¬ ((a, seen.count a) == (a, k)) = true := by simp [hk]
        simp only [this, if_false]
        simp only [Bool.false_eq_true, if_false, Nat.add_zero]
        split_ifs with h1 h2 h2 <;> first | rfl | omega
    · have h1 : (a == c) = false := by simp [hac]
      have h2 : ((a, seen.count a) == (c, k)) = false := by simp [hac]
      simp [h1, h2]

end default

end Rsa.CrossVal
