/- helper lemmas for C01: channel sums, condition means, the four algebraic identities -/
import Mathlib.Algebra.BigOperators.Group.Finset.Basic
import Mathlib.Algebra.BigOperators.Ring.Finset
import Mathlib.Algebra.BigOperators.Field
import Mathlib.Algebra.BigOperators.Group.List.Basic
import Mathlib.Algebra.Order.Field.Basic
import Mathlib.Tactic.Ring
import Mathlib.Tactic.FieldSimp
import Mathlib.Tactic.Linarith
import Mathlib.Tactic.Positivity
import Rsa.Core.Calc
import Rsa.Lemmas.Tri
import Rsa.Lemmas.C01Label

set_option linter.unusedSectionVars false
set_option linter.unusedVariables false

namespace Rsa.Calc

open Rsa

/-! ### list plumbing (any element type) -/

section plumbing
variable {α : Type}

theorem extractTriuAux_map {β : Type} (f : β → β → α) (pre M : List β) :
    extractTriuAux pre.length (M.map (fun a => (pre ++ M).map (f a))) =
      (pairsOf M).map (fun p => f p.1 p.2) := by
  induction M generalizing pre with
  | nil => simp [extractTriuAux, pairsOf]
  | cons a M' ih =>
    have h := ih (pre ++ [a])
    simp only [List.length_append, List.length_singleton, List.append_assoc,
      List.singleton_append] at h
    have hd : List.drop (pre.length + 1) (pre ++ a :: M') = M' := by
      have : pre ++ a :: M' = (pre ++ [a]) ++ M' := by simp
      rw [this]
      exact List.drop_left' (by simp)
    show ((pre ++ a :: M').map (f a)).drop (pre.length + 1) ++
        extractTriuAux (pre.length + 1) (M'.map fun a' => (pre ++ a :: M').map (f a')) = _
    rw [h, ← List.map_drop, hd]
    simp [pairsOf, List.map_map, Function.comp_def]

theorem extractTriu_map {β : Type} (f : β → β → α) (M : List β) :
    extractTriu (M.map (fun a => M.map (f a))) = (pairsOf M).map (fun p => f p.1 p.2) := by
  have := extractTriuAux_map f [] M
  simpa [extractTriu] using this

end plumbing

/-! ### selection by inverse index = selection by label -/

section sel
variable {α : Type} {L : Type} [DecidableEq L]

theorem idxOf_eq_iff_of_nodup {us : List L} (hnd : us.Nodup) {a : L} (ha : a ∈ us) {i : Nat}
    (hi : i < us.length) : us.idxOf a = i ↔ a = us[i] := by
  constructor
  · intro h
    subst h
    exact (List.getElem_idxOf _).symm
  · intro h
    subst h
    exact hnd.idxOf_getElem i hi

theorem filterMap_idx_eq (obs : List (L × Row α)) (us : List L) (hnd : us.Nodup)
    (hmem : ∀ p ∈ obs, p.1 ∈ us) (i : Nat) (hi : i < us.length) :
    obs.filterMap (fun p => if us.idxOf p.1 = i then some p.2 else none) =
      (obs.filter (fun p => decide (p.1 = us[i]))).map (fun p => p.2) := by
  induction obs with
  | nil => simp
  | cons p ps ih =>
    have hp : p.1 ∈ us := hmem p List.mem_cons_self
    have ih' := ih (fun q hq => hmem q (List.mem_cons_of_mem _ hq))
    simp only [List.filterMap_cons, List.filter_cons]
    by_cases h : p.1 = us[i]
    · have e : us.idxOf p.1 = i := (idxOf_eq_iff_of_nodup hnd hp hi).mpr h
      rw [if_pos e, if_pos (by simpa using h), List.map_cons, ih']
    · have e : ¬ us.idxOf p.1 = i := fun e => h ((idxOf_eq_iff_of_nodup hnd hp hi).mp e)
      rw [if_neg e, if_neg (by simpa using h), ih']

theorem selRows_eq (obs : List (L × Row α)) (us : List L) (hnd : us.Nodup)
    (hmem : ∀ p ∈ obs, p.1 ∈ us) (i : Nat) (hi : i < us.length) :
    selRows (obs.map (fun p => p.2)) ((obs.map (fun p => p.1)).map (fun x => us.idxOf x)) i =
      (obs.filter (fun p => decide (p.1 = us[i]))).map (fun p => p.2) := by
  unfold selRows
  rw [List.map_map, List.zip_map', List.filterMap_map]
  exact filterMap_idx_eq obs us hnd hmem i hi

end sel

/-! ### sums over channels -/

section sums
variable {K : Type} [Field K]

theorem sumTo_eq_sum (n : Nat) (f : Nat → K) : sumTo n f = ∑ i ∈ Finset.range n, f i := by
  induction n with
  | zero => simp [sumTo]
  | succ n ih => rw [sumTo, ih, Finset.sum_range_succ]

theorem sumTo_congr {n : Nat} {f g : Nat → K} (h : ∀ i, i < n → f i = g i) :
    sumTo n f = sumTo n g := by
  rw [sumTo_eq_sum, sumTo_eq_sum]
  exact Finset.sum_congr rfl (fun i hi => h i (Finset.mem_range.mp hi))

variable {L : Type} [DecidableEq L]

/-- `average_dataset_by` as coded = mean of the rows carrying each label -/
theorem condMeans_eq (obs : List (L × Row K)) :
    condMeans obs = (uniqueFirst (obs.map (fun p => p.1))).map (meanOf obs) := by
  unfold condMeans
  apply List.ext_getElem
  · simp
  · intro i h1 h2
    simp only [List.getElem_map, List.getElem_range]
    unfold meanOf
    congr 1
    have hi : i < (uniqueFirst (obs.map fun p => p.1)).length := by simpa using h2
    exact selRows_eq obs _ (nodup_uniqueFirst _)
      (fun p hp => mem_uniqueFirst.mpr (List.mem_map.mpr ⟨p, hp, rfl⟩)) i hi

/-- the mean pattern of a condition depends only on the multiset of (label, row) pairs -/
theorem meanOf_perm {obs₁ obs₂ : List (L × Row K)} (h : obs₁.Perm obs₂) (u : L) :
    meanOf obs₁ u = meanOf obs₂ u := by
  unfold meanOf colMean
  funext c
  have hp : ((obs₁.filter (fun p => decide (p.1 = u))).map (fun p => p.2)).Perm
      ((obs₂.filter (fun p => decide (p.1 = u))).map (fun p => p.2)) := (h.filter _).map _
  rw [(hp.map (fun r => r c)).sum_eq, hp.length_eq]

/-! ### the four identities (entry of the coded matrix = specified formula) -/

theorem euclid_entry (P : Nat) (a b : Row K) :
    (dotP P a a + dotP P b b - ((2 : Nat) : K) * dotP P a b) / (P : K) = euclidSpec P a b := by
  unfold euclidSpec dotP
  congr 1
  simp only [sumTo_eq_sum, Finset.mul_sum, ← Finset.sum_add_distrib, ← Finset.sum_sub_distrib]
  apply Finset.sum_congr rfl
  intro i _
  push_cast
  ring

/-- bilinear form `xᵀ N y` as a double sum -/
def bil (P : Nat) (N : Nat → Nat → K) (x y : Row K) : K :=
  ∑ i ∈ Finset.range P, ∑ j ∈ Finset.range P, x i * N i j * y j

theorem mahalKernel_eq_bil (P : Nat) (N : Nat → Nat → K) (x y : Row K) :
    mahalKernel P N x y = bil P N x y := by
  unfold mahalKernel bil
  simp only [sumTo_eq_sum, Finset.sum_mul]
  rw [Finset.sum_comm]

theorem bil_symm (P : Nat) (N : Nat → Nat → K) (hN : ∀ i j, N i j = N j i) (x y : Row K) :
    bil P N x y = bil P N y x := by
  unfold bil
  rw [Finset.sum_comm]
  apply Finset.sum_congr rfl
  intro i _
  apply Finset.sum_congr rfl
  intro j _
  rw [hN j i]
  ring

theorem bil_sub_sub (P : Nat) (N : Nat → Nat → K) (a b : Row K) :
    bil P N (fun i => a i - b i) (fun i => a i - b i) =
      bil P N a a - bil P N a b - bil P N b a + bil P N b b := by
  unfold bil
  simp only [← Finset.sum_add_distrib, ← Finset.sum_sub_distrib]
  apply Finset.sum_congr rfl
  intro i _
  apply Finset.sum_congr rfl
  intro j _
  ring

theorem mahal_entry (P : Nat) (N : Nat → Nat → K) (hN : ∀ i j, N i j = N j i) (a b : Row K) :
    (mahalKernel P N b b + mahalKernel P N a a - ((2 : Nat) : K) * mahalKernel P N a b) / (P : K)
      = mahalSpec P N a b := by
  have hs : mahalSpec P N a b = bil P N (fun i => a i - b i) (fun i => a i - b i) / (P : K) := by
    unfold mahalSpec bil
    simp only [sumTo_eq_sum]
  rw [hs, bil_sub_sub, mahalKernel_eq_bil, mahalKernel_eq_bil, mahalKernel_eq_bil,
    bil_symm P N hN b a]
  congr 1
  push_cast
  ring

theorem poisson_entry (P : Nat) (lg : K → K) (a b : Row K) :
    (poissonKernel P lg b b + poissonKernel P lg a a - poissonKernel P lg a b
      - poissonKernel P lg b a) / (P : K) = poissonSpec P lg a b := by
  unfold poissonSpec poissonKernel
  congr 1
  simp only [sumTo_eq_sum, ← Finset.sum_add_distrib, ← Finset.sum_sub_distrib]
  apply Finset.sum_congr rfl
  intro i _
  ring

end sums

/-! ### correlation -/

section corr
variable {K : Type} [Field K] [LinearOrder K] [IsStrictOrderedRing K]

/-- what the code needs of `np.sqrt` -/
def IsSqrt (sqrt : K → K) : Prop := ∀ x, 0 ≤ x → 0 ≤ sqrt x ∧ sqrt x * sqrt x = x

/-- `remove_mean` as coded (translated leaf) is the row-centred pattern -/
theorem centreC_eq (P : Nat) (x : Row K) : centreC P x = centre P x := by
  funext c
  simp [centreC, centre, Rsa.Gen.C01.removeMean]

theorem dotP_self_nonneg (P : Nat) (x : Row K) : 0 ≤ dotP P x x := by
  unfold dotP
  rw [sumTo_eq_sum]
  exact Finset.sum_nonneg (fun i _ => mul_self_nonneg _)

theorem covP_eq (P : Nat) (a b : Row K) : covP P a b = dotP P (centre P a) (centre P b) / (P : K) := rfl

theorem dot_unitRow (P : Nat) (sqrt : K → K) (a b : Row K) :
    dotP P (unitRow P sqrt a) (unitRow P sqrt b) =
      dotP P (centre P a) (centre P b) /
        (sqrt (dotP P (centre P a) (centre P a)) * sqrt (dotP P (centre P b) (centre P b))) := by
  unfold unitRow
  simp only [centreC_eq, Rsa.Gen.C01.corrUnit]
  unfold dotP
  simp only [sumTo_eq_sum, Finset.sum_div]
  apply Finset.sum_congr rfl
  intro i _
  rw [div_mul_div_comm]

theorem corr_entry (P : Nat) (hP : 0 < P) (sqrt : K → K) (hs : IsSqrt sqrt) (a b : Row K) :
    1 - dotP P (unitRow P sqrt a) (unitRow P sqrt b) = corrSpec P sqrt a b := by
  unfold corrSpec
  rw [dot_unitRow, covP_eq, covP_eq, covP_eq]
  set A := dotP P (centre P a) (centre P a) with hA
  set B := dotP P (centre P b) (centre P b) with hB
  set S := dotP P (centre P a) (centre P b) with hS
  have hA0 : 0 ≤ A := dotP_self_nonneg P _
  have hB0 : 0 ≤ B := dotP_self_nonneg P _
  have hPK : (0 : K) < (P : K) := by exact_mod_cast hP
  have hAP : 0 ≤ A / (P : K) := div_nonneg hA0 hPK.le
  have hBP : 0 ≤ B / (P : K) := div_nonneg hB0 hPK.le
  obtain ⟨sA0, sA⟩ := hs A hA0
  obtain ⟨sB0, sB⟩ := hs B hB0
  obtain ⟨sAP0, sAP⟩ := hs _ hAP
  obtain ⟨sBP0, sBP⟩ := hs _ hBP
  have key : sqrt (A / (P : K)) * sqrt (B / (P : K)) = sqrt A * sqrt B / (P : K) := by
    have h1 : 0 ≤ sqrt (A / (P : K)) * sqrt (B / (P : K)) := mul_nonneg sAP0 sBP0
    have h2 : 0 ≤ sqrt A * sqrt B / (P : K) := div_nonneg (mul_nonneg sA0 sB0) hPK.le
    have h3 : (sqrt (A / (P : K)) * sqrt (B / (P : K))) ^ 2 = (sqrt A * sqrt B / (P : K)) ^ 2 := by
      have e1 : (sqrt (A / (P : K)) * sqrt (B / (P : K))) ^ 2 =
          (sqrt (A / (P : K)) * sqrt (A / (P : K))) * (sqrt (B / (P : K)) * sqrt (B / (P : K))) := by ring
      have e2 : (sqrt A * sqrt B / (P : K)) ^ 2 =
          (sqrt A * sqrt A) * (sqrt B * sqrt B) / ((P : K) * (P : K)) := by ring
      rw [e1, e2, sAP, sBP, sA, sB]
      field_simp
    exact (sq_eq_sq₀ h1 h2).mp h3
  rw [key]
  congr 1
  have hne : (P : K) ≠ 0 := hPK.ne'
  field_simp

end corr

end Rsa.Calc
