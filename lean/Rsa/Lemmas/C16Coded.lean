/- helper lemmas for property C16: the writer / `save` as coded (generated dispatch leaves) equal
   the specification; merging into a used handle -/
import Rsa.Lemmas.C16FS

set_option linter.unusedSectionVars false
set_option linter.unusedVariables false
set_option linter.unusedSimpArgs false

namespace Rsa.Store

open Rsa.Gen.C16

/-! ### the isinstance chain of `_write_to_group` -/

/-- the branch every Python type takes, with the chain in its current source order -/
theorem writeBranch_table :
    writeBranch .str = 1 ∧ writeBranch .ndarray = 2 ∧ writeBranch .list = 3 ∧
    writeBranch .dict = 4 ∧ writeBranch .none = 5 ∧ writeBranch .tuple = 6 ∧
    writeBranch .scalar = 7 := by decide

theorem listDispatch_table (o u : Nat) :
    listDispatch 1 0 o u = 3 ∧ listDispatch 0 1 o u = 3 ∧ listDispatch 0 0 1 u = 3 ∧
    listDispatch 0 0 0 1 = 1 ∧ listDispatch 0 0 0 0 = 2 := by
  refine ⟨by simp [listDispatch], by simp [listDispatch], by simp [listDispatch], by decide, by decide⟩

theorem writeArray_eq (c : Codec) (cont : Cont) (sh : List Nat) (el : List Atom) (h : cont ≠ .tuple) :
    writeArray c sh el = encodeLeaf c (.tens cont sh el) := by
  simp [writeArray, encodeLeaf, h]

theorem writeListC_eq (c : Codec) (sh : List Nat) (el : List Atom) :
    writeListC c sh el = writeArray c sh el := by
  unfold writeListC
  by_cases h : (!el.all Atom.isNum && el.all Atom.isStr) = true
  · simp [h, b2n, (listDispatch_table 0 0).2.2.2.1]
  · have h' : (!el.all Atom.isNum && el.all Atom.isStr) = false := by simpa using h
    simp [h', b2n, (listDispatch_table 0 0).2.2.2.2]

/-- the leaf writer as coded is the specification, for every value that is not a dictionary -/
theorem encodeLeafC_eq (c : Codec) (v : Val) : encodeLeafC c v = encodeLeaf c v := by
  obtain ⟨t1, t2, t3, t4, t5, t6, t7⟩ := writeBranch_table
  cases v with
  | none => simp [encodeLeafC, pyTypeOf, t5, encodeLeaf]
  | str s => simp [encodeLeafC, pyTypeOf, t1, encodeLeaf]
  | dnil => simp [encodeLeafC, pyTypeOf, t4, encodeLeaf]
  | dcons k v r =>
    by_cases hk : k = listKey
    · simp [encodeLeafC, pyTypeOf, hk, t3, encodeLeaf]
    · simp [encodeLeafC, pyTypeOf, hk, t4, encodeLeaf]
  | tens cont sh el =>
    cases cont with
    | scalar =>
      simp only [encodeLeafC, pyTypeOf, t7]
      exact writeArray_eq c .scalar sh el (by decide)
    | nd =>
      simp only [encodeLeafC, pyTypeOf, t2]
      exact writeArray_eq c .nd sh el (by decide)
    | list =>
      simp only [encodeLeafC, pyTypeOf, t3]
      rw [writeListC_eq]
      exact writeArray_eq c .list sh el (by decide)
    | tuple =>
      simp only [encodeLeafC, pyTypeOf, t6]
      by_cases hn : el.all Atom.isNum = true
      · simp [hn, writeListC_eq, writeArray, encodeLeaf]
      · by_cases hs : el.all Atom.isStr = true
        · simp [hn, hs, encodeLeaf]
        · simp [hn, hs, encodeLeaf]

/-- `_write_to_group` as coded (generated dispatch, generated try / except) is `encode` -/
theorem encodeC_eq (c : Codec) (d : Val) : encodeC c d = encode c d := by
  obtain ⟨t1, t2, t3, t4, t5, t6, t7⟩ := writeBranch_table
  induction d with
  | none => rfl
  | str s => rfl
  | tens cont sh el => rfl
  | dnil => rfl
  | dcons k v r ihv ihr =>
    have hitem : itemC c v (encode c v) = (if v.isDict then encode c v else encodeLeaf c v) := by
      unfold itemC
      cases v with
      | none => simp [pyTypeOf, t5, Val.isDict, encodeLeafC_eq]
      | str s => simp [pyTypeOf, t1, Val.isDict, encodeLeafC_eq]
      | dnil => simp [pyTypeOf, t4, Val.isDict]
      | dcons k' v' r' =>
        by_cases hk : k' = listKey
        · subst hk
          simp [pyTypeOf, t3, Val.isDict, (listDispatch_table 0 0).1, (listDispatch_table 0 0).2.1,
            (listDispatch_table 0 0).2.2.1]
        · simp [pyTypeOf, hk, t4, Val.isDict]
      | tens cont sh el =>
        cases cont <;> simp [pyTypeOf, t2, t3, t6, t7, Val.isDict, encodeLeafC_eq]
    simp only [encodeC, encode, ihv, hitem, ihr]

theorem encodeItemC_eq (c : Codec) (v : Val) : encodeItemC c v = encodeItem c v := by
  unfold encodeItemC encodeItem
  rw [encodeC_eq]
  simp only [encode, bind, Except.bind, pure, Except.pure]
  cases h : (if v.isDict = true then encode c v else encodeLeaf c v) <;> simp [h]

/-! ### `save` as coded -/

/-- the existence guard of `write_dict_hdf5`: a `str` *and* any other path object (`bytes`,
    `os.PathLike`) that exists is refused; nothing else is -/
theorem guard_table : guard 1 0 1 = 1 ∧ guard 0 1 1 = 1 ∧ guard 1 1 1 = 1 ∧ guard 0 0 1 = 0 ∧
    (∀ a b, guard a b 0 = 0) := by
  refine ⟨by decide, by decide, by decide, by decide, fun a b => ?_⟩
  simp [Rsa.Gen.C16.guard]

theorem guard_eq (a o b : Bool) : (guard (b2n a) (b2n o) (b2n b) == 1) = ((a || o) && b) := by
  cases a <;> cases o <;> cases b <;> decide

theorem isPath_split (t : Target) : (t.isStr || t.isOtherPath) = t.isPath := by
  cases h1 : t.isPath <;> cases h2 : t.asStr <;> simp [Target.isStr, Target.isOtherPath, h1, h2]

theorem writeDictC_eq (c : Codec) (fs : FS) (t : Target) (ft : FType) (rm : Bool) (d : Val) :
    writeDictC c fs t ft rm d = writeDict c fs t ft rm d := by
  unfold writeDictC writeDict
  have h1 : encodeC c = encode c := funext (encodeC_eq c)
  have h2 : encodeItemC c = encodeItem c := funext (encodeItemC_eq c)
  have h3 : (fun isStr isOther ex => guard (b2n isStr) (b2n isOther) (b2n ex) == 1) =
      (fun isStr isOther ex => (isStr || isOther) && ex) := by
    funext a o b; exact guard_eq a o b
  rw [h1, h2, h3]

/-- which steps `save` runs, for every kind: the writer of the requested type, after
    `remove_file` exactly when `overwrite` was passed -/
theorem planOf_table (k : Kind) (ov : Bool) :
    planOf k .hdf5 ov = 2 + b2n ov ∧ planOf k .pkl ov = 4 + b2n ov := by
  cases k <;> cases ov <;> decide

theorem saveC_eq (c : Codec) (k : Kind) (fs : FS) (t : Target) (ft : FType) (ov : Bool) (o : Val) :
    saveC c k fs t ft ov o = save c k fs t ft ov o := by
  unfold saveC save
  cases hd : toDict k o with
  | error e => rfl
  | ok d =>
    cases ft <;> cases ov <;>
      simp [(planOf_table k true).1, (planOf_table k true).2, (planOf_table k false).1,
        (planOf_table k false).2, b2n, writeDictC_eq]

theorem saveDefault_table (k : Kind) : saveDefault k = (.hdf5, false) := by
  cases k <;> decide

/-! ### detection of the file type from the name -/

theorem detect_table :
    (∀ b c, detectRdm 1 b c = 1 ∧ detectDataset 1 b c = 1 ∧ detectResults 1 b c = 1) ∧
    (∀ c, detectRdm 0 1 c = 2 ∧ detectDataset 0 1 c = 2 ∧ detectResults 0 1 c = 2) ∧
    (detectRdm 0 0 1 = 2 ∧ detectDataset 0 0 1 = 2 ∧ detectResults 0 0 1 = 2) ∧
    (detectRdm 0 0 0 = 0 ∧ detectDataset 0 0 0 = 0 ∧ detectResults 0 0 0 = 0) := by
  refine ⟨fun b c => ?_, fun c => ?_, by decide, by decide⟩
  · simp [detectRdm, detectDataset, detectResults]
  · simp [detectRdm, detectDataset, detectResults]

/-! ### lists that are no arrays -/

theorem isList_mkList (items : Val) : (mkList items).isList = true := by
  simp [mkList, Val.isList]

theorem toListVal_of_isList (v : Val) (h : v.isList = true) : toListVal v = .ok v := by
  cases v with
  | dcons k x r =>
    have hk : k = listKey := by simpa [Val.isList] using h
    simp [toListVal, hk]
  | none => simp [Val.isList] at h
  | str s => simp [Val.isList] at h
  | tens c sh el => simp [Val.isList] at h
  | dnil => simp [Val.isList] at h

theorem isList_of_norm_eq {a b : Val} (h : norm a = norm b) : a.isList = b.isList := by
  cases a <;> cases b <;> simp [norm] at h <;> try rfl
  rename_i k v r k' v' r'
  simp [Val.isList, h.1]

/-! ### a second save into a used handle -/

theorem writeInto_collision (item : Val → Except Err H5) (g : H5) (k : String) (v r : Val) (it : H5)
    (hi : item v = .ok it) (hna : it.isAttr = false) (hl : g.hasLink k = true) :
    writeInto item g (.dcons k v r) = (g, some .nameExists) := by
  simp [writeInto, hi, hna, hl]

theorem hasLink_encode_head (c : Codec) (k : String) (v r : Val) (t : H5) (it : H5)
    (hi : encodeItem c v = .ok it) (hna : it.isAttr = false)
    (he : encode c (.dcons k v r) = .ok t) : t.hasLink k = true := by
  simp only [encode, bind, Except.bind] at he
  unfold encodeItem at hi
  rw [hi] at he
  simp only at he
  cases hr : encode c r with
  | error e => simp [hr] at he
  | ok rest =>
    simp [hr, pure, Except.pure] at he
    subst he
    simp [H5.hasLink, hna]

/-! ### the field accesses of `*_from_dict` (round 6) -/

/-- a reading rule that uses the stored value whenever the key is there — whatever its truth
    value — and leaves absence to `None` (optional) or `KeyError` (required) -/
def GoodRule (r : Nat → Nat → Nat) : Prop :=
  r 1 0 = 1 ∧ r 1 1 = 1 ∧ (r 0 0 = 0 ∨ r 0 0 = 3)

/-- the generated leaves, field by field -/
theorem fromDict_leaf_table :
    (∀ i, i < 12 → GoodRule (fromDictResult i)) ∧ (∀ i, i < 5 → GoodRule (fromDictRdms i)) ∧
    (∀ i, i < 6 → GoodRule (fromDictDataset i)) ∧ GoodRule (fromDictModel 1) ∧
    GoodRule (fromDictModel 2) ∧
    -- a model's `rdm` is the one field read by truth value: `None` (and nothing else the writer
    -- produces is falsy there) means "no RDMs"
    fromDictModel 0 1 1 = 1 ∧ fromDictModel 0 1 0 = 0 ∧ fromDictModel 0 0 0 = 3 := by
  unfold GoodRule
  decide

theorem fieldRule_good (k : Kind) (i : Nat) (hi : i < (fieldNames k).length) :
    GoodRule (fieldRule k i) := by
  obtain ⟨hr, hd, hs, hm1, hm2, _⟩ := fromDict_leaf_table
  cases k with
  | rdms => exact hd i (by simpa [fieldNames] using hi)
  | dataset => exact hs i (by simpa [fieldNames] using hi)
  | result => exact hr i (by simpa [fieldNames] using hi)
  | model =>
      have : i = 0 ∨ i = 1 := by
        simp [fieldNames] at hi
        omega
      rcases this with h | h <;> subst h
      · exact hm1
      · exact hm2

theorem readField_good (r : Nat → Nat → Nat) (h : GoodRule r) (d : Val) (k : String) :
    readField r d k = .ok d := by
  obtain ⟨h0, h1, ha⟩ := h
  unfold readField
  cases hg : d.get? k with
  | some v =>
      cases hb : pyTruthy v <;> simp [hg, hb, b2n, h0, h1]
  | none =>
      rcases ha with ha | ha <;> simp [hg, ha]

theorem readFields_good (rule : Nat → Nat → Nat → Nat) (ks : List String) (i : Nat) (d : Val)
    (h : ∀ j, j < ks.length → GoodRule (rule (i + j))) : readFields rule ks i d = .ok d := by
  induction ks generalizing i with
  | nil => rfl
  | cons k ks ih =>
      have h0 : GoodRule (rule i) := by simpa using h 0 (by simp)
      have hrest : ∀ j, j < ks.length → GoodRule (rule (i + 1 + j)) := by
        intro j hj
        have := h (j + 1) (by simp; omega)
        simpa [Nat.add_assoc, Nat.add_comm 1 j] using this
      simp [readFields, readField_good _ h0, ih (i + 1) hrest, bind, Except.bind]

/-- `*_from_dict` with the field accesses as coded is the `fromDict` of all other theorems -/
theorem fromDictC_eq (k : Kind) (d : Val) : fromDictC k d = fromDict k d := by
  unfold fromDictC
  rw [readFields_good (fieldRule k) (fieldNames k) 0 d
    (fun j hj => by simpa using fieldRule_good k j hj)]
  rfl


end Rsa.Store
