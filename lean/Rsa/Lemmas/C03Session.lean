/-
  Helper lemmas for the reuse-session model of property C03 (`Rsa.Core.C03Passes`, section 4):
  frame reasoning on the tiny heap.  `Pres k st st'` = the first `k` cells are untouched.
-/
import Rsa.Core.C03Passes

set_option linter.unusedSectionVars false
set_option linter.unusedVariables false
set_option linter.unusedSimpArgs false

namespace Rsa.Compare

variable {β γ : Type}

/-- the first `k` cells of the store are unchanged (and still there) -/
def Pres (k : Nat) (st st' : Store β) : Prop :=
  st.length ≤ st'.length ∧ ∀ i, i < k → st'.getD i [] = st.getD i []

theorem Pres.refl (k : Nat) (st : Store β) : Pres k st st := ⟨Nat.le_refl _, fun _ _ => rfl⟩

theorem Pres.trans {k : Nat} {s1 s2 s3 : Store β} (h1 : Pres k s1 s2) (h2 : Pres k s2 s3) :
    Pres k s1 s3 :=
  ⟨Nat.le_trans h1.1 h2.1, fun i hi => (h2.2 i hi).trans (h1.2 i hi)⟩

theorem getD_append_lt (st : Store β) (x : List β) (i : Nat) (h : i < st.length) :
    (st ++ [x]).getD i [] = st.getD i [] := by
  simp [List.getD, List.getElem?_append_left h]

theorem getD_append_len (st : Store β) (x : List β) :
    (st ++ [x]).getD st.length [] = x := by
  simp [List.getD]

theorem getD_set_ne (st : Store β) (x : List β) (v i : Nat) (h : v ≠ i) :
    (st.set v x).getD i [] = st.getD i [] := by
  simp [List.getD, List.getElem?_set_ne h]

theorem getD_set_eq (st : Store β) (x : List β) (v : Nat) (h : v < st.length) :
    (st.set v x).getD v [] = x := by
  simp [List.getD, List.getElem?_set_self h]

/-- allocating a cell keeps every existing cell -/
theorem pres_append (k : Nat) (st : Store β) (x : List β) (hk : k ≤ st.length) :
    Pres k st (st ++ [x]) :=
  ⟨by simp, fun i hi => getD_append_lt st x i (Nat.lt_of_lt_of_le hi hk)⟩

/-- writing a cell at or above `k` keeps the first `k` cells -/
theorem pres_set (k : Nat) (st : Store β) (x : List β) (v : Nat) (hv : k ≤ v) :
    Pres k st (st.set v x) :=
  ⟨by simp, fun i hi => getD_set_ne st x v i (by omega)⟩

/-- the parser: the parsed cell holds the contents of the argument; the first `k` cells are kept;
    without aliasing the parsed cell is a new one -/
theorem parseCell_spec (alias : Bool) (st : Store β) (a k : Nat) (ha : a < st.length)
    (hk : k ≤ st.length) :
    Pres k st (parseCell alias st a).1 ∧
    (parseCell alias st a).1.getD (parseCell alias st a).2 [] = st.getD a [] ∧
    (parseCell alias st a).2 < (parseCell alias st a).1.length ∧
    (alias = false → st.length ≤ (parseCell alias st a).2) := by
  cases alias
  · simp only [parseCell, Bool.false_eq_true, if_false]
    exact ⟨pres_append k st _ hk, getD_append_len st _, by simp, fun _ => Nat.le_refl _⟩
  · have e : parseCell true st a = (st, a) := rfl
    rw [e]
    exact ⟨Pres.refl k st, rfl, ha, fun h => by cases h⟩

/-- the pre-processing statement: the resulting cell holds the pre-processed rows; cells below `k`
    are kept when the statement rebinds, or when it writes into a cell at or above `k` -/
theorem preCell_spec (inplace : Bool) (pre : β → β) (st : Store β) (v k : Nat) (hv : v < st.length)
    (hk : k ≤ st.length) (h : inplace = false ∨ k ≤ v) :
    Pres k st (preCell inplace pre st v).1 ∧
    (preCell inplace pre st v).1.getD (preCell inplace pre st v).2 [] = (st.getD v []).map pre ∧
    (preCell inplace pre st v).2 < (preCell inplace pre st v).1.length ∧
    (∀ i, i ≠ v → i < st.length → (preCell inplace pre st v).1.getD i [] = st.getD i []) := by
  cases inplace
  · simp only [preCell, Bool.false_eq_true, if_false]
    exact ⟨pres_append k st _ hk, getD_append_len st _, by simp,
      fun i _ hi => getD_append_lt st _ i hi⟩
  · simp only [preCell, if_true]
    have hkv : k ≤ v := by
      rcases h with h | h
      · cases h
      · exact h
    exact ⟨pres_set k st _ v hkv, getD_set_eq st _ v hv, by simpa using hv,
      fun i hi _ => getD_set_ne st _ v i (fun e => hi e.symm)⟩

/-- **one safe call**: the caller's cells (all cells that existed before the call) are untouched and
    the result is the measure of the pre-processed *original* stacks -/
theorem callStep_safe (c : Call β γ) (hs : c.safe = true) (st : Store β) (a b : Nat)
    (ha : a < st.length) (hb : b < st.length) :
    Pres st.length st (callStep c st a b).1 ∧
    (callStep c st a b).2 = compareAll c.f ((st.getD a []).map c.pre) ((st.getD b []).map c.pre) := by
  obtain ⟨al, ip, pre, f⟩ := c
  simp only [Call.safe] at hs
  have k0 : st.length ≤ st.length := Nat.le_refl _
  -- first argument
  obtain ⟨P1, C1, L1, F1⟩ := parseCell_spec al st a st.length ha k0
  -- second argument (parsed in the store after the first parse)
  have hb1 : b < (parseCell al st a).1.length := Nat.lt_of_lt_of_le hb P1.1
  obtain ⟨P2, C2, L2, F2⟩ := parseCell_spec al (parseCell al st a).1 b st.length hb1 P1.1
  have C2' : (parseCell al (parseCell al st a).1 b).1.getD (parseCell al (parseCell al st a).1 b).2 []
      = st.getD b [] := by rw [C2]; exact P1.2 b hb
  -- the cell of the first parsed stack is still intact after the second parse
  have L1' : (parseCell al st a).2 < (parseCell al (parseCell al st a).1 b).1.length := by
    cases al <;> simp [parseCell] <;> omega
  have C1' : (parseCell al (parseCell al st a).1 b).1.getD (parseCell al st a).2 [] = st.getD a [] := by
    cases al
    · simp only [parseCell, Bool.false_eq_true, if_false]
      rw [getD_append_lt _ _ _ (by simp), getD_append_len]
    · simp only [parseCell, if_true]
  have side : ip = false ∨ al = false := by
    cases al <;> cases ip <;> simp_all
  -- pre-processing of the first stack
  have g1 : ip = false ∨ st.length ≤ (parseCell al st a).2 := by
    rcases side with h | h
    · exact Or.inl h
    · exact Or.inr (F1 h)
  obtain ⟨Q1, D1, M1, K1⟩ := preCell_spec ip pre (parseCell al (parseCell al st a).1 b).1
    (parseCell al st a).2 st.length L1' (Nat.le_trans P1.1 P2.1) g1
  -- pre-processing of the second stack
  have g2 : ip = false ∨ st.length ≤ (parseCell al (parseCell al st a).1 b).2 := by
    rcases side with h | h
    · exact Or.inl h
    · exact Or.inr (Nat.le_trans P1.1 (F2 h))
  have L2' : (parseCell al (parseCell al st a).1 b).2 <
      (preCell ip pre (parseCell al (parseCell al st a).1 b).1 (parseCell al st a).2).1.length :=
    Nat.lt_of_lt_of_le L2 Q1.1
  obtain ⟨Q2, D2, M2, K2⟩ := preCell_spec ip pre
    (preCell ip pre (parseCell al (parseCell al st a).1 b).1 (parseCell al st a).2).1
    (parseCell al (parseCell al st a).1 b).2 st.length L2'
    (Nat.le_trans (Nat.le_trans P1.1 P2.1) Q1.1) g2
  refine ⟨(P1.trans P2).trans (Q1.trans Q2), ?_⟩
  simp only [callStep]
  -- contents of the two cells the measure reads
  have E2 : (preCell ip pre (preCell ip pre (parseCell al (parseCell al st a).1 b).1
      (parseCell al st a).2).1 (parseCell al (parseCell al st a).1 b).2).1.getD
      (preCell ip pre (preCell ip pre (parseCell al (parseCell al st a).1 b).1
      (parseCell al st a).2).1 (parseCell al (parseCell al st a).1 b).2).2 []
      = (st.getD b []).map pre := by
    rw [D2]
    -- the second parsed cell was not disturbed by the first pre-processing
    cases ip
    · simp only [preCell, Bool.false_eq_true, if_false]
      rw [getD_append_lt _ _ _ L2, C2']
    · have hal : al = false := by rcases side with h | h; cases h; exact h
      subst hal
      simp only [preCell, if_true, parseCell, Bool.false_eq_true, if_false]
      rw [getD_set_ne _ _ _ _ (by simp), getD_append_len]
      exact P1.2 b hb |>.symm ▸ (by simp [parseCell, getD_append_lt _ _ _ hb])
  have E1 : (preCell ip pre (preCell ip pre (parseCell al (parseCell al st a).1 b).1
      (parseCell al st a).2).1 (parseCell al (parseCell al st a).1 b).2).1.getD
      (preCell ip pre (parseCell al (parseCell al st a).1 b).1 (parseCell al st a).2).2 []
      = (st.getD a []).map pre := by
    cases ip
    · simp only [preCell, Bool.false_eq_true, if_false]
      rw [getD_append_lt _ _ _ (by simp), getD_append_len, C1']
    · have hal : al = false := by rcases side with h | h; cases h; exact h
      subst hal
      simp only [preCell, if_true, parseCell, Bool.false_eq_true, if_false]
      rw [getD_set_ne _ _ _ _ (by simp), getD_set_eq _ _ _ (by simp)]
      rw [getD_append_lt _ _ _ (by simp), getD_append_len]
  rw [E1, E2]

/-- **a whole session of safe calls** -/
theorem sessionRun_safe (cs : List (Call β γ)) (hs : ∀ c ∈ cs, c.safe = true) (st : Store β)
    (a b : Nat) (ha : a < st.length) (hb : b < st.length) :
    Pres st.length st (sessionRun cs st a b).1 ∧
    (sessionRun cs st a b).2 = sessionSpec cs (st.getD a []) (st.getD b []) := by
  induction cs generalizing st with
  | nil => exact ⟨Pres.refl _ _, rfl⟩
  | cons c cs ih =>
    obtain ⟨P, R⟩ := callStep_safe c (hs c (by simp)) st a b ha hb
    have ha' : a < (callStep c st a b).1.length := Nat.lt_of_lt_of_le ha P.1
    have hb' : b < (callStep c st a b).1.length := Nat.lt_of_lt_of_le hb P.1
    obtain ⟨P', R'⟩ := ih (fun c' h' => hs c' (by simp [h'])) (callStep c st a b).1 ha' hb'
    constructor
    · refine ⟨Nat.le_trans P.1 P'.1, fun i hi => ?_⟩
      simp only [sessionRun]
      rw [P'.2 i (Nat.lt_of_lt_of_le hi P.1), P.2 i hi]
    · simp only [sessionRun, sessionSpec, List.map_cons]
      rw [R, R', P.2 a ha, P.2 b hb]
      rfl

end Rsa.Compare
