/- helper lemmas for property C16: the file-system state machine and the per-kind summary -/
import Rsa.Lemmas.C16Obj

set_option linter.unusedSectionVars false
set_option linter.unusedVariables false
set_option linter.unusedSimpArgs false

namespace Rsa.Store

/-! ### well-formed objects of the five kinds (what the constructors establish) -/

def Good : Kind → Val → Prop
  | .rdms, o => ∃ dis desc rd pd meas, o = mkRdms dis desc rd pd meas ∧ rdmsWF dis rd pd = true
  | .dataset, o =>
      (∃ ty m desc od cd, o = mkDataset (.str ty) m desc od cd ∧
        (ty = "Dataset" ∨ ty = "DatasetBase") ∧ datasetWF m od cd = true) ∨
      (∃ m desc od cd td, o = mkTemporal m desc od cd td ∧ temporalWF m od cd td = true)
  | .model, o => IsModel o
  | .result, o => ∃ ev dof va nc me cv nr np ms mv dv ncv,
      o = mkResult ev dof va nc me cv nr np ms mv dv ncv ∧ ModelsWF ms ∧
        keysFrom modelKey 0 ms ∧ secondDim ev = some ms.size

/-- object → dictionary → any dictionary offering the same fields → object, for every kind -/
theorem kind_roundtrip (k : Kind) (o : Val) (h : Good k o) :
    ∃ d, toDict k o = .ok d ∧ d.get? versionKey = none ∧
      ∀ d', Sim d' d → ∃ o', fromDict k d' = .ok o' ∧ canon o' = canon o := by
  cases k with
  | rdms =>
    obtain ⟨dis, desc, rd, pd, meas, rfl, hwf⟩ := h
    refine ⟨mkRdms dis desc rd pd meas, rdmsToDict_mkRdms _ _ _ _ _, ?_, ?_⟩
    · simp [mkRdms, mkDict, Val.get?, versionKey]
    · intro d' hs
      obtain ⟨dis', desc', rd', pd', meas', f1, m1, m2, m3, m4, m5, _⟩ :=
        rdmsFromDict_sim dis desc rd pd meas d' hwf hs
      exact ⟨_, f1, canon_mkRdms_congr m1 m2 m3 m4 m5⟩
  | dataset =>
    rcases h with ⟨ty, m, desc, od, cd, rfl, hty, hwf⟩ | ⟨m, desc, od, cd, td, rfl, hwf⟩
    · have hne : ty ≠ "TemporalDataset" := by
        rcases hty with h | h <;> subst h <;> decide
      refine ⟨_, datasetToDict_mkDataset ty m desc od cd hne, ?_, ?_⟩
      · simp [mkDict, Val.get?, versionKey]
      · intro d' hs
        exact datasetFromDict_sim ty m desc od cd d' hty hwf hs
    · refine ⟨_, datasetToDict_mkTemporal m desc od cd td, ?_, ?_⟩
      · simp [mkDict, Val.get?, versionKey]
      · intro d' hs
        exact temporalFromDict_sim m desc od cd td d' hwf hs
  | model => exact model_roundtrip o h
  | result =>
    obtain ⟨ev, dof, va, nc, me, cv, nr, np, ms, mv, dv, ncv, rfl, hms, hkeys, hsec⟩ := h
    exact result_roundtrip noRecompute ev dof va nc me cv nr np ms mv dv ncv hms hkeys hsec

/-! ### file system -/

theorem lookup_erase_self (fs : FS) (t : Target) : FS.lookup (FS.erase fs t) t = none := by
  induction fs with
  | nil => rfl
  | cons e r ih =>
    obtain ⟨i, p, c⟩ := e
    simp only [FS.erase]
    by_cases h : i = t.id ∧ p = t.isPath
    · simp [h, ih]
    · simp [h, FS.lookup, ih]

theorem lookup_put_self (fs : FS) (t : Target) (c : Content) :
    FS.lookup (FS.put fs t c) t = some c := by
  simp [FS.put, FS.lookup]

/-- two targets name different files -/
def Target.other (t' t : Target) : Prop := ¬ (t.id = t'.id ∧ t.isPath = t'.isPath)

theorem lookup_erase_other (fs : FS) (t t' : Target) (h : Target.other t' t) :
    FS.lookup (FS.erase fs t) t' = FS.lookup fs t' := by
  induction fs with
  | nil => rfl
  | cons e r ih =>
    obtain ⟨i, p, c⟩ := e
    simp only [FS.erase]
    by_cases h1 : i = t.id ∧ p = t.isPath
    · have h2 : ¬ (i = t'.id ∧ p = t'.isPath) := by
        intro h3
        exact h ⟨h1.1.symm.trans h3.1, h1.2.symm.trans h3.2⟩
      rw [if_pos h1, ih]
      simp only [FS.lookup]
      rw [if_neg h2]
    · simp only [h1, if_false, FS.lookup, ih]

theorem lookup_put_other (fs : FS) (t t' : Target) (c : Content) (h : Target.other t' t) :
    FS.lookup (FS.put fs t c) t' = FS.lookup fs t' := by
  have h2 : ¬ (t.id = t'.id ∧ t.isPath = t'.isPath) := h
  simp [FS.put, FS.lookup, h2, lookup_erase_other fs t t' h]

/-- a file is identified by `id` / `isPath` alone (not by the way a path is handed over) -/
theorem lookup_congr (fs : FS) (t t' : Target) (h1 : t.id = t'.id) (h2 : t.isPath = t'.isPath) :
    FS.lookup fs t = FS.lookup fs t' := by
  induction fs with
  | nil => rfl
  | cons e r ih =>
    obtain ⟨i, p, c⟩ := e
    simp only [FS.lookup, h1, h2, ih]

/-- re-writing the content a file already has changes no lookup -/
theorem lookup_put_same (fs : FS) (t t' : Target) (c : Content) (h : FS.lookup fs t = some c) :
    FS.lookup (FS.put fs t c) t' = FS.lookup fs t' := by
  by_cases ho : Target.other t' t
  · exact lookup_put_other fs t t' c ho
  · have h2 : t.id = t'.id ∧ t.isPath = t'.isPath := by
      unfold Target.other at ho
      exact Classical.not_not.mp ho
    rw [lookup_congr _ t' t h2.1.symm h2.2.symm, lookup_put_self, lookup_congr _ t' t h2.1.symm h2.2.symm, h]

/-- the file system a save starts from once `remove_file` has run -/
def cleared (fs : FS) (t : Target) (overwrite : Bool) : FS :=
  if overwrite then FS.erase fs t else fs

theorem cleared_lookup (fs : FS) (t : Target) (ov : Bool)
    (h : ov = true ∨ FS.lookup fs t = none) : FS.lookup (cleared fs t ov) t = none := by
  unfold cleared
  cases ov with
  | true => simp [lookup_erase_self]
  | false =>
    rcases h with h | h
    · cases h
    · simpa using h

theorem writeDict_hdf5_fresh (c : Codec) (fs : FS) (t : Target) (ov : Bool) (d : Val) (tree : H5)
    (h : ov = true ∨ FS.lookup fs t = none) (he : encode c d = .ok tree) :
    writeDict c fs t .hdf5 ov d = (FS.put (cleared fs t ov) t (.h5 tree), none) := by
  have hl := cleared_lookup fs t ov h
  unfold cleared at hl
  simp only [writeDict, writeDictWith, cleared]
  simp [hl, he]

theorem writeDict_pkl_fresh (c : Codec) (fs : FS) (t : Target) (ov : Bool) (d : Val)
    (h : t.isPath = true ∨ ov = true ∨ FS.lookup fs t = none) :
    writeDict c fs t .pkl ov d = (FS.put (cleared fs t ov) t (.pkl [dictAfter .pkl d]), none) := by
  simp only [writeDict, writeDictWith, cleared]
  by_cases hp : t.isPath = true
  · simp [hp]
  · rcases h with h | h
    · exact absurd h hp
    · have hl := cleared_lookup fs t ov h
      unfold cleared at hl
      simp [hp, hl]

theorem viewBack_self (o d d' : Val)
    (h : ∀ k, k ∈ o.keys → d'.get? k = d.get? k) : viewBack o d d' = o := by
  induction o with
  | none => rfl
  | str s => rfl
  | tens c sh el => rfl
  | dnil => rfl
  | dcons k v r ihv ihr =>
    simp only [viewBack]
    have hk := h k (by simp [Val.keys])
    have hr := ihr (fun k' hk' => h k' (by simp [Val.keys, hk']))
    rw [hr]
    by_cases hg : d.get? k = some v
    · simp [hg, hk]
    · simp [hg]

end Rsa.Store
