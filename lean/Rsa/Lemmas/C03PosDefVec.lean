/-
  Helper lemmas for C03 (round 3): for a variance vector `sigma_k = σ` with positive entries the
  covariance `V = getV n (.vec σ)` of the RDM entries is symmetric positive definite, for every
  number of conditions (`symPosDef_getV_vec`).  With `L = Lap s = Σ_p s_p c_p c_pᵀ`:
      (V s)_q = dist (σσᵀ ∘ L) q        (`matVec_getV_vec`)
      sᵀ V s  = Σ_kl σ_k σ_l L_kl²       (`quad_getV_vec`)
  and the off-diagonal entries of `L` are `−s_p` (`Lap_offdiag`, round 2).
-/
import Rsa.Lemmas.C03PosDef

set_option linter.unusedVariables false
set_option linter.unusedSectionVars false
set_option linter.unusedSimpArgs false
open Finset Rsa Rsa.Compare

namespace Rsa.Compare

theorem xi_vec (v : List ℝ) (q p : ℕ × ℕ) :
    xiSpec (SigmaK.vec v).entry q p
      = v.getD q.1 0 * contrast p q.1 - v.getD q.2 0 * contrast p q.2 := by
  simp only [xiSpec, SigmaK.entry, contrast]
  split_ifs <;> ring

/-- `diag(σ) · Lap · diag(σ)` -/
def wLap (σ : ℕ → ℝ) (zs : List ((ℕ × ℕ) × ℝ)) (k l : ℕ) : ℝ := σ k * σ l * Lap zs k l

theorem wLap_symm (σ : ℕ → ℝ) (zs : List ((ℕ × ℕ) × ℝ)) (k l : ℕ) : wLap σ zs k l = wLap σ zs l k := by
  unfold wLap
  rw [Lap_symm zs k l]
  ring

theorem distOf_wLap (σ : ℕ → ℝ) (zs : List ((ℕ × ℕ) × ℝ)) (q : ℕ × ℕ) :
    distOf (wLap σ zs) q
      = (zs.map (fun z => (σ q.1 * contrast z.1 q.1 - σ q.2 * contrast z.1 q.2) *
          (σ q.1 * contrast z.1 q.1 - σ q.2 * contrast z.1 q.2) * z.2)).sum := by
  induction zs with
  | nil => simp [distOf, wLap, Lap]
  | cons z zs ih =>
    have h : distOf (wLap σ (z :: zs)) q = (σ q.1 * contrast z.1 q.1 - σ q.2 * contrast z.1 q.2) *
        (σ q.1 * contrast z.1 q.1 - σ q.2 * contrast z.1 q.2) * z.2 + distOf (wLap σ zs) q := by
      simp only [distOf, wLap, Lap, List.map_cons, List.sum_cons]
      ring
    rw [h, ih, List.map_cons, List.sum_cons]

/-- `V s` for a variance vector is the distance vector of the weighted Laplacian of `s` -/
theorem matVec_getV_vec (n : ℕ) (v s : List ℝ) :
    matVec (getV n (SigmaK.vec v)) s
      = (pairs n).map (fun q => distOf (wLap (fun k => v.getD k 0) ((pairs n).zip s)) q) := by
  rw [getV_eq_vSpec]
  unfold vSpec matVec
  rw [List.map_map]
  apply List.map_congr_left
  intro q _
  simp only [Function.comp_def]
  rw [dot_map_left, distOf_wLap]
  congr 1
  apply List.map_congr_left
  intro z _
  rw [xi_vec]

/-- `sᵀ V s = ⟨σσᵀ ∘ L, L⟩_F` for `V = getV n (.vec σ)` -/
theorem quad_getV_vec (n : ℕ) (v s : List ℝ) :
    dot s (matVec (getV n (SigmaK.vec v)) s)
      = frob n (wLap (fun k => v.getD k 0) ((pairs n).zip s)) (Lap ((pairs n).zip s)) := by
  rw [matVec_getV_vec, dot_comm, dot_map_left]
  rw [← sum_dist_eq_frob n _ (wLap_symm _ _) ((pairs n).zip s)
    (fun z hz => mem_pairs_lt (List.of_mem_zip hz).1)]
  congr 1
  apply List.map_congr_left
  intro z _
  ring

theorem frob_wLap_pos (n : ℕ) (σ : ℕ → ℝ) (hσ : ∀ k, k < n → 0 < σ k) (L : ℕ → ℕ → ℝ)
    (k l : ℕ) (hk : k < n) (hl : l < n) (h : L k l ≠ 0) :
    0 < frob n (fun a b => σ a * σ b * L a b) L := by
  unfold frob
  have term : ∀ a ∈ range n, ∀ b ∈ range n, 0 ≤ σ a * σ b * L a b * L a b := by
    intro a ha b hb
    have h1 := (hσ a (Finset.mem_range.mp ha)).le
    have h2 := (hσ b (Finset.mem_range.mp hb)).le
    have := mul_nonneg (mul_nonneg h1 h2) (mul_self_nonneg (L a b))
    calc 0 ≤ σ a * σ b * (L a b * L a b) := this
      _ = σ a * σ b * L a b * L a b := by ring
  have h1 : ∀ a ∈ range n, 0 ≤ ∑ b ∈ range n, σ a * σ b * L a b * L a b :=
    fun a ha => Finset.sum_nonneg (fun b hb => term a ha b hb)
  have hpos : 0 < σ k * σ l * L k l * L k l := by
    have := mul_pos (mul_pos (hσ k hk) (hσ l hl)) (mul_self_pos.mpr h)
    calc 0 < σ k * σ l * (L k l * L k l) := this
      _ = σ k * σ l * L k l * L k l := by ring
  calc 0 < σ k * σ l * L k l * L k l := hpos
    _ ≤ ∑ b ∈ range n, σ k * σ b * L k b * L k b :=
        Finset.single_le_sum (f := fun b => σ k * σ b * L k b * L k b)
          (fun b hb => term k (Finset.mem_range.mpr hk) b hb) (Finset.mem_range.mpr hl)
    _ ≤ _ := Finset.single_le_sum (f := fun a => ∑ b ∈ range n, σ a * σ b * L a b * L a b) h1
          (Finset.mem_range.mpr hk)

theorem xiSpec_symm (σ : ℕ → ℕ → ℝ) (hs : ∀ i j, σ i j = σ j i) (p q : ℕ × ℕ) :
    xiSpec σ p q = xiSpec σ q p := by
  unfold xiSpec
  rw [hs q.1 p.1, hs q.1 p.2, hs q.2 p.1, hs q.2 p.2]
  ring

theorem entry_vec_symm (v : List ℝ) (i j : ℕ) :
    (SigmaK.vec v).entry i j = (SigmaK.vec v).entry j i := by
  simp only [SigmaK.entry]
  by_cases h : i = j
  · subst h; rfl
  · simp [h, Ne.symm h]

/-- for a variance vector with positive entries the covariance `V` of the RDM entries is
    symmetric positive definite, for every number of conditions -/
theorem symPosDef_getV_vec (n : ℕ) (v : List ℝ) (hv : ∀ k, k < n → 0 < v.getD k 0) :
    SymPosDef (getV n (SigmaK.vec v)) (triLen n) := by
  have hlen : (pairs n).length = triLen n := pairs_length n
  have hrows : (getV n (SigmaK.vec v)).length = triLen n := by simp [getV, hlen]
  have hcols : ∀ r ∈ getV n (SigmaK.vec v), r.length = triLen n := by
    intro r hr
    simp only [getV, List.mem_map] at hr
    obtain ⟨p, _, rfl⟩ := hr
    simp [hlen]
  refine ⟨hrows, hcols, ?_, ?_⟩
  · intro i j hi hj
    rw [getV_eq_vSpec, ent_vSpec n _ i j (hlen ▸ hi) (hlen ▸ hj), ent_vSpec n _ j i (hlen ▸ hj) (hlen ▸ hi),
      xiSpec_symm _ (entry_vec_symm v)]
  · intro f hf
    obtain ⟨i, hi, hne⟩ := hf
    set s := (List.range (triLen n)).map f with hs
    have hsl : s.length = triLen n := by simp [hs]
    have hget : ∀ a, a < triLen n → s.getD a 0 = f a := by
      intro a ha
      rw [List.getD_eq_getElem _ _ (by simpa [hs] using ha)]
      simp [hs]
    have hQ : Q (getV n (SigmaK.vec v)) (triLen n) f f
        = dot s (matVec (getV n (SigmaK.vec v)) s) := by
      rw [dot_matVec hrows hcols s s hsl hsl]
      unfold Q
      apply Finset.sum_congr rfl
      intro a ha
      apply Finset.sum_congr rfl
      intro b hb
      simp only [hget a (Finset.mem_range.mp ha), hget b (Finset.mem_range.mp hb)]
    rw [hQ, quad_getV_vec]
    have hi' : i < (pairs n).length := hlen ▸ hi
    have hp := mem_pairs_lt (List.getElem_mem hi')
    apply frob_wLap_pos n _ hv _ (pairs n)[i].1 (pairs n)[i].2 hp.1 hp.2
    rw [Lap_offdiag n s hsl i hi', hget i hi]
    exact neg_ne_zero.mpr hne

end Rsa.Compare
