/-
  Helper lemmas for C07, part 8 (round 3): the NaN bridge for `cv_noise_ceiling`.
  On a stack whose RDMs all miss the same entries, every list of RDMs the cross-validated loop
  pools (the ceiling-set RDMs at the test conditions, all RDMs) has one common mask, and
  `pool_rdm` as coded (`poolO`: NaN-aware normalisers, `_nan_mean`) is the pool of the non-missing
  entries put back at their positions (`poolDense`).
-/
import Rsa.Lemmas.C07Struct

set_option linter.unusedSectionVars false
set_option linter.unusedVariables false
set_option linter.unusedSimpArgs false

namespace Rsa.Ceiling
open Rsa Rsa.Compare Rsa.Folds

theorem expand_maskOf_present (v : List (Option ℝ)) : expand (maskOf v) (present v) = v := by
  induction v with
  | nil => rfl
  | cons a v ih =>
    cases a with
    | none =>
      show expand (false :: maskOf v) (present v) = none :: v
      rw [expand_false, ih]
    | some x =>
      show expand (true :: maskOf v) (x :: present v) = some x :: v
      rw [expand_true_cons, ih]

theorem present_length (v : List (Option ℝ)) : (present v).length = (maskOf v).count true := by
  induction v with
  | nil => rfl
  | cons a v ih =>
    cases a with
    | none =>
      show (present v).length = (false :: maskOf v).count true
      rw [ih]; simp
    | some x =>
      show (x :: present v).length = (true :: maskOf v).count true
      rw [List.length_cons, ih]; simp

theorem maskVec_map {β γ : Type} (n : ℕ) (keep : ℕ → Bool) (g : β → γ) (v : List β) :
    maskVec n keep (v.map g) = (maskVec n keep v).map g := by
  unfold maskVec
  generalize pairs n = ps
  induction ps generalizing v with
  | nil => simp
  | cons q ps ih =>
    cases v with
    | nil => simp
    | cons a v =>
      simp only [List.map_cons, List.zip_cons_cons, List.filterMap_cons]
      by_cases h : (keep q.1 && keep q.2) = true
      · simp only [h, if_true, List.map_cons, ih]
      · simp only [h, if_false, ih]
        rfl

theorem maskOf_maskVec (n : ℕ) (keep : ℕ → Bool) (v : List (Option ℝ)) :
    maskOf (maskVec n keep v) = maskVec n keep (maskOf v) := (maskVec_map n keep _ v).symm

theorem mem_selectRows {β : Type} {rows : List β} {idx : List ℕ} {x : β}
    (h : x ∈ selectRows rows idx) : x ∈ rows := by
  unfold selectRows at h
  obtain ⟨i, _, hi⟩ := List.mem_filterMap.mp h
  exact List.mem_of_getElem? hi

theorem poolO_nil' (m : Method) : poolO m ([] : List (List (Option ℝ))) = poolDense m [] := by
  cases m <;> rfl

/-- `pool_rdm` as coded on RDMs with one common mask = pool of the non-missing entries, put back -/
theorem poolO_eq_dense (m : Method) (l : List (List (Option ℝ)))
    (hcm : ∀ v ∈ l, maskOf v = maskOf (l.headD [])) : poolO m l = poolDense m l := by
  by_cases hne : l = []
  · subst hne; exact poolO_nil' m
  set μ := maskOf (l.headD []) with hμ
  have e : l = (l.map present).map (expand μ) := by
    rw [List.map_map]
    conv_lhs => rw [← List.map_id l]
    apply List.map_congr_left
    intro v hv
    simp only [Function.comp_def, id]
    rw [← hcm v hv, expand_maskOf_present]
  unfold poolDense
  rw [← hμ]
  conv_lhs => rw [e]
  apply poolO_expand m μ (l.map present) (by simpa using hne)
  intro d hd
  obtain ⟨v, hv, rfl⟩ := List.mem_map.mp hd
  rw [present_length, hcm v hv]

/-- every sub-stack the cross-validated loop forms from a stack with a common mask has a common mask -/
theorem partData_common (nC : ℕ) (mask : List Bool) (denses : List (List ℝ))
    (hlen : ∀ d ∈ denses, d.length = mask.count true) (p : Part) :
    ∀ v ∈ partData nC (denses.map (expand mask)) p,
      maskOf v = maskOf ((partData nC (denses.map (expand mask)) p).headD []) := by
  have key : ∀ v ∈ partData nC (denses.map (expand mask)) p,
      maskOf v = restrict nC (fun i => p.conds.contains i) mask := by
    intro v hv
    unfold partData at hv
    obtain ⟨x, hx, rfl⟩ := List.mem_map.mp hv
    obtain ⟨d, hd, rfl⟩ := List.mem_map.mp (mem_selectRows hx)
    unfold restrict
    rw [maskOf_maskVec, maskOf_expand mask d (hlen d hd)]
  intro v hv
  rw [key v hv]
  cases hpd : partData nC (denses.map (expand mask)) p with
  | nil => rw [hpd] at hv; simp at hv
  | cons a t =>
    have : a ∈ partData nC (denses.map (expand mask)) p := by rw [hpd]; exact List.mem_cons_self ..
    simpa using (key a this).symm

theorem stack_common (mask : List Bool) (denses : List (List ℝ))
    (hlen : ∀ d ∈ denses, d.length = mask.count true) :
    ∀ v ∈ denses.map (expand mask), maskOf v = maskOf ((denses.map (expand mask)).headD []) := by
  have key : ∀ v ∈ denses.map (expand mask), maskOf v = mask := by
    intro v hv
    obtain ⟨d, hd, rfl⟩ := List.mem_map.mp hv
    exact maskOf_expand mask d (hlen d hd)
  intro v hv
  rw [key v hv]
  cases hpd : denses.map (expand mask) with
  | nil => rw [hpd] at hv; simp at hv
  | cons a t =>
    have : a ∈ denses.map (expand mask) := by rw [hpd]; exact List.mem_cons_self ..
    simpa using (key a this).symm

theorem commonMask_expand (mask : List Bool) (denses : List (List ℝ))
    (hlen : ∀ d ∈ denses, d.length = mask.count true) :
    commonMask (denses.map (expand mask)) = true := by
  cases denses with
  | nil => rfl
  | cons d ds =>
    have hmask : ∀ x ∈ d :: ds, maskOf (expand mask x) = mask :=
      fun x hx => maskOf_expand mask x (hlen x hx)
    simp only [commonMask, List.map_cons, List.all_eq_true, List.mem_map]
    rintro r' ⟨x, hx, rfl⟩
    rw [hmask x (List.mem_cons_of_mem _ hx), hmask d (List.mem_cons_self ..)]
    simp

/-- both predictions of every cross-validation fold: as coded = from the non-missing entries -/
theorem cvPred_eq_dense (m : Method) (o : Obj) (mask : List Bool) (denses : List (List ℝ))
    (hlen : ∀ d ∈ denses, d.length = mask.count true) (f : CvFold) :
    cvPredTrain (poolO m) o (denses.map (expand mask)) f
        = cvPredTrain (poolDense m) o (denses.map (expand mask)) f ∧
    cvPredTest (poolO m) o (denses.map (expand mask)) f
        = cvPredTest (poolDense m) o (denses.map (expand mask)) f := by
  constructor
  · unfold cvPredTrain
    rw [poolO_eq_dense m _ (partData_common o.nC mask denses hlen f.ceil)]
  · unfold cvPredTest
    rw [poolO_eq_dense m _ (stack_common mask denses hlen)]

end Rsa.Ceiling
