/- further lemmas about the condensed layout needed by property C10 -/
import Mathlib.Tactic.Ring
import Mathlib.Tactic.Linarith
import Mathlib.Data.List.Basic
import Mathlib.Data.List.Nodup
import Mathlib.Data.Nat.Sqrt
import Mathlib.Algebra.Group.Nat.Even
import Rsa.Lemmas.Tri
import Rsa.Core.GenPrelude
import Rsa.Gen.C10

set_option linter.unusedSectionVars false
set_option linter.unusedVariables false
set_option linter.unusedSimpArgs false

namespace Rsa

/-! ### size recovery -/

theorem two_mul_triLen (n : Nat) : triLen n * 2 = n * (n - 1) := by
  unfold triLen
  exact Nat.div_mul_cancel (Nat.even_mul_pred_self n).two_dvd

theorem ceilSqrt_mul_pred (n : Nat) (hn : 2 ≤ n) : ceilSqrt (n * (n - 1)) = n := by
  obtain ⟨m, rfl⟩ : ∃ m, n = m + 2 := ⟨n - 2, by omega⟩
  have e : m + 2 - 1 = m + 1 := rfl
  rw [e]
  have hs : Nat.sqrt ((m + 2) * (m + 1)) = m + 1 := by
    symm
    rw [Nat.eq_sqrt]
    constructor <;> nlinarith
  unfold ceilSqrt
  simp only [hs]
  have : (m + 1) * (m + 1) ≠ (m + 2) * (m + 1) := by nlinarith
  simp [this]

/-! ### the pair enumeration is indexed by `triIdx` -/

theorem triangle_succ (i : Nat) : (i + 1) * (i + 1 + 1) / 2 = i * (i + 1) / 2 + (i + 1) := by
  have h : (i + 1) * (i + 1 + 1) = i * (i + 1) + (i + 1) * 2 := by ring
  rw [h, Nat.add_mul_div_right _ _ (by norm_num : 0 < 2)]

theorem pairsOf_getElem? {β : Type} (l : List β) (i j : Nat) (hij : i < j) (hj : j < l.length) :
    (pairsOf l)[triIdx l.length i j]? = some (l[i]'(by omega), l[j]'hj) := by
  induction l generalizing i j with
  | nil => simp at hj
  | cons x xs ih =>
    simp only [pairsOf, List.length_cons]
    cases i with
    | zero =>
      obtain ⟨j', rfl⟩ : ∃ j', j = j' + 1 := ⟨j - 1, by omega⟩
      have hj' : j' < xs.length := by simpa using hj
      have : triIdx (xs.length + 1) 0 (j' + 1) = j' := by simp [triIdx]
      rw [this, List.getElem?_append_left (by simpa using hj')]
      simp [hj']
    | succ i' =>
      obtain ⟨j', rfl⟩ : ∃ j', j = j' + 1 := ⟨j - 1, by omega⟩
      have hj' : j' < xs.length := by simpa using hj
      have hij' : i' < j' := by omega
      have key : triIdx (xs.length + 1) (i' + 1) (j' + 1)
          = xs.length + triIdx xs.length i' j' := by
        unfold triIdx
        have h1 := triangle_succ i'
        have h2 : (i' + 1) * (xs.length + 1) = i' * xs.length + i' + xs.length + 1 := by ring
        have h3 : i' * (i' + 1) / 2 ≤ i' * xs.length := by
          calc i' * (i' + 1) / 2 ≤ i' * (i' + 1) := Nat.div_le_self _ _
            _ ≤ i' * xs.length := Nat.mul_le_mul_left _ (by omega)
        rw [h1, h2]
        generalize i' * xs.length = A at *
        generalize i' * (i' + 1) / 2 = T at *
        omega
      rw [key, List.getElem?_append_right (by simp)]
      simp only [List.length_map, Nat.add_sub_cancel_left]
      rw [ih i' j' hij' hj']
      simp

theorem pairs_getElem? (n i j : Nat) (hij : i < j) (hj : j < n) :
    (pairs n)[triIdx n i j]? = some (i, j) := by
  have h := pairsOf_getElem? (List.range n) i j hij (by simpa using hj)
  simp only [List.length_range] at h
  simpa [pairs] using h

/-- the pair enumeration of a strictly sorted list is strictly ordered inside each pair -/
theorem pairsOf_rel {β : Type} {R : β → β → Prop} {l : List β} (h : l.Pairwise R)
    {p : β × β} (hp : p ∈ pairsOf l) : R p.1 p.2 := by
  induction l with
  | nil => simp [pairsOf] at hp
  | cons x xs ih =>
    rw [List.pairwise_cons] at h
    simp only [pairsOf, List.mem_append, List.mem_map] at hp
    rcases hp with ⟨y, hy, rfl⟩ | hp
    · exact h.1 y hy
    · exact ih h.2 hp

theorem mem_pairs {n : Nat} {p : Nat × Nat} (hp : p ∈ pairs n) : p.1 < p.2 ∧ p.2 < n := by
  refine ⟨pairsOf_rel (List.pairwise_lt_range) hp, ?_⟩
  have := (mem_pairsOf hp).2
  simpa using this

theorem pairsOf_nodup {β : Type} {l : List β} (h : l.Nodup) : (pairsOf l).Nodup := by
  induction l with
  | nil => simp [pairsOf]
  | cons x xs ih =>
    rw [List.nodup_cons] at h
    simp only [pairsOf]
    rw [List.nodup_append]
    refine ⟨?_, ih h.2, ?_⟩
    · exact List.Nodup.map (fun a b hab => by simpa using hab) h.2
    · intro a ha b hb hab
      simp only [List.mem_map] at ha
      obtain ⟨y, hy, rfl⟩ := ha
      subst hab
      exact h.1 (mem_pairsOf hb).1

theorem pairs_nodup (n : Nat) : (pairs n).Nodup := pairsOf_nodup List.nodup_range

/-! ### vector ↔ square round trips -/

section roundtrip
variable {α : Type}

theorem vecToMat_symm (n : Nat) (diag dflt : α) (v : List α) (i j : Nat) :
    vecToMat n diag dflt v i j = vecToMat n diag dflt v j i := by
  unfold vecToMat
  by_cases h : i = j
  · subst h; rfl
  · have h' : ¬ j = i := fun e => h e.symm
    simp only [h, h', if_false]
    by_cases hlt : i < j
    · have : ¬ j < i := by omega
      simp [hlt, this]
    · have : j < i := by omega
      simp [hlt, this]

theorem vecToMat_diag (n : Nat) (diag dflt : α) (v : List α) (i : Nat) :
    vecToMat n diag dflt v i i = diag := by
  simp [vecToMat]

/-- square form read at an upper-triangle position is the vector entry -/
theorem vecToMat_upper (n : Nat) (diag dflt : α) (v : List α) (i j : Nat) (hij : i < j) :
    vecToMat n diag dflt v i j = v.getD (triIdx n i j) dflt := by
  have : ¬ i = j := by omega
  simp [vecToMat, this, hij]

/-- `squareform(squareform(v)) = v` for a vector of the right length -/
theorem matToVec_vecToMat (n : Nat) (diag dflt : α) (v : List α) (hv : v.length = triLen n) :
    matToVec n (vecToMat n diag dflt v) = v := by
  apply List.ext_getElem?
  intro k
  unfold matToVec
  rw [List.getElem?_map]
  by_cases hk : k < (pairs n).length
  · have hk' : k < v.length := by rw [hv, ← pairs_length]; exact hk
    rw [List.getElem?_eq_getElem hk, List.getElem?_eq_getElem hk']
    simp only [Option.map_some, Option.some.injEq]
    have hp := mem_pairs (List.getElem_mem hk)
    rw [vecToMat_upper _ _ _ _ _ _ hp.1]
    have hidx : (pairs n)[triIdx n (pairs n)[k].1 (pairs n)[k].2]? = some (pairs n)[k] :=
      pairs_getElem? n _ _ hp.1 hp.2
    -- positions in `pairs n` are unique because `pairs n` has no duplicates of position k
    have hk2 : triIdx n (pairs n)[k].1 (pairs n)[k].2 = k := by
      have hnd : (pairs n).Nodup := pairs_nodup n
      have hlt : triIdx n (pairs n)[k].1 (pairs n)[k].2 < (pairs n).length := by
        by_contra hc
        rw [List.getElem?_eq_none (by omega)] at hidx
        exact absurd hidx (by simp)
      rw [List.getElem?_eq_getElem hlt, Option.some.injEq] at hidx
      exact (List.Nodup.getElem_inj_iff hnd).mp hidx
    rw [hk2, List.getD_eq_getElem?_getD, List.getElem?_eq_getElem hk']
    rfl
  · have hk' : ¬ k < v.length := by rw [hv, ← pairs_length]; exact hk
    rw [List.getElem?_eq_none (by omega), List.getElem?_eq_none (by omega)]
    rfl

/-- `squareform(M)` then `squareform` again returns `M` off the diagonal for symmetric `M` -/
theorem vecToMat_matToVec (n : Nat) (diag dflt : α) (m : Nat → Nat → α)
    (hsym : ∀ i j, m i j = m j i) (i j : Nat) (hi : i < n) (hj : j < n) (hne : i ≠ j) :
    vecToMat n diag dflt (matToVec n m) i j = m i j := by
  wlog hij : i < j generalizing i j
  · have hji : j < i := by omega
    rw [vecToMat_symm, this j i hj hi (Ne.symm hne) hji, hsym]
  rw [vecToMat_upper _ _ _ _ _ _ hij, List.getD_eq_getElem?_getD]
  unfold matToVec
  rw [List.getElem?_map, pairs_getElem? n i j hij hj]
  rfl

end roundtrip

end Rsa
