/-
  Bridge lemmas between the generated leaves of C17 (`Rsa.Gen.C17`, regenerated from the source
  text of `rdm/transform.py` on every run) and the forms the property theorems speak about.
  Each lemma here is a proof obligation that breaks when the corresponding source text changes
  its meaning.
-/
import Rsa.Core.Transform
import Mathlib.Algebra.Order.Field.Basic
import Mathlib.Tactic.Linarith
import Mathlib.Tactic.Ring

set_option linter.unusedSectionVars false
set_option linter.unusedVariables false
set_option linter.unusedSimpArgs false

namespace Rsa.Transform

open Rsa

variable {K : Type} [Field K] [LinearOrder K] [IsStrictOrderedRing K]

/-- `dissimilarities[dissimilarities < 0] = 0` in `positive_transform` -/
@[simp]
theorem posClip_eq (a : K) : Rsa.Gen.C17.posClip a = clip0 a := by
  simp [Rsa.Gen.C17.posClip, clip0]

/-- the argument of `np.sqrt` in `sqrt_transform` is the entry clipped at 0 -/
@[simp]
theorem sqrtArg_eq (a : K) : Rsa.Gen.C17.sqrtArg a = clip0 a := by
  simp [Rsa.Gen.C17.sqrtArg, clip0]

/-- `(dissimilarities[i] - d_min) / (d_max - d_min)` -/
@[simp]
theorem minmaxEntry_eq (x mn mx : K) : Rsa.Gen.C17.minmaxEntry x mn mx = (x - mn) / (mx - mn) := by
  simp [Rsa.Gen.C17.minmaxEntry]

/-- the geo-topological entry: 1 above the upper threshold, else 0 below the lower one, else
    the linear rescaling (operators `>` and `<`; "above" wins over "below") -/
theorem geotopEntry_eq (a lo hi : K) :
    Rsa.Gen.C17.geotopEntry a lo hi =
      if hi < a then 1 else if a < lo then 0 else (a - lo) / (hi - lo) := by
  simp [Rsa.Gen.C17.geotopEntry]

/-- the thresholds are taken at the quantile levels `low` and `up` -/
@[simp]
theorem gtQa_eq (low up : K) : Rsa.Gen.C17.gtQa low up = low := by
  simp [Rsa.Gen.C17.gtQa]

@[simp]
theorem gtQb_eq (low up : K) : Rsa.Gen.C17.gtQb low up = up := by
  simp [Rsa.Gen.C17.gtQb]

/-- `if mat[j, k] != 1`: an edge is kept iff its weight is not 1 -/
theorem geoKeep_eq_one_iff (x : K) : Rsa.Gen.C17.geoKeep x = 1 ↔ x ≠ 1 := by
  unfold Rsa.Gen.C17.geoKeep
  by_cases h : x = 1
  · subst h; simp
  · have : x < 1 ∨ 1 < x := lt_or_gt_of_ne h
    simp [h, this]

/-! the string constants of the measure names -/

@[simp]
theorem str_rankMarker : strOfCode Rsa.Gen.C17.rankMarker = "(ranks)" := by decide
@[simp]
theorem str_rankSuffix : strOfCode Rsa.Gen.C17.rankSuffix = " (ranks)" := by decide
@[simp]
theorem str_sqrtNone : strOfCode Rsa.Gen.C17.sqrtNone = "sqrt of unknown measure" := by decide
@[simp]
theorem str_sqrtPrefix : strOfCode Rsa.Gen.C17.sqrtPrefix = "sqrt of" := by decide
@[simp]
theorem str_sqrtFrom0 : strOfCode Rsa.Gen.C17.sqrtFrom0 = "squared euclidean" := by decide
@[simp]
theorem str_sqrtTo0 : strOfCode Rsa.Gen.C17.sqrtTo0 = "euclidean" := by decide
@[simp]
theorem str_sqrtFrom1 : strOfCode Rsa.Gen.C17.sqrtFrom1 = "squared mahalanobis" := by decide
@[simp]
theorem str_sqrtTo1 : strOfCode Rsa.Gen.C17.sqrtTo1 = "mahalanobis" := by decide
@[simp]
theorem str_customNone : strOfCode Rsa.Gen.C17.customNone = "transformed unknown measure" := by decide
@[simp]
theorem str_customPrefix : strOfCode Rsa.Gen.C17.customPrefix = "transformed " := by decide
@[simp]
theorem str_minmaxNone :
    strOfCode Rsa.Gen.C17.minmaxNone = "minmax transformed unknown measure" := by decide
@[simp]
theorem str_minmaxPrefix : strOfCode Rsa.Gen.C17.minmaxPrefix = "minmax transformed " := by decide
@[simp]
theorem str_geotopNone :
    strOfCode Rsa.Gen.C17.geotopNone = "geo-topological transformed unknown measure" := by decide
@[simp]
theorem str_geotopPrefix :
    strOfCode Rsa.Gen.C17.geotopPrefix = "geo-topological transformed " := by decide
@[simp]
theorem str_geodesicNone :
    strOfCode Rsa.Gen.C17.geodesicNone = "geodesic transformed unknown measure" := by decide
@[simp]
theorem str_geodesicPrefix :
    strOfCode Rsa.Gen.C17.geodesicPrefix = "geodesic transformed " := by decide

end Rsa.Transform
