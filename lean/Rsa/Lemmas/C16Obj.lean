/- helper lemmas for property C16: objects ↔ dictionaries -/
import Rsa.Lemmas.C16
import Std.Data.String.ToNat

set_option linter.unusedSectionVars false
set_option linter.unusedVariables false
set_option linter.unusedSimpArgs false

namespace Rsa.Store

/-! ### lookups commute with the normal forms -/

theorem get?_norm (d : Val) (k : String) : (norm d).get? k = (d.get? k).map norm := by
  induction d with
  | none => rfl
  | str s => rfl
  | tens c sh el => rfl
  | dnil => rfl
  | dcons k' v r ihv ihr =>
    simp only [norm, Val.get?]
    by_cases h : k' = k
    · simp [h]
    · simp [h, ihr]

theorem get?_canon (d : Val) (k : String) : (canon d).get? k = (d.get? k).map canon := by
  induction d with
  | none => rfl
  | str s => rfl
  | tens c sh el => rfl
  | dnil => rfl
  | dcons k' v r ihv ihr =>
    simp only [canon, Val.get?]
    by_cases h : k' = k
    · simp [h]
    · simp [h, ihr]

/-- `d'` offers, under every key of `d`, a value with the same normal form (it may have more
    keys: the pickle writer adds one) -/
def Sim (d' d : Val) : Prop :=
  ∀ k v, d.get? k = some v → ∃ v', d'.get? k = some v' ∧ norm v' = norm v

theorem sim_of_norm_eq {d' d : Val} (h : norm d' = norm d) : Sim d' d := by
  intro k v hv
  have h1 := get?_norm d k
  have h2 := get?_norm d' k
  rw [h, h1, hv] at h2
  cases hg : d'.get? k with
  | none => simp [hg] at h2
  | some v' =>
    simp [hg] at h2
    exact ⟨v', rfl, h2.symm⟩

theorem sim_refl (d : Val) : Sim d d := fun k v hv => ⟨v, hv, rfl⟩

theorem get?_set_ne (d : Val) (key k : String) (x : Val) (h : key ≠ k) :
    (d.set key x).get? k = d.get? k := by
  induction d with
  | none => rfl
  | str s => rfl
  | tens c sh el => rfl
  | dnil => simp [Val.set, Val.get?, h]
  | dcons k' v r ihv ihr =>
    simp only [Val.set]
    by_cases h1 : k' = key
    · subst h1
      simp [Val.get?, h]
    · simp only [h1, if_false, Val.get?]
      by_cases h2 : k' = k
      · simp [h2]
      · simp [h2, ihr]

theorem sim_set_fresh (d : Val) (key : String) (x : Val) (h : d.get? key = none) :
    Sim (d.set key x) d := by
  intro k v hv
  have hne : key ≠ k := by
    intro e; subst e; rw [h] at hv; cases hv
  exact ⟨v, by rw [get?_set_ne d key k x hne]; exact hv, rfl⟩

theorem set_get_self (d : Val) (k : String) (v : Val) (h : d.get? k = some v) : d.set k v = d := by
  induction d with
  | none => simp [Val.get?] at h
  | str s => simp [Val.get?] at h
  | tens c sh el => simp [Val.get?] at h
  | dnil => simp [Val.get?] at h
  | dcons k' v' r ihv ihr =>
    simp only [Val.get?] at h
    simp only [Val.set]
    by_cases h1 : k' = k
    · simp [h1] at h ⊢
      exact h.symm
    · simp [h1] at h ⊢
      exact ihr h

theorem norm_set (d : Val) (k : String) (x : Val) :
    norm (d.set k x) = (norm d).set k (norm x) := by
  induction d with
  | none => rfl
  | str s => rfl
  | tens c sh el => rfl
  | dnil => rfl
  | dcons k' v r ihv ihr =>
    simp only [Val.set, norm]
    by_cases h1 : k' = k
    · simp [h1, norm]
    · simp [h1, norm, ihr]

/-! ### inversion of the normal form -/

theorem norm_eq_str {v : Val} {s : String} (h : norm v = .str s) : v = .str s := by
  cases v <;> simp [norm] at h
  subst h; rfl

theorem norm_eq_none {v : Val} (h : norm v = .none) : v = .none := by
  cases v <;> simp [norm] at h
  rfl

theorem norm_eq_tens {v : Val} {c : Cont} {sh : List Nat} {el : List Atom}
    (h : norm v = norm (.tens c sh el)) :
    ∃ c' el', v = .tens c' sh el' := by
  cases v <;> simp [norm] at h
  rename_i c' sh' el'
  exact ⟨c', el', by rw [h.1]⟩

theorem truthy_of_norm_eq {a b : Val} (h : norm a = norm b) : truthy a = truthy b := by
  cases a <;> cases b <;> simp [norm] at h <;> rfl

theorem size_of_norm_eq {a b : Val} (h : norm a = norm b) : a.size = b.size := by
  induction a generalizing b with
  | none => cases b <;> simp [norm] at h <;> rfl
  | str s => cases b <;> simp [norm] at h <;> rfl
  | tens c sh el => cases b <;> simp [norm] at h <;> rfl
  | dnil => cases b <;> simp [norm] at h <;> rfl
  | dcons k v r ihv ihr =>
    cases b <;> simp [norm] at h
    simp [Val.size, ihr h.2.2]

theorem secondDim_of_norm_eq {a b : Val} (h : norm a = norm b) : secondDim a = secondDim b := by
  cases a <;> cases b <;> simp [norm] at h <;> try rfl
  rename_i c sh el c' sh' el'
  rw [h.1]
  cases sh' with
  | nil => rfl
  | cons n r => cases r <;> rfl

/-! ### per-element descriptor dictionaries -/

theorem elemOk_of_norm_eq (n : Nat) {a b : Val} (h : norm a = norm b) (hb : elemOk n b = true) :
    elemOk n a = true := by
  induction a generalizing b with
  | none => cases b <;> simp [norm] at h <;> simp [elemOk] at hb
  | str s => cases b <;> simp [norm] at h <;> simp [elemOk] at hb
  | tens c sh el => cases b <;> simp [norm] at h <;> simp [elemOk] at hb
  | dnil => rfl
  | dcons k v r ihv ihr =>
    cases b <;> simp [norm] at h
    rename_i k' v' r'
    obtain ⟨hk, hv, hr⟩ := h
    cases v' with
    | tens c' sh' el' =>
      cases sh' with
      | nil => simp [elemOk] at hb
      | cons m rest =>
        simp only [elemOk, Bool.and_eq_true] at hb
        obtain ⟨c2, el2, e2⟩ := norm_eq_tens hv
        subst e2
        simp only [elemOk, Bool.and_eq_true]
        exact ⟨hb.1, ihr hr hb.2⟩
    | none => simp [elemOk] at hb
    | str s => simp [elemOk] at hb
    | dnil => simp [elemOk] at hb
    | dcons k2 x2 items2 =>
      simp only [elemOk, Bool.and_eq_true] at hb
      cases v with
      | dcons k1 x1 items1 =>
        simp only [norm, Val.dcons.injEq] at hv
        have hsz := size_of_norm_eq hv.2.2
        simp only [elemOk, Bool.and_eq_true]
        refine ⟨⟨?_, ?_⟩, ihr hr hb.2⟩
        · rw [hv.1]; exact hb.1.1
        · rw [hsz]; exact hb.1.2
      | none => simp [norm] at hv
      | str s => simp [norm] at hv
      | tens _ _ _ => simp [norm] at hv
      | dnil => simp [norm] at hv

theorem isSome_get?_of_norm_eq {a b : Val} (h : norm a = norm b) (k : String) :
    (a.get? k).isSome = (b.get? k).isSome := by
  have h1 := get?_norm a k
  have h2 := get?_norm b k
  rw [h] at h1
  rw [h1] at h2
  cases ha : a.get? k <;> cases hb : b.get? k <;> simp [ha, hb] at h2 <;> rfl

/-- `dict_to_list` on a well-formed per-element dictionary: succeeds, keeps the normal form,
    and the result passes the constructor's length check -/
theorem dictToList_ok (n : Nat) (d : Val) (h : elemOk n d = true) :
    ∃ d', dictToList d = .ok d' ∧ norm d' = norm d ∧ checkLens n d' = true := by
  induction d with
  | none => simp [elemOk] at h
  | str s => simp [elemOk] at h
  | tens c sh el => simp [elemOk] at h
  | dnil => exact ⟨.dnil, rfl, rfl, rfl⟩
  | dcons k v r ihv ihr =>
    cases v with
    | tens c sh el =>
      cases sh with
      | nil => simp [elemOk] at h
      | cons m rest =>
        simp only [elemOk, Bool.and_eq_true] at h
        obtain ⟨r', e1, e2, e3⟩ := ihr h.2
        refine ⟨.dcons k (.tens .list (m :: rest) el) r', ?_, ?_, ?_⟩
        · simp only [dictToList] at e1
          simp [dictToList, Val.mapValsM, toListVal, e1, bind, Except.bind, pure, Except.pure]
        · simp [norm, e2]
        · simp [checkLens, lenOk, e3, h.1]
    | none => simp [elemOk] at h
    | str s => simp [elemOk] at h
    | dnil => simp [elemOk] at h
    | dcons k2 x2 items =>
      simp only [elemOk, Bool.and_eq_true] at h
      obtain ⟨⟨hk, hsz⟩, hr⟩ := h
      have hk' : k2 = listKey := by simpa using hk
      have hsz' : items.size = n := by simpa using hsz
      obtain ⟨r', e1, e2, e3⟩ := ihr hr
      refine ⟨.dcons k (.dcons k2 x2 items) r', ?_, ?_, ?_⟩
      · simp only [dictToList] at e1
        simp [dictToList, Val.mapValsM, toListVal, hk', e1, bind, Except.bind, pure, Except.pure]
      · simp [norm, e2]
      · simp [checkLens, lenOk, Val.isList, hk', Val.size, hsz', e3]

theorem withIndex_of_has (n : Nat) (d : Val) (h : (d.get? "index").isSome = true) :
    withIndex n d = d := by
  unfold withIndex
  cases hg : d.get? "index" with
  | none => simp [hg] at h
  | some v => rfl

/-! ### RDMs -/

theorem rdmsToDict_mkRdms (dis desc rd pd meas : Val) :
    rdmsToDict (mkRdms dis desc rd pd meas) = .ok (mkRdms dis desc rd pd meas) := by
  simp [rdmsToDict, mkRdms, mkDict, req, Val.get?, bind, Except.bind, pure, Except.pure]

theorem canon_mkRdms_congr {a b c d e a' b' c' d' e' : Val}
    (h1 : norm a' = norm a) (h2 : norm b' = norm b) (h3 : norm c' = norm c)
    (h4 : norm d' = norm d) (h5 : norm e' = norm e) :
    canon (mkRdms a' b' c' d' e') = canon (mkRdms a b c d e) := by
  simp [mkRdms, mkDict, canon, canon_of_norm_eq h1, canon_of_norm_eq h2, canon_of_norm_eq h3,
    canon_of_norm_eq h4, canon_of_norm_eq h5]

/-- `rdms_from_dict` on any dictionary that offers the five fields of a well-formed RDMs
    object up to normal form: the rebuilt object has the same five fields up to normal form
    and is again well-formed -/
theorem rdmsFromDict_sim (dis desc rd pd meas d' : Val) (hwf : rdmsWF dis rd pd = true)
    (hs : Sim d' (mkRdms dis desc rd pd meas)) :
    ∃ dis' desc' rd' pd' meas', rdmsFromDict d' = .ok (mkRdms dis' desc' rd' pd' meas') ∧
      norm dis' = norm dis ∧ norm desc' = norm desc ∧ norm rd' = norm rd ∧
      norm pd' = norm pd ∧ norm meas' = norm meas ∧ rdmsWF dis' rd' pd' = true := by
  obtain ⟨v1, g1, n1⟩ := hs "dissimilarities" dis (by simp [mkRdms, mkDict, Val.get?])
  obtain ⟨v2, g2, n2⟩ := hs "descriptors" desc (by simp [mkRdms, mkDict, Val.get?])
  obtain ⟨v3, g3, n3⟩ := hs "rdm_descriptors" rd (by simp [mkRdms, mkDict, Val.get?])
  obtain ⟨v4, g4, n4⟩ := hs "pattern_descriptors" pd (by simp [mkRdms, mkDict, Val.get?])
  obtain ⟨v5, g5, n5⟩ := hs "dissimilarity_measure" meas (by simp [mkRdms, mkDict, Val.get?])
  cases dis with
  | tens c sh el =>
    obtain ⟨c', el', e1⟩ := norm_eq_tens n1
    subst e1
    match sh, hwf with
    | [nr, np], hwf =>
      simp only [rdmsWF, Bool.and_eq_true] at hwf
      obtain ⟨⟨⟨w1, w2⟩, w3⟩, w4⟩ := hwf
      obtain ⟨rd', r1, r2, r3⟩ := dictToList_ok nr v3 (elemOk_of_norm_eq nr n3 w1)
      obtain ⟨pd', p1, p2, p3⟩ :=
        dictToList_ok (Rsa.Gen.C16.nFromReduced np) v4 (elemOk_of_norm_eq _ n4 w3)
      have i1 : (rd'.get? "index").isSome = true := by
        rw [isSome_get?_of_norm_eq (r2.trans n3) "index"]; exact w2
      have i2 : (pd'.get? "index").isSome = true := by
        rw [isSome_get?_of_norm_eq (p2.trans n4) "index"]; exact w4
      refine ⟨.tens c' [nr, np] el', v2, rd', pd', v5, ?_, n1, n2, r2.trans n3, p2.trans n4, n5, ?_⟩
      · simp [rdmsFromDict, req, g1, g2, g3, g4, g5, r1, p1, r3, p3, withIndex_of_has _ _ i1,
          withIndex_of_has _ _ i2, bind, Except.bind, pure, Except.pure]
      · simp only [rdmsWF, Bool.and_eq_true]
        exact ⟨⟨⟨elemOk_of_norm_eq nr (r2.trans n3) w1, i1⟩,
          elemOk_of_norm_eq _ (p2.trans n4) w3⟩, i2⟩
  | none => simp [rdmsWF] at hwf
  | str s => simp [rdmsWF] at hwf
  | dnil => simp [rdmsWF] at hwf
  | dcons _ _ _ => simp [rdmsWF] at hwf

/-! ### Dataset / TemporalDataset -/

theorem canon_dcons (k : String) (v r : Val) : canon (.dcons k v r) = .dcons k (canon v) (canon r) := rfl
theorem canon_dnil : canon .dnil = .dnil := rfl

theorem lenOk_of_norm_eq (n : Nat) {a b : Val} (h : norm a = norm b) : lenOk n a = lenOk n b := by
  cases a with
  | none => cases b <;> simp [norm] at h <;> rfl
  | str s => cases b <;> simp [norm] at h <;> rfl
  | tens c sh el =>
    cases b <;> simp [norm] at h
    rename_i c' sh' el'
    rw [h.1]
    cases sh' <;> rfl
  | dnil => cases b <;> simp [norm] at h <;> rfl
  | dcons k v r =>
    cases b with
    | dcons k' v' r' =>
      have := size_of_norm_eq h
      have hk : k = k' := by simp [norm] at h; exact h.1
      subst hk
      simp [lenOk, Val.isList, this]
    | none => simp [norm] at h
    | str s => simp [norm] at h
    | tens _ _ _ => simp [norm] at h
    | dnil => simp [norm] at h

theorem checkLens_of_norm_eq (n : Nat) {a b : Val} (h : norm a = norm b) :
    checkLens n a = checkLens n b := by
  induction a generalizing b with
  | none => cases b <;> simp [norm] at h <;> rfl
  | str s => cases b <;> simp [norm] at h <;> rfl
  | tens c sh el => cases b <;> simp [norm] at h <;> rfl
  | dnil => cases b <;> simp [norm] at h <;> rfl
  | dcons k v r ihv ihr =>
    cases b <;> simp [norm] at h
    rename_i k' v' r'
    simp [checkLens, lenOk_of_norm_eq n h.2.1, ihr h.2.2]

theorem datasetToDict_mkDataset (ty : String) (m desc od cd : Val) (hty : ty ≠ "TemporalDataset") :
    datasetToDict (mkDataset (.str ty) m desc od cd) =
      .ok (mkDict [("measurements", m), ("descriptors", desc), ("obs_descriptors", od),
                   ("channel_descriptors", cd), ("type", .str ty)]) := by
  simp [datasetToDict, mkDataset, mkDict, req, Val.get?, bind, Except.bind, pure, Except.pure, hty]

theorem datasetToDict_mkTemporal (m desc od cd td : Val) :
    datasetToDict (mkTemporal m desc od cd td) =
      .ok (mkDict [("measurements", m), ("descriptors", desc), ("obs_descriptors", od),
                   ("channel_descriptors", cd), ("time_descriptors", td),
                   ("type", .str "TemporalDataset")]) := by
  simp [datasetToDict, mkTemporal, mkDict, req, Val.get?, bind, Except.bind, pure, Except.pure]

theorem datasetFromDict_sim (ty : String) (m desc od cd d' : Val)
    (hty : ty = "Dataset" ∨ ty = "DatasetBase") (hwf : datasetWF m od cd = true)
    (hs : Sim d' (mkDict [("measurements", m), ("descriptors", desc), ("obs_descriptors", od),
                          ("channel_descriptors", cd), ("type", .str ty)])) :
    ∃ o', datasetFromDict d' = .ok o' ∧ canon o' = canon (mkDataset (.str ty) m desc od cd) := by
  obtain ⟨v1, g1, n1⟩ := hs "measurements" m (by simp [mkDict, Val.get?])
  obtain ⟨v2, g2, n2⟩ := hs "descriptors" desc (by simp [mkDict, Val.get?])
  obtain ⟨v3, g3, n3⟩ := hs "obs_descriptors" od (by simp [mkDict, Val.get?])
  obtain ⟨v4, g4, n4⟩ := hs "channel_descriptors" cd (by simp [mkDict, Val.get?])
  obtain ⟨v5, g5, n5⟩ := hs "type" (.str ty) (by simp [mkDict, Val.get?])
  have e5 := norm_eq_str n5
  subst e5
  cases m with
  | tens c sh el =>
    obtain ⟨c', el', e1⟩ := norm_eq_tens n1
    subst e1
    match sh, hwf with
    | [no, nch], hwf =>
      simp only [datasetWF, Bool.and_eq_true] at hwf
      have c3 : checkLens no v3 = true := by rw [checkLens_of_norm_eq no n3]; exact hwf.1
      have c4 : checkLens nch v4 = true := by rw [checkLens_of_norm_eq nch n4]; exact hwf.2
      refine ⟨mkDataset (.str ty) (.tens c' [no, nch] el') v2 v3 v4, ?_, ?_⟩
      · rcases hty with h | h <;> subst h <;>
          simp [datasetFromDict, req, g1, g2, g3, g4, g5, asName, c3, c4, bind, Except.bind,
            pure, Except.pure]
      · simp only [mkDataset, mkDict, canon_dcons, canon_dnil, canon_of_norm_eq n1,
          canon_of_norm_eq n2, canon_of_norm_eq n3, canon_of_norm_eq n4]
  | none => simp [datasetWF] at hwf
  | str s => simp [datasetWF] at hwf
  | dnil => simp [datasetWF] at hwf
  | dcons _ _ _ => simp [datasetWF] at hwf

theorem temporalFromDict_sim (m desc od cd td d' : Val) (hwf : temporalWF m od cd td = true)
    (hs : Sim d' (mkDict [("measurements", m), ("descriptors", desc), ("obs_descriptors", od),
                          ("channel_descriptors", cd), ("time_descriptors", td),
                          ("type", .str "TemporalDataset")])) :
    ∃ o', datasetFromDict d' = .ok o' ∧ canon o' = canon (mkTemporal m desc od cd td) := by
  obtain ⟨v1, g1, n1⟩ := hs "measurements" m (by simp [mkDict, Val.get?])
  obtain ⟨v2, g2, n2⟩ := hs "descriptors" desc (by simp [mkDict, Val.get?])
  obtain ⟨v3, g3, n3⟩ := hs "obs_descriptors" od (by simp [mkDict, Val.get?])
  obtain ⟨v4, g4, n4⟩ := hs "channel_descriptors" cd (by simp [mkDict, Val.get?])
  obtain ⟨v6, g6, n6⟩ := hs "time_descriptors" td (by simp [mkDict, Val.get?])
  obtain ⟨v5, g5, n5⟩ := hs "type" (.str "TemporalDataset") (by simp [mkDict, Val.get?])
  have e5 := norm_eq_str n5
  subst e5
  cases m with
  | tens c sh el =>
    obtain ⟨c', el', e1⟩ := norm_eq_tens n1
    subst e1
    match sh, hwf with
    | [no, nch, nt], hwf =>
      simp only [temporalWF, Bool.and_eq_true] at hwf
      obtain ⟨⟨⟨w1, w2⟩, w3⟩, w4⟩ := hwf
      have c3 : checkLens no v3 = true := by rw [checkLens_of_norm_eq no n3]; exact w1
      have c4 : checkLens nch v4 = true := by rw [checkLens_of_norm_eq nch n4]; exact w2
      have c6 : checkLens nt v6 = true := by rw [checkLens_of_norm_eq nt n6]; exact w3
      have t6 : (v6.get? "time").isSome = true := by
        rw [isSome_get?_of_norm_eq n6 "time"]; exact w4
      have t6' : (v6.get? "time").isNone = false := by
        cases h : v6.get? "time" <;> simp [h] at t6 ⊢
      refine ⟨mkTemporal (.tens c' [no, nch, nt] el') v2 v3 v4 v6, ?_, ?_⟩
      · simp [datasetFromDict, req, g1, g2, g3, g4, g5, g6, asName, c3, c4, c6, t6', bind,
          Except.bind, pure, Except.pure]
      · simp only [mkTemporal, mkDict, canon_dcons, canon_dnil, canon_of_norm_eq n1,
          canon_of_norm_eq n2, canon_of_norm_eq n3, canon_of_norm_eq n4, canon_of_norm_eq n6]
  | none => simp [temporalWF] at hwf
  | str s => simp [temporalWF] at hwf
  | dnil => simp [temporalWF] at hwf
  | dcons _ _ _ => simp [temporalWF] at hwf

/-! ### models -/

/-- `n_cond` as the constructors recover it from 2-d dissimilarities -/
def nCondOf : Val → Nat
  | .tens _ [_, np] _ => Rsa.Gen.C16.nFromReduced np
  | _ => 0

/-- the model objects the five classes construct -/
inductive IsModel : Val → Prop where
  | base (name : String) : IsModel (mkModel (.str "Model") (.str name) .none)
  | other (ty name : String) (dis desc rd pd meas : Val)
      (hty : ty = "ModelFixed" ∨ ty = "ModelSelect" ∨ ty = "ModelWeighted" ∨ ty = "ModelInterpolate")
      (hwf : rdmsWF dis rd pd = true) :
      IsModel (mkModel (.str ty) (.str name) (mkRdms dis desc rd pd meas))

theorem truthy_mkRdms (a b c d e : Val) : truthy (mkRdms a b c d e) = true := rfl

theorem set_pd_mkRdms (a b c d e x : Val) :
    (mkRdms a b c d e).set "pattern_descriptors" x = mkRdms a b c x e := by
  simp [mkRdms, mkDict, Val.set]

theorem get_pd_mkRdms (a b c d e : Val) :
    (mkRdms a b c d e).get? "pattern_descriptors" = some d := by
  simp [mkRdms, mkDict, Val.get?]

theorem get_dis_mkRdms (a b c d e : Val) :
    (mkRdms a b c d e).get? "dissimilarities" = some a := by
  simp [mkRdms, mkDict, Val.get?]

theorem canon_mkModel_congr {ty name r r' : Val} (h : canon r' = canon r) :
    canon (mkModel ty name r') = canon (mkModel ty name r) := by
  simp only [mkModel, mkDict, canon_dcons, canon_dnil, h]

theorem model_roundtrip (o : Val) (h : IsModel o) :
    ∃ d, modelToDict o = .ok d ∧ d.get? versionKey = none ∧
      ∀ d', Sim d' d → ∃ o', modelFromDict d' = .ok o' ∧ canon o' = canon o := by
  cases h with
  | base name =>
    refine ⟨mkDict [("rdm", .none), ("name", .str name), ("type", .str "Model")], ?_, ?_, ?_⟩
    · simp [modelToDict, mkModel, mkDict, req, Val.get?, truthy, bind, Except.bind, pure, Except.pure]
    · simp [mkDict, Val.get?, versionKey]
    · intro d' hs
      obtain ⟨v1, g1, n1⟩ := hs "rdm" .none (by simp [mkDict, Val.get?])
      obtain ⟨v2, g2, n2⟩ := hs "name" (.str name) (by simp [mkDict, Val.get?])
      obtain ⟨v3, g3, n3⟩ := hs "type" (.str "Model") (by simp [mkDict, Val.get?])
      have e1 := norm_eq_none n1
      have e2 := norm_eq_str n2
      have e3 := norm_eq_str n3
      subst e1 e2 e3
      refine ⟨mkModel (.str "Model") (.str name) .none, ?_, rfl⟩
      simp [modelFromDict, req, g1, g2, g3, truthy, asName, bind, Except.bind, pure, Except.pure]
  | other ty name dis desc rd pd meas hty hwf =>
    refine ⟨mkDict [("rdm", mkRdms dis desc rd pd meas), ("name", .str name),
                    ("type", .str ty)], ?_, ?_, ?_⟩
    · simp [modelToDict, mkModel, mkDict, req, Val.get?, truthy_mkRdms, rdmsToDict_mkRdms, bind,
        Except.bind, pure, Except.pure]
    · simp [mkDict, Val.get?, versionKey]
    · intro d' hs
      obtain ⟨v1, g1, n1⟩ := hs "rdm" (mkRdms dis desc rd pd meas) (by simp [mkDict, Val.get?])
      obtain ⟨v2, g2, n2⟩ := hs "name" (.str name) (by simp [mkDict, Val.get?])
      obtain ⟨v3, g3, n3⟩ := hs "type" (.str ty) (by simp [mkDict, Val.get?])
      have e2 := norm_eq_str n2
      have e3 := norm_eq_str n3
      subst e2 e3
      have t1 : truthy v1 = true := by rw [truthy_of_norm_eq n1]; rfl
      obtain ⟨dis', desc', rd', pd', meas', f1, m1, m2, m3, m4, m5, wf'⟩ :=
        rdmsFromDict_sim dis desc rd pd meas v1 hwf (sim_of_norm_eq n1)
      refine ⟨mkModel (.str ty) (.str name) (mkRdms dis' desc' rd' pd' meas'), ?_, ?_⟩
      · rcases hty with h | h | h | h <;> subst h <;>
          simp [modelFromDict, req, g1, g2, g3, t1, f1, truthy_mkRdms, asName, bind, Except.bind,
            pure, Except.pure]
      · exact canon_mkModel_congr (canon_mkRdms_congr m1 m2 m3 m4 m5)

/-! ### index-keyed dictionaries are read by constructed key -/

/-- the keys of `d` are `key i, key (i+1), …` in this order -/
def keysFrom (key : Nat → String) : Nat → Val → Prop
  | _, .dnil => True
  | i, .dcons k _ r => k = key i ∧ keysFrom key (i + 1) r
  | _, _ => False

def nthVal : Val → Nat → Option Val
  | .dcons _ v _, 0 => some v
  | .dcons _ _ r, j + 1 => nthVal r j
  | _, _ => none

theorem get?_keysFrom (key : Nat → String) (hinj : ∀ i j, key i = key j → i = j) (d : Val) :
    ∀ i j v, keysFrom key i d → nthVal d j = some v → d.get? (key (i + j)) = some v := by
  induction d with
  | none => intro i j v h; simp [keysFrom] at h
  | str s => intro i j v h; simp [keysFrom] at h
  | tens c sh el => intro i j v h; simp [keysFrom] at h
  | dnil => intro i j v _ h; cases j <;> simp [nthVal] at h
  | dcons k x r ihx ihr =>
    intro i j v h hn
    obtain ⟨hk, hr⟩ := h
    subst hk
    cases j with
    | zero =>
      simp [nthVal] at hn
      subst hn
      simp [Val.get?]
    | succ j =>
      simp only [nthVal] at hn
      have hne : key i ≠ key (i + (j + 1)) := by
        intro e
        have := hinj _ _ e
        omega
      simp only [Val.get?, hne, if_false]
      have := ihr (i + 1) j v hr hn
      have e : i + 1 + j = i + (j + 1) := by omega
      rw [e] at this
      exact this

theorem byIndexAux_suffix (key : Nat → String) (d0 : Val) (sfx : Val) :
    ∀ i, keysFrom key i sfx →
      (∀ j v, nthVal sfx j = some v → d0.get? (key (i + j)) = some v) →
      byIndexAux key d0 i sfx.size = .ok sfx := by
  induction sfx with
  | none => intro i h; simp [keysFrom] at h
  | str s => intro i h; simp [keysFrom] at h
  | tens c sh el => intro i h; simp [keysFrom] at h
  | dnil => intro i _ _; rfl
  | dcons k x r ihx ihr =>
    intro i h hg
    obtain ⟨hk, hr⟩ := h
    subst hk
    have h0 := hg 0 x (by simp [nthVal])
    have hr' := ihr (i + 1) hr (by
      intro j v hn
      have := hg (j + 1) v (by simpa [nthVal] using hn)
      have e : i + 1 + j = i + (j + 1) := by omega
      rw [e]
      exact this)
    simp only [Nat.add_zero] at h0
    simp [Val.size, byIndexAux, req, h0, hr', bind, Except.bind, pure, Except.pure]

/-- reading by constructed key returns the dictionary itself when its keys already are
    `key 0, key 1, …` in order -/
theorem byIndex_keysFrom (key : Nat → String) (hinj : ∀ i j, key i = key j → i = j) (d : Val)
    (h : keysFrom key 0 d) : byIndex key d = .ok d :=
  byIndexAux_suffix key d d 0 h (fun j v hn => get?_keysFrom key hinj d 0 j v h hn)

/-- … and never depends on the storage order: two dictionaries with the same lookups and the
    same number of entries are read identically -/
theorem byIndexAux_congr (key : Nat → String) (d1 d2 : Val) (h : ∀ k, d1.get? k = d2.get? k) :
    ∀ n i, byIndexAux key d1 i n = byIndexAux key d2 i n := by
  intro n
  induction n with
  | zero => intro i; rfl
  | succ n ih => intro i; simp [byIndexAux, req, h, ih]

theorem keysFrom_of_norm_eq (key : Nat → String) {a b : Val} (h : norm a = norm b) :
    ∀ i, keysFrom key i b → keysFrom key i a := by
  induction a generalizing b with
  | none => cases b <;> simp [norm] at h <;> intro i hb <;> simp [keysFrom] at hb
  | str s => cases b <;> simp [norm] at h <;> intro i hb <;> simp [keysFrom] at hb
  | tens c sh el => cases b <;> simp [norm] at h <;> intro i hb <;> simp [keysFrom] at hb
  | dnil => intro i _; trivial
  | dcons k v r ihv ihr =>
    cases b <;> simp [norm] at h
    rename_i k' v' r'
    intro i hb
    obtain ⟨hk, hr⟩ := hb
    exact ⟨h.1.trans hk, ihr h.2.2 (i + 1) hr⟩

theorem indexKey_inj : ∀ i j, indexKey i = indexKey j → i = j :=
  fun _ _ h => Nat.repr_injective h

theorem modelKey_inj : ∀ i j, modelKey i = modelKey j → i = j := by
  intro i j h
  apply Nat.repr_injective
  have := congrArg String.toList h
  simp only [modelKey, String.toList_append] at this
  exact String.toList_inj.mp (List.append_cancel_left this)

/-! ### results -/

/-- the `models` attribute: a chain `model_0 ↦ m₀, model_1 ↦ m₁, …` of model objects -/
inductive ModelsWF : Val → Prop where
  | nil : ModelsWF .dnil
  | cons (k : String) (m r : Val) (hm : IsModel m) (hr : ModelsWF r) : ModelsWF (.dcons k m r)

theorem models_roundtrip (ms : Val) (h : ModelsWF ms) :
    ∃ msD, ms.mapValsM modelToDict = .ok msD ∧
      ∀ msD', norm msD' = norm msD →
        ∃ ms', msD'.mapValsM modelFromDict = .ok ms' ∧ canon ms' = canon ms ∧ ms'.size = ms.size := by
  induction h with
  | nil =>
    refine ⟨.dnil, rfl, ?_⟩
    intro msD' hn
    have : msD' = .dnil := by cases msD' <;> simp [norm] at hn <;> rfl
    subst this
    exact ⟨.dnil, rfl, rfl, rfl⟩
  | cons k m r hm hr ih =>
    obtain ⟨d, t1, _, f1⟩ := model_roundtrip m hm
    obtain ⟨rD, t2, f2⟩ := ih
    refine ⟨.dcons k d rD, ?_, ?_⟩
    · simp [Val.mapValsM, t1, t2, bind, Except.bind, pure, Except.pure]
    · intro msD' hn
      cases msD' with
      | dcons k' v' r' =>
        simp only [norm, Val.dcons.injEq] at hn
        obtain ⟨hk, hv, hr'⟩ := hn
        subst hk
        obtain ⟨m', g1, c1⟩ := f1 v' (sim_of_norm_eq hv)
        obtain ⟨r'', g2, c2, s2⟩ := f2 r' hr'
        refine ⟨.dcons k' m' r'', ?_, ?_, ?_⟩
        · simp [Val.mapValsM, g1, g2, bind, Except.bind, pure, Except.pure]
        · simp only [canon_dcons, c1, c2]
        · simp [Val.size, s2]
      | none => simp [norm] at hn
      | str s => simp [norm] at hn
      | tens _ _ _ => simp [norm] at hn
      | dnil => simp [norm] at hn

theorem keysFrom_mapValsM (key : Nat → String) (f : Val → Except Err Val) (d : Val) :
    ∀ d' i, d.mapValsM f = .ok d' → keysFrom key i d → keysFrom key i d' := by
  induction d with
  | none => intro d' i _ h; simp [keysFrom] at h
  | str s => intro d' i _ h; simp [keysFrom] at h
  | tens c sh el => intro d' i _ h; simp [keysFrom] at h
  | dnil =>
    intro d' i h _
    simp [Val.mapValsM, pure, Except.pure] at h
    subst h; trivial
  | dcons k v r ihv ihr =>
    intro d' i h hk
    simp only [Val.mapValsM, bind, Except.bind] at h
    split at h
    · cases h
    · split at h
      · cases h
      · rename_i r' hr'
        simp [pure, Except.pure] at h
        subst h
        exact ⟨hk.1, ihr r' (i + 1) hr' hk.2⟩

theorem result_roundtrip (rc : Val → Val → Val → Nat → Val × Val × Val)
    (ev dof va nc me cv nr np ms mv dv ncv : Val)
    (hms : ModelsWF ms) (hkeys : keysFrom modelKey 0 ms) (hsec : secondDim ev = some ms.size) :
    ∃ d, resultToDict (mkResult ev dof va nc me cv nr np ms mv dv ncv) = .ok d ∧
      d.get? versionKey = none ∧
      ∀ d', Sim d' d → ∃ o', resultFromDict rc d' = .ok o' ∧
        canon o' = canon (mkResult ev dof va nc me cv nr np ms mv dv ncv) := by
  obtain ⟨msD, t1, f1⟩ := models_roundtrip ms hms
  refine ⟨mkResult ev dof va nc me cv nr np msD mv dv ncv, ?_, ?_, ?_⟩
  · simp [resultToDict, mkResult, mkDict, req, Val.get?, t1, bind, Except.bind, pure, Except.pure]
  · simp [mkResult, mkDict, Val.get?, versionKey]
  · intro d' hs
    obtain ⟨v1, g1, n1⟩ := hs "evaluations" ev (by simp [mkResult, mkDict, Val.get?])
    obtain ⟨v2, g2, n2⟩ := hs "dof" dof (by simp [mkResult, mkDict, Val.get?])
    obtain ⟨v3, g3, n3⟩ := hs "variances" va (by simp [mkResult, mkDict, Val.get?])
    obtain ⟨v4, g4, n4⟩ := hs "noise_ceiling" nc (by simp [mkResult, mkDict, Val.get?])
    obtain ⟨v5, g5, n5⟩ := hs "method" me (by simp [mkResult, mkDict, Val.get?])
    obtain ⟨v6, g6, n6⟩ := hs "cv_method" cv (by simp [mkResult, mkDict, Val.get?])
    obtain ⟨v7, g7, n7⟩ := hs "n_rdm" nr (by simp [mkResult, mkDict, Val.get?])
    obtain ⟨v8, g8, n8⟩ := hs "n_pattern" np (by simp [mkResult, mkDict, Val.get?])
    obtain ⟨v9, g9, n9⟩ := hs "models" msD (by simp [mkResult, mkDict, Val.get?])
    obtain ⟨v10, g10, n10⟩ := hs "model_var" mv (by simp [mkResult, mkDict, Val.get?])
    obtain ⟨v11, g11, n11⟩ := hs "diff_var" dv (by simp [mkResult, mkDict, Val.get?])
    obtain ⟨v12, g12, n12⟩ := hs "noise_ceil_var" ncv (by simp [mkResult, mkDict, Val.get?])
    obtain ⟨ms', m1, m2, m3⟩ := f1 v9 n9
    have hb : byIndex modelKey v9 = .ok v9 :=
      byIndex_keysFrom modelKey modelKey_inj v9
        (keysFrom_of_norm_eq modelKey n9 0 (keysFrom_mapValsM modelKey modelToDict ms msD 0 t1 hkeys))
    have hsec' : secondDim v1 = some ms'.size := by
      rw [secondDim_of_norm_eq n1, hsec, m3]
    refine ⟨mkResult v1 v2 v3 v4 v5 v6 v7 v8 ms' v10 v11 v12, ?_, ?_⟩
    · simp [resultFromDict, req, g1, g2, g3, g4, g5, g6, g7, g8, g9, g10, g11, g12, hb, m1, hsec',
        bind, Except.bind, pure, Except.pure]
    · simp only [mkResult, mkDict, canon_dcons, canon_dnil, canon_of_norm_eq n1,
        canon_of_norm_eq n2, canon_of_norm_eq n3, canon_of_norm_eq n4, canon_of_norm_eq n5,
        canon_of_norm_eq n6, canon_of_norm_eq n7, canon_of_norm_eq n8, m2, canon_of_norm_eq n10,
        canon_of_norm_eq n11, canon_of_norm_eq n12]

end Rsa.Store
