/- driver ops for property C03 (model side of the correspondence) -/
import Rsa.Core.Wire

open Lean Rsa.Wire

namespace Rsa.Drv.C03

def handle : Handler := fun _op _j => none

end Rsa.Drv.C03
