/- driver ops for property C03 (model side of the correspondence) -/
import Rsa.Core.Wire
import Rsa.Core.Compare
import Rsa.Core.C03Passes

open Lean Rsa.Wire Rsa.Compare

namespace Rsa.Drv.C03

def asSigma {β} (f : Json → R β) (j : Json) : R (SigmaK β) :=
  if j.isNull then pure .none
  else do
    let a ← asArr j
    match a with
    | [] => pure (.vec [])
    | e :: _ =>
      match e with
      | .arr _ => do let m ← asList (asList f) j; pure (.mat m)
      | _ => do let v ← asList f j; pure (.vec v)

def eighF : List (List Float) → List Float × List (List Float) := jacobiEigh 12

/-- measures evaluated in IEEE doubles -/
def measureF (method : String) (n : Nat) (sg : SigmaK Float) (V : List (List Float))
    (x y : List Float) : R Json :=
  match method with
  -- as coded (round 3): every scalar step / guard / dispatch through the regenerated leaves
  | "cosine" => pure (ofFloat (cosineCoded x y))
  | "corr" => pure (ofFloat (corrCoded x y))
  | "spearman" => pure (ofFloat (spearmanCoded x y))
  | "kendall" | "tau-b" => pure (ofOpt ofFloat (tauB x y))
  | "tau-a" => pure (ofFloat (tauATwoPass kendallDisRef x y))
  | "rho-a" => pure (ofFloat (rhoACoded x y))
  | "cosine_cov" => pure (ofOpt ofFloat (whitenedCosDispatch sg x y))
  | "corr_cov" => pure (ofOpt ofFloat (whitenedCosDispatch sg (center x) (center y)))
  | "bures" => pure (ofFloat (buresSimCoded eighF (buresKernelRows n x) (buresKernelRows n y)))
  | "bures_metric" => pure (ofFloat (sqBuresMetricCoded eighF (buresKernelRows n x) (buresKernelRows n y)))
  -- the definitions the theorems speak about (model-internal cross-check)
  | "cosine_spec" => pure (ofFloat (cosine x y))
  | "corr_spec" => pure (ofFloat (corr x y))
  | "spearman_spec" => pure (ofFloat (spearman x y))
  | "tau-a_spec" => pure (ofFloat (tauA x y))
  | "cosine_cov_spec" => pure (ofOpt ofFloat (whitenedCos V x y))
  | "corr_cov_spec" => pure (ofOpt ofFloat (whitenedCorr V x y))
  | "bures_spec" => pure (ofFloat (buresSim eighF (kernelRows n x) (kernelRows n y)))
  | "bures_metric_spec" => pure (ofFloat (sqBuresMetric eighF (kernelRows n x) (kernelRows n y)))
  | m => throw s!"unknown method {m}"

/-- measures evaluated exactly -/
def measureQ (method : String) (x y : List Rat) : R Json :=
  match method with
  | "tau-a" => pure (ofRat (tauATwoPass kendallDisRef x y))
  | "tau-a_spec" => pure (ofRat (tauASpec x y))
  | "rho-a_spec" => pure (ofRat (rhoA x y))
  | "rho-a" => pure (ofRat (rhoACoded x y))
  | m => throw s!"method {m} is not exact"

/-- `compare(x, y, method, sigma_k)`: the whole matrix -/
def compareOp (j : Json) : R Json := do
  let method ← fld j "method" >>= asStr
  let n ← fld j "n" >>= asNat
  let exact ← asBool (fldD j "exact" (Json.bool false))
  if exact then
    let xs ← fld j "x" >>= asList (asList asRat)
    let ys ← fld j "y" >>= asList (asList asRat)
    let rows ← (compareAll (measureQ method) xs ys).mapM (fun r => r.mapM id)
    pure (ofList (ofList id) rows)
  else
    let xs ← fld j "x" >>= asList (asList asFloat)
    let ys ← fld j "y" >>= asList (asList asFloat)
    let sg ← asSigma asFloat (fldD j "sigma" Json.null)
    let V := if method = "cosine_cov_spec" ∨ method = "corr_cov_spec" then getV n sg else []
    let rows ← (compareAll (measureF method n sg V) xs ys).mapM (fun r => r.mapM id)
    pure (ofList (ofList id) rows)

/-- argument checks of `compare`: "ok" or the exception the code raises -/
def acceptsOp (j : Json) : R Json := do
  let method ← fld j "method" >>= asStr
  let lx ← fld j "lx" >>= asNat
  let ly ← fld j "ly" >>= asNat
  pure (Json.str (if accepts method lx ly then "ok" else "ValueError"))

/-- `_get_v(n, sigma_k)` exactly, both as coded and as defined -/
def getvOp (j : Json) : R Json := do
  let n ← fld j "n" >>= asNat
  let sg ← asSigma asRat (fldD j "sigma" Json.null)
  pure (obj [("coded", ofList (ofList ofRat) (getVCoded n sg)),
             ("spec", ofList (ofList ofRat) (vSpec n sg.entry))])

/-- tie-averaged ranks, exactly -/
def ranksOp (j : Json) : R Json := do
  let x ← fld j "x" >>= asList asRat
  pure (ofList ofRat (avgRank x))

/-- the pair counts behind tau-a / tau-b -/
def countsOp (j : Json) : R Json := do
  let x ← fld j "x" >>= asList asRat
  let y ← fld j "y" >>= asList asRat
  pure (obj [("con", ofNat (nCon x y)), ("dis", ofNat (nDis x y)), ("xtie", ofNat (nTieX x y)),
             ("ytie", ofNat (nTieY x y)), ("ntie", ofNat (nTieXY x y)),
             ("tot", ofNat (Rsa.Gen.C03.tauTot x.length)),
             ("con_minus_dis", ofInt (conMinusDis x y))])

/-- solve `A s = b` in doubles (residual check of the stand-in solver) -/
def solveOp (j : Json) : R Json := do
  let a ← fld j "a" >>= asList (asList asFloat)
  let b ← fld j "b" >>= asList asFloat
  pure (ofList ofFloat (solve a b))

/-- eigenvalues of a symmetric matrix by the Jacobi routine -/
def eighOp (j : Json) : R Json := do
  let a ← fld j "a" >>= asList (asList asFloat)
  pure (ofList ofFloat (eighF a).1)

/-- centred kernel of an RDM vector, exactly -/
def kernelOp (j : Json) : R Json := do
  let n ← fld j "n" >>= asNat
  let x ← fld j "x" >>= asList asRat
  pure (ofList (ofList ofRat) (kernelRows n x))

/-- the two `_sort_and_rank` passes of `_tau_a`, its tie counts and its value, exactly -/
def passesOp (j : Json) : R Json := do
  let x ← fld j "x" >>= asList asRat
  let y ← fld j "y" >>= asList asRat
  let p1 := sortAndRank x y
  let xy := tauAPasses x y
  pure (obj [("x1", ofList ofRat p1.1), ("y1", ofList ofNat p1.2),
             ("x2", ofList ofNat xy.1), ("y2", ofList ofNat xy.2),
             ("xtie", ofNat (bincountTies xy.1)), ("ytie", ofNat (bincountTies xy.2)),
             ("ntie", ofNat (runTies (xy.1.zip xy.2))), ("dis", ofNat (kendallDisRef xy.1 xy.2)),
             ("tau", ofRat (tauATwoPass kendallDisRef x y)), ("spec", ofRat (tauASpec x y)),
             ("n_from_len", ofNat (Rsa.Gen.C03.nFromLength x.length)),
             ("n_from_reduced", ofNat (Rsa.Gen.C03.nFromReduced x.length))])

/-- `compare_neg_riemannian_distance` up to the call of `_riemannian_distance`, exactly -/
def riemOp (j : Json) : R Json := do
  let n ← fld j "n" >>= asNat
  let x ← fld j "x" >>= asList asRat
  let sg ← asSigma asRat (fldD j "sigma" Json.null)
  pure (obj [("vec_g", ofList ofRat (riemVecG n x)),
             ("g", ofList (ofList ofRat) (riemGRows n x)),
             ("g_spec", ofList (ofList ofRat) (riemGSpec n x)),
             ("sigma_hat", ofList (ofList ofRat) (sigmaHat n sg))])

/-- a reuse session: the same two stacks (cells 0 and 1; or one stack passed twice) handed to several
    successive `compare()` calls.  `results` = the heap model as coded (aliasing / in-place flags from
    the source text), `spec` = every method on the original stacks, `cells` = the caller's arrays after
    the last call -/
def sessionOp (j : Json) : R Json := do
  let n ← fld j "n" >>= asNat
  let xs ← fld j "x" >>= asList (asList asFloat)
  let ys ← fld j "y" >>= asList (asList asFloat)
  let same ← asBool (fldD j "same" (Json.bool false))
  let steps ← fld j "steps" >>= asArr
  let st : Store (List Float) := if same then [xs] else [xs, ys]
  let b := if same then 0 else 1
  let mut calls : List (Call (List Float) (R Json)) := []
  let mut specs : List Json := []
  for s in steps do
    let method ← fld s "method" >>= asStr
    let sg ← asSigma asFloat (fldD s "sigma" Json.null)
    let (pre, inner) : (List Float → List Float) × String :=
      if method = "corr" then (center, "cosine")
      else if method = "corr_cov" then (center, "cosine_cov")
      else (id, method)
    calls := calls ++ [codedCall method xs.length pre (measureF inner n sg [])]
    let rows ← (compareAll (measureF method n sg []) xs (if same then xs else ys)).mapM (fun r => r.mapM id)
    specs := specs ++ [ofList (ofList id) rows]
  let run := sessionRun calls st 0 b
  let res ← run.2.mapM (fun m => do
    let rows ← m.mapM (fun r => r.mapM id)
    pure (ofList (ofList id) rows))
  pure (obj [("results", Json.arr res.toArray), ("spec", Json.arr specs.toArray),
             ("cells", ofList (ofList (ofList ofFloat)) [run.1.getD 0 [], run.1.getD b []]),
             ("n_cells", ofNat run.1.length)])

def handle : Handler := fun op j =>
  match op with
  | "c03.compare" => some (compareOp j)
  | "c03.getv" => some (getvOp j)
  | "c03.accepts" => some (acceptsOp j)
  | "c03.ranks" => some (ranksOp j)
  | "c03.counts" => some (countsOp j)
  | "c03.solve" => some (solveOp j)
  | "c03.eigh" => some (eighOp j)
  | "c03.kernel" => some (kernelOp j)
  | "c03.passes" => some (passesOp j)
  | "c03.riem" => some (riemOp j)
  | "c03.session" => some (sessionOp j)
  | _ => none

end Rsa.Drv.C03
