/- driver ops for property C20 (model side of the correspondence) -/
import Rsa.Core.Wire
import Rsa.Core.Importers
import Rsa.Core.C20Syntax

open Lean Rsa.Wire Rsa.Importers

namespace Rsa.Drv.C20

def asS (j : Json) : R Str := do pure (← asStr j).toList
def ofS (s : Str) : Json := Json.str (String.ofList s)
def ofOS : Option Str → Json := ofOpt ofS
def exc (e : String) : Json := obj [("exc", Json.str e)]

def ofEnt (e : BidsEnt) : Json :=
  obj [("derivative", ofOS e.derivative), ("sub", ofOS e.sub), ("ses", ofOS e.ses),
       ("task", ofOS e.task), ("run", ofOS e.run), ("space", ofOS e.space),
       ("desc", ofOS e.desc), ("modality", ofOS e.modality),
       ("suffix", ofS e.suffix), ("ext", ofS e.ext)]

/-- a path and its own deconstruction (what a `BidsFile(path)` would hold) -/
def pathAndEnt (modSet : Bool) (p : Str) : Json :=
  if !modSet then exc "AttributeError"
  else match Src.bidsParse p with
    | .ok e => obj [("path", ofS p), ("ent", ofEnt e), ("modality_set", Json.bool (Src.modalitySet p))]
    | .error err => obj [("path", ofS p), ("exc", Json.str err)]

/-- parse a relative path, rebuild it, run the look-ups -/
def bids (j : Json) : R Json := do
  let p ← fld j "path" >>= asS
  let desc ← fld j "desc" >>= asS
  let suffix ← fld j "suffix" >>= asS
  match Src.bidsParse p with
  | .error e => pure (exc e)
  | .ok b =>
    let ms := Src.modalitySet p
    pure (obj [
      ("ent", ofEnt b), ("modality_set", Json.bool ms),
      ("rebuilt", pathAndEnt ms (Src.bidsReplace b {})),
      ("meta", pathAndEnt ms (Src.findMetaFor b)),
      ("events", pathAndEnt ms (Src.findEventsFor b)),
      ("table", pathAndEnt ms (Src.findTableSiblingOf b desc suffix)),
      ("mri", pathAndEnt ms (Src.findMriSiblingOf b desc suffix)),
      ("key", ofS (Src.findTableKeyFor b))])

def ofInfo (i : MInfo) : Json :=
  obj [("version", ofS i.version), ("experiment_name", ofS i.experiment),
       ("structure", ofS i.structure_), ("filetype", ofS i.filetype),
       ("task_scope", Json.str (if i.taskScopeSingle then "single" else "multiple")),
       ("participant_scope", Json.str (if i.participantScopeSingle then "single" else "multiple")),
       ("participant", ofOS i.participant), ("task_index", ofOpt ofNat i.taskIndex),
       ("task_name", ofOS i.taskName)]

def meadowsName (j : Json) : R Json := do
  let p ← fld j "fpath" >>= asS
  let pets ← fld j "petnames" >>= asList asS
  match Src.meadowsSegments pets p with
  | .ok i => pure (ofInfo i)
  | .error e => pure (exc e)

def asMatVal (j : Json) : R (MatVal Rat) := do
  match j.getObjVal? "strs" with
  | .ok v => pure (.strs (← asList asS v))
  | .error _ => pure (.nums (← fld j "nums" >>= asList (asList asRat)))

def asVar (j : Json) : R (Str × MatVal Rat) := do
  match ← asArr j with
  | [k, v] => pure (← asS k, ← asMatVal v)
  | _ => throw "variable must be [name, value]"

def asTask (j : Json) : R (JTask Rat) := do
  pure { taskType := ← asOpt asS (fldD j "task_type" Json.null)
         name := ← fld j "name" >>= asS
         stimuli := ← fld j "stimuli" >>= asList asS
         rdm := ← fld j "rdm" >>= asList asRat }

def ofRdms (r : MeadowsRdms Rat) : Json :=
  obj [("experiment_name", ofS r.experiment), ("dissim", ofList (ofList ofRat) r.dissim),
       ("conds", ofList ofS r.conds), ("participant", ofList ofS r.participant),
       ("task", ofOpt (ofList ofS) r.task), ("task_index", ofOpt (ofList ofNat) r.taskIndex)]

def sJsonExt : Str := ['j', 's', 'o', 'n']

/-- `load_rdms` on a file given by name and content -/
def meadowsLoad (j : Json) : R Json := do
  let p ← fld j "fpath" >>= asS
  let pets ← fld j "petnames" >>= asList asS
  let sort ← fld j "sort" >>= asBool
  match Src.meadowsSegments pets p with
  | .error e => pure (exc e)
  | .ok info =>
    let comps : Except String (Comps Rat) ←
      if info.filetype == sMat then do
        let vars ← fld j "vars" >>= asList asVar
        pure (Src.compsMat info (loadmatVars vars))
      else if info.filetype == sJsonExt then do
        let tasks ← asOpt (asList asTask) (fldD j "tasks" Json.null)
        pure (Src.compsJson info tasks)
      else pure (.error "ValueError")
    match comps with
    | .error e => pure (exc e)
    | .ok c => pure (ofRdms (assemble info c sort))

def asTriple (j : Json) : R (Int × Int × Int) := do
  match ← asList asInt j with
  | [a, b, c] => pure (a, b, c)
  | _ => throw "event row must have three entries"

def mne (j : Json) : R Json := do
  let data ← fld j "data" >>= asList (asList (asList asRat))
  let ev ← fld j "events" >>= asList asTriple
  let ch ← fld j "ch" >>= asList asS
  let first ← fld j "first" >>= asInt
  let sfreq ← fld j "sfreq" >>= asRat
  let nT ← fld j "n_times" >>= asNat
  let keep ← asOpt (asList asInt) (fldD j "select" Json.null)
  let (data, ev) := match keep with
    | some ks => selectEpochs (fun c => ks.contains c) data ev
    | none => (data, ev)
  let d := fromEpochs data ev ch (epochTimes first sfreq nT)
  pure (obj [("measurements", ofList (ofList (ofList ofRat)) d.measurements),
             ("event", ofList ofInt d.event), ("channel", ofList ofS d.channel),
             ("time", ofList ofRat d.time)])

def mneName (j : Json) : R Json := do
  let f ← fld j "fname" >>= asS
  pure (obj ((Src.mneDescriptors f).map (fun kv => (String.ofList kv.1, ofOS kv.2))))

def asEvent (j : Json) : R (Str × Rat) := do
  match ← asArr j with
  | [t, o] => pure (← asS t, ← asRat o)
  | _ => throw "event must be [trial_type, onset]"

def asPair (j : Json) : R (Rat × Rat) := do
  match ← asArr j with
  | [x, v] => pure (← asRat x, ← asRat v)
  | _ => throw "table row must be [x, P(x)]"

/-- `make_design_matrix` from the events on; `ptable` tabulates the interpolant `P` of the
    resampled response at the arguments the model asks for (the scipy contract), `resp_len` is
    the number of samples of that response -/
def dm (j : Json) : R Json := do
  let events ← fld j "events" >>= asList asEvent
  let cf ← asOpt (asList (asList (asOpt asRat))) (fldD j "confounds" Json.null)
  let nVols ← fld j "n_vols" >>= asNat
  let tr ← fld j "tr" >>= asRat
  let respLen ← fld j "resp_len" >>= asNat
  let ptable ← fld j "ptable" >>= asList asPair
  let tab := ptable.toArray.qsort (fun a b => a.1 < b.1)
  -- binary search; an argument missing from the table gives a value no column can contain
  let P : Rat → Rat := fun x => Id.run do
    let mut lo := 0
    let mut hi := tab.size
    while lo < hi do
      let mid := (lo + hi) / 2
      if tab[mid]!.1 < x then lo := mid + 1 else hi := mid
    if h : lo < tab.size then (if tab[lo].1 == x then tab[lo].2 else 424242) else 424242
  match designMatrix events P respLen tr cf nVols with
  | .error e => pure (exc e)
  | .ok d => pure (obj [("cols", ofList (ofList ofRat) d.cols),
                        ("mask", ofList Json.bool d.mask), ("dof", ofInt d.dof)])

def matFn (m : List (List Rat)) : Nat → Nat → Rat :=
  let a := (m.map List.toArray).toArray
  fun i j => match a[i]? with
    | some r => (match r[j]? with | some v => v | none => 0)
    | none => 0

def fnMat (r c : Nat) (f : Nat → Nat → Rat) : List (List Rat) :=
  (List.range r).map (fun i => (List.range c).map (fun j => f i j))

def ncols (m : List (List Rat)) : Nat := match m with | [] => 0 | r :: _ => r.length

def asRuns (j : Json) : R (List (Run Rat)) := do
  let ns ← fld j "nscans" >>= asList asNat
  let fs ← fld j "filters" >>= asList (asList (asList asRat))
  if ns.length != fs.length then throw "nscans and filters differ in length"
  pure ((ns.zip fs).map (fun nf => { t := nf.1, k := ncols nf.2, X := matFn nf.2 }))

def spm (j : Json) : R Json := do
  let runs ← asRuns j
  let data ← fld j "data" >>= asList (asList asRat)
  pure (ofList (ofList ofRat) (fnMat data.length (ncols data) (spmFilter runs (matFn data))))

def spmResid (j : Json) : R Json := do
  let runs ← asRuns j
  let data ← fld j "data" >>= asList (asList asRat)
  let w ← fld j "W" >>= asList (asList asRat)
  let pinv ← fld j "pinvX" >>= asList (asList asRat)
  let x ← fld j "X" >>= asList (asList asRat)
  let n := data.length
  let q := ncols x
  -- `spmResiduals`, stage by stage with every intermediate matrix materialised (the composed
  -- function matrices of the Core definition recompute shared entries exponentially often)
  let pv := ncols data
  let wd := matFn (fnMat n pv (mmul n (matFn w) (matFn data)))
  let fdata := matFn (fnMat n pv (spmFilter runs wd))
  let beta := matFn (fnMat q pv (mmul n (matFn pinv) fdata))
  let res : Nat → Nat → Rat := fun r p => fdata r p - mmul q (matFn x) beta r p
  pure (obj [("residuals", ofList (ofList ofRat) (fnMat n pv res)),
             ("beta", ofList (ofList ofRat) (fnMat q pv beta))])

def relocateOp (j : Json) : R Json := do
  let base ← fld j "base" >>= asS
  let f ← fld j "fpath" >>= asS
  pure (ofS (Src.relocate base f))

def ofDescs (l : List (Str × Option Str)) : Json :=
  obj (l.map (fun kv => (String.ofList kv.1, ofOS kv.2)))

/-- one fMRIPrep run found in the tree: entities, dataset descriptors, the files its accessors read -/
def runView (cfNames : Option (List Str)) (cfTable : List Str) (p : Str) : Json :=
  match Src.bidsParse p with
  | .error e => obj [("path", ofS p), ("exc", Json.str e)]
  | .ok b =>
    obj [("path", ofS p), ("ent", ofEnt b), ("descriptors", ofDescs (Src.datasetDescriptors b)),
         ("meta", ofS (Src.findMetaFor b)), ("events", ofS (Src.findEventsFor b)),
         ("confounds", ofS (Src.confoundsOf b)),
         ("confound_cols", match selectConfounds Src.confoundDefault cfNames
                              (cfTable.map (fun n => (n, n))) with
                           | .ok cols => ofList ofS (cols.map (·.2))
                           | .error e => exc e),
         ("mask", ofS (Src.maskOf b)),
         ("parc", ofS (Src.parcOf b)),
         ("key", match Src.bidsParse (Src.parcOf b) with
                 | .ok pb => ofS (Src.findTableKeyFor pb)
                 | .error e => exc e),
         ("repr", ofS (reprPath p))]

/-- `find_fmriprep_runs` on a listed tree -/
def tree (j : Json) : R Json := do
  let files ← fld j "files" >>= asList asS
  let tasks ← asOpt (asList asS) (fldD j "tasks" Json.null)
  let cfNames ← asOpt (asList asS) (fldD j "cf_names" Json.null)
  let cfTable ← fld j "cf_table" >>= asList asS
  pure (ofList (runView cfNames cfTable) (Src.fmriprepRuns files tasks))

/-- `get_info_from_spm_mat` (names, raw files) and the `reg_of_interest` selections -/
def spmInfo (j : Json) : R Json := do
  let names ← fld j "names" >>= asList asS
  let raw ← fld j "raw" >>= asList asS
  let base ← fld j "base" >>= asS
  let path ← fld j "path" >>= asS
  let betaFiles ← fld j "beta_files" >>= asList asS
  let reg ← fld j "reg" >>= asList asInt
  match names.mapM Src.parseRegName with
  | .error e => pure (exc e)
  | .ok parsed =>
    let runNo := parsed.map (·.1)
    let bnames := parsed.map (·.2)
    pure (obj [
      ("run_number", ofList ofNat runNo), ("beta_names", ofList ofS bnames),
      ("rawdata_files", ofList ofS (raw.map (Src.relocate base))),
      ("betas_files", ofList (ofOpt ofS)
        ((selectBetas betaFiles reg).map (fun o => o.map (fun f => path ++ '/' :: f)))),
      ("betas_images", ofList (ofOpt ofS) (betaImages path betaFiles reg)),
      ("betas_data_images", ofList (ofOpt ofS) (splitBetas (betaImages path betaFiles reg)).1),
      ("betas_resms_image", ofOpt (ofOpt ofS) (splitBetas (betaImages path betaFiles reg)).2),
      ("betas_reg_name", ofList (ofOpt ofS) (selectBetas bnames reg)),
      ("betas_run_number", ofList (ofOpt ofNat) (selectBetas runNo reg)),
      ("resid_reg_name", ofList (ofOpt ofS) (selectResiduals bnames reg)),
      ("resid_run_number", ofList (ofOpt ofNat) (selectResiduals runNo reg)),
      ("resid_rows", ofList (ofOpt ofNat) (selectResiduals (List.range names.length) reg))])

/-- one call of a look-up session -/
def asStep (j : Json) : R Step := do
  let op ← fld j "op" >>= asStr
  let h : R Nat := fld j "h" >>= asNat
  match op with
  | "new_file" => pure (.newFile (← fld j "path" >>= asS))
  | "find_files" =>
    pure (.findFiles (← fld j "derivative" >>= asS) (← fld j "desc" >>= asS)
      (← asOpt (asList asS) (fldD j "tasks" Json.null)))
  | "find_meta" => pure (.findMeta (← h))
  | "get_meta" => pure (.getMeta (← h))
  | "find_events" => pure (.findEvents (← h))
  | "table_sibling" => pure (.tableSibling (← h) (← fld j "desc" >>= asS) (← fld j "suffix" >>= asS))
  | "mri_sibling" => pure (.mriSibling (← h) (← fld j "desc" >>= asS) (← fld j "suffix" >>= asS))
  | "table_key" => pure (.tableKey (← h))
  | o => throw s!"c20.session: unknown step {o}"

def ofAns : Ans Nat → Json
  | .file p d => obj [("path", ofS p), ("data", ofOpt ofNat d)]
  | .files ps => obj [("files", ofList ofS ps)]
  | .err e => exc e

/-- a look-up session on one layout, the code as written (caches included); the content of a
    file is its index in the list of files on disk -/
def session (j : Json) : R Json := do
  let files ← fld j "files" >>= asList asS
  let steps ← fld j "steps" >>= asList asStep
  let fs : Str → Option Nat := fun p => files.findIdx? (· == p)
  pure (ofList ofAns (runSession Src.lk fs files {} steps))

/-- the tabulated HRF (units of 1e-7) as regenerated from `io/hrf.py` -/
def hrfTableOp (_ : Json) : R Json := pure (ofList ofInt hrfTable)

def handle : Handler := fun op j =>
  match op with
  | "c20.hrf_table" => some (hrfTableOp j)
  | "c20.bids" => some (bids j)
  | "c20.meadows_name" => some (meadowsName j)
  | "c20.meadows_load" => some (meadowsLoad j)
  | "c20.mne" => some (mne j)
  | "c20.mne_name" => some (mneName j)
  | "c20.dm" => some (dm j)
  | "c20.spm" => some (spm j)
  | "c20.spm_resid" => some (spmResid j)
  | "c20.relocate" => some (relocateOp j)
  | "c20.tree" => some (tree j)
  | "c20.spm_info" => some (spmInfo j)
  | "c20.session" => some (session j)
  | _ => none

end Rsa.Drv.C20
