/- driver ops for property C12 (model side of the correspondence) -/
import Rsa.Core.Wire

open Lean Rsa.Wire

namespace Rsa.Drv.C12

def handle : Handler := fun _op _j => none

end Rsa.Drv.C12
