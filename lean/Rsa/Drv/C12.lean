/- driver ops for property C12 (model side of the correspondence) -/
import Rsa.Core.Wire
import Rsa.Core.Heap

open Lean Rsa.Wire Rsa.Heap

namespace Rsa.Drv.C12

def asDesc (j : Json) : R Desc := do
  (← asArr j).mapM (fun p => do
    match (← asArr p) with
    | [k, v] => pure ((← asStr k), (← asList asStr v))
    | _ => throw "descriptor entry must be [key, values]")

def asField (j : Json) : R Field := do
  match j.getObjVal? "a" with
  | .ok sh => pure (.arr (← asList asNat sh) (← fld j "l" >>= asList asNat))
  | .error _ => pure (.dict (← fld j "d" >>= asNat))

def asCell (j : Json) : R Cell := do
  match j.getObjVal? "v" with
  | .ok v => pure (.val (← asStr v))
  | .error _ =>
    match j.getObjVal? "o" with
    | .ok fs => do
        let l ← (← asArr fs).mapM (fun p => do
          match (← asArr p) with
          | [k, f] => pure ((← asStr k), (← asField f))
          | _ => throw "attribute must be [name, field]")
        pure (.obj l)
    | .error _ => pure (.dict (← fld j "d" >>= asDesc))

def asHeap (j : Json) : R Heap := do
  let cs ← (← fld j "cells" >>= asArr).mapM (fun p => do
    match (← asArr p) with
    | [l, c] => pure ((← asNat l), (← asCell c))
    | _ => throw "cell must be [loc, cell]")
  let arr := cs.foldl (fun (a : Array Cell) (p : Nat × Cell) =>
    if p.1 < a.size then a.set! p.1 p.2 else (a ++ Array.replicate (p.1 - a.size) Cell.free).push p.2) #[]
  pure { cells := fun l => arr.getD l Cell.free, next := ← fld j "next" >>= asNat }

def asOp (j : Json) : R Op := do
  match (← fld j "op" >>= asStr) with
  | "fill" => pure (.fill (← fld j "field" >>= asStr) (← fld j "vals" >>= asList asStr))
  | "reorder" => pure (.reorder (← fld j "perm" >>= asList asNat))
  | "sort_by" => pure (.sortBy (← fld j "key" >>= asStr) (← fld j "order" >>= asList asStr)
                        (← fld j "reindex" >>= asBool))
  | "append" => pure (.append (← fld j "n" >>= asNat) (← fld j "rows" >>= asList asStr)
                       (← fld j "desc" >>= asDesc))
  | "ds_sort_by" => pure (.dsSortBy (← fld j "by" >>= asStr))
  | o => throw s!"unknown in-place operation {o}"

/-- write discipline of reorder / sort_by / append; the current tree re-binds (default) -/
def asDisc (j : Json) : R Disc := do
  match fldD j "disc" (Json.str "rebind") with
  | .str "rebind" => pure Disc.rebind
  | .str "assign_into" => pure Disc.assignInto
  | _ => throw "disc must be \"rebind\" or \"assign_into\""

def ofDesc (d : Desc) : Json :=
  ofList (fun (p : String × List Val) => Json.arr #[Json.str p.1, ofList Json.str p.2]) d

def ofContent (c : List (String × Content)) : Json :=
  ofList (fun (p : String × Content) =>
    match p.2 with
    | .arr shape vals => Json.arr #[Json.str p.1, Json.str "a", ofList ofNat shape, ofList Json.str vals]
    | .dict d => Json.arr #[Json.str p.1, Json.str "d", ofDesc d]) c

/-- which writable attributes of the roots `as` can be read through the roots `bs` -/
def sharedReport (d : Disc) (h : Heap) (side : String) (as bs : List Loc) : List Json :=
  let rb := reachSide h bs
  as.flatMap (fun a =>
    (if rb.contains a then [Json.arr #[Json.str side, ofNat a, Json.str "<object>"]] else []) ++
    (fieldsOf (h.cells a)).filterMap (fun p =>
      if (fieldWr d p).any (fun l => rb.contains l) then
        some (Json.arr #[Json.str side, ofNat a, Json.str p.1])
      else none))

/-- run a history on an observed heap; dump every root after every step -/
def runOp (j : Json) : R Json := do
  let h ← asHeap j
  let d ← asDisc j
  let src ← fld j "src" >>= asList asNat
  let res ← fld j "res" >>= asList asNat
  let hist ← (← fld j "hist" >>= asArr).mapM (fun s => do
    pure ((← fld s "root" >>= asNat), (← asOp s)))
  let roots := src ++ res
  let dumpAll (h : Heap) : Json := ofList (fun r => ofContent (content h r)) roots
  let (_, trace) := hist.foldl (fun (acc : Heap × List Json) (s : Loc × Op) =>
    let h' := step d acc.1 s.1 s.2
    (h', acc.2 ++ [dumpAll h'])) (h, [dumpAll h])
  pure (obj [("sep", Json.bool (sepB d h src res)),
             ("shared", Json.arr (sharedReport d h "src" src res ++ sharedReport d h "res" res src).toArray),
             ("trace", Json.arr trace.toArray)])

def instrName : Instr → String
  | .newArr f _ _ => "new:" ++ f
  | .newDict f _ => "new:" ++ f
  | .setDict f _ => "set:" ++ f.name
  | .setEls f _ => "els:" ++ f

/-- a small RDMs-like and dataset-like object, only to enumerate what `compile` emits -/
def probeHeap : Heap :=
  { cells := fun l => match l with
      | 0 => .obj [("dissimilarities", .arr [1, 3] [1, 2, 3]), ("descriptors", .dict 4),
                   ("rdm_descriptors", .dict 5), ("pattern_descriptors", .dict 6)]
      | 1 => .val "1.0" | 2 => .val "2.0" | 3 => .val "3.0"
      | 4 => .dict []
      | 5 => .dict [("index", ["0"])]
      | 6 => .dict [("cond", ["b", "a", "c"]), ("index", ["0", "1", "2"])]
      | 7 => .obj [("measurements", .arr [2, 1] [8, 9]), ("obs_descriptors", .dict 10)]
      | 8 => .val "1.0" | 9 => .val "2.0"
      | 10 => .dict [("conds", ["b", "a"])]
      | _ => .free,
    next := 11 }

/-- the write set of every modelled in-place operation, as the instruction list says -/
def writesOp (j : Json) : R Json := do
  let d ← asDisc j
  let names (a : Loc) (op : Op) : Json := ofList Json.str ((compile d probeHeap a op).map instrName)
  pure (obj [("reorder", names 0 (.reorder [1, 0, 2])),
             ("sort_by", names 0 (.sortBy "cond" ["a", "b", "c"] true)),
             ("append", names 0 (.append 1 ["4.0", "5.0", "6.0"] [("index", ["0"])])),
             ("ds_sort_by", names 7 (.dsSortBy "conds")),
             ("fill", names 0 (.fill "dissimilarities" ["0.0", "0.0", "0.0"]))])

def asCtor (j : Json) : R Ctor := do
  match (← fld j "ctor" >>= asStr) with
  | "getitem" => pure (.getitem (← fld j "idx" >>= asList asNat))
  | "subset" => pure (.subset (← fld j "by" >>= asStr) (← fld j "values" >>= asList asStr))
  | "subsample" => pure (.subsample (← fld j "by" >>= asStr) (← fld j "values" >>= asList asStr))
  | "subset_pattern" => pure (.subsetPattern (← fld j "by" >>= asStr) (← fld j "values" >>= asList asStr))
  | "subsample_pattern" =>
      pure (.subsamplePattern (← fld j "by" >>= asStr) (← fld j "values" >>= asList asStr))
  | "copy" => pure .copy
  | "concat" =>
      let t ← match fldD j "target" Json.null with
        | .str s => pure (some s)
        | _ => pure none
      pure (.concat (← fld j "others" >>= asList asNat) t
        (← fld j "descriptors" >>= asDesc) (← fld j "rdm_descriptors" >>= asDesc))
  | o => throw s!"unknown constructor {o}"

/-- run a constructor of the RDMs family on an observed source heap: the predicted content of
    the new object, whether the producer is `fresh`, the derived sharing with the sources
    (`sepB`, for both disciplines) and whether the sources' content is untouched -/
def ctorOp (j : Json) : R Json := do
  let h ← asHeap j
  let a ← fld j "root" >>= asNat
  let srcs ← fld j "srcs" >>= asList asNat
  let c ← asCtor j
  let p := ctorProducer h a c
  let r := produce h a p
  pure (obj [("fresh", Json.bool p.fresh),
             ("specs", ofList (fun (q : String × FieldSpec) =>
                Json.arr #[Json.str q.1, Json.str q.2.kindName]) p.fields),
             ("content", ofContent (content r.1 r.2)),
             ("sep", Json.bool (sepB .rebind r.1 srcs [r.2] && sepB .assignInto r.1 srcs [r.2])),
             ("shared", Json.arr (sharedReport .assignInto r.1 "src" srcs [r.2] ++
                                  sharedReport .assignInto r.1 "res" [r.2] srcs).toArray),
             ("sources_unchanged", Json.bool (decide (contentSide r.1 srcs = contentSide h srcs)))])

/-- attribute kinds (fresh / share) of every constructor of the family on the probe object: the
    model side of the source-text tie `@ctor-specs` -/
def ctorSpecsOp (_ : Json) : R Json := do
  let names (c : Ctor) : Json := ofList (fun (q : String × FieldSpec) =>
    Json.arr #[Json.str q.1, Json.str q.2.kindName]) ((ctorFields probeHeap 0 c).take 4)
  pure (obj [("__getitem__", names (.getitem [0])),
             ("subset", names (.subset "index" ["0"])),
             ("subsample", names (.subsample "index" ["0", "0"])),
             ("subset_pattern", names (.subsetPattern "cond" ["a", "c"])),
             ("subsample_pattern", names (.subsamplePattern "cond" ["a", "a"])),
             ("copy", names .copy),
             ("concat", names (.concat [] none [] []))])

def handle : Handler := fun op j =>
  match op with
  | "c12.run" => some (runOp j)
  | "c12.writes" => some (writesOp j)
  | "c12.ctor" => some (ctorOp j)
  | "c12.ctor_specs" => some (ctorSpecsOp j)
  | _ => none

end Rsa.Drv.C12
