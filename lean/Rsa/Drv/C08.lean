/- driver ops for property C08 (model side of the correspondence) -/
import Rsa.Core.Wire

open Lean Rsa.Wire

namespace Rsa.Drv.C08

def handle : Handler := fun _op _j => none

end Rsa.Drv.C08
