/- driver ops for property C08 (model side of the correspondence) -/
import Rsa.Core.Wire
import Rsa.Core.Fit

open Lean Rsa.Wire Rsa.Compare Rsa.Fit

namespace Rsa.Drv.C08

local instance : Rsa.HasSqrt Rat := ⟨fun _ => 0⟩

def asSigma {β} (f : Json → R β) (j : Json) : R (SigmaK β) :=
  if j.isNull then pure .none
  else do
    let a ← asArr j
    match a with
    | [] => pure (.vec [])
    | e :: _ =>
      match e with
      | .arr _ => do let m ← asList (asList f) j; pure (.mat m)
      | _ => do let v ← asList f j; pure (.vec v)

def asMethod (j : Json) : R Method := do
  match ← asStr j with
  | "cosine" => pure .cosine
  | "corr" => pure .corr
  | "cosine_cov" => pure .cosineCov
  | "corr_cov" => pure .corrCov
  | m => throw s!"unknown method {m}"

def asKind (j : Json) : R Kind := do
  match ← asStr j with
  | "fixed" => pure .fixed
  | "select" => pure .select
  | "weighted" => pure .weighted
  | "interpolate" => pure .interpolate
  | m => throw s!"unknown model class {m}"

def asDesc (j : Json) : R Desc := do
  (← asArr j).mapM (fun kv => do
    let a ← asArr kv
    match a with
    | [k, v] => do pure (← asStr k, ← asList asNat v)
    | _ => throw "descriptor entry must be [name, labels]")

def ofDesc (d : Desc) : Json :=
  ofList (fun kv => Json.arr #[Json.str kv.1, ofList ofNat kv.2]) d

def asParam (j : Json) : R (Param Rat) :=
  if j.isNull then pure .none
  else match j with
    | .arr _ => do pure (.vec (← asList asRat j))
    | _ => do pure (.idx (← asNat j))

def ofVecQ (v : List Rat) : Json := ofList ofRat v

/-- predictions of a model object and of its dictionary round trip, exactly -/
def predictOp (j : Json) : R Json := do
  let kind ← fld j "kind" >>= asKind
  let n ← fld j "n" >>= asNat
  let rows ← fld j "obj" >>= asList (asList asRat)
  let desc ← fld j "desc" >>= asDesc
  let params ← fld j "params" >>= asList asParam
  let M : Model Rat := mkModel kind "m" n rows desc
  let M2 := fromDict (toDict M)
  let one (M : Model Rat) (p : Param Rat) : Json :=
    obj [("vec", ofOpt ofVecQ (predictVec M p)),
         ("rdm", ofOpt (fun r => ofList ofVecQ r.1) (predictRdm M p)),
         ("desc", ofOpt (fun r => ofDesc r.2) (predictRdm M p))]
  let fitterName : Fitter → String
    | .mock => "fit_mock" | .select => "fit_select" | .optimize => "fit_optimize"
    | .interpolate => "fit_interpolate" | .regress => "fit_regress" | .regressNN => "fit_regress_nn"
    | .optimizePositive => "fit_optimize_positive"
  pure (obj [("direct", ofList (one M) params),
             ("dict", match M2 with
               | some M' => ofList (one M') params
               | none => Json.null),
             ("type", Json.str (toDict M).typeName),
             ("default_fitter", Json.str (fitterName (defaultFitter M.kind))),
             ("n_param", ofNat (nParam M)),
             ("mock", ofVecQ (fitMock M))])

/-- `subsample_pattern` on one vector, exactly -/
def subsampleOp (j : Json) : R Json := do
  let n ← fld j "n" >>= asNat
  let desc ← fld j "desc" >>= asList asNat
  let value ← fld j "value" >>= asList asNat
  let v ← fld j "v" >>= asList asRat
  let sel := selection desc value
  pure (obj [("sel", ofList ofNat sel), ("v", ofList (ofOpt ofRat) (subsample n sel v))])

structure Common where
  meth : Method
  n : Nat
  desc : List Nat
  value : Option (List Nat)
  basis : List (List (Option Float))
  data : List (List (Option Float))
  sigma : SigmaK Float

def common (j : Json) : R Common := do
  let meth ← fld j "method" >>= asMethod
  let n ← fld j "n" >>= asNat
  let desc ← fld j "desc" >>= asList asNat
  let value ← asOpt (asList asNat) (fldD j "value" Json.null)
  let basis ← fld j "basis" >>= asList (asList (asOpt asFloat))
  let data ← fld j "data" >>= asList (asList (asOpt asFloat))
  let sigma ← asSigma asFloat (fldD j "sigma" Json.null)
  pure { meth, n, desc, value, basis, data, sigma }

def scoreOf (c : Common) (θ : List Float) : Option Float :=
  scoreCall c.meth c.n c.desc c.value c.basis c.data c.sigma θ

/-- `fit_regress` / `fit_regress_nn` -/
def fitOp (j : Json) : R Json := do
  let c ← common j
  let fitter ← fld j "fitter" >>= asStr
  let norm ← asBool (fldD j "normalize" (Json.bool true))
  match fitter with
  | "regress" =>
    match fitRegressCall c.meth c.n c.desc c.value c.basis c.data c.sigma norm with
    | none => pure (obj [("exc", Json.str "ValueError")])
    | some θ => pure (obj [("theta", ofList ofFloat θ), ("score", ofOpt ofFloat (scoreOf c θ))])
  | "nn" =>
    let eps ← fld j "eps" >>= asFloat
    match fitRegressNNCall eps c.meth c.n c.desc c.value c.basis c.data c.sigma norm with
    | none => pure (obj [("exc", Json.str "ValueError")])
    | some (θ, exited) =>
      pure (obj [("theta", ofList ofFloat θ), ("exited", Json.bool exited),
                 ("score", ofOpt ofFloat (scoreOf c θ))])
  | f => throw s!"unknown fitter {f}"

/-- mean similarity for given parameter vectors -/
def scoreOp (j : Json) : R Json := do
  let c ← common j
  let thetas ← fld j "thetas" >>= asList (asList asFloat)
  pure (ofList (fun θ => ofOpt ofFloat (scoreOf c θ)) thetas)

/-- the objectives of `fit_optimize` (`_loss(theta)`) and `fit_optimize_positive`
    (`_loss(theta ** 2)`) for given points, with a ridge weight -/
def lossOp (j : Json) : R Json := do
  let c ← common j
  let thetas ← fld j "thetas" >>= asList (asList asFloat)
  let ridge ← fld j "ridge" >>= asFloat
  let positive ← asBool (fldD j "positive" (Json.bool false))
  let score (θ : List Float) : Float := (scoreOf c θ).getD 0
  pure (ofList (fun θ => ofFloat (if positive then lossPos score ridge θ else lossOf score ridge θ)) thetas)

def unit (k i : Nat) : List Float := (List.range k).map (fun j => if j = i then 1 else 0)

/-- `fit_select`: evaluations of every candidate and the first arg-max -/
def selectOp (j : Json) : R Json := do
  let c ← common j
  let k := c.basis.length
  let evals := (List.range k).map (fun i => scoreOf c (unit k i))
  match evals.mapM id with
  | none => pure (obj [("evals", ofList (ofOpt ofFloat) evals), ("theta", Json.null)])
  | some ev => pure (obj [("evals", ofList ofFloat ev), ("theta", ofNat (fitSelect ev))])

/-- interpolation: per segment the best convex mixture (non-negative least squares on the
    two neighbours, renormalised to weights summing to one) and its score -/
def interpOp (j : Json) : R Json := do
  let c ← common j
  let eps ← fld j "eps" >>= asFloat
  let k := c.basis.length
  match prepare c.meth c.n c.desc c.value c.basis c.data c.sigma with
  | none => pure (obj [("exc", Json.str "ValueError")])
  | some (A, D, V) =>
    let sol := solOf c.meth V
    let segs := (List.range (k - 1)).map (fun i =>
      let A2 := [A.getD i [], A.getD (i + 1) []]
      let r := fitRegressNN eps c.meth sol A2 D false
      let x1 := r.1.getD 0 0
      let x2 := r.1.getD 1 0
      if 0 < x1 + x2 then
        let w := x1 / (x1 + x2)
        let θ := interpTheta k i w
        (some w, scoreOf c θ)
      else (none, none))
    pure (ofList (fun s => obj [("w", ofOpt ofFloat s.1), ("score", ofOpt ofFloat s.2)]) segs)

/-- `_nn_least_squares(A, y, V)` directly: rows of `A.T`, `y`, optional `V` -/
def nnlsOp (j : Json) : R Json := do
  let rows ← fld j "rows" >>= asList (asList asFloat)
  let y ← fld j "y" >>= asList asFloat
  let eps ← fld j "eps" >>= asFloat
  let tol ← fld j "tol" >>= asFloat
  let vj := fldD j "V" Json.null
  let sol : List Float → List Float ←
    if vj.isNull then pure id else do
      let V ← asList (asList asFloat) vj
      pure (solve V)
  let G := gramOf sol rows
  let c := rhsOf sol rows y
  let r := nnls eps G c
  let xs ← asList (asList asFloat) (fldD j "check" (Json.arr #[]))
  let scale (x : List Float) : Float :=
    let a := maxAbs c * (if maxAbs x < 1 then 1 else maxAbs x)
    if a < 1 then 1 else a
  pure (obj [("x", ofList ofFloat r.1), ("exited", Json.bool r.2.2),
             ("kkt", Json.bool (kktOk (tol * scale r.1) G c r.1)),
             ("kkt_check", ofList (fun x => Json.bool (kktOk (tol * scale x) G c x)) xs)])

def handle : Handler := fun op j =>
  match op with
  | "c08.predict" => some (predictOp j)
  | "c08.subsample" => some (subsampleOp j)
  | "c08.fit" => some (fitOp j)
  | "c08.score" => some (scoreOp j)
  | "c08.loss" => some (lossOp j)
  | "c08.select" => some (selectOp j)
  | "c08.interp" => some (interpOp j)
  | "c08.nnls" => some (nnlsOp j)
  | _ => none

end Rsa.Drv.C08
