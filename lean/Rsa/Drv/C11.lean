/- driver ops for property C11 (model side of the correspondence)

  One request = one session:
    {"op":"c11.session","init":<dataset>,"ops":[<op>...]}
  answer: one entry per op  {"args":<resolved arguments>,"out":"inadmissible" | {"state":[<dataset>...]}
                             | {"query":...}}
  (a query and a refused call also carry "ws": the whole workspace, reported again).
  The workspace is a list of datasets — values; an op addresses one of them by `at` (mod length);
  a value-returning op with "keep": true leaves its source in place and inserts its results after
  it (`applyKeep`; frame theorems `Rsa.Props.C11.applyOp_frame`, `sortBy_frame`, `keep_frame`).
  Arguments are symbolic (k-th key of a descriptor table in sorted order, value at a
  position of that column) and are resolved here against the current model state; the
  Python adaptor resolves them the same way against the real objects and the resolved
  arguments are compared too.
-/
import Rsa.Core.Wire
import Rsa.Core.Dataset

open Lean Rsa.Wire Rsa.Dataset

namespace Rsa.Drv.C11

abbrev D := DS Rat

/-! ### JSON -/

/-- labels on the wire: string, integer, `{"f": "p/q"}` = float-typed number, `null` = missing -/
def asLbl (j : Json) : R Lbl :=
  match j with
  | .null => pure .na
  | .str s => pure (.str s)
  | .obj _ =>
    match j.getObjVal? "f" with
    | .ok f => do let q ← asRat f; pure (.flt q)
    | .error _ => do let q ← fld j "q" >>= asRat; pure (.num q)
  | _ => do let i ← asInt j; pure (.num (i : Rat))

def ofLbl : Lbl → Json
  | .str s => Json.str s
  | .num q => if q.den = 1 then ofInt q.num else obj [("q", Json.str (Rsa.showRat q))]
  | .flt q => obj [("f", Json.str (Rsa.showRat q))]
  | .na => Json.null

def asTbl (j : Json) : R Tbl := do
  (← asArr j).mapM (fun kv => do
    match ← asArr kv with
    | [k, c] => do pure ((← asStr k), (← asList asLbl c))
    | _ => throw "descriptor entry must be [key, column]")

def asRow (j : Json) : R Row := do
  (← asArr j).mapM (fun kv => do
    match ← asArr kv with
    | [k, v] => do pure ((← asStr k), (← asLbl v))
    | _ => throw "descriptor entry must be [key, value]")

def ofTbl (t : Tbl) : Json :=
  obj ((sortKeys t).map (fun kc => (kc.1, ofList ofLbl kc.2)))
def ofRow (t : Row) : Json :=
  obj ((sortKeys t).map (fun kv => (kv.1, ofLbl kv.2)))

/-- a descriptor column given as a bare string counts as one entry
    (`check_descriptor_length`: `if isinstance(v, str): v = [v]`) -/
def asColOrStr (j : Json) : R Col :=
  match j with
  | .str s => pure [.str s]
  | _ => asList asLbl j

def asTblN (j : Json) : R Tbl := do
  if j.isNull then return []          -- `descriptors=None` is the empty dictionary
  (← asArr j).mapM (fun kv => do
    match ← asArr kv with
    | [k, c] => do pure ((← asStr k), (← asColOrStr c))
    | _ => throw "descriptor entry must be [key, column]")

def asDS (j : Json) : R D := do
  let temporal ← fld j "temporal" >>= asBool
  let meas ← fld j "meas" >>= asList (asList (asList asRat))
  let dj ← fld j "desc"
  let desc ← if dj.isNull then pure [] else asRow dj
  let obs ← fld j "obs" >>= asTblN
  let chan ← fld j "chan" >>= asTblN
  let tj ← fld j "time"
  let d0 : D := { temporal, meas, desc, obs, chan, time := [] }
  -- `time_descriptors=None` on a TemporalDataset: 'time' = (0, 1, ..., n_time-1)
  let time ← if tj.isNull then
      pure (if temporal then [("time", (List.range d0.nTime).map (fun (t : Nat) => Lbl.num ((t : Int) : Rat)))] else [])
    else asTblN tj
  pure { d0 with time := time }

/-- does the constructor accept the initial object?  misaligned descriptor lengths raise
    `AttributeError`; a TemporalDataset with time descriptors but no `time` key raises `Warning` -/
def accepted (d : D) : Bool :=
  d.wfB && (!d.temporal || d.time.keys.contains "time")

def ofDS (d : D) : Json :=
  obj [("temporal", Json.bool d.temporal),
       ("meas", if d.temporal then ofList (ofList (ofList ofRat)) d.meas
                else ofList (ofList ofRat) (d.meas.map (fun r => r.flatten))),
       ("desc", ofRow d.desc), ("obs", ofTbl d.obs), ("chan", ofTbl d.chan),
       ("time", ofTbl d.time)]

/-! ### symbolic arguments -/

def sortedKeys (t : Tbl) : List String := (sortKeys t).map (·.1)

/-- k-th key (mod count) in sorted order -/
def pickKey (t : Tbl) (k : Nat) : Option String :=
  let ks := sortedKeys t
  if ks.isEmpty then none else ks[k % ks.length]?

def pickVal (c : Col) (p : Nat) : Option Lbl :=
  if c.isEmpty then none else c[p % c.length]?

/-- a value of the column's type that does not occur in it -/
def absentVal (c : Col) : Lbl :=
  match c with
  | .str _ :: _ => .str "~absent~"
  | _ => .num 987654

def groupsOf (d : D) (k : String) : Nat :=
  match d.obs.col k with
  | none => 0
  | some c => (uniqueFirst c).length

def isIntCol (c : Col) : Bool := c.all (fun x => match x with | .num q => q.den == 1 | _ => false)

def hasNa (c : Col) : Bool := c.contains .na

/-- the `by` column of an operation must not hold a missing value (numpy's `unique` / `==` /
    `argsort` on `None` / `NaN` are outside the property's admissible arguments) -/
def byOk (t : Tbl) (k : String) : Bool := !(hasNa ((t.col k).getD []))

/-- numpy dtype kind of a column: 1 integer, 2 float (numbers / NaN, at least one float or NaN),
    3 string, 4 anything else (mixed: numpy would coerce on concatenation) -/
def colKind (c : Col) : Nat :=
  if c.all (fun x => match x with | .num _ => true | _ => false) then 1
  else if floatCol c then 2
  else if c.all (fun x => match x with | .str _ => true | _ => false) then 3
  else 4

/-- beyond the documented precondition (`mergeAdmissible`): concatenating the parts' columns must
    not make numpy coerce values — every shared observation descriptor has one dtype kind in all
    parts, every shared dataset descriptor likewise, and no dataset descriptor is missing
    (`len({nan, nan}) == 2`) -/
def mergeClean (ws : List D) : Bool :=
  let obsKeys := sharedKeys (ws.map (·.obs))
  let dKeys := sharedKeys (ws.map (·.desc))
  obsKeys.all (fun k =>
    let kinds := ws.map (fun d => colKind ((d.obs.col k).getD []))
    kinds.all (fun x => x != 4 && some x == kinds.head?)) &&
  dKeys.all (fun k =>
    let vals := ws.filterMap (fun d => d.desc.lookup k)
    !(vals.contains .na) &&
    (let kinds := vals.map (fun v => colKind [v]); kinds.all (fun x => some x == kinds.head?)))

/-- every observation descriptor column has one dtype (so every subset of it has the same one)
    and no dataset descriptor is missing: the parts of a split can then be merged without numpy
    coercing a value -/
def pureCol (c : Col) : Bool :=
  c.all (fun x => match x with | .num _ => true | _ => false) ||
  c.all (fun x => match x with | .str _ => true | _ => false) ||
  c.all (fun x => match x with | .flt _ => true | .na => true | _ => false)
def dsClean (d : D) : Bool := d.obs.all (fun kc => pureCol kc.2) && !(d.desc.any (fun kv => kv.2 == .na))

/-- shapes that `np.concatenate(axis=0)` refuses -/
def shapesDiffer (ws : List D) : Bool :=
  match ws with
  | [] => false
  | d0 :: _ => ws.any (fun d => d.nChan != d0.nChan || d.nTime != d0.nTime)

inductive Out where
  | inadm
  | rejected
  | state (ws : List D)
  | query (j : Json)

def natD (j : Json) (k : String) : Nat :=
  match (fldD j k (Json.num 0)).getNat? with
  | .ok n => n
  | .error _ => 0

def boolD (j : Json) (k : String) : Bool :=
  match (fldD j k (Json.bool false)).getBool? with
  | .ok b => b
  | .error _ => false

def natsD (j : Json) (k : String) : List Nat :=
  match asList asNat (fldD j k (Json.arr #[])) with
  | .ok l => l
  | .error _ => []

/-- every state change goes through the proved `applyOp` of `Rsa.Core.Dataset` -/
def ofApply (ws : List D) (o : Op) : Out :=
  match applyOp ws o with
  | none => .inadm
  | some ws' => .state ws'

/-- a value-returning operation with `"keep": true`: the caller keeps the source, the results are
    inserted after it (`applyKeep`, frame proved in `Rsa.Props.C11.keep_frame`) -/
def ofApplyK (keep : Bool) (ws : List D) (i : Nat) (o : Op) : Out :=
  if keep then
    match applyKeep ws i o with
    | none => .inadm
    | some ws' => .state ws'
  else ofApply ws o

/-- one step: resolved arguments and outcome -/
def step (ws : List D) (o : Json) : R (Json × Out) := do
  let name ← fld o "name" >>= asStr
  if ws.isEmpty then return (Json.null, .inadm)
  let keep := boolD o "keep"
  let i := natD o "at" % ws.length
  let some d := ws[i]? | return (Json.null, .inadm)
  let k := natD o "k"
  let ok := nonEmpty d
  let args (kvs : List (String × Json)) : Json := obj (("at", ofNat i) :: kvs)
  match name with
  | "copy" => pure (args [], ofApplyK keep ws i (.copy i))
  | "pick" => pure (args [], ofApply ws (.pick i))
  | "merge" =>
    -- datasets of different classes are rejected by `merge_datasets` (ValueError)
    if ws.any (fun x => x.temporal != d.temporal) || ws.any (fun x => x.temporal != (ws.headD d).temporal)
    then pure (Json.null, .rejected)
    else if ws.all nonEmpty && shapesDiffer ws then
      -- `np.concatenate` refuses parts with different channel / time counts (ValueError); the
      -- model's `merge` is not applicable either
      pure (Json.null, if mergeAdmissible ws then .inadm else .rejected)
    else if !(mergeClean ws) then pure (Json.null, .inadm)
    else pure (Json.null, ofApply ws .merge)
  | "split_obs" =>
    match pickKey d.obs k with
    | some by_ => pure (args [("by", Json.str by_)],
        if ok && byOk d.obs by_ then ofApplyK keep ws i (.splitObs i by_) else .inadm)
    | none => pure (args [], .inadm)
  | "split_channel" =>
    match pickKey d.chan k with
    | some by_ => pure (args [("by", Json.str by_)],
        if ok && byOk d.chan by_ then ofApplyK keep ws i (.splitChan i by_) else .inadm)
    | none => pure (args [], .inadm)
  | "split_time" =>
    match pickKey d.time k with
    | some by_ => pure (args [("by", Json.str by_)],
        if ok && d.temporal && byOk d.time by_ then ofApplyK keep ws i (.splitTime i by_) else .inadm)
    | none => pure (args [], .inadm)
  | "subset_obs" | "subset_channel" =>
    let t := if name == "subset_obs" then d.obs else d.chan
    match pickKey t k with
    | none => pure (args [], .inadm)
    | some by_ =>
      let col := (t.col by_).getD []
      let vals := if boolD o "absent" then [absentVal col]
                  else (natsD o "vals").filterMap (pickVal col)
      let vals := if boolD o "scalar" then vals.take 1 else vals
      let a := args [("by", Json.str by_), ("vals", ofList ofLbl vals),
                     ("scalar", Json.bool (boolD o "scalar"))]
      if !ok || (boolD o "scalar" && vals.isEmpty) || hasNa col then pure (a, .inadm)
      else
        pure (a, ofApplyK keep ws i (if name == "subset_obs" then .subsetObs i by_ vals else .subsetChan i by_ vals))
  | "subset_time" =>
    match pickKey d.time k with
    | none => pure (args [], .inadm)
    | some by_ =>
      let col := (d.time.col by_).getD []
      let (lo, hi) :=
        if boolD o "absent" then (absentVal col, absentVal col)
        else
          let a := (pickVal col (natD o "lo")).getD (absentVal col)
          let b := (pickVal col (natD o "hi")).getD (absentVal col)
          if Lbl.le a b then (a, b) else (b, a)
      -- a bound strictly between / outside the column's values: value ± 1/2 (float-typed)
      let shift (x : Lbl) (k : Nat) : Lbl :=
        match x.numVal, k with
        | some q, 1 => .flt (q - 1/2)
        | some q, 2 => .flt (q + 1/2)
        | _, _ => x
      let (lo, hi) := (shift lo (natD o "lo_off"), shift hi (natD o "hi_off"))
      let a := args [("by", Json.str by_), ("lo", ofLbl lo), ("hi", ofLbl hi)]
      if ok && d.temporal && !hasNa col then pure (a, ofApplyK keep ws i (.subsetTime i by_ lo hi))
      else pure (a, .inadm)
  | "sort_by" =>
    match pickKey d.obs k with
    | some by_ => pure (args [("by", Json.str by_)],
        if ok && byOk d.obs by_ then ofApply ws (.sortBy i by_) else .inadm)
    | none => pure (args [], .inadm)
  | "odd_even" =>
    match pickKey d.obs k with
    | some by_ =>
      let a := args [("by", Json.str by_)]
      if !(ok && byOk d.obs by_ && dsClean d) then pure (a, .inadm)
      else if groupsOf d by_ ≥ 2 then pure (a, ofApplyK keep ws i (.oddEven i by_))
      else
        -- a single group: `merge_datasets([])` has nothing to return; the model's `oddEven` is
        -- `none` for that reason and the real call must not return a result either
        pure (a, if (oddEven by_ d).isNone then .rejected else .inadm)
    | none => pure (args [], .inadm)
  | "nested_odd_even" =>
    match pickKey d.obs k, pickKey d.obs (natD o "k2") with
    | some l1, some l2 =>
      let a := args [("l1", Json.str l1), ("l2", Json.str l2)]
      let fine := match splitObs l1 d with
        | some parts => parts.all (fun p => groupsOf p l2 ≥ 2)
        | none => false
      if !(ok && byOk d.obs l1 && byOk d.obs l2 && dsClean d) then pure (a, .inadm)
      else if fine then pure (a, ofApplyK keep ws i (.nestedOddEven i l1 l2))
      else
        -- some level-1 group has a single level-2 group: its odd/even split is rejected
        pure (a, if (nestedOddEven l1 l2 d).isNone then .rejected else .inadm)
    | _, _ => pure (args [], .inadm)
  | "bin_time" =>
    match pickKey d.time k with
    | none => pure (args [], .inadm)
    | some by_ =>
      let col := (d.time.col by_).getD []
      let bins ← (fldD o "bins" (Json.arr #[])) |> asList (asList asNat)
      let bins := bins.map (fun b => b.filterMap (pickVal col))
      let a := args [("by", Json.str by_), ("bins", ofList (ofList ofLbl) bins)]
      if ok && d.temporal && isIntCol col && !col.isEmpty && !bins.isEmpty
          && bins.all (fun b => !b.isEmpty) then
        pure (a, ofApplyK keep ws i (.binTime i by_ bins))
      else pure (a, .inadm)
  | "time_as_observations" =>
    match pickKey d.time k with
    | some by_ => pure (args [("by", Json.str by_)],
        if ok && d.temporal && byOk d.time by_ then ofApplyK keep ws i (.timeAsObs i by_) else .inadm)
    | none => pure (args [], .inadm)
  | "time_as_channels" =>
    pure (args [], if ok && d.temporal then ofApplyK keep ws i (.timeAsChan i) else .inadm)
  | "df" | "df_default" =>
    match pickKey d.chan k with
    | some key =>
      let a := args [("key", Json.str key)]
      -- the representable classes (`dfRepresentable`, `dfDefaultRepresentable`) are part of the
      -- proved model: `applyOp` answers `none` outside them
      if ok && !d.temporal then
        pure (a, ofApplyK keep ws i (if name == "df" then .df i key else .dfDefault i key))
      else pure (a, .inadm)
    | none => pure (args [], .inadm)
  | "average_by" =>
    match pickKey d.obs k with
    | some by_ =>
      let a := args [("by", Json.str by_)]
      if ok && !d.temporal && byOk d.obs by_ then
        match averageBy by_ d with
        | some (avg, us, ns) => pure (a, .query (obj [("avg", ofList (ofList ofRat) avg),
            ("uniq", ofList ofLbl us), ("n", ofList ofNat ns)]))
        | none => pure (a, .inadm)
      else pure (a, .inadm)
    | none => pure (args [], .inadm)
  | "tensor" =>
    match pickKey d.obs k with
    | some by_ =>
      let a := args [("by", Json.str by_)]
      let col := (d.obs.col by_).getD []
      let sizes := (uniqueFirst col).map (fun u => (indicesWhere (fun x => x == u) col).length)
      if ok && !d.temporal && byOk d.obs by_ && sizes.all (fun s => some s == sizes.head?) then
        match tensorBy by_ d with
        | some (t, us) => pure (a, .query (obj [("tensor", ofList (ofList (ofList ofRat)) t),
            ("uniq", ofList ofLbl us)]))
        | none => pure (a, .inadm)
      else pure (a, .inadm)
    | none => pure (args [], .inadm)
  | _ => throw s!"unknown session op {name}"

def session (j : Json) : R Json := do
  let init ← fld j "init" >>= asDS
  if !accepted init then
    return obj [("init", Json.str "rejected"), ("steps", Json.arr #[])]
  let ops ← fld j "ops" >>= asArr
  let mut ws : List D := [init]
  let mut outs : Array Json := #[]
  for o in ops do
    let (a, out) ← step ws o
    match out with
    | .inadm => outs := outs.push (obj [("args", a), ("out", Json.str "inadmissible")])
    -- a refused call and a query leave the workspace as it is: every object is reported again
    | .rejected => outs := outs.push (obj [("args", a), ("out", Json.str "rejected"), ("ws", ofList ofDS ws)])
    | .query q => outs := outs.push (obj [("args", a), ("out", obj [("query", q)]), ("ws", ofList ofDS ws)])
    | .state ws' =>
      ws := ws'
      outs := outs.push (obj [("args", a), ("out", obj [("state", ofList ofDS ws')])])
  pure (obj [("init", ofDS init), ("steps", Json.arr outs)])

def handle : Handler := fun op j =>
  match op with
  | "c11.session" => some (session j)
  | _ => none

end Rsa.Drv.C11
