/- driver ops for property C16 (model side of the correspondence) -/
import Rsa.Core.Wire
import Rsa.Core.Store

open Lean Rsa.Wire Rsa.Store

namespace Rsa.Drv.C16

/-! wire format (strings travel as lists of code points, never as JSON text):
    Val  : null | {"s":[cp…]} | {"t":"nd|list|tuple|scalar","sh":[…],"e":[atom…]} | {"d":[[key,val]…]}
    atom : ["i",n] | ["f",x] | ["b",0|1] | ["s",[cp…]]     x : int | "p/q" | "nan" | "inf" | "-inf" | "-0" -/

def asText (j : Json) : R String := do
  let cps ← asList asNat j
  pure (String.ofList (cps.map Char.ofNat))

def ofText (s : String) : Json := ofList (fun c => ofNat c.toNat) s.toList

def asNum (j : Json) : R Num :=
  match j with
  | .str "nan" => pure .nan
  | .str "inf" => pure .pinf
  | .str "-inf" => pure .ninf
  | .str "-0" => pure .nzero
  | _ => do let q ← asRat j; pure (.fin q)

def ofNum : Num → Json
  | .fin q => ofRat q
  | .nan => Json.str "nan"
  | .pinf => Json.str "inf"
  | .ninf => Json.str "-inf"
  | .nzero => Json.str "-0"

def asAtom (j : Json) : R Atom := do
  match ← asArr j with
  | [tag, v] =>
      match ← asStr tag with
      | "i" => do pure (.num .int (← asNum v))
      | "f" => do pure (.num .float (← asNum v))
      | "b" => do pure (.num .bool (← asNum v))
      | "s" => do pure (.str (← asText v))
      | t => throw s!"bad atom tag {t}"
  | _ => throw "bad atom"

def ofAtom : Atom → Json
  | .num .int x => Json.arr #[Json.str "i", ofNum x]
  | .num .float x => Json.arr #[Json.str "f", ofNum x]
  | .num .bool x => Json.arr #[Json.str "b", ofNum x]
  | .str s => Json.arr #[Json.str "s", ofText s]

def asCont (s : String) : R Cont :=
  match s with
  | "nd" => pure .nd
  | "list" => pure .list
  | "tuple" => pure .tuple
  | "scalar" => pure .scalar
  | _ => throw s!"bad container {s}"

def ofCont : Cont → String
  | .nd => "nd"
  | .list => "list"
  | .tuple => "tuple"
  | .scalar => "scalar"

partial def asVal (j : Json) : R Val := do
  if j.isNull then return .none
  match j.getObjVal? "s" with
  | .ok s => return .str (← asText s)
  | .error _ => pure ()
  match j.getObjVal? "d" with
  | .ok d => do
      let entries ← asArr d
      let kvs ← entries.mapM (fun e => do
        match ← asArr e with
        | [k, v] => do pure ((← asText k), (← asVal v))
        | _ => throw "bad dict entry")
      return mkDict kvs
  | .error _ => pure ()
  let c ← fld j "t" >>= asStr >>= asCont
  let sh ← fld j "sh" >>= asList asNat
  let el ← fld j "e" >>= asList asAtom
  return .tens c sh el

partial def ofVal : Val → Json
  | .none => Json.null
  | .str s => obj [("s", ofText s)]
  | .tens c sh el => obj [("t", Json.str (ofCont c)), ("sh", ofList ofNat sh), ("e", ofList ofAtom el)]
  | d =>
      let rec entries : Val → List Json
        | .dcons k v r => Json.arr #[ofText k, ofVal v] :: entries r
        | _ => []
      obj [("d", Json.arr (entries d).toArray)]

def errName : Err → String
  | .fileExists => "fileExists"
  | .unicode => "unicode"
  | .unstorable => "unstorable"
  | .notDict => "notDict"
  | .keyError => "keyError"
  | .attrError => "attrError"
  | .badShape => "badShape"
  | .typeError => "typeError"
  | .valueError => "valueError"
  | .unbound => "unbound"
  | .assertion => "assertion"
  | .nameExists => "nameExists"
  | .notFound => "notFound"
  | .badFile => "badFile"
  | .unspecified => "unspecified"

def asKind (s : String) : R Kind :=
  match s with
  | "rdms" => pure .rdms
  | "dataset" => pure .dataset
  | "model" => pure .model
  | "result" => pure .result
  | _ => throw s!"bad kind {s}"

def asFType (s : String) : R FType :=
  match s with
  | "hdf5" => pure .hdf5
  | "pkl" => pure .pkl
  | _ => throw s!"bad file type {s}"

def asTarget (j : Json) : R Target := do
  let p ← fld j "path" >>= asBool
  let i ← fld j "id" >>= asNat
  let nm ← match fldD j "name" Json.null with
    | .null => pure ""
    | x => asText x
  -- `via`: how a path target is handed over ("str" when absent; "Path" | "PathLike" | "bytes")
  let viaStr ← match fldD j "via" Json.null with
    | .null => pure true
    | x => do let v ← asStr x; pure (v == "str")
  pure { isPath := p, id := i, name := nm, asStr := viaStr || !p }

/-- equality of file contents (for the answer "did this save change the file?") -/
def h5Eq : H5 → H5 → Bool
  | .empty, .empty => true
  | .attrStr a, .attrStr b => a == b
  | .attrArr s a, .attrArr t b => s == t && a == b
  | .dset s a, .dset t b => s == t && a == b
  | .dsetS s a, .dsetS t b => s == t && a.map (·.data) == b.map (·.data)
  | .gnil, .gnil => true
  | .gcons k a r, .gcons l b q => k == l && h5Eq a b && h5Eq r q
  | _, _ => false

def contentEq : Option Content → Option Content → Bool
  | none, none => true
  | some (.h5 a), some (.h5 b) => h5Eq a b
  | some (.pkl a), some (.pkl b) => a == b
  | some .dirty, some .dirty => true    -- nothing is known about it, before as after
  | _, _ => false

structure St where
  objs : Array (Kind × Val)
  fs : FS
  out : Array Json

/-- a whole save / load session; the answer lists the outcome of every operation -/
def session (j : Json) : R Json := do
  let codec ← match fldD j "codec" (Json.str "utf8") with
    | .str "ascii" => pure Codec.ascii
    | _ => pure Codec.utf8
  let objsJ ← fld j "objs" >>= asArr
  let objs ← objsJ.mapM (fun o => do
    let k ← fld o "kind" >>= asStr >>= asKind
    let v ← fld o "obj" >>= asVal
    pure (k, v))
  let ops ← fld j "ops" >>= asArr
  let mut st : St := { objs := objs.toArray, fs := [], out := #[] }
  for op in ops do
    let what ← fld op "do" >>= asStr
    let t ← fld op "target" >>= asTarget
    if what = "save" then
      let i ← fld op "obj" >>= asNat
      match st.objs[i]? with
      | none => throw "bad object index"
      | some (k, o) =>
          -- an omitted `ft` / `overwrite` means the argument is not passed: `save`'s defaults
          let ft ← match fldD op "ft" Json.null with
            | .null => pure (saveDefault k).1
            | x => asStr x >>= asFType
          let ov ← match fldD op "overwrite" Json.null with
            | .null => pure (saveDefault k).2
            | x => asBool x
          let (fs', err, o') := saveC codec k st.fs t ft ov o
          let r := obj [("err", match err with | none => Json.null | some e => Json.str (errName e)),
                        ("pure", Json.bool (o' == o)),
                        ("file", Json.str (if contentEq (FS.lookup st.fs t) (FS.lookup fs' t)
                                           then "same" else "changed"))]
          st := { objs := st.objs.set! i (k, o'), fs := fs', out := st.out.push r }
    else if what = "load" then
      let k ← fld op "kind" >>= asStr >>= asKind
      let ft ← asOpt (fun x => asStr x >>= asFType) (fldD op "ft" Json.null)
      match load k st.fs t ft with
      | .error e => st := { st with out := st.out.push (obj [("err", Json.str (errName e))]) }
      | .ok o => st := { st with out := st.out.push (obj [("obj", ofVal (canon o))]) }
    else throw s!"bad session op {what}"
  pure (Json.arr st.out)

/-- canonical form of a value (used to compare the in-memory originals) -/
def canonOp (j : Json) : R Json := do
  let v ← fld j "v" >>= asVal
  pure (ofVal (canon v))

/-- dictionary-level round trip `decode (encode d)` with either codec -/
def h5rt (j : Json) : R Json := do
  let codec ← match fldD j "codec" (Json.str "utf8") with
    | .str "ascii" => pure Codec.ascii
    | _ => pure Codec.utf8
  let v ← fld j "v" >>= asVal
  match encodeC codec v with
  | .error e => pure (obj [("err", Json.str (errName e))])
  | .ok t =>
      match decode t with
      | .error e => pure (obj [("err", Json.str (errName e))])
      | .ok d => pure (obj [("obj", ofVal (canon d)), ("storable", Json.bool (storable codec v))])

def handle : Handler := fun op j =>
  match op with
  | "c16.session" => some (session j)
  | "c16.canon" => some (canonOp j)
  | "c16.h5rt" => some (h5rt j)
  | _ => none

end Rsa.Drv.C16
