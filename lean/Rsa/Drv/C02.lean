/- driver ops for property C02 (model side of the correspondence); Mathlib-free.

   ops
     c02.crossnobis   exact (`Rat`): one precision (or none) / one precision per fold
     c02.poisson_cv   `Float`
   common fields
     ckind, fkind : "int" | "str" | "rat"   label types of conditions / folds
     cond : [label]      fold : [label] | null (null = default descriptor, k-th occurrence)
     x : [[number]]      P : channel count
     what : "algo" (as coded, default) | "spec" (statement) | "lastfold" (pinned-tree poisson)
     descriptor : false = the call passes descriptor=None (rejected by the code)
     noise_kind : "none" | "matrix" | "list" | "scalar" (not a matrix: rejected)
   answer: {"pairs": [[a, b, value] …]}  or  {"reject": "unbalanced" | "no_descriptor" |
           "noise_type" | "noise_shape"}   (the code's ValueError / AssertionError exits)
-/
import Rsa.Core.Wire
import Rsa.Core.CrossVal

open Lean Rsa.Wire Rsa.CrossVal

namespace Rsa.Drv.C02

/-- Gauss–Jordan inverse over `Rat` (the driver's own `np.linalg.inv`); `none` if singular -/
def gjInv (n : Nat) (A : Nat → Nat → Rat) : Option (Array (Array Rat)) := Id.run do
  let mut M : Array (Array Rat) := Array.ofFn (n := n) fun i =>
    Array.ofFn (n := 2 * n) fun j =>
      if j.1 < n then A i.1 j.1 else if j.1 - n = i.1 then 1 else 0
  for c in [0:n] do
    let mut piv : Option Nat := none
    for r in [c:n] do
      if piv.isNone && M[r]![c]! != 0 then piv := some r
    match piv with
    | none => return none
    | some p =>
      let rowp := M[p]!
      M := M.set! p M[c]!
      M := M.set! c rowp
      let d := M[c]![c]!
      M := M.set! c (M[c]!.map (fun a => a / d))
      let rowc := M[c]!
      for r in [0:n] do
        if r != c then
          let f := M[r]![c]!
          M := M.set! r ((M[r]!.zip rowc).map (fun ab => ab.1 - f * ab.2))
  return some (M.map (fun row => row.extract n (2 * n)))

/-- candidate inverse handed to the model's `certInv` (singular ↦ empty, which fails the
    certificate); nothing is assumed about it -/
def invL (n : Nat) (A : List (List Rat)) : List (List Rat) :=
  match gjInv n (matFn A) with
  | some B => B.toList.map (·.toList)
  | none => []

def matOfList {α : Type} [Zero α] (m : List (List α)) : Nat → Nat → α :=
  fun k l => (m.getD k []).getD l 0

def vecOfList {α : Type} [Zero α] (v : List α) : Nat → α := fun k => v.getD k 0

/-- decode labels of the given kind and continue generically -/
def withLbl (kind : String)
    (k : (β : Type) → [DecidableEq β] → [LT β] → [DecidableLT β] →
      (Json → R β) → (β → Json) → R Json) : R Json :=
  match kind with
  | "int" => k Int asInt ofInt
  | "str" => k String asStr Json.str
  | "rat" => k Rat asRat ofRat
  | other => throw s!"unknown label kind {other}"

def mkObs {L F α : Type} (cond : List L) (fold : List F) (x : List (Nat → α)) :
    List (Obs L F α) :=
  (cond.zip (fold.zip x)).map (fun t => ⟨t.1, t.2.1, t.2.2⟩)

def encPairs {L α : Type} (encL : L → Json) (encN : α → Json)
    (res : List ((L × L) × α)) : Json :=
  obj [("pairs", ofList (fun e => Json.arr #[encL e.1.1, encL e.1.2, encN e.2]) res)]

def specPairs {L F α : Type} [DecidableEq L] [LT L] [DecidableLT L]
    [DecidableEq F] [LT F] [DecidableLT F]
    (D : List (Obs L F α)) (val : List F → L → L → α) : List ((L × L) × α) :=
  let conds := sortedDistinct (D.map (·.cond))
  let folds := sortedDistinct (D.map (·.fold))
  (pairsOf conds).map (fun ab => (ab, val folds ab.1 ab.2))

/-- crossnobis on decoded data -/
def crossRun {L F : Type} [DecidableEq L] [LT L] [DecidableLT L]
    [DecidableEq F] [LT F] [DecidableLT F]
    (encL : L → Json) (j : Json) (P : Nat) (D : List (Obs L F Rat)) : R Json := do
  let rm ← asBool (fldD j "remove_mean" (Json.bool false))
  let what ← asStr (fldD j "what" (Json.str "algo"))
  let nj := fldD j "noise" Json.null
  let nkind ← asStr (fldD j "noise_kind" (Json.str "none"))
  match nkind with
  | "none" | "matrix" =>
    let N : Nat → Nat → Rat ←
      if nkind = "none" then pure eye
      else do
        let m ← asList (asList asRat) nj
        pure (matOfList m)
    if what = "spec" then
      pure (encPairs encL ofRat
        (specPairs D (fun S a b => crossnobisSpec (xT rm P) P N D S a b)))
    else
      pure (encPairs encL ofRat (crossnobisAlgo rm P N D))
  | "list" =>
    let Ns ← asList (asList (asList asRat)) nj
    -- inverse by certificate: the Gauss–Jordan result is only a candidate, accepted with the
    -- exact check A · B = I (Core `certInv`); a failed certificate = singular matrix
    let cand := invL P
    if !foldPrecCertsOk cand P Ns then throw "singular precision or averaged covariance" else
    let inv := invOr cand P
    if what = "spec" then
      let folds := sortedDistinct (D.map (·.fold))
      let table : List ((F × F) × List (List Rat)) :=
        (folds.zip Ns).flatMap (fun mN => (folds.zip Ns).map (fun nN =>
          ((mN.1, nN.1), inv (matAvg (inv mN.2) (inv nN.2)))))
      let prec : F → F → Nat → Nat → Rat := fun m n =>
        match table.find? (fun e => e.1.1 = m ∧ e.1.2 = n) with
        | some e => matFn e.2
        | none => eye
      pure (encPairs encL ofRat
        (specPairs D (fun S a b => foldPrecSpec (xT rm P) P prec D S a b)))
    else
      match foldPrecCert cand rm P Ns D with
      | some r => pure (encPairs encL ofRat r)
      | none => throw "singular precision or averaged covariance"
  | other => throw s!"unknown noise kind {other}"

def poissonRun {L F : Type} [DecidableEq L] [LT L] [DecidableLT L]
    [DecidableEq F] [LT F] [DecidableLT F]
    (encL : L → Json) (j : Json) (P : Nat) (D : List (Obs L F Float)) : R Json := do
  let what ← asStr (fldD j "what" (Json.str "algo"))
  let lam0 ← fld j "prior_lambda" >>= asFloat
  let w ← fld j "prior_weight" >>= asFloat
  match what with
  | "spec" =>
    pure (encPairs encL ofFloat
      (specPairs D (fun S a b => poissonCvSpec Float.log lam0 w P D S a b)))
  | "lastfold" => pure (encPairs encL ofFloat (poissonCvLastFold Float.log lam0 w P D))
  | _ => pure (encPairs encL ofFloat (poissonCvAlgo Float.log lam0 w P D))

/-- decode the design (labels, default folds) and run `k` on the observations -/
def withDesign {α : Type} [Zero α] (j : Json) (decN : Json → R α)
    (k : {L F : Type} → [DecidableEq L] → [LT L] → [DecidableLT L] →
      [DecidableEq F] → [LT F] → [DecidableLT F] →
      (L → Json) → Nat → List (Obs L F α) → R Json) : R Json := do
  let ckind ← fld j "ckind" >>= asStr
  let P ← fld j "P" >>= asNat
  let xs ← fld j "x" >>= asList (asList decN)
  let x := xs.map vecOfList
  let cj ← fld j "cond" >>= asArr
  let fj := fldD j "fold" Json.null
  withLbl ckind fun L _ _ _ decL encL => do
    let cond ← cj.mapM decL
    if cond.length ≠ x.length then throw "cond / x length mismatch" else
    if fj.isNull then
      match defaultCv cond with
      | none => pure (obj [("reject", Json.str "unbalanced")])
      | some fold => k (L := L) (F := Nat) encL P (mkObs cond fold x)
    else do
      let fkind ← fld j "fkind" >>= asStr
      let fa ← asArr fj
      if fa.length ≠ x.length then throw "fold / x length mismatch" else
      withLbl fkind fun F _ _ _ decF _ => do
        let fold ← fa.mapM decF
        k (L := L) (F := F) encL P (mkObs cond fold x)

/-- the default fold descriptor alone -/
def defaultCvOp (j : Json) : R Json := do
  let ckind ← fld j "ckind" >>= asStr
  let cj ← fld j "cond" >>= asArr
  withLbl ckind fun _ _ _ _ decL _ => do
    let cond ← cj.mapM decL
    match defaultCv cond with
    | none => pure (obj [("reject", Json.str "unbalanced")])
    | some fold => pure (obj [("fold", ofList ofNat fold)])

/-- the argument checks the code performs before touching the data, in the code's order:
    `_check_noise` (type, then shape `P × P` of every matrix), then `descriptor is None` -/
def precheck (withNoise : Bool) (j : Json) : R (Option Json) := do
  let reject (why : String) : Option Json := some (obj [("reject", Json.str why)])
  let hasDesc ← asBool (fldD j "descriptor" (Json.bool true))
  if withNoise then
    let P ← fld j "P" >>= asNat
    let nkind ← asStr (fldD j "noise_kind" (Json.str "none"))
    let nj := fldD j "noise" Json.null
    if nkind = "scalar" then return reject "noise_type"
    if nkind = "matrix" then
      let m ← asList (asList asRat) nj
      if !noiseShapeOk P m then return reject "noise_shape"
    if nkind = "list" then
      let ms ← asList (asList (asList asRat)) nj
      if !ms.all (noiseShapeOk P) then return reject "noise_shape"
  if !hasDesc then return reject "no_descriptor"
  return none

def guarded (withNoise : Bool) (j : Json) (k : R Json) : R Json := do
  match ← precheck withNoise j with
  | some r => pure r
  | none => k

def handle : Handler := fun op j =>
  match op with
  | "c02.crossnobis" =>
    some (guarded true j (withDesign j asRat (fun encL P D => crossRun encL j P D)))
  | "c02.poisson_cv" =>
    some (guarded false j (withDesign j asFloat (fun encL P D => poissonRun encL j P D)))
  | "c02.default_cv" => some (defaultCvOp j)
  | _ => none

end Rsa.Drv.C02
