/- driver ops for property C17 (model side of the correspondence) -/
import Rsa.Core.Wire
import Rsa.Core.Transform

open Lean Rsa.Wire Rsa.Transform

namespace Rsa.Drv.C17

def asMethod (s : String) : R RankMethod :=
  match s with
  | "average" => pure .average
  | "min" => pure .min
  | "max" => pure .max
  | "dense" => pure .dense
  | "ordinal" => pure .ordinal
  | m => throw s!"unknown rank method {m}"

def asKind (s : String) : R Kind :=
  match s with
  | "rank" => pure .rank
  | "sqrt" => pure .sqrt
  | "positive" => pure .positive
  | "custom" => pure .custom
  | "minmax" => pure .minmax
  | "geotop" => pure .geotop
  | "geodesic" => pure .geodesic
  | k => throw s!"unknown transform {k}"

/-- `inf` travels as the string "inf", NaN as `null` -/
def ofDist : Option Rat → Json
  | some r => ofRat r
  | none => Json.str "inf"

def cumsum : List Rat → List Rat
  | l => (l.foldl (fun (acc : Rat × List Rat) a => (acc.1 + a, (acc.1 + a) :: acc.2)) (0, [])).2.reverse

/-- the menu of functions the engine passes to `transform(rdms, fun)` -/
def customFn (j : Json) : R (List (List Rat) → List (List Rat)) := do
  let name ← fld j "name" >>= asStr
  match name with
  | "affine" => do
    let a ← fld j "a" >>= asRat
    let b ← fld j "b" >>= asRat
    pure (fun vs => vs.map (fun v => v.map (fun x => a * x + b)))
  | "cube" => pure (fun vs => vs.map (fun v => v.map (fun x => x * x * x)))
  | "cumsum" => pure (fun vs => vs.map cumsum)
  | "revrows" => pure (fun vs => vs.reverse)
  | f => throw s!"unknown custom function {f}"

/-- the new vectors of one transform, as JSON rows (plus the thresholds for geotop) -/
def vectorsOf (k : Kind) (j : Json) : R (Json × List (String × Json)) := do
  let xj ← fld j "x"
  match k with
  | .rank => do
    let m ← fld j "method" >>= asStr >>= asMethod
    let xs ← asList (asList (asOpt asRat)) xj
    pure (ofList (ofList (ofOpt ofRat)) (xs.map (rankTCoded m)), [])
  | .sqrt => do
    let xs ← asList (asList (asOpt asFloat)) xj
    pure (ofList (ofList (ofOpt ofFloat)) (xs.map sqrtT), [])
  | .positive => do
    let xs ← asList (asList (asOpt asRat)) xj
    pure (ofList (ofList (ofOpt ofRat)) (xs.map positiveT), [])
  | .custom => do
    let xs ← asList (asList asRat) xj
    let f ← fld j "fn" >>= customFn
    pure (ofList (ofList ofRat) (customT f xs), [])
  | .minmax => do
    let xs ← asList (asList (asOpt asRat)) xj
    pure (ofList (ofList (ofOpt ofRat)) (xs.map minmaxNanT), [])
  | .geotop => do
    let xs ← asList (asList (asOpt asRat)) xj
    let low ← fld j "low" >>= asRat
    let up ← fld j "up" >>= asRat
    let rows := geotopNanStack low up xs
    -- the thresholds (for the harness' diagnostics) exist when no entry is missing
    let extra := if xs.all (fun v => v.all Option.isSome) then
        let (lo, hi, _) := geotopStack low up (xs.map present)
        [("lo", ofRat lo), ("hi", ofRat hi)]
      else []
    pure (ofList (ofList (ofOpt ofRat)) rows, extra)
  | .geodesic => do
    let xs ← asList (asList (asOpt asRat)) xj
    let n ← fld j "n" >>= asNat
    match geodesicStack n xs with
    | some rows => pure (ofList (ofList ofDist) rows, [])
    | none => pure (Json.null, [("raise", Json.str "ValueError")])

/-- a whole transform on an RDMs record: vectors, measure name, descriptors -/
def applyOp (j : Json) : R Json := do
  let k ← fld j "kind" >>= asStr >>= asKind
  let measure ← asOpt asStr (fldD j "measure" Json.null)
  let src : RDMs Json Json Json Json :=
    { vecs := j, measure := measure, descr := fldD j "descr" Json.null,
      rdmDescr := fldD j "rdm_descr" Json.null, patDescr := fldD j "pat_descr" Json.null }
  -- the vector part may fail (bad input): run it first, then package through `applyT`
  let (vecs, extra) ← vectorsOf k j
  if !passesDescriptors k then
    throw "the RDMs(...) call of this transform no longer passes the array / the descriptors"
  let out := applyT k (fun _ => vecs) src
  pure (obj ([("vecs", out.vecs), ("measure", ofOpt Json.str out.measure),
              ("descr", out.descr), ("rdm_descr", out.rdmDescr), ("pat_descr", out.patDescr)]
             ++ extra))

/-- shortest-path lengths to every target in an explicit graph (`null` = no edge) -/
def pathsOp (j : Json) : R Json := do
  let n ← fld j "n" >>= asNat
  let w ← fld j "w" >>= asList (asList (asOpt asRat))
  let wf : Nat → Nat → Option Rat := fun a b => (w.getD a []).getD b none
  pure (ofList (fun t => ofList ofDist (distTo n wf t)) (List.range n))

/-- `np.quantile` of a list (linear interpolation) -/
def quantileOp (j : Json) : R Json := do
  let x ← fld j "x" >>= asList asRat
  let q ← fld j "q" >>= asRat
  pure (ofRat (quantileLin (sortAsc x) q))

/-- a transform step of a reuse session on a stored object record (`x` exact, `xf` the same values
    as doubles for `sqrt`): the `c17.apply` answer, stored with its vectors as the new `x` -/
def tfStep (params : Json) (o : Json) : Json :=
  let kind := ((fld params "kind" >>= asStr).toOption).getD ""
  let x := if kind == "sqrt" then fldD o "xf" Json.null else fldD o "x" Json.null
  let req := (params.mergeObj o).setObjVal! "x" x
  match applyOp req with
  | .ok r => r.setObjVal! "x" (fldD r "vecs" Json.null)
  | .error e => obj [("model_error", Json.str e)]

/-- a whole reuse session through `sessRun`: transforms append to the store, comparisons read; a
    comparison answers with the vectors it was handed (the engine asks `c03.compare` about exactly
    those); `store` = the source objects' vectors after the last step -/
def sessionOp (j : Json) : R Json := do
  let objs ← fld j "objs" >>= asArr
  let stepsJ ← fld j "steps" >>= asArr
  let steps ← stepsJ.mapM (fun s => do
    let op ← fld s "op" >>= asStr
    if op == "tf" then do
      let src ← fld s "src" >>= asNat
      pure (Step.tf src (tfStep s) : Step Json Json)
    else do
      let a ← fld s "a" >>= asNat
      let b ← fld s "b" >>= asNat
      pure (Step.cmp a b (fun x y =>
        obj [("a", fldD x "x" Json.null), ("b", fldD y "x" Json.null)])))
  let r := sessRun objs steps
  let outJ := r.2.map (fun o => match o with
    | .obj v => v
    | .val v => v
    | .bad => Json.str "bad")
  pure (obj [("outs", Json.arr outJ.toArray),
             ("store", Json.arr ((r.1.take objs.length).map (fun o => fldD o "x" Json.null)).toArray)])

def handle : Handler := fun op j =>
  match op with
  | "c17.apply" => some (applyOp j)
  | "c17.session" => some (sessionOp j)
  | "c17.paths" => some (pathsOp j)
  | "c17.quantile" => some (quantileOp j)
  | _ => none

end Rsa.Drv.C17
