/- driver ops for property C04 (model side of the correspondence): one request = one call of an
   evaluation routine, with the recorded random draws, the recorded fitter calls (arguments and
   resulting prediction) and the recorded noise-ceiling calls (arguments and value).  The fitter
   and the noise-ceiling function handed to the model are *lookups by argument content* (bit
   patterns of the dissimilarities, group codes, pattern indices): a call the real routine made on
   other data than the model expects is simply not found and surfaces as NaN. -/
import Rsa.Core.Wire
import Rsa.Core.Compare
import Rsa.Core.Eval
import Rsa.Core.C04Result

open Lean Rsa.Wire Rsa.Eval

namespace Rsa.Drv.C04

/-! ### keys -/

structure CKey where
  vecs : List (List (Option UInt64))
  rdesc : List Nat
  pdesc : List Nat
deriving DecidableEq

inductive NKey where
  | boot (o : CKey)
  | cv (w : CKey) (ceil test : List (CKey × List Nat))
deriving DecidableEq

def keyOf (c : Content Float) : CKey :=
  { vecs := c.vecs.map (fun v => v.map (fun e => e.map Float.toBits))
    rdesc := c.rdesc, pdesc := c.pdesc }

def pkeyOf (p : Piece Float) : CKey × List Nat := (keyOf p.obj, p.pidx)

def nkeyOf : NcReq Float → NKey
  | .boot o => .boot (keyOf o)
  | .cv w c t => .cv (keyOf w) (c.map pkeyOf) (t.map pkeyOf)

/-! ### decoding -/

def nan : Float := 0.0 / 0.0

def asContent (j : Json) : R (Content Float) := do
  let vecs ← fld j "vecs" >>= asList (asList (asOpt asFloat))
  let rdesc ← fld j "rdesc" >>= asList asNat
  let pdesc ← fld j "pdesc" >>= asList asNat
  pure { vecs := vecs, rdesc := rdesc, pdesc := pdesc }

def asPiece (j : Json) : R (Piece Float) := do
  let o ← fld j "obj" >>= asContent
  let p ← fld j "pidx" >>= asList asNat
  pure { obj := o, pidx := p }

def asPair (j : Json) : R (Float × Float) := do
  match ← asList (asOpt asFloat) j with
  | [a, b] => pure (a.getD nan, b.getD nan)
  | _ => throw "noise ceiling value must have two entries"

def asFitEntry (j : Json) : R ((Nat × CKey × List Nat) × List Float) := do
  let k ← fld j "j" >>= asNat
  let p ← asPiece j
  let pred ← fld j "pred" >>= asList asFloat
  pure ((k, keyOf p.obj, p.pidx), pred)

def asNcEntry (j : Json) : R (NKey × (Float × Float)) := do
  let kind ← fld j "kind" >>= asStr
  let val ← fld j "val" >>= asPair
  if kind = "boot" then
    let o ← fld j "obj" >>= asContent
    pure (.boot (keyOf o), val)
  else
    let w ← fld j "whole" >>= asContent
    let c ← fld j "ceil" >>= asList asPiece
    let t ← fld j "test" >>= asList asPiece
    pure (.cv (keyOf w) (c.map pkeyOf) (t.map pkeyOf), val)

def asData (j : Json) : R (Data Float) := do
  let n ← fld j "n" >>= asNat
  let vecs ← fld j "vecs" >>= asList (asList asFloat)
  let rdesc ← fld j "rdesc" >>= asList asNat
  let pdesc ← fld j "pdesc" >>= asList asNat
  pure { nCond := n, vecs := vecs, rdesc := rdesc, pdesc := pdesc }

def asBt (j : Json) : R BootType := do
  match ← asStr j with
  | "both" => pure .both
  | "rdm" => pure .rdm
  | "pattern" => pure .pattern
  | s => throw s!"unknown boot type {s}"

def asDraw (j : Json) : R Draw := do
  let r ← asList asNat (fldD j "r" (Json.arr #[]))
  let p ← asList asNat (fldD j "p" (Json.arr #[]))
  pure { r := r, p := p }

def asCvDraw (j : Json) : R CvDraw := do
  let r ← fld j "rsel" >>= asList asNat
  let p ← fld j "psels" >>= asList (asList asNat)
  pure { rsel := r, psels := p }

def asShufflePair (j : Json) : R (List Nat × List Nat) := do
  let r ← fld j "rsel" >>= asList asNat
  let p ← fld j "psel" >>= asList asNat
  pure (r, p)

/-- a measure that refuses vectors of different length (an unmatched fitter call yields an empty
    prediction) -/
def measureF (method : String) : R (List Float → List Float → Float) := do
  let f : List Float → List Float → Float ←
    match method with
    | "cosine" => pure Rsa.Compare.cosine
    | "corr" => pure Rsa.Compare.corr
    | "spearman" => pure Rsa.Compare.spearman
    | "rho-a" => pure Rsa.Compare.rhoA
    | "tau-a" => pure Rsa.Compare.tauA
    | m => throw s!"unknown method {m}"
  pure (fun x y => if x.length = y.length ∧ x.length ≠ 0 then f x y else nan)

/-! ### encoding -/

def ofOF : Option Float → Json := ofOpt ofFloat
def ofPair (p : Float × Float) : Json := ofList ofFloat [p.1, p.2]
def ofMat (m : List (List (Option Float))) : Json := ofList (ofList ofOF) m

def ofCvRow (r : CvRow Float) : Json :=
  match r with
  | none => Json.null
  | some reps => ofList (fun rep => obj [("evals", ofList (ofList ofOF) rep.1), ("nc", ofPair rep.2)]) reps

/-! ### the assembled `Result` -/

def ofMeta (m : ResultMeta) : Json :=
  obj [("cv_method", Json.str m.cvMethod), ("eval_shape", ofList ofNat m.evalShape),
       ("nc_shape", ofList ofNat m.ncShape), ("has_variances", Json.bool m.hasVariances),
       ("passed_n_rdm", ofOpt ofNat m.passedNRdm), ("passed_n_pattern", ofOpt ofNat m.passedNPattern),
       ("attr_n_rdm", ofOpt ofNat m.attrNRdm), ("attr_n_pattern", ofOpt ofNat m.attrNPattern)]

/-- is the covariance over these observation rows defined (at least two usable resamples)? -/
def covDefined (obs : List (List (Option Float))) : Bool :=
  match covOutcome 1 obs with
  | .defined _ => true
  | .undefined => false

/-! ### fold generators for the plain `crossval` op -/

/-- the generators that can reject their arguments, as `SetsReq` -/
def asSetsReq (j : Json) : R (Option SetsReq) := do
  let gen ← fld j "gen" >>= asStr
  match gen with
  | "k_fold" =>
    let r ← fld j "rsel" >>= asList asNat
    let p ← fld j "psels" >>= asList (asList asNat)
    let kr ← fld j "kr" >>= asNat
    let kp ← fld j "kp" >>= asNat
    pure (some (.kFold r kr p kp))
  | "k_fold_pattern" =>
    let sel ← fld j "psel" >>= asList asNat
    let kp ← fld j "kp" >>= asNat
    pure (some (.kFoldPattern sel kp))
  | "k_fold_rdm" =>
    let sel ← fld j "rsel" >>= asList asNat
    let kr ← fld j "kr" >>= asNat
    pure (some (.kFoldRdm sel kr))
  | _ => pure none

def asPart (j : Json) : R Rsa.Folds.Part := do
  let r ← fld j "rows" >>= asList asNat
  let c ← fld j "conds" >>= asList asNat
  let p ← fld j "pidx" >>= asList asNat
  pure { rows := r, conds := c, pidx := p }

def asFolds (d : Data Float) (j : Json) : R (List Rsa.Folds.Fold × Bool) := do
  let gen ← fld j "gen" >>= asStr
  let o := objOf d (fullView d)
  match gen with
  | "k_fold" =>
    let cd ← asCvDraw j
    let kr ← fld j "kr" >>= asNat
    let kp ← fld j "kp" >>= asNat
    pure ((Rsa.Folds.kFoldV cd.rsel kr cd.psels kp).map (Rsa.Folds.realize o), true)
  | "k_fold_pattern" =>
    let sel ← fld j "psel" >>= asList asNat
    let kp ← fld j "kp" >>= asNat
    pure ((Rsa.Folds.kFoldPatternV sel kp).map (Rsa.Folds.realize o), false)
  | "k_fold_rdm" =>
    let sel ← fld j "rsel" >>= asList asNat
    let kr ← fld j "kr" >>= asNat
    pure ((Rsa.Folds.kFoldRdmV sel kr).map (Rsa.Folds.realize o), true)
  | "loo_rdm" =>
    let sel ← fld j "rsel" >>= asList asNat
    pure ((Rsa.Folds.looRdmV sel).map (Rsa.Folds.realize o), true)
  | "loo_pattern" =>
    let sel ← fld j "psel" >>= asList asNat
    pure ((Rsa.Folds.looPatternV sel).map (Rsa.Folds.realize o), true)
  | "hand" =>
    -- round 5: hand-built splits: every set given by its RDM positions, condition positions and
    -- advertised pattern indices (group codes)
    let fs ← fld j "folds" >>= asList (fun fj => do
      let tr ← fld fj "train" >>= asPart
      let te ← fld fj "test" >>= asPart
      let ce ← asOpt asPart (fldD fj "ceil" Json.null)
      pure ({ train := tr, test := te, ceil := ce } : Rsa.Folds.Fold))
    pure (fs, fs.all (fun f => f.ceil.isSome))
  | g => throw s!"unknown generator {g}"

/-! ### the op -/

def runOp (j : Json) : R Json := do
  let routine ← fld j "routine" >>= asStr
  let d ← fld j "data" >>= asData
  let m ← fld j "method" >>= asStr >>= measureF
  let fits ← asList asFitEntry (fldD j "fits" (Json.arr #[]))
  let ncs ← asList asNcEntry (fldD j "ncs" (Json.arr #[]))
  let fit : Nat → Piece Float → Option (List Float) :=
    fun k p => fits.lookup (k, keyOf p.obj, p.pidx)
  let predict : Nat → Option (List Float) → List Float := fun _ θ => θ.getD []
  let ncf : NcReq Float → Float × Float := fun r => (ncs.lookup (nkeyOf r)).getD (nan, nan)
  let preds ← asList (asList asFloat) (fldD j "preds" (Json.arr #[]))
  let nModels ← asNat (fldD j "n_models" (ofNat preds.length))
  let bt ← asBt (fldD j "bt" (Json.str "both"))
  let bigN ← asNat (fldD j "N" (ofNat 0))
  let eNum ← asFloat (fldD j "e" (ofFloat (Float.exp 1.0)))
  let gr := (groupsR d).length
  let gp := (groupsP d).length
  let sz : Sizes := { N := bigN, nModels := nModels, nRdm := d.vecs.length, nCond := d.nCond }
  match routine with
  | "fixed" =>
    let r := evalFixed m ncf d preds
    pure (obj [("evals", ofList (ofList ofFloat) r.evals), ("nc", ofPair r.nc),
               ("cov", ofOpt ofMat r.cov), ("dof", ofInt r.dof),
               ("meta", ofMeta (resultMeta .fixed sz))])
  | "bootstrap" =>
    let bootNc ← fld j "boot_nc" >>= asBool
    let mo ← asBool (fldD j "rdm_cov_models_only" (Json.bool true))
    let draws0 ← fld j "draws" >>= asList asDraw
    let draws := draws0.take (sampleCount (.bootstrap bt) bigN)
    let r := evalBootstrap m ncf bt bootNc mo d preds draws
    let full := evalBootstrap m ncf bt bootNc false d preds draws
    let okObs := (r.rows.filter (fun row => headOk row.evals)).map (fun row => row.obs false)
    pure (obj [("evals", ofList (fun (row : Row Float) => ofList ofOF row.evals) r.rows),
               ("nc", ofList (fun (row : Row Float) => ofOpt ofPair row.nc) r.rows),
               ("nc_data", ofOpt ofPair r.ncData),
               ("cov", ofMat r.cov), ("cov_with_nc", ofMat full.cov), ("dof", ofInt r.dof),
               ("cov_defined", Json.bool (covDefined okObs)),
               ("meta", ofMeta (resultMeta (.bootstrap bt) { sz with bootNc := bootNc }))])
  | "crossval" =>
    let fj ← fld j "folds"
    let calcNc ← asBool (fldD j "calc_nc" (Json.bool true))
    let answer := fun (r : CvResult Float) (hasCeil : Bool) =>
      obj [("evals", ofList (ofList ofOF) r.evals), ("nc", ofList ofPair r.nc),
           ("meta", ofMeta (resultMeta .crossval
             { sz with N := 1, nFolds := r.evals.length, nOkFolds := r.nc.length,
                       hasCeil := hasCeil, calcNc := calcNc }))]
    -- round 5: is the generator's / the hand-built `ceil_set` handed over, or left out (`None`)?
    let fwd ← asBool (fldD j "ceil_given" (Json.bool true))
    match ← asSetsReq fj with
    | some req =>
      -- generators that may reject the request: the explicit outcome
      match crossvalOnCeil m fit predict ncf d nModels req fwd calcNc with
      | .error e => pure (obj [("exc", Json.str e.name)])
      | .ok r =>
        let hasCeil := match req with
          | .kFoldPattern _ _ => false
          | _ => fwd
        pure (answer r hasCeil)
    | none =>
      let (folds, hasCeil0) ← asFolds d fj
      let hasCeil := hasCeil0 && fwd
      pure (answer (crossval m fit predict ncf d nModels folds hasCeil calcNc) hasCeil)
  | "bcv" =>
    let kr0 ← asOpt asNat (fldD j "kr" Json.null)
    let kp0 ← asOpt asNat (fldD j "kp" Json.null)
    let (kr, kp) := bcvDefaultK eNum gr gp kr0 kp0
    let nCv ← fld j "n_cv" >>= asNat
    let uc ← fld j "use_correction" >>= asBool
    let draws0 ← fld j "draws" >>= asList (fun e => do
      let dr ← asDraw e
      let reps ← asList asCvDraw (fldD e "reps" (Json.arr #[]))
      pure (dr, reps.take (Rsa.Gen.C04.repsCv nCv)))
    let draws := draws0.take (sampleCount (.bcv bt) bigN)
    let r := bootstrapCrossval m fit predict ncf bt d nModels kr kp nCv uc draws
    pure (obj [("rows", ofList ofCvRow r.rows), ("cov", ofMat r.cov), ("dof", ofInt r.dof),
               ("kr", ofNat kr), ("kp", ofNat kp),
               ("cov_defined", Json.bool (covDefined ((okReps r.rows).map (fun _ => [])))),
               ("meta", ofMeta (resultMeta (.bcv bt) { sz with kr := kr, kp := kp, nCv := nCv }))])
  | "dual" =>
    let kr0 ← asOpt asNat (fldD j "kr" Json.null)
    let kp0 ← asOpt asNat (fldD j "kp" Json.null)
    let (kr, kp) := dualDefaultK eNum gr gp kr0 kp0
    let nCv0 ← fld j "n_cv" >>= asNat
    let uc0 ← fld j "use_correction" >>= asBool
    let (nCv, uc) := dualOptions kr kp nCv0 uc0
    let draws0 ← fld j "draws" >>= asList (fun e => do
      let dr ← asDraw e
      let reps ← asList (asList asCvDraw) (fldD e "reps" (Json.arr #[]))
      pure (dr, reps.take (Rsa.Gen.C04.repsDual nCv)))
    let draws := draws0.take (sampleCount .dual bigN)
    let r := evalDualBootstrap m fit predict ncf d nModels kr kp nCv uc draws
    let nOk := (r.rows.filter (fun row => cvRowOk (row.getD 0 none))).length
    pure (obj [("rows", ofList (ofList ofCvRow) r.rows), ("cov", ofList ofMat r.cov),
               ("dof", ofInt r.dof), ("n_cv", ofNat nCv), ("kr", ofNat kr), ("kp", ofNat kp),
               ("cov_defined", Json.bool (covDefined ((List.range nOk).map (fun _ => [])))),
               ("meta", ofMeta (resultMeta .dual { sz with kr := kr, kp := kp, nCv := nCv }))])
  | "random" =>
    let nr0 ← asOpt asNat (fldD j "nr" Json.null)
    let np0 ← asOpt asNat (fldD j "np" Json.null)
    let (nr, np) := randomDefaultN eNum gr gp nr0 np0
    let nCv ← fld j "n_cv" >>= asNat
    let uc ← fld j "use_correction" >>= asBool
    let draws0 ← fld j "draws" >>= asList (fun e => do
      let dr ← asDraw e
      let sh ← asList asShufflePair (fldD e "shuffles" (Json.arr #[]))
      pure (dr, sh))
    let draws := draws0.take (sampleCount (.random bt) bigN)
    let r := evalDualBootstrapRandom m fit predict ncf bt d nModels nr np nCv uc draws
    pure (obj [("rows", ofList ofCvRow r.rows), ("cov", ofMat r.cov), ("dof", ofInt r.dof),
               ("nr", ofNat nr), ("np", ofNat np),
               ("cov_defined", Json.bool (covDefined ((okReps r.rows).map (fun _ => [])))),
               ("meta", ofMeta (resultMeta (.random bt) { sz with nCv := nCv }))])
  | "testset" =>
    let draws ← fld j "draws" >>= asList asDraw
    let rows := draws.map (testsetRow m fit predict bt d nModels)
    pure (obj [("evals", ofList (fun (r : List (Option Float) × Nat × Nat) => ofList ofOF r.1) rows),
               ("n_rdm", ofList (fun (r : List (Option Float) × Nat × Nat) => ofNat r.2.1) rows),
               ("n_pattern", ofList (fun (r : List (Option Float) × Nat × Nat) => ofNat r.2.2) rows)])
  | r => throw s!"unknown routine {r}"

/-- the selections of one bootstrap draw (for diagnostics and the oracle's cross-check) -/
def sampleOp (j : Json) : R Json := do
  let d ← fld j "data" >>= asData
  let bt ← asBt (fldD j "bt" (Json.str "both"))
  let dr ← fld j "draw" >>= asDraw
  let s := sampleOf bt d dr
  pure (obj [("rows", ofList ofNat s.1.rows), ("conds", ofList ofNat s.1.conds),
             ("rdm_idx", ofList ofNat s.2.1), ("pattern_idx", ofList ofNat s.2.2)])

/-! ### round 4: a reuse session — the content of the objects is threaded through the calls -/

def asState (j : Json) : R (SessState Float) := do
  let v ← fld j "vecs" >>= asList (asList asFloat)
  let m ← fld j "models" >>= asList (asList (asList asFloat))
  pure { vecs := v, models := m }

def ofState (s : SessState Float) : Json :=
  obj [("vecs", ofList (ofList ofFloat) s.vecs), ("models", ofList (ofList (ofList ofFloat)) s.models)]

/-- the request of a call with the data the session holds at that moment -/
def withState (req : Json) (s : SessState Float) : Json :=
  match fld req "data" with
  | .ok d => req.setObjVal! "data" (d.setObjVal! "vecs" (ofList (ofList ofFloat) s.vecs))
  | .error _ => req

/-- `c04.session`: `{"state": s0, "steps": [{"kind": "call", "req": <c04.run request> | null} |
    {"kind": "edit", "state": s}]}` → per call the answer of `c04.run` on the threaded content and the
    content after the call (`Rsa.Eval.runSession`, effect of a call = `callEffect`, i.e. governed by the
    regenerated write count) -/
def sessionOp (j : Json) : R Json := do
  let s0 ← fld j "state" >>= asState
  let stepsJ ← fld j "steps" >>= asArr
  let steps ← stepsJ.mapM (fun sj => do
    let kind ← fld sj "kind" >>= asStr
    if kind = "edit" then
      let st ← fld sj "state" >>= asState
      pure (SessStep.edit (κ := Json) (fun _ => st))
    else
      pure (SessStep.call (fldD sj "req" Json.null)))
  let result : Json → SessState Float → Json := fun req s =>
    if req.isNull then Json.null else
      match runOp (withState req s) with
      | .ok a => a
      | .error e => obj [("model_error", Json.str e)]
  let outs := runSession (fun _ s => callEffect centreDamage s) result steps s0
  pure (obj [("calls", ofList (fun (o : Json × SessState Float) =>
    obj [("answer", o.1), ("state", ofState o.2)]) outs)])

def handle : Handler := fun op j =>
  match op with
  | "c04.session" => some (sessionOp j)
  | "c04.run" => some (runOp j)
  | "c04.sample" => some (sampleOp j)
  | _ => none

end Rsa.Drv.C04
