/- driver ops for property C15 (model side of the correspondence) -/
import Rsa.Core.Wire

open Lean Rsa.Wire

namespace Rsa.Drv.C15

def handle : Handler := fun _op _j => none

end Rsa.Drv.C15
