/- driver ops for property C15 (model side of the correspondence) -/
import Rsa.Core.Wire
import Rsa.Core.Unbalanced
import Rsa.Core.C15Layout

open Lean Rsa.Wire Rsa.Unb

namespace Rsa.Drv.C15

/-- exact mode only runs the sqrt/log-free methods (guarded in `run`); these instances
    exist so that one generic handler serves both number types -/
local instance : Rsa.HasSqrt Rat := ⟨fun _ => 0⟩
local instance : Rsa.HasLog Rat := ⟨fun _ => 0⟩

section generic
variable {α : Type} [Add α] [Sub α] [Mul α] [Div α] [Neg α] [Zero α] [One α] [NatCast α]
  [LT α] [DecidableLT α] [LE α] [DecidableLE α] [Max α] [Min α] [Rsa.HasSqrt α] [Rsa.HasLog α]
  [Inhabited α]

def rows (rd : Json → R α) (j : Json) : R (Array (Array (Option α))) := do
  let l ← asList (asList (asOpt rd)) j
  pure (l.map List.toArray).toArray

def at2 (d : Array (Array (Option α))) (i c : Nat) : Option α :=
  match d[i]? with
  | some r => (r[c]?).join
  | none => none

def matAt (m : Array (Array (Option α))) (k l : Nat) : α :=
  match at2 m k l with
  | some v => v
  | none => 0

/-- kernel of two observation vectors for a `method_idx`, selected through the generated
    dispatch table of `calc` (`kernCode`) -/
def kernOf (idx : Nat) (coded : Bool) (P : Nat) (noise : Option (Nat → Nat → α))
    (lam pw : α) (x y : Nat → Option α) : R (α × α) :=
  let N : Nat → Nat → α := match noise with | some m => m | none => idN
  match kernByCode (kernCode idx noise.isSome) coded P N lam pw x y with
  | some r => pure r
  | none => throw s!"dissimilarity method not recognized! ({idx})"

def needsFloat (method : String) : Bool :=
  method == "correlation" || method == "poisson" || method == "poisson_cv"

def table (n m : Nat) (f : Nat → Nat → R (α × α)) : R (Array (α × α)) := do
  let mut t : Array (α × α) := Array.mkEmpty (n * m)
  for i in [0:n] do
    for j in [0:m] do
      t := t.push (← f i j)
  pure t

def run (exact : Bool) (rd : Json → R α) (wr : α → Json) (j : Json) : R Json := do
  let data ← fld j "data" >>= rows rd
  let labels ← fld j "labels" >>= asList asNat
  let foldsJ := fldD j "folds" Json.null
  let folds ← asOpt (asList asNat) foldsJ
  let method ← fld j "method" >>= asStr
  let coded ← asBool (fldD j "coded" (Json.bool false))
  let number ← asBool (fldD j "number" (Json.bool true))
  let P ← fld j "P" >>= asNat
  let lam ← rd (fldD j "lam" (Json.num 1))
  let pw ← rd (fldD j "pw" (Json.num 0))
  let noiseJ := fldD j "noise" Json.null
  let noiseA ← asOpt (rows rd) noiseJ
  let bal ← asStr (fldD j "bal" (Json.str "none"))
  let nF ← asNat (fldD j "F" (Json.num 0))
  if exact && needsFloat method then
    throw "exact mode has no sqrt/log"
  let cvGiven ← asBool (fldD j "cv_given" (Json.bool folds.isSome))
  let idx ← match methodIdx method with
    | some k => pure k
    | none => throw s!"Unknown method: {method}"
  let cvFlag ← match crossvalFlag method cvGiven with
    | some k => pure k
    | none => throw s!"Unknown method: {method}"
  let nObs := data.size
  if labels.length ≠ nObs then throw "labels length"
  let uniq := firstAppearance labels
  let cds := (codes labels).toArray
  let n := uniq.length
  let X : Nat → Nat → Option α := at2 data
  let noise : Option (Nat → Nat → α) := noiseA.map matAt
  let code := kernCode idx noise.isSome
  let tbl ← table nObs nObs (fun i k => kernOf idx coded P noise lam pw (X i) (X k))
  let fa : Array Nat := match folds with
    | some f => f.toArray
    | none => (List.range nObs).toArray
  let half : α := if coded then ofInt Rsa.Gen.C15.selfWEqual else 1 / two
  let cfg : Cfg α := {
    nObs := nObs, n := n, desc := fun i => cds[i]!, cv := fun i => fa[i]!,
    crossval := cvFlag != 0, number := weightIdx number == 1,
    kern := fun i k => tbl[i * nObs + k]!, half := half }
  let buf := calcLoop cfg
  let outA := ((List.range (Rsa.Gen.C15.nRdm n + n)).map (finalize buf)).toArray
  let out : Nat → Option α := fun k => (outA[k]?).join
  let rdm := assemble n out
  let prs := pairs n
  let spec := prs.map (fun ab => specDist cfg ab.1 ab.2)
  let specSelf := (List.range n).map (fun a => specSim cfg a a)
  let specCross := prs.map (fun ab => specSim cfg ab.1 ab.2)
  -- balanced estimators on complete data
  let V : Nat → Nat → α := fun i c => match X i c with | some v => v | none => 0
  let N : Nat → Nat → α := match noise with | some m => m | none => idN
  let balv : List α :=
    if bal == "mean" then
      let m := condMean nObs cfg.desc V
      prs.map (fun ab => balMahal P N m ab.1 ab.2)
    else if bal == "sq" then
      let m := condMean nObs cfg.desc V
      prs.map (fun ab => sqDist P m ab.1 ab.2)
    else if bal == "single" then
      -- one observation per condition: observation of code a
      let obsOf : Nat → Nat := fun a => (cds.toList.idxOf a)
      if code == 2 then
        prs.map (fun ab => balCorr P (V (obsOf ab.1)) (V (obsOf ab.2)))
      else if code == 4 then
        let D : Nat → Nat → α := fun i c => match poissonPrep lam pw (X i) c with
          | some dl => dl.1 | none => 0
        let L : Nat → Nat → α := fun i c => match poissonPrep lam pw (X i) c with
          | some dl => dl.2 | none => 0
        prs.map (fun ab => balPoisson P (D (obsOf ab.1)) (L (obsOf ab.1)) (D (obsOf ab.2)) (L (obsOf ab.2)))
      else
        let m := condMean nObs cfg.desc V
        prs.map (fun ab => balMahal P N m ab.1 ab.2)
    else if bal == "cv" then
      if code == 4 then
        let D : Nat → Nat → α := fun i c => match poissonPrep lam pw (X i) c with
          | some dl => dl.1 | none => 0
        let L : Nat → Nat → α := fun i c => match poissonPrep lam pw (X i) c with
          | some dl => dl.2 | none => 0
        let mu := foldMean nObs cfg.desc cfg.cv D
        let lg := foldMean nObs cfg.desc cfg.cv L
        prs.map (fun ab => cvPoissonSpec nF P mu lg ab.1 ab.2)
      else
        let mu := foldMean nObs cfg.desc cfg.cv V
        prs.map (fun ab => cvSpec nF P N mu ab.1 ab.2)
    else []
  pure (obj [
    ("uniq", ofList ofNat uniq), ("codes", ofList ofNat cds.toList),
    ("out", ofList (ofOpt wr) outA.toList),
    ("rdm", ofList (ofOpt wr) rdm),
    ("spec", ofList (ofOpt wr) spec),
    ("specself", ofList (ofOpt wr) specSelf),
    ("speccross", ofList (ofOpt wr) specCross),
    ("bal", ofList wr balv)])

def runOne (exact : Bool) (rd : Json → R α) (wr : α → Json) (j : Json) : R Json := do
  let di ← fld j "data_i" >>= rows rd
  let dj ← fld j "data_j" >>= rows rd
  let cvi ← fld j "cv_i" >>= asList asNat
  let cvj ← fld j "cv_j" >>= asList asNat
  let method ← fld j "method" >>= asStr
  let coded ← asBool (fldD j "coded" (Json.bool false))
  let number ← asBool (fldD j "number" (Json.bool true))
  let P ← fld j "P" >>= asNat
  let lam ← rd (fldD j "lam" (Json.num 1))
  let pw ← rd (fldD j "pw" (Json.num 0))
  let noiseA ← asOpt (rows rd) (fldD j "noise" Json.null)
  if exact && needsFloat method then
    throw "exact mode has no sqrt/log"
  let idx ← match oneMethodIdx method with
    | some k => pure k
    | none => throw s!"Unknown method: {method}"
  let noise : Option (Nat → Nat → α) := noiseA.map matAt
  let ni := di.size
  let nj := dj.size
  let tbl ← table ni nj (fun i k => kernOf idx coded P noise lam pw (at2 di i) (at2 dj k))
  let ca := cvi.toArray
  let cb := cvj.toArray
  let r := calcOne ni nj (fun i => ca[i]!) (fun i => cb[i]!) (oneWeightIdx number == 1)
    (fun i k => tbl[i * nj + k]!)
  pure (Json.arr #[ofOpt wr r.1, wr r.2])

end generic

instance : Inhabited Rat := ⟨0⟩

def dispatchMode (f : {α : Type} → [Add α] → [Sub α] → [Mul α] → [Div α] → [Neg α] → [Zero α] →
    [One α] → [NatCast α] → [LT α] → [DecidableLT α] → [LE α] → [DecidableLE α] → [Max α] →
    [Min α] → [Rsa.HasSqrt α] → [Rsa.HasLog α] → [Inhabited α] →
    Bool → (Json → R α) → (α → Json) → Json → R Json) (j : Json) : R Json := do
  let mode ← asStr (fldD j "mode" (Json.str "rat"))
  if mode == "float" then f (α := Float) false asFloat ofFloat j
  else f (α := Rat) true asRat ofRat j

/-- first-appearance coding alone -/
def runCodes (j : Json) : R Json := do
  let labels ← fld j "labels" >>= asList asNat
  pure (obj [("uniq", ofList ofNat (firstAppearance labels)), ("codes", ofList ofNat (codes labels))])

/-- the generated index leaves on one pair of codes -/
def runIdx (j : Json) : R Json := do
  let n ← fld j "n" >>= asNat
  let a ← fld j "a" >>= asNat
  let b ← fld j "b" >>= asNat
  pure (obj [("key", ofNat (pairKey n a b)), ("nrdm", ofNat (Rsa.Gen.C15.nRdm n))])

/-- memory layout / dtype: what the kernel reads from `ensure_double(array)` for an array given
    as flat buffer + offset + strides (elements); floats (null = NaN) or integers -/
def runLayout (j : Json) : R Json := do
  let ints ← asBool (fldD j "ints" (Json.bool false))
  let off ← fld j "off" >>= asInt
  let s0 ← fld j "s0" >>= asInt
  let s1 ← fld j "s1" >>= asInt
  let n ← fld j "n" >>= asNat
  let P ← fld j "P" >>= asNat
  let conv : View (Option Float) ←
    if ints then do
      let b ← fld j "buf" >>= asList asInt
      let a := b.toArray
      let v : View Int := { buf := fun k => a[k]!, off := off, s0 := s0, s1 := s1 }
      pure (ensureDouble (castInt (α := Float)) n P v)
    else do
      let b ← fld j "buf" >>= asList (asOpt asFloat)
      let a := b.toArray
      let v : View (Option Float) := { buf := fun k => (a[k]?).join, off := off, s0 := s0, s1 := s1 }
      pure (ensureDouble id n P v)
  let X := kernelInput n P conv
  pure (obj [
    ("s0", ofInt conv.s0), ("s1", ofInt conv.s1),
    ("read", ofList (fun i => ofList (fun c => ofOpt ofFloat (X i c)) (List.range P)) (List.range n))])

def handle : Handler := fun op j =>
  match op with
  | "c15.calc" => some (dispatchMode (fun ex rd wr j => run ex rd wr j) j)
  | "c15.one" => some (dispatchMode (fun ex rd wr j => runOne ex rd wr j) j)
  | "c15.codes" => some (runCodes j)
  | "c15.idx" => some (runIdx j)
  | "c15.layout" => some (runLayout j)
  | _ => none

end Rsa.Drv.C15
