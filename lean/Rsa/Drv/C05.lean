/- driver ops for property C05 (model side of the correspondence) -/
import Rsa.Core.Wire

open Lean Rsa.Wire

namespace Rsa.Drv.C05

def handle : Handler := fun _op _j => none

end Rsa.Drv.C05
