/- driver ops for property C05 (model side of the correspondence) -/
import Rsa.Core.Wire
import Rsa.Core.Folds

open Lean Rsa.Wire Rsa.Folds

namespace Rsa.Drv.C05

def fnOf (l : List Nat) : Nat → Nat := fun j => l.getD j 0

def ofNats (l : List Nat) : Json := ofList ofNat l

def isPermOf (a u : List Nat) : Bool := a.length == u.length && uniq a == u

def partJson (o : Obj) (dis : Option (List (List (Option Rat)))) (keepAll : Bool) (p : Part) : Json :=
  let base := [("rows", ofNats p.rows), ("conds", ofNats p.conds), ("pidx", ofNats p.pidx)]
  match dis with
  | none => obj base
  | some m =>
    let vecs := extractCoded o (fun r => m.getD r []) keepAll p
    obj (base ++ [("vecs", ofList (ofList (ofOpt ofRat)) vecs)])

def foldJson (o : Obj) (dis : Option (List (List (Option Rat)))) (keepAll : Bool) (f : Fold) : Json :=
  obj [("train", partJson o dis keepAll f.train), ("test", partJson o dis keepAll f.test),
       ("ceil", match f.ceil with | none => Json.null | some c => partJson o dis keepAll c)]

def optNat (j : Json) (k : String) : R (Option Nat) := asOpt asNat (fldD j k Json.null)

def optNats (j : Json) (k : String) : R (Option (List Nat)) :=
  asOpt (asList asNat) (fldD j k Json.null)

/-- expansion of the fold pattern ids to bootstrap multiplicities (`_internal_cv`) -/
def expand (boot : Option (List Nat)) (f : Fold) : Fold :=
  match boot with
  | none => f
  | some b =>
    { f with train := { f.train with pidx := concatSampling b f.train.pidx }
             test := { f.test with pidx := concatSampling b f.test.pidx } }

def sets (j : Json) : R Json := do
  let gen ← fld j "gen" >>= asStr
  let rdesc ← fld j "rdesc" >>= asList asNat
  let pdesc ← fld j "pdesc" >>= asList asNat
  let o : Obj := { nR := rdesc.length, nC := pdesc.length, rdesc := fnOf rdesc, pdesc := fnOf pdesc }
  let ur := uniq rdesc
  let up := uniq pdesc
  let dis ← asOpt (asList (asList (asOpt asRat))) (fldD j "dis" Json.null)
  let boot ← optNats j "boot_pidx"
  let rsel := (← optNats j "rsel").getD ur
  let psel := (← optNats j "psel").getD up
  let pselsO ← asOpt (asList (asList asNat)) (fldD j "psels" Json.null)
  let drawsJ ← asOpt (asList (asList (asList asNat))) (fldD j "draws" Json.null)
  let kr ← optNat j "k_rdm"
  let kp ← optNat j "k_pattern"
  let k ← optNat j "k"
  let nr ← optNat j "n_rdm"
  let np ← optNat j "n_pattern"
  let draws : List (List Nat × List Nat) := (drawsJ.getD []).filterMap fun d =>
    match d with
    | [a, b] => some (a, b)
    | _ => none
  let krEff := kOrDefault kr (Rsa.Gen.C05.defaultKRdm ur.length)
  let psels := pselsO.getD (List.replicate krEff up)
  -- every supplied shuffle outcome must be a rearrangement of the unique values
  let selsOk := isPermOf rsel ur && isPermOf psel up && psels.all (isPermOf · up)
    && draws.all (fun d => isPermOf d.1 ur && isPermOf d.2 up)
  if !selsOk then throw "shuffle outcome is not a rearrangement of the unique descriptor values"
  let keepAll := gen == "k_fold_rdm" || gen == "of_k_rdm" || gen == "loo_rdm"
  let res : Except Err (List Fold) ←
    match gen with
    | "k_fold_pattern" => pure (setsKFoldPattern o psel k)
    | "k_fold_rdm" => pure (setsKFoldRdm o rsel kr)
    | "k_fold" => pure (setsKFold o rsel kr psels up.length kp)
    | "of_k_pattern" => pure (setsOfKPattern o psel (k.getD 5))
    | "of_k_rdm" => pure (setsOfKRdm o rsel (k.getD 5))
    | "random" => pure (setsRandom o ur.length up.length draws nr np)
    | "loo_pattern" => pure (.ok (setsLooPattern o up))
    | "loo_rdm" => pure (.ok (setsLooRdm o ur))
    | g => throw s!"unknown generator {g}"
  match res with
  | .error e => pure (obj [("exc", Json.str e.name)])
  | .ok folds =>
    pure (obj [("folds", ofList (fun f => foldJson o dis keepAll (expand boot f)) folds),
               ("uniq_r", ofNats ur), ("uniq_p", ofNats up)])

def concat (j : Json) : R Json := do
  let s1 ← fld j "s1" >>= asList asNat
  let s2 ← fld j "s2" >>= asList asNat
  pure (ofNats (concatSampling s1 s2))

/-- fold counts `bootstrap_crossval` uses: the given ones, else the generated default-k text
    evaluated on the (real) expected number of distinct groups; 1 for a single RDM group -/
def defaultK (j : Json) : R Json := do
  let n ← fld j "n_rdm_groups" >>= asNat
  let xr ← fld j "x_rdm" >>= asFloat
  let xp ← fld j "x_pattern" >>= asFloat
  let kr ← optNat j "k_rdm"
  let kp ← optNat j "k_pattern"
  let kr' : Int := match kr with
    | some k => k
    | none => if n = 1 then 1 else Rsa.Gen.C05.defaultKRdmReal xr
  let kp' : Int := match kp with
    | some k => k
    | none => Rsa.Gen.C05.defaultKPatternReal xp
  pure (Json.arr #[ofInt kr', ofInt kp'])

def handle : Handler := fun op j =>
  match op with
  | "c05.sets" => some (sets j)
  | "c05.concat" => some (concat j)
  | "c05.default_k" => some (defaultK j)
  | _ => none

end Rsa.Drv.C05
