/- driver ops for property C05 (model side of the correspondence) -/
import Rsa.Core.Wire
import Rsa.Core.Folds
import Rsa.Core.FoldsGlue

open Lean Rsa.Wire Rsa.Folds

namespace Rsa.Drv.C05

def fnOf (l : List Nat) : Nat → Nat := fun j => l.getD j 0

def ofNats (l : List Nat) : Json := ofList ofNat l

def isPermOf (a u : List Nat) : Bool := a.length == u.length && uniq a == u

def partJson (o : Obj) (dis : Option (List (List (Option Rat)))) (keepAll : Bool) (p : Part) : Json :=
  let base := [("rows", ofNats p.rows), ("conds", ofNats p.conds), ("pidx", ofNats p.pidx)]
  match dis with
  | none => obj base
  | some m =>
    let vecs := extractCoded o (fun r => m.getD r []) keepAll p
    obj (base ++ [("vecs", ofList (ofList (ofOpt ofRat)) vecs)])

def foldJson (o : Obj) (dis : Option (List (List (Option Rat)))) (keepAll : Bool) (f : Fold) : Json :=
  obj [("train", partJson o dis keepAll f.train), ("test", partJson o dis keepAll f.test),
       ("ceil", match f.ceil with | none => Json.null | some c => partJson o dis keepAll c)]

def optNat (j : Json) (k : String) : R (Option Nat) := asOpt asNat (fldD j k Json.null)

def optNats (j : Json) (k : String) : R (Option (List Nat)) :=
  asOpt (asList asNat) (fldD j k Json.null)

/-- the three lists of a generator, entry by entry (list position = fold number); every entry
    carries what `crossval` decides about it (the skip test, from the source-derived leaf) -/
def setsFields (o : Obj) (dis : Option (List (List (Option Rat)))) (keepAll : Bool) (s : Sets) :
    List (String × Json) :=
  let n := max s.trains.length s.tests.length
  let folds := (List.range n).map fun i =>
    let skip : Json := match s.trains[i]?, s.tests[i]? with
      | some tr, some te => Json.bool (Rsa.Gen.C05.cvSkip tr.rows.length te.rows.length
          tr.conds.length te.conds.length == 1)
      | _, _ => Json.null
    obj [("train", match s.trains[i]? with | none => Json.null | some p => partJson o dis keepAll p),
         ("test", match s.tests[i]? with | none => Json.null | some p => partJson o dis keepAll p),
         ("ceil", match s.ceils.bind (·[i]?) with | none => Json.null | some p => partJson o dis keepAll p),
         ("skip", skip)]
  [("folds", ofList id folds), ("n_train", ofNat s.trains.length), ("n_test", ofNat s.tests.length),
       ("n_ceil", match s.ceils with | none => Json.null | some c => ofNat c.length),
       -- what `crossval` / `cv_noise_ceiling` make of these lists (length assertions, pairing)
       ("crossval_accepts", Json.bool (Rsa.Gen.C05.cvLenOk s.trains.length s.tests.length == 1
          && (s.ceils.map fun c => Rsa.Gen.C05.cvCeilLenOk c.length s.tests.length) != some 0)),
       ("nc_pairs", match s.ceils with
          | none => Json.null
          | some c => match cvNoisePairsC c s.tests with
            | .error _ => Json.str "AssertionError"
            | .ok ps => ofList (fun ct => Json.arr #[ofNats ct.1.rows, ofNats ct.1.conds, ofNats ct.2.rows,
                ofNats ct.2.conds]) ps)]

def sets (j : Json) : R Json := do
  let gen ← fld j "gen" >>= asStr
  let rdesc ← fld j "rdesc" >>= asList asNat
  let pdesc ← fld j "pdesc" >>= asList asNat
  let o : Obj := { nR := rdesc.length, nC := pdesc.length, rdesc := fnOf rdesc, pdesc := fnOf pdesc }
  let ur := uniq rdesc
  let up := uniq pdesc
  let dis ← asOpt (asList (asList (asOpt asRat))) (fldD j "dis" Json.null)
  let boot ← optNats j "boot_pidx"
  let rsel := (← optNats j "rsel").getD ur
  let psel := (← optNats j "psel").getD up
  let pselsO ← asOpt (asList (asList asNat)) (fldD j "psels" Json.null)
  let drawsJ ← asOpt (asList (asList (asList asNat))) (fldD j "draws" Json.null)
  let kr ← optNat j "k_rdm"
  let kp ← optNat j "k_pattern"
  let k ← optNat j "k"
  let nr ← optNat j "n_rdm"
  let np ← optNat j "n_pattern"
  let draws : List (List Nat × List Nat) := (drawsJ.getD []).filterMap fun d =>
    match d with
    | [a, b] => some (a, b)
    | _ => none
  let krEff := kOrDefault kr (Rsa.Gen.C05.defaultKRdm ur.length)
  let psels := pselsO.getD (List.replicate krEff up)
  -- every supplied shuffle outcome must be a rearrangement of the unique values
  let selsOk := isPermOf rsel ur && isPermOf psel up && psels.all (isPermOf · up)
    && draws.all (fun d => isPermOf d.1 ur && isPermOf d.2 up)
  if !selsOk then throw "shuffle outcome is not a rearrangement of the unique descriptor values"
  let keepAll := gen == "k_fold_rdm" || gen == "of_k_rdm" || gen == "loo_rdm"
  let ofFolds (fs : List Fold) : Sets := Sets.ofFolds fs (fs.all (·.ceil.isSome))
  let res : Except Err Sets ←
    match gen with
    | "k_fold_pattern" => pure (setsKFoldPatternC o psel k)
    | "k_fold_rdm" => pure (setsKFoldRdmC o rsel kr)
    | "k_fold" => pure (setsKFoldC o rsel kr psels up.length kp)
    | "of_k_pattern" => pure (setsOfKPatternC o psel (k.getD 5))
    | "of_k_rdm" => pure (setsOfKRdmC o rsel (k.getD 5))
    | "random" =>
      let nr' := randomDefaultNr ur.length nr
      let np' := randomDefaultNp up.length np
      pure ((draws.mapM fun d => randomOneC o d nr' np').map fun l =>
        ({ trains := l.map (·.1), tests := l.map (·.2.1), ceils := some (l.map (·.2.2)) } : Sets))
    | "loo_pattern" => pure (.ok (ofFolds (setsLooPattern o up)))
    | "loo_rdm" => pure (.ok (ofFolds (setsLooRdm o ur)))
    | g => throw s!"unknown generator {g}"
  match res with
  | .error e => pure (obj [("exc", Json.str e.name)])
  | .ok s0 =>
    let s := match boot with
      | none => s0
      | some b => expandSets b s0
    pure (obj (setsFields o dis keepAll s ++ [("uniq_r", ofNats ur), ("uniq_p", ofNats up)]))

def concat (j : Json) : R Json := do
  let s1 ← fld j "s1" >>= asList asNat
  let s2 ← fld j "s2" >>= asList asNat
  pure (ofNats (concatSampling s1 s2))

/-- fold counts `bootstrap_crossval` uses: the given ones, else the generated default-k text
    evaluated on the (real) expected number of distinct groups; 1 for a single RDM group -/
def defaultK (j : Json) : R Json := do
  let n ← fld j "n_rdm_groups" >>= asNat
  let xr ← fld j "x_rdm" >>= asFloat
  let xp ← fld j "x_pattern" >>= asFloat
  let kr ← optNat j "k_rdm"
  let kp ← optNat j "k_pattern"
  let kr' : Int := match kr with
    | some k => k
    | none => if n = 1 then 1 else Rsa.Gen.C05.defaultKRdmReal xr
  let kp' : Int := match kp with
    | some k => k
    | none => Rsa.Gen.C05.defaultKPatternReal xp
  -- optional: group counts of the bootstrap samples -> does the guard admit them (from the leaf)
  let samples ← asOpt (asList (asList asNat)) (fldD j "samples" Json.null)
  let runs := (samples.getD []).map fun s =>
    Json.bool (bootcvRuns (s.getD 0 0) kr'.toNat (s.getD 1 0) kp'.toNat)
  pure (Json.arr #[ofInt kr', ofInt kp', Json.arr runs.toArray,
    Json.bool (internalCvUsesCvNc kr'.toNat kp'.toNat)])

/-- does `bootstrap_crossval` cross-validate a sample with these group counts; which noise
    ceiling `_internal_cv` computes -/
def bootGuard (j : Json) : R Json := do
  let samples ← fld j "samples" >>= asList (asList asNat)
  let kr ← fld j "k_rdm" >>= asNat
  let kp ← fld j "k_pattern" >>= asNat
  pure (obj [("runs", ofList (fun s => Json.bool (bootcvRuns (s.getD 0 0) kr (s.getD 1 0) kp)) samples),
             ("cv_nc", Json.bool (internalCvUsesCvNc kr kp))])

/-! round 4: sessions.  The state is the content of the one RDMs object (`rG`, `rIdx`, `pG`, `pIdx`:
    descriptor codes; `dis`), steps are generator calls (their arguments and recorded shuffle outcomes;
    `rby` / `pby` name the descriptor in use), user edits (fields of the state replaced) or `noop`.
    The session is executed by `runSteps` with the as-coded call effect (`callEffect`, from the
    source-derived write count); an in-place write would wipe the content (`wr`), so that every later
    call fails. -/

def setFields (s : Json) (kvs : List (String × Json)) : Json :=
  kvs.foldl (fun acc kv => acc.setObjVal! kv.1 kv.2) s

def sessionCall (c s : Json) : R Json := do
  let rby ← fld c "rby" >>= asStr
  let pby ← fld c "pby" >>= asStr
  let rdesc ← fld s (if rby == "g" then "rG" else "rIdx")
  let pdesc ← fld s (if pby == "g" then "pG" else "pIdx")
  let dis := fldD s "dis" Json.null
  sets (setFields c [("rdesc", rdesc), ("pdesc", pdesc), ("dis", dis)])

def session (j : Json) : R Json := do
  let s0 ← fld j "state"
  let stepsJ ← fld j "steps" >>= asArr
  let steps : List (Step Json Json) ← stepsJ.mapM fun st =>
    match st.getObjVal? "call", st.getObjVal? "edit" with
    | .ok c, _ => pure (Step.call c)
    | _, .ok e => do
      let kvs ← match e with
        | Json.obj m => pure (m.toList)
        | _ => throw "edit is not an object"
      pure (Step.edit fun s => setFields s kvs)
    | _, _ => pure (Step.edit id)
  let out := runSteps (callEffect fun _ _ => Json.mkObj []) sessionCall steps s0
  -- per step: the call's answer (null for edits) and whether the call left the content unchanged
  let rec go (prev : Json) : List (Option (R Json) × Json) → R (List Json)
    | [] => pure []
    | (r, s) :: rest => do
      let a ← match r with
        | none => pure Json.null
        | some (.ok v) => pure v
        | some (.error e) => pure (obj [("model_error", Json.str e)])
      let tail ← go s rest
      pure (obj [("res", a), ("content_unchanged", Json.bool (r.isNone || s == prev))] :: tail)
  let l ← go s0 out
  pure (Json.arr l.toArray)

def handle : Handler := fun op j =>
  match op with
  | "c05.sets" => some (sets j)
  | "c05.concat" => some (concat j)
  | "c05.default_k" => some (defaultK j)
  | "c05.boot_guard" => some (bootGuard j)
  | "c05.session" => some (session j)
  | _ => none

end Rsa.Drv.C05
