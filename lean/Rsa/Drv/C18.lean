/- driver ops for property C18 (model side of the correspondence) -/
import Rsa.Core.Wire

open Lean Rsa.Wire

namespace Rsa.Drv.C18

def handle : Handler := fun _op _j => none

end Rsa.Drv.C18
