/- driver ops for property C18 (model side of the correspondence); Mathlib-free.
   All numeric ops run the generic model of `Rsa.Core.Sim` at `Float`; `c18.gram` also at `Rat`.
   Between stages matrices are materialised as nested lists (`toLists` / `ofLists`, the
   identity in range: `Rsa.Sim.ofLists_toLists`). -/
import Rsa.Core.Wire
import Rsa.Core.Sim

open Lean Rsa.Wire Rsa.Sim

namespace Rsa.Drv.C18

def asMatF (j : Json) : R (List (List Float)) := asList (asList asFloat) j
def ofMatF (m : List (List Float)) : Json := ofList (ofList ofFloat) m
def ofMatQ (m : List (List Rat)) : Json := ofList (ofList ofRat) m

def optMat (j : Json) (k : String) : R (Option (Mat Float)) := do
  match ← asOpt asMatF (fldD j k Json.null) with
  | none => pure none
  | some m => pure (some (ofLists m))

/-- `make_design` -/
def design (j : Json) : R Json := do
  let nc ← fld j "n_cond" >>= asNat
  let np ← fld j "n_part" >>= asNat
  pure (obj [("cond", ofList ofNat (condVec nc np)), ("part", ofList ofNat (partVec nc np))])

/-- `G = -0.5 H D H` from the RDM vector; `exact` = rational arithmetic -/
def gram (j : Json) : R Json := do
  let n ← fld j "n" >>= asNat
  let exact ← asBool (fldD j "exact" (Json.bool false))
  if exact then
    let v ← fld j "rdm" >>= asList asRat
    pure (ofMatQ (toLists n n (gramOfRdm n (squareform n v))))
  else
    let v ← fld j "rdm" >>= asList asFloat
    pure (ofMatF (toLists n n (gramOfRdm n (squareform n v))))

def maxAbs (m : List (List Float)) : Float :=
  m.foldl (fun acc r => r.foldl (fun a x => if x.isNaN then x else if x.abs > a then x.abs else a) acc) 0

def condInput (j : Json) : R (CondInput Float) := do
  match (fldD j "vec" Json.null).isNull with
  | false => do
      let cv ← fld j "vec" >>= asList asNat
      pure (.vec cv)
  | true => do
      let z ← fld j "design" >>= asMatF
      pure (.design z)

/-- `make_dataset` with the recorded results of `make_signal` and the recorded noise draws -/
def dataset (j : Json) : R Json := do
  let nCond ← fld j "n_cond" >>= asNat
  let nCh ← fld j "n_ch" >>= asNat
  let nSim ← fld j "n_sim" >>= asNat
  let signal ← fld j "signal" >>= asFloat
  let noise ← fld j "noise" >>= asFloat
  let same ← fld j "same" >>= asBool
  let exact ← fld j "exact" >>= asBool
  let cond ← fld j "cond" >>= condInput
  let sigs ← fld j "signals" >>= asList asMatF
  let zs ← fld j "noises" >>= asList asMatF
  let cholC ← optMat j "chol_c"
  let cholT ← optMat j "chol_t"
  let modelName ← asStr (fldD j "model" (Json.str ""))
  let theta ← asOpt (asList asFloat) (fldD j "theta" Json.null)
  let p : Params Float :=
    { nCond := nCond, nCh := nCh, nSim := nSim, signal := signal, noise := noise,
      cholC := cholC, cholT := cholT, same := same, modelName := modelName, theta := theta }
  let signals : Nat → Mat Float := fun i => ofLists (sigs.getD i [])
  let noises : Nat → Mat Float := fun k => ofLists (zs.getD k [])
  let dss := makeDatasets p cond signals noises
  let outs := dss.map (fun ds =>
    let rows := toLists ds.nObs ds.nCh ds.data
    let rdm : Json := match ds.condVec with
      | .vec cv => ofList ofFloat (rdmByCondition ds.nObs ds.nCh cv (ofLists rows))
      | .design _ => Json.null
    -- one pattern per observation (calc_rdm by a row-number descriptor)
    let rdmRows : Json := match ds.condVec with
      | .vec _ => Json.null
      | .design _ => ofList ofFloat (rdmByCondition ds.nObs ds.nCh (List.range ds.nObs) (ofLists rows))
    let condEcho : Json := match ds.condVec with
      | .vec cv => ofList ofNat cv
      | .design z => ofMatF z
    obj [("data", ofMatF rows), ("rdm", rdm), ("rdm_rows", rdmRows), ("cond_vec", condEcho),
         ("signal", ofFloat ds.signal), ("noise", ofFloat ds.noise),
         ("model", Json.str ds.modelName), ("theta", ofOpt (ofList ofFloat) ds.theta),
         ("n_obs", ofNat ds.nObs), ("n_ch", ofNat ds.nCh)])
  -- the plan on the branch taken (a signal entry only if that branch of make_signal consumes a draw)
  let plan := (drawPlanFor exact same nSim).map (fun d => Json.arr #[Json.bool d.1, ofNat d.2])
  pure (obj [("datasets", Json.arr outs.toArray), ("plan", Json.arr plan.toArray),
             ("n_signal_calls", ofNat (nSignalCalls same nSim)),
             ("n_cols", ofNat cond.nCols), ("gen_width", ofNat (genWidth nCond nCh)),
             ("noise_shape", ofList ofNat [(noiseDrawShape cond.nObs nCh).1, (noiseDrawShape cond.nObs nCh).2]),
             ("signal_shape", ofList ofNat [(signalDrawShape nCond nCh).1, (signalDrawShape nCond nCh).2])])

/-- the model's own exact signal (own Cholesky and Gram–Schmidt instances of the two factor
    contracts), the contract residuals, and the whole loop to the RDM by condition -/
def own (j : Json) : R Json := do
  let nCond ← fld j "n_cond" >>= asNat
  let nCh ← fld j "n_ch" >>= asNat
  let v ← fld j "rdm" >>= asList asFloat
  let z ← fld j "z" >>= asMatF
  let cv ← fld j "vec" >>= asList asNat
  let signal ← fld j "signal" >>= asFloat
  let w := genWidth nCond nCh
  let gl := toLists nCond nCond (gramOfRdm nCond (squareform nCond v))
  let g : Mat Float := ofLists gl
  let tol : Float := 1e-9 * (maxAbs gl + 1e-300)
  let cl := toLists nCond nCond (cholPiv nCond g tol)
  let c : Mat Float := ofLists cl
  let residC := maxAbs (toLists nCond nCond (fun a b => gramRows nCond c a b - g a b))
  let u0 := ofLists (toLists nCond w (rowCenter w (ofLists z)))
  let wl := gramSchmidtCompleteRows nCond w u0 1e-20
  let wm : Mat Float := ofLists wl
  let residW := maxAbs (toLists nCond nCond
    (fun a b => gramRows w wm a b - (if a = b then (w : Float) else 0)))
  let sl := toLists nCond nCh (makeSignal nCond nCh true (ofLists z) (fun _ => wm) c none)
  let p : Params Float := { nCond := nCond, nCh := nCh, nSim := 1, signal := signal, noise := 0 }
  let dss := makeDatasets p (.vec cv) (fun _ => ofLists sl) (fun _ => fun _ _ => 0)
  let rdms := dss.map (fun ds =>
    rdmByCondition ds.nObs ds.nCh cv (ofLists (toLists ds.nObs ds.nCh ds.data)))
  pure (obj [("resid_c", ofFloat residC), ("resid_w", ofFloat residW),
             ("signal", ofMatF sl), ("gram", ofMatF gl),
             ("rdm", ofList ofFloat (rdms.headD []))])

/-- `make_signal` as coded after the repair: the recorded normal draw, the recorded results of
    `np.linalg.qr` / `np.linalg.eigh`, optional channel factor; truncated to `n_ch` columns -/
def signal (j : Json) : R Json := do
  let nCond ← fld j "n_cond" >>= asNat
  let nCh ← fld j "n_ch" >>= asNat
  let exact ← fld j "exact" >>= asBool
  let z ← fld j "z" >>= asMatF
  let q ← asOpt asMatF (fldD j "q" Json.null)
  let eigval ← fld j "eigval" >>= asList asFloat
  let eigvec ← fld j "eigvec" >>= asMatF
  let cholS ← optMat j "chol_s"
  let w := genWidth nCond nCh
  -- materialise the centred / whitened draw once (the model term is the same function)
  let s := makeSignalCoded nCond nCh exact (ofLists z) (ofLists (q.getD [])) (fun k => eigval.getD k 0)
    (ofLists eigvec) cholS
  pure (obj [("signal", ofMatF (toLists nCond nCh s)), ("gen_width", ofNat w),
             ("clamped", ofList ofFloat (eigval.map Rsa.Gen.C18.eigClamp))])

/-- specification of the RDM between the observations of a general design matrix:
    `signal · (z_o − z_o')ᵀ G (z_o − z_o')` with `G` from the model RDM vector (and the `D` form) -/
def rowspec (j : Json) : R Json := do
  let nCond ← fld j "n_cond" >>= asNat
  let v ← fld j "rdm" >>= asList asFloat
  let z ← fld j "design" >>= asMatF
  let signal ← fld j "signal" >>= asFloat
  let nObs := z.length
  let d : Mat Float := squareform nCond v
  let g : Mat Float := ofLists (toLists nCond nCond (gramOfRdm nCond d))
  pure (obj [("spec", ofList ofFloat (Rsa.matToVec nObs (designRdmSpec nCond (ofLists z) g signal))),
             ("spec_d", ofList ofFloat (Rsa.matToVec nObs (designRdmSpecD nCond (ofLists z) d signal)))])

def asShape (j : Json) : R (Option (Nat × Nat)) := do
  match ← asOpt (asList asNat) j with
  | some [a, b] => pure (some (a, b))
  | none => pure none
  | _ => throw "shape must be [rows, cols] or null"

/-- does `make_dataset` accept the request (else `ValueError`) -/
def validate (j : Json) : R Json := do
  let ndim ← fld j "cond_ndim" >>= asNat
  let nCh ← fld j "n_ch" >>= asNat
  let scc ← asShape (fldD j "scc" Json.null)
  let ncc ← asShape (fldD j "ncc" Json.null)
  let nct ← asShape (fldD j "nct" Json.null)
  pure (Json.bool (acceptsRequest ndim nCh scc ncc nct))

def handle : Handler := fun op j =>
  match op with
  | "c18.design" => some (design j)
  | "c18.gram" => some (gram j)
  | "c18.dataset" => some (dataset j)
  | "c18.own" => some (own j)
  | "c18.signal" => some (signal j)
  | "c18.rowspec" => some (rowspec j)
  | "c18.validate" => some (validate j)
  | _ => none

end Rsa.Drv.C18
