/- driver ops for property C13 (model side of the correspondence) -/
import Rsa.Core.Wire
import Rsa.Core.Compare
import Rsa.Core.Nan
import Rsa.Drv.C03

open Lean Rsa.Wire Rsa.Compare Rsa.Nan

namespace Rsa.Drv.C13

def errName : ParseErr → String
  | .shape => "shape"
  | .nanpos => "nanpos"
  | .empty => "empty"

def stackF (j : Json) : R (List (List (Option Float))) := asList (asList (asOpt asFloat)) j
def stackQ (j : Json) : R (List (List (Option Rat))) := asList (asList (asOpt asRat)) j

def ofOptF : Option Float → Json := ofOpt ofFloat
def ofMask (m : List Bool) : Json := ofList Json.bool m

/-- a measure on reduced vectors; `none` = the reduced length is no RDM length (Bures) -/
def measureF (method : String) (x y : List Float) : R Json :=
  match method with
  | "cosine" => pure (ofFloat (cosine x y))
  | "corr" => pure (ofFloat (corr x y))
  | "spearman" => pure (ofFloat (spearman x y))
  | "kendall" | "tau-b" => pure (ofOpt ofFloat (tauB x y))
  | "tau-a" => pure (ofFloat (tauA x y))
  | "rho-a" => pure (ofFloat (rhoA x y))
  | m => throw s!"unknown method {m}"

def resultJson (r : Except ParseErr (List (List (R Json)))) : R Json :=
  match r with
  | .error e => pure (obj [("exc", Json.str (errName e))])
  | .ok rows => do
    let rows ← rows.mapM (fun r => r.mapM id)
    pure (obj [("res", ofList (ofList id) rows)])

/-- `compare(x, y, method, sigma_k)` on stacks with missing entries -/
def compareOp (j : Json) : R Json := do
  let method ← fld j "method" >>= asStr
  let n ← fld j "n" >>= asNat
  let xs ← fld j "x" >>= stackF
  let ys ← fld j "y" >>= stackF
  let sg ← C03.asSigma asFloat (fldD j "sigma" Json.null)
  let whitenedOf := fun (centre : Bool) (V : List (List Float)) (a b : List Float) =>
    (pure (ofOpt ofFloat (if centre then whitenedCorr V a b else whitenedCos V a b)) : R Json)
  match method with
  | "cosine_cov" | "corr_cov" =>
    let centre := method == "corr_cov"
    let slow ← resultJson (compareNanV (whitenedOf centre) (getV n sg) xs ys)
    match sg with
    | .none =>
      let fast ← resultJson (compareNanM (fun m a b =>
        (pure (ofFloat (if centre then whitenedFastNan n m (center a) (center b)
                        else whitenedFastNan n m a b)) : R Json)) xs ys)
      pure (obj [("coded", fast), ("slow", slow)])
    | _ => pure (obj [("coded", slow), ("slow", slow)])
  | "bures" | "bures_metric" =>
    let r ← resultJson (compareNan (fun a b =>
      let n' := (List.range (n + 1)).find? (fun k => triLen k == a.length ∧ 2 ≤ k)
      match n' with
      | none => (pure (Json.str "ValueError") : R Json)
      | some k =>
        if method == "bures" then pure (ofFloat (buresSim C03.eighF (kernelRows k a) (kernelRows k b)))
        else pure (ofFloat (sqBuresMetric C03.eighF (kernelRows k a) (kernelRows k b)))) xs ys)
    pure (obj [("coded", r)])
  | "neg_riem_dist" =>
    -- only the parser is modelled (the value comes from a Nelder-Mead search)
    let r ← resultJson (compareNan (fun _ _ => (pure (Json.str "reduced") : R Json)) xs ys)
    pure (obj [("coded", r)])
  | _ =>
    let r ← resultJson (compareNan (measureF method) xs ys)
    pure (obj [("coded", r)])

/-- the parser alone (exact): reduced stacks, mask, and what the legacy parser did -/
def parseOp (j : Json) : R Json := do
  let xs ← fld j "x" >>= stackQ
  let ys ← fld j "y" >>= stackQ
  let show1 := fun (r : Except ParseErr (List (List Rat) × List (List Rat) × List Bool)) =>
    match r with
    | .error e => obj [("exc", Json.str (errName e))]
    | .ok (a, b, m) => obj [("x", ofList (ofList ofRat) a), ("y", ofList (ofList ofRat) b), ("mask", ofMask m)]
  -- both source copies, each with its `raise` tests generated from the source text
  pure (obj [("coded", show1 (parseOf .compare xs ys)), ("utils", show1 (parseOf .utils xs ys)),
             ("legacy", show1 (parseLegacy xs ys))])

/-- `_mean(vectors, weights)` exactly: as coded and as specified -/
def meanOp (j : Json) : R Json := do
  let vs ← fld j "v" >>= stackQ
  let wj := fldD j "w" Json.null
  let kind ← asStr (fldD j "wkind" (Json.str "none"))
  let ws : List (List (Option Rat)) ← match kind with
    | "none" => pure (onesLike vs)
    | "rdm" => do let w ← asList asRat wj; pure (perRdmWeights vs w)
    | _ => stackQ wj
  let coded := nanMean vs ws
  let spec := match vs with
    | [] => []
    | v0 :: _ => (List.range v0.length).map (fun k => nanMeanEntrySpec (colAt k (List.zipWith List.zip vs ws)))
  pure (obj [("coded", ofList (ofOpt ofRat) coded), ("spec", ofList (ofOpt ofRat) spec)])

def rescaleMethod (s : String) : R RescaleMethod :=
  match s with
  | "evidence" => pure .evidence
  | "setsize" => pure .setsize
  | "simple" => pure .simple
  | m => throw s!"unknown rescale method {m}"

/-- `_rescale(dissim, method, threshold)` in doubles -/
def rescaleOp (j : Json) : R Json := do
  let m ← fld j "method" >>= asStr >>= rescaleMethod
  let thr ← fld j "thr" >>= asFloat
  let fuel ← asNat (fldD j "fuel" (ofNat 2000))
  let d ← fld j "d" >>= stackF
  let (al, w, k, ok) := rescale m thr fuel d
  pure (obj [("aligned", ofList (ofList ofOptF) al), ("weights", ofList (ofList ofOptF) w),
             ("passes", ofNat k), ("converged", Json.bool ok)])

/-- one pass of the loop from a given estimate (fixed-point check) -/
def rescaleStepOp (j : Json) : R Json := do
  let m ← fld j "method" >>= asStr >>= rescaleMethod
  let d ← fld j "d" >>= stackF
  let est ← fld j "est" >>= asList (asOpt asFloat)
  let (al, nxt) := rescaleStep (rescaleWeights m d) d est
  pure (obj [("aligned", ofList (ofList ofOptF) al), ("est", ofList ofOptF nxt)])

def poolMethod (s : String) : R PoolMethod :=
  match s with
  | "euclid" => pure .euclid
  | "cosine" => pure .cosine
  | "corr" => pure .corr
  | "rank" => pure .rank
  | "cosine_cov" => pure .cosineCov
  | "corr_cov" => pure .corrCov
  | m => throw s!"unknown pool method {m}"

def poolCopy (s : String) : R PoolCopy :=
  match s with
  | "inf" => pure .inferenceUtil
  | "pool" => pure .pooling
  | m => throw s!"unknown pool_rdm copy {m}"

/-- `pool_rdm` on a stack with missing entries; also the NaN-free formula on the reduced
    rows put back at the mask of the first RDM (they must agree when the mask is common) -/
def poolOp (j : Json) : R Json := do
  let pm ← fld j "pm" >>= asStr >>= poolMethod
  let n ← fld j "n" >>= asNat
  let copy ← fld j "copy" >>= asStr >>= poolCopy
  let st ← fld j "stack" >>= stackF
  let sg ← C03.asSigma asFloat (fldD j "sigma" Json.null)
  let V := if pm = .cosineCov ∨ pm = .corrCov then getV n sg else []
  let coded := poolRdm copy pm V st
  let m0 := maskOf (st.headD [])
  let deleted := scatter m0 (poolRows (effMethod copy pm) (subBlock m0 V) (poolShift copy pm) (st.map delete))
  pure (obj [("coded", ofList ofOptF coded), ("deleted", ofList ofOptF deleted)])

def fitMethod (s : String) : R FitMethod :=
  match s with
  | "cosine" => pure .cosine
  | "corr" => pure .corr
  | "cosine_cov" => pure .cosineCov
  | "corr_cov" => pure .corrCov
  | m => throw s!"unknown fit method {m}"

/-- `fit_regress(model, data, method, sigma_k, ridge_weight, normalize)`:
    `A` = model RDM vectors (after pattern subsampling), `data` = data stack -/
def regressOp (j : Json) : R Json := do
  let ms ← fld j "method" >>= asStr
  let fm ← fitMethod ms
  let pm ← poolMethod ms
  let n ← fld j "n" >>= asNat
  let ridge ← fld j "ridge" >>= asFloat
  let normalize ← asBool (fldD j "normalize" (Json.bool true))
  let A ← fld j "A" >>= stackF
  let data ← fld j "data" >>= stackF
  let sg ← C03.asSigma asFloat (fldD j "sigma" Json.null)
  let cov := fm = .cosineCov ∨ fm = .corrCov
  let V := if cov then getV n sg else []
  -- `pool_rdm(data, method=method, sigma_k=sigma_k)` of util/pooling.py: the same V as the fit
  let y := poolRdm .pooling pm V data
  let nn ← asBool (fldD j "nn" (Json.bool false))
  if nn then
    -- `fit_regress_nn`: the active-set loop of C08's model on the reduced normal equations
    let eps ← fld j "eps" >>= asFloat
    match fitRegressNN eps fm V ridge normalize A y with
    | .error e => pure (obj [("exc", Json.str (errName e))])
    | .ok (t, exited) => pure (obj [("theta", ofList ofFloat t), ("pooled", ofList ofOptF y),
                                    ("exited", Json.bool exited)])
  else
  match fitRegress fm V ridge normalize A y with
  | .error e => pure (obj [("exc", Json.str (errName e))])
  | .ok t => pure (obj [("theta", ofList ofFloat t), ("pooled", ofList ofOptF y)])

/-- `subsample_pattern` on a condensed vector (exact) -/
def subsampleOp (j : Json) : R Json := do
  let n ← fld j "n" >>= asNat
  let sel ← fld j "sel" >>= asList asNat
  let v ← fld j "v" >>= asList (asOpt asRat)
  pure (obj [("v", ofList (ofOpt ofRat) (subsampleVec n sel v)), ("mask", ofMask (subsampleMask sel))])

def handle : Handler := fun op j =>
  match op with
  | "c13.compare" => some (compareOp j)
  | "c13.parse" => some (parseOp j)
  | "c13.mean" => some (meanOp j)
  | "c13.rescale" => some (rescaleOp j)
  | "c13.rescale_step" => some (rescaleStepOp j)
  | "c13.pool" => some (poolOp j)
  | "c13.regress" => some (regressOp j)
  | "c13.subsample" => some (subsampleOp j)
  | _ => none

end Rsa.Drv.C13
