/- driver ops for property C01 (model side of the correspondence) -/
import Rsa.Core.Wire
import Rsa.Core.Calc
import Rsa.Core.C01Top

open Lean Rsa.Wire Rsa Rsa.Calc

namespace Rsa.Drv.C01

instance : Zero Float := ⟨0.0⟩
instance : One Float := ⟨1.0⟩

def asLbl (j : Json) : R Lbl :=
  match j with
  | .str s => pure (.str s)
  | _ => do let i ← asInt j; pure (.int i)

def ofLbl : Lbl → Json
  | .int i => ofInt i
  | .str s => Json.str s

section generic
variable {α : Type} [Add α] [Sub α] [Mul α] [Div α] [Neg α] [Zero α] [One α] [NatCast α]
  [LT α] [DecidableLT α] [LE α] [DecidableLE α] [Max α] [Min α]

/-- numeric plumbing of one mode -/
structure Ops (α : Type) where
  num : Json → R α
  out : α → Json
  sqrt : α → α
  lg : α → α

def matOfJson (o : Ops α) (j : Json) : R (Nat → Nat → α) := do
  let rows ← asList (asList o.num) j
  let arr := (rows.map (fun r => r.toArray)).toArray
  pure (fun a b => (arr.getD a #[]).getD b 0)

def methodOf (o : Ops α) (j : Json) (noise : Json) : R (Method α) := do
  let name ← fld j "method" >>= asStr
  match name with
  | "euclidean" => pure .euclidean
  | "correlation" => pure .correlation
  | "mahalanobis" =>
      if noise.isNull then pure (.mahalanobis none)
      else do pure (.mahalanobis (some (← matOfJson o noise)))
  | "poisson" => do
      let pl ← fld j "pl" >>= o.num
      let pw ← fld j "pw" >>= o.num
      pure (.poisson pl pw)
  | m => throw s!"unknown method {m}"

def rowsOf (o : Ops α) (j : Json) : R (List (Row α)) := do
  let rows ← asList (asList o.num) j
  pure (rows.map rowOfList)

def rdmJson (o : Ops α) (r : Rdm α Lbl Lbl) : Json :=
  obj [("labels", ofList ofLbl r.labels), ("vec", ofList o.out r.vec),
       ("descs", ofList (ofOpt (ofList ofLbl)) r.descs)]

/-- one dataset: `X`, `labels` (or null), `descs` -/
def calcOne (o : Ops α) (j : Json) : R Json := do
  let P ← fld j "P" >>= asNat
  let m ← methodOf o j (fldD j "noise" Json.null)
  let rm ← asBool (fldD j "remove_mean" (Json.bool false))
  let rows ← fld j "X" >>= rowsOf o
  let labj := fldD j "labels" Json.null
  if labj.isNull then
    pure (obj [("vec", ofList o.out (calcRdmNoDesc P o.sqrt o.lg m rm rows))])
  else do
    let lab ← asList asLbl labj
    let descs ← asList (asList asLbl) (fldD j "descs" (Json.arr #[]))
    pure (rdmJson o (calcRdm P o.sqrt o.lg Lbl.le m rm (lab.zip rows) descs))

/-- list of datasets; `noises` is null or one matrix per dataset -/
def calcList (o : Ops α) (j : Json) : R Json := do
  let P ← fld j "P" >>= asNat
  let rm ← asBool (fldD j "remove_mean" (Json.bool false))
  let dsj ← fld j "datasets" >>= asArr
  let nsj := fldD j "noises" Json.null
  let noises ← if nsj.isNull then pure (dsj.map (fun _ => Json.null)) else asArr nsj
  let ms ← noises.mapM (methodOf o j)
  let labelled ← asBool (fldD j "labelled" (Json.bool true))
  if labelled then do
    let dss ← dsj.mapM (fun d => do
      let rows ← fld d "X" >>= rowsOf o
      let lab ← fld d "labels" >>= asList asLbl
      pure (lab.zip rows))
    let (all, vecs) := calcRdmList P o.sqrt o.lg Lbl.le ms rm dss
    pure (obj [("labels", ofList ofLbl all), ("vecs", ofList (ofList (ofOpt o.out)) vecs)])
  else do
    let dss ← dsj.mapM (fun d => fld d "X" >>= rowsOf o)
    let vecs := (ms.zip dss).map (fun p => calcRdmNoDesc P o.sqrt o.lg p.1 rm p.2)
    pure (obj [("vecs", ofList (ofList o.out) vecs)])

/-- temporal dataset: `X[obs][channel][time]`, `times`, `bins` (null or list of lists) -/
def calcMovieOp (o : Ops α) (j : Json) : R Json := do
  let P ← fld j "P" >>= asNat
  let m ← methodOf o j (fldD j "noise" Json.null)
  let xs ← fld j "X" >>= asList (asList (asList o.num))
  let trows : List (TRow α) := xs.map (fun chans =>
    let arr := (chans.map (fun r => r.toArray)).toArray
    fun c t => (arr.getD c #[]).getD t 0)
  let times ← fld j "times" >>= asList asRat
  let bins ← asOpt (asList (asList asRat)) (fldD j "bins" Json.null)
  let labj := fldD j "labels" Json.null
  if labj.isNull then
    let fr := calcMovieNoDesc P o.sqrt o.lg m (trows.map (fun r => ((), r))) times bins
    pure (obj [("frames", ofList (fun f => obj [("time", ofRat f.1), ("vec", ofList o.out f.2)]) fr)])
  else do
    let lab ← asList asLbl labj
    let fr := calcMovie (D := Lbl) P o.sqrt o.lg Lbl.le m (lab.zip trows) times bins
    pure (obj [("frames", ofList (fun f => obj [("time", ofRat f.1),
      ("labels", ofList ofLbl f.2.labels), ("vec", ofList o.out f.2.vec)]) fr)])

/-! ### round 3: the call layer (`Rsa.Core.C01Top`) — input forms, dispatch, descriptors -/

variable [IntCast α]

def methodCodeOf (name : String) : Nat :=
  match name with
  | "euclidean" => 0
  | "correlation" => 1
  | "mahalanobis" => 2
  | "poisson" => 3
  | _ => 9

/-- `noise`: null | {"one": matrix} | {"per": [matrix | null, …]} -/
def noiseArgOf (o : Ops α) (j : Json) : R (NoiseArg α) :=
  if j.isNull then pure .none
  else match j.getObjVal? "one" with
    | .ok m => do pure (.one (← matOfJson o m))
    | .error _ => do
      let per ← fld j "per" >>= asArr
      let ms ← per.mapM (fun m => if m.isNull then pure none else some <$> matOfJson o m)
      pure (.per ms)

/-- a dataset descriptor value: a JSON array is a vector, anything else a scalar -/
def dvalOf (j : Json) : DVal Json :=
  match j with
  | .arr a => .vec a.toList
  | v => .scalar v

def ddescOf (j : Json) : R (List (String × DVal Json)) :=
  asList (fun pr => do
    match ← asArr pr with
    | [n, v] => pure ((← asStr n), dvalOf v)
    | _ => throw "descriptor must be [name, value]") j

/-- measurements in their stored form: `dtype` "int" (JSON integers) or "float" (mode numbers) -/
def rawDataOf (o : Ops α) (d : Json) : R (RawData α) := do
  let dt ← asStr (fldD d "dtype" (Json.str "float"))
  if dt == "int" then do pure (.ints (← fld d "X" >>= asList (asList asInt)))
  else do pure (.floats (← fld d "X" >>= asList (asList o.num)))

/-- a descriptor column [name, "list" | "array", values] -/
def rawDescOf (j : Json) : R (String × RawDesc Lbl) := do
  match ← asArr j with
  | [n, t, v] =>
    let vals ← asList asLbl v
    let ty ← asStr t
    pure ((← asStr n), if ty == "list" then RawDesc.list vals else RawDesc.array vals)
  | _ => throw "obs descriptor must be [name, container, values]"

def dsetOf (o : Ops α) (d : Json) : R (DSet α Lbl Lbl Json) := do
  let raw ← rawDataOf o d
  let lab ← fld d "labels" >>= asList asLbl
  let od ← asList rawDescOf (fldD d "descs" (Json.arr #[]))
  let dd ← ddescOf (fldD d "ddesc" (Json.arr #[]))
  pure { obs := lab.zip raw.rows, odesc := od.map (fun p => (p.1, p.2.parse)), ddesc := dd }

def rvalJson : RVal Json Rat → Json
  | .inl (.scalar s) => obj [("s", s)]
  | .inl (.vec l) => obj [("v", Json.arr l.toArray)]
  | .inr t => obj [("t", ofRat t)]

def stackJson {D : Type} (o : Ops α) (dj : D → Json) (st : Option (Stack α Lbl D Json Rat)) : Json :=
  match st with
  | none => obj [("none", Json.bool true)]
  | some s => obj [
      ("labels", ofList ofLbl s.labels),
      ("vecs", ofList (ofList (ofOpt o.out)) s.vecs),
      ("rdesc", ofList (fun c => Json.arr #[Json.str c.1, ofList (ofOpt rvalJson) c.2]) s.rdesc),
      ("pdesc", ofList (fun c => Json.arr #[Json.str c.1, ofOpt (ofList dj) c.2]) s.pdesc)]

/-- `calc_rdm` in the form the user calls it: `wrap` "one" | "many" -/
def topOp (o : Ops α) (j : Json) : R Json := do
  let P ← fld j "P" >>= asNat
  let name ← fld j "method" >>= asStr
  let nz ← noiseArgOf o (fldD j "noise" Json.null)
  let pl ← asOpt o.num (fldD j "pl" Json.null)
  let pw ← asOpt o.num (fldD j "pw" Json.null)
  let rm ← asBool (fldD j "remove_mean" (Json.bool false))
  let lo : ListOpts α := { method := methodCodeOf name, noise := nz, pl := pl, pw := pw,
                           removeMean := rm }
  let ds ← fld j "datasets" >>= asArr
  let dss ← ds.mapM (dsetOf o)
  let wrap ← asStr (fldD j "wrap" (Json.str "one"))
  let inp : R (Input (DSet α Lbl Lbl Json)) :=
    if wrap == "many" then pure (.many dss)
    else match dss with
      | [d] => pure (.one d)
      | _ => throw "wrap=one needs exactly one dataset"
  pure (stackJson o ofLbl (calcTop (τ := Rat) P o.sqrt o.lg Lbl.le lo (← inp)))

/-- `calc_rdm_movie` in the form the user calls it -/
def movieTopOp (o : Ops α) (j : Json) : R Json := do
  let P ← fld j "P" >>= asNat
  let name ← fld j "method" >>= asStr
  let nz ← noiseArgOf o (fldD j "noise" Json.null)
  let pl ← asOpt o.num (fldD j "pl" Json.null)
  let pw ← asOpt o.num (fldD j "pw" Json.null)
  let tname ← asStr (fldD j "tname" (Json.str "time"))
  let times ← fld j "times" >>= asList asRat
  let bins ← asOpt (asList (asList asRat)) (fldD j "bins" Json.null)
  let mo : MovieOpts α Rat := { method := methodCodeOf name, noise := nz, pl := pl, pw := pw,
                                tname := tname, bins := bins }
  let ds ← fld j "datasets" >>= asArr
  let tss ← ds.mapM (fun d => do
    let xs ← fld d "X" >>= asList (asList (asList o.num))
    let trows : List (TRow α) := xs.map (fun chans =>
      let arr := (chans.map (fun r => r.toArray)).toArray
      fun c t => (arr.getD c #[]).getD t 0)
    let lab ← fld d "labels" >>= asList asLbl
    let dd ← ddescOf (fldD d "ddesc" (Json.arr #[]))
    pure ({ obs := lab.zip trows, ddesc := dd, times := times } : TSet α Lbl Json Rat))
  let wrap ← asStr (fldD j "wrap" (Json.str "one"))
  let inp : R (Input (TSet α Lbl Json Rat)) :=
    if wrap == "many" then pure (.many tss)
    else match tss with
      | [d] => pure (.one d)
      | _ => throw "wrap=one needs exactly one dataset"
  pure (stackJson o (fun (_ : Unit) => Json.null) (movieTop P o.sqrt o.lg Lbl.le mo (← inp)))

/-- `average_dataset_by` on int64 data as coded (buffer dtype leaf) -/
def meansIntOp (o : Ops α) (j : Json) : R Json := do
  let P ← fld j "P" >>= asNat
  let lab ← fld j "labels" >>= asList asLbl
  let rows ← fld j "X" >>= asList (asList asInt)
  let ms : List (Row α) := condMeansInt lab rows
  pure (obj [("unique", ofList ofLbl (uniqueFirst lab)),
             ("means", ofList (fun r => ofList o.out ((List.range P).map r)) ms)])

end generic

instance : IntCast Float := ⟨Float.ofInt⟩

def ratOps : Ops Rat := { num := asRat, out := ofRat, sqrt := fun x => x, lg := fun x => x }
def floatOps : Ops Float :=
  { num := asFloat, out := ofFloat, sqrt := Float.sqrt, lg := Float.log }

def withMode (j : Json) (fr : Ops Rat → Json → R Json) (ff : Ops Float → Json → R Json) :
    R Json := do
  let mode ← asStr (fldD j "mode" (Json.str "rat"))
  if mode == "float" then ff floatOps j else fr ratOps j

def unique (j : Json) : R Json := do
  let lab ← fld j "labels" >>= asList asLbl
  pure (obj [("unique", ofList ofLbl (uniqueFirst lab)), ("inverse", ofList ofNat (inverse lab))])

/-- dataset descriptors of a list of datasets -> merged rdm descriptors -/
def rdesc (j : Json) : R Json := do
  let dss ← fld j "dss" >>= asList (asList (fun pr => do
    match ← asArr pr with
    | [n, v] => pure ((← asStr n), v)
    | _ => throw "descriptor must be [name, value]"))
  pure (ofList (fun col => Json.arr #[Json.str col.1, ofList (ofOpt id) col.2])
    (mergeRdmDescs dss))

def handle : Handler := fun op j =>
  match op with
  | "c01.unique" => some (unique j)
  | "c01.rdesc" => some (rdesc j)
  | "c01.calc" => some (withMode j calcOne calcOne)
  | "c01.list" => some (withMode j calcList calcList)
  | "c01.movie" => some (withMode j calcMovieOp calcMovieOp)
  | "c01.top" => some (withMode j topOp topOp)
  | "c01.movietop" => some (withMode j movieTopOp movieTopOp)
  | "c01.meansint" => some (withMode j meansIntOp meansIntOp)
  | _ => none

end Rsa.Drv.C01
