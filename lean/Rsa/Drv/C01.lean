/- driver ops for property C01 (model side of the correspondence) -/
import Rsa.Core.Wire
import Rsa.Core.Calc

open Lean Rsa.Wire Rsa Rsa.Calc

namespace Rsa.Drv.C01

instance : Zero Float := ⟨0.0⟩
instance : One Float := ⟨1.0⟩

def asLbl (j : Json) : R Lbl :=
  match j with
  | .str s => pure (.str s)
  | _ => do let i ← asInt j; pure (.int i)

def ofLbl : Lbl → Json
  | .int i => ofInt i
  | .str s => Json.str s

section generic
variable {α : Type} [Add α] [Sub α] [Mul α] [Div α] [Neg α] [Zero α] [One α] [NatCast α]
  [LT α] [DecidableLT α] [LE α] [DecidableLE α] [Max α] [Min α]

/-- numeric plumbing of one mode -/
structure Ops (α : Type) where
  num : Json → R α
  out : α → Json
  sqrt : α → α
  lg : α → α

def matOfJson (o : Ops α) (j : Json) : R (Nat → Nat → α) := do
  let rows ← asList (asList o.num) j
  let arr := (rows.map (fun r => r.toArray)).toArray
  pure (fun a b => (arr.getD a #[]).getD b 0)

def methodOf (o : Ops α) (j : Json) (noise : Json) : R (Method α) := do
  let name ← fld j "method" >>= asStr
  match name with
  | "euclidean" => pure .euclidean
  | "correlation" => pure .correlation
  | "mahalanobis" =>
      if noise.isNull then pure (.mahalanobis none)
      else do pure (.mahalanobis (some (← matOfJson o noise)))
  | "poisson" => do
      let pl ← fld j "pl" >>= o.num
      let pw ← fld j "pw" >>= o.num
      pure (.poisson pl pw)
  | m => throw s!"unknown method {m}"

def rowsOf (o : Ops α) (j : Json) : R (List (Row α)) := do
  let rows ← asList (asList o.num) j
  pure (rows.map rowOfList)

def rdmJson (o : Ops α) (r : Rdm α Lbl Lbl) : Json :=
  obj [("labels", ofList ofLbl r.labels), ("vec", ofList o.out r.vec),
       ("descs", ofList (ofOpt (ofList ofLbl)) r.descs)]

/-- one dataset: `X`, `labels` (or null), `descs` -/
def calcOne (o : Ops α) (j : Json) : R Json := do
  let P ← fld j "P" >>= asNat
  let m ← methodOf o j (fldD j "noise" Json.null)
  let rm ← asBool (fldD j "remove_mean" (Json.bool false))
  let rows ← fld j "X" >>= rowsOf o
  let labj := fldD j "labels" Json.null
  if labj.isNull then
    pure (obj [("vec", ofList o.out (calcRdmNoDesc P o.sqrt o.lg m rm rows))])
  else do
    let lab ← asList asLbl labj
    let descs ← asList (asList asLbl) (fldD j "descs" (Json.arr #[]))
    pure (rdmJson o (calcRdm P o.sqrt o.lg Lbl.le m rm (lab.zip rows) descs))

/-- list of datasets; `noises` is null or one matrix per dataset -/
def calcList (o : Ops α) (j : Json) : R Json := do
  let P ← fld j "P" >>= asNat
  let rm ← asBool (fldD j "remove_mean" (Json.bool false))
  let dsj ← fld j "datasets" >>= asArr
  let nsj := fldD j "noises" Json.null
  let noises ← if nsj.isNull then pure (dsj.map (fun _ => Json.null)) else asArr nsj
  let ms ← noises.mapM (methodOf o j)
  let labelled ← asBool (fldD j "labelled" (Json.bool true))
  if labelled then do
    let dss ← dsj.mapM (fun d => do
      let rows ← fld d "X" >>= rowsOf o
      let lab ← fld d "labels" >>= asList asLbl
      pure (lab.zip rows))
    let (all, vecs) := calcRdmList P o.sqrt o.lg Lbl.le ms rm dss
    pure (obj [("labels", ofList ofLbl all), ("vecs", ofList (ofList (ofOpt o.out)) vecs)])
  else do
    let dss ← dsj.mapM (fun d => fld d "X" >>= rowsOf o)
    let vecs := (ms.zip dss).map (fun p => calcRdmNoDesc P o.sqrt o.lg p.1 rm p.2)
    pure (obj [("vecs", ofList (ofList o.out) vecs)])

/-- temporal dataset: `X[obs][channel][time]`, `times`, `bins` (null or list of lists) -/
def calcMovieOp (o : Ops α) (j : Json) : R Json := do
  let P ← fld j "P" >>= asNat
  let m ← methodOf o j (fldD j "noise" Json.null)
  let xs ← fld j "X" >>= asList (asList (asList o.num))
  let trows : List (TRow α) := xs.map (fun chans =>
    let arr := (chans.map (fun r => r.toArray)).toArray
    fun c t => (arr.getD c #[]).getD t 0)
  let times ← fld j "times" >>= asList asRat
  let bins ← asOpt (asList (asList asRat)) (fldD j "bins" Json.null)
  let labj := fldD j "labels" Json.null
  if labj.isNull then
    let fr := calcMovieNoDesc P o.sqrt o.lg m (trows.map (fun r => ((), r))) times bins
    pure (obj [("frames", ofList (fun f => obj [("time", ofRat f.1), ("vec", ofList o.out f.2)]) fr)])
  else do
    let lab ← asList asLbl labj
    let fr := calcMovie (D := Lbl) P o.sqrt o.lg Lbl.le m (lab.zip trows) times bins
    pure (obj [("frames", ofList (fun f => obj [("time", ofRat f.1),
      ("labels", ofList ofLbl f.2.labels), ("vec", ofList o.out f.2.vec)]) fr)])

end generic

def ratOps : Ops Rat := { num := asRat, out := ofRat, sqrt := fun x => x, lg := fun x => x }
def floatOps : Ops Float :=
  { num := asFloat, out := ofFloat, sqrt := Float.sqrt, lg := Float.log }

def withMode (j : Json) (fr : Ops Rat → Json → R Json) (ff : Ops Float → Json → R Json) :
    R Json := do
  let mode ← asStr (fldD j "mode" (Json.str "rat"))
  if mode == "float" then ff floatOps j else fr ratOps j

def unique (j : Json) : R Json := do
  let lab ← fld j "labels" >>= asList asLbl
  pure (obj [("unique", ofList ofLbl (uniqueFirst lab)), ("inverse", ofList ofNat (inverse lab))])

/-- dataset descriptors of a list of datasets -> merged rdm descriptors -/
def rdesc (j : Json) : R Json := do
  let dss ← fld j "dss" >>= asList (asList (fun pr => do
    match ← asArr pr with
    | [n, v] => pure ((← asStr n), v)
    | _ => throw "descriptor must be [name, value]"))
  pure (ofList (fun col => Json.arr #[Json.str col.1, ofList (ofOpt id) col.2])
    (mergeRdmDescs dss))

def handle : Handler := fun op j =>
  match op with
  | "c01.unique" => some (unique j)
  | "c01.rdesc" => some (rdesc j)
  | "c01.calc" => some (withMode j calcOne calcOne)
  | "c01.list" => some (withMode j calcList calcList)
  | "c01.movie" => some (withMode j calcMovieOp calcMovieOp)
  | _ => none

end Rsa.Drv.C01
