/- driver ops for property C19 (model side of the correspondence) -/
import Rsa.Core.Wire
import Rsa.Core.Searchlight

open Lean Rsa.Wire Rsa.Searchlight

namespace Rsa.Drv.C19

def asShape (j : Json) : R Shape := do
  match ← asList asNat j with
  | [a, b, c] => pure (a, b, c)
  | _ => throw "shape needs three entries"

def asCtr (j : Json) : R Ctr := do
  match ← asList asInt j with
  | [a, b, c] => pure (a, b, c)
  | _ => throw "center needs three entries"

def ofVox (v : Vox) : Json := ofList ofNat [v.1, v.2.1, v.2.2]

/-- `_get_searchlight_neighbors` : rows (x, y, z) in the order produced -/
def neighbors (j : Json) : R Json := do
  let s ← fld j "shape" >>= asShape
  let c ← fld j "center" >>= asCtr
  let r ← fld j "radius" >>= asRat
  let algo := neighborsAlgo s c r
  let spec := neighborsSpec s c r
  pure (obj [("algo", ofList ofVox algo), ("spec", ofList ofVox spec)])

/-- `get_volume_searchlight` on a mask given by its non-zero flags in C order -/
def volume (j : Json) : R Json := do
  let s ← fld j "shape" >>= asShape
  let flags ← fld j "mask" >>= asList asNat
  let r ← fld j "radius" >>= asRat
  let thr ← fld j "threshold" >>= asRat
  if flags.length ≠ size s then throw "mask length does not match shape"
  let arr := flags.toArray
  let m : Vox → Bool := fun v => arr.getD (ravel s v) 0 != 0
  let (cs, ns) := volumeSearchlight s m r thr
  pure (obj [("centers", ofList ofNat cs), ("neighbors", ofList (ofList ofNat) ns)])

def rdmsWith {α : Type} [Zero α] (dist : List α → List α → α) (rd : Json → R α) (wr : α → Json)
    [Add α] [Sub α] [Mul α] [Div α] [One α] [NatCast α] (j : Json) : R Json := do
  let data ← fld j "data" >>= asList (asList rd)
  let centers ← fld j "centers" >>= asList asNat
  let nbs ← fld j "neighbors" >>= asList (asList asNat)
  let ev ← fld j "events" >>= asList asInt
  let ptsO ← asOpt (asList asNat) (fldD j "pts" Json.null)
  let pts := ptsO.getD (linspacePts centers.length)
  if nbs.length ≠ centers.length then throw "centers and neighbors differ in length"
  if !(ptsOkB centers.length pts) then throw "split points not admissible"
  let rows := slRdms (calcRdm dist ev) (rdmWidth ev) data centers nbs pts
  pure (obj [("rdm", ofList (ofList wr) rows), ("voxel_index", ofList ofNat centers),
             ("chunked", Json.bool (Rsa.Gen.C19.chunked centers.length))])

def rdmsCvWith {α : Type} [Zero α] (dist : List α → List α → List α → List α → α)
    (rd : Json → R α) (wr : α → Json)
    [Add α] [Sub α] [Mul α] [Div α] [One α] [NatCast α] (j : Json) : R Json := do
  let data ← fld j "data" >>= asList (asList rd)
  let centers ← fld j "centers" >>= asList asNat
  let nbs ← fld j "neighbors" >>= asList (asList asNat)
  let ev ← fld j "events" >>= asList asInt
  let ptsO ← asOpt (asList asNat) (fldD j "pts" Json.null)
  let pts := ptsO.getD (linspacePts centers.length)
  if nbs.length ≠ centers.length then throw "centers and neighbors differ in length"
  if !(ptsOkB centers.length pts) then throw "split points not admissible"
  -- rejection depends on the design only
  match calcRdmCv dist ev [] with
  | .error e => throw e
  | .ok _ => pure ()
  let est : List (List α) → List α := fun sub =>
    match calcRdmCv dist ev sub with
    | .ok v => v
    | .error _ => []
  let rows := slRdms est (rdmWidth ev) data centers nbs pts
  pure (obj [("rdm", ofList (ofList wr) rows), ("voxel_index", ofList ofNat centers),
             ("chunked", Json.bool (Rsa.Gen.C19.chunked centers.length))])

/-- `get_searchlight_RDMs` -/
def rdms (j : Json) : R Json := do
  let method ← fld j "method" >>= asStr
  match method with
  | "euclidean" | "mahalanobis" => rdmsWith (α := Rat) dEuclid asRat ofRat j
  | "correlation" => rdmsWith (α := Float) dCorr asFloat ofFloat j
  | "poisson" => rdmsWith (α := Float) dPoisson asFloat ofFloat j
  | "crossnobis" => rdmsCvWith (α := Rat) dCross asRat ofRat j
  | "poisson_cv" => rdmsCvWith (α := Float) dPoissonCv asFloat ofFloat j
  | "euclidean_float" => rdmsWith (α := Float) dEuclid asFloat ofFloat j
  | m => throw s!"method {m} is not modelled"

/-- `evaluate_models_searchlight`: task results (opaque tokens, one per centre, in centre
    order) collected while the tasks complete in the order `sched` -/
def collectOp (j : Json) : R Json := do
  let tokens ← fld j "tokens" >>= asArr
  let sched ← fld j "sched" >>= asList asNat
  let arr := tokens.toArray
  let res := collect tokens.length (fun i => arr.getD i Json.null) sched
  pure (ofList (ofOpt id) res)

/-- `get_searchlight_RDMs` (euclidean, exact) followed by `evaluate_models_searchlight` with the
    identity as evaluation function: the tasks as built by `for x in sl_RDM`, collected by slot
    while completing in the order `sched`; answer: per slot `null` or `[voxel_index, vector]` -/
def evalOp (j : Json) : R Json := do
  let data ← fld j "data" >>= asList (asList asRat)
  let centers ← fld j "centers" >>= asList asNat
  let nbs ← fld j "neighbors" >>= asList (asList asNat)
  let ev ← fld j "events" >>= asList asInt
  let sched ← fld j "sched" >>= asList asNat
  if nbs.length ≠ centers.length then throw "centers and neighbors differ in length"
  let pts := linspacePts centers.length
  if !(ptsOkB centers.length pts) then throw "split points not admissible"
  let R := slResult (calcRdm dEuclid ev) (rdmWidth ev) data centers nbs pts
  let res : List (Option (List Rat × Nat)) := evalSearchlight (parCollect sched) id R
  pure (obj [("n_tasks", ofNat (slTasks R).length),
             ("slots", ofList (ofOpt (fun t => Json.arr #[ofNat t.2, ofList ofRat t.1])) res)])

/-- the whole pipeline on exact numbers: `get_volume_searchlight`, `get_searchlight_RDMs`
    (euclidean), `evaluate_models_searchlight` with the identity as evaluation function and an
    order-preserving `par`; answer: the result list `[[voxel_index, vector], …]` -/
def pipelineOp (j : Json) : R Json := do
  let s ← fld j "shape" >>= asShape
  let flags ← fld j "mask" >>= asList asNat
  let r ← fld j "radius" >>= asRat
  let thr ← fld j "threshold" >>= asRat
  let data ← fld j "data" >>= asList (asList asRat)
  let ev ← fld j "events" >>= asList asInt
  if flags.length ≠ size s then throw "mask length does not match shape"
  let arr := flags.toArray
  let m : Vox → Bool := fun v => arr.getD (ravel s v) 0 != 0
  let vs := volumeSearchlight s m r thr
  let pts := linspacePts vs.1.length
  if !(ptsOkB vs.1.length pts) then throw "split points not admissible"
  let R := slResult (calcRdm dEuclid ev) (rdmWidth ev) data vs.1 vs.2 pts
  let res : List (List Rat × Nat) := evalSearchlight (fun ts f => ts.map f) id R
  pure (ofList (fun t => Json.arr #[ofNat t.2, ofList ofRat t.1]) res)

/-- round 6: what the evaluation function receives at every call site of the source, for a given
    `(method, theta)` and the defaults of its signature (all opaque JSON values) -/
def evalKwOp (j : Json) : R Json := do
  let a : EvalArgs Unit Json Json := ⟨(), fldD j "method" Json.null, fldD j "theta" Json.null⟩
  let dm := fldD j "default_method" Json.null
  let dt := fldD j "default_theta" Json.null
  let got := (List.range nCallSites).map (fun k =>
    callEval (fun (_ : Unit) (_ : Unit) m t => Json.arr #[m, t]) dm dt a k ())
  pure (obj [("n_sites", ofNat nCallSites), ("received", Json.arr got.toArray)])

/-- the split points of `n` centres: numpy's (sent as the positions where they lie one below
    `⌊i·n/100⌋`, or in full) checked for admissibility and compared with the model's own
    double-precision `linspacePts`; `full`: also the chunk partition itself -/
def pointsOp (j : Json) : R Json := do
  let n ← fld j "n" >>= asNat
  let ptsO ← asOpt (asList asNat) (fldD j "pts" Json.null)
  let minus ← asOpt (asList asNat) (fldD j "minus_one" Json.null)
  let full ← asOpt asBool (fldD j "full" Json.null)
  let base := floorPts n
  let pts := match ptsO with
    | some p => p
    | none =>
      let m := minus.getD []
      (List.range base.length).map (fun i => if m.contains i then base.getD i 0 - 1 else base.getD i 0)
  let part := if full.getD false then decide ((splitIdx n pts).flatten = List.range n) else true
  let lens := if full.getD false then ofList ofNat ((splitIdx n pts).map List.length) else Json.null
  pure (obj [("ok", Json.bool (ptsOkB n pts)), ("float_model_equal", Json.bool (linspacePts n == pts)),
             ("n_chunks", ofNat (splitIdx n pts).length), ("partition", Json.bool part),
             ("lens", lens), ("chunked", Json.bool (Rsa.Gen.C19.chunked n))])

/-- `np.split(np.arange(n), pts)` and the exact-arithmetic linspace points -/
def splitOp (j : Json) : R Json := do
  let n ← fld j "n" >>= asNat
  let pts ← asOpt (asList asNat) (fldD j "pts" Json.null)
  let p := pts.getD (floorPts n)
  pure (obj [("pts", ofList ofNat p), ("chunks", ofList (ofList ofNat) (splitIdx n p))])

def handle : Handler := fun op j =>
  match op with
  | "c19.neighbors" => some (neighbors j)
  | "c19.volume" => some (volume j)
  | "c19.rdms" => some (rdms j)
  | "c19.collect" => some (collectOp j)
  | "c19.split" => some (splitOp j)
  | "c19.eval" => some (evalOp j)
  | "c19.points" => some (pointsOp j)
  | "c19.pipeline" => some (pipelineOp j)
  | "c19.evalkw" => some (evalKwOp j)
  | _ => none

end Rsa.Drv.C19
