import Rsa.Drv.C01
import Rsa.Drv.C02
import Rsa.Drv.C03
import Rsa.Drv.C04
import Rsa.Drv.C05
import Rsa.Drv.C06
import Rsa.Drv.C07
import Rsa.Drv.C08
import Rsa.Drv.C09
import Rsa.Drv.C10
import Rsa.Drv.C11
import Rsa.Drv.C12
import Rsa.Drv.C13
import Rsa.Drv.C14
import Rsa.Drv.C15
import Rsa.Drv.C16
import Rsa.Drv.C17
import Rsa.Drv.C18
import Rsa.Drv.C19
import Rsa.Drv.C20

open Lean Rsa.Wire

namespace Rsa.Drv

def handlers : List Handler := [
  C01.handle,
  C02.handle,
  C03.handle,
  C04.handle,
  C05.handle,
  C06.handle,
  C07.handle,
  C08.handle,
  C09.handle,
  C10.handle,
  C11.handle,
  C12.handle,
  C13.handle,
  C14.handle,
  C15.handle,
  C16.handle,
  C17.handle,
  C18.handle,
  C19.handle,
  C20.handle]

def dispatch (op : String) (j : Json) : Option (R Json) :=
  handlers.findSome? (fun h => h op j)

end Rsa.Drv
