/- driver ops for property C09 (model side of the correspondence) -/
import Rsa.Core.Wire
import Rsa.Core.Boot
import Rsa.Gen.C09

open Lean Rsa.Wire Rsa.Boot

namespace Rsa.Drv.C09

def asLbl (j : Json) : R Lbl :=
  match j with
  | .str s => pure (Lbl.str s)
  | _ => do let i ← asInt j; pure (Lbl.int i)

def ofLbl : Lbl → Json
  | .int i => ofInt i
  | .str s => Json.str s

def asDesc (j : Json) : R (Desc Lbl) := do
  let kvs ← asArr j
  kvs.mapM (fun kv => do
    match (← asArr kv) with
    | [k, v] => do pure ((← asStr k), (← asList asLbl v))
    | _ => throw "descriptor entry must be [key, values]")

def ofDesc (d : Desc Lbl) : Json :=
  Json.arr (d.map (fun kv => Json.arr #[Json.str kv.1, ofList ofLbl kv.2])).toArray

def asStack (j : Json) : R (Stack Lbl Rat) := do
  let n ← fld j "n_cond" >>= asNat
  let vecs ← fld j "vecs" >>= asList (asList (asOpt asRat))
  let rd ← fld j "rdm_desc" >>= asDesc
  let pd ← fld j "pat_desc" >>= asDesc
  pure { nCond := n, vecs := vecs, rdmDesc := rd, patDesc := pd }

/-- number of conditions the `RDMs` constructor recovers from a 2-d stack of these vectors
    (generated leaf `_get_n_from_reduced_vectors`); `null` for an empty stack -/
def recovered (s : Stack Lbl Rat) : Json :=
  match s.vecs with
  | [] => Json.null
  | v :: _ => ofNat (Rsa.Gen.C09.nFromReduced v.length)

def ofStack (s : Stack Lbl Rat) : Json :=
  obj [("n_cond", ofNat s.nCond),
       ("n_cond_2d", recovered s),
       ("vecs", ofList (ofList (ofOpt ofRat)) s.vecs),
       ("rdm_desc", ofDesc s.rdmDesc),
       ("pat_desc", ofDesc s.patDesc)]

def specJson (d : Desc Lbl) (k : String) : Json :=
  match d.lookup k with
  | none => Json.null
  | some desc => let sp := drawSpec Lbl.le desc; Json.arr #[ofNat sp.1, ofNat sp.2]

/-- one bootstrap draw: `mode` = both | rdm | pattern, draws as recorded from `randint` -/
def boot (j : Json) : R Json := do
  let s ← asStack j
  let mode ← fld j "mode" >>= asStr
  let rdmBy ← asStr (fldD j "rdm_by" (Json.str "index"))
  let patBy ← asStr (fldD j "pat_by" (Json.str "index"))
  let dr ← asList asNat (fldD j "draws_r" (Json.arr #[]))
  let dp ← asList asNat (fldD j "draws_p" (Json.arr #[]))
  match mode with
  | "both" =>
    match bootstrapSample Lbl.le s rdmBy patBy dr dp with
    | none => pure (obj [("exc", Json.str "KeyError")])
    | some (r, ri, pi) =>
      pure (obj [("stack", ofStack r), ("rdm_idx", ofList ofLbl ri), ("pat_idx", ofList ofLbl pi),
                 ("spec_r", specJson s.rdmDesc rdmBy), ("spec_p", specJson s.patDesc patBy)])
  | "rdm" =>
    match bootstrapSampleRdm Lbl.le s rdmBy dr with
    | none => pure (obj [("exc", Json.str "KeyError")])
    | some (r, ri) =>
      pure (obj [("stack", ofStack r), ("rdm_idx", ofList ofLbl ri), ("pat_idx", Json.null),
                 ("spec_r", specJson s.rdmDesc rdmBy), ("spec_p", Json.null)])
  | "pattern" =>
    match bootstrapSamplePattern Lbl.le s patBy dp with
    | none => pure (obj [("exc", Json.str "KeyError")])
    | some (r, pi) =>
      pure (obj [("stack", ofStack r), ("rdm_idx", Json.null), ("pat_idx", ofList ofLbl pi),
                 ("spec_r", Json.null), ("spec_p", specJson s.patDesc patBy)])
  | _ => throw s!"unknown mode {mode}"

/-- `subsample_pattern(by, value)` on any stack (resampling a model prediction) -/
def resample (j : Json) : R Json := do
  let s ← asStack j
  let patBy ← asStr (fldD j "pat_by" (Json.str "index"))
  let value ← fld j "value" >>= asList asLbl
  match s.subsamplePattern patBy value with
  | none => pure (obj [("exc", Json.str "KeyError")])
  | some r => pure (obj [("stack", ofStack r)])

/-- `subsample(by, value)` on any stack -/
def resampleRdm (j : Json) : R Json := do
  let s ← asStack j
  let rdmBy ← asStr (fldD j "rdm_by" (Json.str "index"))
  let value ← fld j "value" >>= asList asLbl
  match s.subsample rdmBy value with
  | none => pure (obj [("exc", Json.str "KeyError")])
  | some r => pure (obj [("stack", ofStack r)])

/-- `np.unique` of one descriptor -/
def unique (j : Json) : R Json := do
  let d ← fld j "desc" >>= asList asLbl
  pure (ofList ofLbl (uniq Lbl.le d))

def handle : Handler := fun op j =>
  match op with
  | "c09.boot" => some (boot j)
  | "c09.resample" => some (resample j)
  | "c09.resample_rdm" => some (resampleRdm j)
  | "c09.unique" => some (unique j)
  | _ => none

end Rsa.Drv.C09
