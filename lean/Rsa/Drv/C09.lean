/- driver ops for property C09 (model side of the correspondence) -/
import Rsa.Core.Wire
import Rsa.Core.Boot
import Rsa.Core.BootC09
import Rsa.Gen.C09

open Lean Rsa.Wire Rsa.Boot

namespace Rsa.Drv.C09

def asLbl (j : Json) : R Lbl :=
  match j with
  | .str s => pure (Lbl.str s)
  | _ => do let i ← asInt j; pure (Lbl.int i)

def ofLbl : Lbl → Json
  | .int i => ofInt i
  | .str s => Json.str s

def asDesc (j : Json) : R (Desc Lbl) := do
  let kvs ← asArr j
  kvs.mapM (fun kv => do
    match (← asArr kv) with
    | [k, v] => do pure ((← asStr k), (← asList asLbl v))
    | _ => throw "descriptor entry must be [key, values]")

def ofDesc (d : Desc Lbl) : Json :=
  Json.arr (d.map (fun kv => Json.arr #[Json.str kv.1, ofList ofLbl kv.2])).toArray

def asStack (j : Json) : R (Stack Lbl Rat) := do
  let n ← fld j "n_cond" >>= asNat
  let vecs ← fld j "vecs" >>= asList (asList (asOpt asRat))
  let rd ← fld j "rdm_desc" >>= asDesc
  let pd ← fld j "pat_desc" >>= asDesc
  pure { nCond := n, vecs := vecs, rdmDesc := rd, patDesc := pd }

/-- number of conditions the `RDMs` constructor recovers from a 2-d stack of these vectors
    (generated leaf `_get_n_from_reduced_vectors`); `null` for an empty stack -/
def recovered (s : Stack Lbl Rat) : Json :=
  match s.vecs with
  | [] => Json.null
  | v :: _ => ofNat (Rsa.Gen.C09.nFromReduced v.length)

def ofStack (s : Stack Lbl Rat) : Json :=
  obj [("n_cond", ofNat s.nCond),
       ("n_cond_2d", recovered s),
       ("vecs", ofList (ofList (ofOpt ofRat)) s.vecs),
       ("rdm_desc", ofDesc s.rdmDesc),
       ("pat_desc", ofDesc s.patDesc)]

/-- the `randint` request `[low, high, size]` of a call site, computed by the generated leaves -/
def specJson (site : Site) (d : Desc Lbl) (k : String) : Json :=
  match d.lookup k with
  | none => Json.null
  | some desc =>
    let rq := drawRequestNp site desc
    Json.arr #[ofNat rq.1, ofNat rq.2.1, ofNat rq.2.2]

/-- one bootstrap draw: `mode` = both | rdm | pattern, draws as recorded from `randint`.
    Runs the entry points *as coded* (numpy coercion, generated NaN leaf); `fixed` selects the
    repaired comparison of `RDMs.subsample` for mixed int/str descriptors. -/
def boot (j : Json) : R Json := do
  let s ← asStack j
  let mode ← fld j "mode" >>= asStr
  let rdmBy ← asStr (fldD j "rdm_by" (Json.str "index"))
  let patBy ← asStr (fldD j "pat_by" (Json.str "index"))
  let dr ← asList asNat (fldD j "draws_r" (Json.arr #[]))
  let dp ← asList asNat (fldD j "draws_p" (Json.arr #[]))
  let fixed := match fldD j "fixed" (Json.bool false) with | Json.bool b => b | _ => false
  match mode with
  | "both" =>
    match bootstrapSampleNp fixed s rdmBy patBy dr dp with
    | none => pure (obj [("exc", Json.str "KeyError")])
    | some (r, ri, pi) =>
      pure (obj [("stack", ofStack r), ("rdm_idx", ofList ofLbl ri), ("pat_idx", ofList ofLbl pi),
                 ("spec_r", specJson Site.bothR s.rdmDesc rdmBy),
                 ("spec_p", specJson Site.bothP s.patDesc patBy)])
  | "rdm" =>
    match bootstrapSampleRdmNp fixed s rdmBy dr with
    | none => pure (obj [("exc", Json.str "KeyError")])
    | some (r, ri) =>
      pure (obj [("stack", ofStack r), ("rdm_idx", ofList ofLbl ri), ("pat_idx", Json.null),
                 ("spec_r", specJson Site.rdm s.rdmDesc rdmBy), ("spec_p", Json.null)])
  | "pattern" =>
    match bootstrapSamplePatternNp s patBy dp with
    | none => pure (obj [("exc", Json.str "KeyError")])
    | some (r, pi) =>
      pure (obj [("stack", ofStack r), ("rdm_idx", Json.null), ("pat_idx", ofList ofLbl pi),
                 ("spec_r", Json.null), ("spec_p", specJson Site.pat s.patDesc patBy)])
  | _ => throw s!"unknown mode {mode}"

/-- `subsample_pattern(by, value)` on any stack (resampling a model prediction) -/
def resample (j : Json) : R Json := do
  let s ← asStack j
  let patBy ← asStr (fldD j "pat_by" (Json.str "index"))
  let value ← fld j "value" >>= asList asLbl
  match s.subsamplePatternNp patBy value with
  | none => pure (obj [("exc", Json.str "KeyError")])
  | some r => pure (obj [("stack", ofStack r)])

/-- `subsample(by, value)` on any stack -/
def resampleRdm (j : Json) : R Json := do
  let s ← asStack j
  let rdmBy ← asStr (fldD j "rdm_by" (Json.str "index"))
  let value ← fld j "value" >>= asList asLbl
  match s.subsample rdmBy value with
  | none => pure (obj [("exc", Json.str "KeyError")])
  | some r => pure (obj [("stack", ofStack r)])

/-- `np.unique` of one descriptor -/
def unique (j : Json) : R Json := do
  let d ← fld j "desc" >>= asList asLbl
  pure (ofList ofLbl (uniq Lbl.le d))

/-- one set of returned pattern indices applied to every prediction of a session -/
def resampleAllOp (j : Json) : R Json := do
  let ms ← fld j "stacks" >>= asList asStack
  let patBy ← asStr (fldD j "pat_by" (Json.str "index"))
  let value ← fld j "value" >>= asList asLbl
  pure (Json.arr ((resampleAll ms patBy value).map (fun r =>
    match r with
    | none => obj [("exc", Json.str "KeyError")]
    | some r => obj [("stack", ofStack r)])).toArray)

/-- `np.setdiff1d(desc, idx)` -/
def testIdxOp (j : Json) : R Json := do
  let d ← fld j "desc" >>= asList asLbl
  let idx ← fld j "idx" >>= asList asLbl
  pure (ofList ofLbl (testIdx Lbl.le d idx))

def ofOptL (o : Option (List Lbl)) : Json :=
  match o with
  | none => Json.null
  | some l => ofList ofLbl l

/-- one iteration of `bootstrap_testset` / `_pattern` / `_rdm` -/
def testsetOp (j : Json) : R Json := do
  let s ← asStack j
  let fn ← fld j "fn" >>= asStr
  let rdmBy ← asStr (fldD j "rdm_by" (Json.str "index"))
  let patBy ← asStr (fldD j "pat_by" (Json.str "index"))
  let dr ← asList asNat (fldD j "draws_r" (Json.arr #[]))
  let dp ← asList asNat (fldD j "draws_p" (Json.arr #[]))
  let f ← match fn with
    | "both" => pure TestFn.both
    | "pattern" => pure TestFn.pattern
    | "rdm" => pure TestFn.rdm
    | _ => throw s!"unknown fn {fn}"
  match bootTestset f s rdmBy patBy dr dp with
  | none => pure (obj [("exc", Json.str "KeyError")])
  | some r =>
    pure (obj [("stack", ofStack r.sample), ("rdm_idx", ofOptL r.rdmIdx), ("pat_idx", ofOptL r.patIdx),
               ("test_r", ofOptL r.testR), ("test_p", ofOptL r.testP),
               ("test", match r.test with | none => Json.null | some t => ofStack t)])

/-- `np.unique` of one descriptor with numpy's coercion -/
def uniqueNp (j : Json) : R Json := do
  let d ← fld j "desc" >>= asList asLbl
  pure (ofList ofLbl (uniq Lbl.le (npCoerce d)))

/-- one step of a multi-step session on one object (round 4) -/
def asStep (j : Json) : R (Step Lbl Rat) := do
  let kind ← fld j "do" >>= asStr
  match kind with
  | "reorder" => do
    let p ← fld j "order" >>= asList asNat
    pure (Step.op (InPlace.reorder p))
  | "set_pat" => do
    let k ← fld j "key" >>= asStr
    let v ← fld j "vals" >>= asList asLbl
    pure (Step.op (InPlace.setPat k v))
  | "write" => do
    let r ← fld j "r" >>= asNat
    let k ← fld j "k" >>= asNat
    let x ← fld j "val" >>= asOpt asRat
    pure (Step.op (InPlace.write r k x))
  | "draw" => do
    let patBy ← asStr (fldD j "pat_by" (Json.str "index"))
    let d ← fld j "draws" >>= asList asNat
    pure (Step.draw patBy d)
  | _ => throw s!"unknown step {kind}"

/-- a whole session from the *initial* content: the results of its draws, in order -/
def sessionOp (j : Json) : R Json := do
  let s ← asStack j
  let steps ← fld j "steps" >>= asList asStep
  pure (Json.arr ((runSession Lbl.le s steps).map (fun r =>
    match r with
    | none => obj [("exc", Json.str "KeyError")]
    | some (r, pi) => obj [("stack", ofStack r), ("pat_idx", ofList ofLbl pi)])).toArray)

/-- the `randint` request of a call site for the whole grouping descriptor (generated leaves) -/
def reqJson (site : Site) (desc : List Lbl) : Json :=
  let rq := drawRequestNp site desc
  Json.arr #[ofNat rq.1, ofNat rq.2.1, ofNat rq.2.2]

/-- round 6, large stacks: one bootstrap draw whose drawn values are computed from the *whole*
    grouping descriptors (`full_rdm`, `full_pat`) and the recorded draws, applied to a restriction of
    the stack to whole groups (`Rsa.Boot.largeSample`, the as-coded entry points on the restriction;
    theorems `subsample_rdm_local`, `subsamplePattern_rdm_local`).  `fn = direct`:
    `subsample_pattern(by, value)`. -/
def largeOp (j : Json) : R Json := do
  let s ← asStack j
  let fn ← fld j "fn" >>= asStr
  let rdmBy ← asStr (fldD j "rdm_by" (Json.str "index"))
  let patBy ← asStr (fldD j "pat_by" (Json.str "index"))
  let fullR ← asList asLbl (fldD j "full_rdm" (Json.arr #[]))
  let fullP ← asList asLbl (fldD j "full_pat" (Json.arr #[]))
  let dr ← asList asNat (fldD j "draws_r" (Json.arr #[]))
  let dp ← asList asNat (fldD j "draws_p" (Json.arr #[]))
  match fn with
  | "both" =>
    match largeSample s (some (rdmBy, fullR, dr)) (some (patBy, fullP, dp)) with
    | none => pure (obj [("exc", Json.str "KeyError")])
    | some (r, ri, pi) =>
      pure (obj [("stack", ofStack r), ("rdm_idx", ofList ofLbl ri), ("pat_idx", ofList ofLbl pi),
                 ("spec_r", reqJson Site.bothR fullR), ("spec_p", reqJson Site.bothP fullP)])
  | "rdm" =>
    match largeSample s (some (rdmBy, fullR, dr)) none with
    | none => pure (obj [("exc", Json.str "KeyError")])
    | some (r, ri, _) =>
      pure (obj [("stack", ofStack r), ("rdm_idx", ofList ofLbl ri), ("pat_idx", Json.null),
                 ("spec_r", reqJson Site.rdm fullR), ("spec_p", Json.null)])
  | "pattern" =>
    match largeSample s none (some (patBy, fullP, dp)) with
    | none => pure (obj [("exc", Json.str "KeyError")])
    | some (r, _, pi) =>
      pure (obj [("stack", ofStack r), ("rdm_idx", Json.null), ("pat_idx", ofList ofLbl pi),
                 ("spec_r", Json.null), ("spec_p", reqJson Site.pat fullP)])
  | "direct" => do
    let value ← fld j "value" >>= asList asLbl
    match s.subsamplePatternNp patBy value with
    | none => pure (obj [("exc", Json.str "KeyError")])
    | some r => pure (obj [("stack", ofStack r), ("rdm_idx", Json.null), ("pat_idx", Json.null),
                           ("spec_r", Json.null), ("spec_p", Json.null)])
  | _ => throw s!"unknown fn {fn}"

def handle : Handler := fun op j =>
  match op with
  | "c09.large" => some (largeOp j)
  | "c09.session" => some (sessionOp j)
  | "c09.boot" => some (boot j)
  | "c09.resample" => some (resample j)
  | "c09.resample_rdm" => some (resampleRdm j)
  | "c09.unique" => some (unique j)
  | "c09.unique_np" => some (uniqueNp j)
  | "c09.resample_all" => some (resampleAllOp j)
  | "c09.testidx" => some (testIdxOp j)
  | "c09.testset" => some (testsetOp j)
  | _ => none

end Rsa.Drv.C09
