/- driver ops for property C07 (model side of the correspondence) -/
import Rsa.Core.Wire
import Rsa.Core.Ceiling

open Lean Rsa.Wire Rsa.Ceiling

namespace Rsa.Drv.C07

def listFn (l : List Nat) : Nat → Nat := fun i => l.getD i 0

def asMethod (j : Json) : R Method := do
  let s ← asStr j
  match Method.ofString? s with
  | some m => pure m
  | none => throw s!"unknown method {s}"

def ofPair (p : Float × Float) : Json := obj [("lower", ofFloat p.1), ("upper", ofFloat p.2)]

def readObj (j : Json) (nR : Nat) : R Rsa.Folds.Obj := do
  let n ← fld j "n" >>= asNat
  let rdesc ← fld j "rdesc" >>= asList asNat
  let pdesc ← asList asNat (fldD j "pdesc" (ofList ofNat (List.range n)))
  pure { nR := nR, nC := n, rdesc := listFn rdesc, pdesc := listFn pdesc }

/-- `boot_noise_ceiling(rdms, method, rdm_descriptor)` and `pool_rdm(rdms, method)` -/
def bootOp (j : Json) : R Json := do
  let m ← fld j "method" >>= asMethod
  let rows ← fld j "rows" >>= asList (asList (asOpt asFloat))
  let o ← readObj j rows.length
  let pool := poolO m rows
  -- `util/pooling.pool_rdm` for the whitened measures: normalisation by the whitened norm
  let mask := maskOf (rows.headD [])
  let poolw : Json :=
    if m.needsV && commonMask rows then
      ofList (ofOpt ofFloat) (expand mask (poolW m (vFor m o.nC mask) (rows.map present)))
    else Json.null
  let complete := mask.all id && commonMask rows
  -- round 3: the bounds through the code path `compare` really takes for complete RDMs (linear-CKA
  -- shortcut for the whitened measures), and the group-weighted pool with its score
  let fast : Json :=
    if complete then
      let p := bootNoiseCeilingG (poolD m) (simFast o.nC m) (rows.map present) o
      obj [("lower", ofFloat p.1), ("upper", ofFloat p.2)]
    else Json.null
  let wp : Json :=
    match m with
    | .cosine | .corr =>
      if commonMask rows then
        let d := rows.map present
        let f : List Float → Float → Float := if m == .cosine then cosF else corrF
        let w := poolWeighted f (fun j => groupWeight o j) d
        obj [("pool", ofList (ofOpt ofFloat) (expand mask w)),
             ("score", ofFloat (candidateScore (simV m []) d o w))]
      else Json.null
    | _ => Json.null
  match bootNoiseCeilingO m o rows with
  | some p => pure (obj [("lower", ofFloat p.1), ("upper", ofFloat p.2),
      ("pool", ofList (ofOpt ofFloat) pool), ("poolw", poolw), ("fast", fast), ("wpool", wp),
      ("folds", ofNat (looFolds o).length)])
  | none => pure (obj [("exc", Json.str "ValueError"), ("pool", ofList (ofOpt ofFloat) pool)])

def asVals (j : Json) : R (Option (List Nat)) := asOpt (asList asNat) j

/-- one `(ceil_set[i], test_set[i])`: descriptor values of the training / test RDMs
    (`subsample`) and of the test conditions (`subset_pattern`) -/
def readFold (o : Rsa.Folds.Obj) (j : Json) : R CvFold := do
  if !(fldD j "test_rows" Json.null).isNull then
    -- explicit positions, read back from the objects a real generator returned
    let cr ← fld j "ceil_rows" >>= asList asNat
    let cc ← fld j "ceil_conds" >>= asList asNat
    let tr ← fld j "test_rows" >>= asList asNat
    let tc ← fld j "test_conds" >>= asList asNat
    let pidx ← fld j "pidx" >>= asList asNat
    return { ceil := { rows := cr, conds := cc, pidx := pidx },
             test := { rows := tr, conds := tc, pidx := pidx } }
  let rtrain ← asVals (fldD j "rtrain" Json.null)
  let rtest ← asVals (fldD j "rtest" Json.null)
  let ptest ← asVals (fldD j "ptest" Json.null)
  let sub ← asBool (fldD j "by_subset" (Json.bool false))
  pure { ceil := Rsa.Folds.mkPart o sub rtrain ptest, test := Rsa.Folds.mkPart o sub rtest ptest }

/-- `cv_noise_ceiling(rdms, ceil_set, test_set, method, pattern_descriptor)` -/
def cvOp (j : Json) : R Json := do
  let m ← fld j "method" >>= asMethod
  let rows ← fld j "rows" >>= asList (asList (asOpt asFloat))
  let o ← readObj j rows.length
  let folds ← fld j "folds" >>= asList (readFold o)
  -- round 7: the input of `cvPredTrain` per fold — the RDMs the ceiling set must hold (`partData` of
  -- the ceil part: the training RDMs restricted to the part's conditions)
  let ceilData : List (String × Json) :=
    match fldD j "want_ceil" Json.null with
    | Json.bool true =>
        [("ceil", ofList (fun f => ofList (ofList (ofOpt ofFloat)) (partData o.nC rows f.ceil))
            (folds.take (Rsa.Gen.C07.cvLoopLen folds.length)))]
    | _ => []
  match cvNoiseCeilingO m o rows folds with
  | some p => pure (obj ([("lower", ofFloat p.1), ("upper", ofFloat p.2)] ++ ceilData))
  | none => pure (obj ([("exc", Json.str "ValueError")] ++ ceilData))

/-- the score `boot_noise_ceiling`'s loop gives to a candidate RDM -/
def scoreOp (j : Json) : R Json := do
  let m ← fld j "method" >>= asMethod
  let rows ← fld j "rows" >>= asList (asList (asOpt asFloat))
  let cand ← fld j "cand" >>= asList (asOpt asFloat)
  let o ← readObj j rows.length
  let V : List (List Float) := vFor m o.nC (maskOf (rows.headD []))
  pure (ofFloat (candidateScore (simO m V) rows o cand))

/-- `pool_rdm` for the methods outside the property (plain NaN-aware mean for `euclid` /
    `neg_riem_dist`, mean of ranks for the tau measures) -/
def poolOnlyOp (j : Json) : R Json := do
  let rows ← fld j "rows" >>= asList (asList (asOpt asFloat))
  let norm ← fld j "norm" >>= asStr
  let pooled : List (Option Float) :=
    if norm = "rank" then nanMeanRows (rows.map (applyO rankF)) else nanMeanRows rows
  pure (ofList (ofOpt ofFloat) pooled)

/-- `_nonzero(norm)` entry-wise -/
def nonzeroOp (j : Json) : R Json := do
  let xs ← fld j "norms" >>= asList asFloat
  pure (ofList ofFloat (xs.map nonzero))

/-- round 4: a session — several calls on ONE object.  Every call is answered by the op of its function on
    the state the earlier calls left (`runSessionG` with `callEffect`, i.e. with the write counts read off
    the source); the answer carries the state after each call. -/
def sessionOp (j : Json) : R Json := do
  let rows ← fld j "rows" >>= asList (asList (asOpt asFloat))
  let cjs ← fld j "calls" >>= asList (fun c => (pure c : R Json))
  let calls ← cjs.mapM fun cj => do
    let fnS ← fld cj "fn" >>= asStr
    let effS ← asStr (fldD cj "effect" (Json.str fnS))
    let m : Method := match (fld cj "method" >>= asMethod) with
      | .ok m => m
      | .error _ => .rhoA          -- pool_rdm for the tau measures ranks like rho-a; euclid: see below
    let plain := fnS == "poolonly" && (match fld cj "norm" >>= asStr with | .ok "none" => true | _ => false)
    match Fn.ofString? effS with
    | some f => pure ((({ fn := f, m := m } : Call), plain), fnS, cj)
    | none => throw s!"unknown function {effS}"
  let eff : ((Call × Bool) × String × Json) → List (List (Option Float)) → List (List (Option Float)) :=
    -- the plain mean (euclid / neg_riem_dist) has no normalisation step that could run in place
    fun c s => if c.1.2 then s else callEffect c.1.1 s
  let result : ((Call × Bool) × String × Json) → List (List (Option Float)) → R Json := fun c s =>
    let cj := c.2.2.setObjVal! "rows" (ofList (ofList (ofOpt ofFloat)) s)
    match c.2.1 with
    | "cv" => cvOp cj
    | "poolonly" => poolOnlyOp cj
    | "evalfixed" => do
        let b ← bootOp cj
        let sc ← scoreOp cj
        pure (obj [("boot", b), ("score", sc)])
    | _ => bootOp cj
  let out ← (runSessionG eff result calls rows).mapM fun rs => do
    let r ← rs.1
    pure (obj [("res", r), ("state", ofList (ofList (ofOpt ofFloat)) rs.2)])
  pure (Json.arr out.toArray)

def handle : Handler := fun op j =>
  match op with
  | "c07.nonzero" => some (nonzeroOp j)
  | "c07.poolonly" => some (poolOnlyOp j)
  | "c07.boot" => some (bootOp j)
  | "c07.cv" => some (cvOp j)
  | "c07.score" => some (scoreOp j)
  | "c07.session" => some (sessionOp j)
  | _ => none

end Rsa.Drv.C07
